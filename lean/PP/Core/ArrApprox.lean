import PP.Core.Traits
/-! `approx` on `[f64; N]` goes through the slice impl: same length (always) and lane-wise. Generated once. -/
variable {F : Type} [FloatLike F]
instance instAbsDiffEqArr1 : AbsDiffEq (Arr1 F) F := ⟨fun a b eps => AbsDiffEq.absDiffEq a.toList b.toList eps⟩
instance instRelativeEqArr1 : RelativeEq (Arr1 F) F := ⟨fun a b eps mr => RelativeEq.relativeEq a.toList b.toList eps mr⟩
instance instAbsDiffEqArr2 : AbsDiffEq (Arr2 F) F := ⟨fun a b eps => AbsDiffEq.absDiffEq a.toList b.toList eps⟩
instance instRelativeEqArr2 : RelativeEq (Arr2 F) F := ⟨fun a b eps mr => RelativeEq.relativeEq a.toList b.toList eps mr⟩
instance instAbsDiffEqArr3 : AbsDiffEq (Arr3 F) F := ⟨fun a b eps => AbsDiffEq.absDiffEq a.toList b.toList eps⟩
instance instRelativeEqArr3 : RelativeEq (Arr3 F) F := ⟨fun a b eps mr => RelativeEq.relativeEq a.toList b.toList eps mr⟩
instance instAbsDiffEqArr4 : AbsDiffEq (Arr4 F) F := ⟨fun a b eps => AbsDiffEq.absDiffEq a.toList b.toList eps⟩
instance instRelativeEqArr4 : RelativeEq (Arr4 F) F := ⟨fun a b eps mr => RelativeEq.relativeEq a.toList b.toList eps mr⟩
instance instAbsDiffEqArr5 : AbsDiffEq (Arr5 F) F := ⟨fun a b eps => AbsDiffEq.absDiffEq a.toList b.toList eps⟩
instance instRelativeEqArr5 : RelativeEq (Arr5 F) F := ⟨fun a b eps mr => RelativeEq.relativeEq a.toList b.toList eps mr⟩
instance instAbsDiffEqArr6 : AbsDiffEq (Arr6 F) F := ⟨fun a b eps => AbsDiffEq.absDiffEq a.toList b.toList eps⟩
instance instRelativeEqArr6 : RelativeEq (Arr6 F) F := ⟨fun a b eps mr => RelativeEq.relativeEq a.toList b.toList eps mr⟩
instance instAbsDiffEqArr7 : AbsDiffEq (Arr7 F) F := ⟨fun a b eps => AbsDiffEq.absDiffEq a.toList b.toList eps⟩
instance instRelativeEqArr7 : RelativeEq (Arr7 F) F := ⟨fun a b eps mr => RelativeEq.relativeEq a.toList b.toList eps mr⟩
instance instAbsDiffEqArr8 : AbsDiffEq (Arr8 F) F := ⟨fun a b eps => AbsDiffEq.absDiffEq a.toList b.toList eps⟩
instance instRelativeEqArr8 : RelativeEq (Arr8 F) F := ⟨fun a b eps mr => RelativeEq.relativeEq a.toList b.toList eps mr⟩
instance instAbsDiffEqArr9 : AbsDiffEq (Arr9 F) F := ⟨fun a b eps => AbsDiffEq.absDiffEq a.toList b.toList eps⟩
instance instRelativeEqArr9 : RelativeEq (Arr9 F) F := ⟨fun a b eps mr => RelativeEq.relativeEq a.toList b.toList eps mr⟩
instance instAbsDiffEqArr10 : AbsDiffEq (Arr10 F) F := ⟨fun a b eps => AbsDiffEq.absDiffEq a.toList b.toList eps⟩
instance instRelativeEqArr10 : RelativeEq (Arr10 F) F := ⟨fun a b eps mr => RelativeEq.relativeEq a.toList b.toList eps mr⟩
instance instAbsDiffEqArr11 : AbsDiffEq (Arr11 F) F := ⟨fun a b eps => AbsDiffEq.absDiffEq a.toList b.toList eps⟩
instance instRelativeEqArr11 : RelativeEq (Arr11 F) F := ⟨fun a b eps mr => RelativeEq.relativeEq a.toList b.toList eps mr⟩
instance instAbsDiffEqArr12 : AbsDiffEq (Arr12 F) F := ⟨fun a b eps => AbsDiffEq.absDiffEq a.toList b.toList eps⟩
instance instRelativeEqArr12 : RelativeEq (Arr12 F) F := ⟨fun a b eps mr => RelativeEq.relativeEq a.toList b.toList eps mr⟩
instance instAbsDiffEqArr13 : AbsDiffEq (Arr13 F) F := ⟨fun a b eps => AbsDiffEq.absDiffEq a.toList b.toList eps⟩
instance instRelativeEqArr13 : RelativeEq (Arr13 F) F := ⟨fun a b eps mr => RelativeEq.relativeEq a.toList b.toList eps mr⟩
instance instAbsDiffEqArr14 : AbsDiffEq (Arr14 F) F := ⟨fun a b eps => AbsDiffEq.absDiffEq a.toList b.toList eps⟩
instance instRelativeEqArr14 : RelativeEq (Arr14 F) F := ⟨fun a b eps mr => RelativeEq.relativeEq a.toList b.toList eps mr⟩
instance instAbsDiffEqArr15 : AbsDiffEq (Arr15 F) F := ⟨fun a b eps => AbsDiffEq.absDiffEq a.toList b.toList eps⟩
instance instRelativeEqArr15 : RelativeEq (Arr15 F) F := ⟨fun a b eps mr => RelativeEq.relativeEq a.toList b.toList eps mr⟩
instance instAbsDiffEqArr16 : AbsDiffEq (Arr16 F) F := ⟨fun a b eps => AbsDiffEq.absDiffEq a.toList b.toList eps⟩
instance instRelativeEqArr16 : RelativeEq (Arr16 F) F := ⟨fun a b eps mr => RelativeEq.relativeEq a.toList b.toList eps mr⟩
