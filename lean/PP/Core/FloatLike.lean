/-!
# `FloatLike`: the abstract number type of the model

Every `f64` in `/repo/src` becomes a type parameter `F` with a `FloatLike F` instance.  The model is
polymorphic in `F`, so one and the same (generated) program is run
* on `F64` (bit-exact soft-float, `PP/Core/F64.lean`) for the correspondence check,
* on a field `K` (`PP/Sem/Exact.lean`) for the algebraic theorems,
* on `Tr M` / `Ct M` (`PP/Sem/Tracked.lean`, `PP/Sem/Count.lean`) for the rounding-error theorems.

Core Lean only (no Mathlib): this file is linked into the `ppdrv` executable.
-/

class FloatLike (F : Type) where
  add : F → F → F
  sub : F → F → F
  mul : F → F → F
  div : F → F → F
  neg : F → F
  abs : F → F
  /-- `a.mul_add(b, c)`: `a*b + c` with ONE rounding -/
  fma : F → F → F → F
  /-- `f64::max` (a NaN operand is ignored) -/
  max : F → F → F
  /-- decimal literal `m · 10^e`, correctly rounded; `-1.71 = neg (ofDec 171 (-2))` -/
  ofDec : Int → Int → F
  /-- `f64::EPSILON` -/
  epsilon : F
  /-- IEEE `<`, `<=`, `==`: false as soon as one side is NaN -/
  lt : F → F → Bool
  le : F → F → Bool
  feq : F → F → Bool
  isNaN : F → Bool
  isInf : F → Bool
  /-- libm; uninterpreted (the harness supplies the values, the theorems take them as parameters) -/
  ln : F → F
  exp : F → F

namespace FloatLike
variable {F : Type} [FloatLike F]
/-- `x.recip()` is `1.0 / x` -/
@[reducible] def recip (x : F) : F := div (ofDec 1 0) x
@[reducible] def gt (a b : F) : Bool := lt b a
@[reducible] def ge (a b : F) : Bool := le b a
@[reducible] def fne (a b : F) : Bool := !feq a b
end FloatLike

/-! Overloaded operators of the source (`std::ops`), resolved by Lean's instance search exactly as
rustc resolves the trait impls.  On the scalar type they are the `FloatLike` operations. -/
class PMul (A : Type) (B : Type) (C : outParam Type) where mul : A → B → C
class PAdd (A : Type) (B : Type) (C : outParam Type) where add : A → B → C
class PSub (A : Type) (B : Type) (C : outParam Type) where sub : A → B → C
class PDiv (A : Type) (B : Type) (C : outParam Type) where div : A → B → C
class PNeg (A : Type) (C : outParam Type) where neg : A → C
class PMulAssign (A : Type) (B : Type) where mulAssign : A → B → A
class PAddAssign (A : Type) (B : Type) where addAssign : A → B → A
class PSubAssign (A : Type) (B : Type) where subAssign : A → B → A

section
variable {F : Type} [FloatLike F]
instance instPMulFloat : PMul F F F := ⟨FloatLike.mul⟩
instance instPAddFloat : PAdd F F F := ⟨FloatLike.add⟩
instance instPSubFloat : PSub F F F := ⟨FloatLike.sub⟩
instance instPDivFloat : PDiv F F F := ⟨FloatLike.div⟩
instance instPNegFloat : PNeg F F := ⟨FloatLike.neg⟩
instance instPMulAssignFloat : PMulAssign F F := ⟨FloatLike.mul⟩
instance instPAddAssignFloat : PAddAssign F F := ⟨FloatLike.add⟩
instance instPSubAssignFloat : PSubAssign F F := ⟨FloatLike.sub⟩
end
