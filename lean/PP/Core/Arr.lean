/-! Fixed-size arrays `[f64; N]` as structures with named lanes: `c[3]` is `c.a3`.
Generated once by a script; core Lean only. -/

class ArrLike (A : Type) (F : outParam Type) where
  toList : A → List F
  map : (F → F) → A → A
  zipWith : (F → F → F) → A → A → A

structure Arr1 (F : Type) where
  a0 : F
deriving DecidableEq, Repr
namespace Arr1
variable {F : Type}
@[reducible] def toList (a : Arr1 F) : List F := [a.a0]
@[reducible] def map (f : F → F) (a : Arr1 F) : Arr1 F := ⟨f a.a0⟩
@[reducible] def zipWith (f : F → F → F) (a b : Arr1 F) : Arr1 F := ⟨f a.a0 b.a0⟩
def ofList? : List F → Option (Arr1 F)
  | [a0] => some ⟨a0⟩
  | _ => none
end Arr1
instance {F : Type} : ArrLike (Arr1 F) F := ⟨Arr1.toList, Arr1.map, Arr1.zipWith⟩

structure Arr2 (F : Type) where
  a0 : F
  a1 : F
deriving DecidableEq, Repr
namespace Arr2
variable {F : Type}
@[reducible] def toList (a : Arr2 F) : List F := [a.a0, a.a1]
@[reducible] def map (f : F → F) (a : Arr2 F) : Arr2 F := ⟨f a.a0, f a.a1⟩
@[reducible] def zipWith (f : F → F → F) (a b : Arr2 F) : Arr2 F := ⟨f a.a0 b.a0, f a.a1 b.a1⟩
def ofList? : List F → Option (Arr2 F)
  | [a0, a1] => some ⟨a0, a1⟩
  | _ => none
end Arr2
instance {F : Type} : ArrLike (Arr2 F) F := ⟨Arr2.toList, Arr2.map, Arr2.zipWith⟩

structure Arr3 (F : Type) where
  a0 : F
  a1 : F
  a2 : F
deriving DecidableEq, Repr
namespace Arr3
variable {F : Type}
@[reducible] def toList (a : Arr3 F) : List F := [a.a0, a.a1, a.a2]
@[reducible] def map (f : F → F) (a : Arr3 F) : Arr3 F := ⟨f a.a0, f a.a1, f a.a2⟩
@[reducible] def zipWith (f : F → F → F) (a b : Arr3 F) : Arr3 F := ⟨f a.a0 b.a0, f a.a1 b.a1, f a.a2 b.a2⟩
def ofList? : List F → Option (Arr3 F)
  | [a0, a1, a2] => some ⟨a0, a1, a2⟩
  | _ => none
end Arr3
instance {F : Type} : ArrLike (Arr3 F) F := ⟨Arr3.toList, Arr3.map, Arr3.zipWith⟩

structure Arr4 (F : Type) where
  a0 : F
  a1 : F
  a2 : F
  a3 : F
deriving DecidableEq, Repr
namespace Arr4
variable {F : Type}
@[reducible] def toList (a : Arr4 F) : List F := [a.a0, a.a1, a.a2, a.a3]
@[reducible] def map (f : F → F) (a : Arr4 F) : Arr4 F := ⟨f a.a0, f a.a1, f a.a2, f a.a3⟩
@[reducible] def zipWith (f : F → F → F) (a b : Arr4 F) : Arr4 F := ⟨f a.a0 b.a0, f a.a1 b.a1, f a.a2 b.a2, f a.a3 b.a3⟩
def ofList? : List F → Option (Arr4 F)
  | [a0, a1, a2, a3] => some ⟨a0, a1, a2, a3⟩
  | _ => none
end Arr4
instance {F : Type} : ArrLike (Arr4 F) F := ⟨Arr4.toList, Arr4.map, Arr4.zipWith⟩

structure Arr5 (F : Type) where
  a0 : F
  a1 : F
  a2 : F
  a3 : F
  a4 : F
deriving DecidableEq, Repr
namespace Arr5
variable {F : Type}
@[reducible] def toList (a : Arr5 F) : List F := [a.a0, a.a1, a.a2, a.a3, a.a4]
@[reducible] def map (f : F → F) (a : Arr5 F) : Arr5 F := ⟨f a.a0, f a.a1, f a.a2, f a.a3, f a.a4⟩
@[reducible] def zipWith (f : F → F → F) (a b : Arr5 F) : Arr5 F := ⟨f a.a0 b.a0, f a.a1 b.a1, f a.a2 b.a2, f a.a3 b.a3, f a.a4 b.a4⟩
def ofList? : List F → Option (Arr5 F)
  | [a0, a1, a2, a3, a4] => some ⟨a0, a1, a2, a3, a4⟩
  | _ => none
end Arr5
instance {F : Type} : ArrLike (Arr5 F) F := ⟨Arr5.toList, Arr5.map, Arr5.zipWith⟩

structure Arr6 (F : Type) where
  a0 : F
  a1 : F
  a2 : F
  a3 : F
  a4 : F
  a5 : F
deriving DecidableEq, Repr
namespace Arr6
variable {F : Type}
@[reducible] def toList (a : Arr6 F) : List F := [a.a0, a.a1, a.a2, a.a3, a.a4, a.a5]
@[reducible] def map (f : F → F) (a : Arr6 F) : Arr6 F := ⟨f a.a0, f a.a1, f a.a2, f a.a3, f a.a4, f a.a5⟩
@[reducible] def zipWith (f : F → F → F) (a b : Arr6 F) : Arr6 F := ⟨f a.a0 b.a0, f a.a1 b.a1, f a.a2 b.a2, f a.a3 b.a3, f a.a4 b.a4, f a.a5 b.a5⟩
def ofList? : List F → Option (Arr6 F)
  | [a0, a1, a2, a3, a4, a5] => some ⟨a0, a1, a2, a3, a4, a5⟩
  | _ => none
end Arr6
instance {F : Type} : ArrLike (Arr6 F) F := ⟨Arr6.toList, Arr6.map, Arr6.zipWith⟩

structure Arr7 (F : Type) where
  a0 : F
  a1 : F
  a2 : F
  a3 : F
  a4 : F
  a5 : F
  a6 : F
deriving DecidableEq, Repr
namespace Arr7
variable {F : Type}
@[reducible] def toList (a : Arr7 F) : List F := [a.a0, a.a1, a.a2, a.a3, a.a4, a.a5, a.a6]
@[reducible] def map (f : F → F) (a : Arr7 F) : Arr7 F := ⟨f a.a0, f a.a1, f a.a2, f a.a3, f a.a4, f a.a5, f a.a6⟩
@[reducible] def zipWith (f : F → F → F) (a b : Arr7 F) : Arr7 F := ⟨f a.a0 b.a0, f a.a1 b.a1, f a.a2 b.a2, f a.a3 b.a3, f a.a4 b.a4, f a.a5 b.a5, f a.a6 b.a6⟩
def ofList? : List F → Option (Arr7 F)
  | [a0, a1, a2, a3, a4, a5, a6] => some ⟨a0, a1, a2, a3, a4, a5, a6⟩
  | _ => none
end Arr7
instance {F : Type} : ArrLike (Arr7 F) F := ⟨Arr7.toList, Arr7.map, Arr7.zipWith⟩

structure Arr8 (F : Type) where
  a0 : F
  a1 : F
  a2 : F
  a3 : F
  a4 : F
  a5 : F
  a6 : F
  a7 : F
deriving DecidableEq, Repr
namespace Arr8
variable {F : Type}
@[reducible] def toList (a : Arr8 F) : List F := [a.a0, a.a1, a.a2, a.a3, a.a4, a.a5, a.a6, a.a7]
@[reducible] def map (f : F → F) (a : Arr8 F) : Arr8 F := ⟨f a.a0, f a.a1, f a.a2, f a.a3, f a.a4, f a.a5, f a.a6, f a.a7⟩
@[reducible] def zipWith (f : F → F → F) (a b : Arr8 F) : Arr8 F := ⟨f a.a0 b.a0, f a.a1 b.a1, f a.a2 b.a2, f a.a3 b.a3, f a.a4 b.a4, f a.a5 b.a5, f a.a6 b.a6, f a.a7 b.a7⟩
def ofList? : List F → Option (Arr8 F)
  | [a0, a1, a2, a3, a4, a5, a6, a7] => some ⟨a0, a1, a2, a3, a4, a5, a6, a7⟩
  | _ => none
end Arr8
instance {F : Type} : ArrLike (Arr8 F) F := ⟨Arr8.toList, Arr8.map, Arr8.zipWith⟩

structure Arr9 (F : Type) where
  a0 : F
  a1 : F
  a2 : F
  a3 : F
  a4 : F
  a5 : F
  a6 : F
  a7 : F
  a8 : F
deriving DecidableEq, Repr
namespace Arr9
variable {F : Type}
@[reducible] def toList (a : Arr9 F) : List F := [a.a0, a.a1, a.a2, a.a3, a.a4, a.a5, a.a6, a.a7, a.a8]
@[reducible] def map (f : F → F) (a : Arr9 F) : Arr9 F := ⟨f a.a0, f a.a1, f a.a2, f a.a3, f a.a4, f a.a5, f a.a6, f a.a7, f a.a8⟩
@[reducible] def zipWith (f : F → F → F) (a b : Arr9 F) : Arr9 F := ⟨f a.a0 b.a0, f a.a1 b.a1, f a.a2 b.a2, f a.a3 b.a3, f a.a4 b.a4, f a.a5 b.a5, f a.a6 b.a6, f a.a7 b.a7, f a.a8 b.a8⟩
def ofList? : List F → Option (Arr9 F)
  | [a0, a1, a2, a3, a4, a5, a6, a7, a8] => some ⟨a0, a1, a2, a3, a4, a5, a6, a7, a8⟩
  | _ => none
end Arr9
instance {F : Type} : ArrLike (Arr9 F) F := ⟨Arr9.toList, Arr9.map, Arr9.zipWith⟩

structure Arr10 (F : Type) where
  a0 : F
  a1 : F
  a2 : F
  a3 : F
  a4 : F
  a5 : F
  a6 : F
  a7 : F
  a8 : F
  a9 : F
deriving DecidableEq, Repr
namespace Arr10
variable {F : Type}
@[reducible] def toList (a : Arr10 F) : List F := [a.a0, a.a1, a.a2, a.a3, a.a4, a.a5, a.a6, a.a7, a.a8, a.a9]
@[reducible] def map (f : F → F) (a : Arr10 F) : Arr10 F := ⟨f a.a0, f a.a1, f a.a2, f a.a3, f a.a4, f a.a5, f a.a6, f a.a7, f a.a8, f a.a9⟩
@[reducible] def zipWith (f : F → F → F) (a b : Arr10 F) : Arr10 F := ⟨f a.a0 b.a0, f a.a1 b.a1, f a.a2 b.a2, f a.a3 b.a3, f a.a4 b.a4, f a.a5 b.a5, f a.a6 b.a6, f a.a7 b.a7, f a.a8 b.a8, f a.a9 b.a9⟩
def ofList? : List F → Option (Arr10 F)
  | [a0, a1, a2, a3, a4, a5, a6, a7, a8, a9] => some ⟨a0, a1, a2, a3, a4, a5, a6, a7, a8, a9⟩
  | _ => none
end Arr10
instance {F : Type} : ArrLike (Arr10 F) F := ⟨Arr10.toList, Arr10.map, Arr10.zipWith⟩

structure Arr11 (F : Type) where
  a0 : F
  a1 : F
  a2 : F
  a3 : F
  a4 : F
  a5 : F
  a6 : F
  a7 : F
  a8 : F
  a9 : F
  a10 : F
deriving DecidableEq, Repr
namespace Arr11
variable {F : Type}
@[reducible] def toList (a : Arr11 F) : List F := [a.a0, a.a1, a.a2, a.a3, a.a4, a.a5, a.a6, a.a7, a.a8, a.a9, a.a10]
@[reducible] def map (f : F → F) (a : Arr11 F) : Arr11 F := ⟨f a.a0, f a.a1, f a.a2, f a.a3, f a.a4, f a.a5, f a.a6, f a.a7, f a.a8, f a.a9, f a.a10⟩
@[reducible] def zipWith (f : F → F → F) (a b : Arr11 F) : Arr11 F := ⟨f a.a0 b.a0, f a.a1 b.a1, f a.a2 b.a2, f a.a3 b.a3, f a.a4 b.a4, f a.a5 b.a5, f a.a6 b.a6, f a.a7 b.a7, f a.a8 b.a8, f a.a9 b.a9, f a.a10 b.a10⟩
def ofList? : List F → Option (Arr11 F)
  | [a0, a1, a2, a3, a4, a5, a6, a7, a8, a9, a10] => some ⟨a0, a1, a2, a3, a4, a5, a6, a7, a8, a9, a10⟩
  | _ => none
end Arr11
instance {F : Type} : ArrLike (Arr11 F) F := ⟨Arr11.toList, Arr11.map, Arr11.zipWith⟩

structure Arr12 (F : Type) where
  a0 : F
  a1 : F
  a2 : F
  a3 : F
  a4 : F
  a5 : F
  a6 : F
  a7 : F
  a8 : F
  a9 : F
  a10 : F
  a11 : F
deriving DecidableEq, Repr
namespace Arr12
variable {F : Type}
@[reducible] def toList (a : Arr12 F) : List F := [a.a0, a.a1, a.a2, a.a3, a.a4, a.a5, a.a6, a.a7, a.a8, a.a9, a.a10, a.a11]
@[reducible] def map (f : F → F) (a : Arr12 F) : Arr12 F := ⟨f a.a0, f a.a1, f a.a2, f a.a3, f a.a4, f a.a5, f a.a6, f a.a7, f a.a8, f a.a9, f a.a10, f a.a11⟩
@[reducible] def zipWith (f : F → F → F) (a b : Arr12 F) : Arr12 F := ⟨f a.a0 b.a0, f a.a1 b.a1, f a.a2 b.a2, f a.a3 b.a3, f a.a4 b.a4, f a.a5 b.a5, f a.a6 b.a6, f a.a7 b.a7, f a.a8 b.a8, f a.a9 b.a9, f a.a10 b.a10, f a.a11 b.a11⟩
def ofList? : List F → Option (Arr12 F)
  | [a0, a1, a2, a3, a4, a5, a6, a7, a8, a9, a10, a11] => some ⟨a0, a1, a2, a3, a4, a5, a6, a7, a8, a9, a10, a11⟩
  | _ => none
end Arr12
instance {F : Type} : ArrLike (Arr12 F) F := ⟨Arr12.toList, Arr12.map, Arr12.zipWith⟩

structure Arr13 (F : Type) where
  a0 : F
  a1 : F
  a2 : F
  a3 : F
  a4 : F
  a5 : F
  a6 : F
  a7 : F
  a8 : F
  a9 : F
  a10 : F
  a11 : F
  a12 : F
deriving DecidableEq, Repr
namespace Arr13
variable {F : Type}
@[reducible] def toList (a : Arr13 F) : List F := [a.a0, a.a1, a.a2, a.a3, a.a4, a.a5, a.a6, a.a7, a.a8, a.a9, a.a10, a.a11, a.a12]
@[reducible] def map (f : F → F) (a : Arr13 F) : Arr13 F := ⟨f a.a0, f a.a1, f a.a2, f a.a3, f a.a4, f a.a5, f a.a6, f a.a7, f a.a8, f a.a9, f a.a10, f a.a11, f a.a12⟩
@[reducible] def zipWith (f : F → F → F) (a b : Arr13 F) : Arr13 F := ⟨f a.a0 b.a0, f a.a1 b.a1, f a.a2 b.a2, f a.a3 b.a3, f a.a4 b.a4, f a.a5 b.a5, f a.a6 b.a6, f a.a7 b.a7, f a.a8 b.a8, f a.a9 b.a9, f a.a10 b.a10, f a.a11 b.a11, f a.a12 b.a12⟩
def ofList? : List F → Option (Arr13 F)
  | [a0, a1, a2, a3, a4, a5, a6, a7, a8, a9, a10, a11, a12] => some ⟨a0, a1, a2, a3, a4, a5, a6, a7, a8, a9, a10, a11, a12⟩
  | _ => none
end Arr13
instance {F : Type} : ArrLike (Arr13 F) F := ⟨Arr13.toList, Arr13.map, Arr13.zipWith⟩

structure Arr14 (F : Type) where
  a0 : F
  a1 : F
  a2 : F
  a3 : F
  a4 : F
  a5 : F
  a6 : F
  a7 : F
  a8 : F
  a9 : F
  a10 : F
  a11 : F
  a12 : F
  a13 : F
deriving DecidableEq, Repr
namespace Arr14
variable {F : Type}
@[reducible] def toList (a : Arr14 F) : List F := [a.a0, a.a1, a.a2, a.a3, a.a4, a.a5, a.a6, a.a7, a.a8, a.a9, a.a10, a.a11, a.a12, a.a13]
@[reducible] def map (f : F → F) (a : Arr14 F) : Arr14 F := ⟨f a.a0, f a.a1, f a.a2, f a.a3, f a.a4, f a.a5, f a.a6, f a.a7, f a.a8, f a.a9, f a.a10, f a.a11, f a.a12, f a.a13⟩
@[reducible] def zipWith (f : F → F → F) (a b : Arr14 F) : Arr14 F := ⟨f a.a0 b.a0, f a.a1 b.a1, f a.a2 b.a2, f a.a3 b.a3, f a.a4 b.a4, f a.a5 b.a5, f a.a6 b.a6, f a.a7 b.a7, f a.a8 b.a8, f a.a9 b.a9, f a.a10 b.a10, f a.a11 b.a11, f a.a12 b.a12, f a.a13 b.a13⟩
def ofList? : List F → Option (Arr14 F)
  | [a0, a1, a2, a3, a4, a5, a6, a7, a8, a9, a10, a11, a12, a13] => some ⟨a0, a1, a2, a3, a4, a5, a6, a7, a8, a9, a10, a11, a12, a13⟩
  | _ => none
end Arr14
instance {F : Type} : ArrLike (Arr14 F) F := ⟨Arr14.toList, Arr14.map, Arr14.zipWith⟩

structure Arr15 (F : Type) where
  a0 : F
  a1 : F
  a2 : F
  a3 : F
  a4 : F
  a5 : F
  a6 : F
  a7 : F
  a8 : F
  a9 : F
  a10 : F
  a11 : F
  a12 : F
  a13 : F
  a14 : F
deriving DecidableEq, Repr
namespace Arr15
variable {F : Type}
@[reducible] def toList (a : Arr15 F) : List F := [a.a0, a.a1, a.a2, a.a3, a.a4, a.a5, a.a6, a.a7, a.a8, a.a9, a.a10, a.a11, a.a12, a.a13, a.a14]
@[reducible] def map (f : F → F) (a : Arr15 F) : Arr15 F := ⟨f a.a0, f a.a1, f a.a2, f a.a3, f a.a4, f a.a5, f a.a6, f a.a7, f a.a8, f a.a9, f a.a10, f a.a11, f a.a12, f a.a13, f a.a14⟩
@[reducible] def zipWith (f : F → F → F) (a b : Arr15 F) : Arr15 F := ⟨f a.a0 b.a0, f a.a1 b.a1, f a.a2 b.a2, f a.a3 b.a3, f a.a4 b.a4, f a.a5 b.a5, f a.a6 b.a6, f a.a7 b.a7, f a.a8 b.a8, f a.a9 b.a9, f a.a10 b.a10, f a.a11 b.a11, f a.a12 b.a12, f a.a13 b.a13, f a.a14 b.a14⟩
def ofList? : List F → Option (Arr15 F)
  | [a0, a1, a2, a3, a4, a5, a6, a7, a8, a9, a10, a11, a12, a13, a14] => some ⟨a0, a1, a2, a3, a4, a5, a6, a7, a8, a9, a10, a11, a12, a13, a14⟩
  | _ => none
end Arr15
instance {F : Type} : ArrLike (Arr15 F) F := ⟨Arr15.toList, Arr15.map, Arr15.zipWith⟩

structure Arr16 (F : Type) where
  a0 : F
  a1 : F
  a2 : F
  a3 : F
  a4 : F
  a5 : F
  a6 : F
  a7 : F
  a8 : F
  a9 : F
  a10 : F
  a11 : F
  a12 : F
  a13 : F
  a14 : F
  a15 : F
deriving DecidableEq, Repr
namespace Arr16
variable {F : Type}
@[reducible] def toList (a : Arr16 F) : List F := [a.a0, a.a1, a.a2, a.a3, a.a4, a.a5, a.a6, a.a7, a.a8, a.a9, a.a10, a.a11, a.a12, a.a13, a.a14, a.a15]
@[reducible] def map (f : F → F) (a : Arr16 F) : Arr16 F := ⟨f a.a0, f a.a1, f a.a2, f a.a3, f a.a4, f a.a5, f a.a6, f a.a7, f a.a8, f a.a9, f a.a10, f a.a11, f a.a12, f a.a13, f a.a14, f a.a15⟩
@[reducible] def zipWith (f : F → F → F) (a b : Arr16 F) : Arr16 F := ⟨f a.a0 b.a0, f a.a1 b.a1, f a.a2 b.a2, f a.a3 b.a3, f a.a4 b.a4, f a.a5 b.a5, f a.a6 b.a6, f a.a7 b.a7, f a.a8 b.a8, f a.a9 b.a9, f a.a10 b.a10, f a.a11 b.a11, f a.a12 b.a12, f a.a13 b.a13, f a.a14 b.a14, f a.a15 b.a15⟩
def ofList? : List F → Option (Arr16 F)
  | [a0, a1, a2, a3, a4, a5, a6, a7, a8, a9, a10, a11, a12, a13, a14, a15] => some ⟨a0, a1, a2, a3, a4, a5, a6, a7, a8, a9, a10, a11, a12, a13, a14, a15⟩
  | _ => none
end Arr16
instance {F : Type} : ArrLike (Arr16 F) F := ⟨Arr16.toList, Arr16.map, Arr16.zipWith⟩
