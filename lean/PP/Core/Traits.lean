import PP.Core.FloatLike
import PP.Core.Arr
/-!
# The traits of `/repo/src/poly.rs` and of the `approx` crate, as Lean classes

A Rust `impl Trait for Type` becomes an `instance`; associated types become `outParam`s, so that Lean's
instance search performs the same dispatch as rustc.  `&mut self` methods return the new value.
-/

/-- `poly.rs: pub struct Knot { x, y }` is emitted by the translator; traits that mention it take it as a
parameter so that this file does not depend on generated code. -/
class Evaluate (T : Type) (F : outParam Type) where
  evaluate : T → F → F
class HasDerivative (T : Type) (D : outParam Type) where
  derivative : T → D
class Translate (T : Type) (F : outParam Type) where
  translate : T → F → T
/-- `K` is the knot type (`Knot F`). -/
class HasIntegral (T : Type) (K : outParam Type) (I : outParam Type) where
  indefinite : T → I
  integral : T → K → I
/-- `Default::default()` -/
class PDefault (T : Type) where
  default : T

/-- `approx::AbsDiffEq` with `Epsilon = f64` -/
class AbsDiffEq (T : Type) (F : outParam Type) where
  absDiffEq : T → T → F → Bool
/-- `approx::RelativeEq` -/
class RelativeEq (T : Type) (F : outParam Type) where
  relativeEq : T → T → F → F → Bool

section approx_models
/-! Hand models of the `approx` crate's `f64` and slice impls (approx-0.5.1 `abs_diff_eq.rs:63`,
`relative_eq.rs:48`, slice impls `abs_diff_eq.rs:149`, `relative_eq.rs:153`); tied to the crate by the
`approx` correspondence campaign. -/
variable {F : Type} [FloatLike F]
open FloatLike

def f64AbsDiffEq (a b eps : F) : Bool := le (abs (sub a b)) eps

def f64RelativeEq (a b eps maxRel : F) : Bool :=
  if feq a b then true
  else if isInf a || isInf b then false
  else
    let absDiff := abs (sub a b)
    if le absDiff eps then true
    else
      let absSelf := abs a
      let absOther := abs b
      let largest := if lt absSelf absOther then absOther else absSelf
      le absDiff (mul largest maxRel)

instance instAbsDiffEqFloat : AbsDiffEq F F := ⟨f64AbsDiffEq⟩
instance instRelativeEqFloat : RelativeEq F F := ⟨f64RelativeEq⟩

/-- slices: equal length and element-wise -/
def listAll2 {A : Type} (r : A → A → Bool) : List A → List A → Bool
  | [], [] => true
  | a :: as, b :: bs => r a b && listAll2 r as bs
  | _, _ => false

instance instAbsDiffEqList {A : Type} [AbsDiffEq A F] : AbsDiffEq (List A) F :=
  ⟨fun a b eps => listAll2 (fun x y => AbsDiffEq.absDiffEq x y eps) a b⟩
instance instRelativeEqList {A : Type} [RelativeEq A F] : RelativeEq (List A) F :=
  ⟨fun a b eps mr => listAll2 (fun x y => RelativeEq.relativeEq x y eps mr) a b⟩
end approx_models
