import PP.Sem.Rounded
import PP.Model.Poly.EvaluateAttr
import PP.Model.Spline.FnsAttr
/-!
# Interpretation T: tracked arithmetic (certified running error bound)

A number of `Tr M` carries
* `e` — the exact value, `a` — the value computed in rounded arithmetic (`Rounded M`),
* `b` — an error bound, a function of the *exact* intermediate magnitudes and of `u` only,
* `ok` — the side conditions under which the bound holds (divisors whose bound is smaller than their
         magnitude; `False` after `ln`/`exp`, for which no bound is claimed),

with the invariant `ok → |a - e| ≤ b`, proved **once per primitive** below.  For any model function `f`,
polymorphism gives with no per-program proof work

    ok → |f (F := Rounded M) inputs − f (F := exact K) inputs| ≤ (f (F := Tr M) (inp inputs)).b

because the projections `.e` and `.a` commute with `f` by `rfl` (demonstrated on the generated
`Evaluate (Poly3 F) F` and `Spline.segment`).  Comparisons are those of the exact run; the section
"branches" gives the lemmas showing that the rounded run takes the same branch.
-/
set_option linter.unusedSectionVars false
variable {K : Type} [Field K] [LinearOrder K] [IsStrictOrderedRing K]
open PP.Lemmas.Rounding

structure Tr (M : RModel K) where
  e : K
  a : K
  b : K
  ok : Prop
  inv : ok → |a - e| ≤ b

namespace Tr
variable {M : RModel K}

/-- an input: exact -/
def inp (M : RModel K) (x : K) : Tr M := ⟨x, x, 0, True, fun _ => by simp⟩

/-- the certified bound -/
theorem close (t : Tr M) (h : t.ok) : |t.a - t.e| ≤ t.b := t.inv h

/-- the bound of a rounded operation whose un-rounded result has error at most `m` -/
@[reducible] def rb (M : RModel K) (e m : K) : K := m + M.u * (|e| + m)

/-- the un-rounded error of a product -/
@[reducible] def mb (x y : Tr M) : K := |x.e| * y.b + |y.e| * x.b + x.b * y.b

/-- the un-rounded error of a quotient -/
@[reducible] def db (x y : Tr M) : K := (|y.e| * x.b + |x.e| * y.b) / (|y.e| * (|y.e| - y.b))

/-! one invariant lemma per primitive -/

theorem inv_add (x y : Tr M) (h : x.ok ∧ y.ok) :
    |M.rnd (x.a + y.a) - (x.e + y.e)| ≤ rb M (x.e + y.e) (x.b + y.b) :=
  rnd_close M.hu M.h _ _ _ (add_close _ _ _ _ _ _ (x.inv h.1) (y.inv h.2))

theorem inv_sub (x y : Tr M) (h : x.ok ∧ y.ok) :
    |M.rnd (x.a - y.a) - (x.e - y.e)| ≤ rb M (x.e - y.e) (x.b + y.b) :=
  rnd_close M.hu M.h _ _ _ (sub_close _ _ _ _ _ _ (x.inv h.1) (y.inv h.2))

theorem inv_mul (x y : Tr M) (h : x.ok ∧ y.ok) :
    |M.rnd (x.a * y.a) - x.e * y.e| ≤ rb M (x.e * y.e) (mb x y) :=
  rnd_close M.hu M.h _ _ _ (mul_close _ _ _ _ _ _ (x.inv h.1) (y.inv h.2))

theorem inv_fma (x y z : Tr M) (h : x.ok ∧ y.ok ∧ z.ok) :
    |M.rnd (x.a * y.a + z.a) - (x.e * y.e + z.e)| ≤ rb M (x.e * y.e + z.e) (mb x y + z.b) :=
  rnd_close M.hu M.h _ _ _
    (add_close _ _ _ _ _ _ (mul_close _ _ _ _ _ _ (x.inv h.1) (y.inv h.2.1)) (z.inv h.2.2))

theorem inv_div (x y : Tr M) (h : x.ok ∧ y.ok ∧ y.b < |y.e|) :
    |M.rnd (x.a / y.a) - x.e / y.e| ≤ rb M (x.e / y.e) (db x y) :=
  rnd_close M.hu M.h _ _ _ (div_close _ _ _ _ _ _ (x.inv h.1) (y.inv h.2.1) h.2.2)

theorem inv_neg (x : Tr M) (h : x.ok) : |(-x.a) - (-x.e)| ≤ x.b := by
  have : -x.a - -x.e = -(x.a - x.e) := by ring
  rw [this, abs_neg]; exact x.inv h

theorem inv_abs (x : Tr M) (h : x.ok) : |(|x.a| - |x.e|)| ≤ x.b := abs_close _ _ _ (x.inv h)

theorem inv_max (x y : Tr M) (h : x.ok ∧ y.ok) : |max x.a y.a - max x.e y.e| ≤ max x.b y.b :=
  max_close _ _ _ _ _ _ (x.inv h.1) (y.inv h.2)

theorem inv_lit (M : RModel K) (t : K) : |M.rnd t - t| ≤ M.u * |t| := M.h t

noncomputable instance instFloatLike [Transc K] : FloatLike (Tr M) where
  add := fun x y => ⟨x.e + y.e, M.rnd (x.a + y.a), rb M (x.e + y.e) (x.b + y.b), x.ok ∧ y.ok, inv_add x y⟩
  sub := fun x y => ⟨x.e - y.e, M.rnd (x.a - y.a), rb M (x.e - y.e) (x.b + y.b), x.ok ∧ y.ok, inv_sub x y⟩
  mul := fun x y => ⟨x.e * y.e, M.rnd (x.a * y.a), rb M (x.e * y.e) (mb x y), x.ok ∧ y.ok, inv_mul x y⟩
  fma := fun x y z => ⟨x.e * y.e + z.e, M.rnd (x.a * y.a + z.a), rb M (x.e * y.e + z.e) (mb x y + z.b),
    x.ok ∧ y.ok ∧ z.ok, inv_fma x y z⟩
  div := fun x y => ⟨x.e / y.e, M.rnd (x.a / y.a), rb M (x.e / y.e) (db x y), x.ok ∧ y.ok ∧ y.b < |y.e|,
    inv_div x y⟩
  neg := fun x => ⟨-x.e, -x.a, x.b, x.ok, inv_neg x⟩
  abs := fun x => ⟨|x.e|, |x.a|, x.b, x.ok, inv_abs x⟩
  max := fun x y => ⟨max x.e y.e, max x.a y.a, max x.b y.b, x.ok ∧ y.ok, inv_max x y⟩
  ofDec := fun m e => ⟨(m : K) * (10 : K) ^ e, M.rnd ((m : K) * (10 : K) ^ e), M.u * |(m : K) * (10 : K) ^ e|, True,
    fun _ => inv_lit M _⟩
  epsilon := inp M ((2 : K) ^ (-52 : Int))
  -- no bound is claimed for the transcendental functions: `ok := False`
  ln := fun x => ⟨Transc.ln x.e, M.rnd (Transc.ln x.a), 0, False, fun h => h.elim⟩
  exp := fun x => ⟨Transc.exp x.e, M.rnd (Transc.exp x.a), 0, False, fun h => h.elim⟩
  -- comparisons: those of the exact run
  lt := fun x y => decide (x.e < y.e)
  le := fun x y => decide (x.e ≤ y.e)
  feq := fun x y => decide (x.e = y.e)
  isNaN := fun _ => false
  isInf := fun _ => false

/-- error bounds are non-negative (when the side conditions hold) -/
theorem b_nonneg (t : Tr M) (h : t.ok) : 0 ≤ t.b := le_trans (abs_nonneg _) (t.inv h)

end Tr

/-! ## Branches: the rounded run takes the same branch as the exact run -/

namespace Tr
variable {M : RModel K}

/-- a tracked value whose bound is smaller than its exact magnitude has the sign of its exact value -/
theorem sign_agree (x : Tr M) (h : x.ok) (hs : x.b < |x.e|) :
    (0 < x.a ↔ 0 < x.e) ∧ (x.a < 0 ↔ x.e < 0) := sign_of_close (x.inv h) hs

/-- two tracked values are ordered like their exact values when the bounds separate them -/
theorem lt_agree (x y : Tr M) (hx : x.ok) (hy : y.ok) (hs : x.b + y.b < |x.e - y.e|) :
    (x.a < y.a ↔ x.e < y.e) ∧ (y.a < x.a ↔ y.e < x.e) := by
  have := sign_of_close (sub_close _ _ _ _ _ _ (x.inv hx) (y.inv hy)) hs
  simpa only [sub_pos, sub_neg] using this.symm

section branch
variable [Transc K]

/-- `<` : the rounded run takes the branch of the exact run -/
theorem lt_same_branch (x y : Tr M) (hx : x.ok) (hy : y.ok) (hs : x.b + y.b < |x.e - y.e|) :
    FloatLike.lt (⟨x.a⟩ : Rounded M) ⟨y.a⟩ = FloatLike.lt x y := by
  show decide (x.a < y.a) = decide (x.e < y.e)
  rw [decide_eq_decide]; exact (lt_agree x y hx hy hs).1

/-- `<=` : the rounded run takes the branch of the exact run -/
theorem le_same_branch (x y : Tr M) (hx : x.ok) (hy : y.ok) (hs : x.b + y.b < |x.e - y.e|) :
    FloatLike.le (⟨x.a⟩ : Rounded M) ⟨y.a⟩ = FloatLike.le x y := by
  show decide (x.a ≤ y.a) = decide (x.e ≤ y.e)
  rw [decide_eq_decide, ← not_lt, ← not_lt, (lt_agree x y hx hy hs).2]

/-- comparison of a *rounded* quantity with the literal `0.0`: decided by the sign of the un-rounded
quantity, because `rnd` preserves signs (`h` and `u < 1`) and `rnd 0 = 0` -/
theorem rnd_le_zero (t : K) :
    FloatLike.le (⟨M.rnd t⟩ : Rounded M) (FloatLike.ofDec 0 0) = decide (t ≤ 0) := by
  show decide (M.rnd t ≤ M.rnd (((0 : Int) : K) * (10 : K) ^ (0 : Int))) = decide (t ≤ 0)
  rw [Int.cast_zero, zero_mul, M.rnd_zero, decide_eq_decide, M.rnd_nonpos_iff]

/-- the test `a * b <= 0.0` (as in `spline.rs::f_dx`): same branch as soon as both factors have certified signs -/
theorem mul_le_zero_same_branch (x y : Tr M) (hx : x.ok) (hy : y.ok) (hxs : x.b < |x.e|) (hys : y.b < |y.e|) :
    FloatLike.le (FloatLike.mul (⟨x.a⟩ : Rounded M) ⟨y.a⟩) (FloatLike.ofDec 0 0)
      = FloatLike.le (FloatLike.mul x y) (FloatLike.ofDec 0 0) := by
  have sx := sign_agree x hx hxs
  have sy := sign_agree y hy hys
  show FloatLike.le (⟨M.rnd (x.a * y.a)⟩ : Rounded M) (FloatLike.ofDec 0 0)
      = decide (x.e * y.e ≤ ((0 : Int) : K) * (10 : K) ^ (0 : Int))
  rw [rnd_le_zero, Int.cast_zero, zero_mul, decide_eq_decide, ← not_lt, ← not_lt, mul_pos_iff, mul_pos_iff,
    sx.1, sx.2, sy.1, sy.2]
end branch
end Tr

/-! ## The generic corollary, demonstrated

For a model function `f`, write `fTr := f (F := Tr M) (inp inputs)`.  Then `fTr.e = f (F := exact) inputs` and
`fTr.a = f (F := Rounded M) inputs` hold by `rfl` (straight-line code) and `Tr.close fTr` is the error bound.
The only per-program work is discharging the side conditions `fTr.ok` (divisors), by unfolding and `simp`. -/
section demo
variable [Transc K] (M : RModel K)
attribute [local instance] exactFL

/-- a non-zero exact quantity rounded once is within its own magnitude: the side condition of a division by
a literal, or by a difference of two inputs -/
theorem Tr.lit_margin (t : K) (ht : t ≠ 0) : M.u * |t| < |t| := by
  have := abs_pos.mpr ht
  have := M.hu1
  nlinarith

/-! ### `Evaluate (Poly3 F) F` -/

@[reducible] noncomputable def Poly3.trRun (p : Poly3 K) (x : K) : Tr M :=
  Evaluate.evaluate (p.mapF (Tr.inp M)) (Tr.inp M x)

theorem poly3_tr_e (p : Poly3 K) (x : K) : (p.trRun M x).e = Evaluate.evaluate p x := rfl
theorem poly3_tr_a (p : Poly3 K) (x : K) : (p.trRun M x).a = p.evalRounded M x := rfl
theorem poly3_tr_ok (p : Poly3 K) (x : K) : (p.trRun M x).ok := by
  have hin : ∀ t, (Tr.inp M t).ok := fun _ => trivial
  unfold Poly3.trRun
  exact_simp
  simp only [hin, and_self]

/-- certified running error bound of the cubic: rounded run vs exact run -/
theorem poly3_tracked (p : Poly3 K) (x : K) :
    |p.evalRounded M x - Evaluate.evaluate p x| ≤ (p.trRun M x).b :=
  (p.trRun M x).close (poly3_tr_ok M p x)

/-! ### `Spline.segment` (straight-line code with divisions) -/

@[reducible] noncomputable def Spline.segmentTr (f0 : K) (k0 : Knot K) (f1 : K) (k1 : Knot K) :
    Segment (Tr M) (Poly3 (Tr M)) :=
  Spline.segment (Tr.inp M f0) (k0.mapF (Tr.inp M)) (Tr.inp M f1) (k1.mapF (Tr.inp M))
@[reducible] noncomputable def Spline.segmentRounded (f0 : K) (k0 : Knot K) (f1 : K) (k1 : Knot K) :
    Segment (Rounded M) (Poly3 (Rounded M)) :=
  Spline.segment ⟨f0⟩ (k0.mapF Rounded.mk) ⟨f1⟩ (k1.mapF Rounded.mk)

/-- the side conditions of `segment` (every division is by `x₁ - x₀`, `2.0` or `6.0`) hold as soon as the knots
have distinct abscissae -/
theorem segment_tr_ok (f0 : K) (k0 : Knot K) (f1 : K) (k1 : Knot K) (hne : k1.x ≠ k0.x) :
    (Spline.segmentTr M f0 k0 f1 k1).poly._0.a0.ok ∧ (Spline.segmentTr M f0 k0 f1 k1).poly._0.a1.ok
      ∧ (Spline.segmentTr M f0 k0 f1 k1).poly._0.a2.ok ∧ (Spline.segmentTr M f0 k0 f1 k1).poly._0.a3.ok := by
  have hdx : Tr.rb M ((Tr.inp M k1.x).e - (Tr.inp M k0.x).e) ((Tr.inp M k1.x).b + (Tr.inp M k0.x).b)
      < |(Tr.inp M k1.x).e - (Tr.inp M k0.x).e| := by
    show 0 + 0 + M.u * (|k1.x - k0.x| + (0 + 0)) < |k1.x - k0.x|
    have := Tr.lit_margin M (k1.x - k0.x) (sub_ne_zero.mpr hne)
    simpa using this
  have h2 : M.u * |(2 : K)| < |2| := Tr.lit_margin M 2 (by norm_num)
  have h6 : M.u * |(6 : K)| < |6| := Tr.lit_margin M 6 (by norm_num)
  have hin : ∀ t, (Tr.inp M t).ok := fun _ => trivial
  unfold Spline.segmentTr
  exact_simp
  simp only [hdx, h2, h6, hin, and_self]

/-- certified running error bound of the four spline coefficients (and the segment end is exact):
the coefficients computed in rounded arithmetic are within `.b` of the exact coefficients, where `.b` is a
function of the exact intermediate magnitudes and `u` only -/
theorem segment_tracked (f0 : K) (k0 : Knot K) (f1 : K) (k1 : Knot K) (hne : k1.x ≠ k0.x) :
    let T := Spline.segmentTr M f0 k0 f1 k1
    let R := Spline.segmentRounded M f0 k0 f1 k1
    let E := Spline.segment f0 k0 f1 k1
    |R.poly._0.a0.val - E.poly._0.a0| ≤ T.poly._0.a0.b ∧ |R.poly._0.a1.val - E.poly._0.a1| ≤ T.poly._0.a1.b
      ∧ |R.poly._0.a2.val - E.poly._0.a2| ≤ T.poly._0.a2.b ∧ |R.poly._0.a3.val - E.poly._0.a3| ≤ T.poly._0.a3.b
      ∧ R.«end».val = E.«end» := by
  obtain ⟨h0, h1, h2, h3⟩ := segment_tr_ok M f0 k0 f1 k1 hne
  exact ⟨Tr.close _ h0, Tr.close _ h1, Tr.close _ h2, Tr.close _ h3, rfl⟩

/-! ### `Spline.f_dx` (a branch on `slope01 * slope12 <= 0.0`) -/

/-- the slope `(y_b - y_a)/(x_b - x_a)` as `f_dx` computes it, tracked -/
@[reducible] noncomputable def Spline.slopeTr (ka kb : Knot K) : Tr M :=
  FloatLike.div (FloatLike.sub (Tr.inp M kb.y) (Tr.inp M ka.y)) (FloatLike.sub (Tr.inp M kb.x) (Tr.inp M ka.x))

@[reducible] noncomputable def Spline.f_dxTr (k0 k1 k2 : Knot K) : Tr M :=
  Spline.f_dx (k0.mapF (Tr.inp M)) (k1.mapF (Tr.inp M)) (k2.mapF (Tr.inp M))
@[reducible] noncomputable def Spline.f_dxRounded (k0 k1 k2 : Knot K) : K :=
  (Spline.f_dx (k0.mapF Rounded.mk) (k1.mapF Rounded.mk) (k2.mapF (Rounded.mk (M := M)))).val

/-- `.e` commutes with the branching program (the comparisons of `Tr` are those of the exact run) -/
theorem f_dx_tr_e (k0 k1 k2 : Knot K) : (Spline.f_dxTr M k0 k1 k2).e = Spline.f_dx k0 k1 k2 := by
  unfold Spline.f_dxTr Spline.f_dx
  simp only []
  rw [apply_ite Tr.e]
  rfl

/-- `.a` commutes with the branching program when both slopes have certified signs: the rounded run takes
the same branch -/
theorem f_dx_tr_a (k0 k1 k2 : Knot K)
    (h01 : (Spline.slopeTr M k0 k1).ok) (h12 : (Spline.slopeTr M k1 k2).ok)
    (s01 : (Spline.slopeTr M k0 k1).b < |(Spline.slopeTr M k0 k1).e|)
    (s12 : (Spline.slopeTr M k1 k2).b < |(Spline.slopeTr M k1 k2).e|) :
    (Spline.f_dxTr M k0 k1 k2).a = Spline.f_dxRounded M k0 k1 k2 := by
  have hb := Tr.mul_le_zero_same_branch (Spline.slopeTr M k0 k1) (Spline.slopeTr M k1 k2) h01 h12 s01 s12
  unfold Spline.f_dxTr Spline.f_dxRounded Spline.f_dx
  simp only []
  rw [apply_ite Tr.a, apply_ite Rounded.val]
  exact (if_congr (Iff.of_eq (congrArg (· = true) hb)) rfl rfl).symm

/-- certified bound for `f_dx` across its branch -/
theorem f_dx_tracked (k0 k1 k2 : Knot K) (hok : (Spline.f_dxTr M k0 k1 k2).ok)
    (h01 : (Spline.slopeTr M k0 k1).ok) (h12 : (Spline.slopeTr M k1 k2).ok)
    (s01 : (Spline.slopeTr M k0 k1).b < |(Spline.slopeTr M k0 k1).e|)
    (s12 : (Spline.slopeTr M k1 k2).b < |(Spline.slopeTr M k1 k2).e|) :
    |Spline.f_dxRounded M k0 k1 k2 - Spline.f_dx k0 k1 k2| ≤ (Spline.f_dxTr M k0 k1 k2).b := by
  rw [← f_dx_tr_a M k0 k1 k2 h01 h12 s01 s12, ← f_dx_tr_e]
  exact Tr.close _ hok

end demo

/-! ## non-vacuity: the hypotheses are satisfiable in a model that really rounds (`RModel.m53`, `u = 2⁻⁵³`) -/
section example_
noncomputable local instance : Transc ℚ := ⟨fun x => x, fun x => x⟩
attribute [local instance] exactFL
open RModel

example := segment_tracked m53 1 ⟨0, 0⟩ 2 ⟨1, 1⟩ (by norm_num)

/-- evaluates the side conditions / margins of a concrete tracked run over ℚ -/
local macro "tr_eval" : tactic =>
  `(tactic| (unfold Spline.slopeTr; exact_simp; simp [Tr.inp, m53, inflate, Tr.rb, Tr.db]; try norm_num))

example : |Spline.f_dxRounded m53 ⟨0, 0⟩ ⟨1, 1⟩ ⟨2, 3⟩ - Spline.f_dx ⟨0, 0⟩ ⟨1, 1⟩ ⟨2, 3⟩|
    ≤ (Spline.f_dxTr m53 ⟨0, 0⟩ ⟨1, 1⟩ ⟨2, 3⟩).b := by
  apply f_dx_tracked
  · unfold Spline.f_dxTr Spline.f_dx
    exact_simp
    simp [Tr.inp, m53, inflate, Tr.rb, Tr.db, FloatLike.le]
    norm_num
  · tr_eval
  · tr_eval
  · tr_eval
  · tr_eval
end example_
