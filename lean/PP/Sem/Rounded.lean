import PP.Sem.Exact
import PP.Sem.Lift
import PP.Lemmas.Rounding
import Mathlib.Algebra.Order.Field.Rat
/-!
# Interpretation R: rounded arithmetic over a linearly ordered field

`RModel K` is the *standard model of floating-point arithmetic* (no overflow, no underflow): a rounding
function `rnd` with relative error at most `u < 1`, symmetric in the sign.  `id` with `u = 0` inhabits it
(the `example` below), so no theorem quantified over `RModel` is vacuous; binary64 round-to-nearest-even is
the instance `u = 2⁻⁵³` on the normal range (DESIGN §3.6).

`Rounded M` is a one-field structure around `K`; its `FloatLike` instance computes every arithmetic
operation as `rnd (exact result)`:  `fma a b c = rnd (a*b + c)` is ONE rounding; `neg`, `abs`, `max` and the
comparisons are exact; a literal is `rnd (m·10^e)`; `epsilon` is the constant `2⁻⁵²` (an input, not rounded);
`ln`/`exp` are the `Transc K` functions, rounded (not used by any polynomial bound).
-/

structure RModel (K : Type) [Field K] [LinearOrder K] [IsStrictOrderedRing K] where
  rnd : K → K
  u : K
  hu : 0 ≤ u
  hu1 : u < 1
  /-- the standard model: relative error at most `u` (no overflow / underflow) -/
  h : ∀ t, |rnd t - t| ≤ u * |t|
  rnd_neg : ∀ t, rnd (-t) = -rnd t

namespace RModel
variable {K : Type} [Field K] [LinearOrder K] [IsStrictOrderedRing K] (M : RModel K)
open PP.Lemmas.Rounding

/-- the exact arithmetic is a rounding model (`u = 0`): non-vacuity of every `RModel` hypothesis -/
def exact (K : Type) [Field K] [LinearOrder K] [IsStrictOrderedRing K] : RModel K where
  rnd := id
  u := 0
  hu := le_refl _
  hu1 := zero_lt_one
  h := fun t => by simp
  rnd_neg := fun _ => rfl

example : Nonempty (RModel ℚ) := ⟨RModel.exact ℚ⟩

/-- derivable from `h` -/
theorem rnd_zero : M.rnd 0 = 0 := PP.Lemmas.Rounding.rnd_zero M.h

theorem one_add_u_pos : 0 < 1 + M.u := by linarith [M.hu]

/-- `rnd t` has the sign of `t` -/
theorem rnd_pos_iff {t : K} : 0 < M.rnd t ↔ 0 < t := PP.Lemmas.Rounding.rnd_pos_iff M.hu1 M.h
theorem rnd_neg_iff {t : K} : M.rnd t < 0 ↔ t < 0 := PP.Lemmas.Rounding.rnd_neg_iff M.hu1 M.h
theorem rnd_eq_zero_iff {t : K} : M.rnd t = 0 ↔ t = 0 := PP.Lemmas.Rounding.rnd_eq_zero_iff M.hu1 M.h
theorem rnd_nonpos_iff {t : K} : M.rnd t ≤ 0 ↔ t ≤ 0 := PP.Lemmas.Rounding.rnd_nonpos_iff M.hu1 M.h
theorem rnd_nonneg_iff {t : K} : 0 ≤ M.rnd t ↔ 0 ≤ t := PP.Lemmas.Rounding.rnd_nonneg_iff M.hu1 M.h

/-- `|rnd t| ≤ (1+u)|t|` -/
theorem abs_rnd_le (t : K) : |M.rnd t| ≤ (1 + M.u) * |t| := by
  have h1 := M.h t
  calc |M.rnd t| = |(M.rnd t - t) + t| := by ring_nf
    _ ≤ |M.rnd t - t| + |t| := abs_add_le _ _
    _ ≤ (1 + M.u) * |t| := by linarith
/-! ### non-trivial inhabitants (used by the non-vacuity examples of the property files) -/

/-- a non-trivial model: every result is inflated by exactly the factor `1 + u` (the bound `h` is attained) -/
def inflate (u : K) (hu : 0 ≤ u) (hu1 : u < 1) : RModel K where
  rnd := fun t => t * (1 + u)
  u := u
  hu := hu
  hu1 := hu1
  h := fun t => by
    have : t * (1 + u) - t = u * t := by ring
    rw [this, abs_mul, abs_of_nonneg hu]
  rnd_neg := fun t => by ring

/-- `inflate` with `u = 2⁻⁵³` over ℚ: every operation errs by the full relative `2⁻⁵³` -/
def m53 : RModel ℚ :=
  inflate (2 ^ (-53 : ℤ)) (by positivity) (by rw [zpow_neg]; exact inv_lt_one_of_one_lt₀ (by norm_num))

/-- a non-trivial model over ℚ with `u = 2⁻⁵³`: integers are representable (fixed), every other
number is inflated by `1 + u` -/
def intFix : RModel ℚ where
  rnd := fun t => if t.den = 1 then t else t * (1 + 2 ^ (-53 : ℤ))
  u := 2 ^ (-53 : ℤ)
  hu := by positivity
  hu1 := by norm_num
  h := fun t => by
    split
    · simp
    · have : t * (1 + 2 ^ (-53 : ℤ)) - t = 2 ^ (-53 : ℤ) * t := by ring
      rw [this, abs_mul, abs_of_nonneg (by positivity)]
  rnd_neg := fun t => by
    simp only [Rat.neg_den]
    split <;> ring

theorem intFix_int (n : ℤ) : intFix.rnd (n : ℚ) = n := by
  simp [intFix]

theorem intFix_of_eq_int {t : ℚ} (n : ℤ) (h : t = n) : intFix.rnd t = t := by
  rw [h]; exact intFix_int n

/-- a non-integer is not fixed: the model is not the identity -/
example : intFix.rnd (1 / 2) ≠ 1 / 2 := by
  simp [intFix]
end RModel

/-- a number of the rounded interpretation: a field element that is the result of a rounding (or an input) -/
structure Rounded {K : Type} [Field K] [LinearOrder K] [IsStrictOrderedRing K] (M : RModel K) where
  val : K

namespace Rounded
variable {K : Type} [Field K] [LinearOrder K] [IsStrictOrderedRing K] {M : RModel K}

@[ext] theorem ext' {a b : Rounded M} (h : a.val = b.val) : a = b := by
  cases a; cases b; simp_all

noncomputable instance instFloatLike [Transc K] : FloatLike (Rounded M) where
  add := fun a b => ⟨M.rnd (a.val + b.val)⟩
  sub := fun a b => ⟨M.rnd (a.val - b.val)⟩
  mul := fun a b => ⟨M.rnd (a.val * b.val)⟩
  div := fun a b => ⟨M.rnd (a.val / b.val)⟩
  neg := fun a => ⟨-a.val⟩
  abs := fun a => ⟨|a.val|⟩
  fma := fun a b c => ⟨M.rnd (a.val * b.val + c.val)⟩
  max := fun a b => ⟨max a.val b.val⟩
  ofDec := fun m e => ⟨M.rnd ((m : K) * (10 : K) ^ e)⟩
  epsilon := ⟨(2 : K) ^ (-52 : Int)⟩
  lt := fun a b => decide (a.val < b.val)
  le := fun a b => decide (a.val ≤ b.val)
  feq := fun a b => decide (a.val = b.val)
  isNaN := fun _ => false
  isInf := fun _ => false
  ln := fun a => ⟨M.rnd (Transc.ln a.val)⟩
  exp := fun a => ⟨M.rnd (Transc.exp a.val)⟩

/-- the literal `0.0` is exact -/
theorem ofDec_zero [Transc K] (e : Int) : (FloatLike.ofDec 0 e : Rounded M) = ⟨0⟩ := by
  show (⟨M.rnd (((0 : Int) : K) * (10 : K) ^ e)⟩ : Rounded M) = ⟨0⟩
  rw [Int.cast_zero, zero_mul, M.rnd_zero]

/-- in the model with `rnd = id` the rounded interpretation is the exact one -/
example [Transc K] (a b c : K) :
    (FloatLike.fma (⟨a⟩ : Rounded (RModel.exact K)) ⟨b⟩ ⟨c⟩).val = a * b + c := rfl
end Rounded

/-! ## The rounded run of the polynomial evaluators

`PolyN.evalRounded M p x` is the generated `evaluate` (for `PolyN`: the hand model of the Horner loop) run in
rounded arithmetic on the given coefficients and argument: what the Rust code computes, under the standard
model.  (GENERATED block: identical up to the degree.) -/
section evalRounded
variable {K : Type} [Field K] [LinearOrder K] [IsStrictOrderedRing K] [Transc K] (M : RModel K)
@[reducible] noncomputable def Poly0.evalRounded (p : Poly0 K) (x : K) : K :=
  (Evaluate.evaluate (p.mapF Rounded.mk) (⟨x⟩ : Rounded M)).val
@[reducible] noncomputable def Poly1.evalRounded (p : Poly1 K) (x : K) : K :=
  (Evaluate.evaluate (p.mapF Rounded.mk) (⟨x⟩ : Rounded M)).val
@[reducible] noncomputable def Poly2.evalRounded (p : Poly2 K) (x : K) : K :=
  (Evaluate.evaluate (p.mapF Rounded.mk) (⟨x⟩ : Rounded M)).val
@[reducible] noncomputable def Poly3.evalRounded (p : Poly3 K) (x : K) : K :=
  (Evaluate.evaluate (p.mapF Rounded.mk) (⟨x⟩ : Rounded M)).val
@[reducible] noncomputable def Poly4.evalRounded (p : Poly4 K) (x : K) : K :=
  (Evaluate.evaluate (p.mapF Rounded.mk) (⟨x⟩ : Rounded M)).val
@[reducible] noncomputable def Poly5.evalRounded (p : Poly5 K) (x : K) : K :=
  (Evaluate.evaluate (p.mapF Rounded.mk) (⟨x⟩ : Rounded M)).val
@[reducible] noncomputable def Poly6.evalRounded (p : Poly6 K) (x : K) : K :=
  (Evaluate.evaluate (p.mapF Rounded.mk) (⟨x⟩ : Rounded M)).val
@[reducible] noncomputable def Poly7.evalRounded (p : Poly7 K) (x : K) : K :=
  (Evaluate.evaluate (p.mapF Rounded.mk) (⟨x⟩ : Rounded M)).val
@[reducible] noncomputable def Poly8.evalRounded (p : Poly8 K) (x : K) : K :=
  (Evaluate.evaluate (p.mapF Rounded.mk) (⟨x⟩ : Rounded M)).val
@[reducible] noncomputable def PolyN.evalRounded (cs : List K) (x : K) : K :=
  (Evaluate.evaluate (⟨cs.map Rounded.mk⟩ : PolyN (Rounded M)) (⟨x⟩ : Rounded M)).val
end evalRounded
