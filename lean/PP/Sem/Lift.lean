import PP.Model.Types
import PP.Hand.Constructors
/-!
# Changing the number type of a model value

`ArrN.mapF`, `PolyN.mapF`, … apply `f : A → B` to every number of a value (`ArrLike.map` only has `F → F`).
They are used to inject field elements into the interpretations (`Rounded.mk`, `Ct.inp M`, `Tr.inp M`, `|·|`).
Core Lean only.
-/
variable {A B : Type}

@[reducible] def Arr1.mapF (f : A → B) (a : Arr1 A) : Arr1 B := ⟨f a.a0⟩
@[reducible] def Arr2.mapF (f : A → B) (a : Arr2 A) : Arr2 B := ⟨f a.a0, f a.a1⟩
@[reducible] def Arr3.mapF (f : A → B) (a : Arr3 A) : Arr3 B := ⟨f a.a0, f a.a1, f a.a2⟩
@[reducible] def Arr4.mapF (f : A → B) (a : Arr4 A) : Arr4 B := ⟨f a.a0, f a.a1, f a.a2, f a.a3⟩
@[reducible] def Arr5.mapF (f : A → B) (a : Arr5 A) : Arr5 B := ⟨f a.a0, f a.a1, f a.a2, f a.a3, f a.a4⟩
@[reducible] def Arr6.mapF (f : A → B) (a : Arr6 A) : Arr6 B := ⟨f a.a0, f a.a1, f a.a2, f a.a3, f a.a4, f a.a5⟩
@[reducible] def Arr7.mapF (f : A → B) (a : Arr7 A) : Arr7 B := ⟨f a.a0, f a.a1, f a.a2, f a.a3, f a.a4, f a.a5, f a.a6⟩
@[reducible] def Arr8.mapF (f : A → B) (a : Arr8 A) : Arr8 B := ⟨f a.a0, f a.a1, f a.a2, f a.a3, f a.a4, f a.a5, f a.a6, f a.a7⟩
@[reducible] def Arr9.mapF (f : A → B) (a : Arr9 A) : Arr9 B := ⟨f a.a0, f a.a1, f a.a2, f a.a3, f a.a4, f a.a5, f a.a6, f a.a7, f a.a8⟩

@[reducible] def Poly0.mapF (f : A → B) (p : Poly0 A) : Poly0 B := ⟨f p._0⟩
@[reducible] def Poly1.mapF (f : A → B) (p : Poly1 A) : Poly1 B := ⟨p._0.mapF f⟩
@[reducible] def Poly2.mapF (f : A → B) (p : Poly2 A) : Poly2 B := ⟨p._0.mapF f⟩
@[reducible] def Poly3.mapF (f : A → B) (p : Poly3 A) : Poly3 B := ⟨p._0.mapF f⟩
@[reducible] def Poly4.mapF (f : A → B) (p : Poly4 A) : Poly4 B := ⟨p._0.mapF f⟩
@[reducible] def Poly5.mapF (f : A → B) (p : Poly5 A) : Poly5 B := ⟨p._0.mapF f⟩
@[reducible] def Poly6.mapF (f : A → B) (p : Poly6 A) : Poly6 B := ⟨p._0.mapF f⟩
@[reducible] def Poly7.mapF (f : A → B) (p : Poly7 A) : Poly7 B := ⟨p._0.mapF f⟩
@[reducible] def Poly8.mapF (f : A → B) (p : Poly8 A) : Poly8 B := ⟨p._0.mapF f⟩
@[reducible] def PolyN.mapF (f : A → B) (p : PolyN A) : PolyN B := ⟨p._0.map f⟩
@[reducible] def Knot.mapF (f : A → B) (k : Knot A) : Knot B := ⟨f k.x, f k.y⟩

/-- `Hand.polyNEvaluate` on a non-empty coefficient list whose numbers are injected by `f`: the Horner fold
over the injected tail of the reversed list -/
theorem Hand.polyNEvaluate_map {A B : Type} [FloatLike B] (f : A → B) (cs : List A) (x : B) (first : A)
    (rest : List A) (h : cs.reverse = first :: rest) :
    Hand.polyNEvaluate (⟨cs.map f⟩ : PolyN B) x
      = (rest.map f).foldl (fun acc e => FloatLike.fma acc x e) (f first) := by
  simp only [Hand.polyNEvaluate, ← List.map_reverse, h, List.map_cons]
