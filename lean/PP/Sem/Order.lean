import PP.Core.F64
/-!
# Order laws of IEEE comparisons, abstractly

`OrdLaws F`: the comparisons of `F` are those of an integer key on the non-NaN values and are false as
soon as one side is NaN.  `F64` satisfies the laws by definition (`rfl`).  Every order / state-machine
theorem (C02, C03, C12, C13, C16, C19) is proved for an arbitrary `F` with these laws, hence for
`F64` with any `ln`/`exp`.  Core Lean only.
-/

class OrdLaws (F : Type) [FloatLike F] where
  key : F → Int
  lt_def : ∀ a b : F, FloatLike.lt a b = (!FloatLike.isNaN a && !FloatLike.isNaN b && decide (key a < key b))
  le_def : ∀ a b : F, FloatLike.le a b = (!FloatLike.isNaN a && !FloatLike.isNaN b && decide (key a ≤ key b))
  feq_def : ∀ a b : F, FloatLike.feq a b = (!FloatLike.isNaN a && !FloatLike.isNaN b && decide (key a = key b))

instance F64.ordLaws (ln exp : F64 → F64) : @OrdLaws F64 (F64.inst ln exp) :=
  @OrdLaws.mk F64 (F64.inst ln exp) F64.key (fun _ _ => rfl) (fun _ _ => rfl) (fun _ _ => rfl)

namespace OrdLaws
variable {F : Type} [FloatLike F] [OrdLaws F]
open FloatLike

theorem lt_nan_left {a b : F} (h : isNaN a = true) : lt a b = false := by simp [lt_def, h]
theorem lt_nan_right {a b : F} (h : isNaN b = true) : lt a b = false := by simp [lt_def, h]
theorem le_nan_left {a b : F} (h : isNaN a = true) : le a b = false := by simp [le_def, h]
theorem le_nan_right {a b : F} (h : isNaN b = true) : le a b = false := by simp [le_def, h]

theorem lt_iff {a b : F} (ha : isNaN a = false) (hb : isNaN b = false) : lt a b = true ↔ key a < key b := by
  simp [lt_def, ha, hb]
theorem le_iff {a b : F} (ha : isNaN a = false) (hb : isNaN b = false) : le a b = true ↔ key a ≤ key b := by
  simp [le_def, ha, hb]
theorem lt_false_iff {a b : F} (ha : isNaN a = false) (hb : isNaN b = false) : lt a b = false ↔ key b ≤ key a := by
  simp [lt_def, ha, hb]
theorem le_false_iff {a b : F} (ha : isNaN a = false) (hb : isNaN b = false) : le a b = false ↔ key b < key a := by
  simp [le_def, ha, hb]
end OrdLaws
