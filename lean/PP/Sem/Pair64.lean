import PP.Lemmas.F64Ops
import PP.Lemmas.F64Order
import PP.Sem.Rounded
import PP.Sem.Lift
import PP.Model.Poly.EvaluateAttr
/-!
# The transfer device: from the bit-exact soft-float `F64` to the rounded interpretation `Rounded M64`

* `M64 : RModel ℚ` — binary64 round-to-nearest-even with an unbounded exponent range (`F64.rnd64`) is a
  rounding model with `u = 2⁻⁵³` (fields `h`, `rnd_neg` proved in `PP/Lemmas/Round.lean`).
* `P64` — a number of the *paired* interpretation: the soft-float `x`, the rational `r` computed by the
  rounded interpretation `Rounded M64`, and the accumulated side condition `ok` under which the two agree,
  with the invariant `ok → x.Finite ∧ x.Canon ∧ x.val = r` carried as a field.  Every arithmetic operation
  computes `x` with the `F64` operation and `r` with `rnd64` of the exact rational result; `ok` accumulates the
  operands' `ok` and the range condition `F64.InRange` ("the exact result is `0` or has magnitude in
  `[2^-1022, 2^1024·(1 − 2⁻⁵⁴))`") of the exact result of *this* operation.  The invariant proofs are exactly
  the per-operation standard-model theorems of `PP/Lemmas/F64Ops.lean`.
* Because the model is polymorphic in its number type, running a model program at `P64` gives: `.x` is the
  run at `F64` and `.r` is the run at `Rounded M64` (both by `rfl` for straight-line code), hence
  `ok → val (run at F64) = run at Rounded M64` with no per-program proof.  Demonstrated on the generated
  `Evaluate (Poly⟨n⟩ F)`, n = 0..8.

Comparisons are taken on `x` (the paired run follows the branches of the bit-exact run); `lt_agree`,
`le_agree`, `feq_agree` show that under `ok` they are the comparisons of the rounded interpretation, so the
rounded run takes the same branches.  `neg`, `abs`, `max` are exact.  No claim is made after `ln`/`exp`
(`ok := False`).
-/
open F64 (InRange rnd64 StdModel)

/-- binary64 round-to-nearest-even, unbounded exponent range: the standard model with `u = 2⁻⁵³` -/
def M64 : RModel ℚ where
  rnd := F64.rnd64
  u := (2:ℚ) ^ (-53 : ℤ)
  hu := by positivity
  hu1 := by norm_num
  h := F64.rnd64_rel
  rnd_neg := F64.rnd64_neg

theorem M64_u : M64.u = (2:ℚ) ^ (-53 : ℤ) := rfl

/-- the invariant of the paired interpretation -/
def P64Inv (x : F64) (r : ℚ) : Prop := x.Finite ∧ x.Canon ∧ x.val = r

structure P64 where
  x : F64
  r : ℚ
  ok : Prop
  inv : ok → P64Inv x r

namespace P64

/-- an input: a soft-float; `ok` records that it is finite and canonical -/
def inp (a : F64) : P64 := ⟨a, a.val, a.Finite ∧ a.Canon, fun h => ⟨h.1, h.2, rfl⟩⟩

/-! one invariant lemma per primitive -/

theorem inv_add (a b : P64) (h : a.ok ∧ b.ok ∧ InRange (a.r + b.r)) :
    P64Inv (F64.add a.x b.x) (rnd64 (a.r + b.r)) := by
  obtain ⟨fa, _, va⟩ := a.inv h.1
  obtain ⟨fb, _, vb⟩ := b.inv h.2.1
  have := (F64.add_std fa fb).of_inRange (by rw [va, vb]; exact h.2.2)
  rw [va, vb] at this; exact this

theorem inv_sub (a b : P64) (h : a.ok ∧ b.ok ∧ InRange (a.r - b.r)) :
    P64Inv (F64.sub a.x b.x) (rnd64 (a.r - b.r)) := by
  obtain ⟨fa, _, va⟩ := a.inv h.1
  obtain ⟨fb, _, vb⟩ := b.inv h.2.1
  have := (F64.sub_std fa fb).of_inRange (by rw [va, vb]; exact h.2.2)
  rw [va, vb] at this; exact this

theorem inv_mul (a b : P64) (h : a.ok ∧ b.ok ∧ InRange (a.r * b.r)) :
    P64Inv (F64.mul a.x b.x) (rnd64 (a.r * b.r)) := by
  obtain ⟨fa, _, va⟩ := a.inv h.1
  obtain ⟨fb, _, vb⟩ := b.inv h.2.1
  have := (F64.mul_std fa fb).of_inRange (by rw [va, vb]; exact h.2.2)
  rw [va, vb] at this; exact this

theorem inv_div (a b : P64) (h : a.ok ∧ b.ok ∧ b.r ≠ 0 ∧ InRange (a.r / b.r)) :
    P64Inv (F64.div a.x b.x) (rnd64 (a.r / b.r)) := by
  obtain ⟨fa, _, va⟩ := a.inv h.1
  obtain ⟨fb, _, vb⟩ := b.inv h.2.1
  have := (F64.div_std fa fb (by rw [vb]; exact h.2.2.1)).of_inRange (by rw [va, vb]; exact h.2.2.2)
  rw [va, vb] at this; exact this

theorem inv_fma (a b c : P64) (h : a.ok ∧ b.ok ∧ c.ok ∧ InRange (a.r * b.r + c.r)) :
    P64Inv (F64.fma a.x b.x c.x) (rnd64 (a.r * b.r + c.r)) := by
  obtain ⟨fa, _, va⟩ := a.inv h.1
  obtain ⟨fb, _, vb⟩ := b.inv h.2.1
  obtain ⟨fc, _, vc⟩ := c.inv h.2.2.1
  have := (F64.fma_std fa fb fc).of_inRange (by rw [va, vb, vc]; exact h.2.2.2)
  rw [va, vb, vc] at this; exact this

theorem inv_neg (a : P64) (h : a.ok) : P64Inv (F64.neg a.x) (-a.r) := by
  obtain ⟨fa, ca, va⟩ := a.inv h
  exact ⟨F64.finite_neg fa, F64.canon_neg ca, by rw [F64.val_neg, va]⟩

theorem inv_abs (a : P64) (h : a.ok) : P64Inv (F64.abs a.x) |a.r| := by
  obtain ⟨fa, ca, va⟩ := a.inv h
  exact ⟨F64.finite_abs fa, F64.canon_abs ca, by rw [F64.val_abs, va]⟩

theorem inv_max (a b : P64) (h : a.ok ∧ b.ok) : P64Inv (F64.max a.x b.x) (max a.r b.r) := by
  obtain ⟨fa, ca, va⟩ := a.inv h.1
  obtain ⟨fb, cb, vb⟩ := b.inv h.2
  have := F64.max_spec fa ca fb cb
  rw [va, vb] at this; exact this

theorem inv_ofDec (m e : Int) (h : InRange ((m:ℚ) * (10:ℚ) ^ e)) :
    P64Inv (F64.ofDec m e) (rnd64 ((m:ℚ) * (10:ℚ) ^ e)) :=
  (F64.ofDec_std m e).of_inRange h

theorem inv_epsilon : P64Inv F64.epsilon ((2:ℚ) ^ (-52 : Int)) := by
  refine ⟨trivial, ⟨by norm_num, by norm_num, Or.inl (le_refl _), by norm_num⟩, ?_⟩
  show F64.sgn false * ((2 ^ 52 : Nat) : ℚ) * (2:ℚ) ^ (-104 : Int) = _
  rw [F64.sgn_false, F64.c52, one_mul, ← zpow_add₀ (by norm_num : (2:ℚ) ≠ 0)]; norm_num

/-- the paired interpretation; libm's `ln`/`exp` on `F64` are parameters, as in `F64.inst` -/
@[reducible] noncomputable def inst (ln exp : F64 → F64) [Transc ℚ] : FloatLike P64 where
  add := fun a b => ⟨F64.add a.x b.x, rnd64 (a.r + b.r), a.ok ∧ b.ok ∧ InRange (a.r + b.r), inv_add a b⟩
  sub := fun a b => ⟨F64.sub a.x b.x, rnd64 (a.r - b.r), a.ok ∧ b.ok ∧ InRange (a.r - b.r), inv_sub a b⟩
  mul := fun a b => ⟨F64.mul a.x b.x, rnd64 (a.r * b.r), a.ok ∧ b.ok ∧ InRange (a.r * b.r), inv_mul a b⟩
  div := fun a b => ⟨F64.div a.x b.x, rnd64 (a.r / b.r), a.ok ∧ b.ok ∧ b.r ≠ 0 ∧ InRange (a.r / b.r), inv_div a b⟩
  fma := fun a b c => ⟨F64.fma a.x b.x c.x, rnd64 (a.r * b.r + c.r),
    a.ok ∧ b.ok ∧ c.ok ∧ InRange (a.r * b.r + c.r), inv_fma a b c⟩
  neg := fun a => ⟨F64.neg a.x, -a.r, a.ok, inv_neg a⟩
  abs := fun a => ⟨F64.abs a.x, |a.r|, a.ok, inv_abs a⟩
  max := fun a b => ⟨F64.max a.x b.x, max a.r b.r, a.ok ∧ b.ok, inv_max a b⟩
  ofDec := fun m e => ⟨F64.ofDec m e, rnd64 ((m:ℚ) * (10:ℚ) ^ e), InRange ((m:ℚ) * (10:ℚ) ^ e), inv_ofDec m e⟩
  epsilon := ⟨F64.epsilon, (2:ℚ) ^ (-52 : Int), True, fun _ => inv_epsilon⟩
  lt := fun a b => F64.lt a.x b.x
  le := fun a b => F64.le a.x b.x
  feq := fun a b => F64.feq a.x b.x
  isNaN := fun a => F64.isNaN a.x
  isInf := fun a => F64.isInf a.x
  ln := fun a => ⟨ln a.x, rnd64 (Transc.ln a.r), False, fun h => h.elim⟩
  exp := fun a => ⟨exp a.x, rnd64 (Transc.exp a.r), False, fun h => h.elim⟩

/-- the transfer theorem, for any value of the paired interpretation -/
theorem transfer (p : P64) (h : p.ok) : p.x.Finite ∧ p.x.Canon ∧ p.x.val = p.r := p.inv h

/-! ### branches: under `ok` the comparisons of the bit-exact run are those of the rounded run -/

theorem lt_agree (a b : P64) (ha : a.ok) (hb : b.ok) : F64.lt a.x b.x = decide (a.r < b.r) := by
  obtain ⟨fa, ca, va⟩ := a.inv ha
  obtain ⟨fb, cb, vb⟩ := b.inv hb
  rw [← va, ← vb, Bool.eq_iff_iff, decide_eq_true_iff]
  exact F64.lt_iff_val fa ca fb cb

theorem le_agree (a b : P64) (ha : a.ok) (hb : b.ok) : F64.le a.x b.x = decide (a.r ≤ b.r) := by
  obtain ⟨fa, ca, va⟩ := a.inv ha
  obtain ⟨fb, cb, vb⟩ := b.inv hb
  rw [← va, ← vb, Bool.eq_iff_iff, decide_eq_true_iff]
  exact F64.le_iff_val fa ca fb cb

theorem feq_agree (a b : P64) (ha : a.ok) (hb : b.ok) : F64.feq a.x b.x = decide (a.r = b.r) := by
  obtain ⟨fa, ca, va⟩ := a.inv ha
  obtain ⟨fb, cb, vb⟩ := b.inv hb
  rw [← va, ← vb, Bool.eq_iff_iff, decide_eq_true_iff]
  exact F64.feq_iff_val fa ca fb cb

/-- in `FloatLike` form: the paired run and the rounded run take the same branch of a `<` test -/
theorem lt_same_branch (ln exp : F64 → F64) [Transc ℚ] (a b : P64) (ha : a.ok) (hb : b.ok) :
    @FloatLike.lt P64 (P64.inst ln exp) a b = FloatLike.lt (⟨a.r⟩ : Rounded M64) ⟨b.r⟩ := lt_agree a b ha hb

theorem le_same_branch (ln exp : F64 → F64) [Transc ℚ] (a b : P64) (ha : a.ok) (hb : b.ok) :
    @FloatLike.le P64 (P64.inst ln exp) a b = FloatLike.le (⟨a.r⟩ : Rounded M64) ⟨b.r⟩ := le_agree a b ha hb

theorem feq_same_branch (ln exp : F64 → F64) [Transc ℚ] (a b : P64) (ha : a.ok) (hb : b.ok) :
    @FloatLike.feq P64 (P64.inst ln exp) a b = FloatLike.feq (⟨a.r⟩ : Rounded M64) ⟨b.r⟩ := feq_agree a b ha hb

/-- under `ok` a paired value is neither NaN nor infinite, as in the rounded interpretation -/
theorem isNaN_agree (a : P64) (ha : a.ok) : F64.isNaN a.x = false := F64.isNaN_of_finite (a.inv ha).1

theorem isInf_agree (a : P64) (ha : a.ok) : F64.isInf a.x = false := by
  have := (a.inv ha).1
  cases h : a.x <;> first | rfl | (rw [h] at this; exact this.elim)

end P64

/-! ## Demonstration: the generated polynomial evaluators -/
section demo
variable (ln exp : F64 → F64) [Transc ℚ]

/-- the coefficients and the argument as values -/
@[reducible] def F64.toRounded (a : F64) : Rounded M64 := ⟨a.val⟩

/-! (GENERATED blocks: identical up to the degree.) -/

/-! ### degree 0 -/

/-- the generated degree-0 evaluator run at the bit-exact soft-float -/
@[reducible] def Poly0.f64Run (p : Poly0 F64) (x : F64) : F64 :=
  @Evaluate.evaluate (Poly0 F64) F64 (@inst_Evaluate_Poly0 F64 (F64.inst ln exp)) p x

/-- the generated degree-0 evaluator run at the paired interpretation -/
@[reducible] noncomputable def Poly0.p64Run (p : Poly0 F64) (x : F64) : P64 :=
  @Evaluate.evaluate (Poly0 P64) P64 (@inst_Evaluate_Poly0 P64 (P64.inst ln exp)) (p.mapF P64.inp) (P64.inp x)

/-- `.x` is the run at `F64` -/
theorem poly0_p64_x (p : Poly0 F64) (x : F64) : (p.p64Run ln exp x).x = p.f64Run ln exp x := rfl

/-- `.r` is the run at `Rounded M64` on the values -/
theorem poly0_p64_r (p : Poly0 F64) (x : F64) :
    (p.p64Run ln exp x).r = (p.mapF F64.val).evalRounded M64 x.val := rfl

/-- the transfer: under the accumulated side conditions the bit-exact result is finite, canonical and its
value is the result of the rounded interpretation -/
theorem poly0_transfer (p : Poly0 F64) (x : F64) (h : (p.p64Run ln exp x).ok) :
    (p.f64Run ln exp x).Finite ∧ (p.f64Run ln exp x).Canon ∧
      (p.f64Run ln exp x).val = (p.mapF F64.val).evalRounded M64 x.val :=
  (p.p64Run ln exp x).transfer h

/-! ### degree 1 -/

/-- the generated degree-1 evaluator run at the bit-exact soft-float -/
@[reducible] def Poly1.f64Run (p : Poly1 F64) (x : F64) : F64 :=
  @Evaluate.evaluate (Poly1 F64) F64 (@inst_Evaluate_Poly1 F64 (F64.inst ln exp)) p x

/-- the generated degree-1 evaluator run at the paired interpretation -/
@[reducible] noncomputable def Poly1.p64Run (p : Poly1 F64) (x : F64) : P64 :=
  @Evaluate.evaluate (Poly1 P64) P64 (@inst_Evaluate_Poly1 P64 (P64.inst ln exp)) (p.mapF P64.inp) (P64.inp x)

/-- `.x` is the run at `F64` -/
theorem poly1_p64_x (p : Poly1 F64) (x : F64) : (p.p64Run ln exp x).x = p.f64Run ln exp x := rfl

/-- `.r` is the run at `Rounded M64` on the values -/
theorem poly1_p64_r (p : Poly1 F64) (x : F64) :
    (p.p64Run ln exp x).r = (p.mapF F64.val).evalRounded M64 x.val := rfl

/-- the transfer: under the accumulated side conditions the bit-exact result is finite, canonical and its
value is the result of the rounded interpretation -/
theorem poly1_transfer (p : Poly1 F64) (x : F64) (h : (p.p64Run ln exp x).ok) :
    (p.f64Run ln exp x).Finite ∧ (p.f64Run ln exp x).Canon ∧
      (p.f64Run ln exp x).val = (p.mapF F64.val).evalRounded M64 x.val :=
  (p.p64Run ln exp x).transfer h

/-! ### degree 2 -/

/-- the generated degree-2 evaluator run at the bit-exact soft-float -/
@[reducible] def Poly2.f64Run (p : Poly2 F64) (x : F64) : F64 :=
  @Evaluate.evaluate (Poly2 F64) F64 (@inst_Evaluate_Poly2 F64 (F64.inst ln exp)) p x

/-- the generated degree-2 evaluator run at the paired interpretation -/
@[reducible] noncomputable def Poly2.p64Run (p : Poly2 F64) (x : F64) : P64 :=
  @Evaluate.evaluate (Poly2 P64) P64 (@inst_Evaluate_Poly2 P64 (P64.inst ln exp)) (p.mapF P64.inp) (P64.inp x)

/-- `.x` is the run at `F64` -/
theorem poly2_p64_x (p : Poly2 F64) (x : F64) : (p.p64Run ln exp x).x = p.f64Run ln exp x := rfl

/-- `.r` is the run at `Rounded M64` on the values -/
theorem poly2_p64_r (p : Poly2 F64) (x : F64) :
    (p.p64Run ln exp x).r = (p.mapF F64.val).evalRounded M64 x.val := rfl

/-- the transfer: under the accumulated side conditions the bit-exact result is finite, canonical and its
value is the result of the rounded interpretation -/
theorem poly2_transfer (p : Poly2 F64) (x : F64) (h : (p.p64Run ln exp x).ok) :
    (p.f64Run ln exp x).Finite ∧ (p.f64Run ln exp x).Canon ∧
      (p.f64Run ln exp x).val = (p.mapF F64.val).evalRounded M64 x.val :=
  (p.p64Run ln exp x).transfer h

/-! ### degree 3 -/

/-- the generated degree-3 evaluator run at the bit-exact soft-float -/
@[reducible] def Poly3.f64Run (p : Poly3 F64) (x : F64) : F64 :=
  @Evaluate.evaluate (Poly3 F64) F64 (@inst_Evaluate_Poly3 F64 (F64.inst ln exp)) p x

/-- the generated degree-3 evaluator run at the paired interpretation -/
@[reducible] noncomputable def Poly3.p64Run (p : Poly3 F64) (x : F64) : P64 :=
  @Evaluate.evaluate (Poly3 P64) P64 (@inst_Evaluate_Poly3 P64 (P64.inst ln exp)) (p.mapF P64.inp) (P64.inp x)

/-- `.x` is the run at `F64` -/
theorem poly3_p64_x (p : Poly3 F64) (x : F64) : (p.p64Run ln exp x).x = p.f64Run ln exp x := rfl

/-- `.r` is the run at `Rounded M64` on the values -/
theorem poly3_p64_r (p : Poly3 F64) (x : F64) :
    (p.p64Run ln exp x).r = (p.mapF F64.val).evalRounded M64 x.val := rfl

/-- the transfer: under the accumulated side conditions the bit-exact result is finite, canonical and its
value is the result of the rounded interpretation -/
theorem poly3_transfer (p : Poly3 F64) (x : F64) (h : (p.p64Run ln exp x).ok) :
    (p.f64Run ln exp x).Finite ∧ (p.f64Run ln exp x).Canon ∧
      (p.f64Run ln exp x).val = (p.mapF F64.val).evalRounded M64 x.val :=
  (p.p64Run ln exp x).transfer h

/-! ### degree 4 -/

/-- the generated degree-4 evaluator run at the bit-exact soft-float -/
@[reducible] def Poly4.f64Run (p : Poly4 F64) (x : F64) : F64 :=
  @Evaluate.evaluate (Poly4 F64) F64 (@inst_Evaluate_Poly4 F64 (F64.inst ln exp)) p x

/-- the generated degree-4 evaluator run at the paired interpretation -/
@[reducible] noncomputable def Poly4.p64Run (p : Poly4 F64) (x : F64) : P64 :=
  @Evaluate.evaluate (Poly4 P64) P64 (@inst_Evaluate_Poly4 P64 (P64.inst ln exp)) (p.mapF P64.inp) (P64.inp x)

/-- `.x` is the run at `F64` -/
theorem poly4_p64_x (p : Poly4 F64) (x : F64) : (p.p64Run ln exp x).x = p.f64Run ln exp x := rfl

/-- `.r` is the run at `Rounded M64` on the values -/
theorem poly4_p64_r (p : Poly4 F64) (x : F64) :
    (p.p64Run ln exp x).r = (p.mapF F64.val).evalRounded M64 x.val := rfl

/-- the transfer: under the accumulated side conditions the bit-exact result is finite, canonical and its
value is the result of the rounded interpretation -/
theorem poly4_transfer (p : Poly4 F64) (x : F64) (h : (p.p64Run ln exp x).ok) :
    (p.f64Run ln exp x).Finite ∧ (p.f64Run ln exp x).Canon ∧
      (p.f64Run ln exp x).val = (p.mapF F64.val).evalRounded M64 x.val :=
  (p.p64Run ln exp x).transfer h

/-! ### degree 5 -/

/-- the generated degree-5 evaluator run at the bit-exact soft-float -/
@[reducible] def Poly5.f64Run (p : Poly5 F64) (x : F64) : F64 :=
  @Evaluate.evaluate (Poly5 F64) F64 (@inst_Evaluate_Poly5 F64 (F64.inst ln exp)) p x

/-- the generated degree-5 evaluator run at the paired interpretation -/
@[reducible] noncomputable def Poly5.p64Run (p : Poly5 F64) (x : F64) : P64 :=
  @Evaluate.evaluate (Poly5 P64) P64 (@inst_Evaluate_Poly5 P64 (P64.inst ln exp)) (p.mapF P64.inp) (P64.inp x)

/-- `.x` is the run at `F64` -/
theorem poly5_p64_x (p : Poly5 F64) (x : F64) : (p.p64Run ln exp x).x = p.f64Run ln exp x := rfl

/-- `.r` is the run at `Rounded M64` on the values -/
theorem poly5_p64_r (p : Poly5 F64) (x : F64) :
    (p.p64Run ln exp x).r = (p.mapF F64.val).evalRounded M64 x.val := rfl

/-- the transfer: under the accumulated side conditions the bit-exact result is finite, canonical and its
value is the result of the rounded interpretation -/
theorem poly5_transfer (p : Poly5 F64) (x : F64) (h : (p.p64Run ln exp x).ok) :
    (p.f64Run ln exp x).Finite ∧ (p.f64Run ln exp x).Canon ∧
      (p.f64Run ln exp x).val = (p.mapF F64.val).evalRounded M64 x.val :=
  (p.p64Run ln exp x).transfer h

/-! ### degree 6 -/

/-- the generated degree-6 evaluator run at the bit-exact soft-float -/
@[reducible] def Poly6.f64Run (p : Poly6 F64) (x : F64) : F64 :=
  @Evaluate.evaluate (Poly6 F64) F64 (@inst_Evaluate_Poly6 F64 (F64.inst ln exp)) p x

/-- the generated degree-6 evaluator run at the paired interpretation -/
@[reducible] noncomputable def Poly6.p64Run (p : Poly6 F64) (x : F64) : P64 :=
  @Evaluate.evaluate (Poly6 P64) P64 (@inst_Evaluate_Poly6 P64 (P64.inst ln exp)) (p.mapF P64.inp) (P64.inp x)

/-- `.x` is the run at `F64` -/
theorem poly6_p64_x (p : Poly6 F64) (x : F64) : (p.p64Run ln exp x).x = p.f64Run ln exp x := rfl

/-- `.r` is the run at `Rounded M64` on the values -/
theorem poly6_p64_r (p : Poly6 F64) (x : F64) :
    (p.p64Run ln exp x).r = (p.mapF F64.val).evalRounded M64 x.val := rfl

/-- the transfer: under the accumulated side conditions the bit-exact result is finite, canonical and its
value is the result of the rounded interpretation -/
theorem poly6_transfer (p : Poly6 F64) (x : F64) (h : (p.p64Run ln exp x).ok) :
    (p.f64Run ln exp x).Finite ∧ (p.f64Run ln exp x).Canon ∧
      (p.f64Run ln exp x).val = (p.mapF F64.val).evalRounded M64 x.val :=
  (p.p64Run ln exp x).transfer h

/-! ### degree 7 -/

/-- the generated degree-7 evaluator run at the bit-exact soft-float -/
@[reducible] def Poly7.f64Run (p : Poly7 F64) (x : F64) : F64 :=
  @Evaluate.evaluate (Poly7 F64) F64 (@inst_Evaluate_Poly7 F64 (F64.inst ln exp)) p x

/-- the generated degree-7 evaluator run at the paired interpretation -/
@[reducible] noncomputable def Poly7.p64Run (p : Poly7 F64) (x : F64) : P64 :=
  @Evaluate.evaluate (Poly7 P64) P64 (@inst_Evaluate_Poly7 P64 (P64.inst ln exp)) (p.mapF P64.inp) (P64.inp x)

/-- `.x` is the run at `F64` -/
theorem poly7_p64_x (p : Poly7 F64) (x : F64) : (p.p64Run ln exp x).x = p.f64Run ln exp x := rfl

/-- `.r` is the run at `Rounded M64` on the values -/
theorem poly7_p64_r (p : Poly7 F64) (x : F64) :
    (p.p64Run ln exp x).r = (p.mapF F64.val).evalRounded M64 x.val := rfl

/-- the transfer: under the accumulated side conditions the bit-exact result is finite, canonical and its
value is the result of the rounded interpretation -/
theorem poly7_transfer (p : Poly7 F64) (x : F64) (h : (p.p64Run ln exp x).ok) :
    (p.f64Run ln exp x).Finite ∧ (p.f64Run ln exp x).Canon ∧
      (p.f64Run ln exp x).val = (p.mapF F64.val).evalRounded M64 x.val :=
  (p.p64Run ln exp x).transfer h

/-! ### degree 8 -/

/-- the generated degree-8 evaluator run at the bit-exact soft-float -/
@[reducible] def Poly8.f64Run (p : Poly8 F64) (x : F64) : F64 :=
  @Evaluate.evaluate (Poly8 F64) F64 (@inst_Evaluate_Poly8 F64 (F64.inst ln exp)) p x

/-- the generated degree-8 evaluator run at the paired interpretation -/
@[reducible] noncomputable def Poly8.p64Run (p : Poly8 F64) (x : F64) : P64 :=
  @Evaluate.evaluate (Poly8 P64) P64 (@inst_Evaluate_Poly8 P64 (P64.inst ln exp)) (p.mapF P64.inp) (P64.inp x)

/-- `.x` is the run at `F64` -/
theorem poly8_p64_x (p : Poly8 F64) (x : F64) : (p.p64Run ln exp x).x = p.f64Run ln exp x := rfl

/-- `.r` is the run at `Rounded M64` on the values -/
theorem poly8_p64_r (p : Poly8 F64) (x : F64) :
    (p.p64Run ln exp x).r = (p.mapF F64.val).evalRounded M64 x.val := rfl

/-- the transfer: under the accumulated side conditions the bit-exact result is finite, canonical and its
value is the result of the rounded interpretation -/
theorem poly8_transfer (p : Poly8 F64) (x : F64) (h : (p.p64Run ln exp x).ok) :
    (p.f64Run ln exp x).Finite ∧ (p.f64Run ln exp x).Canon ∧
      (p.f64Run ln exp x).val = (p.mapF F64.val).evalRounded M64 x.val :=
  (p.p64Run ln exp x).transfer h

end demo
