import PP.Sem.Rounded
import PP.Model.Poly.EvaluateAttr
import PP.Hand.Constructors
/-!
# Interpretation C: the counting semantics (closed-form rounding bounds)

A number of `Ct M` carries
* `e` — the exact value,
* `a` — the value computed in rounded arithmetic (`Rounded M`),
* `A` — the value of the *same program* run on absolute values (for a polynomial scheme: Σ|cᵢ||x|ⁱ),
* `k` — the rounding depth (the largest number of roundings on a path from an input to the result,
        products adding their depths),
* `ok` — a Boolean flag: `false` as soon as an operation outside the counting discipline
        (`div`, `ln`, `exp`) was used; then nothing is claimed,

with the invariant `ok → |e| ≤ A ∧ |a - e| ≤ ((1+u)^k - 1)·A` (`CtInv`), proved once per operation:

| operation        | `A`           | `k`                        |
|------------------|---------------|----------------------------|
| input            | `|e|`         | `0`                        |
| literal          | `|e|`         | `1`                        |
| `neg`, `abs`     | `A`           | `k`                        |
| `max`            | `max A₁ A₂`   | `max k₁ k₂`                |
| `add`, `sub`     | `A₁ + A₂`     | `max k₁ k₂ + 1`            |
| `mul`            | `A₁·A₂`       | `k₁ + k₂ + 1`              |
| `fma`            | `A₁·A₂ + A₃`  | `max (k₁+k₂) k₃ + 1`       |

Because the model is polymorphic in its number type, *running* a model program at `Ct M` produces its error
bound: the projections `.e`, `.a`, `.A` commute with the program by `rfl` and `.k`, `.ok` evaluate to
literals by `rfl`.  Nothing below depends on the shape of the generated evaluation schemes, except the
measured numerals `poly⟨n⟩_ct_k` (which document them).
-/
set_option linter.unusedSectionVars false

variable {K : Type} [Field K] [LinearOrder K] [IsStrictOrderedRing K]

open PP.Lemmas.Rounding

/-- the invariant of the counting semantics -/
def CtInv (M : RModel K) (e a A : K) (k : ℕ) : Prop :=
  |e| ≤ A ∧ |a - e| ≤ ((1 + M.u) ^ k - 1) * A

namespace CtInv
variable {M : RModel K} {e a A e₁ a₁ A₁ e₂ a₂ A₂ : K} {k k₁ k₂ : ℕ}

theorem A_nonneg (h : CtInv M e a A k) : 0 ≤ A := le_trans (abs_nonneg _) h.1

/-- an input: no error -/
theorem inp (M : RModel K) (x : K) : CtInv M x x |x| 0 := ⟨le_refl _, by simp⟩

/-- the depth may be over-estimated -/
theorem mono (h : CtInv M e a A k₁) (hk : k₁ ≤ k₂) : CtInv M e a A k₂ :=
  ⟨h.1, le_trans h.2 (mul_le_mul_of_nonneg_right (growth_mono M.hu hk) h.A_nonneg)⟩

/-- one rounding: depth + 1 -/
theorem rnd (h : CtInv M e a A k) : CtInv M e (M.rnd a) A (k + 1) := by
  refine ⟨h.1, ?_⟩
  have := rnd_step M.hu M.h a e A ((1 + M.u) ^ k - 1) h.1 h.2
  convert this using 2
  rw [pow_succ]; ring

/-- a literal (or any exact value that is rounded once) -/
theorem lit (M : RModel K) (t : K) : CtInv M t (M.rnd t) |t| 1 := by
  simpa using (inp M t).rnd

theorem neg (h : CtInv M e a A k) : CtInv M (-e) (-a) A k := by
  refine ⟨by rw [abs_neg]; exact h.1, ?_⟩
  have : -a - -e = -(a - e) := by ring
  rw [this, abs_neg]; exact h.2

theorem abs (h : CtInv M e a A k) : CtInv M |e| |a| A k :=
  ⟨by rw [abs_abs]; exact h.1, abs_close _ _ _ h.2⟩

/-- exact product: depths add -/
theorem prod (h₁ : CtInv M e₁ a₁ A₁ k₁) (h₂ : CtInv M e₂ a₂ A₂ k₂) :
    CtInv M (e₁ * e₂) (a₁ * a₂) (A₁ * A₂) (k₁ + k₂) := by
  have hx0 := h₁.A_nonneg
  have hy0 := h₂.A_nonneg
  have gx := growth_nonneg M.hu k₁
  have gy := growth_nonneg M.hu k₂
  refine ⟨by rw [abs_mul]; exact mul_le_mul h₁.1 h₂.1 (abs_nonneg _) hx0, ?_⟩
  have e1 : a₁ * a₂ - e₁ * e₂ = e₁ * (a₂ - e₂) + e₂ * (a₁ - e₁) + (a₁ - e₁) * (a₂ - e₂) := by ring
  rw [e1]
  have b1 : |e₁ * (a₂ - e₂)| ≤ A₁ * (((1 + M.u) ^ k₂ - 1) * A₂) := by
    rw [abs_mul]; exact mul_le_mul h₁.1 h₂.2 (abs_nonneg _) hx0
  have b2 : |e₂ * (a₁ - e₁)| ≤ A₂ * (((1 + M.u) ^ k₁ - 1) * A₁) := by
    rw [abs_mul]; exact mul_le_mul h₂.1 h₁.2 (abs_nonneg _) hy0
  have b3 : |(a₁ - e₁) * (a₂ - e₂)| ≤ (((1 + M.u) ^ k₁ - 1) * A₁) * (((1 + M.u) ^ k₂ - 1) * A₂) := by
    rw [abs_mul]; exact mul_le_mul h₁.2 h₂.2 (abs_nonneg _) (mul_nonneg gx hx0)
  calc _ ≤ |e₁ * (a₂ - e₂)| + |e₂ * (a₁ - e₁)| + |(a₁ - e₁) * (a₂ - e₂)| := abs_add_three _ _ _
    _ ≤ A₁ * (((1 + M.u) ^ k₂ - 1) * A₂) + A₂ * (((1 + M.u) ^ k₁ - 1) * A₁)
          + (((1 + M.u) ^ k₁ - 1) * A₁) * (((1 + M.u) ^ k₂ - 1) * A₂) := by linarith
    _ = ((1 + M.u) ^ (k₁ + k₂) - 1) * (A₁ * A₂) := by rw [pow_add]; ring

/-- exact sum: the larger depth -/
theorem sum (h₁ : CtInv M e₁ a₁ A₁ k₁) (h₂ : CtInv M e₂ a₂ A₂ k₂) :
    CtInv M (e₁ + e₂) (a₁ + a₂) (A₁ + A₂) (max k₁ k₂) := by
  have h₁' := h₁.mono (le_max_left k₁ k₂)
  have h₂' := h₂.mono (le_max_right k₁ k₂)
  refine ⟨le_trans (abs_add_le _ _) (add_le_add h₁.1 h₂.1), ?_⟩
  have := add_close _ _ _ _ _ _ h₁'.2 h₂'.2
  calc _ ≤ _ := this
    _ = _ := by ring

/-- exact difference: the larger depth -/
theorem diff (h₁ : CtInv M e₁ a₁ A₁ k₁) (h₂ : CtInv M e₂ a₂ A₂ k₂) :
    CtInv M (e₁ - e₂) (a₁ - a₂) (A₁ + A₂) (max k₁ k₂) := by
  simpa [sub_eq_add_neg] using h₁.sum h₂.neg

/-- `max` (never rounds) -/
theorem max (h₁ : CtInv M e₁ a₁ A₁ k₁) (h₂ : CtInv M e₂ a₂ A₂ k₂) :
    CtInv M (max e₁ e₂) (max a₁ a₂) (max A₁ A₂) (max k₁ k₂) := by
  have h₁' := h₁.mono (le_max_left k₁ k₂)
  have h₂' := h₂.mono (le_max_right k₁ k₂)
  have g := growth_nonneg M.hu (Max.max k₁ k₂)
  constructor
  · rw [abs_le]
    constructor
    · have := (abs_le.mp h₁.1).1
      have := le_max_left A₁ A₂
      have := le_max_left e₁ e₂
      linarith
    · exact max_le_max (le_trans (le_abs_self _) h₁.1) (le_trans (le_abs_self _) h₂.1)
  · refine le_trans (max_close _ _ _ _ _ _ h₁'.2 h₂'.2) (max_le ?_ ?_)
    · exact mul_le_mul_of_nonneg_left (le_max_left _ _) g
    · exact mul_le_mul_of_nonneg_left (le_max_right _ _) g

/-! the rounded operations: one lemma per operation -/

theorem add (h₁ : CtInv M e₁ a₁ A₁ k₁) (h₂ : CtInv M e₂ a₂ A₂ k₂) :
    CtInv M (e₁ + e₂) (M.rnd (a₁ + a₂)) (A₁ + A₂) (Max.max k₁ k₂ + 1) := (h₁.sum h₂).rnd

theorem sub (h₁ : CtInv M e₁ a₁ A₁ k₁) (h₂ : CtInv M e₂ a₂ A₂ k₂) :
    CtInv M (e₁ - e₂) (M.rnd (a₁ - a₂)) (A₁ + A₂) (Max.max k₁ k₂ + 1) := (h₁.diff h₂).rnd

theorem mul (h₁ : CtInv M e₁ a₁ A₁ k₁) (h₂ : CtInv M e₂ a₂ A₂ k₂) :
    CtInv M (e₁ * e₂) (M.rnd (a₁ * a₂)) (A₁ * A₂) (k₁ + k₂ + 1) := (h₁.prod h₂).rnd

/-- `fma`: ONE rounding of `a₁*a₂ + a₃` -/
theorem fma {e₃ a₃ A₃ : K} {k₃ : ℕ} (h₁ : CtInv M e₁ a₁ A₁ k₁) (h₂ : CtInv M e₂ a₂ A₂ k₂)
    (h₃ : CtInv M e₃ a₃ A₃ k₃) :
    CtInv M (e₁ * e₂ + e₃) (M.rnd (a₁ * a₂ + a₃)) (A₁ * A₂ + A₃) (Max.max (k₁ + k₂) k₃ + 1) :=
  ((h₁.prod h₂).sum h₃).rnd

end CtInv

/-- a number of the counting interpretation -/
structure Ct (M : RModel K) where
  e : K
  a : K
  A : K
  k : ℕ
  ok : Bool
  inv : ok = true → CtInv M e a A k

namespace Ct
variable {M : RModel K}

/-- an input (coefficient, argument): exact, `A = |e|`, depth 0 -/
def inp (M : RModel K) (x : K) : Ct M := ⟨x, x, |x|, 0, true, fun _ => CtInv.inp M x⟩

/-- the bound carried by a number -/
theorem bound (c : Ct M) (h : c.ok = true) : |c.a - c.e| ≤ ((1 + M.u) ^ c.k - 1) * c.A := (c.inv h).2

theorem abs_e_le (c : Ct M) (h : c.ok = true) : |c.e| ≤ c.A := (c.inv h).1

/-- the closed form: if the depth is at most `n` and `n·u ≤ 1/2` then the error is at most `2·n·u·A` -/
theorem bound_two_mul (c : Ct M) (h : c.ok = true) (n : ℕ) (hk : c.k ≤ n) (hn : (n : K) * M.u ≤ 1 / 2) :
    |c.a - c.e| ≤ 2 * n * M.u * c.A :=
  le_trans (c.bound h) (mul_le_mul_of_nonneg_right (growth_le_of_le M.hu hk hn) (c.inv h).A_nonneg)

private theorem and2 {a b : Bool} (h : (a && b) = true) : a = true ∧ b = true := by
  simpa using h
private theorem and3 {a b c : Bool} (h : (a && b && c) = true) : a = true ∧ b = true ∧ c = true := by
  simpa [and_assoc] using h

noncomputable instance instFloatLike [Transc K] : FloatLike (Ct M) where
  add := fun x y => ⟨x.e + y.e, M.rnd (x.a + y.a), x.A + y.A, max x.k y.k + 1, x.ok && y.ok,
    fun h => (x.inv (and2 h).1).add (y.inv (and2 h).2)⟩
  sub := fun x y => ⟨x.e - y.e, M.rnd (x.a - y.a), x.A + y.A, max x.k y.k + 1, x.ok && y.ok,
    fun h => (x.inv (and2 h).1).sub (y.inv (and2 h).2)⟩
  mul := fun x y => ⟨x.e * y.e, M.rnd (x.a * y.a), x.A * y.A, x.k + y.k + 1, x.ok && y.ok,
    fun h => (x.inv (and2 h).1).mul (y.inv (and2 h).2)⟩
  fma := fun x y z => ⟨x.e * y.e + z.e, M.rnd (x.a * y.a + z.a), x.A * y.A + z.A, max (x.k + y.k) z.k + 1,
    x.ok && y.ok && z.ok,
    fun h => (x.inv (and3 h).1).fma (y.inv (and3 h).2.1) (z.inv (and3 h).2.2)⟩
  neg := fun x => ⟨-x.e, -x.a, x.A, x.k, x.ok, fun h => (x.inv h).neg⟩
  abs := fun x => ⟨|x.e|, |x.a|, x.A, x.k, x.ok, fun h => (x.inv h).abs⟩
  max := fun x y => ⟨max x.e y.e, max x.a y.a, max x.A y.A, max x.k y.k, x.ok && y.ok,
    fun h => (x.inv (and2 h).1).max (y.inv (and2 h).2)⟩
  ofDec := fun m e => ⟨(m : K) * (10 : K) ^ e, M.rnd ((m : K) * (10 : K) ^ e), |(m : K) * (10 : K) ^ e|, 1, true,
    fun _ => CtInv.lit M _⟩
  epsilon := inp M ((2 : K) ^ (-52 : Int))
  -- outside the counting discipline: the values are still computed, nothing is claimed (`ok = false`)
  div := fun x y => ⟨x.e / y.e, M.rnd (x.a / y.a), |x.e / y.e|, 0, false, fun h => by cases h⟩
  ln := fun x => ⟨Transc.ln x.e, M.rnd (Transc.ln x.a), |Transc.ln x.e|, 0, false, fun h => by cases h⟩
  exp := fun x => ⟨Transc.exp x.e, M.rnd (Transc.exp x.a), |Transc.exp x.e|, 0, false, fun h => by cases h⟩
  -- comparisons: those of the exact run
  lt := fun x y => decide (x.e < y.e)
  le := fun x y => decide (x.e ≤ y.e)
  feq := fun x y => decide (x.e = y.e)
  isNaN := fun _ => false
  isInf := fun _ => false

end Ct

/-! ## Running the generated evaluation schemes at `Ct M`

For `p : PolyN K` (N = 0..8) and `x : K`:
* `PolyN.evalRounded M p x` (`PP/Sem/Rounded.lean`) is the generated `evaluate` run in rounded arithmetic;
* `PolyN.ctRun M p x` is the same generated `evaluate` run at `Ct M` on the injected inputs.
The projections of `ctRun` are, *by `rfl`*: the exact run, the rounded run, the exact run on absolute
values; its depth is a numeral and its flag is `true`, again by `rfl`.  (GENERATED section: the nine
blocks are identical up to the degree.) -/

section run
variable [Transc K] (M : RModel K)
attribute [local instance] exactFL

/-! ### degree 0 -/
@[reducible] noncomputable def Poly0.ctRun (p : Poly0 K) (x : K) : Ct M :=
  Evaluate.evaluate (p.mapF (Ct.inp M)) (Ct.inp M x)

theorem poly0_ct_e (p : Poly0 K) (x : K) : (p.ctRun M x).e = Evaluate.evaluate p x := rfl
theorem poly0_ct_a (p : Poly0 K) (x : K) : (p.ctRun M x).a = p.evalRounded M x := rfl
theorem poly0_ct_A (p : Poly0 K) (x : K) : (p.ctRun M x).A = Evaluate.evaluate (p.mapF abs) |x| := rfl
theorem poly0_ct_ok (p : Poly0 K) (x : K) : (p.ctRun M x).ok = true := rfl
theorem poly0_ct_e_sum (p : Poly0 K) (x : K) :
    (p.ctRun M x).e = p._0 := by
  show Evaluate.evaluate p x = _
  exact_simp
theorem poly0_ct_A_sum (p : Poly0 K) (x : K) :
    (p.ctRun M x).A = |p._0| := by
  show Evaluate.evaluate (p.mapF abs) |x| = _
  exact_simp

/-! ### degree 1 -/
@[reducible] noncomputable def Poly1.ctRun (p : Poly1 K) (x : K) : Ct M :=
  Evaluate.evaluate (p.mapF (Ct.inp M)) (Ct.inp M x)

theorem poly1_ct_e (p : Poly1 K) (x : K) : (p.ctRun M x).e = Evaluate.evaluate p x := rfl
theorem poly1_ct_a (p : Poly1 K) (x : K) : (p.ctRun M x).a = p.evalRounded M x := rfl
theorem poly1_ct_A (p : Poly1 K) (x : K) : (p.ctRun M x).A = Evaluate.evaluate (p.mapF abs) |x| := rfl
theorem poly1_ct_ok (p : Poly1 K) (x : K) : (p.ctRun M x).ok = true := rfl
theorem poly1_ct_e_sum (p : Poly1 K) (x : K) :
    (p.ctRun M x).e = p._0.a0 + p._0.a1 * x := by
  show Evaluate.evaluate p x = _
  exact_simp; ring
theorem poly1_ct_A_sum (p : Poly1 K) (x : K) :
    (p.ctRun M x).A = |p._0.a0| + |p._0.a1| * |x| := by
  show Evaluate.evaluate (p.mapF abs) |x| = _
  exact_simp; ring

/-! ### degree 2 -/
@[reducible] noncomputable def Poly2.ctRun (p : Poly2 K) (x : K) : Ct M :=
  Evaluate.evaluate (p.mapF (Ct.inp M)) (Ct.inp M x)

theorem poly2_ct_e (p : Poly2 K) (x : K) : (p.ctRun M x).e = Evaluate.evaluate p x := rfl
theorem poly2_ct_a (p : Poly2 K) (x : K) : (p.ctRun M x).a = p.evalRounded M x := rfl
theorem poly2_ct_A (p : Poly2 K) (x : K) : (p.ctRun M x).A = Evaluate.evaluate (p.mapF abs) |x| := rfl
theorem poly2_ct_ok (p : Poly2 K) (x : K) : (p.ctRun M x).ok = true := rfl
theorem poly2_ct_e_sum (p : Poly2 K) (x : K) :
    (p.ctRun M x).e = p._0.a0 + p._0.a1 * x + p._0.a2 * x ^ 2 := by
  show Evaluate.evaluate p x = _
  exact_simp; ring
theorem poly2_ct_A_sum (p : Poly2 K) (x : K) :
    (p.ctRun M x).A = |p._0.a0| + |p._0.a1| * |x| + |p._0.a2| * |x| ^ 2 := by
  show Evaluate.evaluate (p.mapF abs) |x| = _
  exact_simp; ring

/-! ### degree 3 -/
@[reducible] noncomputable def Poly3.ctRun (p : Poly3 K) (x : K) : Ct M :=
  Evaluate.evaluate (p.mapF (Ct.inp M)) (Ct.inp M x)

theorem poly3_ct_e (p : Poly3 K) (x : K) : (p.ctRun M x).e = Evaluate.evaluate p x := rfl
theorem poly3_ct_a (p : Poly3 K) (x : K) : (p.ctRun M x).a = p.evalRounded M x := rfl
theorem poly3_ct_A (p : Poly3 K) (x : K) : (p.ctRun M x).A = Evaluate.evaluate (p.mapF abs) |x| := rfl
theorem poly3_ct_ok (p : Poly3 K) (x : K) : (p.ctRun M x).ok = true := rfl
theorem poly3_ct_e_sum (p : Poly3 K) (x : K) :
    (p.ctRun M x).e = p._0.a0 + p._0.a1 * x + p._0.a2 * x ^ 2 + p._0.a3 * x ^ 3 := by
  show Evaluate.evaluate p x = _
  exact_simp; ring
theorem poly3_ct_A_sum (p : Poly3 K) (x : K) :
    (p.ctRun M x).A = |p._0.a0| + |p._0.a1| * |x| + |p._0.a2| * |x| ^ 2 + |p._0.a3| * |x| ^ 3 := by
  show Evaluate.evaluate (p.mapF abs) |x| = _
  exact_simp; ring

/-! ### degree 4 -/
@[reducible] noncomputable def Poly4.ctRun (p : Poly4 K) (x : K) : Ct M :=
  Evaluate.evaluate (p.mapF (Ct.inp M)) (Ct.inp M x)

theorem poly4_ct_e (p : Poly4 K) (x : K) : (p.ctRun M x).e = Evaluate.evaluate p x := rfl
theorem poly4_ct_a (p : Poly4 K) (x : K) : (p.ctRun M x).a = p.evalRounded M x := rfl
theorem poly4_ct_A (p : Poly4 K) (x : K) : (p.ctRun M x).A = Evaluate.evaluate (p.mapF abs) |x| := rfl
theorem poly4_ct_ok (p : Poly4 K) (x : K) : (p.ctRun M x).ok = true := rfl
theorem poly4_ct_e_sum (p : Poly4 K) (x : K) :
    (p.ctRun M x).e = p._0.a0 + p._0.a1 * x + p._0.a2 * x ^ 2 + p._0.a3 * x ^ 3 + p._0.a4 * x ^ 4 := by
  show Evaluate.evaluate p x = _
  exact_simp; ring
theorem poly4_ct_A_sum (p : Poly4 K) (x : K) :
    (p.ctRun M x).A = |p._0.a0| + |p._0.a1| * |x| + |p._0.a2| * |x| ^ 2 + |p._0.a3| * |x| ^ 3 + |p._0.a4| * |x| ^ 4 := by
  show Evaluate.evaluate (p.mapF abs) |x| = _
  exact_simp; ring

/-! ### degree 5 -/
@[reducible] noncomputable def Poly5.ctRun (p : Poly5 K) (x : K) : Ct M :=
  Evaluate.evaluate (p.mapF (Ct.inp M)) (Ct.inp M x)

theorem poly5_ct_e (p : Poly5 K) (x : K) : (p.ctRun M x).e = Evaluate.evaluate p x := rfl
theorem poly5_ct_a (p : Poly5 K) (x : K) : (p.ctRun M x).a = p.evalRounded M x := rfl
theorem poly5_ct_A (p : Poly5 K) (x : K) : (p.ctRun M x).A = Evaluate.evaluate (p.mapF abs) |x| := rfl
theorem poly5_ct_ok (p : Poly5 K) (x : K) : (p.ctRun M x).ok = true := rfl
theorem poly5_ct_e_sum (p : Poly5 K) (x : K) :
    (p.ctRun M x).e = p._0.a0 + p._0.a1 * x + p._0.a2 * x ^ 2 + p._0.a3 * x ^ 3 + p._0.a4 * x ^ 4 + p._0.a5 * x ^ 5 := by
  show Evaluate.evaluate p x = _
  exact_simp; ring
theorem poly5_ct_A_sum (p : Poly5 K) (x : K) :
    (p.ctRun M x).A = |p._0.a0| + |p._0.a1| * |x| + |p._0.a2| * |x| ^ 2 + |p._0.a3| * |x| ^ 3 + |p._0.a4| * |x| ^ 4 + |p._0.a5| * |x| ^ 5 := by
  show Evaluate.evaluate (p.mapF abs) |x| = _
  exact_simp; ring

/-! ### degree 6 -/
@[reducible] noncomputable def Poly6.ctRun (p : Poly6 K) (x : K) : Ct M :=
  Evaluate.evaluate (p.mapF (Ct.inp M)) (Ct.inp M x)

theorem poly6_ct_e (p : Poly6 K) (x : K) : (p.ctRun M x).e = Evaluate.evaluate p x := rfl
theorem poly6_ct_a (p : Poly6 K) (x : K) : (p.ctRun M x).a = p.evalRounded M x := rfl
theorem poly6_ct_A (p : Poly6 K) (x : K) : (p.ctRun M x).A = Evaluate.evaluate (p.mapF abs) |x| := rfl
theorem poly6_ct_ok (p : Poly6 K) (x : K) : (p.ctRun M x).ok = true := rfl
theorem poly6_ct_e_sum (p : Poly6 K) (x : K) :
    (p.ctRun M x).e = p._0.a0 + p._0.a1 * x + p._0.a2 * x ^ 2 + p._0.a3 * x ^ 3 + p._0.a4 * x ^ 4 + p._0.a5 * x ^ 5 + p._0.a6 * x ^ 6 := by
  show Evaluate.evaluate p x = _
  exact_simp; ring
theorem poly6_ct_A_sum (p : Poly6 K) (x : K) :
    (p.ctRun M x).A = |p._0.a0| + |p._0.a1| * |x| + |p._0.a2| * |x| ^ 2 + |p._0.a3| * |x| ^ 3 + |p._0.a4| * |x| ^ 4 + |p._0.a5| * |x| ^ 5 + |p._0.a6| * |x| ^ 6 := by
  show Evaluate.evaluate (p.mapF abs) |x| = _
  exact_simp; ring

/-! ### degree 7 -/
@[reducible] noncomputable def Poly7.ctRun (p : Poly7 K) (x : K) : Ct M :=
  Evaluate.evaluate (p.mapF (Ct.inp M)) (Ct.inp M x)

theorem poly7_ct_e (p : Poly7 K) (x : K) : (p.ctRun M x).e = Evaluate.evaluate p x := rfl
theorem poly7_ct_a (p : Poly7 K) (x : K) : (p.ctRun M x).a = p.evalRounded M x := rfl
theorem poly7_ct_A (p : Poly7 K) (x : K) : (p.ctRun M x).A = Evaluate.evaluate (p.mapF abs) |x| := rfl
theorem poly7_ct_ok (p : Poly7 K) (x : K) : (p.ctRun M x).ok = true := rfl
theorem poly7_ct_e_sum (p : Poly7 K) (x : K) :
    (p.ctRun M x).e = p._0.a0 + p._0.a1 * x + p._0.a2 * x ^ 2 + p._0.a3 * x ^ 3 + p._0.a4 * x ^ 4 + p._0.a5 * x ^ 5 + p._0.a6 * x ^ 6 + p._0.a7 * x ^ 7 := by
  show Evaluate.evaluate p x = _
  exact_simp; ring
theorem poly7_ct_A_sum (p : Poly7 K) (x : K) :
    (p.ctRun M x).A = |p._0.a0| + |p._0.a1| * |x| + |p._0.a2| * |x| ^ 2 + |p._0.a3| * |x| ^ 3 + |p._0.a4| * |x| ^ 4 + |p._0.a5| * |x| ^ 5 + |p._0.a6| * |x| ^ 6 + |p._0.a7| * |x| ^ 7 := by
  show Evaluate.evaluate (p.mapF abs) |x| = _
  exact_simp; ring

/-! ### degree 8 -/
@[reducible] noncomputable def Poly8.ctRun (p : Poly8 K) (x : K) : Ct M :=
  Evaluate.evaluate (p.mapF (Ct.inp M)) (Ct.inp M x)

theorem poly8_ct_e (p : Poly8 K) (x : K) : (p.ctRun M x).e = Evaluate.evaluate p x := rfl
theorem poly8_ct_a (p : Poly8 K) (x : K) : (p.ctRun M x).a = p.evalRounded M x := rfl
theorem poly8_ct_A (p : Poly8 K) (x : K) : (p.ctRun M x).A = Evaluate.evaluate (p.mapF abs) |x| := rfl
theorem poly8_ct_ok (p : Poly8 K) (x : K) : (p.ctRun M x).ok = true := rfl
theorem poly8_ct_e_sum (p : Poly8 K) (x : K) :
    (p.ctRun M x).e = p._0.a0 + p._0.a1 * x + p._0.a2 * x ^ 2 + p._0.a3 * x ^ 3 + p._0.a4 * x ^ 4 + p._0.a5 * x ^ 5 + p._0.a6 * x ^ 6 + p._0.a7 * x ^ 7 + p._0.a8 * x ^ 8 := by
  show Evaluate.evaluate p x = _
  exact_simp; ring
theorem poly8_ct_A_sum (p : Poly8 K) (x : K) :
    (p.ctRun M x).A = |p._0.a0| + |p._0.a1| * |x| + |p._0.a2| * |x| ^ 2 + |p._0.a3| * |x| ^ 3 + |p._0.a4| * |x| ^ 4 + |p._0.a5| * |x| ^ 5 + |p._0.a6| * |x| ^ 6 + |p._0.a7| * |x| ^ 7 + |p._0.a8| * |x| ^ 8 := by
  show Evaluate.evaluate (p.mapF abs) |x| = _
  exact_simp; ring

end run

/-! ## The dynamic-degree polynomial: Horner's rule with `fma` over a list of any length

`Hand.polyNEvaluate` folds `acc ↦ fma acc x e` over the reversed coefficient list.  By induction on the list
the counting run has depth `length - 1` (= the degree), and its projections are the exact / rounded /
absolute-value runs. -/

section horner
variable [Transc K] (M : RModel K)
attribute [local instance] exactFL

/-- Horner's rule with `fma` over a list of any length, run at `Ct M` from an accumulator `first`:
the depth grows by one per step, the projections are the exact / rounded / absolute-value Horner folds -/
theorem horner_ct (x : K) : ∀ (rest : List K) (first : Ct M), first.ok = true →
    let r := (rest.map (Ct.inp M)).foldl (fun acc e => FloatLike.fma acc (Ct.inp M x) e) first
    r.ok = true ∧ r.k = first.k + rest.length
      ∧ r.e = rest.foldl (fun acc e => acc * x + e) first.e
      ∧ r.a = ((rest.map Rounded.mk).foldl (fun acc e => FloatLike.fma acc (⟨x⟩ : Rounded M) e) ⟨first.a⟩).val
      ∧ r.A = rest.foldl (fun acc e => acc * |x| + |e|) first.A
  | [], first, h => ⟨h, rfl, rfl, rfl, rfl⟩
  | c :: rest, first, h => by
    have hok : (FloatLike.fma first (Ct.inp M x) (Ct.inp M c)).ok = true := by
      show (first.ok && true && true) = true
      rw [h]; rfl
    have ih := horner_ct x rest (FloatLike.fma first (Ct.inp M x) (Ct.inp M c)) hok
    simp only [List.map_cons, List.foldl_cons, List.length_cons]
    refine ⟨ih.1, ?_, ih.2.2.1, ih.2.2.2.1, ih.2.2.2.2⟩
    rw [ih.2.1]
    show max (first.k + 0) 0 + 1 + rest.length = first.k + (rest.length + 1)
    simp; omega

/-- the dynamic-degree polynomial (`Hand.polyNEvaluate`: Horner with `fma`) run at `Ct M` on injected inputs -/
@[reducible] noncomputable def PolyN.ctRun (cs : List K) (x : K) : Ct M :=
  Evaluate.evaluate (⟨cs.map (Ct.inp M)⟩ : PolyN (Ct M)) (Ct.inp M x)

theorem polyN_ct (cs : List K) (x : K) (hne : cs ≠ []) :
    (PolyN.ctRun M cs x).ok = true ∧ (PolyN.ctRun M cs x).k = cs.length - 1
      ∧ (PolyN.ctRun M cs x).e = Evaluate.evaluate (⟨cs⟩ : PolyN K) x
      ∧ (PolyN.ctRun M cs x).a = PolyN.evalRounded M cs x
      ∧ (PolyN.ctRun M cs x).A = Evaluate.evaluate (⟨cs.map abs⟩ : PolyN K) |x| := by
  cases h : cs.reverse with
  | nil => exact absurd (by simpa using h) hne
  | cons first rest =>
    have hlen : cs.length = rest.length + 1 := by
      have := congrArg List.length h
      simpa using this
    have hc : PolyN.ctRun M cs x = _ := Hand.polyNEvaluate_map (Ct.inp M) cs (Ct.inp M x) first rest h
    have hr : Evaluate.evaluate (⟨cs.map Rounded.mk⟩ : PolyN (Rounded M)) (⟨x⟩ : Rounded M) = _ :=
      Hand.polyNEvaluate_map Rounded.mk cs (⟨x⟩ : Rounded M) first rest h
    have he : Evaluate.evaluate (⟨cs⟩ : PolyN K) x = rest.foldl (fun acc e => FloatLike.fma acc x e) first := by
      have := Hand.polyNEvaluate_map (id : K → K) cs x first rest h
      simp only [List.map_id, id] at this
      exact this
    have hA : Evaluate.evaluate (⟨cs.map abs⟩ : PolyN K) |x| = _ :=
      Hand.polyNEvaluate_map (abs : K → K) cs |x| first rest h
    have := horner_ct M x rest (Ct.inp M first) rfl
    rw [hc, PolyN.evalRounded, hr, he, hA]
    refine ⟨this.1, ?_, this.2.2.1, this.2.2.2.1, ?_⟩
    · rw [this.2.1, hlen]; show 0 + rest.length = _; omega
    · rw [this.2.2.2.2, List.foldl_map]; rfl

end horner
