import Mathlib.Tactic.Ring
import Mathlib.Tactic.FieldSimp
import Mathlib.Tactic.Linarith
import Mathlib.Tactic.NormNum
import Mathlib.Algebra.Order.Field.Basic
import PP.Core.Traits
import PP.Core.Attr
/-!
# Interpretation E: exact arithmetic over any linearly ordered field

`exactFL K` (given `[Transc K]`) is used as a *local instance on the bare field* in proof files (a type synonym would
break `ring`).  `fma a b c = a*b + c`, `ofDec m e = m · 10^e`, comparisons are the field's own;
`ln`, `exp` are parameters (instantiated with `Real.log`, `Real.exp` where a theorem needs them).
-/

/-- the transcendental functions the model is parametric in -/
class Transc (K : Type) where
  ln : K → K
  exp : K → K

@[reducible] noncomputable def exactFL (K : Type) [Field K] [LinearOrder K] [Transc K] : FloatLike K where
  add := fun a b => a + b
  sub := fun a b => a - b
  mul := fun a b => a * b
  div := fun a b => a / b
  neg := fun a => -a
  abs := fun a => |a|
  fma := fun a b c => a * b + c
  max := fun a b => max a b
  ofDec := fun m e => (m : K) * (10 : K) ^ e
  epsilon := (2 : K) ^ (-52 : Int)
  lt := fun a b => decide (a < b)
  le := fun a b => decide (a ≤ b)
  feq := fun a b => decide (a = b)
  isNaN := fun _ => false
  isInf := fun _ => false
  ln := Transc.ln
  exp := Transc.exp

/-- unfolds the operator classes and `FloatLike` projections to field operations -/
macro "exact_simp" : tactic =>
  `(tactic| simp only [pp_model, Evaluate.evaluate, HasDerivative.derivative, Translate.translate,
      HasIntegral.indefinite, HasIntegral.integral, ArrLike.map, ArrLike.zipWith, ArrLike.toList, PMul.mul, PAdd.add, PSub.sub, PDiv.div, PNeg.neg, PMulAssign.mulAssign,
      PAddAssign.addAssign, PSubAssign.subAssign, FloatLike.add, FloatLike.sub, FloatLike.mul, FloatLike.div,
      FloatLike.neg, FloatLike.fma, FloatLike.recip, FloatLike.ofDec, FloatLike.ln, FloatLike.exp,
      Int.cast_ofNat, Int.cast_one, Int.cast_zero, Int.cast_neg, zpow_zero, mul_one, zero_mul, Int.reduceNeg])
