import PP.Sem.Rounded
import PP.Model.Poly.EvaluateAttr
import PP.Hand.Constructors
/-!
# Interpretation X: exactness tracking ("every partial term is exactly representable")

A number of `Rep M` carries the exact value `e`, the rounded value `a` and a proposition `ok` that records,
for every rounding performed so far, that it was applied to a fixed point of `rnd`:
each rounded operation adds the conjunct `rnd t = t` where `t` is the **exact** pre-rounding value of that
operation (`x.e * y.e + z.e` for `fma`, …).  Invariant: `ok → a = e`, proved once per operation.

Running a model program at `Rep M` therefore yields the theorem
"if `rnd` fixes every intermediate exact value that occurs in this program, the rounded run returns the
exact result", and `ok` *is* (by `Iff.rfl`/`simp`) the explicit list of those intermediate values.
No hypothesis on `rnd` other than these fixed points is used (not even the standard model `h`).
-/
set_option linter.unusedSectionVars false
variable {K : Type} [Field K] [LinearOrder K] [IsStrictOrderedRing K]

structure Rep (M : RModel K) where
  e : K
  a : K
  ok : Prop
  inv : ok → a = e

namespace Rep
variable {M : RModel K}

/-- an input -/
def inp (M : RModel K) (x : K) : Rep M := ⟨x, x, True, fun _ => rfl⟩

/-- one rounding of an exact operation result `t` (computed as `t'` in the rounded run) -/
theorem step {t t' : K} (h : t' = t) (hfix : M.rnd t = t) : M.rnd t' = t := by rw [h, hfix]

noncomputable instance instFloatLike [Transc K] : FloatLike (Rep M) where
  add := fun x y => ⟨x.e + y.e, M.rnd (x.a + y.a), x.ok ∧ y.ok ∧ M.rnd (x.e + y.e) = x.e + y.e,
    fun h => step (by rw [x.inv h.1, y.inv h.2.1]) h.2.2⟩
  sub := fun x y => ⟨x.e - y.e, M.rnd (x.a - y.a), x.ok ∧ y.ok ∧ M.rnd (x.e - y.e) = x.e - y.e,
    fun h => step (by rw [x.inv h.1, y.inv h.2.1]) h.2.2⟩
  mul := fun x y => ⟨x.e * y.e, M.rnd (x.a * y.a), x.ok ∧ y.ok ∧ M.rnd (x.e * y.e) = x.e * y.e,
    fun h => step (by rw [x.inv h.1, y.inv h.2.1]) h.2.2⟩
  div := fun x y => ⟨x.e / y.e, M.rnd (x.a / y.a), x.ok ∧ y.ok ∧ M.rnd (x.e / y.e) = x.e / y.e,
    fun h => step (by rw [x.inv h.1, y.inv h.2.1]) h.2.2⟩
  fma := fun x y z => ⟨x.e * y.e + z.e, M.rnd (x.a * y.a + z.a),
    x.ok ∧ y.ok ∧ z.ok ∧ M.rnd (x.e * y.e + z.e) = x.e * y.e + z.e,
    fun h => step (by rw [x.inv h.1, y.inv h.2.1, z.inv h.2.2.1]) h.2.2.2⟩
  neg := fun x => ⟨-x.e, -x.a, x.ok, fun h => by rw [x.inv h]⟩
  abs := fun x => ⟨|x.e|, |x.a|, x.ok, fun h => by rw [x.inv h]⟩
  max := fun x y => ⟨max x.e y.e, max x.a y.a, x.ok ∧ y.ok, fun h => by rw [x.inv h.1, y.inv h.2]⟩
  ofDec := fun m e => ⟨(m : K) * (10 : K) ^ e, M.rnd ((m : K) * (10 : K) ^ e),
    M.rnd ((m : K) * (10 : K) ^ e) = (m : K) * (10 : K) ^ e, fun h => h⟩
  epsilon := inp M ((2 : K) ^ (-52 : Int))
  ln := fun x => ⟨Transc.ln x.e, M.rnd (Transc.ln x.a), x.ok ∧ M.rnd (Transc.ln x.e) = Transc.ln x.e,
    fun h => step (by rw [x.inv h.1]) h.2⟩
  exp := fun x => ⟨Transc.exp x.e, M.rnd (Transc.exp x.a), x.ok ∧ M.rnd (Transc.exp x.e) = Transc.exp x.e,
    fun h => step (by rw [x.inv h.1]) h.2⟩
  lt := fun x y => decide (x.e < y.e)
  le := fun x y => decide (x.e ≤ y.e)
  feq := fun x y => decide (x.e = y.e)
  isNaN := fun _ => false
  isInf := fun _ => false

end Rep

/-! ## Running the generated evaluation schemes at `Rep M`  (GENERATED block: identical up to the degree) -/
section run
variable [Transc K] (M : RModel K)
attribute [local instance] exactFL

@[reducible] noncomputable def Poly0.repRun (p : Poly0 K) (x : K) : Rep M :=
  Evaluate.evaluate (p.mapF (Rep.inp M)) (Rep.inp M x)
theorem poly0_rep_e (p : Poly0 K) (x : K) : (p.repRun M x).e = Evaluate.evaluate p x := rfl
theorem poly0_rep_a (p : Poly0 K) (x : K) : (p.repRun M x).a = p.evalRounded M x := rfl
/-- if `rnd` fixes every intermediate exact value of the degree-0 scheme, the rounded run is the exact run -/
theorem poly0_rep (p : Poly0 K) (x : K) (h : (p.repRun M x).ok) : p.evalRounded M x = Evaluate.evaluate p x :=
  (p.repRun M x).inv h

@[reducible] noncomputable def Poly1.repRun (p : Poly1 K) (x : K) : Rep M :=
  Evaluate.evaluate (p.mapF (Rep.inp M)) (Rep.inp M x)
theorem poly1_rep_e (p : Poly1 K) (x : K) : (p.repRun M x).e = Evaluate.evaluate p x := rfl
theorem poly1_rep_a (p : Poly1 K) (x : K) : (p.repRun M x).a = p.evalRounded M x := rfl
/-- if `rnd` fixes every intermediate exact value of the degree-1 scheme, the rounded run is the exact run -/
theorem poly1_rep (p : Poly1 K) (x : K) (h : (p.repRun M x).ok) : p.evalRounded M x = Evaluate.evaluate p x :=
  (p.repRun M x).inv h

@[reducible] noncomputable def Poly2.repRun (p : Poly2 K) (x : K) : Rep M :=
  Evaluate.evaluate (p.mapF (Rep.inp M)) (Rep.inp M x)
theorem poly2_rep_e (p : Poly2 K) (x : K) : (p.repRun M x).e = Evaluate.evaluate p x := rfl
theorem poly2_rep_a (p : Poly2 K) (x : K) : (p.repRun M x).a = p.evalRounded M x := rfl
/-- if `rnd` fixes every intermediate exact value of the degree-2 scheme, the rounded run is the exact run -/
theorem poly2_rep (p : Poly2 K) (x : K) (h : (p.repRun M x).ok) : p.evalRounded M x = Evaluate.evaluate p x :=
  (p.repRun M x).inv h

@[reducible] noncomputable def Poly3.repRun (p : Poly3 K) (x : K) : Rep M :=
  Evaluate.evaluate (p.mapF (Rep.inp M)) (Rep.inp M x)
theorem poly3_rep_e (p : Poly3 K) (x : K) : (p.repRun M x).e = Evaluate.evaluate p x := rfl
theorem poly3_rep_a (p : Poly3 K) (x : K) : (p.repRun M x).a = p.evalRounded M x := rfl
/-- if `rnd` fixes every intermediate exact value of the degree-3 scheme, the rounded run is the exact run -/
theorem poly3_rep (p : Poly3 K) (x : K) (h : (p.repRun M x).ok) : p.evalRounded M x = Evaluate.evaluate p x :=
  (p.repRun M x).inv h

@[reducible] noncomputable def Poly4.repRun (p : Poly4 K) (x : K) : Rep M :=
  Evaluate.evaluate (p.mapF (Rep.inp M)) (Rep.inp M x)
theorem poly4_rep_e (p : Poly4 K) (x : K) : (p.repRun M x).e = Evaluate.evaluate p x := rfl
theorem poly4_rep_a (p : Poly4 K) (x : K) : (p.repRun M x).a = p.evalRounded M x := rfl
/-- if `rnd` fixes every intermediate exact value of the degree-4 scheme, the rounded run is the exact run -/
theorem poly4_rep (p : Poly4 K) (x : K) (h : (p.repRun M x).ok) : p.evalRounded M x = Evaluate.evaluate p x :=
  (p.repRun M x).inv h

@[reducible] noncomputable def Poly5.repRun (p : Poly5 K) (x : K) : Rep M :=
  Evaluate.evaluate (p.mapF (Rep.inp M)) (Rep.inp M x)
theorem poly5_rep_e (p : Poly5 K) (x : K) : (p.repRun M x).e = Evaluate.evaluate p x := rfl
theorem poly5_rep_a (p : Poly5 K) (x : K) : (p.repRun M x).a = p.evalRounded M x := rfl
/-- if `rnd` fixes every intermediate exact value of the degree-5 scheme, the rounded run is the exact run -/
theorem poly5_rep (p : Poly5 K) (x : K) (h : (p.repRun M x).ok) : p.evalRounded M x = Evaluate.evaluate p x :=
  (p.repRun M x).inv h

@[reducible] noncomputable def Poly6.repRun (p : Poly6 K) (x : K) : Rep M :=
  Evaluate.evaluate (p.mapF (Rep.inp M)) (Rep.inp M x)
theorem poly6_rep_e (p : Poly6 K) (x : K) : (p.repRun M x).e = Evaluate.evaluate p x := rfl
theorem poly6_rep_a (p : Poly6 K) (x : K) : (p.repRun M x).a = p.evalRounded M x := rfl
/-- if `rnd` fixes every intermediate exact value of the degree-6 scheme, the rounded run is the exact run -/
theorem poly6_rep (p : Poly6 K) (x : K) (h : (p.repRun M x).ok) : p.evalRounded M x = Evaluate.evaluate p x :=
  (p.repRun M x).inv h

@[reducible] noncomputable def Poly7.repRun (p : Poly7 K) (x : K) : Rep M :=
  Evaluate.evaluate (p.mapF (Rep.inp M)) (Rep.inp M x)
theorem poly7_rep_e (p : Poly7 K) (x : K) : (p.repRun M x).e = Evaluate.evaluate p x := rfl
theorem poly7_rep_a (p : Poly7 K) (x : K) : (p.repRun M x).a = p.evalRounded M x := rfl
/-- if `rnd` fixes every intermediate exact value of the degree-7 scheme, the rounded run is the exact run -/
theorem poly7_rep (p : Poly7 K) (x : K) (h : (p.repRun M x).ok) : p.evalRounded M x = Evaluate.evaluate p x :=
  (p.repRun M x).inv h

@[reducible] noncomputable def Poly8.repRun (p : Poly8 K) (x : K) : Rep M :=
  Evaluate.evaluate (p.mapF (Rep.inp M)) (Rep.inp M x)
theorem poly8_rep_e (p : Poly8 K) (x : K) : (p.repRun M x).e = Evaluate.evaluate p x := rfl
theorem poly8_rep_a (p : Poly8 K) (x : K) : (p.repRun M x).a = p.evalRounded M x := rfl
/-- if `rnd` fixes every intermediate exact value of the degree-8 scheme, the rounded run is the exact run -/
theorem poly8_rep (p : Poly8 K) (x : K) (h : (p.repRun M x).ok) : p.evalRounded M x = Evaluate.evaluate p x :=
  (p.repRun M x).inv h
end run

/-! ## Horner's rule over a list, at `Rep M` -/
section horner
variable [Transc K] (M : RModel K)
attribute [local instance] exactFL

/-- every partial Horner value `acc·x + e` (exact) is a fixed point of `rnd` -/
def hornerFixed (x : K) : K → List K → Prop
  | _, [] => True
  | acc, e :: rest => M.rnd (acc * x + e) = acc * x + e ∧ hornerFixed x (acc * x + e) rest

/-- the projections of the Horner fold at `Rep M` are the exact and the rounded Horner folds -/
theorem horner_rep_proj (x : K) : ∀ (rest : List K) (first : Rep M),
    let r := (rest.map (Rep.inp M)).foldl (fun acc e => FloatLike.fma acc (Rep.inp M x) e) first
    r.e = rest.foldl (fun acc e => acc * x + e) first.e
      ∧ r.a = ((rest.map Rounded.mk).foldl (fun acc e => FloatLike.fma acc (⟨x⟩ : Rounded M) e) ⟨first.a⟩).val
  | [], _ => ⟨rfl, rfl⟩
  | c :: rest, first => horner_rep_proj x rest (FloatLike.fma first (Rep.inp M x) (Rep.inp M c))

/-- its flag holds as soon as every partial Horner value is a fixed point of `rnd` -/
theorem horner_rep_ok (x : K) : ∀ (rest : List K) (first : Rep M), first.ok → hornerFixed M x first.e rest →
    ((rest.map (Rep.inp M)).foldl (fun acc e => FloatLike.fma acc (Rep.inp M x) e) first).ok
  | [], _, h, _ => h
  | c :: rest, first, h, hf =>
    horner_rep_ok x rest (FloatLike.fma first (Rep.inp M x) (Rep.inp M c)) ⟨h, trivial, trivial, hf.1⟩ hf.2

/-- the partial Horner values of `cₙ, …, c₀` at `x` are all fixed by `rnd` (vacuous for the empty list) -/
def PolyN.partialsFixed (cs : List K) (x : K) : Prop :=
  match cs.reverse with
  | [] => True
  | first :: rest => hornerFixed M x first rest

/-- exactness of the dynamic-degree polynomial: if `rnd` fixes every partial Horner value then the rounded
run returns exactly the exact run -/
theorem polyN_rep (cs : List K) (x : K) (hfix : PolyN.partialsFixed M cs x) :
    PolyN.evalRounded M cs x = Evaluate.evaluate (⟨cs⟩ : PolyN K) x := by
  unfold PolyN.partialsFixed at hfix
  cases h : cs.reverse with
  | nil =>
    have : cs = [] := by simpa using h
    subst this
    show (FloatLike.ofDec 0 0 : Rounded M).val = (((0 : Int) : K) * (10 : K) ^ (0 : Int))
    rw [Rounded.ofDec_zero]; simp
  | cons first rest =>
    rw [h] at hfix
    have hr : Evaluate.evaluate (⟨cs.map Rounded.mk⟩ : PolyN (Rounded M)) (⟨x⟩ : Rounded M) = _ :=
      Hand.polyNEvaluate_map Rounded.mk cs (⟨x⟩ : Rounded M) first rest h
    have he : Evaluate.evaluate (⟨cs⟩ : PolyN K) x = rest.foldl (fun acc e => FloatLike.fma acc x e) first := by
      have := Hand.polyNEvaluate_map (id : K → K) cs x first rest h
      simp only [List.map_id, id] at this
      exact this
    have hp := horner_rep_proj M x rest (Rep.inp M first)
    have hok := horner_rep_ok M x rest (Rep.inp M first) trivial hfix
    rw [PolyN.evalRounded, hr, he]
    have := Rep.inv _ hok
    rw [hp.1, hp.2] at this
    exact this

end horner
