import PP.Driver.Out
open Wire
/-!
# Property monitors: decidable predicates evaluated on the IMPLEMENTATION's output

Independent of the model run: they restate what the property says about inputs and outputs (exact
`Rat` arithmetic from the bits; IEEE comparisons through `F64.lt`).  `none` = fine, `some why` = the
implementation violates the property on this case.  They are search support for the failing-input
hunt, never a substitute for the theorems in `PP/Props`.
-/

namespace F64
/-- position in the total order of non-NaN doubles (±0 identified) -/
def ofKey (k : Int) : F64 := if k ≥ 0 then ofBits k.toNat else ofBits (2 ^ 63 + k.natAbs)
def nextUp (a : F64) : F64 := if a.isNaN then a else if a = inf false then a else ofKey (a.key + 1)
def nextDown (a : F64) : F64 := if a.isNaN then a else if a = inf true then a else ofKey (a.key - 1)
end F64

namespace Mon

def unv : FX → Option F64
  | .v x => some x
  | _ => none

def ratAbs (r : Rat) : Rat := if r < 0 then -r else r

def pow2 (e : Int) : Rat := if e ≥ 0 then ((2 ^ e.toNat : Nat) : Rat) else 1 / ((2 ^ (-e).toNat : Nat) : Rat)

/-- Σ cᵢ xⁱ and Σ |cᵢ||x|ⁱ, and whether every partial term is 0 or of moderate magnitude -/
def polySums (cs : List Rat) (x : Rat) : Rat × Rat × Bool :=
  let lo := pow2 (-900)
  let hi := pow2 900
  let rec go (cs : List Rat) (xp : Rat) (s sa : Rat) (ok : Bool) : Rat × Rat × Bool :=
    match cs with
    | [] => (s, sa, ok)
    | c :: rest =>
      let t := c * xp
      let ta := ratAbs t
      let okT := (ta == 0 || (lo ≤ ta && ta ≤ hi)) && (ratAbs xp == 0 || (lo ≤ ratAbs xp && ratAbs xp ≤ hi))
      go rest (xp * x) (s + t) (sa + ta) (ok && okT)
  go cs 1 0 0 true

/-- C01 for the polynomial forms: |impl − Σcᵢxⁱ| ≤ 4(n+2)·2⁻⁵³·Σ|cᵢ||x|ⁱ, with equality demanded when all
inputs are integers and Σ|cᵢ||x|ⁱ ≤ 2⁵³ (every partial term exactly representable). -/
def eval (tag : Option String) (nums : List FX) (x : FX) (impl : Out) : Option String :=
  match tag with
  | some t =>
    if t.startsWith "p" then
      match nums.mapM (fun n => (unv n).bind F64.toRat?), (unv x).bind F64.toRat?, impl with
      | some cs, some xr, .nums [.v y] =>
        if cs.isEmpty then (if y = F64.zero false then none else some "empty PolyN must evaluate to +0")
        else
        let (s, sa, ok) := polySums cs xr
        if !ok then none else
        match y.toRat? with
        | none => some s!"non-finite result {y.toHex} for finite moderate inputs"
        | some yr =>
          let n : Nat := cs.length - 1
          let bound := (4 * ((n : Rat) + 2)) * pow2 (-53) * sa
          if ratAbs (yr - s) > bound then some s!"|impl - exact| exceeds 4(n+2)u*sum|c||x|^i (impl={y.toHex})"
          else
            let allInt := cs.all (fun c => c.den == 1) && xr.den == 1
            if allInt && sa ≤ pow2 53 && yr != s then some s!"all partial terms representable but result {y.toHex} is not exact"
            else none
      | _, _, _ => none
    else none
  | none => none

/-- C02 with index-revealing constant pieces: the value returned is the constant of the first segment
whose end is strictly greater than x, else of the last segment. -/
def pwEval (tag : Option String) (segs : List (FX × List FX)) (x : FX) (impl : Out) : Option String :=
  match tag, unv x with
  | some "p0", some xv =>
    match segs.mapM (fun (e, ns) => match unv e, ns with | some e, [.v c] => some (e, c) | _, _ => none) with
    | none => none
    | some [] => (match impl with | .panic => none | _ => some "empty piecewise function must be rejected")
    | some (s0 :: rest) =>
      let l := s0 :: rest
      let chosen := match l.find? (fun (e, _) => F64.lt xv e) with
        | some (_, c) => c
        | none => (l.getLast (by simp [l])).2
      match impl with
      | .nums [.v y] => if y = chosen then none else some s!"expected the constant {chosen.toHex} of the selected segment, got {y.toHex}"
      | .panic => some "panic on a non-empty piecewise function"
      | _ => some "unexpected output shape"
  | _, _ => none

/-- C03 / C16: answers at non-NaN positions equal the implementation's own direct evaluation -/
def history (xs : List FX) (direct : Option (List FX)) (impl : Out) : Option String :=
  match direct, impl with
  | some d, .nums ys =>
    if ys.length != xs.length || d.length != xs.length then some "length mismatch"
    else
      let bad := (List.zip xs (List.zip ys d)).findIdx? fun (x, (y, dd)) =>
        match x with
        | .v xv => !xv.isNaN && !(sameF y dd)
        | _ => false
      match bad with
      | some i => some s!"query #{i}: evaluator answer differs from direct evaluation"
      | none => none
  | some _, .panic => if xs.isEmpty then none else some "evaluator panicked"
  | _, _ => none

/-- C12: for non-decreasing non-NaN arguments the batch equals pointwise evaluation; with index-revealing
pieces (`directmax` supplied) every answer is the direct evaluation at the running maximum. -/
def evalV (xs : List FX) (direct directmax : Option (List FX)) (impl : Out) : Option String :=
  match impl with
  | .nums ys =>
    let xv := xs.filterMap unv
    let nondecr := xv.length == xs.length && xv.all (fun x => !x.isNaN) &&
      (List.zip xv xv.tail).all (fun (a, b) => F64.le a b)
    let chk (ref : List FX) (what : String) : Option String :=
      if ref.length != ys.length then some "length mismatch"
      else match (List.zip ys ref).findIdx? (fun (y, r) => !(sameF y r)) with
        | some i => some s!"argument #{i}: evaluate_v differs from {what}"
        | none => none
    match directmax with
    | some dm => if xv.length == xs.length && xv.all (fun x => !x.isNaN) then chk dm "direct evaluation at the running maximum" else none
    | none => match direct with
      | some d => if nondecr then chk d "pointwise evaluation" else none
      | none => none
  | .panic => some "evaluate_v panicked"
  | _ => none

/-- C13: with index-revealing pieces (`k` of the i-th piece of f is i, of the j-th piece of g is 1000·j, all
other numbers 0) the result at every breakpoint class combines the pieces direct evaluation selects. -/
def sel (l : List (F64 × Int)) (x : F64) : Option Int :=
  match l.find? (fun (e, _) => F64.lt x e) with
  | some (_, c) => some c
  | none => l.getLast?.map (·.2)

def sortedEnds (l : List F64) : Bool :=
  l.all (fun e => !e.isNaN) && (List.zip l l.tail).all (fun (a, b) => F64.le a b)

def merge (fEnds gEnds : List FX) (impl : Out) : Option String :=
  match fEnds.mapM unv, gEnds.mapM unv with
  | some fe, some ge =>
    let wf := !fe.isEmpty && !ge.isEmpty && sortedEnds fe && sortedEnds ge
    if !wf then
      (if fe.isEmpty || ge.isEmpty || fe.any F64.isNaN || ge.any F64.isNaN then
        (match impl with | .panic => none | _ => some "documented rejection (empty operand / NaN breakpoint) did not panic")
       else none)
    else
    match impl with
    | .panic => some "panic on well-formed operands"
    | .segs rs =>
      match rs.mapM (fun (e, _) => unv e) with
      | none => none
      | some re =>
        if rs.isEmpty then some "empty result"
        else if rs.length + 1 > fe.length + ge.length then some "more than len f + len g - 1 pieces"
        else if !(re.all fun e => fe.contains e || ge.contains e) then some "a breakpoint that is in neither operand"
        else if !sortedEnds re then some "result breakpoints are not non-decreasing"
        else none
    | _ => some "unexpected output shape"
  | _, _ => none

/-- number-by-number specification of the approx relations (C17) -/
def absR (a b eps : FX) : Bool :=
  match a, b, eps with
  | .v a, .v b, .v e => F64.le (F64.abs (F64.sub a b)) e
  | _, _, _ => false

def relR (a b eps mr : FX) : Bool :=
  match a, b, eps, mr with
  | .v a, .v b, .v e, .v m =>
    if F64.feq a b then true
    else if a.isInf || b.isInf then false
    else
      let d := F64.abs (F64.sub a b)
      if F64.le d e then true
      else
        let la := F64.abs a
        let lb := F64.abs b
        let largest := if F64.lt la lb then lb else la
        F64.le d (F64.mul largest m)
  | _, _, _, _ => false

def all2 (r : FX → FX → Bool) : List FX → List FX → Bool
  | [], [] => true
  | a :: as, b :: bs => r a b && all2 r as bs
  | _, _ => false

def approxAbs (p q : List FX) (eps : FX) (impl : Out) : Option String :=
  match impl with
  | .bool b => if b == all2 (fun a b => absR a b eps) p q then none else some "abs_diff_eq is not the conjunction over corresponding numbers"
  | _ => some "unexpected output shape"

def approxRel (p q : List FX) (eps mr : FX) (impl : Out) : Option String :=
  match impl with
  | .bool b => if b == all2 (fun a b => relR a b eps mr) p q then none else some "relative_eq is not the conjunction over corresponding numbers"
  | _ => some "unexpected output shape"

def approxAbsPw (f g : List (List FX)) (eps : FX) (impl : Out) : Option String :=
  match impl with
  | .bool b =>
    let spec := f.length == g.length && (List.zip f g).all fun (a, c) => all2 (fun a b => absR a b eps) a c
    if b == spec then none else some "piecewise abs_diff_eq is not (same length ∧ number-by-number)"
  | _ => some "unexpected output shape"

def approxRelPw (f g : List (List FX)) (eps mr : FX) (impl : Out) : Option String :=
  match impl with
  | .bool b =>
    let spec := f.length == g.length && (List.zip f g).all fun (a, c) => all2 (fun a b => relR a b eps mr) a c
    if b == spec then none else some "piecewise relative_eq is not (same length ∧ number-by-number)"
  | _ => some "unexpected output shape"

def linear (_ks : List (Knot FX)) (_impl : Out) : Option String := none
def spline (_ks : List (Knot FX)) (_impl : Out) : Option String := none

end Mon
