import PP.Driver.Out
open Wire
/-!
# Property monitors: decidable predicates evaluated on the IMPLEMENTATION's output

Independent of the model run: they restate what the property says about inputs and outputs (exact
`Rat` arithmetic from the bits; IEEE comparisons through `F64.lt`).  `none` = fine, `some why` = the
implementation violates the property on this case.  They are search support for the failing-input
hunt, never a substitute for the theorems in `PP/Props`.
-/

namespace F64
/-- position in the total order of non-NaN doubles (±0 identified) -/
def ofKey (k : Int) : F64 := if k ≥ 0 then ofBits k.toNat else ofBits (2 ^ 63 + k.natAbs)
def nextUp (a : F64) : F64 := if a.isNaN then a else if a = inf false then a else ofKey (a.key + 1)
def nextDown (a : F64) : F64 := if a.isNaN then a else if a = inf true then a else ofKey (a.key - 1)
end F64

namespace Mon

def unv : FX → Option F64
  | .v x => some x
  | _ => none

def ratAbs (r : Rat) : Rat := if r < 0 then -r else r

def pow2 (e : Int) : Rat := if e ≥ 0 then ((2 ^ e.toNat : Nat) : Rat) else 1 / ((2 ^ (-e).toNat : Nat) : Rat)

/-- Σ cᵢ xⁱ and Σ |cᵢ||x|ⁱ, and whether every partial term is 0 or of moderate magnitude -/
def polySums (cs : List Rat) (x : Rat) (barePowers : Bool := true) : Rat × Rat × Bool :=
  let lo := pow2 (-900)
  let hi := pow2 900
  let rec go (cs : List Rat) (xp : Rat) (s sa : Rat) (ok : Bool) : Rat × Rat × Bool :=
    match cs with
    | [] => (s, sa, ok)
    | c :: rest =>
      let t := c * xp
      let ta := ratAbs t
      let okT := (ta == 0 || (lo ≤ ta && ta ≤ hi)) && (barePowers == false || ratAbs xp == 0 || (lo ≤ ratAbs xp && ratAbs xp ≤ hi))
        && (ratAbs c == 0 || (pow2 (-1020) ≤ ratAbs c && ratAbs c ≤ pow2 1020))
      go rest (xp * x) (s + t) (sa + ta) (ok && okT)
  go cs 1 0 0 true

/-- C01 for the polynomial forms: |impl − Σcᵢxⁱ| ≤ 4(n+2)·2⁻⁵³·Σ|cᵢ||x|ⁱ, with equality demanded when all
inputs are integers and Σ|cᵢ||x|ⁱ ≤ 2⁵³ (every partial term exactly representable). -/
def eval (tag : Option String) (nums : List FX) (x : FX) (impl : Out) : Option String :=
  match tag with
  | some t =>
    if t.startsWith "p" then
      match nums.mapM (fun n => (unv n).bind F64.toRat?), (unv x).bind F64.toRat?, impl with
      | some cs, some xr, .nums [.v y] =>
        if cs.isEmpty then (if y = F64.zero false then none else some "empty PolyN must evaluate to +0")
        else if cs.length > 300 then none   -- exact rational partial sums of a very long polynomial cost seconds per case: bit-exact correspondence only
        else
        -- the property's range: no partial term c_i x^i over/underflows.  The fixed-degree forms use Estrin schemes whose
        -- bare powers x^2, x^4, x^8 are intermediate terms as well (they are part of the window); `PolyN` is Horner, which
        -- forms no bare power: for it the window is on the coefficients and the partial terms alone
        let (s, sa, ok) := polySums cs xr (barePowers := t != "pn")
        if !ok then none else
        match y.toRat? with
        | none => some s!"non-finite result {y.toHex} for finite moderate inputs"
        | some yr =>
          let n : Nat := cs.length - 1
          let bound := (4 * ((n : Rat) + 2)) * pow2 (-53) * sa
          if ratAbs (yr - s) > bound then some s!"|impl - exact| exceeds 4(n+2)u*sum|c||x|^i (impl={y.toHex})"
          else
            let allInt := cs.all (fun c => c.den == 1) && xr.den == 1
            if allInt && sa ≤ pow2 53 && yr != s then some s!"all partial terms representable but result {y.toHex} is not exact"
            else none
      | _, _, _ => none
    else none
  | none => none

/-- C02 with index-revealing constant pieces: the value returned is the constant of the first segment
whose end is strictly greater than x, else of the last segment. -/
def pwEval (tag : Option String) (segs : List (FX × List FX)) (x : FX) (impl : Out) : Option String :=
  match tag, unv x with
  | some "p0", some xv =>
    match segs.mapM (fun (e, ns) => match unv e, ns with | some e, [.v c] => some (e, c) | _, _ => none) with
    | none => none
    | some [] => (match impl with | .panic => none | _ => some "empty piecewise function must be rejected")
    | some (s0 :: rest) =>
      let l := s0 :: rest
      let chosen := match l.find? (fun (e, _) => F64.lt xv e) with
        | some (_, c) => c
        | none => (l.getLast (by simp [l])).2
      match impl with
      | .nums [.v y] => if y = chosen then none else some s!"expected the constant {chosen.toHex} of the selected segment, got {y.toHex}"
      | .panic => some "panic on a non-empty piecewise function"
      | _ => some "unexpected output shape"
  | _, _ => none

/-- C03 / C16: answers at non-NaN positions equal the implementation's own direct evaluation -/
def history (xs : List FX) (direct : Option (List FX)) (impl : Out) : Option String :=
  match direct, impl with
  | some d, .nums ys =>
    if ys.length != xs.length || d.length != xs.length then some "length mismatch"
    else
      let bad := (List.zip xs (List.zip ys d)).findIdx? fun (x, (y, dd)) =>
        match x with
        | .v xv => !xv.isNaN && !(sameF y dd)
        | _ => false
      match bad with
      | some i => some s!"query #{i}: evaluator answer differs from direct evaluation"
      | none => none
  | some _, .panic => if xs.isEmpty then none else some "evaluator panicked"
  | _, _ => none

/-- C12: for non-decreasing non-NaN arguments the batch equals pointwise evaluation; with index-revealing
pieces (`directmax` supplied) every answer is the direct evaluation at the running maximum. -/
def evalV (xs : List FX) (direct directmax : Option (List FX)) (impl : Out) : Option String :=
  match impl with
  | .nums ys =>
    let xv := xs.filterMap unv
    let nondecr := xv.length == xs.length && xv.all (fun x => !x.isNaN) &&
      (List.zip xv xv.tail).all (fun (a, b) => F64.le a b)
    let chk (ref : List FX) (what : String) : Option String :=
      if ref.length != ys.length then some "length mismatch"
      else match (List.zip ys ref).findIdx? (fun (y, r) => !(sameF y r)) with
        | some i => some s!"argument #{i}: evaluate_v differs from {what}"
        | none => none
    match directmax with
    | some dm => if xv.length == xs.length && xv.all (fun x => !x.isNaN) then chk dm "direct evaluation at the running maximum" else none
    | none => match direct with
      | some d => if nondecr then chk d "pointwise evaluation" else none
      | none => none
  | .panic => some "evaluate_v panicked"
  | _ => none

/-- C13: with index-revealing pieces (`k` of the i-th piece of f is i, of the j-th piece of g is 1000·j, all
other numbers 0) the result at every breakpoint class combines the pieces direct evaluation selects. -/
def sel (l : List (F64 × Int)) (x : F64) : Option Int :=
  match l.find? (fun (e, _) => F64.lt x e) with
  | some (_, c) => some c
  | none => l.getLast?.map (·.2)

def sortedEnds (l : List F64) : Bool :=
  l.all (fun e => !e.isNaN) && (List.zip l l.tail).all (fun (a, b) => F64.le a b)

/-- `reveal`: k of every piece (first number) when the other five numbers are zero -/
def revealK (l : List (FX × List FX)) : Option (List (F64 × Rat)) :=
  l.mapM fun (e, ns) => match unv e, ns with
    | some ev, k :: rest => (match (unv k).bind F64.toRat? with
        | some kr => if rest.all (fun r => match r with | .v x => x == F64.zero false | _ => false) then some (ev, kr) else none
        | none => none)
    | _, _ => none

def selR (l : List (F64 × Rat)) (x : F64) : Option Rat :=
  match l.find? (fun (e, _) => F64.lt x e) with
  | some (_, c) => some c
  | none => l.getLast?.map (·.2)

def merge (f g : List (FX × List FX)) (isSub : Bool) (impl : Out) : Option String :=
  match (f.map (·.1)).mapM unv, (g.map (·.1)).mapM unv with
  | some fe, some ge =>
    let wf := !fe.isEmpty && !ge.isEmpty && sortedEnds fe && sortedEnds ge
    if !wf then
      (if fe.isEmpty || ge.isEmpty || fe.any F64.isNaN || ge.any F64.isNaN then
        (match impl with | .panic => none | _ => some "documented rejection (empty operand / NaN breakpoint) did not panic")
       else none)
    else
    match impl with
    | .panic => some "panic on well-formed operands"
    | .segs rs =>
      match rs.mapM (fun (e, _) => unv e) with
      | none => none
      | some re =>
        if rs.isEmpty then some "empty result"
        else if rs.length + 1 > fe.length + ge.length then some "more than len f + len g - 1 pieces"
        else if fe.length + ge.length ≤ 2000 && !(re.all fun e => fe.contains e || ge.contains e) then some "a breakpoint that is in neither operand"
        else if !sortedEnds re then some "result breakpoints are not non-decreasing"
        else
          -- pointwise on index-revealing pieces: at every breakpoint class of either operand
          match revealK f, revealK g, revealK rs with
          | some fk, some gk, some rk =>
            let pts0 := (fe ++ ge).flatMap (fun e => [F64.nextDown e, e, F64.nextUp e]) ++ [F64.inf true, F64.inf false]
            -- very long operands: a stride sample of about 1500 of the points (each costs three linear selections)
            let stride := pts0.length / 1500 + 1
            let pts := if stride ≤ 1 then pts0 else (pts0.zipIdx.filter fun (_, i) => i % stride == 0 || i % stride == 1 || i % stride == 2).map (·.1)
            pts.findSome? fun x =>
              match selR fk x, selR gk x, selR rk x with
              | some a, some b, some r =>
                if r == (if isSub then a - b else a + b) then none
                else some s!"at x={x.toHex} the result does not combine the pieces that f and g select there"
              | _, _, _ => none
          | _, _, _ => none
    | _ => some "unexpected output shape"
  | _, _ => none

/-- number-by-number specification of the approx relations (C17) -/
def absR (a b eps : FX) : Bool :=
  match a, b, eps with
  | .v a, .v b, .v e => F64.le (F64.abs (F64.sub a b)) e
  | _, _, _ => false

def relR (a b eps mr : FX) : Bool :=
  match a, b, eps, mr with
  | .v a, .v b, .v e, .v m =>
    if F64.feq a b then true
    else if a.isInf || b.isInf then false
    else
      let d := F64.abs (F64.sub a b)
      if F64.le d e then true
      else
        let la := F64.abs a
        let lb := F64.abs b
        let largest := if F64.lt la lb then lb else la
        F64.le d (F64.mul largest m)
  | _, _, _, _ => false

def all2 (r : FX → FX → Bool) : List FX → List FX → Bool
  | [], [] => true
  | a :: as, b :: bs => r a b && all2 r as bs
  | _, _ => false

/-- the advertised default tolerances are `f64::EPSILON` (what `approx` uses for `f64` itself) -/
def defaultsOk (deps dmr : Option String) : Option String :=
  let bad (s : Option String) : Bool := match s with
    | none => false
    | some h => (F64.ofHex? h) != some F64.epsilon
  if bad deps then some "default_epsilon() is not f64::EPSILON"
  else if bad dmr then some "default_max_relative() is not f64::EPSILON"
  else none

/-- "implied by ==" (C17): when the implementation's own `PartialEq` says the two values are equal, all their numbers are
finite and the tolerance is a non-negative number, the relation must hold -/
def eqImplies (eq : Option String) (nums : List FX) (tols : List FX) (impl : Out) : Option String :=
  let finite (x : FX) : Bool := match x with
    | .v a => !(a.isNaN || a.isInf)
    | _ => false
  let nonneg (x : FX) : Bool := match x with
    | .v a => finite x && F64.le (F64.zero false) a
    | _ => false
  match eq, impl with
  | some "1", .bool false =>
    if nums.all finite && tols.all nonneg then some "== holds for the two values but the approximate relation does not (not implied by ==)" else none
  | _, _ => none

def approxAbs (p q : List FX) (eps : FX) (impl : Out) : Option String :=
  match impl with
  | .bool b => if b == all2 (fun a b => absR a b eps) p q then none else some "abs_diff_eq is not the conjunction over corresponding numbers"
  | _ => some "unexpected output shape"

def approxRel (p q : List FX) (eps mr : FX) (impl : Out) : Option String :=
  match impl with
  | .bool b => if b == all2 (fun a b => relR a b eps mr) p q then none else some "relative_eq is not the conjunction over corresponding numbers"
  | _ => some "unexpected output shape"

def approxAbsPw (f g : List (List FX)) (eps : FX) (impl : Out) : Option String :=
  match impl with
  | .bool b =>
    let spec := f.length == g.length && (List.zip f g).all fun (a, c) => all2 (fun a b => absR a b eps) a c
    if b == spec then none else some "piecewise abs_diff_eq is not (same length ∧ number-by-number)"
  | _ => some "unexpected output shape"

def approxRelPw (f g : List (List FX)) (eps mr : FX) (impl : Out) : Option String :=
  match impl with
  | .bool b =>
    let spec := f.length == g.length && (List.zip f g).all fun (a, c) => all2 (fun a b => relR a b eps mr) a c
    if b == spec then none else some "piecewise relative_eq is not (same length ∧ number-by-number)"
  | _ => some "unexpected output shape"

/-! ## constructors: exact-rational checks of what `linear` / `constrained_spline` returned -/

def u53 : Rat := pow2 (-53)

def evalPolyRat (cs : List Rat) (x : Rat) : Rat := cs.foldr (fun c acc => c + x * acc) 0
def derivCoeffs : List Rat → List Rat
  | [] => []
  | _ :: cs => (cs.zipIdx.map fun (c, i) => ((i : Nat) + 1 : Rat) * c)

def knotsRat (ks : List (Knot FX)) : Option (List (Rat × Rat)) :=
  ks.mapM fun k => match unv k.x, unv k.y with
    | some x, some y => match x.toRat?, y.toRat? with
      | some a, some b => some (a, b)
      | _, _ => none
    | _, _ => none

def segsRat (l : List (FX × List FX)) : Option (List (F64 × List Rat)) :=
  l.mapM fun (e, ns) => match unv e, ns.mapM (fun n => (unv n).bind F64.toRat?) with
    | some e, some cs => some (e, cs)
    | _, _ => none

def rmax (a b : Rat) : Rat := if a < b then b else a

/-- every non-zero magnitude of the list lies in [2^-w, 2^w] -/
def inWindow (w : Int) (l : List Rat) : Bool :=
  l.all fun t => let a := ratAbs t; a == 0 || (pow2 (-w) ≤ a && a ≤ pow2 w)

/-- The range in which the monitor judges `linear` (forced abscissae `fx`, ordinates `fy`): raw data, gaps and ordinate
differences in 2^±1000, every non-zero slope dy/dx and every product slope·x0 in 2^±1000.  Outside it (e.g. x1−x0
overflowing) the implementation is known to violate the literal statement (known_findings.json). -/
def linearWindow (fx fy : List Rat) : Bool :=
  let lo := pow2 (-1000)
  let hi := pow2 1000
  let inR (t : Rat) : Bool := let a := ratAbs t; a == 0 || (lo ≤ a && a ≤ hi)
  fx.all inR && fy.all inR
  && (List.zip (List.zip fx fx.tail) (List.zip fy fy.tail)).all fun ((x0, x1), (y0, y1)) =>
      inR (x1 - x0) && inR (y1 - y0)
      && (x1 == x0 || (inR ((y1 - y0) / (x1 - x0)) && inR ((y1 - y0) / (x1 - x0) * x0) && inR ((y1 - y0) / (x1 - x0) * x1)))

/-- C06.  `win`: judge only data inside `linearWindow`; outside it the implementation is known not to satisfy the literal
statement (known_findings.json), and the bit-exact correspondence is what is checked there. -/
def linear (ks : List (Knot FX)) (impl : Out) (win : Bool := true) : Option String :=
  if ks.length < 2 then (match impl with | .panic => none | _ => some "fewer than 2 knots must be rejected")
  else
  match impl with
  | .panic => some "panic on >= 2 knots"
  | .segs rs =>
    if rs.length + 1 != ks.length then some "not one segment per consecutive knot pair" else
    match ks.mapM (fun k => unv k.x), ks.mapM (fun k => unv k.y), segsRat rs with
    | some xs, some ys, none =>
      -- finite data inside the window must give finite coefficients
      (match xs.mapM F64.toRat?, ys.mapM F64.toRat? with
       | some fx, some fy =>
         if (!win || linearWindow (fx.tail.foldl (fun acc x => acc ++ [rmax (acc.getLast?.getD x) x]) [fx.head!]) fy)
         then some "non-finite coefficient or breakpoint for finite knots" else none
       | _, _ => none)
    | some xs, some ys, some segs =>
      if xs.any F64.isNaN then none else
      -- forced abscissae: running maximum (f64::max)
      let forced := (xs.tail.foldl (fun (acc : List F64) x => acc ++ [F64.max (acc.getLast?.getD x) x]) [xs.head!])
      if (segs.map (·.1)) != forced.tail then some "ends are not the running maximum of the abscissae" else
      if !(List.zip forced forced.tail).all (fun (a, b) => F64.le a b) then some "ends are not non-decreasing" else
      match forced.mapM F64.toRat?, ys.mapM F64.toRat? with
      | some fx, some fy =>
        let rows := List.zip (List.zip (List.zip fx fx.tail) (List.zip fy fy.tail)) (List.zip (List.zip forced forced.tail) segs)
        if win && !linearWindow fx fy then none else
        rows.findSome? fun (((x0, x1), (y0, y1)), ((f0, f1), (_, cs))) =>
          let dx := F64.sub f1 f0
          let narrow := F64.lt dx F64.epsilon
          let slope := if x1 == x0 then 0 else (y1 - y0) / (x1 - x0)
          let tol := u53 * 64 * (ratAbs y0 + ratAbs y1 + ratAbs slope * (ratAbs x0 + ratAbs x1))
          if cs.length != 2 then some "segment is not a Poly1"
          else if narrow then
            (if cs != [y0, 0] then some "a segment narrower than machine epsilon must be the constant y0" else none)
          else if ratAbs (evalPolyRat cs x0 - y0) > tol then some "segment does not pass through its (forced) left knot"
          else if ratAbs (evalPolyRat cs x1 - y1) > tol then some "segment at least epsilon wide does not pass through its right knot"
          else none
      | _, _ => none
    | _, _, _ => none
  | _ => some "unexpected output shape"

/-- exact Kruger slope at an interior knot -/
def fdxRat (k0 k1 k2 : Rat × Rat) : Rat :=
  let s01 := (k1.2 - k0.2) / (k1.1 - k0.1)
  let s12 := (k2.2 - k1.2) / (k2.1 - k1.1)
  if s01 * s12 ≤ 0 then 0 else 2 * s01 * s12 / (s01 + s12)

/-- minimum over [a,b] of the quadratic with coefficients q = [q0,q1,q2] times the sign sg -/
def quadMinSigned (q : List Rat) (a b sg : Rat) : Rat :=
  let f := fun x => sg * evalPolyRat q x
  let m := if f a < f b then f a else f b
  match q with
  | [_, q1, q2] =>
    if q2 == 0 then m else
      let v := -q1 / (2 * q2)
      if a < v && v < b && f v < m then f v else m
  | _ => m

/-- The range in which the monitor judges `constrained_spline` (strictly increasing abscissae assumed): no intermediate
of the construction can overflow, and none can underflow in a way that matters -
raw data, gaps and ordinate differences in 2^±1000; every non-zero secant slope, every non-zero product of adjacent
secant slopes and its reciprocal in 2^±1000; per interval, with M = |s|+|f0|+|f1| (exact Kruger slopes) and
X = max|x|: dx², dx³ ≥ 2^-1000, X² ≤ 2^1000 (the bare products x0·x0, x1·x1, x1·x0 the code forms) and
M/dx²·(1+X+X²+X³) ≤ 2^1000 (the monomial coefficients d, c, b and the products d·x0³, c·x0², b·x0), and the tolerance of the interval ≥ 2^-900 (so that errors of subnormal size are negligible).
Outside this range the implementation is known to violate the literal statement (known_findings.json). -/
def splineWindow (kr : List (Rat × Rat)) : Bool :=
  let lo := pow2 (-1000)
  let hi := pow2 1000
  let inR (t : Rat) : Bool := let a := ratAbs t; a == 0 || (lo ≤ a && a ≤ hi)
  let pairs := List.zip kr kr.tail
  let sec := pairs.map fun (a, b) => (b.2 - a.2) / (b.1 - a.1)
  let mid := (List.zip (List.zip kr kr.tail) kr.tail.tail).map fun ((a, b), c) => fdxRat a b c
  let f0 := (3 / 2 : Rat) * sec.head! - mid.head! / 2
  let fn := (3 / 2 : Rat) * sec.getLast! - mid.getLast! / 2
  let fall := f0 :: mid ++ [fn]
  kr.all (fun k => inR k.1 && inR k.2)
  && pairs.all (fun (a, b) => inR (b.1 - a.1) && inR (b.2 - a.2))
  && sec.all inR
  && (List.zip sec sec.tail).all (fun (s, t) => inR (s * t) && inR (s + t))
  && fall.all inR
  && (List.zip (List.zip pairs (List.zip fall fall.tail)) sec).all fun (((k0, k1), (e0, e1)), s) =>
      let dx := k1.1 - k0.1
      let X := rmax (ratAbs k0.1) (ratAbs k1.1)
      let M := ratAbs s + ratAbs e0 + ratAbs e1
      lo ≤ dx * dx * dx && X * X ≤ hi && M / (dx * dx) * (1 + X + X * X + X * X * X) ≤ hi
      -- ... and the scale of the second derivatives M/dx and of the cubic coefficient M/dx² is not in underflow territory
      -- (d·x0³ can be of the size of the ordinates although d itself is below 2^-1022)
      && (M == 0 || (lo ≤ M / (dx * dx) && lo ≤ M / dx))
      && (let t := ratAbs k0.2 + ratAbs k1.2 + M * (dx + X); t == 0 || pow2 (-900) ≤ t)

/-- C04 + C05.  `win`: judge only data inside `splineWindow`; outside it the implementation is known not to satisfy the
literal statement (known_findings.json), and the bit-exact correspondence is what is checked there. -/
def spline (ks : List (Knot FX)) (impl : Out) (win : Bool := true) : Option String :=
  if ks.length < 3 then (match impl with | .panic => none | _ => some "fewer than 3 knots must be rejected")
  else
  match impl with
  | .panic => some "panic on >= 3 knots"
  | .segs rs =>
    if rs.length + 1 != ks.length then some "not one cubic per knot interval" else
    match ks.mapM (fun k => unv k.x), knotsRat ks, segsRat rs with
    | some xs, some kr, some segs =>
      if (segs.map (·.1)) != xs.tail then some "segment ends are not the right abscissae verbatim" else
      if !(List.zip kr kr.tail).all (fun (a, b) => a.1 < b.1) then none else
      if win && !splineWindow kr then none else
      let n := kr.length
      -- exact slopes at every knot
      let mid := (List.zip (List.zip kr kr.tail) kr.tail.tail).map fun ((a, b), c) => fdxRat a b c
      let sec := (List.zip kr kr.tail).map fun (a, b) => (b.2 - a.2) / (b.1 - a.1)
      let f0 := (3 / 2 : Rat) * sec.head! - mid.head! / 2
      let fn := (3 / 2 : Rat) * sec.getLast! - mid.getLast! / 2
      let fall := f0 :: mid ++ [fn]
      let rows := List.zip (List.zip (List.zip kr kr.tail) (List.zip fall fall.tail)) (List.zip sec segs)
      let perSeg := rows.findSome? fun (((k0, k1), (e0, e1)), (s, (_, cs))) =>
        let dx := k1.1 - k0.1
        let X := rmax (ratAbs k0.1) (ratAbs k1.1)
        let r := X / dx
        let M := ratAbs s + ratAbs e0 + ratAbs e1
        let tol := u53 * 4096 * (ratAbs k0.2 + ratAbs k1.2 + M * (dx + X) * (1 + r + r * r))
        let told := tol / dx
        let d := derivCoeffs cs
        if cs.length != 4 then some "segment is not a cubic"
        else if ratAbs (evalPolyRat cs k0.1 - k0.2) > tol then some "cubic does not pass through the left knot of its interval"
        else if ratAbs (evalPolyRat cs k1.1 - k1.2) > tol then some "cubic does not pass through the right knot of its interval"
        else if ratAbs (evalPolyRat d k0.1 - e0) > told then some "slope at the left knot is not the Kruger slope (harmonic mean / end rule / 0 at an extremum)"
        else if ratAbs (evalPolyRat d k1.1 - e1) > told then some "slope at the right knot is not the Kruger slope (harmonic mean / end rule / 0 at an extremum)"
        else
          let sg : Rat := if s < 0 then -1 else 1
          if quadMinSigned d k0.1 k1.1 sg < -told then some "cubic is not monotone on its interval (overshoot)"
          else none
      match perSeg with
      | some w => some w
      | none =>
        -- C1 at interior knots: adjacent cubics have the same first derivative
        let pairs := List.zip (List.zip segs segs.tail) (List.zip kr.tail (List.zip (List.zip kr kr.tail) (List.zip kr.tail kr.tail.tail)))
        let _ := n
        pairs.findSome? fun (((_, ca), (_, cb)), (k, ((a0, a1), (b0, b1)))) =>
          let tolA := u53 * 4096 * (ratAbs a0.2 + ratAbs a1.2 + ratAbs k.2) * (1 + (ratAbs k.1) / (a1.1 - a0.1)) ^ 3 / (a1.1 - a0.1)
          let tolB := u53 * 4096 * (ratAbs b0.2 + ratAbs b1.2 + ratAbs k.2) * (1 + (ratAbs k.1) / (b1.1 - b0.1)) ^ 3 / (b1.1 - b0.1)
          if ratAbs (evalPolyRat (derivCoeffs ca) k.1 - evalPolyRat (derivCoeffs cb) k.1) > tolA + tolB + u53 * 4096 * (ratAbs (evalPolyRat (derivCoeffs ca) k.1))
          then some "first derivative jumps at an interior knot" else none
    | some _, some kr, none =>
      -- the data are finite: a NaN / infinite coefficient for strictly increasing abscissae is a violation
      if win && !((List.zip kr kr.tail).all (fun (a, b) => a.1 < b.1) && splineWindow kr) then none else
      if (List.zip kr kr.tail).all (fun (a, b) => a.1 < b.1) then some "non-finite coefficient for finite knots with strictly increasing abscissae"
      else none
    | _, _, _ => none
  | _ => some "unexpected output shape"

/-- C07 / C08 / C14 number-level checks on polynomial calculus results -/
def calculus (cmd : String) (tag : Option String) (nums : List FX) (knot : List FX) (impl : Out) : Option String :=
  match tag with
  | some t =>
    if !t.startsWith "p" then none else
    match nums.mapM unv, impl with
    | some cs, .nums rs =>
      match rs.mapM unv with
      | none => none
      | some out =>
        if cmd == "deriv" then
          let expect : List F64 := match cs with
            | [] => []
            | [_] => [F64.zero false]
            | _ :: rest => rest.zipIdx.map fun (c, i) => if i == 0 then c else F64.mul (F64.ofDec ((i : Nat) + 1) 0) c
          if out == expect then none else some "derivative coefficient i is not the correctly rounded (i+1)*c_(i+1)"
        else if cmd == "indef" then
          let expect : List F64 := F64.zero false :: cs.zipIdx.map fun (c, i) => if i == 0 then c else F64.div c (F64.ofDec ((i : Nat) + 1) 0)
          if out != expect then some "indefinite integral is not (0, c0, c1/2, ..., ck/(k+1)) correctly rounded"
          else
            -- differentiating the result returns p coefficient-wise to within one ulp
            let back : List F64 := out.tail.zipIdx.map fun (c, i) => if i == 0 then c else F64.mul (F64.ofDec ((i : Nat) + 1) 0) c
            if (List.zip back cs).all (fun (b, c) => b == c || b == F64.nextUp c || b == F64.nextDown c) then none
            else some "derivative of the indefinite integral is more than one ulp away from p"
        else if cmd == "integral" then
          match out.mapM F64.toRat?, knot.mapM (fun k => (unv k).bind F64.toRat?), cs.mapM F64.toRat? with
          | some oc, some [kx, ky], some cr =>
            let mag := (cr.zipIdx.map fun (c, i) => ratAbs c * (ratAbs kx) ^ (i + 1)).foldl (· + ·) 0
            let tol := u53 * 64 * (ratAbs ky + mag)
            -- a relative bound says nothing once the magnitudes themselves are of subnormal size (gradual underflow: absolute
            -- errors of 2^-1075): such inputs are judged by the bit-exact correspondence only
            if tol != 0 && tol < pow2 (-960) then none else
            if ratAbs (evalPolyRat oc kx - ky) > tol then some "integral(knot) does not pass through the knot"
            else if oc.tail != (match (F64.zero false :: cs.zipIdx.map fun (c, i) => if i == 0 then c else F64.div c (F64.ofDec ((i : Nat) + 1) 0)).tail.mapM F64.toRat? with | some l => l | none => [])
              then some "integral(knot) differs from indefinite() in more than the constant term"
            else none
          | none, some kn, some cr =>
            -- finite inputs of moderate magnitude (2^±100: no power of knot.x times a coefficient can overflow) must give
            -- finite coefficients
            if inWindow 100 (kn ++ cr) then some "integral(knot) has a non-finite coefficient for finite inputs of moderate magnitude" else none
          | _, _, _ => none
        else none
    | _, _ => none
  | none => none

/-- C11 (polynomial pieces): same breakpoints, first piece through k0, adjacent pieces agree at every interior
breakpoint, each piece = integral of its source piece up to the constant -/
def pwIntegral (cmd : String) (tag : Option String) (src : List (FX × List FX)) (knot : List FX) (impl : Out) : Option String :=
  match tag with
  | some t =>
    if !t.startsWith "p" then
      -- log-polynomial pieces: only the additive-constant clause can be checked without ln
      (if cmd == "pwindef" || cmd == "segindef" then
        match impl with
        | .segs ((_, .v c0 :: _) :: _) => if c0 == F64.zero false then none else some "indefinite(): first additive constant is not zero"
        | _ => none
       else none)
    else
    match impl, segsRat src with
    | .segs rs, some ss =>
      match segsRat rs, knot.mapM (fun k => (unv k).bind F64.toRat?) with
      | some out, kn =>
        if out.length != ss.length then some "integral has a different number of pieces"
        else if out.map (·.1) != ss.map (·.1) then some "integral does not keep every breakpoint"
        else
          -- magnitude scale of the construction for the tolerance
          let endsR := ss.filterMap (fun (e, _) => e.toRat?)
          let X := (endsR.map ratAbs ++ (kn.getD []).take 1 |>.map ratAbs).foldl rmax 1
          let mag := (ss.map fun (_, cs) => (cs.zipIdx.map fun (c, i) => ratAbs c * X ^ (i + 1)).foldl (· + ·) 0).foldl (· + ·) 0
          let ky := match kn with | some [_, y] => ratAbs y | _ => 0
          let tol := u53 * 256 * (ky + mag) * ((ss.length : Nat) + 1 : Rat)
          if tol != 0 && tol < pow2 (-960) then none else
          -- each piece's non-constant coefficients are c_i/(i+1)
          let shapeBad := (List.zip ss out).findSome? fun ((_, cs), (_, os)) =>
            let expect := cs.zipIdx.map fun (c, i) => c / (((i : Nat) + 1 : Nat) : Rat)
            if os.length != cs.length + 1 then some "piece has the wrong degree"
            else if (List.zip os.tail expect).any (fun (o, e) => ratAbs (o - e) > u53 * ratAbs e) then some "piece is not an antiderivative of its source piece (coefficient i is not c_(i-1)/i)"
            else none
          match shapeBad with
          | some w => some w
          | none =>
            let firstBad : Option String :=
              if cmd == "pwindef" || cmd == "segindef" then
                (match out with | (_, c0 :: _) :: _ => if c0 != 0 then some "indefinite(): first additive constant is not zero" else none | _ => none)
              else match kn, out with
                | some [kx, kyv], (_, cs) :: _ => if ratAbs (evalPolyRat cs kx - kyv) > tol then some "first piece does not pass through the knot" else none
                | _, _ => none
            match firstBad with
            | some w => some w
            | none =>
              (List.zip out out.tail).findSome? fun ((e, ca), (_, cb)) =>
                match e.toRat? with
                | some er => if ratAbs (evalPolyRat ca er - evalPolyRat cb er) > tol then some "adjacent pieces disagree at an interior breakpoint" else none
                | none => none
      | none, kn =>
        -- finite source pieces, breakpoints and knot of moderate magnitude must give finite pieces
        let nums := ss.flatMap (fun (e, cs) => (match e.toRat? with | some r => [r] | none => []) ++ cs) ++ kn.getD []
        if ss.all (fun (e, _) => e.toRat?.isSome) && inWindow 100 nums then some "integral has a non-finite coefficient for finite pieces, breakpoints and knot of moderate magnitude" else none
    | _, _ => none
  | none => none

/-- C14: the numbers of the result are the correctly rounded operation on the corresponding numbers.
Computed here directly with the soft-float operations from the wire numbers (independent of the generated
instances). `i`-tags: the first number is the additive constant k. -/
def ops (cmd : String) (tag : Option String) (p q : List FX) (s : Option FX) (impl : Out) : Option String :=
  match tag, p.mapM unv, q.mapM unv, impl with
  | some t, some ps, some qs, .nums rs =>
    match rs.mapM unv with
    | none => none
    | some out =>
      let negOne := F64.neg (F64.ofDec 1 0)
      let isI := t.startsWith "i"
      let expect : Option (List F64) :=
        match cmd, s.bind unv with
        | "mul", some sv =>
          if isI then (match ps with | k :: rest => some (F64.mul sv k :: rest.map (F64.mul · sv)) | [] => none)
          else some (ps.map (F64.mul · sv))
        | "mulassign", some sv => some (ps.map (F64.mul · sv))
        | "neg", _ =>
          if t == "q4" then some (ps.map F64.neg)
          else if isI then (match ps with | k :: rest => some (F64.neg k :: rest.map (F64.mul · negOne)) | [] => none)
          else some (ps.map (F64.mul · negOne))
        | "add", _ => if ps.length == qs.length then some (List.zipWith F64.add ps qs) else none
        | "sub", _ => if ps.length == qs.length then some (List.zipWith F64.sub ps qs) else none
        | "translate", some v =>
          (match ps with
           | c0 :: rest => some (F64.add c0 v :: rest)
           | [] => if t == "pn" then some [v] else none)
        | _, _ => none
      match expect with
      | none => none
      | some e => if e == out then none else some s!"{cmd}: the numbers of the result are not the correctly rounded operation on the corresponding numbers"
  | _, _, _, .panic => some "operator panicked on finite input"
  | _, _, _, _ => none

/-- C15: every piece of the result is the piece-level operation applied to the corresponding piece (number by
number, as `ops`), and the shape is kept -/
def pwOps (cmd : String) (tag : Option String) (src : List (FX × List FX)) (s : Option FX) (impl : Out) : Option String :=
  match impl with
  | .segs rs =>
    if rs.length != src.length then some "number of pieces changed"
    else if !(List.zip rs src).all (fun (a, b) => sameF a.1 b.1 || (match a.1, b.1 with | .v x, .v y => x.isNaN && y.isNaN | _, _ => false))
      then some "a breakpoint changed"
    else
      (List.zip rs src).zipIdx.findSome? fun ((r, p), i) =>
        match ops cmd tag p.2 [] s (.nums r.2) with
        | some w => some s!"piece #{i}: {w}"
        | none => none
  | .panic => some "operation panicked"
  | _ => some "unexpected output shape"

/-- C15 / C08: a segment / piecewise scalar operation keeps the number of pieces, their order and every
breakpoint bit-identical -/
def pwShape (src : List (FX × List FX)) (impl : Out) : Option String :=
  match impl with
  | .segs rs =>
    if rs.length != src.length then some "number of pieces changed"
    else if !(List.zip rs src).all (fun (a, b) => sameF a.1 b.1 || (match a.1, b.1 with | .v x, .v y => x.isNaN && y.isNaN | _, _ => false))
      then some "a breakpoint changed"
    else none
  | .panic => some "operation panicked"
  | _ => some "unexpected output shape"

/-- C19: an `Ok` value has at least one segment, every end is a normal float, ends are non-decreasing, and
(reported by the harness) direct evaluation, the stateful evaluator and evaluate_v agree on it without panic -/
def arbitrary (agree : Option String) (impl : Out) : Option String :=
  match impl with
  | .err => none
  | .panic => some "Arbitrary panicked"
  | .segs rs =>
    match rs.mapM (fun (e, _) => unv e) with
    | none => none
    | some es =>
      let normal (x : F64) : Bool := match x with | .fin _ m _ => decide (2 ^ 52 ≤ m) | _ => false
      if es.isEmpty then some "Ok value with no segment"
      else if !(es.all normal) then some "Ok value with a breakpoint that is not a normal float"
      else if !(List.zip es es.tail).all (fun (a, b) => F64.le a b) then some "Ok value whose breakpoints are not non-decreasing"
      else if agree == some "0" then some "direct evaluation, evaluator and evaluate_v disagree (or panic) on the generated value"
      else none
  | _ => some "unexpected output shape"

end Mon
