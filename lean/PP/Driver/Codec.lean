import PP.Driver.FX
import PP.Model
import PP.Hand.Piecewise
import PP.Hand.Constructors
/-!
# Wire format of the correspondence protocol and the type dispatch

A value of any model type travels as the list of its numbers in declaration order (`Nums.nums`);
`Codec.dec` is the inverse.  A piecewise function is `end:n,n,..;end:n,n,..`.
Type tags: `p0..p8` `PolyK`, `pn` `PolyN`, `l0..l8` `Log<PolyK>`, `i0..i8` `IntOfLog<PolyK>`, `q4` `IntOfLogPoly4`.
-/

class Codec (T : Type) (F : outParam Type) where
  dec : List F → Option T

section
variable {F : Type}
instance : Codec (Poly0 F) F := ⟨fun | [a] => some ⟨a⟩ | _ => none⟩
instance : Codec (Poly1 F) F := ⟨fun l => (Arr2.ofList? l).map Poly1.mk⟩
instance : Codec (Poly2 F) F := ⟨fun l => (Arr3.ofList? l).map Poly2.mk⟩
instance : Codec (Poly3 F) F := ⟨fun l => (Arr4.ofList? l).map Poly3.mk⟩
instance : Codec (Poly4 F) F := ⟨fun l => (Arr5.ofList? l).map Poly4.mk⟩
instance : Codec (Poly5 F) F := ⟨fun l => (Arr6.ofList? l).map Poly5.mk⟩
instance : Codec (Poly6 F) F := ⟨fun l => (Arr7.ofList? l).map Poly6.mk⟩
instance : Codec (Poly7 F) F := ⟨fun l => (Arr8.ofList? l).map Poly7.mk⟩
instance : Codec (Poly8 F) F := ⟨fun l => (Arr9.ofList? l).map Poly8.mk⟩
instance : Codec (PolyN F) F := ⟨fun l => some ⟨l⟩⟩
instance {T : Type} [Codec T F] : Codec (Log T) F := ⟨fun l => (Codec.dec l).map Log.mk⟩
instance {T : Type} [Codec T F] : Codec (IntOfLog F T) F :=
  ⟨fun | k :: rest => (Codec.dec rest).map (IntOfLog.mk k) | [] => none⟩
instance : Codec (IntOfLogPoly4 F) F :=
  ⟨fun | [k, a, b, c, d, u] => some ⟨k, ⟨a, b, c, d⟩, u⟩ | _ => none⟩
instance : Codec (Knot F) F := ⟨fun | [x, y] => some ⟨x, y⟩ | _ => none⟩
instance {T : Type} [Codec T F] : Codec (Segment F T) F :=
  ⟨fun | e :: rest => (Codec.dec rest).map (Segment.mk e) | [] => none⟩
end

namespace Wire

def splitOn1 (s : String) (sep : Char) : List String :=
  (s.splitOn (String.singleton sep))

def fx? (s : String) : Option FX := (F64.ofHex? s).map FX.v

def fxList? (s : String) : Option (List FX) :=
  if s.isEmpty then some [] else (s.splitOn ",").mapM fx?

def f64List? (s : String) : Option (List F64) :=
  if s.isEmpty then some [] else (s.splitOn ",").mapM F64.ofHex?

/-- `end:n,n;end:n,n` -/
def segs? {T : Type} [Codec T FX] (s : String) : Option (List (Segment FX T)) :=
  if s.isEmpty then some [] else
  (s.splitOn ";").mapM fun seg =>
    match seg.splitOn ":" with
    | [e, ns] => do
      let e ← fx? e
      let ns ← fxList? ns
      let p ← Codec.dec ns
      pure (Segment.mk e p)
    | _ => none

def knots? (s : String) : Option (List (Knot FX)) :=
  if s.isEmpty then some [] else
  (s.splitOn ";").mapM fun k => do
    let ns ← fxList? k
    Codec.dec ns

def showList (l : List FX) : String := ",".intercalate (l.map FX.toHex)

def showSegs {T : Type} [Nums T FX] (l : List (Segment FX T)) : String :=
  ";".intercalate (l.map fun s => s.end.toHex ++ ":" ++ showList (Nums.nums s.poly))

/-- key=value arguments -/
abbrev Args := List (String × String)

def parseArgs (toks : List String) : Args :=
  toks.filterMap fun t =>
    match t.splitOn "=" with
    | k :: rest => some (k, "=".intercalate rest)
    | _ => none

def Args.get (a : Args) (k : String) : Option String :=
  match a with
  | [] => none
  | (k', v) :: rest => if k = k' then some v else Args.get rest k

def parseTbl (a : Args) : Tbl :=
  let one (s : Option String) : List (Nat × F64) :=
    match s with
    | none => []
    | some s => if s.isEmpty then [] else
      (s.splitOn ",").filterMap fun p =>
        match p.splitOn ":" with
        | [x, y] => match F64.natOfHex? x, F64.ofHex? y with
          | some x, some y => some (x, y)
          | _, _ => none
        | _ => none
  { ln := one (a.get "ln"), exp := one (a.get "exp") }

/-- compare a model result with the implementation's: bit equality, any NaN = any NaN -/
def sameF (m : FX) (i : FX) : Bool :=
  match m, i with
  | .v a, .v b => a = b
  | _, _ => false

def sameList : List FX → List FX → Bool
  | [], [] => true
  | a :: as, b :: bs => sameF a b && sameList as bs
  | _, _ => false

end Wire
