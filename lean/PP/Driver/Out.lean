import PP.Driver.Codec
open Wire

/-- what an operation returns, in comparable form -/
inductive Out where
  | nums (l : List FX)
  | segs (l : List (FX × List FX))
  | bool (b : Bool)
  | panic
  | err
deriving Repr

namespace Out
def same : Out → Out → Bool
  | nums a, nums b => sameList a b
  | segs a, segs b =>
    a.length == b.length && (a.zip b).all fun (x, y) => sameF x.1 y.1 && sameList x.2 y.2
  | bool a, bool b => a == b
  | panic, panic => true
  | err, err => true
  | _, _ => false

def flat : Out → List FX
  | nums l => l
  | segs l => l.flatMap fun (e, ns) => e :: ns
  | _ => []

def render : Out → String
  | nums l => showList l
  | segs l => ";".intercalate (l.map fun (e, ns) => e.toHex ++ ":" ++ showList ns)
  | bool b => if b then "1" else "0"
  | panic => "PANIC"
  | err => "ERR"

def rawSegs? (s : String) : Option (List (FX × List FX)) :=
  if s.isEmpty then some [] else
  (s.splitOn ";").mapM fun seg =>
    match seg.splitOn ":" with
    | [e, ns] => do pure ((← fx? e), (← fxList? ns))
    | _ => none

/-- parse the implementation's output in the shape of the model's -/
def parseLike (shape : Out) (s : String) : Option Out :=
  if s == "PANIC" then some panic else
  if s == "ERR" then some err else
  match shape with
  | nums _ => (fxList? s).map nums
  | segs _ => (rawSegs? s).map segs
  | bool _ => if s == "1" then some (bool true) else if s == "0" then some (bool false) else none
  | err | panic =>
    -- the model panicked / returned an error; accept any well-formed output for the comparison to fail on
    if s == "1" then some (bool true) else if s == "0" then some (bool false)
    else if s.contains ':' then (rawSegs? s).map segs else (fxList? s).map nums

def ofSegs {T : Type} [Nums T FX] (l : List (Segment FX T)) : Out :=
  segs (l.map fun s => (s.end, Nums.nums s.poly))
def ofPw {T : Type} [Nums T FX] (p : Piecewise FX T) : Out := ofSegs p.segments
def ofOptPw {T : Type} [Nums T FX] : Option (Piecewise FX T) → Out
  | some p => ofPw p
  | none => panic
def ofOptNums : Option (List FX) → Out
  | some l => nums l
  | none => panic
end Out

