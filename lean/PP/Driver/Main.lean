import PP.Driver.Codec
import PP.Driver.Monitors
import PP.Hand.Arbitrary
import PP.Model.Piecewise.Arbitrary
import PP.Model.Poly.Arbitrary
import PP.Model.Serial
/-!
# `ppdrv`: the model side of the correspondence check

One request per line: `<cmd> key=value ...`; one answer per line:
`ok` | `need ln|exp <hex>` | `DISAGREE model=<..>` | `MONFAIL <why>` | `bad <why>`.
`DISAGREE` = the model run at `F64` differs from the implementation's output sent in `impl=`;
`MONFAIL`  = the *implementation's* output violates the property's monitor (independent of the model).
-/
open Wire

/-- final verdict for one case -/
def verdict (a : Args) (model : Out) (monitor : Out → Option String := fun _ => none) : String :=
  match FX.firstNeed model.flat with
  | some n => n.toHex
  | none =>
    match a.get "impl" with
    | none => "bad missing impl"
    | some s =>
      match Out.parseLike model s with
      | none => "bad cannot parse impl"
      | some impl =>
        -- the model returns a value here (and the model is what the property theorems are about): an implementation
        -- that panics on this input does not return that value - a concrete failing input, not a mere disagreement
        if a.get "neok" == some "0" then "MONFAIL abs_diff_ne / relative_ne is not the negation of abs_diff_eq / relative_eq on these values"
        else if a.get "aliasok" == some "0" then "MONFAIL comparing a value with itself (same reference) differs from comparing it with an identical clone"
        else if a.get "iterok" == some "0" then "MONFAIL the iterator returned by evaluate_v yields different values when consumed by fold / for_each / last / count / nth than by next()"
        else
        if (impl matches .panic) && !(model matches .panic) then
          "MONFAIL the implementation panics on this input; the model, for which the property is proved, returns " ++ model.render
        else
        match monitor impl with
        | some why => "MONFAIL " ++ why
        | none => if Out.same model impl then "ok" else "DISAGREE model=" ++ model.render

/-! ## type dispatch -/

macro "forAll! " tag:term ", " f:ident ", " a:term : term =>
  `(match ($tag : String) with
    | "p0" => some ($f (T := Poly0 FX) $a) | "p1" => some ($f (T := Poly1 FX) $a) | "p2" => some ($f (T := Poly2 FX) $a)
    | "p3" => some ($f (T := Poly3 FX) $a) | "p4" => some ($f (T := Poly4 FX) $a) | "p5" => some ($f (T := Poly5 FX) $a)
    | "p6" => some ($f (T := Poly6 FX) $a) | "p7" => some ($f (T := Poly7 FX) $a) | "p8" => some ($f (T := Poly8 FX) $a)
    | "pn" => some ($f (T := PolyN FX) $a)
    | "l0" => some ($f (T := Log (Poly0 FX)) $a) | "l1" => some ($f (T := Log (Poly1 FX)) $a) | "l2" => some ($f (T := Log (Poly2 FX)) $a)
    | "l3" => some ($f (T := Log (Poly3 FX)) $a) | "l4" => some ($f (T := Log (Poly4 FX)) $a) | "l5" => some ($f (T := Log (Poly5 FX)) $a)
    | "l6" => some ($f (T := Log (Poly6 FX)) $a) | "l7" => some ($f (T := Log (Poly7 FX)) $a) | "l8" => some ($f (T := Log (Poly8 FX)) $a)
    | "i0" => some ($f (T := IntOfLog FX (Poly0 FX)) $a) | "i1" => some ($f (T := IntOfLog FX (Poly1 FX)) $a)
    | "i2" => some ($f (T := IntOfLog FX (Poly2 FX)) $a) | "i3" => some ($f (T := IntOfLog FX (Poly3 FX)) $a)
    | "i4" => some ($f (T := IntOfLog FX (Poly4 FX)) $a) | "i5" => some ($f (T := IntOfLog FX (Poly5 FX)) $a)
    | "i6" => some ($f (T := IntOfLog FX (Poly6 FX)) $a) | "i7" => some ($f (T := IntOfLog FX (Poly7 FX)) $a)
    | "i8" => some ($f (T := IntOfLog FX (Poly8 FX)) $a)
    | "q4" => some ($f (T := IntOfLogPoly4 FX) $a)
    | _ => none)

/-- every type except `PolyN` (which has only Evaluate / Translate / approx) -/
macro "forFixed! " tag:term ", " f:ident ", " a:term : term =>
  `(match ($tag : String) with
    | "p0" => some ($f (T := Poly0 FX) $a) | "p1" => some ($f (T := Poly1 FX) $a) | "p2" => some ($f (T := Poly2 FX) $a)
    | "p3" => some ($f (T := Poly3 FX) $a) | "p4" => some ($f (T := Poly4 FX) $a) | "p5" => some ($f (T := Poly5 FX) $a)
    | "p6" => some ($f (T := Poly6 FX) $a) | "p7" => some ($f (T := Poly7 FX) $a) | "p8" => some ($f (T := Poly8 FX) $a)
    | "l0" => some ($f (T := Log (Poly0 FX)) $a) | "l1" => some ($f (T := Log (Poly1 FX)) $a) | "l2" => some ($f (T := Log (Poly2 FX)) $a)
    | "l3" => some ($f (T := Log (Poly3 FX)) $a) | "l4" => some ($f (T := Log (Poly4 FX)) $a) | "l5" => some ($f (T := Log (Poly5 FX)) $a)
    | "l6" => some ($f (T := Log (Poly6 FX)) $a) | "l7" => some ($f (T := Log (Poly7 FX)) $a) | "l8" => some ($f (T := Log (Poly8 FX)) $a)
    | "i0" => some ($f (T := IntOfLog FX (Poly0 FX)) $a) | "i1" => some ($f (T := IntOfLog FX (Poly1 FX)) $a)
    | "i2" => some ($f (T := IntOfLog FX (Poly2 FX)) $a) | "i3" => some ($f (T := IntOfLog FX (Poly3 FX)) $a)
    | "i4" => some ($f (T := IntOfLog FX (Poly4 FX)) $a) | "i5" => some ($f (T := IntOfLog FX (Poly5 FX)) $a)
    | "i6" => some ($f (T := IntOfLog FX (Poly6 FX)) $a) | "i7" => some ($f (T := IntOfLog FX (Poly7 FX)) $a)
    | "i8" => some ($f (T := IntOfLog FX (Poly8 FX)) $a)
    | "q4" => some ($f (T := IntOfLogPoly4 FX) $a)
    | _ => none)

/-- types with `MulAssign<f64>`: everything fixed except the quartic log-integral -/
macro "forMulAssign! " tag:term ", " f:ident ", " a:term : term =>
  `(match ($tag : String) with
    | "p0" => some ($f (T := Poly0 FX) $a) | "p1" => some ($f (T := Poly1 FX) $a) | "p2" => some ($f (T := Poly2 FX) $a)
    | "p3" => some ($f (T := Poly3 FX) $a) | "p4" => some ($f (T := Poly4 FX) $a) | "p5" => some ($f (T := Poly5 FX) $a)
    | "p6" => some ($f (T := Poly6 FX) $a) | "p7" => some ($f (T := Poly7 FX) $a) | "p8" => some ($f (T := Poly8 FX) $a)
    | "l0" => some ($f (T := Log (Poly0 FX)) $a) | "l1" => some ($f (T := Log (Poly1 FX)) $a) | "l2" => some ($f (T := Log (Poly2 FX)) $a)
    | "l3" => some ($f (T := Log (Poly3 FX)) $a) | "l4" => some ($f (T := Log (Poly4 FX)) $a) | "l5" => some ($f (T := Log (Poly5 FX)) $a)
    | "l6" => some ($f (T := Log (Poly6 FX)) $a) | "l7" => some ($f (T := Log (Poly7 FX)) $a) | "l8" => some ($f (T := Log (Poly8 FX)) $a)
    | "i0" => some ($f (T := IntOfLog FX (Poly0 FX)) $a) | "i1" => some ($f (T := IntOfLog FX (Poly1 FX)) $a)
    | "i2" => some ($f (T := IntOfLog FX (Poly2 FX)) $a) | "i3" => some ($f (T := IntOfLog FX (Poly3 FX)) $a)
    | "i4" => some ($f (T := IntOfLog FX (Poly4 FX)) $a) | "i5" => some ($f (T := IntOfLog FX (Poly5 FX)) $a)
    | "i6" => some ($f (T := IntOfLog FX (Poly6 FX)) $a) | "i7" => some ($f (T := IntOfLog FX (Poly7 FX)) $a)
    | "i8" => some ($f (T := IntOfLog FX (Poly8 FX)) $a)
    | _ => none)

/-- types with `Neg` and `Add`: polynomials and both log-integral forms (not `Log<T>`) -/
macro "forNegAdd! " tag:term ", " f:ident ", " a:term : term =>
  `(match ($tag : String) with
    | "p0" => some ($f (T := Poly0 FX) $a) | "p1" => some ($f (T := Poly1 FX) $a) | "p2" => some ($f (T := Poly2 FX) $a)
    | "p3" => some ($f (T := Poly3 FX) $a) | "p4" => some ($f (T := Poly4 FX) $a) | "p5" => some ($f (T := Poly5 FX) $a)
    | "p6" => some ($f (T := Poly6 FX) $a) | "p7" => some ($f (T := Poly7 FX) $a) | "p8" => some ($f (T := Poly8 FX) $a)
    | "i0" => some ($f (T := IntOfLog FX (Poly0 FX)) $a) | "i1" => some ($f (T := IntOfLog FX (Poly1 FX)) $a)
    | "i2" => some ($f (T := IntOfLog FX (Poly2 FX)) $a) | "i3" => some ($f (T := IntOfLog FX (Poly3 FX)) $a)
    | "i4" => some ($f (T := IntOfLog FX (Poly4 FX)) $a) | "i5" => some ($f (T := IntOfLog FX (Poly5 FX)) $a)
    | "i6" => some ($f (T := IntOfLog FX (Poly6 FX)) $a) | "i7" => some ($f (T := IntOfLog FX (Poly7 FX)) $a)
    | "i8" => some ($f (T := IntOfLog FX (Poly8 FX)) $a)
    | "q4" => some ($f (T := IntOfLogPoly4 FX) $a)
    | _ => none)

macro "forDeriv! " tag:term ", " f:ident ", " a:term : term =>
  `(match ($tag : String) with
    | "p0" => some ($f (T := Poly0 FX) $a) | "p1" => some ($f (T := Poly1 FX) $a) | "p2" => some ($f (T := Poly2 FX) $a)
    | "p3" => some ($f (T := Poly3 FX) $a) | "p4" => some ($f (T := Poly4 FX) $a) | "p5" => some ($f (T := Poly5 FX) $a)
    | "p6" => some ($f (T := Poly6 FX) $a) | "p7" => some ($f (T := Poly7 FX) $a) | "p8" => some ($f (T := Poly8 FX) $a)
    | _ => none)

macro "forInteg! " tag:term ", " f:ident ", " a:term : term =>
  `(match ($tag : String) with
    | "p0" => some ($f (T := Poly0 FX) $a) | "p1" => some ($f (T := Poly1 FX) $a) | "p2" => some ($f (T := Poly2 FX) $a)
    | "p3" => some ($f (T := Poly3 FX) $a) | "p4" => some ($f (T := Poly4 FX) $a) | "p5" => some ($f (T := Poly5 FX) $a)
    | "p6" => some ($f (T := Poly6 FX) $a) | "p7" => some ($f (T := Poly7 FX) $a)
    | "l0" => some ($f (T := Log (Poly0 FX)) $a) | "l1" => some ($f (T := Log (Poly1 FX)) $a) | "l2" => some ($f (T := Log (Poly2 FX)) $a)
    | "l3" => some ($f (T := Log (Poly3 FX)) $a) | "l4" => some ($f (T := Log (Poly4 FX)) $a) | "l5" => some ($f (T := Log (Poly5 FX)) $a)
    | "l6" => some ($f (T := Log (Poly6 FX)) $a) | "l7" => some ($f (T := Log (Poly7 FX)) $a) | "l8" => some ($f (T := Log (Poly8 FX)) $a)
    | _ => none)

/-! ## handlers, generic in the piece type -/
section handlers
variable [FloatLike FX]

def arg (a : Args) (k : String) : Option String := a.get k

def goEval {T : Type} [Codec T FX] [Evaluate T FX] (a : Args) : String :=
  match (arg a "p").bind fxList? |>.bind (Codec.dec (T := T)), (arg a "x").bind fx? with
  | some p, some x =>
    let y := Evaluate.evaluate p x
    verdict a (.nums [y]) (Mon.eval (arg a "T") ((arg a "p").bind fxList? |>.getD []) x)
  | _, _ => "bad args"

def goPwEval {T : Type} [Codec T FX] [Evaluate T FX] [Nums T FX] (a : Args) : String :=
  match (arg a "pw").bind (segs? (T := T)), (arg a "x").bind fx? with
  | some segs, some x =>
    let r := Hand.pwEvaluate ⟨segs⟩ x
    verdict a (Out.ofOptNums (r.map fun y => [y]))
      (Mon.pwEval (arg a "T") (segs.map fun s => (s.end, Nums.nums s.poly)) x)
  | _, _ => "bad args"

def goEvaluator {T : Type} [Codec T FX] [Evaluate T FX] (a : Args) : String :=
  match (arg a "pw").bind (segs? (T := T)), (arg a "xs").bind fxList? with
  | some segs, some xs =>
    let r := Hand.evaluatorRun segs xs
    verdict a (Out.ofOptNums r) (Mon.history xs ((arg a "direct").bind fxList?))
  | _, _ => "bad args"

def goEvalV {T : Type} [Codec T FX] [Evaluate T FX] (a : Args) : String :=
  match (arg a "pw").bind (segs? (T := T)), (arg a "xs").bind fxList? with
  | some segs, some xs =>
    let r := Hand.evaluateV ⟨segs⟩ xs
    verdict a (Out.ofOptNums r) (fun impl =>
      if arg a "lazy" == some "0" then some "evaluate_v is not lazy: it consumed more inputs than it had produced outputs"
      else Mon.evalV xs ((arg a "direct").bind fxList?) ((arg a "directmax").bind fxList?) impl)
  | _, _ => "bad args"

def goDeriv {T D : Type} [Codec T FX] [HasDerivative T D] [Nums D FX] (a : Args) : String :=
  match (arg a "p").bind fxList? |>.bind (Codec.dec (T := T)) with
  | some p => verdict a (.nums (Nums.nums (HasDerivative.derivative p : D))) (Mon.calculus "deriv" (arg a "T") ((arg a "p").bind fxList? |>.getD []) [])
  | _ => "bad args"

def goIndef {T I : Type} [Codec T FX] [HasIntegral T (Knot FX) I] [Nums I FX] (a : Args) : String :=
  match (arg a "p").bind fxList? |>.bind (Codec.dec (T := T)) with
  | some p => verdict a (.nums (Nums.nums (HasIntegral.indefinite p : I))) (Mon.calculus "indef" (arg a "T") ((arg a "p").bind fxList? |>.getD []) [])
  | _ => "bad args"

def goIntegral {T I : Type} [Codec T FX] [HasIntegral T (Knot FX) I] [Nums I FX] (a : Args) : String :=
  match (arg a "p").bind fxList? |>.bind (Codec.dec (T := T)), (arg a "k").bind fxList? |>.bind (Codec.dec (T := Knot FX)) with
  | some p, some k => verdict a (.nums (Nums.nums (HasIntegral.integral p k : I))) (Mon.calculus "integral" (arg a "T") ((arg a "p").bind fxList? |>.getD []) ((arg a "k").bind fxList? |>.getD []))
  | _, _ => "bad args"

def goTranslate {T : Type} [Codec T FX] [Translate T FX] [Nums T FX] (a : Args) : String :=
  match (arg a "p").bind fxList? |>.bind (Codec.dec (T := T)), (arg a "v").bind fx? with
  | some p, some v => verdict a (.nums (Nums.nums (Translate.translate p v))) (Mon.ops "translate" (arg a "T") ((arg a "p").bind fxList? |>.getD []) [] ((arg a "v").bind fx?))
  | _, _ => "bad args"

def goMul {T O : Type} [Codec T FX] [PMul T FX O] [Nums O FX] (a : Args) : String :=
  match (arg a "p").bind fxList? |>.bind (Codec.dec (T := T)), (arg a "s").bind fx? with
  | some p, some s => verdict a (.nums (Nums.nums (PMul.mul p s : O))) (Mon.ops "mul" (arg a "T") ((arg a "p").bind fxList? |>.getD []) [] ((arg a "s").bind fx?))
  | _, _ => "bad args"

def goMulAssign {T : Type} [Codec T FX] [PMulAssign T FX] [Nums T FX] (a : Args) : String :=
  match (arg a "p").bind fxList? |>.bind (Codec.dec (T := T)), (arg a "s").bind fx? with
  | some p, some s => verdict a (.nums (Nums.nums (PMulAssign.mulAssign p s))) (Mon.ops "mulassign" (arg a "T") ((arg a "p").bind fxList? |>.getD []) [] ((arg a "s").bind fx?))
  | _, _ => "bad args"

def goNeg {T O : Type} [Codec T FX] [PNeg T O] [Nums O FX] (a : Args) : String :=
  match (arg a "p").bind fxList? |>.bind (Codec.dec (T := T)) with
  | some p => verdict a (.nums (Nums.nums (PNeg.neg p : O))) (Mon.ops "neg" (arg a "T") ((arg a "p").bind fxList? |>.getD []) [] none)
  | _ => "bad args"

def goAdd {T O : Type} [Codec T FX] [PAdd T T O] [Nums O FX] (a : Args) : String :=
  match (arg a "p").bind fxList? |>.bind (Codec.dec (T := T)), (arg a "q").bind fxList? |>.bind (Codec.dec (T := T)) with
  | some p, some q => verdict a (.nums (Nums.nums (PAdd.add p q : O))) (Mon.ops "add" (arg a "T") ((arg a "p").bind fxList? |>.getD []) ((arg a "q").bind fxList? |>.getD []) none)
  | _, _ => "bad args"

/-- the crate's own `==` (generated `PEq` instance) against what the implementation's `==` returned -/
def eqAgrees (a : Args) (model : Bool) : Option String :=
  match a.get "eq" with
  | some "1" => if model then none else some "DISAGREE model-eq=0 (the generated PartialEq says the values differ, the implementation's == says equal)"
  | some "0" => if model then some "DISAGREE model-eq=1 (the generated PartialEq says equal, the implementation's == says the values differ)" else none
  | _ => none

/-- a property failure found by a monitor has priority over the model/implementation disagreement about `==` -/
def withEq (a : Args) (meq : Bool) (v : String) : String :=
  if v.startsWith "MONFAIL" || v.startsWith "need" || v.startsWith "bad" then v else
  match eqAgrees a meq with
  | some bad => bad
  | none => v

def goAbsDiff {T : Type} [Codec T FX] [AbsDiffEq T FX] [PEq T] (a : Args) : String :=
  match (arg a "p").bind fxList? |>.bind (Codec.dec (T := T)), (arg a "q").bind fxList? |>.bind (Codec.dec (T := T)),
        (arg a "eps").bind fx? with
  | some p, some q, some eps =>
    withEq a (PEq.peq p q) <|
    verdict a (.bool (AbsDiffEq.absDiffEq p q eps))
      (fun impl => (Mon.defaultsOk (arg a "deps") (arg a "dmr")).orElse fun _ =>
        (Mon.approxAbs ((arg a "p").bind fxList? |>.getD []) ((arg a "q").bind fxList? |>.getD []) eps impl).orElse fun _ =>
        Mon.eqImplies (arg a "eq") (((arg a "p").bind fxList? |>.getD []) ++ ((arg a "q").bind fxList? |>.getD [])) [eps] impl)
  | _, _, _ => "bad args"

def goRelEq {T : Type} [Codec T FX] [RelativeEq T FX] [PEq T] (a : Args) : String :=
  match (arg a "p").bind fxList? |>.bind (Codec.dec (T := T)), (arg a "q").bind fxList? |>.bind (Codec.dec (T := T)),
        (arg a "eps").bind fx?, (arg a "mr").bind fx? with
  | some p, some q, some eps, some mr =>
    withEq a (PEq.peq p q) <|
    verdict a (.bool (RelativeEq.relativeEq p q eps mr))
      (fun impl => (Mon.defaultsOk (arg a "deps") (arg a "dmr")).orElse fun _ =>
        (Mon.approxRel ((arg a "p").bind fxList? |>.getD []) ((arg a "q").bind fxList? |>.getD []) eps mr impl).orElse fun _ =>
        Mon.eqImplies (arg a "eq") (((arg a "p").bind fxList? |>.getD []) ++ ((arg a "q").bind fxList? |>.getD [])) [eps, mr] impl)
  | _, _, _, _ => "bad args"

/-- `opsraw`: an operator impl the harness found in the crate by probing (C14 quantifies over every impl that exists);
checked number by number against the soft-float operations, with no model instance involved -/
def goOpsRaw (a : Args) : String :=
  match arg a "op", (arg a "p").bind fxList?, a.get "impl" with
  | some op, some p, some s =>
    if s == "NOIMPL" then "ok" else
    let q := (arg a "q").bind fxList? |>.getD []
    let cmd := if op == "addassign" || op == "refadd" then "add" else if op == "subassign" || op == "refsub" then "sub"
      else if op == "refmul" then "mul" else if op == "refneg" then "neg" else op
    match Out.parseLike (.nums []) s with
    | none => "bad cannot parse impl"
    | some impl =>
      match Mon.ops cmd (arg a "T") p q ((arg a "s").bind fx?) impl with
      | some why => "MONFAIL " ++ why
      | none => "ok"
  | _, _, _ => "bad args"

/-- `pwopsraw`: an operator impl the harness found on `Segment<T>` / `Piecewise<T>` by probing (C15: every piece type for
which the operator exists): same number of pieces, every breakpoint bit-identical, every piece = the piece-level
operation number by number.  No model instance involved. -/
def goPwOpsRaw (a : Args) : String :=
  match arg a "op", (arg a "pw").bind Out.rawSegs?, a.get "impl" with
  | some op, some src, some s =>
    if s == "NOIMPL" then "ok" else
    match Out.parseLike (.segs []) s with
    | none => "bad cannot parse impl"
    | some impl =>
      match Mon.pwOps op (arg a "T") src ((arg a "s").bind fx?) impl with
      | some why => "MONFAIL " ++ why
      | none => "ok"
  | _, _, _ => "bad args"

/-! piecewise-level operations -/

def goPwDeriv {T D : Type} [Codec T FX] [HasDerivative T D] [Nums D FX] [Nums T FX] (a : Args) : String :=
  match (arg a "pw").bind (segs? (T := T)) with
  | some segs => verdict a (Out.ofPw (Hand.pwDerivative (D := D) ⟨segs⟩)) (Mon.pwShape (segs.map fun g => (g.end, Nums.nums g.poly)))
  | _ => "bad args"

def goSegDeriv {T D : Type} [Codec T FX] [HasDerivative T D] [Nums D FX] [Nums T FX] (a : Args) : String :=
  match (arg a "pw").bind (segs? (T := T)) with
  | some [s] => verdict a (Out.ofSegs [(HasDerivative.derivative s : Segment FX D)]) (Mon.pwShape ([s].map fun g => (g.end, Nums.nums g.poly)))
  | _ => "bad args"

def goPwIntegral {T I : Type} [Codec T FX] [HasIntegral T (Knot FX) I] [Evaluate I FX] [Translate I FX] [Nums I FX] [Nums T FX]
    (a : Args) : String :=
  match (arg a "pw").bind (segs? (T := T)), (arg a "k").bind fxList? |>.bind (Codec.dec (T := Knot FX)) with
  | some segs, some k =>
    let r : Piecewise FX I := Hand.pwIntegral ⟨segs⟩ k
    verdict a (Out.ofPw r) (Mon.pwIntegral "pwintegral" (arg a "T") (segs.map fun s => (s.end, Nums.nums s.poly)) ((arg a "k").bind fxList? |>.getD []))
  | _, _ => "bad args"

def goPwIndef {T I : Type} [Codec T FX] [HasIntegral T (Knot FX) I] [Evaluate I FX] [Translate I FX] [Nums I FX] [Nums T FX]
    (a : Args) : String :=
  match (arg a "pw").bind (segs? (T := T)) with
  | some segs =>
    let r : Piecewise FX I := Hand.pwIndefinite ⟨segs⟩
    verdict a (Out.ofPw r) (Mon.pwIntegral "pwindef" (arg a "T") (segs.map fun s => (s.end, Nums.nums s.poly)) [])
  | _ => "bad args"

/-- `Segment::integral_iter` / `integral_iter_ref` (same model) -/
def goIntegralIter {T I : Type} [Codec T FX] [HasIntegral T (Knot FX) I] [Evaluate I FX] [Translate I FX] [Nums I FX] [Nums T FX]
    (a : Args) : String :=
  match (arg a "pw").bind (segs? (T := T)), (arg a "k").bind fxList? |>.bind (Codec.dec (T := Knot FX)) with
  | some segs, some k =>
    let r : List (Segment FX I) := Hand.integralIter segs k
    verdict a (Out.ofSegs r) (fun impl => match (arg a "byref") with
      | some br => if br != (arg a "impl").getD "" then some "integral_iter and integral_iter_ref produce different pieces"
                   else Mon.pwIntegral "integraliter" (arg a "T") (segs.map fun s => (s.end, Nums.nums s.poly)) ((arg a "k").bind fxList? |>.getD []) impl
      | none => none)
  | _, _ => "bad args"

def goSegIntegral {T I : Type} [Codec T FX] [HasIntegral T (Knot FX) I] [Evaluate I FX] [Translate I FX] [Nums I FX] [Nums T FX]
    (a : Args) : String :=
  match (arg a "pw").bind (segs? (T := T)), (arg a "k").bind fxList? |>.bind (Codec.dec (T := Knot FX)) with
  | some [s], some k => verdict a (Out.ofSegs [(HasIntegral.integral s k : Segment FX I)])
      (Mon.pwIntegral "segintegral" (arg a "T") [(s.end, Nums.nums s.poly)] ((arg a "k").bind fxList? |>.getD []))
  | _, _ => "bad args"

def goSegIndef {T I : Type} [Codec T FX] [HasIntegral T (Knot FX) I] [Evaluate I FX] [Translate I FX] [Nums I FX] [Nums T FX]
    (a : Args) : String :=
  match (arg a "pw").bind (segs? (T := T)) with
  | some [s] => verdict a (Out.ofSegs [(HasIntegral.indefinite s : Segment FX I)])
      (Mon.pwIntegral "segindef" (arg a "T") [(s.end, Nums.nums s.poly)] [])
  | _ => "bad args"

def goPwMul {T : Type} [Codec T FX] [PMul T FX T] [Nums T FX] (a : Args) : String :=
  match (arg a "pw").bind (segs? (T := T)), (arg a "s").bind fx? with
  | some segs, some s => verdict a (Out.ofPw (Hand.pwMul ⟨segs⟩ s)) (Mon.pwOps "mul" (arg a "T") (segs.map fun g => (g.end, Nums.nums g.poly)) ((arg a "s").bind fx?))
  | _, _ => "bad args"

def goSegMul {T : Type} [Codec T FX] [PMul T FX T] [Nums T FX] (a : Args) : String :=
  match (arg a "pw").bind (segs? (T := T)), (arg a "s").bind fx? with
  | some [sg], some s => verdict a (Out.ofSegs [(PMul.mul sg s : Segment FX T)]) (Mon.pwOps "mul" (arg a "T") ([sg].map fun g => (g.end, Nums.nums g.poly)) ((arg a "s").bind fx?))
  | _, _ => "bad args"

def goPwMulAssign {T : Type} [Codec T FX] [PMulAssign T FX] [Nums T FX] (a : Args) : String :=
  match (arg a "pw").bind (segs? (T := T)), (arg a "s").bind fx? with
  | some segs, some s => verdict a (Out.ofPw (Hand.pwMulAssign ⟨segs⟩ s)) (Mon.pwOps "mulassign" (arg a "T") (segs.map fun g => (g.end, Nums.nums g.poly)) ((arg a "s").bind fx?))
  | _, _ => "bad args"

def goSegMulAssign {T : Type} [Codec T FX] [PMulAssign T FX] [Nums T FX] (a : Args) : String :=
  match (arg a "pw").bind (segs? (T := T)), (arg a "s").bind fx? with
  | some [sg], some s => verdict a (Out.ofSegs [PMulAssign.mulAssign sg s]) (Mon.pwOps "mulassign" (arg a "T") ([sg].map fun g => (g.end, Nums.nums g.poly)) ((arg a "s").bind fx?))
  | _, _ => "bad args"

def goPwNeg {T : Type} [Codec T FX] [PNeg T T] [Nums T FX] (a : Args) : String :=
  match (arg a "pw").bind (segs? (T := T)) with
  | some segs => verdict a (Out.ofPw (Hand.pwNeg ⟨segs⟩)) (Mon.pwOps "neg" (arg a "T") (segs.map fun g => (g.end, Nums.nums g.poly)) none)
  | _ => "bad args"

def goPwTranslate {T : Type} [Codec T FX] [Translate T FX] [Nums T FX] (a : Args) : String :=
  match (arg a "pw").bind (segs? (T := T)), (arg a "v").bind fx? with
  | some segs, some v => verdict a (Out.ofPw (Hand.pwTranslate ⟨segs⟩ v)) (Mon.pwOps "translate" (arg a "T") (segs.map fun g => (g.end, Nums.nums g.poly)) ((arg a "v").bind fx?))
  | _, _ => "bad args"

def goSegTranslate {T : Type} [Codec T FX] [Translate T FX] [Nums T FX] (a : Args) : String :=
  match (arg a "pw").bind (segs? (T := T)), (arg a "v").bind fx? with
  | some [sg], some v => verdict a (Out.ofSegs [Translate.translate sg v]) (Mon.pwOps "translate" (arg a "T") ([sg].map fun g => (g.end, Nums.nums g.poly)) ((arg a "v").bind fx?))
  | _, _ => "bad args"

def goPwAbsDiff {T : Type} [Codec T FX] [AbsDiffEq T FX] [Nums T FX] [PEq T] (a : Args) : String :=
  match (arg a "pw").bind (segs? (T := T)), (arg a "pw2").bind (segs? (T := T)), (arg a "eps").bind fx? with
  | some f, some g, some eps =>
    withEq a (PEq.peq (Piecewise.mk f) (Piecewise.mk g)) <|
    verdict a (.bool (AbsDiffEq.absDiffEq f g eps))
      (fun impl => (Mon.defaultsOk (arg a "deps") (arg a "dmr")).orElse fun _ =>
        (Mon.approxAbsPw (f.map fun s => s.end :: Nums.nums s.poly) (g.map fun s => s.end :: Nums.nums s.poly) eps impl).orElse fun _ =>
        Mon.eqImplies (arg a "eq") ((f ++ g).flatMap fun s => s.end :: Nums.nums s.poly) [eps] impl)
  | _, _, _ => "bad args"

def goPwRelEq {T : Type} [Codec T FX] [AbsDiffEq T FX] [RelativeEq T FX] [Nums T FX] [PEq T] (a : Args) : String :=
  match (arg a "pw").bind (segs? (T := T)), (arg a "pw2").bind (segs? (T := T)), (arg a "eps").bind fx?, (arg a "mr").bind fx? with
  | some f, some g, some eps, some mr =>
    withEq a (PEq.peq (Piecewise.mk f) (Piecewise.mk g)) <|
    verdict a (.bool (RelativeEq.relativeEq f g eps mr))
      (fun impl => (Mon.defaultsOk (arg a "deps") (arg a "dmr")).orElse fun _ =>
        (Mon.approxRelPw (f.map fun s => s.end :: Nums.nums s.poly) (g.map fun s => s.end :: Nums.nums s.poly) eps mr impl).orElse fun _ =>
        Mon.eqImplies (arg a "eq") ((f ++ g).flatMap fun s => s.end :: Nums.nums s.poly) [eps, mr] impl)
  | _, _, _, _ => "bad args"

def goMerge (a : Args) : String :=
  match (arg a "f").bind (segs? (T := IntOfLogPoly4 FX)), (arg a "g").bind (segs? (T := IntOfLogPoly4 FX)), arg a "op" with
  | some f, some g, some op =>
    let r := if op == "sub" then Hand.pwSub ⟨f⟩ ⟨g⟩ else Hand.pwAdd ⟨f⟩ ⟨g⟩
    verdict a (Out.ofOptPw r) (Mon.merge (f.map fun s => (s.end, Nums.nums s.poly)) (g.map fun s => (s.end, Nums.nums s.poly)) (op == "sub"))
  | _, _, _ => "bad args"

def goLinear (a : Args) : String :=
  match (arg a "knots").bind knots? with
  | some ks => verdict a (Out.ofOptPw (Hand.linear ks)) (fun impl => Mon.linear ks impl (win := a.get "nowin" != some "1"))
  | _ => "bad args"

def goSpline (a : Args) : String :=
  match (arg a "knots").bind knots? with
  | some ks => verdict a (Out.ofOptPw (Hand.constrainedSpline ks)) (fun impl => Mon.spline ks impl (win := a.get "nowin" != some "1"))
  | _ => "bad args"

def goSf (a : Args) : String :=
  match (arg a "a").bind fx?, (arg a "b").bind fx?, (arg a "c").bind fx?, arg a "op" with
  | some x, some y, some z, some op =>
    let b2f (b : Bool) : FX := .v (F64.ofBits (if b then 1 else 0))
    let r : FX := match op with
      | "add" => FloatLike.add x y | "sub" => FloatLike.sub x y | "mul" => FloatLike.mul x y
      | "div" => FloatLike.div x y | "fma" => FloatLike.fma x y z | "max" => FloatLike.max x y
      | "neg" => FloatLike.neg x | "abs" => FloatLike.abs x
      | "lt" => b2f (FloatLike.lt x y) | "le" => b2f (FloatLike.le x y) | "eq" => b2f (FloatLike.feq x y)
      | "isnan" => b2f (FloatLike.isNaN x) | "isinf" => b2f (FloatLike.isInf x)
      | _ => .v F64.nan
    verdict a (.nums [r])
  | _, _, _, _ => "bad args"

end handlers

/-! `Arbitrary` (C19): the model runs on `F64` directly -/
def hexBytes? (s : String) : Option (List Nat) :=
  let rec go : List Char → Option (List Nat)
    | [] => some []
    | a :: b :: rest => do
      let x ← F64.hexDigit a
      let y ← F64.hexDigit b
      let r ← go rest
      pure ((x * 16 + y) :: r)
    | _ => none
  go s.toList

def goArbitrary {T : Type} [Nums T F64] [Arb.ArbitraryT T] (d : Hand.Arb.PieceDec T) (a : Args) : String :=
  match (a.get "bytes").bind hexBytes? with
  | some bs =>
    let toOut (pw : Piecewise F64 T) : Out := .segs (pw.segments.map fun s => (FX.v s.end, (Nums.nums s.poly).map FX.v))
    let model : Out := match Hand.Arb.arbitraryPw d bs with
      | none => .err
      | some pw => toOut pw
    -- the GENERATED impl (PP/Model/Piecewise/Arbitrary.lean) on the same bytes; `ln`/`exp` are never called by it
    let gen : Out := match @inst_Arbitrary_Piecewise_T.arbitrary F64 T _ (F64.inst (fun _ => F64.nan) (fun _ => F64.nan)) _ bs with
      | .ok pw _ => toOut pw
      | .err _ _ => .err
      | .panic => .panic
    if !(gen.same model) then
      "DISAGREE generated-vs-hand gen=" ++ gen.render ++ " hand=" ++ model.render
    else
      let v := verdict a gen (Mon.arbitrary (a.get "agree"))
      if v != "ok" then v else
      -- the trait's other entry point, `arbitrary_take_rest`, must return well-formed values too
      match a.get "takerest" with
      | none => v
      | some s =>
        match Out.parseLike (.segs []) s with
        | none => "bad cannot parse takerest"
        | some tr =>
          match Mon.arbitrary none tr with
          | some why => "MONFAIL arbitrary_take_rest: " ++ why
          | none => v
  | none => "bad args"


/-! serialization (C18): compare the generated codecs with what the real derives did -/
def natList? (s : String) : Option (List Nat) :=
  if s.isEmpty then some [] else (s.splitOn ",").mapM F64.natOfHex?

def segsWith {F T : Type} [Codec T F] (num? : String → Option F) (s : String) : Option (List (Segment F T)) :=
  if s.isEmpty then some [] else
  (s.splitOn ";").mapM fun seg =>
    match seg.splitOn ":" with
    | [e, ns] => do
      let e ← num? e
      let ns ← if ns.isEmpty then some [] else (ns.splitOn ",").mapM num?
      let p ← Codec.dec ns
      pure (Segment.mk e p)
    | _ => none

def serdeVerdict (a : Args) (tree : Option String) (borsh : Option (List Nat)) : String :=
  match tree, borsh with
  | some t, some b =>
    let implTree := (a.get "tree").getD ""
    let implBorsh := (a.get "borsh").getD ""
    let rt := (a.get "rt").getD ""
    if rt.contains '0' then "MONFAIL a real round trip (serde_json / serde_cbor / borsh / non-self-describing binary: " ++ rt ++ ") did not return identical bits"
    else if implTree.startsWith "ERR" then "MONFAIL the derived Serialize made a call outside the modelled data-model subset: " ++ implTree
    else if t != implTree then "DISAGREE model=" ++ t
    else if implBorsh != "SKIP" && Borsh.bytesToHex b != implBorsh then "DISAGREE model=" ++ Borsh.bytesToHex b
    else "ok"
  | _, _ => "bad args"

def goSerde {T TN : Type} [Codec T FX] [SerTree T FX] [Codec TN Nat] [Borsh TN] (a : Args) : String :=
  let rend (t : Tree FX) : String := Tree.render FX.toHex t
  match a.get "kind" with
  | some "piece" =>
    serdeVerdict a
      (((a.get "p").bind fxList?).bind (Codec.dec (T := T)) |>.map fun v => rend (SerTree.ser v))
      (((a.get "p").bind natList?).bind (Codec.dec (T := TN)) |>.map fun v => Borsh.enc v)
  | some "seg" =>
    serdeVerdict a
      (match (a.get "pw").bind (segsWith (T := T) fx?) with | some [s] => some (rend (SerTree.ser s)) | _ => none)
      (match (a.get "pw").bind (segsWith (T := TN) F64.natOfHex?) with | some [s] => some (Borsh.enc s) | _ => none)
  | some "pw" =>
    serdeVerdict a
      ((a.get "pw").bind (segsWith (T := T) fx?) |>.map fun l => rend (SerTree.ser (Piecewise.mk l)))
      ((a.get "pw").bind (segsWith (T := TN) F64.natOfHex?) |>.map fun l => Borsh.enc (Piecewise.mk l))
  | _ => "bad kind"

def goSerdeKnot (a : Args) : String :=
  serdeVerdict a
    (((a.get "p").bind fxList?).bind (Codec.dec (T := Knot FX)) |>.map fun v => Tree.render FX.toHex (SerTree.ser v))
    (((a.get "p").bind natList?).bind (Codec.dec (T := Knot Nat)) |>.map fun v => Borsh.enc v)

macro "forSerde! " tag:term ", " a:term : term =>
  `(match ($tag : String) with
    | "p0" => some (goSerde (T := Poly0 FX) (TN := Poly0 Nat) $a) | "p1" => some (goSerde (T := Poly1 FX) (TN := Poly1 Nat) $a)
    | "p2" => some (goSerde (T := Poly2 FX) (TN := Poly2 Nat) $a) | "p3" => some (goSerde (T := Poly3 FX) (TN := Poly3 Nat) $a)
    | "p4" => some (goSerde (T := Poly4 FX) (TN := Poly4 Nat) $a) | "p5" => some (goSerde (T := Poly5 FX) (TN := Poly5 Nat) $a)
    | "p6" => some (goSerde (T := Poly6 FX) (TN := Poly6 Nat) $a) | "p7" => some (goSerde (T := Poly7 FX) (TN := Poly7 Nat) $a)
    | "p8" => some (goSerde (T := Poly8 FX) (TN := Poly8 Nat) $a)
    | "l0" => some (goSerde (T := Log (Poly0 FX)) (TN := Log (Poly0 Nat)) $a) | "l1" => some (goSerde (T := Log (Poly1 FX)) (TN := Log (Poly1 Nat)) $a)
    | "l2" => some (goSerde (T := Log (Poly2 FX)) (TN := Log (Poly2 Nat)) $a) | "l3" => some (goSerde (T := Log (Poly3 FX)) (TN := Log (Poly3 Nat)) $a)
    | "l4" => some (goSerde (T := Log (Poly4 FX)) (TN := Log (Poly4 Nat)) $a) | "l5" => some (goSerde (T := Log (Poly5 FX)) (TN := Log (Poly5 Nat)) $a)
    | "l6" => some (goSerde (T := Log (Poly6 FX)) (TN := Log (Poly6 Nat)) $a) | "l7" => some (goSerde (T := Log (Poly7 FX)) (TN := Log (Poly7 Nat)) $a)
    | "l8" => some (goSerde (T := Log (Poly8 FX)) (TN := Log (Poly8 Nat)) $a)
    | "i0" => some (goSerde (T := IntOfLog FX (Poly0 FX)) (TN := IntOfLog Nat (Poly0 Nat)) $a)
    | "i1" => some (goSerde (T := IntOfLog FX (Poly1 FX)) (TN := IntOfLog Nat (Poly1 Nat)) $a)
    | "i2" => some (goSerde (T := IntOfLog FX (Poly2 FX)) (TN := IntOfLog Nat (Poly2 Nat)) $a)
    | "i3" => some (goSerde (T := IntOfLog FX (Poly3 FX)) (TN := IntOfLog Nat (Poly3 Nat)) $a)
    | "i4" => some (goSerde (T := IntOfLog FX (Poly4 FX)) (TN := IntOfLog Nat (Poly4 Nat)) $a)
    | "i5" => some (goSerde (T := IntOfLog FX (Poly5 FX)) (TN := IntOfLog Nat (Poly5 Nat)) $a)
    | "i6" => some (goSerde (T := IntOfLog FX (Poly6 FX)) (TN := IntOfLog Nat (Poly6 Nat)) $a)
    | "i7" => some (goSerde (T := IntOfLog FX (Poly7 FX)) (TN := IntOfLog Nat (Poly7 Nat)) $a)
    | "i8" => some (goSerde (T := IntOfLog FX (Poly8 FX)) (TN := IntOfLog Nat (Poly8 Nat)) $a)
    | "q4" => some (goSerde (T := IntOfLogPoly4 FX) (TN := IntOfLogPoly4 Nat) $a)
    | _ => none)

def handle (line : String) : String :=
  match (line.trimAscii.toString.splitOn " ").filter (· ≠ "") with
  | [] => "bad empty"
  | cmd :: rest =>
    let a := parseArgs rest
    let t := parseTbl a
    letI : FloatLike FX := FX.inst t
    let tag := (a.get "T").getD ""
    let r : Option String := match cmd with
      | "sf" => some (goSf a)
      | "eval" => (forAll! tag, goEval, a)
      | "pweval" => (forAll! tag, goPwEval, a)
      | "evaluator" => (forAll! tag, goEvaluator, a)
      | "evalv" => (forAll! tag, goEvalV, a)
      | "deriv" => (forDeriv! tag, goDeriv, a)
      | "indef" => (forInteg! tag, goIndef, a)
      | "integral" => (forInteg! tag, goIntegral, a)
      | "translate" => (forAll! tag, goTranslate, a)
      | "mul" => (forFixed! tag, goMul, a)
      | "mulassign" => (forMulAssign! tag, goMulAssign, a)
      | "neg" => (forNegAdd! tag, goNeg, a)
      | "add" => (forNegAdd! tag, goAdd, a)
      | "opsraw" => some (goOpsRaw a)
      | "pwopsraw" => some (goPwOpsRaw a)
      | "mergeraw" => some (match a.get "impl" with
          | some "NOIMPL" => "ok"
          | some "1" => "ok"
          | some "0" => "MONFAIL `&f ± &g` (probed impl): the result is not well-formed, or at a breakpoint of an operand its value is not f(x) ± g(x) up to rounding"
          | some "PANIC" => "MONFAIL `&f ± &g` (probed impl) panicked on well-formed operands"
          | _ => "bad args")
      | "absdiff" => (forAll! tag, goAbsDiff, a)
      | "releq" => (forAll! tag, goRelEq, a)
      | "pwderiv" => (forDeriv! tag, goPwDeriv, a)
      | "segderiv" => (forDeriv! tag, goSegDeriv, a)
      | "pwintegral" => (forInteg! tag, goPwIntegral, a)
      | "pwindef" => (forInteg! tag, goPwIndef, a)
      | "integraliter" => (forInteg! tag, goIntegralIter, a)
      | "segintegral" => (forInteg! tag, goSegIntegral, a)
      | "segindef" => (forInteg! tag, goSegIndef, a)
      | "pwmul" => (forFixed! tag, goPwMul, a)
      | "segmul" => (forFixed! tag, goSegMul, a)
      | "pwmulassign" => (forMulAssign! tag, goPwMulAssign, a)
      | "segmulassign" => (forMulAssign! tag, goSegMulAssign, a)
      | "pwneg" => (forNegAdd! tag, goPwNeg, a)
      | "pwtranslate" => (forAll! tag, goPwTranslate, a)
      | "segtranslate" => (forAll! tag, goSegTranslate, a)
      | "pwabsdiff" => (forAll! tag, goPwAbsDiff, a)
      | "pwreleq" => (forAll! tag, goPwRelEq, a)
      | "merge" => some (goMerge a)
      | "linear" => some (goLinear a)
      | "spline" => some (goSpline a)
      | "serde" => if a.get "kind" == some "knot" then some (goSerdeKnot a) else (forSerde! tag, a)
      | "arbitrary" => (match tag with
        | "p0" => some (goArbitrary Hand.Arb.decPoly0 a) | "p1" => some (goArbitrary Hand.Arb.decPoly1 a)
        | "p2" => some (goArbitrary Hand.Arb.decPoly2 a) | "p3" => some (goArbitrary Hand.Arb.decPoly3 a)
        | "p4" => some (goArbitrary Hand.Arb.decPoly4 a) | "p5" => some (goArbitrary Hand.Arb.decPoly5 a)
        | "p6" => some (goArbitrary Hand.Arb.decPoly6 a) | "p7" => some (goArbitrary Hand.Arb.decPoly7 a)
        | "p8" => some (goArbitrary Hand.Arb.decPoly8 a) | "pn" => some (goArbitrary Hand.Arb.decPolyN a)
        | _ => none)
      | _ => none
    r.getD ("bad unknown command or type: " ++ cmd ++ " " ++ tag)

partial def loop (hin hout : IO.FS.Stream) : IO Unit := do
  let line ← hin.getLine
  if line.isEmpty then return ()
  hout.putStrLn (handle line)
  hout.flush
  loop hin hout

def main : IO Unit := do loop (← IO.getStdin) (← IO.getStdout)
