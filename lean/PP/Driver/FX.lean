import PP.Core.F64
/-!
# `FX`: the driver's number type — `F64` plus a "value of ln/exp needed" poison

`ln` and `exp` are outside the model (libm).  The harness supplies their values per case in a table;
when the model asks for an argument that is not in the table the computation is poisoned with that
argument, the driver answers `need ln|exp <hex>`, the harness computes the value with the real libm
and resends the case with the extended table.
-/

structure Tbl where
  ln : List (Nat × F64) := []
  exp : List (Nat × F64) := []

inductive FX where
  | v (x : F64)
  | need (isExp : Bool) (arg : F64)
deriving DecidableEq, Repr, Inhabited

namespace FX
@[inline] def lift1 (f : F64 → F64) : FX → FX
  | v x => v (f x)
  | n => n
@[inline] def lift2 (f : F64 → F64 → F64) : FX → FX → FX
  | v x, v y => v (f x y)
  | need b a, _ => need b a
  | _, need b a => need b a
@[inline] def lift3 (f : F64 → F64 → F64 → F64) : FX → FX → FX → FX
  | v x, v y, v z => v (f x y z)
  | need b a, _, _ => need b a
  | _, need b a, _ => need b a
  | _, _, need b a => need b a
@[inline] def rel (f : F64 → F64 → Bool) : FX → FX → Bool
  | v x, v y => f x y
  | _, _ => false
@[inline] def pred (f : F64 → Bool) : FX → Bool
  | v x => f x
  | _ => false

def lookup (t : List (Nat × F64)) (k : Nat) : Option F64 :=
  match t with
  | [] => none
  | (k', y) :: rest => if k = k' then some y else lookup rest k

@[reducible] def inst (t : Tbl) : FloatLike FX where
  add := lift2 F64.add
  sub := lift2 F64.sub
  mul := lift2 F64.mul
  div := lift2 F64.div
  neg := lift1 F64.neg
  abs := lift1 F64.abs
  fma := lift3 F64.fma
  max := lift2 F64.max
  ofDec m e := v (F64.ofDec m e)
  epsilon := v F64.epsilon
  lt := rel F64.lt
  le := rel F64.le
  feq := rel F64.feq
  isNaN := pred F64.isNaN
  isInf := pred F64.isInf
  ln := fun
    | v x => match lookup t.ln x.toBits with
      | some y => v y
      | none => need false x
    | n => n
  exp := fun
    | v x => match lookup t.exp x.toBits with
      | some y => v y
      | none => need true x
    | n => n

def toHex : FX → String
  | v x => x.toHex
  | need b a => (if b then "need exp " else "need ln ") ++ a.toHex

/-- first poison in a list of results, if any -/
def firstNeed : List FX → Option FX
  | [] => none
  | need b a :: _ => some (need b a)
  | _ :: rest => firstNeed rest
end FX
