import PP.Props.C02
/-!
Helper lemmas for C03 / C16: the zipper scans of the evaluator model compute the selection of C02
and maintain the cursor invariant.  Core Lean only.
-/
set_option linter.unusedSectionVars false
namespace PP.Lemmas.Evaluator
open FloatLike OrdLaws Hand PP.Props.C02
variable {F T : Type} [FloatLike F] [OrdLaws F]

/-- selection through a split of the list: everything before `s` has no end > x, and `s` has one
(or is the last segment) -/
theorem sel_split (A B : List (Segment F T)) (s : Segment F T) (x : F)
    (hA : ∀ a ∈ A, lt x a.end = false) (hs : lt x s.end = true ∨ B = []) :
    selSeg (A ++ s :: B) x = some s := by
  rcases hs with hs | hB
  · exact sel_interior A B s x hA hs
  · subst hB
    by_cases h : lt x s.end = true
    · exact sel_interior A [] s x hA h
    · have h' : lt x s.end = false := by simpa using h
      rw [last_of_none]
      · simp
      · intro q hq
        rcases List.mem_append.mp hq with hq | hq
        · exact hA q hq
        · simp at hq; subst hq; exact h'

def NN (l : List (Segment F T)) : Prop := ∀ s ∈ l, isNaN s.end = false
def Sorted (l : List (Segment F T)) : Prop := l.Pairwise (fun a b => key a.end ≤ key b.end)

theorem fwd_spec (pre tl : List (Segment F T)) (x : F) (hx : isNaN x = false) (hnn : NN tl) :
    (evFwd pre tl x).1.reverse ++ (evFwd pre tl x).2 = pre.reverse ++ tl ∧
    (∀ p ∈ (evFwd pre tl x).1, p ∈ pre ∨ key p.end ≤ key x) ∧
    (∀ t, (evFwd pre tl x).2.head? = some t → key x < key t.end) ∧
    (∃ k, (evFwd pre tl x).2 = tl.drop k) := by
  induction tl generalizing pre with
  | nil =>
    refine ⟨by simp [evFwd], ?_, by simp [evFwd], ⟨0, by simp [evFwd]⟩⟩
    intro p hp; exact Or.inl (by simpa [evFwd] using hp)
  | cons t ts ih =>
    have htn : isNaN t.end = false := hnn t (by simp)
    by_cases h : lt x t.end = true
    · simp only [evFwd, h, if_true]
      refine ⟨trivial, fun p hp => Or.inl hp, ?_, ⟨0, rfl⟩⟩
      intro t' ht'; simp at ht'; subst ht'
      exact (lt_iff hx htn).mp h
    · have h' : lt x t.end = false := by simpa using h
      have hk : key t.end ≤ key x := (lt_false_iff hx htn).mp h'
      simp only [evFwd, h', Bool.false_eq_true, if_false]
      obtain ⟨i1, i2, i3, ⟨k, i4⟩⟩ := ih (t :: pre) (fun s hs => hnn s (by simp [hs]))
      refine ⟨?_, ?_, i3, ⟨k + 1, ?_⟩⟩
      · rw [i1]; simp
      · intro p hp
        rcases i2 p hp with hq | hq
        · rcases List.mem_cons.mp hq with rfl | hq
          · exact Or.inr hk
          · exact Or.inl hq
        · exact Or.inr hq
      · rw [i4]; simp

theorem bwd_spec (pre tl : List (Segment F T)) (x : F) (hx : isNaN x = false)
    (hnn : NN pre) (hs : Sorted (pre.reverse ++ tl)) (htl : ∀ t ∈ tl, key x < key t.end) :
    (evBwd pre tl x).1.reverse ++ (evBwd pre tl x).2 = pre.reverse ++ tl ∧
    (∀ p ∈ (evBwd pre tl x).1, key p.end ≤ key x) ∧
    (∀ t ∈ (evBwd pre tl x).2, key x < key t.end) := by
  induction pre generalizing tl with
  | nil => simp [evBwd]; exact htl
  | cons p ps ih =>
    have hpn : isNaN p.end = false := hnn p (by simp)
    by_cases h : le p.end x = true
    · simp only [evBwd, h, if_true]
      refine ⟨trivial, ?_, htl⟩
      have hk : key p.end ≤ key x := (le_iff hpn hx).mp h
      intro q hq
      rcases List.mem_cons.mp hq with rfl | hq
      · exact hk
      · have : key q.end ≤ key p.end := by
          unfold Sorted at hs
          simp only [List.reverse_cons, List.append_assoc, List.singleton_append] at hs
          rw [List.pairwise_append] at hs
          exact hs.2.2 q (by simpa using hq) p (by simp)
        exact Int.le_trans this hk
    · have h' : le p.end x = false := by simpa using h
      have hk : key x < key p.end := (le_false_iff hpn hx).mp h'
      simp only [evBwd, h', Bool.false_eq_true, if_false]
      have hs' : Sorted (ps.reverse ++ (p :: tl)) := by
        unfold Sorted at hs ⊢; simpa using hs
      obtain ⟨i1, i2, i3⟩ := ih (p :: tl) (fun s hs => hnn s (by simp [hs])) hs'
        (by intro t ht; rcases List.mem_cons.mp ht with rfl | ht; exact hk; exact htl t ht)
      refine ⟨?_, i2, i3⟩
      rw [i1]; simp

end PP.Lemmas.Evaluator
