import PP.Lemmas.Round
import PP.Lemmas.F64Algebra
/-!
# The soft-float operations satisfy the standard model of floating-point arithmetic

* `F64.val`, `F64.Finite`, `F64.Canon`, `F64.Normal`;
* `F64.round r zs` — the correctly rounded binary64 of the rational `r` (an exact zero gets the sign `zs`), and
  the theorems that every arithmetic operation on finite operands *is* `round` of its exact rational result
  (`add_eq_round`, `sub_eq_round`, `mul_eq_round`, `div_eq_round`, `fma_eq_round`, `ofDec_eq_round`);
* `StdModel r x` — what the standard model says about the computed `x` for the exact `r`; `round_std`;
  hence `add_std`, `sub_std`, `mul_std`, `div_std`, `fma_std`, `ofDec_std`;
* exactness: `round_repr` (representable values round to themselves) and its corollaries.
-/
namespace F64

/-! ## values -/

/-- the sign factor -/
def sgn (s : Bool) : ℚ := if s then -1 else 1

@[simp] theorem sgn_true : sgn true = -1 := rfl
@[simp] theorem sgn_false : sgn false = 1 := rfl
theorem sgn_mul_sgn (s t : Bool) : sgn s * sgn t = sgn (s != t) := by cases s <;> cases t <;> simp
theorem sgn_not (s : Bool) : sgn (!s) = -sgn s := by cases s <;> simp
theorem sgn_ne_zero (s : Bool) : sgn s ≠ 0 := by cases s <;> simp
theorem abs_sgn (s : Bool) : |sgn s| = 1 := by cases s <;> simp
theorem sgn_mul_self (s : Bool) : sgn s * sgn s = 1 := by cases s <;> simp
theorem sgn_inv (s : Bool) : (sgn s)⁻¹ = sgn s := by cases s <;> simp

theorem decide_sgn_mul_neg (neg : Bool) {v : ℚ} (hv : 0 < v) : decide (sgn neg * v < 0) = neg := by
  cases neg
  · exact decide_eq_false (by rw [sgn_false, one_mul]; exact not_lt.mpr hv.le)
  · exact decide_eq_true (by rw [sgn_true]; linarith)

/-- the value of a soft-float as a rational; `0` on NaN and the infinities -/
def val : F64 → ℚ
  | fin s m e => sgn s * (m : ℚ) * (2:ℚ) ^ e
  | _ => 0

def Finite : F64 → Prop
  | fin _ _ _ => True
  | _ => False

/-- the canonical-form invariant of `PP/Core/F64.lean` (vacuous on NaN and the infinities) -/
def Canon : F64 → Prop
  | fin _ m e => -1074 ≤ e ∧ m < 2 ^ 53 ∧ (2 ^ 52 ≤ m ∨ e = -1074) ∧ e ≤ 971
  | _ => True

/-- finite, canonical, with a 53-bit significand: `2^-1022 ≤ |val|` -/
def Normal : F64 → Prop
  | fin _ m e => -1074 ≤ e ∧ m < 2 ^ 53 ∧ 2 ^ 52 ≤ m ∧ e ≤ 971
  | _ => False

theorem Normal.finite {a : F64} (h : Normal a) : Finite a := by cases a <;> trivial
theorem Normal.canon {a : F64} (h : Normal a) : Canon a := by
  cases a with
  | fin s m e => exact ⟨h.1, h.2.1, Or.inl h.2.2.1, h.2.2.2⟩
  | _ => trivial

@[simp] theorem val_nan : val nan = 0 := rfl
@[simp] theorem val_inf (s : Bool) : val (inf s) = 0 := rfl
theorem val_fin (s : Bool) (m : Nat) (e : Int) : val (fin s m e) = sgn s * (m : ℚ) * (2:ℚ) ^ e := rfl
@[simp] theorem val_zero (s : Bool) : val (zero s) = 0 := by simp [zero, val]
theorem canon_zero (s : Bool) : Canon (zero s) := by simp [zero, Canon]
theorem finite_zero (s : Bool) : Finite (zero s) := trivial

theorem val_neg (a : F64) : val (neg a) = -val a := by
  cases a <;> simp [neg, val, sgn_not]

theorem val_abs (a : F64) : val (abs a) = |val a| := by
  cases a with
  | fin s m e =>
    simp only [abs, val, abs_mul, abs_sgn, sgn_false]
    rw [abs_of_nonneg (by positivity : (0:ℚ) ≤ (m:ℚ)), abs_of_pos (by positivity : (0:ℚ) < (2:ℚ)^e)]
  | _ => simp [abs, val]

theorem finite_neg {a : F64} (h : Finite a) : Finite (neg a) := by cases a <;> trivial
theorem canon_neg {a : F64} (h : Canon a) : Canon (neg a) := by cases a <;> exact h
theorem finite_abs {a : F64} (h : Finite a) : Finite (abs a) := by cases a <;> trivial
theorem canon_abs {a : F64} (h : Canon a) : Canon (abs a) := by cases a <;> exact h

/-- a normal number has magnitude at least `2^-1022` -/
theorem Normal.le_abs_val {a : F64} (h : Normal a) : (2:ℚ) ^ (-1022 : Int) ≤ |val a| := by
  cases a with
  | fin s m e =>
    obtain ⟨he, _, hm, _⟩ := h
    rw [val_fin, abs_mul, abs_mul, abs_sgn, one_mul,
      abs_of_nonneg (by positivity : (0:ℚ) ≤ (m:ℚ)), abs_of_pos (by positivity : (0:ℚ) < (2:ℚ)^e)]
    have h1 : (2:ℚ)^(52:Int) ≤ (m:ℚ) := by
      have : ((2^52 : Nat) : ℚ) ≤ (m:ℚ) := by exact_mod_cast hm
      rw [zpow_ofNat]; push_cast at this; exact this
    have h2 : (2:ℚ)^(-1074:Int) ≤ (2:ℚ)^e := zpow_le_zpow_right₀ (by norm_num) he
    calc (2:ℚ) ^ (-1022 : Int) = (2:ℚ)^(52:Int) * (2:ℚ)^(-1074:Int) := by
          rw [← zpow_add₀ (by norm_num : (2:ℚ) ≠ 0)]; norm_num
      _ ≤ (m:ℚ) * (2:ℚ)^e := mul_le_mul h1 h2 (by positivity) (by positivity)
  | _ => exact h.elim

/-- conversely: a finite canonical number of magnitude at least `2^-1022` is normal -/
theorem normal_of_le_abs_val {a : F64} (hf : Finite a) (hc : Canon a)
    (h : (2:ℚ) ^ (-1022 : Int) ≤ |val a|) : Normal a := by
  cases a with
  | fin s m e =>
    obtain ⟨h1, h2, h3, h4⟩ := hc
    refine ⟨h1, h2, ?_, h4⟩
    rcases h3 with h3 | h3
    · exact h3
    · by_contra hm
      have hm' : m < 2 ^ 52 := Nat.lt_of_not_le hm
      rw [val_fin, abs_mul, abs_mul, abs_sgn, one_mul,
        abs_of_nonneg (by positivity : (0:ℚ) ≤ (m:ℚ)), abs_of_pos (by positivity : (0:ℚ) < (2:ℚ)^e), h3] at h
      have hmq : (m:ℚ) < (2:ℚ)^(52:Int) := by
        have : (m:ℚ) < ((2^52 : Nat) : ℚ) := by exact_mod_cast hm'
        rw [zpow_ofNat]; push_cast at this; exact this
      have : (m:ℚ) * (2:ℚ)^(-1074:Int) < (2:ℚ) ^ (-1022 : Int) := by
        calc (m:ℚ) * (2:ℚ)^(-1074:Int) < (2:ℚ)^(52:Int) * (2:ℚ)^(-1074:Int) :=
              mul_lt_mul_of_pos_right hmq (zpow_pos (by norm_num) _)
          _ = (2:ℚ) ^ (-1022 : Int) := by rw [← zpow_add₀ (by norm_num : (2:ℚ) ≠ 0)]; norm_num
      exact absurd h (not_le.mpr this)
  | _ => exact hf.elim

/-! ## powers of two -/

theorem two_pow_toNat (k : Int) (hk : 0 ≤ k) : ((2 ^ k.toNat : Nat) : ℚ) = (2:ℚ) ^ k := by
  have ht : ((k.toNat : Nat) : Int) = k := Int.toNat_of_nonneg hk
  conv_rhs => rw [← ht]
  push_cast; rw [zpow_natCast]

theorem two_pow_toNat_int (k : Int) (hk : 0 ≤ k) : (((2:Int) ^ k.toNat : Int) : ℚ) = (2:ℚ) ^ k := by
  have ht : ((k.toNat : Nat) : Int) = k := Int.toNat_of_nonneg hk
  conv_rhs => rw [← ht]
  push_cast; rw [zpow_natCast]

theorem sInt_cast (s : Bool) (m : Nat) : ((sInt s m : Int) : ℚ) = sgn s * (m : ℚ) := by
  cases s <;> simp [sInt]

/-! ## `pack` -/

theorem pack_carry (neg : Bool) (e : Int) :
    pack neg (2 ^ 53) e = if e + 1 > 971 then inf neg else fin neg (2 ^ 52) (e + 1) := by
  unfold pack; rw [if_pos rfl]

theorem pack_nocarry (neg : Bool) (q : Nat) (e : Int) (h : q ≠ 2 ^ 53) :
    pack neg q e = if e > 971 then inf neg else fin neg q e := by
  unfold pack; rw [if_neg h]

theorem pack_spec (neg : Bool) (q : Nat) (e : Int) (hq : q ≤ 2 ^ 53) (he : -1074 ≤ e)
    (hc : 2 ^ 52 ≤ q ∨ e = -1074) :
    (pack neg q e = inf neg ∧ (2:ℚ) ^ (1024:Int) ≤ (q:ℚ) * (2:ℚ) ^ e) ∨
    (∃ q' e', pack neg q e = fin neg q' e' ∧ Canon (fin neg q' e') ∧
        (q':ℚ) * (2:ℚ) ^ e' = (q:ℚ) * (2:ℚ) ^ e ∧ (2 ^ 52 ≤ q → 2 ^ 52 ≤ q') ∧
        (q:ℚ) * (2:ℚ) ^ e < (2:ℚ) ^ (1024:Int)) := by
  have two_ne : (2:ℚ) ≠ 0 := by norm_num
  have c52 : ((2^52 : Nat) : ℚ) = (2:ℚ)^(52:Int) := by norm_num
  have c53 : ((2^53 : Nat) : ℚ) = (2:ℚ)^(53:Int) := by norm_num
  by_cases hcarry : q = 2 ^ 53
  · subst hcarry
    have hval : ((2^52 : Nat):ℚ) * (2:ℚ) ^ (e+1) = ((2^53 : Nat):ℚ) * (2:ℚ) ^ e := by
      rw [c52, c53, ← zpow_add₀ two_ne, ← zpow_add₀ two_ne]; congr 1; ring
    by_cases hov : e + 1 > 971
    · left
      refine ⟨by rw [pack_carry, if_pos hov], ?_⟩
      rw [c53, ← zpow_add₀ two_ne]
      exact zpow_le_zpow_right₀ (by norm_num) (by omega)
    · right
      refine ⟨2^52, e+1, by rw [pack_carry, if_neg hov], ⟨by omega, by norm_num, Or.inl (le_refl _), by omega⟩,
        hval, fun _ => le_refl _, ?_⟩
      rw [c53, ← zpow_add₀ two_ne]
      exact zpow_lt_zpow_right₀ (by norm_num) (by omega)
  · have hq' : q < 2 ^ 53 := lt_of_le_of_ne hq hcarry
    by_cases hov : e > 971
    · left
      refine ⟨by rw [pack_nocarry _ _ _ hcarry, if_pos hov], ?_⟩
      have h52 : 2 ^ 52 ≤ q := by
        rcases hc with h | h
        · exact h
        · omega
      have h1 : (2:ℚ)^(52:Int) ≤ (q:ℚ) := by rw [← c52]; exact_mod_cast h52
      have h2 : (2:ℚ)^(972:Int) ≤ (2:ℚ)^e := zpow_le_zpow_right₀ (by norm_num) (by omega)
      calc (2:ℚ)^(1024:Int) = (2:ℚ)^(52:Int) * (2:ℚ)^(972:Int) := by
            rw [← zpow_add₀ two_ne]; norm_num
        _ ≤ (q:ℚ) * (2:ℚ)^e := mul_le_mul h1 h2 (by positivity) (by positivity)
    · right
      refine ⟨q, e, by rw [pack_nocarry _ _ _ hcarry, if_neg hov], ⟨he, hq', hc, by omega⟩, rfl, fun h => h, ?_⟩
      have h1 : (q:ℚ) < (2:ℚ)^(53:Int) := by rw [← c53]; exact_mod_cast hq'
      have h2 : (2:ℚ)^e ≤ (2:ℚ)^(971:Int) := zpow_le_zpow_right₀ (by norm_num) (by omega)
      calc (q:ℚ) * (2:ℚ)^e ≤ (q:ℚ) * (2:ℚ)^(971:Int) := mul_le_mul_of_nonneg_left h2 (Nat.cast_nonneg q)
        _ < (2:ℚ)^(53:Int) * (2:ℚ)^(971:Int) := mul_lt_mul_of_pos_right h1 (zpow_pos (by norm_num) _)
        _ = (2:ℚ)^(1024:Int) := by rw [← zpow_add₀ two_ne]; norm_num

/-- `pack` of a canonical pair is the identity -/
theorem pack_canon (neg : Bool) (m : Nat) (e : Int) (h : Canon (fin neg m e)) : pack neg m e = fin neg m e := by
  obtain ⟨_, hm, _, he⟩ := h
  have h1 : m ≠ 2 ^ 53 := by omega
  have h2 : ¬ e > 971 := by omega
  rw [pack_nocarry _ _ _ h1, if_neg h2]

/-! ## `round`: the correctly rounded binary64 of a rational -/

/-- the binary64 nearest to `r` (ties to even; overflow to `inf`); an exact zero gets the sign `zs` -/
def round (r : ℚ) (zs : Bool) : F64 :=
  if r = 0 then zero zs else roundRatio (decide (r < 0)) r.num.natAbs r.den

@[simp] theorem round_zero (zs : Bool) : round 0 zs = zero zs := by simp [round]

theorem round_zs {r : ℚ} (hr : r ≠ 0) (zs zs' : Bool) : round r zs = round r zs' := by
  simp [round, hr]

theorem roundRatio_congr (neg : Bool) (n d n' d' : Nat) (hd : 0 < d) (hd' : 0 < d')
    (h : (n:ℚ) / d = (n':ℚ) / d') : roundRatio neg n d = roundRatio neg n' d' := by
  have hx := cross_of_ratio_eq n d n' d' hd hd' h
  unfold roundRatio
  by_cases hn : n = 0
  · have hn' : n' = 0 := by
      subst hn
      rcases Nat.mul_eq_zero.mp (by simpa using hx.symm) with h | h
      · exact h
      · omega
    rw [if_pos hn, if_pos hn']
  · have hn' : n' ≠ 0 := by
      intro h0; subst h0
      rcases Nat.mul_eq_zero.mp (by simpa using hx) with h | h
      · exact hn h
      · omega
    rw [if_neg hn, if_neg hn', roundPos_congr n d n' d' (by omega) hd (by omega) hd' h]

/-- `roundRatio` is `round` of the signed ratio -/
theorem roundRatio_eq_round (neg : Bool) (n d : Nat) (hd : 0 < d) :
    roundRatio neg n d = round (sgn neg * ((n:ℚ) / d)) neg := by
  by_cases hn : n = 0
  · subst hn; simp [roundRatio]
  · have hnpos : 0 < n := by omega
    have hv : (0:ℚ) < (n:ℚ) / d := by
      have : (0:ℚ) < n := by exact_mod_cast hnpos
      have : (0:ℚ) < d := by exact_mod_cast hd
      positivity
    set t : ℚ := sgn neg * ((n:ℚ) / d) with ht
    have habs : |t| = (n:ℚ)/d := by rw [ht, abs_mul, abs_of_pos hv, abs_sgn, one_mul]
    have ht0 : t ≠ 0 := by
      intro h; rw [h] at habs; simp at habs; linarith
    have hsign : decide (t < 0) = neg := by
      cases neg
      · simp only [decide_eq_false_iff_not, not_lt, ht, sgn_false, one_mul]; exact hv.le
      · simp only [decide_eq_true_eq, ht, sgn_true]; linarith
    unfold round
    rw [if_neg ht0, hsign]
    exact roundRatio_congr neg _ _ _ _ hd t.den_pos (by rw [← abs_eq_natAbs_div_den, habs])

theorem roundDyadic_eq_round (z : Int) (e : Int) (zs : Bool) :
    roundDyadic z e zs = round ((z:ℚ) * (2:ℚ) ^ e) zs := by
  by_cases hz : z = 0
  · subst hz; simp [roundDyadic]
  · have hzq : (z:ℚ) ≠ 0 := by exact_mod_cast hz
    have hr : (z:ℚ) * (2:ℚ) ^ e ≠ 0 := mul_ne_zero hzq (by positivity)
    have habs : sgn (decide (z < 0)) * (z.natAbs : ℚ) = (z:ℚ) := by
      rcases lt_or_gt_of_ne hz with h | h
      · have hc : ((z.natAbs : Nat) : ℚ) = -(z:ℚ) := by
          rw [Nat.cast_natAbs, Int.cast_abs, abs_of_neg (by exact_mod_cast h)]
        simp [h, hc]
      · have hc : ((z.natAbs : Nat) : ℚ) = (z:ℚ) := by
          rw [Nat.cast_natAbs, Int.cast_abs, abs_of_pos (by exact_mod_cast h)]
        have h' : ¬ z < 0 := by omega
        simp [h', hc]
    unfold roundDyadic
    rw [if_neg hz]
    simp only []
    split
    · rename_i he
      rw [roundRatio_eq_round _ _ _ Nat.one_pos, round_zs _ _ zs]
      · congr 1
        push_cast
        rw [← zpow_natCast, Int.toNat_of_nonneg he, ← habs]; ring
      · rw [Nat.cast_one, div_one]
        refine mul_ne_zero (sgn_ne_zero _) ?_
        have : 0 < z.natAbs * 2 ^ e.toNat := Nat.mul_pos (Int.natAbs_pos.mpr hz) (by positivity)
        exact_mod_cast this.ne'
    · rename_i he
      have he' : 0 ≤ -e := by omega
      rw [roundRatio_eq_round _ _ _ (by positivity), round_zs _ _ zs]
      · congr 1
        rw [two_pow_toNat _ he', zpow_neg, ← habs]; field_simp
      · refine mul_ne_zero (sgn_ne_zero _) (div_ne_zero ?_ ?_)
        · exact_mod_cast (Int.natAbs_pos.mpr hz).ne'
        · positivity

/-! ## every operation on finite operands is `round` of its exact result -/

theorem pow_toNat_mul (e g : Int) (h : g ≤ e) : (2:ℚ) ^ (e - g).toNat * (2:ℚ) ^ g = (2:ℚ) ^ e := by
  rw [← zpow_natCast, Int.toNat_of_nonneg (by omega), ← zpow_add₀ (by norm_num : (2:ℚ) ≠ 0)]
  congr 1; ring

theorem add_fin (s : Bool) (m : Nat) (e : Int) (t : Bool) (n : Nat) (f : Int) :
    add (fin s m e) (fin t n f)
      = round (val (fin s m e) + val (fin t n f)) (decide (m = 0) && decide (n = 0) && s && t) := by
  show roundDyadic _ _ _ = _
  rw [roundDyadic_eq_round]
  congr 1
  push_cast
  rw [sInt_cast, sInt_cast, val_fin, val_fin, add_mul]
  congr 1
  · rw [mul_assoc, pow_toNat_mul e (min e f) (min_le_left e f)]
  · rw [mul_assoc, pow_toNat_mul f (min e f) (min_le_right e f)]

theorem mul_fin (s : Bool) (m : Nat) (e : Int) (t : Bool) (n : Nat) (f : Int) :
    mul (fin s m e) (fin t n f) = round (val (fin s m e) * val (fin t n f)) (s != t) := by
  show roundDyadic _ _ _ = _
  rw [roundDyadic_eq_round]
  congr 1
  rw [sInt_cast, val_fin, val_fin, ← sgn_mul_sgn, zpow_add₀ (by norm_num : (2:ℚ) ≠ 0)]
  push_cast; ring

theorem fma_fin (s : Bool) (m : Nat) (e : Int) (t : Bool) (n : Nat) (f : Int) (r : Bool) (p : Nat) (h : Int) :
    fma (fin s m e) (fin t n f) (fin r p h)
      = round (val (fin s m e) * val (fin t n f) + val (fin r p h))
          (decide (m * n = 0) && decide (p = 0) && (s != t) && r) := by
  show roundDyadic _ _ _ = _
  rw [roundDyadic_eq_round]
  congr 1
  push_cast
  rw [sInt_cast, sInt_cast, val_fin, val_fin, val_fin, add_mul]
  congr 1
  · rw [mul_assoc, pow_toNat_mul (e + f) (min (e + f) h) (min_le_left _ _), ← sgn_mul_sgn,
      zpow_add₀ (by norm_num : (2:ℚ) ≠ 0)]
    push_cast; ring
  · rw [mul_assoc, pow_toNat_mul h (min (e + f) h) (min_le_right _ _)]

theorem div_fin (s : Bool) (m : Nat) (e : Int) (t : Bool) (n : Nat) (f : Int) (hn : n ≠ 0) :
    div (fin s m e) (fin t n f) = round (val (fin s m e) / val (fin t n f)) (s != t) := by
  have two_ne : (2:ℚ) ≠ 0 := by norm_num
  have hnq : (n:ℚ) ≠ 0 := by exact_mod_cast hn
  have hval : val (fin s m e) / val (fin t n f) = sgn (s != t) * ((m:ℚ) / n * (2:ℚ)^(e - f)) := by
    rw [val_fin, val_fin, ← sgn_mul_sgn, zpow_sub₀ two_ne]
    have := sgn_ne_zero t
    have h2 := sgn_mul_self t
    field_simp
    have h3 : sgn t ^ 2 = 1 := by rw [pow_two, h2]
    rw [h3, mul_one]
  unfold div
  simp only [if_neg hn]
  by_cases hm : m = 0
  · subst hm
    simp [val_fin]
  · rw [if_neg hm, hval]
    have hnpos : 0 < n := by omega
    split
    · rename_i hk
      rw [roundRatio_eq_round _ _ _ hnpos]
      congr 2
      push_cast
      rw [← zpow_natCast, Int.toNat_of_nonneg hk]; ring
    · rename_i hk
      have hk' : 0 ≤ -(e - f) := by omega
      rw [roundRatio_eq_round _ _ _ (by positivity)]
      congr 2
      push_cast
      rw [← zpow_natCast, Int.toNat_of_nonneg hk', zpow_neg]; field_simp

theorem ofDec_eq_round (m : Int) (e : Int) :
    ofDec m e = round ((m:ℚ) * (10:ℚ) ^ e) (decide (m < 0)) := by
  have habs : sgn (decide (m < 0)) * (m.natAbs : ℚ) = (m:ℚ) := by
    have hc : ((m.natAbs : Nat) : ℚ) = |(m:ℚ)| := by rw [Nat.cast_natAbs, Int.cast_abs]
    rcases lt_trichotomy m 0 with h | h | h
    · rw [hc, abs_of_neg (by exact_mod_cast h)]; simp [h]
    · subst h; simp
    · have h' : ¬ m < 0 := by omega
      rw [hc, abs_of_pos (by exact_mod_cast h)]; simp [h']
  unfold ofDec
  simp only []
  split
  · rename_i he
    rw [roundRatio_eq_round _ _ _ Nat.one_pos]
    congr 1
    push_cast
    rw [← zpow_natCast, Int.toNat_of_nonneg he, ← habs]; ring
  · rename_i he
    have he' : 0 ≤ -e := by omega
    rw [roundRatio_eq_round _ _ _ (by positivity)]
    congr 1
    push_cast
    rw [← zpow_natCast, Int.toNat_of_nonneg he', zpow_neg, ← habs]; field_simp

/-- addition of finite operands is the correctly rounded exact sum -/
theorem add_eq_round {a b : F64} (ha : Finite a) (hb : Finite b) :
    ∃ zs, add a b = round (val a + val b) zs := by
  cases a <;> cases b <;> first | exact ha.elim | exact hb.elim | exact ⟨_, add_fin _ _ _ _ _ _⟩

theorem sub_eq_round {a b : F64} (ha : Finite a) (hb : Finite b) :
    ∃ zs, sub a b = round (val a - val b) zs := by
  obtain ⟨zs, h⟩ := add_eq_round ha (finite_neg hb)
  exact ⟨zs, by rw [sub, h, val_neg, sub_eq_add_neg]⟩

theorem mul_eq_round {a b : F64} (ha : Finite a) (hb : Finite b) :
    ∃ zs, mul a b = round (val a * val b) zs := by
  cases a <;> cases b <;> first | exact ha.elim | exact hb.elim | exact ⟨_, mul_fin _ _ _ _ _ _⟩

theorem fma_eq_round {a b c : F64} (ha : Finite a) (hb : Finite b) (hc : Finite c) :
    ∃ zs, fma a b c = round (val a * val b + val c) zs := by
  cases a <;> cases b <;> cases c <;>
    first | exact ha.elim | exact hb.elim | exact hc.elim | exact ⟨_, fma_fin _ _ _ _ _ _ _ _ _⟩

theorem val_eq_zero_iff {s : Bool} {m : Nat} {e : Int} : val (fin s m e) = 0 ↔ m = 0 := by
  rw [val_fin]
  constructor
  · intro h
    rcases mul_eq_zero.mp h with h | h
    · rcases mul_eq_zero.mp h with h | h
      · exact absurd h (sgn_ne_zero s)
      · exact_mod_cast h
    · exact absurd h (by positivity)
  · rintro rfl; simp

theorem div_eq_round {a b : F64} (ha : Finite a) (hb : Finite b) (hb0 : val b ≠ 0) :
    ∃ zs, div a b = round (val a / val b) zs := by
  cases a <;> cases b <;> first | exact ha.elim | exact hb.elim | skip
  rename_i s m e t n f
  exact ⟨_, div_fin s m e t n f (fun h => hb0 (val_eq_zero_iff.mpr h))⟩

/-! ## the standard model for `round` -/

theorem round_eq_pack {r : ℚ} (hr : r ≠ 0) (zs : Bool) :
    round r zs = pack (decide (r < 0)) (roundPos r.num.natAbs r.den).1 (roundPos r.num.natAbs r.den).2 := by
  have hn : r.num.natAbs ≠ 0 := (natAbs_num_pos hr).ne'
  unfold round roundRatio
  rw [if_neg hr, if_neg hn]

/-- closure: the result of a rounding is in canonical form (or an infinity) -/
theorem round_canon (r : ℚ) (zs : Bool) : Canon (round r zs) := by
  by_cases hr : r = 0
  · subst hr; rw [round_zero]; exact canon_zero zs
  · rw [round_eq_pack hr]
    obtain ⟨h1, h2, h3⟩ := roundPos_bounds r.num.natAbs r.den (natAbs_num_pos hr) r.den_pos
    rcases pack_spec (decide (r < 0)) _ _ h1 h2 h3 with ⟨h, _⟩ | ⟨q', e', h, hc, _⟩
    · rw [h]; trivial
    · rw [h]; exact hc

/-- the rounding of a non-zero rational is not NaN and has the sign of the rational -/
theorem round_sign {r : ℚ} (hr : r ≠ 0) (zs : Bool) :
    round r zs = inf (decide (r < 0)) ∨ ∃ q e, round r zs = fin (decide (r < 0)) q e := by
  rw [round_eq_pack hr]
  obtain ⟨h1, h2, h3⟩ := roundPos_bounds r.num.natAbs r.den (natAbs_num_pos hr) r.den_pos
  rcases pack_spec (decide (r < 0)) _ _ h1 h2 h3 with ⟨h, _⟩ | ⟨q', e', h, _⟩
  · exact Or.inl h
  · exact Or.inr ⟨q', e', h⟩

/-- on the normal range: either overflow, or a normal number whose value is `rnd64 r` -/
theorem round_normal_cases {r : ℚ} (hr : (2:ℚ) ^ (-1022:Int) ≤ |r|) (zs : Bool) :
    (round r zs = inf (decide (r < 0)) ∧ (2:ℚ) ^ (1024:Int) ≤ |rnd64 r|) ∨
    (Normal (round r zs) ∧ val (round r zs) = rnd64 r ∧ |rnd64 r| < (2:ℚ) ^ (1024:Int)) := by
  have hr0 : r ≠ 0 := by
    rintro rfl
    have : (0:ℚ) < (2:ℚ) ^ (-1022:Int) := by positivity
    rw [abs_zero] at hr; exact absurd hr (not_le.mpr this)
  have hn := natAbs_num_pos hr0
  have hd := r.den_pos
  rw [abs_eq_natAbs_div_den] at hr
  have hnorm := flr_of_normal _ _ hn hd hr
  rw [round_eq_pack hr0, abs_rnd64 r hr0, ← roundPos_eq_U _ _ hnorm]
  obtain ⟨h1, h2, h3⟩ := roundPos_bounds r.num.natAbs r.den hn hd
  have h52 := roundPos_normal _ _ hn hd hnorm
  rcases pack_spec (decide (r < 0)) _ _ h1 h2 h3 with ⟨h, hov⟩ | ⟨q', e', h, hc, hv, hq, hlt⟩
  · exact Or.inl ⟨h, hov⟩
  · right
    refine ⟨?_, ?_, hlt⟩
    · rw [h]; exact ⟨hc.1, hc.2.1, hq h52, hc.2.2.2⟩
    · rw [h, val_fin, mul_assoc, hv]
      unfold rnd64
      rw [if_neg hr0, ← roundPos_eq_U _ _ hnorm]
      by_cases hneg : r < 0 <;> simp [hneg]

/-- what the standard model of floating-point arithmetic asserts about the computed result `x` of an
operation whose exact (infinitely precise) result is `r` -/
structure StdModel (r : ℚ) (x : F64) : Prop where
  /-- closure: canonical form -/
  canon : Canon x
  /-- an exact zero gives a signed zero -/
  zero : r = 0 → ∃ s, x = F64.zero s
  /-- on the normal range a finite result is the idealised rounding of `r` -/
  fin : (2:ℚ) ^ (-1022:Int) ≤ |r| → Finite x → Normal x ∧ val x = rnd64 r
  /-- on the normal range the result is finite iff the idealised rounding is below `2^1024` -/
  finite_iff : (2:ℚ) ^ (-1022:Int) ≤ |r| → (Finite x ↔ |rnd64 r| < (2:ℚ) ^ (1024:Int))
  /-- otherwise it is the infinity with the sign of `r` -/
  overflow : (2:ℚ) ^ (-1022:Int) ≤ |r| → ¬ Finite x → x = inf (decide (r < 0))

theorem round_std (r : ℚ) (zs : Bool) : StdModel r (round r zs) where
  canon := round_canon r zs
  zero := fun h => ⟨zs, by rw [h, round_zero]⟩
  fin := fun hr hf => by
    rcases round_normal_cases hr zs with ⟨h, _⟩ | ⟨h1, h2, _⟩
    · rw [h] at hf; exact hf.elim
    · exact ⟨h1, h2⟩
  finite_iff := fun hr => by
    rcases round_normal_cases hr zs with ⟨h, hov⟩ | ⟨h1, _, h3⟩
    · rw [h]; exact ⟨fun hf => hf.elim, fun hlt => absurd hov (not_le.mpr hlt)⟩
    · exact ⟨fun _ => h3, fun _ => h1.finite⟩
  overflow := fun hr hf => by
    rcases round_normal_cases hr zs with ⟨h, _⟩ | ⟨h1, _, _⟩
    · exact h
    · exact absurd h1.finite hf

namespace StdModel
variable {r : ℚ} {x : F64}

/-- the relative-error form: `|val x − r| ≤ 2⁻⁵³·|r|` -/
theorem rel (h : StdModel r x) (hr : (2:ℚ) ^ (-1022:Int) ≤ |r|) (hf : Finite x) :
    |val x - r| ≤ (2:ℚ) ^ (-53:Int) * |r| := by
  rw [(h.fin hr hf).2]; exact rnd64_rel r

/-- an exact zero result has value `0`, is finite and canonical -/
theorem val_of_zero (h : StdModel r x) (hr : r = 0) : Finite x ∧ Canon x ∧ val x = 0 := by
  obtain ⟨s, hs⟩ := h.zero hr
  rw [hs]; exact ⟨finite_zero s, canon_zero s, val_zero s⟩

/-- below the overflow threshold the result is a normal number -/
theorem normal (h : StdModel r x) (hr : (2:ℚ) ^ (-1022:Int) ≤ |r|)
    (hhi : |r| < (2:ℚ) ^ (1024:Int) * (1 - (2:ℚ) ^ (-54:Int))) :
    Normal x ∧ val x = rnd64 r ∧ |val x - r| ≤ (2:ℚ) ^ (-53:Int) * |r| := by
  have hf : Finite x := (h.finite_iff hr).mpr (abs_rnd64_lt r hhi)
  exact ⟨(h.fin hr hf).1, (h.fin hr hf).2, h.rel hr hf⟩

/-- the four clauses together, in the form quoted by `PP/Props/IEEE.lean` -/
theorem clauses (h : StdModel r x) :
    Canon x ∧
    (r = 0 → ∃ s, x = F64.zero s) ∧
    ((2:ℚ) ^ (-1022:Int) ≤ |r| → |r| < (2:ℚ) ^ (1024:Int) * (1 - (2:ℚ) ^ (-54:Int)) →
        Normal x ∧ val x = rnd64 r ∧ |val x - r| ≤ (2:ℚ) ^ (-53:Int) * |r|) ∧
    ((2:ℚ) ^ (-1022:Int) ≤ |r| → Finite x →
        Normal x ∧ val x = rnd64 r ∧ |val x - r| ≤ (2:ℚ) ^ (-53:Int) * |r|) :=
  ⟨h.canon, h.zero, h.normal, fun hr hf => ⟨(h.fin hr hf).1, (h.fin hr hf).2, h.rel hr hf⟩⟩

end StdModel

/-- the range side condition of the standard model: the exact result is `0`, or has its magnitude in
`[2^-1022, 2^1024·(1 − 2⁻⁵⁴))` (no underflow, no overflow) -/
def InRange (r : ℚ) : Prop :=
  r = 0 ∨ ((2:ℚ) ^ (-1022:Int) ≤ |r| ∧ |r| < (2:ℚ) ^ (1024:Int) * (1 - (2:ℚ) ^ (-54:Int)))

theorem StdModel.of_inRange {r : ℚ} {x : F64} (h : StdModel r x) (hr : InRange r) :
    Finite x ∧ Canon x ∧ val x = rnd64 r := by
  rcases hr with h0 | ⟨h1, h2⟩
  · obtain ⟨a, b, c⟩ := h.val_of_zero h0
    exact ⟨a, b, by rw [c, h0, rnd64_zero]⟩
  · obtain ⟨a, b, _⟩ := h.normal h1 h2
    exact ⟨a.finite, a.canon, b⟩

/-! ## per-operation theorems -/

theorem add_std {a b : F64} (ha : Finite a) (hb : Finite b) : StdModel (val a + val b) (add a b) := by
  obtain ⟨zs, h⟩ := add_eq_round ha hb; rw [h]; exact round_std _ _

theorem sub_std {a b : F64} (ha : Finite a) (hb : Finite b) : StdModel (val a - val b) (sub a b) := by
  obtain ⟨zs, h⟩ := sub_eq_round ha hb; rw [h]; exact round_std _ _

theorem mul_std {a b : F64} (ha : Finite a) (hb : Finite b) : StdModel (val a * val b) (mul a b) := by
  obtain ⟨zs, h⟩ := mul_eq_round ha hb; rw [h]; exact round_std _ _

theorem div_std {a b : F64} (ha : Finite a) (hb : Finite b) (hb0 : val b ≠ 0) :
    StdModel (val a / val b) (div a b) := by
  obtain ⟨zs, h⟩ := div_eq_round ha hb hb0; rw [h]; exact round_std _ _

theorem fma_std {a b c : F64} (ha : Finite a) (hb : Finite b) (hc : Finite c) :
    StdModel (val a * val b + val c) (fma a b c) := by
  obtain ⟨zs, h⟩ := fma_eq_round ha hb hc; rw [h]; exact round_std _ _

theorem ofDec_std (m e : Int) : StdModel ((m:ℚ) * (10:ℚ) ^ e) (ofDec m e) := by
  rw [ofDec_eq_round]; exact round_std _ _

theorem roundRatio_std (neg : Bool) (num den : Nat) (hd : 0 < den) :
    StdModel (sgn neg * ((num:ℚ) / den)) (roundRatio neg num den) := by
  rw [roundRatio_eq_round _ _ _ hd]; exact round_std _ _

/-- item 1 of the suite, spelled out: on the normal range a non-overflowing `roundRatio` is a canonical
finite number with the given sign and relative error at most `2⁻⁵³` -/
theorem roundRatio_normal (neg : Bool) (num den : Nat) (hd : 0 < den)
    (hlo : (2:ℚ) ^ (-1022:Int) ≤ (num:ℚ) / den) (hf : Finite (roundRatio neg num den)) :
    ∃ q e, roundRatio neg num den = fin neg q e ∧ Canon (fin neg q e) ∧ 2 ^ 52 ≤ q ∧
      |val (fin neg q e) - sgn neg * ((num:ℚ) / den)| ≤ (2:ℚ) ^ (-53:Int) * ((num:ℚ) / den) := by
  have hpos : (0:ℚ) < (num:ℚ) / den := lt_of_lt_of_le (by positivity) hlo
  have habs : |sgn neg * ((num:ℚ) / den)| = (num:ℚ) / den := by
    rw [abs_mul, abs_sgn, one_mul, abs_of_pos hpos]
  have hstd := roundRatio_std neg num den hd
  have hr : (2:ℚ) ^ (-1022:Int) ≤ |sgn neg * ((num:ℚ) / den)| := by rw [habs]; exact hlo
  have hrel := hstd.rel hr hf
  obtain ⟨hN, _⟩ := hstd.fin hr hf
  have hr0 : sgn neg * ((num:ℚ) / den) ≠ 0 := mul_ne_zero (sgn_ne_zero _) hpos.ne'
  have hsign : decide (sgn neg * ((num:ℚ) / den) < 0) = neg := decide_sgn_mul_neg neg hpos
  rw [habs] at hrel
  rw [roundRatio_eq_round _ _ _ hd] at hf hN hrel ⊢
  rcases round_sign hr0 neg with h | ⟨q, e, h⟩
  · rw [h] at hf; exact hf.elim
  · rw [hsign] at h
    rw [h] at hN hrel
    exact ⟨q, e, h, hN.canon, hN.2.2.1, hrel⟩

/-! ## exactness: representable values round to themselves -/

/-- a canonical finite number is the rounding of its own value (also subnormals and zeros) -/
theorem round_repr (s : Bool) (m : Nat) (e : Int) (h : Canon (fin s m e)) :
    round (val (fin s m e)) s = fin s m e := by
  by_cases hm : m = 0
  · subst hm
    obtain ⟨_, _, hc, _⟩ := h
    have he : e = -1074 := by
      rcases hc with h | h
      · norm_num at h
      · exact h
    subst he
    rw [val_eq_zero_iff.mpr rfl, round_zero]; rfl
  · have hmpos : 0 < m := by omega
    have hmq : (0:ℚ) < m := by exact_mod_cast hmpos
    have hp : (0:ℚ) < (2:ℚ) ^ e := by positivity
    have hr0 : val (fin s m e) ≠ 0 := fun h0 => hm (val_eq_zero_iff.mp h0)
    have habs : |val (fin s m e)| = (m:ℚ) * (2:ℚ) ^ e := by
      rw [val_fin, abs_mul, abs_mul, abs_sgn, one_mul, abs_of_pos hmq, abs_of_pos hp]
    have hsign : decide (val (fin s m e) < 0) = s := by
      have hpos : (0:ℚ) < (m:ℚ) * (2:ℚ) ^ e := by positivity
      rw [val_fin, mul_assoc]
      exact decide_sgn_mul_neg s hpos
    rw [round_eq_pack hr0, hsign]
    obtain ⟨h1, h2, h3, h4⟩ := h
    have := roundPos_repr (val (fin s m e)).num.natAbs (val (fin s m e)).den m e (Rat.den_pos _) hmpos h2 h1 h3
      (by rw [← abs_eq_natAbs_div_den, habs])
    rw [this]
    exact pack_canon s m e ⟨h1, h2, h3, h4⟩

/-- if the exact result `r` is the value of a canonical finite number `x`, the rounding returns `x`
(for `r = 0`: provided the zero sign is that of `x`) -/
theorem round_eq_of_val {x : F64} (hf : Finite x) (hc : Canon x) {r : ℚ} (hr : r = val x) (zs : Bool)
    (hz : r = 0 → zs = x.signBit) : round r zs = x := by
  cases x with
  | fin s m e =>
    by_cases h0 : r = 0
    · have := hz h0
      simp only [signBit] at this
      rw [this, hr]; exact round_repr s m e hc
    · rw [round_zs h0 zs s, hr]; exact round_repr s m e hc
  | _ => exact hf.elim

/-- value-level exactness: a representable exact result is returned exactly -/
theorem StdModel.val_round_of_repr (r : ℚ) (zs : Bool) (x : F64) (hf : Finite x) (hc : Canon x) (hr : r = val x) :
    val (round r zs) = r := by
  by_cases h0 : r = 0
  · rw [h0, round_zero, val_zero]
  · have : round r zs = x := by
      cases x with
      | fin s m e => rw [round_zs h0 zs s, hr]; exact round_repr s m e hc
      | _ => exact hf.elim
    rw [this, hr]

theorem roundRatio_repr (s : Bool) (m : Nat) (e : Int) (h : Canon (fin s m e)) (num den : Nat) (hd : 0 < den)
    (hv : (num:ℚ) / den = (m:ℚ) * (2:ℚ) ^ e) : roundRatio s num den = fin s m e := by
  rw [roundRatio_eq_round _ _ _ hd, hv, ← mul_assoc, ← val_fin]
  exact round_repr s m e h

/-! ## structural facts (no rounding analysis): symmetry of `|a − b|`, `a − a`, reflexivity of `==` -/

theorem abs_pack (neg : Bool) (q : Nat) (e : Int) : abs (pack neg q e) = pack false q e := by
  unfold pack
  split
  split <;> rfl

theorem abs_roundRatio (neg : Bool) (n d : Nat) : abs (roundRatio neg n d) = roundRatio false n d := by
  unfold roundRatio
  split
  · rfl
  · exact abs_pack _ _ _

theorem abs_roundDyadic_neg (z e : Int) (zs zs' : Bool) :
    abs (roundDyadic z e zs) = abs (roundDyadic (-z) e zs') := by
  unfold roundDyadic
  by_cases hz : z = 0
  · subst hz; simp [zero, abs]
  · have hz' : -z ≠ 0 := by omega
    rw [if_neg hz, if_neg hz']
    simp only [Int.natAbs_neg]
    split <;> simp only [abs_roundRatio]

theorem sInt_not (s : Bool) (m : Nat) : sInt (!s) m = -sInt s m := by cases s <;> simp [sInt]

/-- `|a − b| = |b − a|` bit for bit, for all operands including NaN and the infinities
(symmetry of `abs_diff_eq`, property C17) -/
theorem abs_sub_comm (a b : F64) : abs (sub a b) = abs (sub b a) := by
  cases a with
  | nan => cases b <;> rfl
  | inf s => cases b with
    | nan => rfl
    | inf t => cases s <;> cases t <;> rfl
    | fin _ _ _ => rfl
  | fin s m e => cases b with
    | nan => rfl
    | inf t => rfl
    | fin t n f =>
      show abs (roundDyadic _ _ _) = abs (roundDyadic _ _ _)
      rw [abs_roundDyadic_neg _ _ _ ((decide (n = 0) && decide (m = 0) && t && !s))]
      simp only [sInt_not, Int.min_comm f e]
      congr 2
      ring

/-- `a − a = +0` for every finite `a` -/
theorem sub_self_eq_zero {a : F64} (ha : Finite a) : sub a a = zero false := by
  cases a with
  | fin s m e =>
    show roundDyadic _ _ _ = _
    unfold roundDyadic
    rw [if_pos (by rw [sInt_not]; ring)]
    cases s <;> simp
  | _ => exact ha.elim

theorem key_zero (s : Bool) : key (zero s) = 0 := by
  cases s <;> simp [key, zero, signBit, magBits]

/-- reflexivity of `abs_diff_eq` for a finite `a` and a non-NaN tolerance with non-negative key
(`eps ≥ ±0`): `|a − a| ≤ eps` -/
theorem le_abs_sub_self {a eps : F64} (ha : Finite a) (hn : eps.isNaN = false) (hk : 0 ≤ key eps) :
    le (abs (sub a a)) eps = true := by
  rw [sub_self_eq_zero ha]
  have : abs (zero false) = zero false := rfl
  rw [this]
  unfold le
  rw [key_zero, hn]
  simp [zero, isNaN, hk]

/-- `a == a` for every non-NaN `a` (reflexivity of `relative_eq`) -/
theorem feq_self {a : F64} (ha : a.isNaN = false) : feq a a = true := by
  simp [feq, ha]

/-! ## exactness corollaries -/

/-- `r` is the value of a finite canonical binary64 -/
def Representable (r : ℚ) : Prop := ∃ x : F64, Finite x ∧ Canon x ∧ val x = r

theorem round_representable {r : ℚ} (h : Representable r) (zs : Bool) :
    Finite (round r zs) ∧ Canon (round r zs) ∧ val (round r zs) = r := by
  obtain ⟨x, hf, hc, hv⟩ := h
  by_cases h0 : r = 0
  · rw [h0, round_zero]; exact ⟨finite_zero zs, canon_zero zs, val_zero zs⟩
  · have : round r zs = x := by
      cases x with
      | fin s m e => rw [round_zs h0 zs s, ← hv]; exact round_repr s m e hc
      | _ => exact hf.elim
    rw [this]; exact ⟨hf, hc, hv⟩

/-- a representable exact sum is returned exactly -/
theorem add_exact {a b : F64} (ha : Finite a) (hb : Finite b) (h : Representable (val a + val b)) :
    Finite (add a b) ∧ Canon (add a b) ∧ val (add a b) = val a + val b := by
  obtain ⟨zs, e⟩ := add_eq_round ha hb; rw [e]; exact round_representable h zs

theorem sub_exact {a b : F64} (ha : Finite a) (hb : Finite b) (h : Representable (val a - val b)) :
    Finite (sub a b) ∧ Canon (sub a b) ∧ val (sub a b) = val a - val b := by
  obtain ⟨zs, e⟩ := sub_eq_round ha hb; rw [e]; exact round_representable h zs

theorem mul_exact {a b : F64} (ha : Finite a) (hb : Finite b) (h : Representable (val a * val b)) :
    Finite (mul a b) ∧ Canon (mul a b) ∧ val (mul a b) = val a * val b := by
  obtain ⟨zs, e⟩ := mul_eq_round ha hb; rw [e]; exact round_representable h zs

theorem div_exact {a b : F64} (ha : Finite a) (hb : Finite b) (hb0 : val b ≠ 0)
    (h : Representable (val a / val b)) :
    Finite (div a b) ∧ Canon (div a b) ∧ val (div a b) = val a / val b := by
  obtain ⟨zs, e⟩ := div_eq_round ha hb hb0; rw [e]; exact round_representable h zs

theorem fma_exact {a b c : F64} (ha : Finite a) (hb : Finite b) (hc : Finite c)
    (h : Representable (val a * val b + val c)) :
    Finite (fma a b c) ∧ Canon (fma a b c) ∧ val (fma a b c) = val a * val b + val c := by
  obtain ⟨zs, e⟩ := fma_eq_round ha hb hc; rw [e]; exact round_representable h zs

/-- the literal `1.0` -/
def one : F64 := ofDec 1 0
/-- the literal `2.0` -/
def two : F64 := ofDec 2 0

theorem c52 : ((2 ^ 52 : Nat) : ℚ) = (2:ℚ) ^ (52:Int) := by norm_num
theorem c53 : ((2 ^ 53 : Nat) : ℚ) = (2:ℚ) ^ (53:Int) := by norm_num

theorem one_eq : one = fin false (2 ^ 52) (-52) := by
  have hc : Canon (fin false (2 ^ 52) (-52)) := ⟨by norm_num, by norm_num, Or.inl (le_refl _), by norm_num⟩
  have hv : val (fin false (2 ^ 52) (-52)) = ((1:Int):ℚ) * (10:ℚ) ^ (0:Int) := by
    rw [val_fin, sgn_false, c52, one_mul, ← zpow_add₀ (by norm_num : (2:ℚ) ≠ 0)]; norm_num
  unfold one
  rw [ofDec_eq_round, ← hv]
  exact round_repr false _ _ hc

theorem two_eq : two = fin false (2 ^ 52) (-51) := by
  have hc : Canon (fin false (2 ^ 52) (-51)) := ⟨by norm_num, by norm_num, Or.inl (le_refl _), by norm_num⟩
  have hv : val (fin false (2 ^ 52) (-51)) = ((2:Int):ℚ) * (10:ℚ) ^ (0:Int) := by
    rw [val_fin, sgn_false, c52, one_mul, ← zpow_add₀ (by norm_num : (2:ℚ) ≠ 0)]; norm_num
  unfold two
  rw [ofDec_eq_round, ← hv]
  exact round_repr false _ _ hc

theorem val_one : val one = 1 := by
  rw [one_eq, val_fin, sgn_false, c52, one_mul, ← zpow_add₀ (by norm_num : (2:ℚ) ≠ 0)]; norm_num

theorem val_two : val two = 2 := by
  rw [two_eq, val_fin, sgn_false, c52, one_mul, ← zpow_add₀ (by norm_num : (2:ℚ) ≠ 0)]; norm_num

/-- negation is a sign flip (property C14): `a * (-1.0) = -a` bit for bit, for every finite canonical `a` -/
theorem mul_neg_one {a : F64} (ha : Finite a) (hc : Canon a) : mul a (neg one) = neg a := by
  cases a with
  | fin s m e =>
    rw [one_eq]
    show mul (fin s m e) (fin true (2 ^ 52) (-52)) = fin (!s) m e
    rw [mul_fin]
    have hv : val (fin s m e) * val (fin true (2 ^ 52) (-52)) = val (fin (!s) m e) := by
      have h1 : val (fin true (2 ^ 52) (-52)) = -1 := by
        rw [val_fin, sgn_true, c52, mul_assoc, ← zpow_add₀ (by norm_num : (2:ℚ) ≠ 0)]; norm_num
      rw [h1, val_fin, val_fin, sgn_not]; ring
    rw [hv]
    have hs : (s != true) = !s := by cases s <;> rfl
    rw [hs]
    exact round_repr (!s) m e hc
  | _ => exact ha.elim

/-- `(-1.0) * a = -a` bit for bit -/
theorem neg_one_mul {a : F64} (ha : Finite a) (hc : Canon a) : mul (neg one) a = neg a := by
  rw [mul_comm, mul_neg_one ha hc]

/-- every integer of magnitude at most `2^53` is representable -/
theorem representable_int (n : Int) (hn : n.natAbs ≤ 2 ^ 53) : Representable (n : ℚ) := by
  have two_ne : (2:ℚ) ≠ 0 := by norm_num
  -- the positive case
  have key : ∀ k : Nat, 0 < k → k ≤ 2 ^ 53 → ∀ s : Bool, ∃ x, Finite x ∧ Canon x ∧ val x = sgn s * (k:ℚ) := by
    intro k hk hk53 s
    by_cases h53 : k = 2 ^ 53
    · refine ⟨fin s (2 ^ 52) 1, trivial, ⟨by norm_num, by norm_num, Or.inl (le_refl _), by norm_num⟩, ?_⟩
      rw [val_fin, h53, c52, c53, mul_assoc, ← zpow_add₀ two_ne]; norm_num
    · have hlt : k < 2 ^ 53 := lt_of_le_of_ne hk53 h53
      have hL1 : 2 ^ k.log2 ≤ k := Nat.log2_self_le hk.ne'
      have hL2 : k < 2 ^ (k.log2 + 1) := Nat.lt_log2_self
      have hL : k.log2 ≤ 52 := by
        have : 2 ^ k.log2 < 2 ^ 53 := lt_of_le_of_lt hL1 hlt
        have := (Nat.pow_lt_pow_iff_right (by norm_num : 1 < 2)).mp this
        omega
      have hp : 2 ^ k.log2 * 2 ^ (52 - k.log2) = 2 ^ 52 := by rw [← pow_add]; congr 1; omega
      have hp' : 2 ^ (k.log2 + 1) * 2 ^ (52 - k.log2) = 2 ^ 53 := by rw [← pow_add]; congr 1; omega
      refine ⟨fin s (k * 2 ^ (52 - k.log2)) ((k.log2 : Int) - 52), trivial, ⟨by omega, ?_, Or.inl ?_, by omega⟩, ?_⟩
      · calc k * 2 ^ (52 - k.log2) < 2 ^ (k.log2 + 1) * 2 ^ (52 - k.log2) :=
              Nat.mul_lt_mul_of_pos_right hL2 (by positivity)
          _ = 2 ^ 53 := hp'
      · calc 2 ^ 52 = 2 ^ k.log2 * 2 ^ (52 - k.log2) := hp.symm
          _ ≤ k * 2 ^ (52 - k.log2) := Nat.mul_le_mul_right _ hL1
      · rw [val_fin]; push_cast
        have : (2:ℚ) ^ (52 - k.log2) * (2:ℚ) ^ ((k.log2 : Int) - 52) = 1 := by
          rw [← zpow_natCast, ← zpow_add₀ two_ne]
          have : ((52 - k.log2 : Nat) : Int) + ((k.log2 : Int) - 52) = 0 := by omega
          rw [this, zpow_zero]
        rw [mul_assoc, mul_assoc, this, mul_one]
  rcases lt_trichotomy n 0 with h | h | h
  · obtain ⟨x, a, b, c⟩ := key n.natAbs (by omega) hn true
    refine ⟨x, a, b, ?_⟩
    rw [c, sgn_true, Nat.cast_natAbs, Int.cast_abs, abs_of_neg (by exact_mod_cast h)]; ring
  · subst h; exact ⟨zero false, trivial, canon_zero _, by simp⟩
  · obtain ⟨x, a, b, c⟩ := key n.natAbs (by omega) hn false
    refine ⟨x, a, b, ?_⟩
    rw [c, sgn_false, Nat.cast_natAbs, Int.cast_abs, abs_of_pos (by exact_mod_cast h)]; ring

/-- an integer literal of magnitude at most `2^53` is exact -/
theorem val_ofDec_int (n : Int) (hn : n.natAbs ≤ 2 ^ 53) :
    Finite (ofDec n 0) ∧ Canon (ofDec n 0) ∧ val (ofDec n 0) = n := by
  rw [ofDec_eq_round, zpow_zero, mul_one]
  exact round_representable (representable_int n hn) _

/-- doubling a representable number gives a representable number, absent overflow -/
theorem representable_two_mul {a : F64} (ha : Finite a) (hc : Canon a)
    (hov : |2 * val a| < (2:ℚ) ^ (1024:Int)) : Representable (2 * val a) := by
  have two_ne : (2:ℚ) ≠ 0 := by norm_num
  cases a with
  | fin s m e =>
    obtain ⟨h1, h2, h3, h4⟩ := hc
    by_cases hm : 2 ^ 52 ≤ m
    · -- normal: exponent + 1
      have he : e + 1 ≤ 971 := by
        by_contra hcon
        have he' : 971 ≤ e := by omega
        have hmq : (2:ℚ) ^ (52:Int) ≤ (m:ℚ) := by rw [← c52]; exact_mod_cast hm
        have hpe : (2:ℚ) ^ (971:Int) ≤ (2:ℚ) ^ e := zpow_le_zpow_right₀ (by norm_num) he'
        have : (2:ℚ) ^ (1024:Int) ≤ |2 * val (fin s m e)| := by
          rw [val_fin, abs_mul, abs_mul, abs_mul, abs_sgn, one_mul, abs_of_pos (by norm_num : (0:ℚ) < 2),
            abs_of_nonneg (Nat.cast_nonneg m), abs_of_pos (zpow_pos (by norm_num) e)]
          calc (2:ℚ) ^ (1024:Int) = 2 * ((2:ℚ) ^ (52:Int) * (2:ℚ) ^ (971:Int)) := by
                rw [← zpow_add₀ two_ne, ← zpow_one_add₀ two_ne]; norm_num
            _ ≤ 2 * ((m:ℚ) * (2:ℚ) ^ e) :=
                mul_le_mul_of_nonneg_left (mul_le_mul hmq hpe (by positivity) (Nat.cast_nonneg m)) (by norm_num)
        exact absurd hov (not_lt.mpr this)
      refine ⟨fin s m (e + 1), trivial, ⟨by omega, h2, Or.inl hm, he⟩, ?_⟩
      rw [val_fin, val_fin, zpow_add_one₀ two_ne]; ring
    · -- subnormal: double the significand
      have he : e = -1074 := by
        rcases h3 with h | h
        · exact absurd h hm
        · exact h
      refine ⟨fin s (2 * m) e, trivial, ⟨h1, by omega, Or.inr he, h4⟩, ?_⟩
      rw [val_fin, val_fin]; push_cast; ring
  | _ => exact ha.elim

/-- multiplication by `2.0` is exact absent overflow (also on subnormals) -/
theorem mul_two_exact {a : F64} (ha : Finite a) (hc : Canon a) (hov : |2 * val a| < (2:ℚ) ^ (1024:Int)) :
    Finite (mul a two) ∧ Canon (mul a two) ∧ val (mul a two) = 2 * val a := by
  have hf2 : Finite two := by rw [two_eq]; trivial
  have h := mul_exact ha hf2 (by rw [val_two, _root_.mul_comm]; exact representable_two_mul ha hc hov)
  rw [val_two, _root_.mul_comm (val a)] at h
  exact h

/-- bit-level form on normal numbers: the exponent is incremented -/
theorem mul_two_normal (s : Bool) (m : Nat) (e : Int) (h : Normal (fin s m e)) (he : e + 1 ≤ 971) :
    mul (fin s m e) two = fin s m (e + 1) := by
  have two_ne : (2:ℚ) ≠ 0 := by norm_num
  rw [two_eq, mul_fin]
  have hv : val (fin s m e) * val (fin false (2 ^ 52) (-51)) = val (fin s m (e + 1)) := by
    have : val (fin false (2 ^ 52) (-51)) = 2 := by rw [← two_eq]; exact val_two
    rw [this, val_fin, val_fin, zpow_add_one₀ two_ne]; ring
  rw [hv]
  have hs : (s != false) = s := by cases s <;> rfl
  rw [hs]
  exact round_repr s m (e + 1) ⟨by have := h.1; omega, h.2.1, Or.inl h.2.2.1, he⟩

/-- division by `2.0` is exact absent underflow (`2^-1021 ≤ |a|`, i.e. the quotient is normal) -/
theorem div_two_exact {a : F64} (hf : Finite a) (hc : Canon a) (hlo : (2:ℚ) ^ (-1021:Int) ≤ |val a|) :
    Finite (div a two) ∧ Canon (div a two) ∧ val (div a two) = val a / 2 := by
  have two_ne : (2:ℚ) ≠ 0 := by norm_num
  have hn : Normal a := normal_of_le_abs_val hf hc
    (le_trans (zpow_le_zpow_right₀ (by norm_num) (by norm_num)) hlo)
  have hf2 : Finite two := by rw [two_eq]; trivial
  have h2 : val two ≠ 0 := by rw [val_two]; norm_num
  have hrep : Representable (val a / val two) := by
    rw [val_two]
    cases a with
    | fin s m e =>
      obtain ⟨h1, h2, h3, h4⟩ := hn
      have he : -1074 < e := by
        rw [val_fin, abs_mul, abs_mul, abs_sgn, one_mul, abs_of_nonneg (Nat.cast_nonneg m),
          abs_of_pos (zpow_pos (by norm_num) e)] at hlo
        have hmq : (m:ℚ) < (2:ℚ) ^ (53:Int) := by rw [← c53]; exact_mod_cast h2
        have : (2:ℚ) ^ (-1021:Int) < (2:ℚ) ^ ((53:Int) + e) := by
          rw [zpow_add₀ two_ne]
          exact lt_of_le_of_lt hlo (mul_lt_mul_of_pos_right hmq (zpow_pos (by norm_num) e))
        have := (zpow_lt_zpow_iff_right₀ (by norm_num : (1:ℚ) < 2)).mp this
        omega
      refine ⟨fin s m (e - 1), trivial, ⟨by omega, h2, Or.inl h3, by omega⟩, ?_⟩
      rw [val_fin, val_fin, zpow_sub_one₀ two_ne]; ring
    | _ => exact hn.elim
  have h := div_exact hn.finite hf2 h2 hrep
  rw [val_two] at h
  exact h

/-! ## `rnd64` fixes representable values; small integers are in range -/

/-- the idealised rounding fixes every representable value of the normal range (and `0`) -/
theorem rnd64_of_representable {r : ℚ} (h : Representable r)
    (hr : r = 0 ∨ (2:ℚ) ^ (-1022:Int) ≤ |r|) : rnd64 r = r := by
  rcases hr with h0 | hr
  · rw [h0, rnd64_zero]
  · obtain ⟨hf, _, hv⟩ := round_representable h false
    rw [← ((round_std r false).fin hr hf).2, hv]

theorem inRange_of_one_le {r : ℚ} (h1 : 1 ≤ |r|) (h2 : |r| ≤ (2:ℚ) ^ (53:Int)) : InRange r := by
  right
  constructor
  · exact le_trans (zpow_le_one_of_nonpos₀ (by norm_num) (by norm_num)) h1
  · have two_ne : (2:ℚ) ≠ 0 := by norm_num
    have e1 : (2:ℚ)^(1024:Int) * (1 - (2:ℚ)^(-54:Int)) = (2:ℚ)^(1024:Int) - (2:ℚ)^(970:Int) := by
      rw [mul_sub, mul_one, ← zpow_add₀ two_ne]; norm_num
    have e2 : (2:ℚ)^(1024:Int) = (2:ℚ)^(970:Int) * (2:ℚ)^(54:Int) := by
      rw [← zpow_add₀ two_ne]; norm_num
    have h3 : (2:ℚ) ^ (53:Int) < (2:ℚ)^(970:Int) := zpow_lt_zpow_right₀ (by norm_num) (by norm_num)
    have h4 : (2:ℚ)^(970:Int) * 2 ≤ (2:ℚ)^(970:Int) * (2:ℚ)^(54:Int) :=
      mul_le_mul_of_nonneg_left (by norm_num) (by positivity)
    have hp : (0:ℚ) < (2:ℚ)^(970:Int) := by positivity
    rw [e1, e2]
    generalize (2:ℚ)^(970:Int) = A at *
    generalize (2:ℚ)^(53:Int) = B at *
    generalize A * (2:ℚ)^(54:Int) = C at *
    linarith

/-- an integer of magnitude at most `2^53` is in range -/
theorem inRange_int (n : Int) (hn : n.natAbs ≤ 2 ^ 53) : InRange (n : ℚ) := by
  by_cases h0 : n = 0
  · left; rw [h0]; simp
  · apply inRange_of_one_le
    · have : (1:Int) ≤ |n| := Int.one_le_abs h0
      have : ((1:Int):ℚ) ≤ ((|n| : Int) : ℚ) := by exact_mod_cast this
      rw [Int.cast_abs] at this; simpa using this
    · rw [← c53, ← Int.cast_abs, ← Nat.cast_natAbs]; exact_mod_cast hn

/-- the idealised rounding fixes integers of magnitude at most `2^53` -/
theorem rnd64_int (n : Int) (hn : n.natAbs ≤ 2 ^ 53) : rnd64 (n : ℚ) = n := by
  apply rnd64_of_representable (representable_int n hn)
  rcases inRange_int n hn with h | h
  · exact Or.inl h
  · exact Or.inr h.1

/-! ## closure: every operation returns a canonical value (or NaN / an infinity), for ALL operands -/

theorem canon_nan : Canon nan := trivial
theorem canon_inf (s : Bool) : Canon (inf s) := trivial

theorem roundRatio_canon (neg : Bool) (n d : Nat) (hd : 0 < d) : Canon (roundRatio neg n d) := by
  rw [roundRatio_eq_round _ _ _ hd]; exact round_canon _ _

theorem add_canon (a b : F64) : Canon (add a b) := by
  cases a <;> cases b <;> first
    | exact canon_nan
    | exact canon_inf _
    | (rw [add_fin]; exact round_canon _ _)
    | (simp only [add]; split <;> trivial)

theorem sub_canon (a b : F64) : Canon (sub a b) := add_canon _ _

theorem mul_canon (a b : F64) : Canon (mul a b) := by
  cases a <;> cases b <;> first
    | exact canon_nan
    | exact canon_inf _
    | (rw [mul_fin]; exact round_canon _ _)
    | (simp only [mul]; split <;> trivial)

theorem div_canon (a b : F64) : Canon (div a b) := by
  cases a <;> cases b <;> first
    | exact canon_nan
    | exact canon_inf _
    | exact canon_zero _
    | skip
  rename_i s m e t n f
  by_cases hn : n = 0
  · simp only [div, if_pos hn]; split <;> trivial
  · rw [div_fin _ _ _ _ _ _ hn]; exact round_canon _ _

theorem fma_canon (a b c : F64) : Canon (fma a b c) := by
  cases a <;> cases b <;> cases c <;> first
    | exact canon_nan
    | exact canon_inf _
    | (rw [fma_fin]; exact round_canon _ _)
    | (simp only [fma]; split <;> first | trivial | (split <;> trivial))

theorem ofDec_canon (m e : Int) : Canon (ofDec m e) := by rw [ofDec_eq_round]; exact round_canon _ _

theorem max_canon {a b : F64} (ha : Canon a) (hb : Canon b) : Canon (max a b) := by
  unfold max; split
  · exact hb
  · split
    · exact ha
    · split
      · exact hb
      · exact ha

end F64
