import PP.Core.F64
/-! Algebraic facts about the soft-float that do not need the rounding analysis. Core Lean only. -/
namespace F64

theorem bne_comm' (s t : Bool) : (s != t) = (t != s) := by cases s <;> cases t <;> rfl

theorem mul_comm (a b : F64) : mul a b = mul b a := by
  cases a <;> cases b <;> simp only [mul, bne_comm', Nat.mul_comm, Int.add_comm] <;> rfl

theorem add_comm (a b : F64) : add a b = add b a := by
  cases a with
  | nan => cases b <;> rfl
  | inf s => cases b with
    | nan => rfl
    | inf t =>
      simp only [add]
      by_cases h : s = t
      · subst h; rfl
      · have h' : ¬ t = s := fun e => h e.symm
        simp [h, h']
    | fin _ _ _ => rfl
  | fin s m e => cases b with
    | nan => rfl
    | inf t => rfl
    | fin t n f =>
      simp only [add, Int.min_comm f e, Int.add_comm (sInt t n * _)]
      congr 1
      cases s <;> cases t <;> simp [Bool.and_comm]

end F64
