import PP.Sem.Exact
import PP.Sem.Order
import PP.Hand.Constructors
import PP.Hand.Piecewise
import PP.Model.Linear.FnsAttr
import PP.Model.Piecewise.CalculusAttr
import PP.Model.Poly.EvaluateAttr
import PP.Model.LogPoly.CalculusAttr
import Mathlib.Data.List.Chain
/-!
# Helper lemmas for C06 (`linear`) and C11 (piecewise integration)

* every interpretation: the running-maximum scan, the shape of `Hand.linearGo`, a selection lemma for
  `Hand.selSeg` by index, the shape of `Hand.integralIter`;
* IEEE order laws: `MaxLaws` (law of `f64::max` on non-NaN operands), monotonicity of the running maximum;
* exact interpretation: `Linear.segment` as a straight line, the continuity invariant of `integralIter`.
-/
set_option linter.unusedSectionVars false
namespace PP.Lemmas.LinInt
open FloatLike Hand

/-! ## every interpretation -/
section generic
variable {F : Type} [FloatLike F]

/-- the running `f64::max` scan started at `m`: `[m, max m x₁, max (max m x₁) x₂, …]` -/
def runMaxFrom (m : F) : List F → List F
  | [] => [m]
  | x :: xs => m :: runMaxFrom (max m x) xs

/-- the running maximum of a list (same length): `[x₀, max x₀ x₁, max (max x₀ x₁) x₂, …]` -/
def runMax : List F → List F
  | [] => []
  | x :: xs => runMaxFrom x xs

theorem runMaxFrom_eq_scanl (m : F) (xs : List F) : runMaxFrom m xs = xs.scanl FloatLike.max m := by
  induction xs generalizing m with
  | nil => simp [runMaxFrom]
  | cons x xs ih => simp [runMaxFrom, ih]

/-- `runMax` is the standard left scan -/
theorem runMax_cons_eq_scanl (x : F) (xs : List F) : runMax (x :: xs) = xs.scanl FloatLike.max x :=
  runMaxFrom_eq_scanl x xs

@[simp] theorem runMaxFrom_length (m : F) (xs : List F) : (runMaxFrom m xs).length = xs.length + 1 := by
  induction xs generalizing m with
  | nil => rfl
  | cons x xs ih => simp [runMaxFrom, ih]

@[simp] theorem runMax_length (xs : List F) : (runMax xs).length = xs.length := by
  cases xs <;> simp [runMax]

/-- the knots with abscissae forced to the running maximum (ordinates untouched) -/
def forcedGo : Knot F → List (Knot F) → List (Knot F)
  | prev, [] => [prev]
  | prev, k :: ks => prev :: forcedGo ⟨max prev.x k.x, k.y⟩ ks

def forced : List (Knot F) → List (Knot F)
  | [] => []
  | k :: ks => forcedGo k ks

theorem forcedGo_map_x (prev : Knot F) (ks : List (Knot F)) :
    (forcedGo prev ks).map (·.x) = runMaxFrom prev.x (ks.map (·.x)) := by
  induction ks generalizing prev with
  | nil => rfl
  | cons k ks ih => simp [forcedGo, runMaxFrom, ih]

theorem forcedGo_map_y (prev : Knot F) (ks : List (Knot F)) :
    (forcedGo prev ks).map (·.y) = prev.y :: ks.map (·.y) := by
  induction ks generalizing prev with
  | nil => rfl
  | cons k ks ih => simp [forcedGo, ih]

theorem forced_map_x (ks : List (Knot F)) : (forced ks).map (·.x) = runMax (ks.map (·.x)) := by
  cases ks with
  | nil => rfl
  | cons k ks => exact forcedGo_map_x k ks

theorem forced_map_y (ks : List (Knot F)) : (forced ks).map (·.y) = ks.map (·.y) := by
  cases ks with
  | nil => rfl
  | cons k ks => exact forcedGo_map_y k ks

@[simp] theorem forced_length (ks : List (Knot F)) : (forced ks).length = ks.length := by
  have := congrArg List.length (forced_map_y ks); simpa using this

theorem forced_getElem (ks : List (Knot F)) (i : Nat) (h : i < ks.length) :
    (forced ks)[i]'(by simpa using h) =
      ⟨(runMax (ks.map (·.x)))[i]'(by simpa using h), ks[i].y⟩ := by
  have hx := forced_map_x ks
  have hy := forced_map_y ks
  have h1 : ((forced ks).map (·.x))[i]'(by simpa using h) = (runMax (ks.map (·.x)))[i]'(by simpa using h) := by
    simp only [hx]
  have h2 : ((forced ks).map (·.y))[i]'(by simpa using h) = (ks.map (·.y))[i]'(by simpa using h) := by
    simp only [hy]
  simp only [List.getElem_map] at h1 h2
  rw [← h1, ← h2]

/-- `linearGo` = `Linear.segment` zipped over consecutive forced knots -/
theorem linearGo_eq (prev : Knot F) (ks : List (Knot F)) :
    linearGo prev ks = List.zipWith Linear.segment (forcedGo prev ks) (forcedGo prev ks).tail := by
  induction ks generalizing prev with
  | nil => rfl
  | cons k ks ih =>
    simp only [linearGo, forcedGo, List.tail_cons, Linear.incr_linear, ih]
    cases ks <;> simp [forcedGo]

theorem segment_end (k0 k1 : Knot F) : (Linear.segment k0 k1).end = k1.x := rfl

theorem linearGo_ends (prev : Knot F) (ks : List (Knot F)) :
    (linearGo prev ks).map (·.end) = (runMaxFrom prev.x (ks.map (·.x))).tail := by
  induction ks generalizing prev with
  | nil => rfl
  | cons k ks ih =>
    simp only [linearGo, Linear.incr_linear, List.map_cons, runMaxFrom, List.tail_cons, ih, segment_end]
    cases ks <;> simp [runMaxFrom]

@[simp] theorem linearGo_length (prev : Knot F) (ks : List (Knot F)) :
    (linearGo prev ks).length = ks.length := by
  induction ks generalizing prev with
  | nil => rfl
  | cons k ks ih => simp [linearGo, ih]

/-! ### selection by index (no order law needed) -/
variable {T : Type}

/-- total version of `selSeg` on a non-empty list -/
def selSegD : Segment F T → List (Segment F T) → F → Segment F T
  | s, [], _ => s
  | s, s' :: rest, x => if lt x s.end then s else selSegD s' rest x

theorem selSeg_cons (s : Segment F T) (rest : List (Segment F T)) (x : F) :
    selSeg (s :: rest) x = some (selSegD s rest x) := by
  induction rest generalizing s with
  | nil => rfl
  | cons s' rest ih =>
    simp only [selSeg, selSegD]
    split
    · rfl
    · exact ih s'

/-- segment `i` is selected when no earlier end exceeds `x` and either its own end does or it is the last -/
theorem selSeg_getElem (segs : List (Segment F T)) (x : F) (i : Nat) (hi : i < segs.length)
    (hlo : ∀ j (hj : j < i), lt x (segs[j]'(Nat.lt_trans hj hi)).end = false)
    (hhi : lt x segs[i].end = true ∨ i + 1 = segs.length) :
    selSeg segs x = some segs[i] := by
  induction segs generalizing i with
  | nil => simp at hi
  | cons s rest ih =>
    cases rest with
    | nil =>
      have : i = 0 := by simpa using hi
      subst this; rfl
    | cons s' rest' =>
      cases i with
      | zero =>
        rcases hhi with h | h
        · simp only [selSeg, List.getElem_cons_zero] at h ⊢; simp [h]
        · simp at h
      | succ i =>
        have h0 := hlo 0 (Nat.succ_pos i)
        simp only [List.getElem_cons_zero] at h0
        simp only [selSeg, h0, Bool.false_eq_true, if_false, List.getElem_cons_succ]
        apply ih i (by simpa using hi)
        · intro j hj
          have := hlo (j + 1) (Nat.succ_lt_succ hj)
          simpa using this
        · rcases hhi with h | h
          · left; simpa using h
          · right; simpa using h

/-! ### integration: shape, lengths, ends -/
variable {I : Type} [HasIntegral T (Knot F) I] [Evaluate I F] [Translate I F]

theorem seg_integral_end (s : Segment F T) (k : Knot F) :
    (HasIntegral.integral s k : Segment F I).end = s.end := rfl

theorem seg_indefinite_end (s : Segment F T) :
    (HasIntegral.indefinite s : Segment F I).end = s.end := rfl

/-- the piece-level content of `<Segment<T> as HasIntegral>::integral` -/
theorem seg_integral_poly (s : Segment F T) (k : Knot F) :
    (HasIntegral.integral s k : Segment F I).poly =
      Translate.translate (HasIntegral.indefinite s.poly : I)
        (FloatLike.sub k.y (Evaluate.evaluate (HasIntegral.indefinite s.poly : I) k.x)) := rfl

theorem seg_indefinite_poly (s : Segment F T) :
    (HasIntegral.indefinite s : Segment F I).poly = HasIntegral.indefinite s.poly := rfl

/-- the knot handed to the next piece -/
def nextKnot (A : Segment F I) : Knot F := ⟨A.end, Evaluate.evaluate A A.end⟩

/-- the knots the successive pieces are built from -/
def iterKnots : List (Segment F T) → Knot F → List (Knot F)
  | [], _ => []
  | s :: rest, k => k :: iterKnots rest (nextKnot (HasIntegral.integral s k : Segment F I))

theorem integralIter_cons (s : Segment F T) (rest : List (Segment F T)) (k : Knot F) :
    (integralIter (s :: rest) k : List (Segment F I)) =
      HasIntegral.integral s k :: integralIter rest (nextKnot (HasIntegral.integral s k : Segment F I)) := rfl

@[simp] theorem integralIter_length (segs : List (Segment F T)) (k : Knot F) :
    (integralIter segs k : List (Segment F I)).length = segs.length := by
  induction segs generalizing k with
  | nil => rfl
  | cons s rest ih => simp [integralIter, ih]

theorem integralIter_ends (segs : List (Segment F T)) (k : Knot F) :
    (integralIter segs k : List (Segment F I)).map (·.end) = segs.map (·.end) := by
  induction segs generalizing k with
  | nil => rfl
  | cons s rest ih => simp only [integralIter, List.map_cons, ih]; rfl

@[simp] theorem iterKnots_length (segs : List (Segment F T)) (k : Knot F) :
    (iterKnots (I := I) segs k).length = segs.length := by
  induction segs generalizing k with
  | nil => rfl
  | cons s rest ih => simp [iterKnots, ih]

/-- every piece is `integral` of the corresponding piece at the running knot -/
theorem integralIter_eq_zipWith (segs : List (Segment F T)) (k : Knot F) :
    (integralIter segs k : List (Segment F I)) =
      List.zipWith (fun s k => HasIntegral.integral s k) segs (iterKnots (I := I) segs k) := by
  induction segs generalizing k with
  | nil => rfl
  | cons s rest ih => simp only [integralIter_cons, iterKnots, List.zipWith_cons_cons, ← ih]

theorem iterKnots_getElem_zero (segs : List (Segment F T)) (k : Knot F) (h : 0 < segs.length) :
    (iterKnots (I := I) segs k)[0]'(by simpa using h) = k := by
  cases segs with
  | nil => simp at h
  | cons s rest => rfl

/-- the knot of piece `i+1` is (end of piece `i`, value of piece `i` at its end) -/
theorem iterKnots_getElem_succ (segs : List (Segment F T)) (k : Knot F) (i : Nat) (hi : i + 1 < segs.length) :
    (iterKnots (I := I) segs k)[i + 1]'(by simpa using hi) =
      nextKnot ((integralIter segs k : List (Segment F I))[i]'(by simp; omega)) := by
  induction segs generalizing k i with
  | nil => simp at hi
  | cons s rest ih =>
    cases i with
    | zero =>
      cases rest with
      | nil => simp at hi
      | cons s' rest' => rfl
    | succ i =>
      simp only [iterKnots, integralIter_cons, List.getElem_cons_succ]
      exact ih _ i (by simpa using hi)

end generic

/-! ## IEEE order laws: the running maximum is non-decreasing -/
section order
open OrdLaws

/-- the law of `f64::max` on non-NaN operands: it returns one of its operands, and the larger one -/
class MaxLaws (F : Type) [FloatLike F] [OrdLaws F] : Prop where
  max_mem : ∀ a b : F, isNaN a = false → isNaN b = false → FloatLike.max a b = a ∨ FloatLike.max a b = b
  key_max : ∀ a b : F, isNaN a = false → isNaN b = false →
    key (FloatLike.max a b) = Max.max (key a) (key b)

/-- the soft-float `F64.max` satisfies the law (with any libm) -/
instance F64.maxLaws (ln exp : F64 → F64) : @MaxLaws F64 (F64.inst ln exp) (F64.ordLaws ln exp) := by
  let _i1 := F64.inst ln exp
  let _i2 := F64.ordLaws ln exp
  refine ⟨?_, ?_⟩
  · intro a b ha hb
    show F64.max a b = a ∨ F64.max a b = b
    have ha' : F64.isNaN a = false := ha
    have hb' : F64.isNaN b = false := hb
    unfold F64.max; rw [ha', hb']
    by_cases h : F64.lt a b = true <;> simp [h]
  · intro a b ha hb
    show F64.key (F64.max a b) = Max.max (F64.key a) (F64.key b)
    have ha' : F64.isNaN a = false := ha
    have hb' : F64.isNaN b = false := hb
    unfold F64.max; rw [ha', hb']
    by_cases h : F64.key a < F64.key b
    · have : F64.lt a b = true := by simp [F64.lt, ha', hb', h]
      simp only [this, Bool.false_eq_true, if_false, if_true]; omega
    · have : F64.lt a b = false := by simp [F64.lt, ha', hb', h]
      simp only [this, Bool.false_eq_true, if_false]; omega

variable {F : Type} [FloatLike F] [OrdLaws F] [MaxLaws F]

theorem max_nn {a b : F} (ha : isNaN a = false) (hb : isNaN b = false) : isNaN (FloatLike.max a b) = false := by
  rcases MaxLaws.max_mem a b ha hb with h | h <;> rw [h] <;> assumption

theorem runMaxFrom_mem (m : F) (xs : List F) (hm : isNaN m = false) (hx : ∀ x ∈ xs, isNaN x = false) :
    ∀ e ∈ runMaxFrom m xs, isNaN e = false ∧ key m ≤ key e := by
  induction xs generalizing m with
  | nil => intro e he; simp [runMaxFrom] at he; subst he; exact ⟨hm, Int.le_refl _⟩
  | cons x xs ih =>
    intro e he
    simp only [runMaxFrom, List.mem_cons] at he
    have hxn := hx x (by simp)
    rcases he with he | he
    · subst he; exact ⟨hm, Int.le_refl _⟩
    · have := ih (FloatLike.max m x) (max_nn hm hxn) (fun y hy => hx y (by simp [hy])) e he
      refine ⟨this.1, Int.le_trans ?_ this.2⟩
      rw [MaxLaws.key_max m x hm hxn]; omega

theorem runMaxFrom_pairwise (m : F) (xs : List F) (hm : isNaN m = false) (hx : ∀ x ∈ xs, isNaN x = false) :
    (runMaxFrom m xs).Pairwise (fun a b => key a ≤ key b) := by
  induction xs generalizing m with
  | nil => simp [runMaxFrom]
  | cons x xs ih =>
    have hxn := hx x (by simp)
    simp only [runMaxFrom, List.pairwise_cons]
    refine ⟨?_, ih _ (max_nn hm hxn) (fun y hy => hx y (by simp [hy]))⟩
    intro e he
    have := runMaxFrom_mem (FloatLike.max m x) xs (max_nn hm hxn) (fun y hy => hx y (by simp [hy])) e he
    refine Int.le_trans ?_ this.2
    rw [MaxLaws.key_max m x hm hxn]; omega

end order

/-! ## exact interpretation -/
section exact
variable {K : Type} [Field K] [LinearOrder K] [IsStrictOrderedRing K] [Transc K]
attribute [local instance] exactFL

theorem eps_eq : (FloatLike.epsilon : K) = (2 : K) ^ (-52 : Int) := rfl

theorem eps_pos : (0 : K) < (FloatLike.epsilon : K) := by
  rw [eps_eq]; positivity

theorem lt_iff' (a b : K) : FloatLike.lt a b = true ↔ a < b := by
  show decide (a < b) = true ↔ _; simp

theorem lt_false_iff' (a b : K) : FloatLike.lt a b = false ↔ b ≤ a := by
  show decide (a < b) = false ↔ _; simp

/-- the slope chosen by `Linear.segment` -/
noncomputable def slope (k0 k1 : Knot K) : K :=
  if k1.x - k0.x < (FloatLike.epsilon : K) then 0 else (k1.y - k0.y) / (k1.x - k0.x)

/-- `Linear.segment k0 k1` is the line through `k0` with slope `slope k0 k1` -/
theorem segment_eval (k0 k1 : Knot K) (x : K) :
    Evaluate.evaluate (Linear.segment k0 k1).poly x = k0.y + slope k0 k1 * (x - k0.x) := by
  unfold slope
  exact_simp
  simp only [FloatLike.lt, decide_eq_true_eq]
  split <;> ring

theorem segment_a1 (k0 k1 : Knot K) : (Linear.segment k0 k1).poly._0.a1 = slope k0 k1 := by
  unfold slope
  exact_simp
  simp only [FloatLike.lt, decide_eq_true_eq]

theorem max_eq (a b : K) : FloatLike.max a b = Max.max a b := rfl

/-- non-decreasing abscissae are left untouched by the forcing -/
theorem forcedGo_of_chain (prev : Knot K) (ks : List (Knot K))
    (h : List.IsChain (fun a b : Knot K => a.x ≤ b.x) (prev :: ks)) : forcedGo prev ks = prev :: ks := by
  induction ks generalizing prev with
  | nil => rfl
  | cons k ks ih =>
    rw [List.isChain_cons_cons] at h
    have : (⟨FloatLike.max prev.x k.x, k.y⟩ : Knot K) = k := by
      rw [max_eq, max_eq_right h.1]
    simp only [forcedGo, this, ih k h.2]

theorem forced_of_chain (ks : List (Knot K))
    (h : List.IsChain (fun a b : Knot K => a.x ≤ b.x) ks) : forced ks = ks := by
  cases ks with
  | nil => rfl
  | cons k ks => exact forcedGo_of_chain k ks h

/-- consecutive `≤` gives `≤` between any two positions -/
theorem mono_of_step (ks : List (Knot K))
    (h : ∀ i (hi : i + 1 < ks.length), ks[i].x ≤ ks[i + 1].x)
    (i j : Nat) (hij : i ≤ j) (hj : j < ks.length) : (ks[i]'(Nat.lt_of_le_of_lt hij hj)).x ≤ ks[j].x := by
  induction j with
  | zero =>
    have : i = 0 := Nat.le_zero.mp hij
    subst this; exact le_refl _
  | succ j ih =>
    rcases Nat.lt_or_ge i (j + 1) with hlt | hge
    · exact le_trans (ih (Nat.le_of_lt_succ hlt) (Nat.lt_of_succ_lt hj)) (h j hj)
    · have : i = j + 1 := Nat.le_antisymm hij hge
      subst this; exact le_refl _

end exact

/-! ## exact interpretation: integration -/
section exactInt
variable {K : Type} [Field K] [LinearOrder K] [Transc K]
attribute [local instance] exactFL
variable {T I : Type} [HasIntegral T (Knot K) I] [Evaluate I K] [Translate I K]

/-- "translating adds a constant to every value" — true of every integral type of the crate -/
def TranslateAdds (K I : Type) [Field K] [Evaluate I K] [Translate I K] : Prop :=
  ∀ (i : I) (v x : K), Evaluate.evaluate (Translate.translate i v) x = Evaluate.evaluate i x + v

theorem seg_evaluate (A : Segment K I) (x : K) : Evaluate.evaluate A x = Evaluate.evaluate A.poly x := rfl

/-- a piece of the result differs from the indefinite integral of the source piece by a constant -/
theorem seg_integral_eval (htr : TranslateAdds K I) (s : Segment K T) (k : Knot K) (x : K) :
    Evaluate.evaluate (HasIntegral.integral s k : Segment K I).poly x =
      Evaluate.evaluate (HasIntegral.indefinite s.poly : I) x
        + (k.y - Evaluate.evaluate (HasIntegral.indefinite s.poly : I) k.x) := by
  rw [seg_integral_poly, htr]; rfl

/-- `integral s k` passes through `k` -/
theorem seg_integral_through (htr : TranslateAdds K I) (s : Segment K T) (k : Knot K) :
    Evaluate.evaluate (HasIntegral.integral s k : Segment K I).poly k.x = k.y := by
  rw [seg_integral_eval htr]; ring

/-- adjacent pieces agree at the breakpoint between them -/
def Glued (A B : Segment K I) : Prop := Evaluate.evaluate B.poly A.end = Evaluate.evaluate A.poly A.end

/-- invariant of `integralIter`: consecutive pieces are glued -/
theorem integralIter_chain (htr : TranslateAdds K I) (segs : List (Segment K T)) (k : Knot K) :
    List.IsChain Glued (integralIter segs k : List (Segment K I)) := by
  induction segs generalizing k with
  | nil => exact List.isChain_nil
  | cons s rest ih =>
    cases rest with
    | nil => exact List.isChain_singleton _
    | cons s' rest' =>
      have := ih (nextKnot (HasIntegral.integral s k : Segment K I))
      rw [integralIter_cons] at this ⊢
      rw [integralIter_cons, List.isChain_cons_cons]
      refine ⟨?_, this⟩
      exact seg_integral_through htr s' (nextKnot (HasIntegral.integral s k : Segment K I))

end exactInt

/-! `TranslateAdds` holds for every polynomial type -/
section polyTranslate
variable {K : Type} [Field K] [LinearOrder K] [Transc K]
attribute [local instance] exactFL
theorem translateAdds_poly0 : TranslateAdds K (Poly0 K) := by
  intro i v x; exact_simp
theorem translateAdds_poly1 : TranslateAdds K (Poly1 K) := by
  intro i v x; exact_simp; ring
theorem translateAdds_poly2 : TranslateAdds K (Poly2 K) := by
  intro i v x; exact_simp; ring
theorem translateAdds_poly3 : TranslateAdds K (Poly3 K) := by
  intro i v x; exact_simp; ring
theorem translateAdds_poly4 : TranslateAdds K (Poly4 K) := by
  intro i v x; exact_simp; ring
theorem translateAdds_poly5 : TranslateAdds K (Poly5 K) := by
  intro i v x; exact_simp; ring
theorem translateAdds_poly6 : TranslateAdds K (Poly6 K) := by
  intro i v x; exact_simp; ring
theorem translateAdds_poly7 : TranslateAdds K (Poly7 K) := by
  intro i v x; exact_simp; ring
theorem translateAdds_poly8 : TranslateAdds K (Poly8 K) := by
  intro i v x; exact_simp; ring

/-- … and for the integral types of the log-polynomials (any inner polynomial type) -/
theorem translateAdds_intOfLog {T : Type} [Evaluate T K] [Translate T K] :
    TranslateAdds K (IntOfLog K T) := by
  intro i v x; exact_simp; ring

theorem translateAdds_intOfLogPoly4 : TranslateAdds K (IntOfLogPoly4 K) := by
  intro i v x; exact_simp; ring

/-- the additive constant of `indefinite` is zero — literally, in every interpretation -/
theorem indefinite_a0_poly1 {F : Type} [FloatLike F] (t : Poly1 F) :
    (HasIntegral.indefinite t : Poly2 F)._0.a0 = FloatLike.ofDec 0 0 := rfl
end polyTranslate

end PP.Lemmas.LinInt
