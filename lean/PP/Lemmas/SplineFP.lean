import PP.Sem.Count
import PP.Sem.Tracked
import PP.Lemmas.Spline
import PP.Model.Poly.CalculusAttr
/-!
# Helper lemmas for the floating-point part of C04 / C05 (`PP/Props/C04Bound.lean`, `PP/Props/C05Bound.lean`)

Everything is over an arbitrary linearly ordered field `K` and an arbitrary rounding model `M : RModel K`
(`PP/Sem/Rounded.lean`: the standard model, `|rnd t − t| ≤ u·|t|`, no underflow / overflow).

* **A** `growth_num`: `(1+u)^k − 1 ≤ (k + 1/1000)·u` for `u ≤ 2⁻⁵³`, `k ≤ 1000`; `growth_sq_small`.
* **B** the counting invariant `CtInv M e a A k` (`PP/Sem/Count.lean`: `|e| ≤ A ∧ |a − e| ≤ ((1+u)^k − 1)·A`)
  extended to quotients by a quantity known to *relative* accuracy (`ct_inv`, `ct_div`: the divisor costs its own
  depth `+ 1`), `ct_cast`, `ct_weaken`.
* **C** `Spline.f_dx` in `Rounded M`: sign preservation of the computed secant slope (`slope_sign_pos/neg`), the
  rounded run takes the branch of the exact run *unconditionally* (`f_dx_same_branch`), closed form of the rounded
  run (`f_dxRounded_eq`), and the invariant `f_dx_ct` (depth 11, magnitude = the exact result itself).
* **D** `Hand.endSlope` in `Rounded M`: `endSlope_ct` (depth `max 9 (kf+5) + 1`).
* **E** `Spline.segment` in `Rounded M`: the invariant of the four coefficients (`segment_ct`, depths
  `kf + 30, 26, 22, 21`) against the explicit magnitudes `magA … magD` (the program run on absolute values, with
  `x₁ − x₀` and `|y₁ − y₀|` kept), then of the generated `Evaluate (Poly3)`, `HasDerivative (Poly3)` +
  `Evaluate (Poly2)` run in `Rounded M` on the rounded coefficients (`segment_eval_ct`, `segment_deriv_ct`), and of
  the exact evaluation of the rounded-coefficient cubic (`segment_coef_eval_ct`, `segment_coef_deriv_ct`);
  the magnitudes are non-negative, monotone in `|x|` (`segMag_mono`, `segMagD_mono`) and have the readable majorants
  `mags_le`, `segMag_le`, `segMagD_le`.
-/
set_option linter.unusedSectionVars false
set_option linter.unusedVariables false

namespace PP.Lemmas.SplineFP
open PP.Lemmas.Rounding PP.Spline

variable {K : Type} [Field K] [LinearOrder K] [IsStrictOrderedRing K]

/-! ## A. tight linearisation of the growth factor (any ordered field) -/

theorem growth_tight {u : K} (hu : 0 ≤ u) :
    ∀ k : ℕ, (k : K) * u ≤ 1 / 2 → (1 + u) ^ k - 1 ≤ k * u * (1 + 2 * k * u)
  | 0, _ => by simp
  | k + 1, hk => by
    have hk0 : (0 : K) ≤ k := Nat.cast_nonneg k
    have hk' : (k : K) * u ≤ 1 / 2 := by push_cast at hk; nlinarith
    have ih := growth_tight hu k hk'
    have h1 : (1 + u) * ((1 + u) ^ k - 1) ≤ (1 + u) * (k * u * (1 + 2 * k * u)) :=
      mul_le_mul_of_nonneg_left ih (by linarith)
    have h2 : 2 * (k : K) * ((k : K) * u) * u ^ 2 ≤ 2 * k * (1 / 2) * u ^ 2 := by
      have : 0 ≤ 2 * (k : K) * u ^ 2 := by positivity
      nlinarith
    push_cast
    have e1 : (1 + u) ^ (k + 1) - 1 = (1 + u) * ((1 + u) ^ k - 1) + u := by ring
    rw [e1]
    have hu2 : 0 ≤ u ^ 2 := by positivity
    nlinarith

theorem two_pow_neg53_le : (2 : K) ^ (-53 : ℤ) ≤ 1 / 10 ^ 15 := by
  norm_num

/-- `(1+u)^k − 1 ≤ (k + 1/1000)·u` for `u ≤ 2⁻⁵³`, `k ≤ 1000` -/
theorem growth_num {u : K} (hu : 0 ≤ u) (hu53 : u ≤ (2 : K) ^ (-53 : ℤ)) (k : ℕ) (hk : k ≤ 1000) :
    (1 + u) ^ k - 1 ≤ ((k : K) + 1 / 1000) * u := by
  have hk0 : (0 : K) ≤ k := Nat.cast_nonneg k
  have hk1 : (k : K) ≤ 1000 := by exact_mod_cast hk
  have h53 : (2 : K) ^ (-53 : ℤ) ≤ 1 / 10 ^ 15 := two_pow_neg53_le
  have hku : (k : K) * u ≤ 1 / 10 ^ 12 := by
    have := mul_le_mul hk1 (hu53.trans h53) hu (by norm_num : (0 : K) ≤ 1000)
    norm_num at this ⊢; linarith
  have h := growth_tight hu k (by linarith)
  have : (k : K) * u * (2 * k * u) ≤ 1 / 1000 * u := by
    have : 2 * (k : K) * (k * u) ≤ 1 / 1000 := by nlinarith
    nlinarith
  nlinarith

/-- the side condition of `ct_inv` / `ct_div` holds for every depth `≤ 1000` when `u ≤ 2⁻⁵³` -/
theorem growth_sq_small {u : K} (hu : 0 ≤ u) (hu53 : u ≤ (2 : K) ^ (-53 : ℤ)) (k : ℕ) (hk : k ≤ 1000) :
    ((1 + u) ^ k - 1) ^ 2 ≤ u / 2 := by
  have g0 := growth_nonneg hu k
  have g1 := growth_num hu hu53 k hk
  have hk1 : (k : K) ≤ 1000 := by exact_mod_cast hk
  have hk0 : (0 : K) ≤ k := Nat.cast_nonneg k
  have h53 : u ≤ 1 / 10 ^ 15 := hu53.trans two_pow_neg53_le
  have g2 : (1 + u) ^ k - 1 ≤ 1001 * u := by nlinarith
  have g3 : (1 + u) ^ k - 1 ≤ 1 / 10 ^ 11 := by linarith
  calc ((1 + u) ^ k - 1) ^ 2 = ((1 + u) ^ k - 1) * ((1 + u) ^ k - 1) := by ring
    _ ≤ (1 / 10 ^ 11) * (1001 * u) := mul_le_mul g3 g2 g0 (by norm_num)
    _ ≤ u / 2 := by linarith

/-! ## B. the counting invariant: casts, reciprocals, quotients -/

section ct
variable {M : RModel K} {e a A A' e' e₁ a₁ A₁ e₂ a₂ : K} {k k₁ k₂ : ℕ}

/-- the magnitude may be over-estimated -/
theorem ct_weaken (h : CtInv M e a A k) (hA : A ≤ A') : CtInv M e a A' k :=
  ⟨h.1.trans hA, h.2.trans (mul_le_mul_of_nonneg_left hA (growth_nonneg M.hu k))⟩

/-- rewrite the exact value and the magnitude -/
theorem ct_cast (h : CtInv M e a A k) (he : e = e') (hA : A = A') : CtInv M e' a A' k := by
  subst he hA; exact h

/-- read the bound off the invariant -/
theorem ct_bound (h : CtInv M e a A k) : |a - e| ≤ ((1 + M.u) ^ k - 1) * A := h.2

/-- the closed form of the bound for `u ≤ 2⁻⁵³` -/
theorem ct_bound_num (h : CtInv M e a A k) (hu : M.u ≤ (2 : K) ^ (-53 : ℤ)) (hk : k ≤ 1000) :
    |a - e| ≤ ((k : K) + 1 / 1000) * M.u * A :=
  h.2.trans (mul_le_mul_of_nonneg_right (growth_num M.hu hu k hk) h.A_nonneg)

/-- the same with the constant given as a numeral: `c = k + 1/1000` -/
theorem ct_bound_c (h : CtInv M e a A k) (hu : M.u ≤ (2 : K) ^ (-53 : ℤ)) (hk : k ≤ 1000) {c : K}
    (hc : (k : K) + 1 / 1000 = c) : |a - e| ≤ c * M.u * A := hc ▸ ct_bound_num h hu hk

/-- the computed value is at most `(1+u)^k` times the magnitude -/
theorem ct_abs_le (h : CtInv M e a A k) : |a| ≤ (1 + M.u) ^ k * A := by
  have h1 : |a| ≤ |e| + |a - e| := by
    calc |a| = |e + (a - e)| := by ring_nf
      _ ≤ _ := abs_add_le _ _
  have := h.1; have := h.2
  nlinarith

/-- reciprocal of a quantity known to *relative* accuracy: depth `+ 1` -/
theorem ct_inv (h : CtInv M e a |e| k) (he : e ≠ 0) (hs : ((1 + M.u) ^ k - 1) ^ 2 ≤ M.u / 2) :
    CtInv M e⁻¹ a⁻¹ |e|⁻¹ (k + 1) := by
  refine ⟨by rw [abs_inv], ?_⟩
  set g := (1 + M.u) ^ k - 1 with hg
  have hg0 : 0 ≤ g := growth_nonneg M.hu k
  have hu0 := M.hu
  have hu1 := M.hu1
  have hg1 : g < 1 := by
    by_contra hcon
    push Not at hcon
    nlinarith
  have hepos : 0 < |e| := abs_pos.mpr he
  have h2 := h.2
  have hlow : (1 - g) * |e| ≤ |a| := by
    have : |e| ≤ |a| + |a - e| := by
      calc |e| = |a - (a - e)| := by ring_nf
        _ ≤ |a| + |a - e| := abs_sub _ _
    linarith
  have hapos : 0 < |a| := lt_of_lt_of_le (mul_pos (by linarith) hepos) hlow
  have ha : a ≠ 0 := abs_pos.mp hapos
  have key : |a⁻¹ - e⁻¹| = |a - e| / (|a| * |e|) := by
    rw [inv_sub_inv ha he, abs_div, abs_mul, abs_sub_comm]
  have hG : (1 + M.u) ^ (k + 1) - 1 = g + M.u + g * M.u := by rw [pow_succ, hg]; ring
  rw [key, hG, div_le_iff₀ (mul_pos hapos hepos)]
  have e1 : (g + M.u + g * M.u) * |e|⁻¹ * (|a| * |e|) = (g + M.u + g * M.u) * |a| := by
    field_simp
  rw [e1]
  have h3 : (g + M.u + g * M.u) * ((1 - g) * |e|) ≤ (g + M.u + g * M.u) * |a| :=
    mul_le_mul_of_nonneg_left hlow (by positivity)
  have h4 : g * |e| ≤ (g + M.u + g * M.u) * ((1 - g) * |e|) := by
    have : g ≤ (g + M.u + g * M.u) * (1 - g) := by nlinarith [mul_nonneg hg0 hg0, mul_nonneg (mul_nonneg hg0 hg0) hu0]
    nlinarith
  linarith

/-- quotient by a quantity known to relative accuracy: depths `k₁ + k₂ + 1` (before the rounding of the
quotient itself) -/
theorem ct_div (h₁ : CtInv M e₁ a₁ A₁ k₁) (h₂ : CtInv M e₂ a₂ |e₂| k₂) (he : e₂ ≠ 0)
    (hs : ((1 + M.u) ^ k₂ - 1) ^ 2 ≤ M.u / 2) :
    CtInv M (e₁ / e₂) (a₁ / a₂) (A₁ / |e₂|) (k₁ + (k₂ + 1)) := by
  have := h₁.prod (ct_inv h₂ he hs)
  simpa only [div_eq_mul_inv] using this

end ct


/-- the exact value of the decimal literal `n.0` as the model writes it (`ofDec n 0`) -/
abbrev lit (K : Type) [Field K] (n : ℤ) : K := ((n : ℤ) : K) * (10 : K) ^ (0 : ℤ)

theorem lit_eq (n : ℤ) : lit K n = (n : K) := by simp [lit]

/-! ## C. `Spline.f_dx` in `Rounded M` -/
section fdx
variable [Transc K] (M : RModel K)
attribute [local instance] exactFL

/-- the secant slope as the rounded run computes it -/
@[reducible] noncomputable def slopeR (ka kb : Knot K) : K :=
  M.rnd (M.rnd (kb.y - ka.y) / M.rnd (kb.x - ka.x))

theorem slope_sign_pos (ka kb : Knot K) (hx : ka.x < kb.x) : 0 < slopeR M ka kb ↔ 0 < secant ka kb := by
  have hd : 0 < kb.x - ka.x := sub_pos.mpr hx
  have hd' : 0 < M.rnd (kb.x - ka.x) := M.rnd_pos_iff.mpr hd
  unfold slopeR secant
  rw [M.rnd_pos_iff, div_pos_iff_of_pos_right hd', M.rnd_pos_iff, div_pos_iff_of_pos_right hd]

theorem slope_sign_neg (ka kb : Knot K) (hx : ka.x < kb.x) : slopeR M ka kb < 0 ↔ secant ka kb < 0 := by
  have hd : 0 < kb.x - ka.x := sub_pos.mpr hx
  have hd' : 0 < M.rnd (kb.x - ka.x) := M.rnd_pos_iff.mpr hd
  unfold slopeR secant
  rw [M.rnd_neg_iff, div_lt_iff₀ hd', zero_mul, M.rnd_neg_iff, div_lt_iff₀ hd, zero_mul]

/-- the sign of the product of the two computed slopes is the sign of the exact product -/
theorem slope_mul_nonpos_iff (k0 k1 k2 : Knot K) (h01 : k0.x < k1.x) (h12 : k1.x < k2.x) :
    slopeR M k0 k1 * slopeR M k1 k2 ≤ 0 ↔ secant k0 k1 * secant k1 k2 ≤ 0 := by
  rw [← not_lt, ← not_lt, mul_pos_iff, mul_pos_iff, slope_sign_pos M k0 k1 h01, slope_sign_pos M k1 k2 h12,
    slope_sign_neg M k0 k1 h01, slope_sign_neg M k1 k2 h12]

/-- **branch agreement, unconditional**: the test `slope01 * slope12 <= 0.0` of the rounded run has the outcome of the
exact test (every rounding preserves signs; `0.0` is exact) -/
theorem f_dx_same_branch (k0 k1 k2 : Knot K) (h01 : k0.x < k1.x) (h12 : k1.x < k2.x) :
    FloatLike.le (FloatLike.mul (⟨slopeR M k0 k1⟩ : Rounded M) ⟨slopeR M k1 k2⟩) (FloatLike.ofDec 0 0)
      = decide (secant k0 k1 * secant k1 k2 ≤ 0) := by
  show FloatLike.le (⟨M.rnd (slopeR M k0 k1 * slopeR M k1 k2)⟩ : Rounded M) (FloatLike.ofDec 0 0) = _
  rw [Tr.rnd_le_zero, decide_eq_decide]
  exact slope_mul_nonpos_iff M k0 k1 k2 h01 h12

/-- the harmonic-mean branch as the rounded run computes it -/
@[reducible] noncomputable def harmR (k0 k1 k2 : Knot K) : K :=
  M.rnd (M.rnd (lit K 2) / M.rnd (M.rnd (M.rnd (lit K 1) / slopeR M k0 k1) + M.rnd (M.rnd (lit K 1) / slopeR M k1 k2)))

/-- closed form of the rounded run of `f_dx` -/
theorem f_dxRounded_eq (k0 k1 k2 : Knot K) (h01 : k0.x < k1.x) (h12 : k1.x < k2.x) :
    Spline.f_dxRounded M k0 k1 k2 = if secant k0 k1 * secant k1 k2 ≤ 0 then 0 else harmR M k0 k1 k2 := by
  have hb := f_dx_same_branch M k0 k1 k2 h01 h12
  unfold Spline.f_dxRounded Spline.f_dx
  simp only []
  rw [apply_ite Rounded.val]
  have h0 : (FloatLike.ofDec 0 0 : Rounded M).val = 0 := by rw [Rounded.ofDec_zero]
  rw [h0]
  have hc := Iff.of_eq (congrArg (· = true) hb)
  rw [decide_eq_true_eq] at hc
  exact if_congr hc rfl rfl


theorem lit_zero : lit K 0 = 0 := by simp [lit]
theorem abs_lit_one : |lit K 1| = 1 := by simp [lit]
theorem abs_lit_two : |lit K 2| = 2 := by simp [lit]
theorem abs_lit_three : |lit K 3| = 3 := by simp [lit]
theorem abs_lit_six : |lit K 6| = 6 := by simp [lit]
theorem lit_one : lit K 1 = 1 := by simp [lit]
theorem lit_two : lit K 2 = 2 := by simp [lit]
theorem lit_three : lit K 3 = 3 := by simp [lit]
theorem lit_six : lit K 6 = 6 := by simp [lit]

/-- the exact run of `f_dx`, literals as the model writes them -/
theorem f_dx_exact_eq (k0 k1 k2 : Knot K) :
    Spline.f_dx k0 k1 k2 = if secant k0 k1 * secant k1 k2 ≤ 0 then 0
      else lit K 2 / (lit K 1 / secant k0 k1 + lit K 1 / secant k1 k2) := by
  unfold Spline.f_dx
  simp only []
  show (if decide (secant k0 k1 * secant k1 k2 ≤ lit K 0) = true then lit K 0 else _) = _
  rw [lit_zero]
  simp only [decide_eq_true_eq]
  rfl

/-- the computed secant slope: relative error of depth 4 -/
theorem slope_ct (hu : M.u ≤ (2 : K) ^ (-53 : ℤ)) (ka kb : Knot K) (hx : ka.x < kb.x) :
    CtInv M (secant ka kb) (slopeR M ka kb) |secant ka kb| 4 := by
  have hd : kb.x - ka.x ≠ 0 := (sub_pos.mpr hx).ne'
  have DY := CtInv.lit M (kb.y - ka.y)
  have DX := CtInv.lit M (kb.x - ka.x)
  have := (ct_div DY DX hd (growth_sq_small M.hu hu 1 (by norm_num))).rnd
  exact ct_cast this rfl (by rw [abs_div])

theorem abs_add_of_mul_pos {a b : K} (h : 0 < a * b) : |a| + |b| = |a + b| := by
  rcases mul_pos_iff.mp h with ⟨ha, hb⟩ | ⟨ha, hb⟩
  · rw [abs_of_pos ha, abs_of_pos hb, abs_of_pos (by linarith)]
  · rw [abs_of_neg ha, abs_of_neg hb, abs_of_neg (by linarith)]; ring

/-- the harmonic-mean branch: relative error of depth 11 -/
theorem harm_ct (hu : M.u ≤ (2 : K) ^ (-53 : ℤ)) (k0 k1 k2 : Knot K) (h01 : k0.x < k1.x) (h12 : k1.x < k2.x)
    (hpos : 0 < secant k0 k1 * secant k1 k2) :
    CtInv M (lit K 2 / (lit K 1 / secant k0 k1 + lit K 1 / secant k1 k2)) (harmR M k0 k1 k2)
      |lit K 2 / (lit K 1 / secant k0 k1 + lit K 1 / secant k1 k2)| 11 := by
  have hs := fun k hk => growth_sq_small M.hu hu k hk
  have S01 := slope_ct M hu k0 k1 h01
  have S12 := slope_ct M hu k1 k2 h12
  have n01 : secant k0 k1 ≠ 0 := fun h => by rw [h, zero_mul] at hpos; exact lt_irrefl _ hpos
  have n12 : secant k1 k2 ≠ 0 := fun h => by rw [h, mul_zero] at hpos; exact lt_irrefl _ hpos
  have L1 := CtInv.lit M (lit K 1)
  have L2 := CtInv.lit M (lit K 2)
  have R01 := (ct_div L1 S01 n01 (hs 4 (by norm_num))).rnd
  have R12 := (ct_div L1 S12 n12 (hs 4 (by norm_num))).rnd
  have hrr : 0 < lit K 1 / secant k0 k1 * (lit K 1 / secant k1 k2) := by
    rw [lit_one, div_mul_div_comm, one_mul]; exact div_pos one_pos hpos
  have hA : |lit K 1| / |secant k0 k1| + |lit K 1| / |secant k1 k2|
      = |lit K 1 / secant k0 k1 + lit K 1 / secant k1 k2| := by
    rw [← abs_div, ← abs_div]; exact abs_add_of_mul_pos hrr
  have SUM := ct_cast (R01.add R12) rfl hA
  have nS : lit K 1 / secant k0 k1 + lit K 1 / secant k1 k2 ≠ 0 := by
    intro h
    rw [h, abs_zero] at hA
    have h1 : 0 < |lit K 1| / |secant k0 k1| := div_pos (by rw [abs_lit_one]; exact one_pos) (abs_pos.mpr n01)
    have h2 : 0 < |lit K 1| / |secant k1 k2| := div_pos (by rw [abs_lit_one]; exact one_pos) (abs_pos.mpr n12)
    linarith
  have FIN := (ct_div L2 SUM nS (hs _ (by norm_num))).rnd
  exact ct_cast (FIN.mono (by norm_num)) rfl (by rw [abs_div])

/-- **`f_dx` in rounded arithmetic, both branches**: the computed interior slope approximates the exact one
(`0` or the harmonic mean) with relative error of depth 11 — and with NO error in the `0` branch. -/
theorem f_dx_ct (hu : M.u ≤ (2 : K) ^ (-53 : ℤ)) (k0 k1 k2 : Knot K) (h01 : k0.x < k1.x) (h12 : k1.x < k2.x) :
    CtInv M (Spline.f_dx k0 k1 k2) (Spline.f_dxRounded M k0 k1 k2) |Spline.f_dx k0 k1 k2| 11 := by
  rw [f_dxRounded_eq M k0 k1 k2 h01 h12, f_dx_exact_eq]
  split
  · exact ⟨by simp, by simp⟩
  · rename_i h
    exact harm_ct M hu k0 k1 k2 h01 h12 (not_le.mp h)

end fdx

/-! ## D. `Hand.endSlope` (eq. 7b / 7c) in `Rounded M` -/
section endslope
variable [Transc K] (M : RModel K)
attribute [local instance] exactFL

/-- eq. 7b/7c run in rounded arithmetic on exact knots and an already computed neighbouring slope `g` -/
@[reducible] noncomputable def endSlopeRounded (ka kb : Knot K) (g : K) : K :=
  (Hand.endSlope (ka.mapF Rounded.mk) (kb.mapF Rounded.mk) (⟨g⟩ : Rounded M)).val

/-- the end-knot slope: if the neighbouring slope `g` approximates `f` with depth `kf` and magnitude `G`, the
computed end slope approximates `3/2·s − f/2` with depth `max 9 (kf+5) + 1` and magnitude `3/2·|s| + G/2` -/
theorem endSlope_ct (hu : M.u ≤ (2 : K) ^ (-53 : ℤ)) (ka kb : Knot K) (hx : ka.x < kb.x)
    {f g G : K} {kf : ℕ} (hf : CtInv M f g G kf) :
    CtInv M (Hand.endSlope ka kb f) (endSlopeRounded M ka kb g)
      (3 / 2 * |secant ka kb| + 1 / 2 * G) (max 9 (kf + 5) + 1) := by
  have hs := fun k hk => growth_sq_small M.hu hu k hk
  have hd : kb.x - ka.x ≠ 0 := (sub_pos.mpr hx).ne'
  have n2 : lit K 2 ≠ 0 := by rw [lit_two]; norm_num
  have L1 := CtInv.lit M (lit K 1)
  have L2 := CtInv.lit M (lit K 2)
  have L3 := CtInv.lit M (lit K 3)
  have DY := CtInv.lit M (kb.y - ka.y)
  have DX := CtInv.lit M (kb.x - ka.x)
  have T32 := (ct_div L3 L2 n2 (hs 1 (by norm_num))).rnd
  have T12 := (ct_div L1 L2 n2 (hs 1 (by norm_num))).rnd
  have Q := (ct_div (T32.mul DY) DX hd (hs 1 (by norm_num))).rnd
  have RES := Q.sub (T12.mul hf)
  refine ct_cast (RES.mono (by omega)) rfl ?_
  rw [abs_lit_one, abs_lit_two, abs_lit_three, abs_div]
  ring

end endslope

/-! ## E. `Spline.segment` in `Rounded M` -/

/-! ### the magnitudes: `segment` run on absolute values (`x₁ − x₀` and `|y₁ − y₀|` kept) -/
section mags
variable (G0 : K) (k0 : Knot K) (G1 : K) (k1 : Knot K)

/-- `|slope| = |y₁ − y₀| / (x₁ − x₀)` -/
def magS : K := |k1.y - k0.y| / (k1.x - k0.x)
/-- magnitude of `f_x0_dx_dx = 2(3·slope − (f₁ + 2f₀))/dx` -/
def magQ0 : K := 2 * (3 * magS k0 k1 + (G1 + 2 * G0)) / (k1.x - k0.x)
/-- magnitude of `f_x1_dx_dx = 2((2f₁ + f₀) − 3·slope)/dx` -/
def magQ1 : K := 2 * ((2 * G1 + G0) + 3 * magS k0 k1) / (k1.x - k0.x)
/-- magnitude of the cubic coefficient `d = (1/6)(q₁ − q₀)/dx` -/
def magD : K := 1 / 6 * (magQ1 G0 k0 G1 k1 + magQ0 G0 k0 G1 k1) / (k1.x - k0.x)
/-- magnitude of the quadratic coefficient `c = (1/2)(x₁q₀ − x₀q₁)/dx` -/
def magC : K := 1 / 2 * (|k1.x| * magQ0 G0 k0 G1 k1 + |k0.x| * magQ1 G0 k0 G1 k1) / (k1.x - k0.x)
/-- magnitude of the linear coefficient `b = slope − c(x₁+x₀) − d(x₁² + x₁x₀ + x₀²)` -/
def magB : K := magS k0 k1 + magC G0 k0 G1 k1 * (|k1.x| + |k0.x|)
  + magD G0 k0 G1 k1 * (|k1.x| * |k1.x| + |k1.x| * |k0.x| + |k0.x| * |k0.x|)
/-- magnitude of the constant coefficient `a = y₀ − b·x₀ − c·x₀² − d·x₀²·x₀` -/
def magA : K := |k0.y| + magB G0 k0 G1 k1 * |k0.x| + magC G0 k0 G1 k1 * (|k0.x| * |k0.x|)
  + magD G0 k0 G1 k1 * (|k0.x| * |k0.x|) * |k0.x|
end mags

section segment
variable [Transc K] (M : RModel K)
attribute [local instance] exactFL

/-- **the four coefficients of `Spline.segment` in rounded arithmetic**: for end slopes given to depth `kf`
(`kf = 0`: exact inputs), each computed coefficient approximates the exact one with the stated depth against the
stated magnitude. -/
theorem segment_ct (hu : M.u ≤ (2 : K) ^ (-53 : ℤ)) (k0 k1 : Knot K) (hx : k0.x < k1.x)
    {f0 g0 G0 f1 g1 G1 : K} {kf : ℕ} (hf0 : CtInv M f0 g0 G0 kf) (hf1 : CtInv M f1 g1 G1 kf) :
    let E := Spline.segment f0 k0 f1 k1
    let R := Spline.segmentRounded M g0 k0 g1 k1
    CtInv M E.poly._0.a0 R.poly._0.a0.val (magA G0 k0 G1 k1) (kf + 30) ∧
    CtInv M E.poly._0.a1 R.poly._0.a1.val (magB G0 k0 G1 k1) (kf + 26) ∧
    CtInv M E.poly._0.a2 R.poly._0.a2.val (magC G0 k0 G1 k1) (kf + 22) ∧
    CtInv M E.poly._0.a3 R.poly._0.a3.val (magD G0 k0 G1 k1) (kf + 21) := by
  intro E R
  have hs := growth_sq_small M.hu hu 1 (by norm_num)
  have hdp : 0 < k1.x - k0.x := sub_pos.mpr hx
  have hd : k1.x - k0.x ≠ 0 := hdp.ne'
  have n2 : lit K 2 ≠ 0 := by rw [lit_two]; norm_num
  have n6 : lit K 6 ≠ 0 := by rw [lit_six]; norm_num
  have L1 := CtInv.lit M (lit K 1)
  have L2 := CtInv.lit M (lit K 2)
  have L3 := CtInv.lit M (lit K 3)
  have L6 := CtInv.lit M (lit K 6)
  have X0 := CtInv.inp M k0.x
  have X1 := CtInv.inp M k1.x
  have Y0 := CtInv.inp M k0.y
  have DY := CtInv.lit M (k1.y - k0.y)
  have DX := CtInv.lit M (k1.x - k0.x)
  have SL := (ct_div DY DX hd hs).rnd
  have X00 := X0.mul X0
  have Q0 := (ct_div (L2.mul ((L3.mul SL).sub (hf1.add (L2.mul hf0)))) DX hd hs).rnd
  have Q1 := (ct_div (L2.mul (((L2.mul hf1).add hf0).sub (L3.mul SL))) DX hd hs).rnd
  have S6 := (ct_div L1 L6 n6 hs).rnd
  have S2 := (ct_div L1 L2 n2 hs).rnd
  have D := (ct_div (S6.mul (Q1.sub Q0)) DX hd hs).rnd
  have C := (ct_div (S2.mul ((X1.mul Q0).sub (X0.mul Q1))) DX hd hs).rnd
  have B := (SL.sub (C.mul (X1.add X0))).sub (D.mul (((X1.mul X1).add (X1.mul X0)).add X00))
  have A := ((Y0.sub (B.mul X0)).sub (C.mul X00)).sub ((D.mul X00).mul X0)
  have hadx : |k1.x - k0.x| = k1.x - k0.x := abs_of_pos hdp
  refine ⟨ct_cast (A.mono (by omega)) rfl ?_, ct_cast (B.mono (by omega)) rfl ?_,
    ct_cast (C.mono (by omega)) rfl ?_, ct_cast (D.mono (by omega)) rfl ?_⟩
  all_goals
    simp only [magA, magB, magC, magD, magQ0, magQ1, magS, abs_lit_one, abs_lit_two, abs_lit_three, abs_lit_six,
      hadx]

/-! ### evaluation of the computed cubic and of its derivative -/

/-- the cubic whose coefficients are the computed ones, as a polynomial over `K` -/
@[reducible] noncomputable def segPoly (g0 : K) (k0 : Knot K) (g1 : K) (k1 : Knot K) : Poly3 K :=
  (Spline.segmentRounded M g0 k0 g1 k1).poly.mapF Rounded.val

/-- `Σ_j A_j·|x|^j`: the magnitudes of the terms of the cubic at `x` -/
def segMag (G0 : K) (k0 : Knot K) (G1 : K) (k1 : Knot K) (x : K) : K :=
  magA G0 k0 G1 k1 + magB G0 k0 G1 k1 * |x| + magC G0 k0 G1 k1 * |x| ^ 2 + magD G0 k0 G1 k1 * |x| ^ 3
/-- `Σ_j j·A_j·|x|^(j-1)`: the magnitudes of the terms of the derivative at `x` -/
def segMagD (G0 : K) (k0 : Knot K) (G1 : K) (k1 : Knot K) (x : K) : K :=
  magB G0 k0 G1 k1 + 2 * magC G0 k0 G1 k1 * |x| + 3 * magD G0 k0 G1 k1 * |x| ^ 2

variable (hu : M.u ≤ (2 : K) ^ (-53 : ℤ)) (k0 k1 : Knot K) (hx : k0.x < k1.x)
  {f0 g0 G0 f1 g1 G1 : K} {kf : ℕ} (hf0 : CtInv M f0 g0 G0 kf) (hf1 : CtInv M f1 g1 G1 kf) (x : K)
include hu hx hf0 hf1

/-- the generated `Evaluate (Poly3)` run in `Rounded M` on the computed coefficients, at an exact `x` -/
theorem segment_eval_ct :
    CtInv M (Evaluate.evaluate (Spline.segment f0 k0 f1 k1).poly x)
      (Evaluate.evaluate (Spline.segmentRounded M g0 k0 g1 k1).poly (⟨x⟩ : Rounded M)).val
      (segMag G0 k0 G1 k1 x) (kf + 32) := by
  obtain ⟨hA, hB, hC, hD⟩ := segment_ct M hu k0 k1 hx hf0 hf1
  have X := CtInv.inp M x
  have RES := (hD.fma X hC).fma (X.mul X) (hB.fma X hA)
  refine ct_cast (RES.mono (by omega)) rfl ?_
  simp only [segMag]; ring

/-- the exact value at `x` of the cubic with the computed coefficients -/
theorem segment_coef_eval_ct :
    CtInv M (Evaluate.evaluate (Spline.segment f0 k0 f1 k1).poly x)
      (Evaluate.evaluate (segPoly M g0 k0 g1 k1) x) (segMag G0 k0 G1 k1 x) (kf + 30) := by
  obtain ⟨hA, hB, hC, hD⟩ := segment_ct M hu k0 k1 hx hf0 hf1
  have X := CtInv.inp M x
  have RES := (((hD.prod X).sum hC).prod (X.prod X)).sum ((hB.prod X).sum hA)
  refine ct_cast (RES.mono (by omega)) rfl ?_
  simp only [segMag]; ring

/-- the generated `HasDerivative (Poly3)` and `Evaluate (Poly2)` run in `Rounded M` on the computed coefficients -/
theorem segment_deriv_ct :
    CtInv M (Evaluate.evaluate (HasDerivative.derivative (Spline.segment f0 k0 f1 k1).poly) x)
      (Evaluate.evaluate (HasDerivative.derivative (Spline.segmentRounded M g0 k0 g1 k1).poly) (⟨x⟩ : Rounded M)).val
      (segMagD G0 k0 G1 k1 x) (kf + 28) := by
  obtain ⟨hA, hB, hC, hD⟩ := segment_ct M hu k0 k1 hx hf0 hf1
  have X := CtInv.inp M x
  have L2 := CtInv.lit M (lit K 2)
  have L3 := CtInv.lit M (lit K 3)
  have RES := (L3.mul hD).fma (X.mul X) ((L2.mul hC).fma X hB)
  refine ct_cast (RES.mono (by omega)) rfl ?_
  simp only [segMagD, abs_lit_two, abs_lit_three]; ring

/-- the exact derivative at `x` of the cubic with the computed coefficients -/
theorem segment_coef_deriv_ct :
    CtInv M (Evaluate.evaluate (HasDerivative.derivative (Spline.segment f0 k0 f1 k1).poly) x)
      (Evaluate.evaluate (HasDerivative.derivative (segPoly M g0 k0 g1 k1)) x)
      (segMagD G0 k0 G1 k1 x) (kf + 26) := by
  obtain ⟨hA, hB, hC, hD⟩ := segment_ct M hu k0 k1 hx hf0 hf1
  have X := CtInv.inp M x
  have I2 := CtInv.inp M (lit K 2)
  have I3 := CtInv.inp M (lit K 3)
  have RES := ((I3.prod hD).prod (X.prod X)).sum (((I2.prod hC).prod X).sum hB)
  refine ct_cast (RES.mono (by omega)) rfl ?_
  simp only [segMagD, abs_lit_two, abs_lit_three]; ring

end segment
/-! ### the magnitudes are non-negative, monotone in `|x|`, and have readable majorants -/
section magfacts
variable {G0 G1 : K} {k0 k1 : Knot K} (hx : k0.x < k1.x) (hG0 : 0 ≤ G0) (hG1 : 0 ≤ G1)
include hx

theorem magS_nonneg : 0 ≤ magS k0 k1 := div_nonneg (abs_nonneg _) (sub_pos.mpr hx).le

include hG0 hG1
theorem magQ0_nonneg : 0 ≤ magQ0 G0 k0 G1 k1 := by
  have := magS_nonneg hx; have := sub_pos.mpr hx
  unfold magQ0; positivity
theorem magQ1_nonneg : 0 ≤ magQ1 G0 k0 G1 k1 := by
  have := magS_nonneg hx; have := sub_pos.mpr hx
  unfold magQ1; positivity
theorem magD_nonneg : 0 ≤ magD G0 k0 G1 k1 := by
  have := magQ0_nonneg hx hG0 hG1; have := magQ1_nonneg hx hG0 hG1; have := sub_pos.mpr hx
  unfold magD; positivity
theorem magC_nonneg : 0 ≤ magC G0 k0 G1 k1 := by
  have := magQ0_nonneg hx hG0 hG1; have := magQ1_nonneg hx hG0 hG1; have := sub_pos.mpr hx
  unfold magC; positivity
theorem magB_nonneg : 0 ≤ magB G0 k0 G1 k1 := by
  have := magS_nonneg hx; have := magC_nonneg hx hG0 hG1; have := magD_nonneg hx hG0 hG1
  unfold magB; positivity
theorem magA_nonneg : 0 ≤ magA G0 k0 G1 k1 := by
  have := magB_nonneg hx hG0 hG1; have := magC_nonneg hx hG0 hG1; have := magD_nonneg hx hG0 hG1
  unfold magA; positivity

theorem segMag_nonneg (x : K) : 0 ≤ segMag G0 k0 G1 k1 x := by
  have := magA_nonneg hx hG0 hG1; have := magB_nonneg hx hG0 hG1; have := magC_nonneg hx hG0 hG1
  have := magD_nonneg hx hG0 hG1
  unfold segMag; positivity
theorem segMagD_nonneg (x : K) : 0 ≤ segMagD G0 k0 G1 k1 x := by
  have := magB_nonneg hx hG0 hG1; have := magC_nonneg hx hG0 hG1; have := magD_nonneg hx hG0 hG1
  unfold segMagD; positivity

/-- `S` is monotone in `|x|` -/
theorem segMag_mono {x X : K} (h : |x| ≤ X) : segMag G0 k0 G1 k1 x ≤ segMag G0 k0 G1 k1 X := by
  have hB := magB_nonneg hx hG0 hG1; have hC := magC_nonneg hx hG0 hG1; have hD := magD_nonneg hx hG0 hG1
  have hX : |x| ≤ |X| := h.trans (le_abs_self X)
  have h0 := abs_nonneg x
  have h2 : |x| ^ 2 ≤ |X| ^ 2 := pow_le_pow_left₀ h0 hX 2
  have h3 : |x| ^ 3 ≤ |X| ^ 3 := pow_le_pow_left₀ h0 hX 3
  unfold segMag
  have := mul_le_mul_of_nonneg_left hX hB
  have := mul_le_mul_of_nonneg_left h2 hC
  have := mul_le_mul_of_nonneg_left h3 hD
  linarith
theorem segMagD_mono {x X : K} (h : |x| ≤ X) : segMagD G0 k0 G1 k1 x ≤ segMagD G0 k0 G1 k1 X := by
  have hC := magC_nonneg hx hG0 hG1; have hD := magD_nonneg hx hG0 hG1
  have hX : |x| ≤ |X| := h.trans (le_abs_self X)
  have h0 := abs_nonneg x
  have h2 : |x| ^ 2 ≤ |X| ^ 2 := pow_le_pow_left₀ h0 hX 2
  unfold segMagD
  have := mul_le_mul_of_nonneg_left hX (by positivity : 0 ≤ 2 * magC G0 k0 G1 k1)
  have := mul_le_mul_of_nonneg_left h2 (by positivity : 0 ≤ 3 * magD G0 k0 G1 k1)
  linarith

/-- readable majorants of the coefficient magnitudes: with `h = x₁ − x₀`, `X ≥ |x₀|, |x₁|` and
`T = |s| + G0 + G1`:  `A_d ≤ 2T/h²`, `A_c ≤ 6XT/h²`, `A_b ≤ |s| + 18X²T/h²`, `A_a ≤ |y₀| + |s|X + 26X³T/h²` -/
theorem mags_le {X : K} (h0 : |k0.x| ≤ X) (h1 : |k1.x| ≤ X) :
    let c := (magS k0 k1 + G0 + G1) / (k1.x - k0.x) / (k1.x - k0.x)
    magD G0 k0 G1 k1 ≤ 2 * c ∧ magC G0 k0 G1 k1 ≤ 6 * X * c ∧
    magB G0 k0 G1 k1 ≤ magS k0 k1 + 18 * X ^ 2 * c ∧
    magA G0 k0 G1 k1 ≤ |k0.y| + magS k0 k1 * X + 26 * X ^ 3 * c := by
  intro c
  have hh := sub_pos.mpr hx
  have hS := magS_nonneg hx
  have hX : 0 ≤ X := (abs_nonneg _).trans h0
  set T := magS k0 k1 + G0 + G1 with hT
  have hT0 : 0 ≤ T := by positivity
  have hc0 : 0 ≤ c := by positivity
  have q0 : magQ0 G0 k0 G1 k1 ≤ 6 * T / (k1.x - k0.x) :=
    div_le_div_of_nonneg_right (by linarith) hh.le
  have q1 : magQ1 G0 k0 G1 k1 ≤ 6 * T / (k1.x - k0.x) :=
    div_le_div_of_nonneg_right (by linarith) hh.le
  have hq0 := magQ0_nonneg hx hG0 hG1
  have hq1 := magQ1_nonneg hx hG0 hG1
  have hq : 0 ≤ 6 * T / (k1.x - k0.x) := by positivity
  have d : magD G0 k0 G1 k1 ≤ 2 * c := by
    calc magD G0 k0 G1 k1 ≤ 1 / 6 * (6 * T / (k1.x - k0.x) + 6 * T / (k1.x - k0.x)) / (k1.x - k0.x) :=
          div_le_div_of_nonneg_right (by linarith) hh.le
      _ = 2 * c := by ring
  have cc : magC G0 k0 G1 k1 ≤ 6 * X * c := by
    have a1 : |k1.x| * magQ0 G0 k0 G1 k1 ≤ X * (6 * T / (k1.x - k0.x)) := mul_le_mul h1 q0 hq0 hX
    have a0 : |k0.x| * magQ1 G0 k0 G1 k1 ≤ X * (6 * T / (k1.x - k0.x)) := mul_le_mul h0 q1 hq1 hX
    calc magC G0 k0 G1 k1
        ≤ 1 / 2 * (X * (6 * T / (k1.x - k0.x)) + X * (6 * T / (k1.x - k0.x))) / (k1.x - k0.x) :=
          div_le_div_of_nonneg_right (by linarith) hh.le
      _ = 6 * X * c := by ring
  have hD0 := magD_nonneg hx hG0 hG1
  have hC0 := magC_nonneg hx hG0 hG1
  have a0 := abs_nonneg k0.x
  have a1 := abs_nonneg k1.x
  have p11 : |k1.x| * |k1.x| ≤ X * X := mul_le_mul h1 h1 a1 hX
  have p10 : |k1.x| * |k0.x| ≤ X * X := mul_le_mul h1 h0 a0 hX
  have p00 : |k0.x| * |k0.x| ≤ X * X := mul_le_mul h0 h0 a0 hX
  have b : magB G0 k0 G1 k1 ≤ magS k0 k1 + 18 * X ^ 2 * c := by
    have b1 : magC G0 k0 G1 k1 * (|k1.x| + |k0.x|) ≤ 6 * X * c * (X + X) :=
      mul_le_mul cc (by linarith) (by positivity) (by positivity)
    have b2 : magD G0 k0 G1 k1 * (|k1.x| * |k1.x| + |k1.x| * |k0.x| + |k0.x| * |k0.x|)
        ≤ 2 * c * (X * X + X * X + X * X) :=
      mul_le_mul d (by linarith) (by positivity) (by positivity)
    unfold magB
    calc _ ≤ magS k0 k1 + 6 * X * c * (X + X) + 2 * c * (X * X + X * X + X * X) := by linarith
      _ = _ := by ring
  have hB0 := magB_nonneg hx hG0 hG1
  refine ⟨d, cc, b, ?_⟩
  have e1 : magB G0 k0 G1 k1 * |k0.x| ≤ (magS k0 k1 + 18 * X ^ 2 * c) * X :=
    mul_le_mul b h0 a0 (by positivity)
  have e2 : magC G0 k0 G1 k1 * (|k0.x| * |k0.x|) ≤ 6 * X * c * (X * X) :=
    mul_le_mul cc p00 (by positivity) (by positivity)
  have e3 : magD G0 k0 G1 k1 * (|k0.x| * |k0.x|) * |k0.x| ≤ 2 * c * (X * X) * X :=
    mul_le_mul (mul_le_mul d p00 (by positivity) (by positivity)) h0 a0 (by positivity)
  unfold magA
  calc _ ≤ |k0.y| + (magS k0 k1 + 18 * X ^ 2 * c) * X + 6 * X * c * (X * X) + 2 * c * (X * X) * X := by linarith
    _ = _ := by ring

/-- **readable majorant of `S`**: for `|x₀|, |x₁|, |x| ≤ X`:
`S(x) ≤ |y₀| + 2·|s|·X + 52·(|s| + G0 + G1)·X³/h²` — the conditioning `(X/h)²` is explicit -/
theorem segMag_le {X x : K} (h0 : |k0.x| ≤ X) (h1 : |k1.x| ≤ X) (hxX : |x| ≤ X) :
    segMag G0 k0 G1 k1 x
      ≤ |k0.y| + 2 * magS k0 k1 * X + 52 * X ^ 3 * ((magS k0 k1 + G0 + G1) / (k1.x - k0.x) / (k1.x - k0.x)) := by
  obtain ⟨d, c, b, a⟩ := mags_le hx hG0 hG1 h0 h1
  have hX : 0 ≤ X := (abs_nonneg _).trans h0
  have hB0 := magB_nonneg hx hG0 hG1
  have hC0 := magC_nonneg hx hG0 hG1
  have hD0 := magD_nonneg hx hG0 hG1
  have ax := abs_nonneg x
  have p2 : |x| ^ 2 ≤ X ^ 2 := pow_le_pow_left₀ ax hxX 2
  have p3 : |x| ^ 3 ≤ X ^ 3 := pow_le_pow_left₀ ax hxX 3
  have hS := magS_nonneg hx
  have hc0 : 0 ≤ (magS k0 k1 + G0 + G1) / (k1.x - k0.x) / (k1.x - k0.x) := by
    have := sub_pos.mpr hx; positivity
  have e1 := mul_le_mul b hxX ax (by positivity)
  have e2 := mul_le_mul c p2 (by positivity) (by positivity)
  have e3 := mul_le_mul d p3 (by positivity) (by positivity)
  unfold segMag
  calc _ ≤ _ := add_le_add (add_le_add (add_le_add a e1) e2) e3
    _ = _ := by ring

/-- **readable majorant of `S'`**: `S'(x) ≤ |s| + 36·(|s| + G0 + G1)·X²/h²` -/
theorem segMagD_le {X x : K} (h0 : |k0.x| ≤ X) (h1 : |k1.x| ≤ X) (hxX : |x| ≤ X) :
    segMagD G0 k0 G1 k1 x
      ≤ magS k0 k1 + 36 * X ^ 2 * ((magS k0 k1 + G0 + G1) / (k1.x - k0.x) / (k1.x - k0.x)) := by
  obtain ⟨d, c, b, a⟩ := mags_le hx hG0 hG1 h0 h1
  have hX : 0 ≤ X := (abs_nonneg _).trans h0
  have hC0 := magC_nonneg hx hG0 hG1
  have hD0 := magD_nonneg hx hG0 hG1
  have ax := abs_nonneg x
  have p2 : |x| ^ 2 ≤ X ^ 2 := pow_le_pow_left₀ ax hxX 2
  have hc0 : 0 ≤ (magS k0 k1 + G0 + G1) / (k1.x - k0.x) / (k1.x - k0.x) := by
    have := sub_pos.mpr hx; have := magS_nonneg hx; positivity
  have e2 : 2 * magC G0 k0 G1 k1 * |x| ≤ 2 * (6 * X * ((magS k0 k1 + G0 + G1) / (k1.x - k0.x) / (k1.x - k0.x))) * X :=
    mul_le_mul (by linarith) hxX ax (by positivity)
  have e3 : 3 * magD G0 k0 G1 k1 * |x| ^ 2
      ≤ 3 * (2 * ((magS k0 k1 + G0 + G1) / (k1.x - k0.x) / (k1.x - k0.x))) * X ^ 2 :=
    mul_le_mul (by linarith) p2 (by positivity) (by positivity)
  unfold segMagD
  calc _ ≤ _ := add_le_add (add_le_add b e2) e3
    _ = _ := by ring

end magfacts
end PP.Lemmas.SplineFP
