import PP.Lemmas.LinInt
import Mathlib.MeasureTheory.Integral.IntervalIntegral.FundThmCalculus
import Mathlib.Analysis.Calculus.Deriv.Pow
import Mathlib.Analysis.Calculus.Deriv.Mul
import Mathlib.Analysis.SpecialFunctions.Log.Deriv
import PP.Props.C01
/-!
# Real-analysis helper lemmas for C11: the fundamental theorem along `integralIter`

Exact interpretation over ℝ.  Generic in the piece type `T` and its integral type `I`; the facts about the pieces are
hypotheses (`TranslateAdds`, continuity of every piece and the piece-level antiderivative theorem on an
order-connected domain `D`: `Set.univ` for polynomial pieces, `Set.Ioi 0` for log-polynomial pieces).
-/
set_option linter.unusedSectionVars false
namespace PP.Lemmas.LinInt
open FloatLike Hand MeasureTheory Set
open scoped Interval

section real
variable [Transc ℝ]
attribute [local instance] exactFL
variable {T I : Type} [HasIntegral T (Knot ℝ) I] [Evaluate T ℝ] [Evaluate I ℝ] [Translate I ℝ]

/-- value of the non-empty piecewise function `s :: rest` at `x` (total version of `pwEvaluate`) -/
noncomputable def evalD {P : Type} [Evaluate P ℝ] (s : Segment ℝ P) (rest : List (Segment ℝ P)) (x : ℝ) : ℝ :=
  Evaluate.evaluate (selSegD s rest x).poly x

theorem pwEvaluate_cons {P : Type} [Evaluate P ℝ] (s : Segment ℝ P) (rest : List (Segment ℝ P)) (x : ℝ) :
    pwEvaluate ⟨s :: rest⟩ x = some (evalD s rest x) := by
  unfold pwEvaluate; rw [selSeg_cons]; rfl

theorem evalD_nil {P : Type} [Evaluate P ℝ] (s : Segment ℝ P) (x : ℝ) :
    evalD s [] x = Evaluate.evaluate s.poly x := rfl

theorem evalD_cons {P : Type} [Evaluate P ℝ] (s s' : Segment ℝ P) (rest : List (Segment ℝ P)) (x : ℝ) :
    evalD s (s' :: rest) x = if x < s.end then Evaluate.evaluate s.poly x else evalD s' rest x := by
  unfold evalD; simp only [selSegD, FloatLike.lt, decide_eq_true_eq]; split <;> rfl

/-- continuity of every source piece on the domain `D` -/
def PiecesContinuousOn (D : Set ℝ) (T : Type) [Evaluate T ℝ] : Prop :=
  ∀ t : T, ContinuousOn (fun x : ℝ => Evaluate.evaluate t x) D

/-- the piece-level theorem: `indefinite t` is an antiderivative of `t` on `D` -/
def PiecesAntiderivOn (D : Set ℝ) (T I : Type) [HasIntegral T (Knot ℝ) I] [Evaluate T ℝ] [Evaluate I ℝ] : Prop :=
  ∀ (t : T) (x : ℝ), x ∈ D → HasDerivAt (fun y : ℝ => Evaluate.evaluate (HasIntegral.indefinite t : I) y)
    (Evaluate.evaluate t x) x

variable {D : Set ℝ}

/-- a piecewise function with continuous pieces is interval integrable -/
theorem evalD_intervalIntegrable (hD : D.OrdConnected) (hc : PiecesContinuousOn D T)
    (s : Segment ℝ T) (rest : List (Segment ℝ T))
    (a b : ℝ) (ha : a ∈ D) (hb : b ∈ D) : IntervalIntegrable (evalD s rest) volume a b := by
  induction rest generalizing s with
  | nil => exact ((hc s.poly).mono (hD.uIcc_subset ha hb)).intervalIntegrable
  | cons s' rest ih =>
    classical
    have h1 : IntervalIntegrable (fun x => Evaluate.evaluate s.poly x) volume a b :=
      ((hc s.poly).mono (hD.uIcc_subset ha hb)).intervalIntegrable
    have h2 := ih s'
    rw [intervalIntegrable_iff] at h1 h2 ⊢
    have : evalD s (s' :: rest) =
        (Iio s.end).piecewise (fun x => Evaluate.evaluate s.poly x) (evalD s' rest) := by
      funext x; rw [evalD_cons]; simp [Set.piecewise]
    rw [this]
    exact Integrable.piecewise measurableSet_Iio h1.integrableOn h2.integrableOn

/-- the indefinite integral of one piece satisfies the fundamental theorem on `D` -/
theorem indefinite_ftc (hD : D.OrdConnected) (hc : PiecesContinuousOn D T) (hd : PiecesAntiderivOn D T I)
    (t : T) (u v : ℝ) (hu : u ∈ D) (hv : v ∈ D) :
    Evaluate.evaluate (HasIntegral.indefinite t : I) v =
      Evaluate.evaluate (HasIntegral.indefinite t : I) u + ∫ x in u..v, Evaluate.evaluate t x := by
  rw [intervalIntegral.integral_eq_sub_of_hasDerivAt (fun x hx => hd t x (hD.uIcc_subset hu hv hx))
    (((hc t).mono (hD.uIcc_subset hu hv)).intervalIntegrable)]
  ring

/-- one piece: `integral s k` is `k.y + ∫_{k.x}^t s` -/
theorem seg_integral_ftc (hD : D.OrdConnected) (htr : TranslateAdds ℝ I) (hc : PiecesContinuousOn D T)
    (hd : PiecesAntiderivOn D T I) (s : Segment ℝ T) (k : Knot ℝ) (t : ℝ) (hk : k.x ∈ D) (ht : t ∈ D) :
    Evaluate.evaluate (HasIntegral.integral s k : Segment ℝ I).poly t =
      k.y + ∫ x in k.x..t, Evaluate.evaluate s.poly x := by
  rw [seg_integral_eval htr, indefinite_ftc hD hc hd s.poly k.x t hk ht]
  ring

/-- below the first breakpoint the function is its first piece (up to the breakpoint itself: a null set) -/
theorem integral_evalD_below (s s' : Segment ℝ T) (rest : List (Segment ℝ T)) (a b : ℝ)
    (ha : a ≤ s.end) (hb : b ≤ s.end) :
    ∫ x in a..b, evalD s (s' :: rest) x = ∫ x in a..b, Evaluate.evaluate s.poly x := by
  apply intervalIntegral.integral_congr_uIoo
  intro x hx
  have : x < s.end := lt_of_lt_of_le hx.2 (max_le ha hb)
  simp only [evalD_cons, this, if_true]

/-- from the first breakpoint on, the first piece plays no role -/
theorem integral_evalD_above (s s' : Segment ℝ T) (rest : List (Segment ℝ T)) (t : ℝ) (ht : s.end ≤ t) :
    ∫ x in s.end..t, evalD s (s' :: rest) x = ∫ x in s.end..t, evalD s' rest x := by
  apply intervalIntegral.integral_congr
  intro x hx
  rw [uIcc_of_le ht] at hx
  have : ¬ x < s.end := not_lt.mpr hx.1
  simp only [evalD_cons, this, if_false]

/-- **FTC along `integralIter`**: for non-decreasing ends, `k.x` not beyond the first end, and `k.x`, `t`
in the (order-connected) domain `D` on which the piece-level facts hold, the result evaluates to
`k.y + ∫_{k.x}^t f` -/
theorem integralIter_ftc (hD : D.OrdConnected) (htr : TranslateAdds ℝ I) (hc : PiecesContinuousOn D T)
    (hd : PiecesAntiderivOn D T I)
    (s : Segment ℝ T) (rest : List (Segment ℝ T)) (k : Knot ℝ)
    (hs : (s :: rest).Pairwise (fun a b => a.end ≤ b.end)) (hk : k.x ≤ s.end) (t : ℝ)
    (hkD : k.x ∈ D) (htD : t ∈ D) :
    evalD (HasIntegral.integral s k : Segment ℝ I)
        (integralIter rest (nextKnot (HasIntegral.integral s k : Segment ℝ I))) t =
      k.y + ∫ x in k.x..t, evalD s rest x := by
  induction rest generalizing s k with
  | nil => exact seg_integral_ftc hD htr hc hd s k t hkD htD
  | cons s' rest ih =>
    rw [integralIter_cons, evalD_cons, seg_integral_end]
    have hss' : s.end ≤ s'.end := (List.pairwise_cons.mp hs).1 s' (by simp)
    split
    · next hlt =>
      rw [seg_integral_ftc hD htr hc hd s k t hkD htD,
        integral_evalD_below s s' rest _ _ hk (le_of_lt hlt)]
    · next hge =>
      have hge : s.end ≤ t := not_lt.mp hge
      have heD : s.end ∈ D := hD.out hkD htD ⟨hk, hge⟩
      rw [ih s' (nextKnot (HasIntegral.integral s k : Segment ℝ I)) (List.pairwise_cons.mp hs).2
        (by simpa [nextKnot, seg_integral_end] using hss') (by simpa [nextKnot, seg_integral_end] using heD)]
      have e1 : (nextKnot (HasIntegral.integral s k : Segment ℝ I)).y
          = k.y + ∫ x in k.x..s.end, evalD s (s' :: rest) x := by
        rw [integral_evalD_below s s' rest _ _ hk (le_refl _),
          ← seg_integral_ftc hD htr hc hd s k s.end hkD heD]; rfl
      have e2 : (nextKnot (HasIntegral.integral s k : Segment ℝ I)).x = s.end := rfl
      rw [e1, e2, ← integral_evalD_above s s' rest t hge, add_assoc,
        intervalIntegral.integral_add_adjacent_intervals
          (evalD_intervalIntegrable hD hc s (s' :: rest) _ _ hkD heD)
          (evalD_intervalIntegrable hD hc s (s' :: rest) _ _ heD htD)]

/-- **FTC for `indefinite`**: first piece `indefinite s`, then `integralIter`; `a` is any base point not
beyond the first end -/
theorem indefiniteIter_ftc (hD : D.OrdConnected) (htr : TranslateAdds ℝ I) (hc : PiecesContinuousOn D T)
    (hd : PiecesAntiderivOn D T I)
    (s : Segment ℝ T) (rest : List (Segment ℝ T))
    (hs : (s :: rest).Pairwise (fun a b => a.end ≤ b.end)) (a : ℝ) (ha : a ≤ s.end) (t : ℝ)
    (haD : a ∈ D) (htD : t ∈ D) :
    evalD (HasIntegral.indefinite s : Segment ℝ I)
        (integralIter rest (nextKnot (HasIntegral.indefinite s : Segment ℝ I))) t =
      Evaluate.evaluate (HasIntegral.indefinite s.poly : I) a + ∫ x in a..t, evalD s rest x := by
  have hG := indefinite_ftc (I := I) hD hc hd s.poly
  cases rest with
  | nil => exact hG a t haD htD
  | cons s' rest =>
    rw [integralIter_cons, evalD_cons, seg_indefinite_end]
    have hss' : s.end ≤ s'.end := (List.pairwise_cons.mp hs).1 s' (by simp)
    split
    · next hlt =>
      rw [integral_evalD_below s s' rest _ _ ha (le_of_lt hlt)]
      exact hG a t haD htD
    · next hge =>
      have hge : s.end ≤ t := not_lt.mp hge
      have heD : s.end ∈ D := hD.out haD htD ⟨ha, hge⟩
      rw [integralIter_ftc hD htr hc hd s' rest _ (List.pairwise_cons.mp hs).2
        (by simpa [nextKnot, seg_indefinite_end] using hss') t
        (by simpa [nextKnot, seg_indefinite_end] using heD) htD]
      have e1 : (nextKnot (HasIntegral.indefinite s : Segment ℝ I)).y
          = Evaluate.evaluate (HasIntegral.indefinite s.poly : I) a
            + ∫ x in a..s.end, evalD s (s' :: rest) x := by
        rw [integral_evalD_below s s' rest _ _ ha (le_refl _), ← hG a s.end haD heD]; rfl
      have e2 : (nextKnot (HasIntegral.indefinite s : Segment ℝ I)).x = s.end := rfl
      rw [e1, e2, ← integral_evalD_above s s' rest t hge, add_assoc,
        intervalIntegral.integral_add_adjacent_intervals
          (evalD_intervalIntegrable hD hc s (s' :: rest) _ _ haD heD)
          (evalD_intervalIntegrable hD hc s (s' :: rest) _ _ heD htD)]

end real

/-! ## the polynomial pieces satisfy the three hypotheses -/
section polys
variable [Transc ℝ]
attribute [local instance] exactFL

/-- the three piece-level facts, bundled -/
structure GoodPieces (D : Set ℝ) (T I : Type)
    [HasIntegral T (Knot ℝ) I] [Evaluate T ℝ] [Evaluate I ℝ] [Translate I ℝ] : Prop where
  /-- the domain is an interval -/
  ord : D.OrdConnected
  tr : TranslateAdds ℝ I
  cont : PiecesContinuousOn D T
  anti : PiecesAntiderivOn D T I

theorem hmono (c : ℝ) (n : ℕ) (x : ℝ) :
    HasDerivAt (fun y : ℝ => c * y ^ (n + 1)) (c * (((n + 1 : ℕ) : ℝ) * x ^ n)) x := by
  simpa using HasDerivAt.const_mul c (hasDerivAt_pow (n + 1) x)

theorem hadd {f g : ℝ → ℝ} {f' g' x : ℝ} (hf : HasDerivAt f f' x) (hg : HasDerivAt g g' x) :
    HasDerivAt (fun y => f y + g y) (f' + g') x := hf.add hg

theorem poly0_continuous : PiecesContinuousOn Set.univ (Poly0 ℝ) := by
  intro t; simp only [PP.Props.C01.poly0_eval]; fun_prop

theorem poly0_antideriv : PiecesAntiderivOn Set.univ (Poly0 ℝ) (Poly1 ℝ) := by
  intro t x _
  have h := (hmono t._0 0 x)
  refine (h.congr_of_eventuallyEq (Filter.Eventually.of_forall fun y => ?_)).congr_deriv ?_
  · exact_simp; ring
  · exact_simp; push_cast; ring

theorem goodPieces_poly0 : GoodPieces Set.univ (Poly0 ℝ) (Poly1 ℝ) :=
  ⟨Set.ordConnected_univ, translateAdds_poly1, poly0_continuous, poly0_antideriv⟩

theorem poly1_continuous : PiecesContinuousOn Set.univ (Poly1 ℝ) := by
  intro t; simp only [PP.Props.C01.poly1_eval]; fun_prop

theorem poly1_antideriv : PiecesAntiderivOn Set.univ (Poly1 ℝ) (Poly2 ℝ) := by
  intro t x _
  have h := (hadd (hmono t._0.a0 0 x) (hmono (t._0.a1 / 2) 1 x))
  refine (h.congr_of_eventuallyEq (Filter.Eventually.of_forall fun y => ?_)).congr_deriv ?_
  · exact_simp; ring
  · exact_simp; push_cast; ring

theorem goodPieces_poly1 : GoodPieces Set.univ (Poly1 ℝ) (Poly2 ℝ) :=
  ⟨Set.ordConnected_univ, translateAdds_poly2, poly1_continuous, poly1_antideriv⟩

theorem poly2_continuous : PiecesContinuousOn Set.univ (Poly2 ℝ) := by
  intro t; simp only [PP.Props.C01.poly2_eval]; fun_prop

theorem poly2_antideriv : PiecesAntiderivOn Set.univ (Poly2 ℝ) (Poly3 ℝ) := by
  intro t x _
  have h := (hadd (hadd (hmono t._0.a0 0 x) (hmono (t._0.a1 / 2) 1 x)) (hmono (t._0.a2 / 3) 2 x))
  refine (h.congr_of_eventuallyEq (Filter.Eventually.of_forall fun y => ?_)).congr_deriv ?_
  · exact_simp; ring
  · exact_simp; push_cast; ring

theorem goodPieces_poly2 : GoodPieces Set.univ (Poly2 ℝ) (Poly3 ℝ) :=
  ⟨Set.ordConnected_univ, translateAdds_poly3, poly2_continuous, poly2_antideriv⟩

theorem poly3_continuous : PiecesContinuousOn Set.univ (Poly3 ℝ) := by
  intro t; simp only [PP.Props.C01.poly3_eval]; fun_prop

theorem poly3_antideriv : PiecesAntiderivOn Set.univ (Poly3 ℝ) (Poly4 ℝ) := by
  intro t x _
  have h := (hadd (hadd (hadd (hmono t._0.a0 0 x) (hmono (t._0.a1 / 2) 1 x)) (hmono (t._0.a2 / 3) 2 x)) (hmono (t._0.a3 / 4) 3 x))
  refine (h.congr_of_eventuallyEq (Filter.Eventually.of_forall fun y => ?_)).congr_deriv ?_
  · exact_simp; ring
  · exact_simp; push_cast; ring

theorem goodPieces_poly3 : GoodPieces Set.univ (Poly3 ℝ) (Poly4 ℝ) :=
  ⟨Set.ordConnected_univ, translateAdds_poly4, poly3_continuous, poly3_antideriv⟩

theorem poly4_continuous : PiecesContinuousOn Set.univ (Poly4 ℝ) := by
  intro t; simp only [PP.Props.C01.poly4_eval]; fun_prop

theorem poly4_antideriv : PiecesAntiderivOn Set.univ (Poly4 ℝ) (Poly5 ℝ) := by
  intro t x _
  have h := (hadd (hadd (hadd (hadd (hmono t._0.a0 0 x) (hmono (t._0.a1 / 2) 1 x)) (hmono (t._0.a2 / 3) 2 x)) (hmono (t._0.a3 / 4) 3 x)) (hmono (t._0.a4 / 5) 4 x))
  refine (h.congr_of_eventuallyEq (Filter.Eventually.of_forall fun y => ?_)).congr_deriv ?_
  · exact_simp; ring
  · exact_simp; push_cast; ring

theorem goodPieces_poly4 : GoodPieces Set.univ (Poly4 ℝ) (Poly5 ℝ) :=
  ⟨Set.ordConnected_univ, translateAdds_poly5, poly4_continuous, poly4_antideriv⟩

theorem poly5_continuous : PiecesContinuousOn Set.univ (Poly5 ℝ) := by
  intro t; simp only [PP.Props.C01.poly5_eval]; fun_prop

theorem poly5_antideriv : PiecesAntiderivOn Set.univ (Poly5 ℝ) (Poly6 ℝ) := by
  intro t x _
  have h := (hadd (hadd (hadd (hadd (hadd (hmono t._0.a0 0 x) (hmono (t._0.a1 / 2) 1 x)) (hmono (t._0.a2 / 3) 2 x)) (hmono (t._0.a3 / 4) 3 x)) (hmono (t._0.a4 / 5) 4 x)) (hmono (t._0.a5 / 6) 5 x))
  refine (h.congr_of_eventuallyEq (Filter.Eventually.of_forall fun y => ?_)).congr_deriv ?_
  · exact_simp; ring
  · exact_simp; push_cast; ring

theorem goodPieces_poly5 : GoodPieces Set.univ (Poly5 ℝ) (Poly6 ℝ) :=
  ⟨Set.ordConnected_univ, translateAdds_poly6, poly5_continuous, poly5_antideriv⟩

theorem poly6_continuous : PiecesContinuousOn Set.univ (Poly6 ℝ) := by
  intro t; simp only [PP.Props.C01.poly6_eval]; fun_prop

theorem poly6_antideriv : PiecesAntiderivOn Set.univ (Poly6 ℝ) (Poly7 ℝ) := by
  intro t x _
  have h := (hadd (hadd (hadd (hadd (hadd (hadd (hmono t._0.a0 0 x) (hmono (t._0.a1 / 2) 1 x)) (hmono (t._0.a2 / 3) 2 x)) (hmono (t._0.a3 / 4) 3 x)) (hmono (t._0.a4 / 5) 4 x)) (hmono (t._0.a5 / 6) 5 x)) (hmono (t._0.a6 / 7) 6 x))
  refine (h.congr_of_eventuallyEq (Filter.Eventually.of_forall fun y => ?_)).congr_deriv ?_
  · exact_simp; ring
  · exact_simp; push_cast; ring

theorem goodPieces_poly6 : GoodPieces Set.univ (Poly6 ℝ) (Poly7 ℝ) :=
  ⟨Set.ordConnected_univ, translateAdds_poly7, poly6_continuous, poly6_antideriv⟩

theorem poly7_continuous : PiecesContinuousOn Set.univ (Poly7 ℝ) := by
  intro t; simp only [PP.Props.C01.poly7_eval]; fun_prop

theorem poly7_antideriv : PiecesAntiderivOn Set.univ (Poly7 ℝ) (Poly8 ℝ) := by
  intro t x _
  have h := (hadd (hadd (hadd (hadd (hadd (hadd (hadd (hmono t._0.a0 0 x) (hmono (t._0.a1 / 2) 1 x)) (hmono (t._0.a2 / 3) 2 x)) (hmono (t._0.a3 / 4) 3 x)) (hmono (t._0.a4 / 5) 4 x)) (hmono (t._0.a5 / 6) 5 x)) (hmono (t._0.a6 / 7) 6 x)) (hmono (t._0.a7 / 8) 7 x))
  refine (h.congr_of_eventuallyEq (Filter.Eventually.of_forall fun y => ?_)).congr_deriv ?_
  · exact_simp; ring
  · exact_simp; push_cast; ring

theorem goodPieces_poly7 : GoodPieces Set.univ (Poly7 ℝ) (Poly8 ℝ) :=
  ⟨Set.ordConnected_univ, translateAdds_poly8, poly7_continuous, poly7_antideriv⟩

end polys

/-! ## a log-polynomial piece type satisfies them on (0, ∞)  (demonstration: `Log<Poly1>`; the other
degrees are the piece-level theorems of C09) -/
section logs
variable [Transc ℝ]
attribute [local instance] exactFL

theorem hmulf {f g : ℝ → ℝ} {f' g' x : ℝ} (hf : HasDerivAt f f' x) (hg : HasDerivAt g g' x) :
    HasDerivAt (fun y => f y * g y) (f' * g x + f x * g') x := hf.mul hg

theorem logPoly1_continuousOn (hln : (Transc.ln : ℝ → ℝ) = Real.log) :
    PiecesContinuousOn (Ioi 0) (Log (Poly1 ℝ)) := by
  intro t
  have : (fun x : ℝ => Evaluate.evaluate t x) = fun x => t._0._0.a0 + t._0._0.a1 * Real.log x := by
    funext x; exact_simp; rw [hln]; ring
  rw [this]
  exact continuousOn_const.add (continuousOn_const.mul
    (Real.continuousOn_log.mono (fun x hx => ne_of_gt hx)))

theorem logPoly1_antideriv (hln : (Transc.ln : ℝ → ℝ) = Real.log) :
    PiecesAntiderivOn (Ioi 0) (Log (Poly1 ℝ)) (IntOfLog ℝ (Poly1 ℝ)) := by
  intro t x hx
  have hx0 : x ≠ 0 := ne_of_gt hx
  have h := hmulf (hasDerivAt_id x)
    (hadd (hasDerivAt_const x (t._0._0.a0 - t._0._0.a1)) (HasDerivAt.const_mul t._0._0.a1 (Real.hasDerivAt_log hx0)))
  refine (h.congr_of_eventuallyEq (Filter.Eventually.of_forall fun y => ?_)).congr_deriv ?_
  · exact_simp; rw [hln]; simp only [id]; ring
  · exact_simp; rw [hln]; simp only [id]; field_simp; ring

theorem goodPieces_logPoly1 (hln : (Transc.ln : ℝ → ℝ) = Real.log) :
    GoodPieces (Ioi 0) (Log (Poly1 ℝ)) (IntOfLog ℝ (Poly1 ℝ)) :=
  ⟨ordConnected_Ioi, translateAdds_intOfLog, logPoly1_continuousOn hln, logPoly1_antideriv hln⟩
end logs

end PP.Lemmas.LinInt
