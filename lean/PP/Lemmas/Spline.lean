import PP.Sem.Exact
import Mathlib.Tactic.Positivity
import Mathlib.Tactic.LinearCombination
import PP.Model.Poly.EvaluateAttr
import PP.Model.Poly.CalculusAttr
import PP.Model.Spline.FnsAttr
import PP.Hand.Constructors
/-!
# Helper lemmas for C04 / C05 (constrained cubic spline, `spline.rs`)

Part 1 (any `FloatLike F`): list bookkeeping for the hand model `Hand.constrainedSpline`
(`fMid`, `lastTwo`, `fAll`, `splineSegs`).
Part 2 (ordered field `K`, exact interpretation): algebra of `Spline.segment`, `Spline.f_dx`,
`Hand.endSlope`: Hermite conditions, Bernstein form of the derivative, the monotonicity region.
-/
set_option linter.unusedSectionVars false
set_option linter.unusedVariables false
namespace PP.Spline
open Hand

/-! ## Part 1: structure, for every number type -/
section structure_
variable {F : Type} [FloatLike F]

theorem fMid_length : ∀ ks : List (Knot F), (fMid ks).length = ks.length - 2
  | [] => rfl
  | [_] => rfl
  | [_, _] => rfl
  | _ :: k1 :: k2 :: rest => by
    simp only [fMid, List.length_cons, fMid_length (k1 :: k2 :: rest)]; omega

theorem fMid_getElem? : ∀ (i : Nat) (ks : List (Knot F)) (h : i + 2 < ks.length),
    (fMid ks)[i]? = some (Spline.f_dx ks[i] ks[i + 1] ks[i + 2])
  | 0, k0 :: k1 :: k2 :: rest, _ => by simp [fMid]
  | i + 1, k0 :: k1 :: k2 :: rest, h => by
    have h' : i + 2 < (k1 :: k2 :: rest).length := by simp only [List.length_cons] at h ⊢; omega
    have := fMid_getElem? i (k1 :: k2 :: rest) h'
    simpa [fMid] using this

theorem lastTwo_eq : ∀ (ks : List (Knot F)) (h : 2 ≤ ks.length),
    lastTwo ks = some (ks[ks.length - 2], ks[ks.length - 1])
  | [a, b], _ => rfl
  | a :: b :: c :: rest, _ => by
    have := lastTwo_eq (b :: c :: rest) (by simp)
    simp only [lastTwo, this, List.length_cons, Option.some.injEq, Prod.mk.injEq]
    constructor
    · have e : rest.length + 1 + 1 + 1 - 2 = (rest.length + 1 + 1 - 2) + 1 := by omega
      simp only [e, List.getElem_cons_succ]
    · have e : rest.length + 1 + 1 + 1 - 1 = (rest.length + 1 + 1 - 1) + 1 := by omega
      simp only [e, List.getElem_cons_succ]

/-- `fAll` succeeds exactly on ≥ 3 knots, and is `endSlope :: fMid ++ [endSlope]` -/
theorem fAll_eq (ks : List (Knot F)) (h : 3 ≤ ks.length) :
    fAll ks = some (endSlope ks[0] ks[1] (Spline.f_dx ks[0] ks[1] ks[2]) :: fMid ks ++
      [endSlope ks[ks.length - 2] ks[ks.length - 1]
        (Spline.f_dx ks[ks.length - 3] ks[ks.length - 2] ks[ks.length - 1])]) := by
  match ks, h with
  | k0 :: k1 :: k2 :: rest, h =>
    have hl := lastTwo_eq (k0 :: k1 :: k2 :: rest) (by simp)
    have hlen := fMid_length (k0 :: k1 :: k2 :: rest)
    have hh : (fMid (k0 :: k1 :: k2 :: rest)).head? = some (Spline.f_dx k0 k1 k2) := by simp [fMid]
    have hlast : (fMid (k0 :: k1 :: k2 :: rest)).getLast? =
        some (Spline.f_dx (k0 :: k1 :: k2 :: rest)[(k0 :: k1 :: k2 :: rest).length - 3]
          (k0 :: k1 :: k2 :: rest)[(k0 :: k1 :: k2 :: rest).length - 2]
          (k0 :: k1 :: k2 :: rest)[(k0 :: k1 :: k2 :: rest).length - 1]) := by
      rw [List.getLast?_eq_getElem?, hlen]
      have := fMid_getElem? ((k0 :: k1 :: k2 :: rest).length - 3) (k0 :: k1 :: k2 :: rest)
        (by simp only [List.length_cons]; omega)
      have e1 : (k0 :: k1 :: k2 :: rest).length - 2 - 1 = (k0 :: k1 :: k2 :: rest).length - 3 := by omega
      rw [e1, this]
      have e2 : (k0 :: k1 :: k2 :: rest).length - 3 + 1 = (k0 :: k1 :: k2 :: rest).length - 2 := by
        simp only [List.length_cons]; omega
      have e3 : (k0 :: k1 :: k2 :: rest).length - 3 + 2 = (k0 :: k1 :: k2 :: rest).length - 1 := by
        simp only [List.length_cons]; omega
      simp only [e2, e3]
    simp only [fAll, hh, hlast, hl]
    rfl

theorem fAll_none (ks : List (Knot F)) (h : ks.length < 3) : fAll ks = none := by
  match ks, h with
  | [], _ => rfl
  | [_], _ => rfl
  | [_, _], _ => rfl
  | _ :: _ :: _ :: rest, h => simp only [List.length_cons] at h; omega

theorem splineSegs_length : ∀ (fa : List F) (ks : List (Knot F)),
    (splineSegs fa ks).length = min fa.length ks.length - 1
  | [], _ => by simp [splineSegs]
  | [_], ks => by
    cases ks with
    | nil => simp [splineSegs]
    | cons k ks => cases ks <;> simp [splineSegs]
  | _ :: _ :: _, [] => by simp [splineSegs]
  | _ :: _ :: _, [_] => by simp [splineSegs]
  | f0 :: f1 :: fs, k0 :: k1 :: ks => by
    simp only [splineSegs, List.length_cons, splineSegs_length (f1 :: fs) (k1 :: ks)]; omega

theorem splineSegs_getElem? : ∀ (i : Nat) (fa : List F) (ks : List (Knot F))
    (h1 : i + 1 < fa.length) (h2 : i + 1 < ks.length),
    (splineSegs fa ks)[i]? = some (Spline.segment fa[i] ks[i] fa[i + 1] ks[i + 1])
  | 0, f0 :: f1 :: fs, k0 :: k1 :: ks, _, _ => by simp [splineSegs]
  | i + 1, f0 :: f1 :: fs, k0 :: k1 :: ks, h1, h2 => by
    have := splineSegs_getElem? i (f1 :: fs) (k1 :: ks)
      (by simp only [List.length_cons] at h1 ⊢; omega) (by simp only [List.length_cons] at h2 ⊢; omega)
    simpa [splineSegs] using this

theorem segment_end (f0 : F) (k0 : Knot F) (f1 : F) (k1 : Knot F) :
    (Spline.segment f0 k0 f1 k1).end = k1.x := rfl

theorem splineSegs_ends : ∀ (fa : List F) (ks : List (Knot F)) (h : ks.length ≤ fa.length),
    (splineSegs fa ks).map (·.end) = (ks.map Knot.x).tail
  | [], [], _ => by simp [splineSegs]
  | [_], [], _ => by simp [splineSegs]
  | _ :: _ :: _, [], _ => by simp [splineSegs]
  | fa, [k], h => by
    cases fa with
    | nil => simp [splineSegs]
    | cons f fa => cases fa <;> simp [splineSegs]
  | [], _ :: _ :: _, h => by simp at h
  | [_], _ :: _ :: _, h => by simp at h
  | f0 :: f1 :: fs, k0 :: k1 :: ks, h => by
    have := splineSegs_ends (f1 :: fs) (k1 :: ks) (by simp only [List.length_cons] at h ⊢; omega)
    simp only [splineSegs, List.map_cons, List.tail_cons, segment_end] at this ⊢
    rw [this]

end structure_

/-! ## Part 2: exact arithmetic over an ordered field -/
section exact
variable {K : Type} [Field K] [LinearOrder K] [IsStrictOrderedRing K] [Transc K]
attribute [local instance] exactFL

theorem eval3 (p : Poly3 K) (x : K) :
    Evaluate.evaluate p x = p._0.a0 + p._0.a1 * x + p._0.a2 * x ^ 2 + p._0.a3 * x ^ 3 := by
  exact_simp; ring

theorem deriv3 (p : Poly3 K) (x : K) :
    Evaluate.evaluate (HasDerivative.derivative p) x = p._0.a1 + 2 * p._0.a2 * x + 3 * p._0.a3 * x ^ 2 := by
  exact_simp; ring

theorem seg_left (f0 f1 : K) (k0 k1 : Knot K) (h : k0.x ≠ k1.x) :
    Evaluate.evaluate (Spline.segment f0 k0 f1 k1).poly k0.x = k0.y := by
  have hd : k1.x - k0.x ≠ 0 := sub_ne_zero.mpr (Ne.symm h)
  exact_simp; field_simp; ring

theorem seg_right (f0 f1 : K) (k0 k1 : Knot K) (h : k0.x ≠ k1.x) :
    Evaluate.evaluate (Spline.segment f0 k0 f1 k1).poly k1.x = k1.y := by
  have hd : k1.x - k0.x ≠ 0 := sub_ne_zero.mpr (Ne.symm h)
  exact_simp; field_simp; ring

theorem seg_dleft (f0 f1 : K) (k0 k1 : Knot K) (h : k0.x ≠ k1.x) :
    Evaluate.evaluate (HasDerivative.derivative (Spline.segment f0 k0 f1 k1).poly) k0.x = f0 := by
  have hd : k1.x - k0.x ≠ 0 := sub_ne_zero.mpr (Ne.symm h)
  exact_simp; field_simp; ring

theorem seg_dright (f0 f1 : K) (k0 k1 : Knot K) (h : k0.x ≠ k1.x) :
    Evaluate.evaluate (HasDerivative.derivative (Spline.segment f0 k0 f1 k1).poly) k1.x = f1 := by
  have hd : k1.x - k0.x ≠ 0 := sub_ne_zero.mpr (Ne.symm h)
  exact_simp; field_simp; ring

/-- Bernstein form (degree 2, on `[x0,x1]`) of the derivative of the segment cubic:
coefficients `f0`, `3s - f0 - f1`, `f1`. -/
theorem seg_deriv_bernstein (f0 f1 : K) (k0 k1 : Knot K) (h : k0.x ≠ k1.x) (x : K) :
    Evaluate.evaluate (HasDerivative.derivative (Spline.segment f0 k0 f1 k1).poly) x * (k1.x - k0.x) ^ 2 =
      f0 * (k1.x - x) ^ 2
      + (3 * ((k1.y - k0.y) / (k1.x - k0.x)) - f0 - f1) * (2 * (x - k0.x) * (k1.x - x))
      + f1 * (x - k0.x) ^ 2 := by
  have hd : k1.x - k0.x ≠ 0 := sub_ne_zero.mpr (Ne.symm h)
  exact_simp; field_simp; ring

/-- Simpson's rule is exact for cubics: an MVT-free route from the sign of `p'` to monotonicity,
valid in every ordered field. -/
theorem simpson3 (p : Poly3 K) (x x' : K) :
    Evaluate.evaluate p x' - Evaluate.evaluate p x =
      (x' - x) / 6 * (Evaluate.evaluate (HasDerivative.derivative p) x
        + 4 * Evaluate.evaluate (HasDerivative.derivative p) ((x + x') / 2)
        + Evaluate.evaluate (HasDerivative.derivative p) x') := by
  simp only [eval3, deriv3]; ring

/-- the secant slope of two knots -/
abbrev secant (ka kb : Knot K) : K := (kb.y - ka.y) / (kb.x - ka.x)

theorem f_dx_eq (k0 k1 k2 : Knot K) :
    Spline.f_dx k0 k1 k2 =
      if secant k0 k1 * secant k1 k2 ≤ 0 then 0
      else 2 * secant k0 k1 * secant k1 k2 / (secant k0 k1 + secant k1 k2) := by
  unfold secant
  exact_simp
  simp only [FloatLike.le, decide_eq_true_eq]
  split
  · rfl
  · rename_i hpos
    rw [not_le] at hpos
    set a := (k1.y - k0.y) / (k1.x - k0.x) with ha
    set b := (k2.y - k1.y) / (k2.x - k1.x) with hb
    have ha0 : a ≠ 0 := fun h0 => by rw [h0, zero_mul] at hpos; exact lt_irrefl _ hpos
    have hb0 : b ≠ 0 := fun h0 => by rw [h0, mul_zero] at hpos; exact lt_irrefl _ hpos
    have hab : a + b ≠ 0 := by
      intro h0
      have : a * b = -(a * a) := by rw [eq_neg_of_add_eq_zero_right h0]; ring
      nlinarith [mul_self_nonneg a]
    have e : 1 / a + 1 / b = (a + b) / (a * b) := by field_simp; ring
    rw [e, div_div_eq_mul_div]
    ring

theorem endSlope_eq (ka kb : Knot K) (f : K) :
    Hand.endSlope ka kb f = 3 / 2 * (kb.y - ka.y) / (kb.x - ka.x) - f / 2 := by
  unfold Hand.endSlope
  exact_simp
  ring

/-! ### the monotonicity region -/

/-- `f` lies between `0` and `c` (whatever the sign of `c`); `Btw0 0 f ↔ f = 0` -/
def Btw0 (c f : K) : Prop := (0 ≤ f ∧ f ≤ c) ∨ (c ≤ f ∧ f ≤ 0)

theorem Btw0.zero (c : K) : Btw0 c 0 := by
  rcases le_total 0 c with h | h
  · exact Or.inl ⟨le_refl _, h⟩
  · exact Or.inr ⟨h, le_refl _⟩

theorem Btw0.nonneg {c f : K} (h : Btw0 c f) (hc : 0 ≤ c) : 0 ≤ f ∧ f ≤ c := by
  rcases h with h | h
  · exact h
  · constructor <;> linarith [h.1, h.2]

theorem Btw0.nonpos {c f : K} (h : Btw0 c f) (hc : c ≤ 0) : c ≤ f ∧ f ≤ 0 := by
  rcases h with h | h
  · constructor <;> linarith [h.1, h.2]
  · exact h

theorem Btw0.eq_zero {f : K} (h : Btw0 0 f) : f = 0 :=
  le_antisymm (h.nonneg (le_refl _)).2 (h.nonneg (le_refl _)).1

/-- widening the bound by a factor ≥ 1 (here 2 → 3) -/
theorem Btw0.two_three {s f : K} (h : Btw0 (2 * s) f) : Btw0 (3 * s) f := by
  rcases h with h | h
  · exact Or.inl ⟨h.1, by linarith [h.1, h.2]⟩
  · exact Or.inr ⟨by linarith [h.1, h.2], h.2⟩

/-- harmonic mean of two numbers of equal strict sign lies strictly between 0 and twice either -/
theorem harm_btw (a b : K) (hab : 0 < a * b) : Btw0 (2 * a) (2 * a * b / (a + b)) := by
  rcases lt_or_gt_of_ne (show a ≠ 0 from fun h => by simp [h] at hab) with ha | ha
  · have hb : b < 0 := by
      by_contra hb; push Not at hb
      nlinarith [mul_nonneg_of_nonpos_of_nonpos (le_of_lt ha) (neg_nonpos.mpr hb)]
    have hs : a + b < 0 := by linarith
    right
    constructor
    · rw [le_div_iff_of_neg hs]; nlinarith [mul_self_nonneg a]
    · rw [div_nonpos_iff]; left; exact ⟨by nlinarith, le_of_lt hs⟩
  · have hb : 0 < b := by
      by_contra hb; push Not at hb
      nlinarith [mul_nonneg (le_of_lt ha) (neg_nonneg.mpr hb)]
    have hs : 0 < a + b := by linarith
    left
    constructor
    · positivity
    · rw [div_le_iff₀ hs]; nlinarith [mul_self_nonneg a]

theorem f_dx_btw_left (k0 k1 k2 : Knot K) :
    Btw0 (2 * secant k0 k1) (Spline.f_dx k0 k1 k2) := by
  rw [f_dx_eq]
  split
  · exact Btw0.zero _
  · rename_i h; exact harm_btw _ _ (not_le.mp h)

theorem f_dx_btw_right (k0 k1 k2 : Knot K) :
    Btw0 (2 * secant k1 k2) (Spline.f_dx k0 k1 k2) := by
  rw [f_dx_eq]
  split
  · exact Btw0.zero _
  · rename_i h
    have := harm_btw (secant k1 k2) (secant k0 k1) (by rw [mul_comm]; exact not_le.mp h)
    have e : 2 * secant k0 k1 * secant k1 k2 / (secant k0 k1 + secant k1 k2)
        = 2 * secant k1 k2 * secant k0 k1 / (secant k1 k2 + secant k0 k1) := by
      rw [add_comm]; congr 1; ring
    rw [e]; exact this

/-- eq. 7b/7c keep the end slope between `s/2` and `3s/2`, in particular between 0 and `3s` -/
theorem endSlope_btw (ka kb : Knot K) (f : K) (h : Btw0 (2 * secant ka kb) f) :
    Btw0 (3 * secant ka kb) (Hand.endSlope ka kb f) := by
  have e : Hand.endSlope ka kb f = 3 / 2 * secant ka kb - f / 2 := by
    rw [endSlope_eq]; unfold secant; ring
  rw [e]
  rcases h with h | h
  · exact Or.inl ⟨by linarith [h.1, h.2], by linarith [h.1, h.2]⟩
  · exact Or.inr ⟨by linarith [h.1, h.2], by linarith [h.1, h.2]⟩

/-- nonnegativity of `a B₀ + m B₁ + b B₂` (quadratic Bernstein basis, unnormalised weights `p,q ≥ 0`) -/
theorem bern_nonneg (a m b p q : K) (ha : 0 ≤ a) (hb : 0 ≤ b) (hp : 0 ≤ p) (hq : 0 ≤ q)
    (hm : 0 ≤ m ∨ m ^ 2 ≤ a * b) : 0 ≤ a * p ^ 2 + m * (2 * q * p) + b * q ^ 2 := by
  rcases hm with hm | hm
  · positivity
  · by_cases ha0 : a = 0
    · subst ha0
      have : m = 0 := by nlinarith [sq_nonneg m]
      subst this; simp; positivity
    · have hapos : 0 < a := lt_of_le_of_ne ha (Ne.symm ha0)
      have key : a * (a * p ^ 2 + m * (2 * q * p) + b * q ^ 2)
          = (a * p + m * q) ^ 2 + (a * b - m ^ 2) * q ^ 2 := by ring
      have : 0 ≤ a * (a * p ^ 2 + m * (2 * q * p) + b * q ^ 2) := by
        rw [key]
        have h1 := sq_nonneg (a * p + m * q)
        have h2 : 0 ≤ (a * b - m ^ 2) * q ^ 2 := mul_nonneg (by linarith) (sq_nonneg q)
        linarith
      exact nonneg_of_mul_nonneg_right this hapos

/-- the box `[0,c]²` (c = 3s: de Boor–Swartz / Fritsch–Carlson) lies in the monotonicity region -/
theorem box_ok (c al be : K) (h0 : 0 ≤ al) (h1 : al ≤ c) (h2 : 0 ≤ be) (h3 : be ≤ c) :
    0 ≤ c - al - be ∨ (c - al - be) ^ 2 ≤ al * be := by
  by_cases h : 0 ≤ c - al - be
  · left; exact h
  · right; push Not at h
    nlinarith [mul_nonneg (sub_nonneg.mpr h1) (sub_nonneg.mpr h3), mul_nonneg h0 h2]

theorem seg_deriv_nonneg (f0 f1 : K) (k0 k1 : Knot K) (hx : k0.x < k1.x)
    (h0 : 0 ≤ f0 ∧ f0 ≤ 3 * secant k0 k1) (h1 : 0 ≤ f1 ∧ f1 ≤ 3 * secant k0 k1)
    (x : K) (hx0 : k0.x ≤ x) (hx1 : x ≤ k1.x) :
    0 ≤ Evaluate.evaluate (HasDerivative.derivative (Spline.segment f0 k0 f1 k1).poly) x := by
  have B := seg_deriv_bernstein f0 f1 k0 k1 (ne_of_lt hx) x
  have hd : 0 < (k1.x - k0.x) ^ 2 := by have := sub_pos.mpr hx; positivity
  have : 0 ≤ Evaluate.evaluate (HasDerivative.derivative (Spline.segment f0 k0 f1 k1).poly) x
      * (k1.x - k0.x) ^ 2 := by
    rw [B]
    exact bern_nonneg _ _ _ _ _ h0.1 h1.1 (sub_nonneg.mpr hx1) (sub_nonneg.mpr hx0)
      (box_ok _ _ _ h0.1 h0.2 h1.1 h1.2)
  exact nonneg_of_mul_nonneg_left this hd

theorem seg_deriv_nonpos (f0 f1 : K) (k0 k1 : Knot K) (hx : k0.x < k1.x)
    (h0 : 3 * secant k0 k1 ≤ f0 ∧ f0 ≤ 0) (h1 : 3 * secant k0 k1 ≤ f1 ∧ f1 ≤ 0)
    (x : K) (hx0 : k0.x ≤ x) (hx1 : x ≤ k1.x) :
    Evaluate.evaluate (HasDerivative.derivative (Spline.segment f0 k0 f1 k1).poly) x ≤ 0 := by
  have B := seg_deriv_bernstein f0 f1 k0 k1 (ne_of_lt hx) x
  have hd : 0 < (k1.x - k0.x) ^ 2 := by have := sub_pos.mpr hx; positivity
  have : 0 ≤ (-Evaluate.evaluate (HasDerivative.derivative (Spline.segment f0 k0 f1 k1).poly) x)
      * (k1.x - k0.x) ^ 2 := by
    rw [neg_mul, B]
    have := bern_nonneg (-f0) (-(3 * secant k0 k1) - -f0 - -f1) (-f1) (k1.x - x) (x - k0.x)
      (by linarith [h0.2]) (by linarith [h1.2]) (sub_nonneg.mpr hx1) (sub_nonneg.mpr hx0)
      (box_ok _ _ _ (by linarith [h0.2]) (by linarith [h0.1]) (by linarith [h1.2]) (by linarith [h1.1]))
    unfold secant at this
    linarith [this]
  have := nonneg_of_mul_nonneg_left this hd
  linarith

theorem secant_nonneg {k0 k1 : Knot K} (hx : k0.x < k1.x) (hy : k0.y ≤ k1.y) : 0 ≤ secant k0 k1 :=
  div_nonneg (sub_nonneg.mpr hy) (le_of_lt (sub_pos.mpr hx))

theorem secant_nonpos {k0 k1 : Knot K} (hx : k0.x < k1.x) (hy : k1.y ≤ k0.y) : secant k0 k1 ≤ 0 :=
  div_nonpos_of_nonpos_of_nonneg (sub_nonpos.mpr hy) (le_of_lt (sub_pos.mpr hx))

/-- sign of the derivative on the whole interval, for end slopes in the box `[0,3s]²` -/
theorem seg_deriv_sign (f0 f1 : K) (k0 k1 : Knot K) (hx : k0.x < k1.x)
    (h0 : Btw0 (3 * secant k0 k1) f0) (h1 : Btw0 (3 * secant k0 k1) f1)
    (x : K) (hx0 : k0.x ≤ x) (hx1 : x ≤ k1.x) :
    (k0.y ≤ k1.y → 0 ≤ Evaluate.evaluate (HasDerivative.derivative (Spline.segment f0 k0 f1 k1).poly) x) ∧
    (k1.y ≤ k0.y → Evaluate.evaluate (HasDerivative.derivative (Spline.segment f0 k0 f1 k1).poly) x ≤ 0) := by
  constructor
  · intro hy
    have hs : 0 ≤ 3 * secant k0 k1 := by have := secant_nonneg hx hy; linarith
    exact seg_deriv_nonneg f0 f1 k0 k1 hx (h0.nonneg hs) (h1.nonneg hs) x hx0 hx1
  · intro hy
    have hs : 3 * secant k0 k1 ≤ 0 := by have := secant_nonpos hx hy; linarith
    exact seg_deriv_nonpos f0 f1 k0 k1 hx (h0.nonpos hs) (h1.nonpos hs) x hx0 hx1

/-- monotone on the interval -/
theorem seg_mono (f0 f1 : K) (k0 k1 : Knot K) (hx : k0.x < k1.x)
    (h0 : Btw0 (3 * secant k0 k1) f0) (h1 : Btw0 (3 * secant k0 k1) f1)
    (x x' : K) (hx0 : k0.x ≤ x) (hxx : x ≤ x') (hx1 : x' ≤ k1.x) :
    (k0.y ≤ k1.y → Evaluate.evaluate (Spline.segment f0 k0 f1 k1).poly x
        ≤ Evaluate.evaluate (Spline.segment f0 k0 f1 k1).poly x') ∧
    (k1.y ≤ k0.y → Evaluate.evaluate (Spline.segment f0 k0 f1 k1).poly x'
        ≤ Evaluate.evaluate (Spline.segment f0 k0 f1 k1).poly x) := by
  have S := simpson3 (Spline.segment f0 k0 f1 k1).poly x x'
  have hm0 : k0.x ≤ (x + x') / 2 := by linarith
  have hm1 : (x + x') / 2 ≤ k1.x := by linarith
  have a := seg_deriv_sign f0 f1 k0 k1 hx h0 h1 x hx0 (le_trans hxx hx1)
  have b := seg_deriv_sign f0 f1 k0 k1 hx h0 h1 ((x + x') / 2) hm0 hm1
  have c := seg_deriv_sign f0 f1 k0 k1 hx h0 h1 x' (le_trans hx0 hxx) hx1
  have hw : 0 ≤ (x' - x) / 6 := by linarith
  constructor
  · intro hy
    have ha := a.1 hy; have hb := b.1 hy; have hc := c.1 hy
    have : 0 ≤ Evaluate.evaluate (Spline.segment f0 k0 f1 k1).poly x'
        - Evaluate.evaluate (Spline.segment f0 k0 f1 k1).poly x := by
      rw [S]; exact mul_nonneg hw (by linarith)
    linarith
  · intro hy
    have ha := a.2 hy; have hb := b.2 hy; have hc := c.2 hy
    have : Evaluate.evaluate (Spline.segment f0 k0 f1 k1).poly x'
        - Evaluate.evaluate (Spline.segment f0 k0 f1 k1).poly x ≤ 0 := by
      rw [S]; exact mul_nonpos_of_nonneg_of_nonpos hw (by linarith)
    linarith

/-- stays between the two knot ordinates -/
theorem seg_between (f0 f1 : K) (k0 k1 : Knot K) (hx : k0.x < k1.x)
    (h0 : Btw0 (3 * secant k0 k1) f0) (h1 : Btw0 (3 * secant k0 k1) f1)
    (x : K) (hx0 : k0.x ≤ x) (hx1 : x ≤ k1.x) :
    min k0.y k1.y ≤ Evaluate.evaluate (Spline.segment f0 k0 f1 k1).poly x ∧
    Evaluate.evaluate (Spline.segment f0 k0 f1 k1).poly x ≤ max k0.y k1.y := by
  have L := seg_mono f0 f1 k0 k1 hx h0 h1 k0.x x (le_refl _) hx0 hx1
  have R := seg_mono f0 f1 k0 k1 hx h0 h1 x k1.x hx0 hx1 (le_refl _)
  rw [seg_left f0 f1 k0 k1 (ne_of_lt hx)] at L
  rw [seg_right f0 f1 k0 k1 (ne_of_lt hx)] at R
  rcases le_total k0.y k1.y with hy | hy
  · rw [min_eq_left hy, max_eq_right hy]; exact ⟨L.1 hy, R.1 hy⟩
  · rw [min_eq_right hy, max_eq_left hy]; exact ⟨R.2 hy, L.2 hy⟩

/-- flat data with zero end slopes: the constant cubic, coefficient for coefficient -/
theorem seg_flat (k0 k1 : Knot K) (hy : k0.y = k1.y) :
    (Spline.segment 0 k0 0 k1).poly = ⟨⟨k0.y, 0, 0, 0⟩⟩ := by
  exact_simp
  simp [hy]

/-- both end slopes equal to the secant slope: the straight line, coefficient for coefficient -/
theorem seg_line (a b : K) (k0 k1 : Knot K) (hx : k0.x ≠ k1.x)
    (h0 : k0.y = a + b * k0.x) (h1 : k1.y = a + b * k1.x) :
    (Spline.segment b k0 b k1).poly = ⟨⟨a, b, 0, 0⟩⟩ := by
  have hd : k1.x - k0.x ≠ 0 := sub_ne_zero.mpr (Ne.symm hx)
  have hs : (k1.y - k0.y) / (k1.x - k0.x) = b := by rw [h0, h1]; field_simp; ring
  exact_simp
  rw [hs]
  have e1 : (2 * (3 * b - (b + 2 * b)) / (k1.x - k0.x)) = 0 := by
    rw [show 2 * (3 * b - (b + 2 * b)) = 0 by ring, zero_div]
  have e2 : (2 * (2 * b + b - 3 * b) / (k1.x - k0.x)) = 0 := by
    rw [show 2 * (2 * b + b - 3 * b) = 0 by ring, zero_div]
  rw [e1, e2]
  simp only [sub_self, mul_zero, zero_div, sub_zero, zero_mul]
  rw [h0]; congr; ring

/-- a cubic is determined by value and slope at two distinct points (homogeneous form) -/
theorem cubic_zero (a b c d x0 x1 : K) (hx : x0 ≠ x1)
    (h1 : a + b * x0 + c * x0 ^ 2 + d * x0 ^ 3 = 0) (h2 : a + b * x1 + c * x1 ^ 2 + d * x1 ^ 3 = 0)
    (h3 : b + 2 * c * x0 + 3 * d * x0 ^ 2 = 0) (h4 : b + 2 * c * x1 + 3 * d * x1 ^ 2 = 0) :
    a = 0 ∧ b = 0 ∧ c = 0 ∧ d = 0 := by
  have hd : x1 - x0 ≠ 0 := sub_ne_zero.mpr (Ne.symm hx)
  have ed : d * (x1 - x0) ^ 3 = 0 := by
    linear_combination (x1 - x0) * (h3 + h4) - 2 * (h2 - h1)
  have d0 : d = 0 := by
    rcases mul_eq_zero.mp ed with h | h
    · exact h
    · exact absurd (pow_eq_zero_iff (by norm_num) |>.mp h) hd
  subst d0
  have ec : c * (x1 - x0) = 0 := by linear_combination (1 / 2 : K) * (h4 - h3)
  have c0 : c = 0 := by
    rcases mul_eq_zero.mp ec with h | h
    · exact h
    · exact absurd h hd
  subst c0
  have b0 : b = 0 := by linear_combination h3
  subst b0
  have a0 : a = 0 := by linear_combination h1
  exact ⟨a0, rfl, rfl, rfl⟩

/-- uniqueness of the Hermite cubic: any cubic with the same data has the same four coefficients -/
theorem seg_unique (f0 f1 : K) (k0 k1 : Knot K) (hx : k0.x ≠ k1.x) (q : Poly3 K)
    (q0 : Evaluate.evaluate q k0.x = k0.y) (q1 : Evaluate.evaluate q k1.x = k1.y)
    (d0 : Evaluate.evaluate (HasDerivative.derivative q) k0.x = f0)
    (d1 : Evaluate.evaluate (HasDerivative.derivative q) k1.x = f1) :
    q = (Spline.segment f0 k0 f1 k1).poly := by
  have p0 := seg_left f0 f1 k0 k1 hx
  have p1 := seg_right f0 f1 k0 k1 hx
  have e0 := seg_dleft f0 f1 k0 k1 hx
  have e1 := seg_dright f0 f1 k0 k1 hx
  generalize (Spline.segment f0 k0 f1 k1).poly = p at *
  rw [eval3] at q0 q1 p0 p1
  rw [deriv3] at d0 d1 e0 e1
  obtain ⟨⟨qa, qb, qc, qd⟩⟩ := q
  obtain ⟨⟨pa, pb, pc, pd⟩⟩ := p
  simp only at q0 q1 p0 p1 d0 d1 e0 e1
  have := cubic_zero (qa - pa) (qb - pb) (qc - pc) (qd - pd) k0.x k1.x hx
    (by linear_combination q0 - p0) (by linear_combination q1 - p1)
    (by linear_combination d0 - e0) (by linear_combination d1 - e1)
  obtain ⟨ha, hb, hc, hd⟩ := this
  rw [sub_eq_zero.mp ha, sub_eq_zero.mp hb, sub_eq_zero.mp hc, sub_eq_zero.mp hd]

/-- strictly increasing abscissae, read off at two consecutive knots -/
theorem sorted_lt {ks : List (Knot K)} (hs : (ks.map Knot.x).Pairwise (· < ·))
    (i : Nat) (h : i + 1 < ks.length) : ks[i].x < ks[i + 1].x := by
  rw [List.pairwise_map] at hs
  exact (List.pairwise_iff_getElem.mp hs) i (i + 1) (by omega) h (by omega)

end exact

end PP.Spline
