import PP.Lemmas.F64Ops
/-!
# The comparisons of `F64` are the comparisons of the values (finite canonical operands)

`F64.lt`, `F64.le`, `F64.feq` compare the integer `key` (sign-magnitude encoding).  On finite canonical
operands the key is strictly monotone in `val`: `lt_iff_val`, `le_iff_val`, `feq_iff_val`, and hence
`val_max` (`f64::max` returns the larger value).
-/
namespace F64

/-- how the encodings of two canonical magnitudes compare -/
theorem magBits_lt_cases {s t : Bool} {m n : Nat} {e f : Int} (ha : Canon (fin s m e)) (hb : Canon (fin t n f))
    (h : magBits (fin s m e) < magBits (fin t n f)) :
    (m < 2 ^ 52 ∧ 2 ^ 52 ≤ n ∧ e = -1074) ∨ (e = f ∧ m < n) ∨ (2 ^ 52 ≤ m ∧ 2 ^ 52 ≤ n ∧ e < f) := by
  obtain ⟨a1, a2, a3, a4⟩ := ha
  obtain ⟨b1, b2, b3, b4⟩ := hb
  simp only [magBits] at h
  have hE : ((e + 1075).toNat : Int) = e + 1075 := Int.toNat_of_nonneg (by omega)
  have hF : ((f + 1075).toNat : Int) = f + 1075 := Int.toNat_of_nonneg (by omega)
  generalize (e + 1075).toNat = E at h hE
  generalize (f + 1075).toNat = F at h hF
  have p52 : (2:Nat) ^ 52 = 4503599627370496 := by norm_num
  have p53 : (2:Nat) ^ 53 = 9007199254740992 := by norm_num
  rw [p52] at *
  rw [p53] at a2 b2
  split_ifs at h with h1 h2 h2
  · right; left; omega
  · left; omega
  · exfalso; omega
  · rcases Nat.lt_trichotomy E F with hEF | hEF | hEF
    · right; right; omega
    · right; left; omega
    · exfalso
      have : F + 1 ≤ E := hEF
      have : (F + 1) * 4503599627370496 ≤ E * 4503599627370496 := Nat.mul_le_mul_right _ this
      omega

theorem magBits_eq_cases {s t : Bool} {m n : Nat} {e f : Int} (ha : Canon (fin s m e)) (hb : Canon (fin t n f))
    (h : magBits (fin s m e) = magBits (fin t n f)) : m = n ∧ e = f := by
  obtain ⟨a1, a2, a3, a4⟩ := ha
  obtain ⟨b1, b2, b3, b4⟩ := hb
  simp only [magBits] at h
  have hE : ((e + 1075).toNat : Int) = e + 1075 := Int.toNat_of_nonneg (by omega)
  have hF : ((f + 1075).toNat : Int) = f + 1075 := Int.toNat_of_nonneg (by omega)
  generalize (e + 1075).toNat = E at h hE
  generalize (f + 1075).toNat = F at h hF
  have p52 : (2:Nat) ^ 52 = 4503599627370496 := by norm_num
  have p53 : (2:Nat) ^ 53 = 9007199254740992 := by norm_num
  rw [p52] at *
  rw [p53] at a2 b2
  split_ifs at h with h1 h2 h2
  · omega
  · exfalso
    have : 1 ≤ F := by omega
    have : 1 * 4503599627370496 ≤ F * 4503599627370496 := Nat.mul_le_mul_right _ this
    omega
  · exfalso
    have : 1 ≤ E := by omega
    have : 1 * 4503599627370496 ≤ E * 4503599627370496 := Nat.mul_le_mul_right _ this
    omega
  · rcases Nat.lt_trichotomy E F with hEF | hEF | hEF
    · exfalso
      have : E + 1 ≤ F := hEF
      have : (E + 1) * 4503599627370496 ≤ F * 4503599627370496 := Nat.mul_le_mul_right _ this
      omega
    · subst hEF; omega
    · exfalso
      have : F + 1 ≤ E := hEF
      have : (F + 1) * 4503599627370496 ≤ E * 4503599627370496 := Nat.mul_le_mul_right _ this
      omega

/-- the magnitude `m·2^e` -/
def mag : F64 → ℚ
  | fin _ m e => (m:ℚ) * (2:ℚ) ^ e
  | _ => 0

theorem mag_nonneg (a : F64) : 0 ≤ mag a := by
  cases a <;> simp only [mag] <;> positivity

theorem val_eq_sgn_mag (s : Bool) (m : Nat) (e : Int) : val (fin s m e) = sgn s * mag (fin s m e) := by
  rw [val_fin, mag, mul_assoc]

/-- the encoding is strictly monotone in the magnitude -/
theorem mag_lt_of_magBits_lt {s t : Bool} {m n : Nat} {e f : Int} (ha : Canon (fin s m e))
    (hb : Canon (fin t n f)) (h : magBits (fin s m e) < magBits (fin t n f)) :
    mag (fin s m e) < mag (fin t n f) := by
  have two_ne : (2:ℚ) ≠ 0 := by norm_num
  have pe : (0:ℚ) < (2:ℚ) ^ e := zpow_pos (by norm_num) e
  have pf : (0:ℚ) < (2:ℚ) ^ f := zpow_pos (by norm_num) f
  simp only [mag]
  rcases magBits_lt_cases ha hb h with ⟨h1, h2, h3⟩ | ⟨h1, h2⟩ | ⟨h1, h2, h3⟩
  · have hm : (m:ℚ) < (2:ℚ) ^ (52:Int) := by rw [← c52]; exact_mod_cast h1
    have hn : (2:ℚ) ^ (52:Int) ≤ (n:ℚ) := by rw [← c52]; exact_mod_cast h2
    have hef : (2:ℚ) ^ e ≤ (2:ℚ) ^ f := zpow_le_zpow_right₀ (by norm_num) (by have := hb.1; omega)
    calc (m:ℚ) * (2:ℚ) ^ e < (2:ℚ) ^ (52:Int) * (2:ℚ) ^ e := mul_lt_mul_of_pos_right hm pe
      _ ≤ (n:ℚ) * (2:ℚ) ^ f := mul_le_mul hn hef pe.le (Nat.cast_nonneg n)
  · subst h1
    exact mul_lt_mul_of_pos_right (by exact_mod_cast h2) pe
  · have hm : (m:ℚ) < (2:ℚ) ^ (53:Int) := by rw [← c53]; exact_mod_cast ha.2.1
    have hn : (2:ℚ) ^ (52:Int) ≤ (n:ℚ) := by rw [← c52]; exact_mod_cast h2
    have hef : (2:ℚ) ^ (e + 1) ≤ (2:ℚ) ^ f := zpow_le_zpow_right₀ (by norm_num) (by omega)
    calc (m:ℚ) * (2:ℚ) ^ e < (2:ℚ) ^ (53:Int) * (2:ℚ) ^ e := mul_lt_mul_of_pos_right hm pe
      _ = (2:ℚ) ^ (52:Int) * (2:ℚ) ^ (e + 1) := by
          rw [← zpow_add₀ two_ne, ← zpow_add₀ two_ne]; congr 1; ring
      _ ≤ (n:ℚ) * (2:ℚ) ^ f := mul_le_mul hn hef (zpow_pos (by norm_num) _).le (Nat.cast_nonneg n)

theorem magBits_lt_iff {s t : Bool} {m n : Nat} {e f : Int} (ha : Canon (fin s m e)) (hb : Canon (fin t n f)) :
    magBits (fin s m e) < magBits (fin t n f) ↔ mag (fin s m e) < mag (fin t n f) := by
  refine ⟨mag_lt_of_magBits_lt ha hb, fun h => ?_⟩
  rcases Nat.lt_trichotomy (magBits (fin s m e)) (magBits (fin t n f)) with h1 | h1 | h1
  · exact h1
  · obtain ⟨rfl, rfl⟩ := magBits_eq_cases ha hb h1
    simp only [mag] at h; exact absurd h (lt_irrefl _)
  · exact absurd (mag_lt_of_magBits_lt hb ha h1) (not_lt.mpr h.le)

theorem magBits_eq_zero_iff {s : Bool} {m : Nat} {e : Int} (ha : Canon (fin s m e)) :
    magBits (fin s m e) = 0 ↔ mag (fin s m e) = 0 := by
  have hz : Canon (fin s 0 (-1074)) := canon_zero s
  have h0 : magBits (fin s 0 (-1074)) = 0 := by simp [magBits]
  have m0 : mag (fin s 0 (-1074)) = 0 := by simp [mag]
  have := magBits_lt_iff hz ha
  rw [h0, m0] at this
  constructor
  · intro h; rw [h] at this
    exact le_antisymm (not_lt.mp (fun hp => (lt_irrefl 0) (this.mpr hp))) (mag_nonneg _)
  · intro h; rw [h] at this
    exact Nat.eq_zero_of_not_pos (fun hp => (lt_irrefl (0:ℚ)) (this.mp hp))

/-- the ordering key is strictly monotone in the value (finite canonical operands) -/
theorem key_lt_iff {a b : F64} (fa : Finite a) (ca : Canon a) (fb : Finite b) (cb : Canon b) :
    key a < key b ↔ val a < val b := by
  cases a with
  | fin s m e => cases b with
    | fin t n f =>
      rw [val_eq_sgn_mag, val_eq_sgn_mag]
      have hA := mag_nonneg (fin s m e)
      have hB := mag_nonneg (fin t n f)
      have zA := magBits_eq_zero_iff ca
      have zB := magBits_eq_zero_iff cb
      have mt1 := magBits_lt_iff ca cb
      have mt2 := magBits_lt_iff cb ca
      have eqmag : mag (fin s m e) = mag (fin true m e) := rfl
      have eqmag' : mag (fin t n f) = mag (fin true n f) := rfl
      simp only [key, signBit]
      cases s <;> cases t <;> simp only [if_true, if_false, Bool.false_eq_true, sgn_true, sgn_false, one_mul]
      · rw [← mt1]; exact Nat.cast_lt
      · constructor
        · intro h; omega
        · intro h; linarith
      · constructor
        · intro h
          have : ¬ (magBits (fin true m e) = 0 ∧ magBits (fin false n f) = 0) := by omega
          rw [zA, zB] at this
          by_contra hc
          apply this
          constructor <;> linarith
        · intro h
          have : ¬ (magBits (fin true m e) = 0 ∧ magBits (fin false n f) = 0) := by
            rw [zA, zB]; rintro ⟨x, y⟩; rw [x, y] at h; simp at h
          omega
      · have : -(magBits (fin true m e) : Int) < -(magBits (fin true n f) : Int)
            ↔ magBits (fin true n f) < magBits (fin true m e) := by omega
        rw [this, mt2]
        constructor <;> intro h <;> linarith
    | _ => exact fb.elim
  | _ => exact fa.elim

theorem isNaN_of_finite {a : F64} (h : Finite a) : a.isNaN = false := by cases a <;> first | rfl | exact h.elim

/-- `<` on finite canonical operands is `<` on the values -/
theorem lt_iff_val {a b : F64} (fa : Finite a) (ca : Canon a) (fb : Finite b) (cb : Canon b) :
    lt a b = true ↔ val a < val b := by
  rw [← key_lt_iff fa ca fb cb]
  simp [lt, isNaN_of_finite fa, isNaN_of_finite fb]

/-- `<=` on finite canonical operands is `≤` on the values -/
theorem le_iff_val {a b : F64} (fa : Finite a) (ca : Canon a) (fb : Finite b) (cb : Canon b) :
    le a b = true ↔ val a ≤ val b := by
  rw [← not_lt, ← key_lt_iff fb cb fa ca]
  simp [le, isNaN_of_finite fa, isNaN_of_finite fb]

/-- `==` on finite canonical operands is equality of the values (`+0 == -0`) -/
theorem feq_iff_val {a b : F64} (fa : Finite a) (ca : Canon a) (fb : Finite b) (cb : Canon b) :
    feq a b = true ↔ val a = val b := by
  have h1 := key_lt_iff fa ca fb cb
  have h2 := key_lt_iff fb cb fa ca
  have : feq a b = true ↔ key a = key b := by simp [feq, isNaN_of_finite fa, isNaN_of_finite fb]
  rw [this]
  constructor
  · intro h
    rw [h] at h1 h2
    exact le_antisymm (not_lt.mp (fun x => (lt_irrefl _) (h2.mpr x))) (not_lt.mp (fun x => (lt_irrefl _) (h1.mpr x)))
  · intro h
    rw [h] at h1 h2
    have a1 : ¬ key a < key b := fun x => (lt_irrefl _) (h1.mp x)
    have a2 : ¬ key b < key a := fun x => (lt_irrefl _) (h2.mp x)
    omega

/-- `f64::max` of two finite canonical numbers is finite, canonical and has the larger value -/
theorem max_spec {a b : F64} (fa : Finite a) (ca : Canon a) (fb : Finite b) (cb : Canon b) :
    Finite (max a b) ∧ Canon (max a b) ∧ val (max a b) = Max.max (val a) (val b) := by
  unfold max
  rw [isNaN_of_finite fa, isNaN_of_finite fb]
  simp only [Bool.false_eq_true, if_false]
  by_cases h : lt a b = true
  · rw [if_pos h]
    exact ⟨fb, cb, (max_eq_right ((lt_iff_val fa ca fb cb).mp h).le).symm⟩
  · rw [if_neg h]
    have : ¬ val a < val b := fun x => h ((lt_iff_val fa ca fb cb).mpr x)
    exact ⟨fa, ca, (max_eq_left (not_lt.mp this)).symm⟩

end F64
