import Mathlib.Analysis.Complex.Exponential
import Mathlib.Analysis.SpecialFunctions.Exponential
import Mathlib.Analysis.SpecialFunctions.Exp
import Mathlib.Tactic.Ring
import Mathlib.Tactic.FieldSimp
import Mathlib.Tactic.Linarith
import Mathlib.Tactic.NormNum
import Mathlib.Tactic.Positivity

namespace PP.Lemmas.ExpTail
open Finset
noncomputable section

/-- the degree-4 Taylor polynomial of `exp` -/
def P4 (x : ℝ) : ℝ := 1 + x + x ^ 2 / 2 + x ^ 3 / 6 + x ^ 4 / 24

/-- `R x = Σ_{m ≥ 0} x^m / (m+5)!`, defined through its closed form (see `hasSum_R`) -/
def R (x : ℝ) : ℝ :=
  if x = 0 then 1 / 120 else (Real.exp x - P4 x) / x ^ 5

/-- the sixteen-term truncation of the series of `R` -/
def S16 (x : ℝ) : ℝ := ∑ m ∈ range 16, x ^ m / ((m + 5).factorial : ℝ)

theorem real_exp_bound' {x : ℝ} {n : ℕ} (hx : |x| / n.succ ≤ 1 / 2) :
    |Real.exp x - ∑ m ∈ range n, x ^ m / (m.factorial : ℝ)| ≤ |x| ^ n / n.factorial * 2 := by
  have hxc : ‖(x : ℂ)‖ / n.succ ≤ 1 / 2 := by simpa using hx
  convert Complex.exp_bound' hxc <;> norm_cast

theorem R_zero : R 0 = 1 / 120 := by simp [R]

theorem R_of_ne {x : ℝ} (hx : x ≠ 0) : R x = (Real.exp x - P4 x) / x ^ 5 := by simp [R, hx]

/-- explicit form of the truncation -/
theorem S16_eq (x : ℝ) : S16 x =
    1 / 120 + x / 720 + x ^ 2 / 5040 + x ^ 3 / 40320 + x ^ 4 / 362880 + x ^ 5 / 3628800
    + x ^ 6 / 39916800 + x ^ 7 / 479001600 + x ^ 8 / 6227020800 + x ^ 9 / 87178291200
    + x ^ 10 / 1307674368000 + x ^ 11 / 20922789888000 + x ^ 12 / 355687428096000
    + x ^ 13 / 6402373705728000 + x ^ 14 / 121645100408832000
    + x ^ 15 / 2432902008176640000 := by
  simp only [S16, sum_range_succ, sum_range_zero, Nat.factorial]
  norm_num

/-- splitting the 21-term Taylor polynomial of `exp` -/
theorem sum21_eq (x : ℝ) :
    ∑ m ∈ range 21, x ^ m / (m.factorial : ℝ) = P4 x + x ^ 5 * S16 x := by
  rw [S16_eq]
  simp only [P4, sum_range_succ, sum_range_zero, Nat.factorial]
  norm_num
  ring

theorem factorial_21 : ((21 : ℕ).factorial : ℝ) = 51090942171709440000 := by
  norm_num [Nat.factorial]

/-- **truncation bound**: sixteen terms of the series approximate `R` to `2|x|¹⁶/21!` -/
theorem abs_R_sub_S16_le {x : ℝ} (hx : |x| ≤ 11) :
    |R x - S16 x| ≤ 2 * |x| ^ 16 / 51090942171709440000 := by
  by_cases h0 : x = 0
  · subst h0; rw [R_zero, S16_eq]; norm_num
  · have hb := real_exp_bound' (x := x) (n := 21) (by
      rw [div_le_iff₀ (by positivity)]; push_cast; linarith)
    rw [sum21_eq, factorial_21] at hb
    have hx5 : 0 < |x| ^ 5 := by positivity
    have : R x - S16 x = (Real.exp x - (P4 x + x ^ 5 * S16 x)) / x ^ 5 := by
      rw [R_of_ne h0]; field_simp; ring
    rw [this, abs_div, abs_pow, div_le_iff₀ hx5]
    calc _ ≤ _ := hb
      _ = _ := by ring

/-- numeric form on the series interval: `2·1.72¹⁶/21! ≤ 2.3e-16` -/
theorem abs_R_sub_S16_le_of_abs_le {x : ℝ} (hx : |x| ≤ 172 / 100) :
    |R x - S16 x| ≤ 23 / 10 ^ 17 := by
  refine (abs_R_sub_S16_le (by linarith)).trans ?_
  have : |x| ^ 16 ≤ (172 / 100 : ℝ) ^ 16 := pow_le_pow_left₀ (abs_nonneg x) hx 16
  calc 2 * |x| ^ 16 / 51090942171709440000
      ≤ 2 * (172 / 100 : ℝ) ^ 16 / 51090942171709440000 := by gcongr
    _ ≤ 23 / 10 ^ 17 := by norm_num

/-- numeric form on `[-2, 2]`: `2·2¹⁶/21! ≤ 2.6e-15` -/
theorem abs_R_sub_S16_le_of_abs_le_two {x : ℝ} (hx : |x| ≤ 2) :
    |R x - S16 x| ≤ 26 / 10 ^ 16 := by
  refine (abs_R_sub_S16_le (by linarith)).trans ?_
  have : |x| ^ 16 ≤ (2 : ℝ) ^ 16 := pow_le_pow_left₀ (abs_nonneg x) hx 16
  calc 2 * |x| ^ 16 / 51090942171709440000
      ≤ 2 * (2 : ℝ) ^ 16 / 51090942171709440000 := by gcongr
    _ ≤ 26 / 10 ^ 16 := by norm_num

/-- pairing consecutive terms: the truncated series dominates its first two terms on `[-6, ∞)` -/
theorem S16_ge {x : ℝ} (hx : -6 ≤ x) : 1 / 120 + x / 720 ≤ S16 x := by
  have : S16 x = 1 / 120 + x / 720 + (x ^ 2 / 5040 * (1 + x / 8) + x ^ 4 / 362880 * (1 + x / 10)
      + x ^ 6 / 39916800 * (1 + x / 12) + x ^ 8 / 6227020800 * (1 + x / 14)
      + x ^ 10 / 1307674368000 * (1 + x / 16) + x ^ 12 / 355687428096000 * (1 + x / 18)
      + x ^ 14 / 121645100408832000 * (1 + x / 20)) := by rw [S16_eq]; ring
  rw [this]
  have h8 : 0 ≤ 1 + x / 8 := by linarith
  have h10 : 0 ≤ 1 + x / 10 := by linarith
  have h12 : 0 ≤ 1 + x / 12 := by linarith
  have h14 : 0 ≤ 1 + x / 14 := by linarith
  have h16 : 0 ≤ 1 + x / 16 := by linarith
  have h18 : 0 ≤ 1 + x / 18 := by linarith
  have h20 : 0 ≤ 1 + x / 20 := by linarith
  have e2 : 0 ≤ x ^ 2 / 5040 := by positivity
  have e4 : 0 ≤ x ^ 4 / 362880 := by positivity
  have e6 : 0 ≤ x ^ 6 / 39916800 := by positivity
  have e8 : 0 ≤ x ^ 8 / 6227020800 := by positivity
  have e10 : 0 ≤ x ^ 10 / 1307674368000 := by positivity
  have e12 : 0 ≤ x ^ 12 / 355687428096000 := by positivity
  have e14 : 0 ≤ x ^ 14 / 121645100408832000 := by positivity
  have := mul_nonneg e2 h8; have := mul_nonneg e4 h10; have := mul_nonneg e6 h12
  have := mul_nonneg e8 h14; have := mul_nonneg e10 h16; have := mul_nonneg e12 h18
  have := mul_nonneg e14 h20
  linarith

/-- `R` is bounded away from zero on the series interval (true value at `-1.72` is ≈ 0.0064) -/
theorem R_ge_of_abs_le {x : ℝ} (hx : |x| ≤ 172 / 100) : 1 / 200 ≤ R x := by
  have h1 := abs_R_sub_S16_le_of_abs_le hx
  have h2 := S16_ge (x := x) (by have := neg_abs_le x; linarith)
  have h3 := (abs_le.1 h1).1
  have h4 := neg_abs_le x
  have : (0.005 : ℝ) + 23 / 10 ^ 17 ≤ 1 / 120 + (-(172 / 100)) / 720 := by norm_num
  norm_num at this h3 ⊢
  linarith

/-- relative truncation error on the series interval is below `1e-13` -/
theorem abs_R_sub_S16_le_rel {x : ℝ} (hx : |x| ≤ 172 / 100) :
    |R x - S16 x| ≤ 1 / 10 ^ 13 * R x := by
  have h1 := abs_R_sub_S16_le_of_abs_le hx
  have h2 := R_ge_of_abs_le hx
  norm_num at h1 h2 ⊢
  linarith

/-- the truncation error is at least its first omitted term for `x ≥ 0` (shows that the bound
`2|x|¹⁶/21!` is sharp up to the factor 2, and that `2.3e-16` fails at `x = 2`) -/
theorem R_sub_S16_ge {x : ℝ} (hx : 0 ≤ x) :
    x ^ 16 / 51090942171709440000 ≤ R x - S16 x := by
  rcases hx.eq_or_lt with h0 | hpos
  · subst h0; rw [R_zero, S16_eq]; norm_num
  · have hb := Real.sum_le_exp_of_nonneg hx 22
    rw [sum_range_succ, sum21_eq, factorial_21] at hb
    have : R x - S16 x = (Real.exp x - (P4 x + x ^ 5 * S16 x)) / x ^ 5 := by
      rw [R_of_ne hpos.ne']; field_simp; ring
    rw [this, le_div_iff₀ (by positivity)]
    calc _ = x ^ 21 / 51090942171709440000 := by ring
      _ ≤ _ := by linarith

/-- counter-example to a uniform `2.3e-16` on `|x| ≤ 2`: at `x = 2` the gap exceeds `1.2e-15` -/
theorem R_sub_S16_two_gt : 12 / 10 ^ 16 < R 2 - S16 2 := by
  refine lt_of_lt_of_le ?_ (R_sub_S16_ge (x := 2) (by norm_num))
  norm_num

/-- justification of the name: `R x` is the sum of the series `Σ_{m ≥ 0} x^m/(m+5)!` -/
theorem hasSum_R (x : ℝ) : HasSum (fun m : ℕ => x ^ m / ((m + 5).factorial : ℝ)) (R x) := by
  by_cases h0 : x = 0
  · subst h0
    rw [R_zero]
    convert hasSum_single (f := fun m : ℕ => (0 : ℝ) ^ m / ((m + 5).factorial : ℝ)) 0 ?_ using 1
    · norm_num [Nat.factorial]
    · intro m hm; simp [hm]
  · have h := NormedSpace.expSeries_div_hasSum_exp (𝔸 := ℝ) x
    rw [← Real.exp_eq_exp_ℝ, ← hasSum_nat_add_iff' 5] at h
    have h5 : ∑ i ∈ range 5, x ^ i / (i.factorial : ℝ) = P4 x := by
      simp only [P4, sum_range_succ, sum_range_zero, Nat.factorial]; norm_num
    rw [h5] at h
    rw [R_of_ne h0]
    have key : (fun m : ℕ => x ^ m / ((m + 5).factorial : ℝ))
        = fun m : ℕ => x ^ (m + 5) / ((m + 5).factorial : ℝ) / x ^ 5 := by
      funext m; rw [pow_add]; field_simp
    rw [key]
    exact h.div_const (x ^ 5)

theorem R_eq_tsum (x : ℝ) : R x = ∑' m : ℕ, x ^ m / ((m + 5).factorial : ℝ) :=
  (hasSum_R x).tsum_eq.symm

/-- `R` is continuous away from 0 (in particular at both switch points of the implementation) -/
theorem continuousAt_R {x : ℝ} (hx : x ≠ 0) : ContinuousAt R x := by
  have h : R =ᶠ[nhds x] fun y => (Real.exp y - P4 y) / y ^ 5 := by
    filter_upwards [isOpen_ne.mem_nhds hx] with y hy using R_of_ne hy
  refine ContinuousAt.congr ?_ h.symm
  exact ContinuousAt.div (Real.continuous_exp.continuousAt.sub (by unfold P4; fun_prop)) (by fun_prop)
    (pow_ne_zero 5 hx)

end
end PP.Lemmas.ExpTail
