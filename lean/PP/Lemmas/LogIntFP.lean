import PP.Sem.Count
import PP.Props.C09
import PP.Lemmas.ExpTailFP
import PP.Lemmas.LinearFP
import PP.Model.LogPoly.CalculusAttr
import PP.Model.LogPoly.EvaluateAttr
import PP.Props.C10Bound
/-!
# Helper lemmas for the floating-point part of C09 (`PP/Props/C09Bound.lean`)

`K = ℝ`, `ln = Real.log` (`PP.Props.C09.realTransc`), an arbitrary rounding model `M : RModel ℝ`.

* **A0** the two patterns as real-number expressions: `knot_core` (`|rnd (x·t + k̂) − y| ≤ g₃|y| + g₄|x·t|` for
  `k̂ = rnd (rnd (y − rnd (x·t)))`, from `LinearFP.tail_left`), `k_core`.
* **A** degree-independent facts about the *generated* `Evaluate (IntOfLog F T)` (`fma v (poly(ln v)) k`) and the body
  of every generated `integral` (`translate indef (knot.y − evaluate indef knot.x)`, here `throughKnot`) run in
  `Rounded M`:  `polyVal` (the computed value `T̂(v)` of the polynomial part at `rnd (ln v)`), `intOfLog_evalR`,
  `throughKnot_k`, `knot_gen` (`|F̂(x) − y| ≤ g₃|y| + g₄|x·T̂(x)|`, `g_k = (1+u)^k − 1`), `eval_vs_ideal`,
  `difference_gen` (`|F̂(b) − F̂(a) − (b·Q_b − a·Q_a)| ≤ g_{K+1}(a·A_a + b·A_b) + 2u|k̂|`), `k_abs_le`; and with
  `u ≤ 2⁻⁵³` and numerals: `knot_num`, `knot_num_S`, `difference_num`, `k_abs_num`.
* **B** the counting semantics (`PP/Sem/Count.lean`) applied to the generated code: `xCt M v` is `x̂ = rnd (ln v)` as a
  number of `Ct M` (exact value `ln v`, magnitude `|ln v|`, depth 1).  For every degree `n ≠ 4` (GENERATED blocks,
  identical up to the degree; generator `gen.py`): `indefCt⟨n⟩ M p` = the generated `indefinite` *run at `Ct M`* on the
  injected coefficients; its lanes carry, by `rfl`, the exact run, the rounded run, the depth, and — after
  `norm_num; ring` — the magnitudes `S_j = Σ_{i≥j} (i!/j!)|c_i|` (`Smag⟨n⟩`); `coeff⟨n⟩_ct` states the invariant for
  every lane; `polyCt⟨n⟩ M p v` = the generated `Evaluate (Poly⟨n⟩ F)` run at `Ct M` on these lanes at `xCt M v`;
  `poly⟨n⟩_ct` is its invariant: exact value `Q(ln v)`, computed value `polyVal`, magnitude
  `MagS⟨n⟩ p v = Σ_j S_j|ln v|^j`, depth `K_n`; `poly⟨n⟩_abs_le`: `|Q(ln v)| ≤ MagQ⟨n⟩ p v = Σ_j |q_j||ln v|^j`.
* **C** degree 4 (`IntOfLogPoly4`): `coeff4_ct` (the recurrence with literal quotients, composed by hand from
  `CtInv.add/sub/mul`, `ct_litdiv`; depths 0, 6, 12, 18, 21), `exists_cr` (the bracket of the generated evaluation does
  not depend on `k`), `knot4_gen`; `C10.ideal` / `C10Bound.Mag` as linear forms (`lin_abs_le`, `abs_ideal_le_Mag`,
  `Mag_le_of_coeffs`, `ideal_close`), `ideal_eq_evalWith`, `ideal_ftc` (the exact integral).
-/
set_option linter.unusedSectionVars false
set_option linter.unusedVariables false

namespace PP.Lemmas.LogIntFP
open PP.Lemmas.Rounding PP.Lemmas.ExpTailFP

attribute [local instance] PP.Props.C09.realTransc
attribute [local instance] exactFL

variable (M : RModel ℝ)

/-! ## A0. the two patterns, as real-number expressions

`t` is the computed value of "the bracket" (`T̂(x)` for `IntOfLog`, `cr` for `IntOfLogPoly4`); `E = rnd (x·t)` is the
indefinite integral at the knot, `k̂ = rnd (rnd (y − E))` the stored constant (`y − E`, then `0.0 + ·`), and
`rnd (x·t + k̂)` the value of `F` at the knot. -/

/-- `|rnd (x·t + k̂) − y| ≤ g₃|y| + g₄|x·t|` -/
theorem knot_core (t x y : ℝ) :
    |M.rnd (x * t + M.rnd (M.rnd (y - M.rnd (x * t)))) - y|
      ≤ ((1 + M.u) ^ 3 - 1) * |y| + ((1 + M.u) ^ 4 - 1) * |x * t| := by
  have h1 := PP.Lemmas.LinearFP.tail_left M t x y
  rw [mul_comm t x] at h1
  refine (PP.Lemmas.LinearFP.rnd_eval_close M _ _).trans ?_
  have e : x * t + M.rnd (M.rnd (y - M.rnd (x * t))) - y
      = M.rnd (M.rnd (y - M.rnd (x * t))) + x * t - y := by ring
  rw [e]
  have hu := M.hu
  have := mul_le_mul_of_nonneg_left h1 (by linarith : (0 : ℝ) ≤ 1 + M.u)
  have := mul_nonneg hu (abs_nonneg (x * t))
  have e2 : (1 + M.u) * (((1 + M.u) ^ 2 - 1) * |y| + ((1 + M.u) ^ 3 - 1) * |x * t|) + M.u * |y|
      = ((1 + M.u) ^ 3 - 1) * |y| + ((1 + M.u) ^ 4 - 1) * |x * t| - M.u * |x * t| := by ring
  linarith

/-- `|k̂| ≤ (1+u)²·(|y| + (1+u)·|x·t|)` -/
theorem k_core (t x y : ℝ) :
    |M.rnd (M.rnd (y - M.rnd (x * t)))| ≤ (1 + M.u) ^ 2 * (|y| + (1 + M.u) * |x * t|) := by
  have hu := M.hu
  have h1 := M.abs_rnd_le (M.rnd (y - M.rnd (x * t)))
  have h2 := M.abs_rnd_le (y - M.rnd (x * t))
  have h3 := M.abs_rnd_le (x * t)
  have h4 : |y - M.rnd (x * t)| ≤ |y| + |M.rnd (x * t)| := abs_sub _ _
  have h5 : (1 + M.u) * |M.rnd (y - M.rnd (x * t))| ≤ (1 + M.u) * ((1 + M.u) * |y - M.rnd (x * t)|) :=
    mul_le_mul_of_nonneg_left h2 (by linarith)
  have h6 : (1 + M.u) * ((1 + M.u) * |y - M.rnd (x * t)|)
      ≤ (1 + M.u) * ((1 + M.u) * (|y| + (1 + M.u) * |x * t|)) :=
    mul_le_mul_of_nonneg_left (mul_le_mul_of_nonneg_left (by linarith) (by linarith)) (by linarith)
  calc _ ≤ _ := h1
    _ ≤ _ := h5
    _ ≤ _ := h6
    _ = _ := by ring

/-! ## A. `IntOfLog` in `Rounded M`, any polynomial type -/
section generic
variable {T : Type} [Evaluate T (Rounded M)] [Translate T (Rounded M)]

/-- the computed value of the polynomial part at the computed logarithm `rnd (ln v)` -/
noncomputable def polyVal (I : IntOfLog (Rounded M) T) (v : ℝ) : ℝ :=
  (Evaluate.evaluate I.poly (FloatLike.ln (⟨v⟩ : Rounded M))).val

/-- the rounded evaluation of an `IntOfLog` at `v` -/
@[reducible] noncomputable def evalR (I : IntOfLog (Rounded M) T) (v : ℝ) : ℝ :=
  (Evaluate.evaluate I (⟨v⟩ : Rounded M)).val

/-- the generated `IntOfLog::evaluate` is one `fma`: `rnd (v·T̂(v) + k)` -/
theorem intOfLog_evalR (I : IntOfLog (Rounded M) T) (v : ℝ) :
    evalR M I v = M.rnd (v * polyVal M I v + I.k.val) := rfl

/-- the body of every generated `integral`: translate the indefinite integral through the knot `(x, y)` -/
@[reducible] noncomputable def throughKnot (I : IntOfLog (Rounded M) T) (x y : ℝ) : IntOfLog (Rounded M) T :=
  Translate.translate I (PSub.sub (⟨y⟩ : Rounded M) (Evaluate.evaluate I (⟨x⟩ : Rounded M)))

theorem throughKnot_poly (I : IntOfLog (Rounded M) T) (x y : ℝ) : (throughKnot M I x y).poly = I.poly := rfl

theorem throughKnot_polyVal (I : IntOfLog (Rounded M) T) (x y v : ℝ) :
    polyVal M (throughKnot M I x y) v = polyVal M I v := rfl

/-- the constant stored by `integral`: `0.0 + (y − fma(x, T̂(x), 0.0))`, three roundings -/
theorem throughKnot_k (I : IntOfLog (Rounded M) T) (hk : I.k.val = 0) (x y : ℝ) :
    (throughKnot M I x y).k.val = M.rnd (M.rnd (y - M.rnd (x * polyVal M I x))) := by
  show M.rnd (I.k.val + M.rnd (y - M.rnd (x * polyVal M I x + I.k.val))) = _
  rw [hk, zero_add, add_zero]

/-- **F̂(knot.x) against knot.y**, any polynomial type: `g₃|y| + g₄|x·T̂(x)|` — the same computation `T̂(x)` is
used when the constant is fixed and when `F` is evaluated at the knot, so neither the error of the coefficients
nor that of `ln` enters, only the four roundings `x·T̂`, `y − ·`, `0 + ·`, and the final `fma`. -/
theorem knot_gen (I : IntOfLog (Rounded M) T) (hk : I.k.val = 0) (x y : ℝ) :
    |evalR M (throughKnot M I x y) x - y|
      ≤ ((1 + M.u) ^ 3 - 1) * |y| + ((1 + M.u) ^ 4 - 1) * |x * polyVal M I x| := by
  rw [intOfLog_evalR, throughKnot_polyVal, throughKnot_k M I hk]
  exact knot_core M _ x y

/-- the stored constant is at most `(1+u)²·(|y| + (1+u)·|x·T̂(x)|)` -/
theorem k_abs_le (I : IntOfLog (Rounded M) T) (hk : I.k.val = 0) (x y : ℝ) :
    |(throughKnot M I x y).k.val| ≤ (1 + M.u) ^ 2 * (|y| + (1 + M.u) * |x * polyVal M I x|) := by
  rw [throughKnot_k M I hk]
  exact k_core M _ x y

/-- **one evaluation against `v·Q + k̂`**: if the computed polynomial value approximates `Q` with magnitude `A` and
depth `K`, the rounded `IntOfLog::evaluate` is within `g_{K+1}·v·A + u·|k̂|` of `v·Q + k̂` (`k̂` the stored constant) -/
theorem eval_vs_ideal (I : IntOfLog (Rounded M) T) {v Q A : ℝ} {K : ℕ} (hv : 0 < v)
    (h : CtInv M Q (polyVal M I v) A K) :
    |evalR M I v - (v * Q + I.k.val)| ≤ ((1 + M.u) ^ (K + 1) - 1) * (v * A) + M.u * |I.k.val| := by
  rw [intOfLog_evalR]
  set Tv := polyVal M I v
  set g := (1 + M.u) ^ K - 1 with hg
  have hg0 : 0 ≤ g := growth_nonneg M.hu K
  have hu := M.hu
  have hA := h.A_nonneg
  have hd : |v * Tv + I.k.val - (v * Q + I.k.val)| ≤ v * (g * A) := by
    have : v * Tv + I.k.val - (v * Q + I.k.val) = v * (Tv - Q) := by ring
    rw [this, abs_mul, abs_of_pos hv]
    exact mul_le_mul_of_nonneg_left h.2 hv.le
  have he : |v * Q + I.k.val| ≤ v * A + |I.k.val| := by
    refine (abs_add_le _ _).trans (add_le_add ?_ le_rfl)
    rw [abs_mul, abs_of_pos hv]
    exact mul_le_mul_of_nonneg_left h.1 hv.le
  have h1 := rnd_close M.hu M.h (v * Q + I.k.val) (v * Tv + I.k.val) (v * (g * A)) hd
  refine h1.trans ?_
  have : M.u * (|v * Q + I.k.val| + v * (g * A)) ≤ M.u * (v * A + |I.k.val| + v * (g * A)) :=
    mul_le_mul_of_nonneg_left (by linarith) hu
  have e : (1 + M.u) ^ (K + 1) - 1 = g + M.u * (1 + g) := by rw [hg, pow_succ]; ring
  rw [e]
  nlinarith

/-- **difference of two evaluations**: the stored constant cancels exactly -/
theorem difference_gen (I : IntOfLog (Rounded M) T) {a b Qa Qb Aa Ab : ℝ} {K : ℕ} (ha : 0 < a) (hb : 0 < b)
    (hQa : CtInv M Qa (polyVal M I a) Aa K) (hQb : CtInv M Qb (polyVal M I b) Ab K) :
    |evalR M I b - evalR M I a - (b * Qb - a * Qa)|
      ≤ ((1 + M.u) ^ (K + 1) - 1) * (a * Aa + b * Ab) + 2 * M.u * |I.k.val| := by
  have h1 := eval_vs_ideal M I ha hQa
  have h2 := eval_vs_ideal M I hb hQb
  have e : evalR M I b - evalR M I a - (b * Qb - a * Qa)
      = (evalR M I b - (b * Qb + I.k.val)) - (evalR M I a - (a * Qa + I.k.val)) := by ring
  rw [e]
  refine (abs_sub _ _).trans ?_
  linarith

/-! ### the same with `u ≤ 2⁻⁵³` and explicit constants -/

theorem u_small (hu : M.u ≤ (2 : ℝ) ^ (-53 : ℤ)) : M.u ≤ 1 / 10 ^ 15 := hu.trans (by norm_num)

/-- the computed polynomial value is at most `MQ + C·u·A` when `|Q| ≤ MQ` -/
theorem polyVal_abs_le {v Q A MQ C : ℝ} {K : ℕ} {t : ℝ} (hu : M.u ≤ (2 : ℝ) ^ (-53 : ℤ))
    (h : CtInv M Q t A K) (hQ : |Q| ≤ MQ) (hK : K ≤ 1000) (hC : (K : ℝ) + 1 / 1000 = C) :
    |t| ≤ MQ + C * M.u * A := by
  have h2 := h.2.trans (mul_le_mul_of_nonneg_right (growth_num M.hu hu K hK) h.A_nonneg)
  rw [hC] at h2
  calc |t| = |Q + (t - Q)| := by ring_nf
    _ ≤ |Q| + |t - Q| := abs_add_le _ _
    _ ≤ _ := by linarith

/-- … and at most `(1 + 10⁻¹¹)·A` -/
theorem polyVal_abs_le_A {Q A : ℝ} {K : ℕ} {t : ℝ} (hu : M.u ≤ (2 : ℝ) ^ (-53 : ℤ))
    (h : CtInv M Q t A K) (hK : K ≤ 1000) : |t| ≤ (1 + 1 / 10 ^ 11) * A := by
  have h1 := polyVal_abs_le M (v := 0) hu h h.1 hK rfl
  have hA := h.A_nonneg
  have hu15 := u_small M hu
  have hK' : (K : ℝ) ≤ 1000 := by exact_mod_cast hK
  have hK0 : (0 : ℝ) ≤ K := Nat.cast_nonneg K
  have : ((K : ℝ) + 1 / 1000) * M.u ≤ 1 / 10 ^ 11 := by
    have := mul_le_mul (by linarith : (K : ℝ) + 1 / 1000 ≤ 1001) hu15 M.hu (by norm_num)
    norm_num at this ⊢; linarith
  have := mul_le_mul_of_nonneg_right this hA
  linarith

/-- **(4), generic**: `|F̂(x) − y| ≤ 4.001·u·(|y| + x·(MQ + C·u·A))` -/
theorem knot_num (I : IntOfLog (Rounded M) T) (hk : I.k.val = 0) (hu : M.u ≤ (2 : ℝ) ^ (-53 : ℤ)) (y : ℝ)
    {x Q A MQ C : ℝ} {K : ℕ} (hx : 0 < x) (h : CtInv M Q (polyVal M I x) A K) (hQ : |Q| ≤ MQ)
    (hK : K ≤ 1000) (hC : (K : ℝ) + 1 / 1000 = C) :
    |evalR M (throughKnot M I x y) x - y| ≤ (4 + 1 / 1000) * M.u * (|y| + x * (MQ + C * M.u * A)) := by
  have h0 := knot_gen M I hk x y
  have hT := polyVal_abs_le M (v := x) hu h hQ hK hC
  rw [abs_mul, abs_of_pos hx] at h0
  have g3 := growth_num M.hu hu 3 (by norm_num)
  have g4 := growth_num M.hu hu 4 (by norm_num)
  have hu0 := M.hu
  have a := abs_nonneg y
  have b : 0 ≤ x * |polyVal M I x| := mul_nonneg hx.le (abs_nonneg _)
  have hb : x * |polyVal M I x| ≤ x * (MQ + C * M.u * A) := mul_le_mul_of_nonneg_left hT hx.le
  have m1 := mul_le_mul_of_nonneg_right g3 a
  have m2 := mul_le_mul_of_nonneg_right g4 b
  have m3 : (4 + 1 / 1000) * M.u * (x * |polyVal M I x|) ≤ (4 + 1 / 1000) * M.u * (x * (MQ + C * M.u * A)) :=
    mul_le_mul_of_nonneg_left hb (by positivity)
  norm_num at m1 m2
  nlinarith [mul_nonneg hu0 a]

/-- (4), generic, magnitude form: `|F̂(x) − y| ≤ 4.01·u·(|y| + x·A)` -/
theorem knot_num_S (I : IntOfLog (Rounded M) T) (hk : I.k.val = 0) (hu : M.u ≤ (2 : ℝ) ^ (-53 : ℤ)) (y : ℝ)
    {x Q A : ℝ} {K : ℕ} (hx : 0 < x) (h : CtInv M Q (polyVal M I x) A K) (hK : K ≤ 1000) :
    |evalR M (throughKnot M I x y) x - y| ≤ (4 + 1 / 100) * M.u * (|y| + x * A) := by
  have h0 := knot_gen M I hk x y
  have hT := polyVal_abs_le_A M hu h hK
  rw [abs_mul, abs_of_pos hx] at h0
  have g3 := growth_num M.hu hu 3 (by norm_num)
  have g4 := growth_num M.hu hu 4 (by norm_num)
  have hu0 := M.hu
  have hA := h.A_nonneg
  have a := abs_nonneg y
  have b : 0 ≤ x * |polyVal M I x| := mul_nonneg hx.le (abs_nonneg _)
  have hb : x * |polyVal M I x| ≤ x * ((1 + 1 / 10 ^ 11) * A) := mul_le_mul_of_nonneg_left hT hx.le
  have m1 := mul_le_mul_of_nonneg_right g3 a
  have m2 := mul_le_mul_of_nonneg_right g4 b
  have m3 : (4 + 1 / 1000) * M.u * (x * |polyVal M I x|) ≤ (4 + 1 / 1000) * M.u * (x * ((1 + 1 / 10 ^ 11) * A)) :=
    mul_le_mul_of_nonneg_left hb (by positivity)
  have xA : 0 ≤ M.u * (x * A) := mul_nonneg hu0 (mul_nonneg hx.le hA)
  norm_num at m1 m2
  nlinarith [mul_nonneg hu0 a]

/-- **(5), generic**: `|F̂(b) − F̂(a) − (b·Q_b − a·Q_a)| ≤ C·u·(a·A_a + b·A_b) + 2u|k̂|`, `C = K + 1.001` -/
theorem difference_num (I : IntOfLog (Rounded M) T) (hu : M.u ≤ (2 : ℝ) ^ (-53 : ℤ))
    {a b Qa Qb Aa Ab C : ℝ} {K : ℕ} (ha : 0 < a) (hb : 0 < b)
    (hQa : CtInv M Qa (polyVal M I a) Aa K) (hQb : CtInv M Qb (polyVal M I b) Ab K) (hK : K + 1 ≤ 1000)
    (hC : ((K + 1 : ℕ) : ℝ) + 1 / 1000 = C) :
    |evalR M I b - evalR M I a - (b * Qb - a * Qa)| ≤ C * M.u * (a * Aa + b * Ab) + 2 * M.u * |I.k.val| := by
  have h := difference_gen M I ha hb hQa hQb
  have g := growth_num M.hu hu (K + 1) hK
  rw [hC] at g
  have : 0 ≤ a * Aa + b * Ab :=
    add_nonneg (mul_nonneg ha.le hQa.A_nonneg) (mul_nonneg hb.le hQb.A_nonneg)
  have := mul_le_mul_of_nonneg_right g this
  linarith

/-- the stored constant: `|k̂| ≤ 1.005·(|y| + x·A)` -/
theorem k_abs_num (I : IntOfLog (Rounded M) T) (hk : I.k.val = 0) (hu : M.u ≤ (2 : ℝ) ^ (-53 : ℤ)) (y : ℝ)
    {x Q A : ℝ} {K : ℕ} (hx : 0 < x) (h : CtInv M Q (polyVal M I x) A K) (hK : K ≤ 1000) :
    |(throughKnot M I x y).k.val| ≤ (1 + 1 / 200) * (|y| + x * A) := by
  have h0 := k_abs_le M I hk x y
  have hT := polyVal_abs_le_A M hu h hK
  rw [abs_mul, abs_of_pos hx] at h0
  have hu0 := M.hu
  have hu15 := u_small M hu
  have hA := h.A_nonneg
  have a := abs_nonneg y
  have hb : x * |polyVal M I x| ≤ x * ((1 + 1 / 10 ^ 11) * A) := mul_le_mul_of_nonneg_left hT hx.le
  have b : 0 ≤ x * |polyVal M I x| := mul_nonneg hx.le (abs_nonneg _)
  have xA : 0 ≤ x * A := mul_nonneg hx.le hA
  have s1 : (1 + M.u) ^ 2 ≤ 1 + 1 / 1000 := by nlinarith
  have s2 : |y| + (1 + M.u) * (x * |polyVal M I x|) ≤ (1 + 1 / 1000) * (|y| + x * A) := by nlinarith
  calc _ ≤ _ := h0
    _ ≤ (1 + 1 / 1000) * ((1 + 1 / 1000) * (|y| + x * A)) :=
        mul_le_mul s1 s2 (by positivity) (by norm_num)
    _ ≤ _ := by nlinarith

end generic

/-! ## B. the counting semantics on the generated code -/

/-- `x̂ = rnd (ln v)` as a number of the counting semantics: exact value `ln v`, magnitude `|ln v|`, depth 1 -/
noncomputable def xCt (v : ℝ) : Ct M :=
  ⟨Real.log v, M.rnd (Real.log v), |Real.log v|, 1, true, fun _ => CtInv.lit M _⟩

/-- re-type the invariant of a number of `Ct M` -/
theorem ct_cast {c : Ct M} (hok : c.ok = true) {e a A : ℝ} {k : ℕ} (he : c.e = e) (ha : c.a = a) (hA : c.A = A)
    (hk : c.k ≤ k) : CtInv M e a A k := by
  subst he ha hA
  exact (c.inv hok).mono hk

/-- read the closed-form bound off the invariant, for `u ≤ 2⁻⁵³`, with the constant as a numeral -/
theorem ct_numC {e a A C : ℝ} {k : ℕ} (h : CtInv M e a A k) (hu : M.u ≤ (2 : ℝ) ^ (-53 : ℤ)) (hk : k ≤ 1000)
    (hC : (k : ℝ) + 1 / 1000 = C) : |a - e| ≤ C * M.u * A := by
  rw [← hC]
  exact h.2.trans (mul_le_mul_of_nonneg_right (growth_num M.hu hu k hk) h.A_nonneg)

/-- read the closed-form bound off the invariant, for `u ≤ 2⁻⁵³` -/
theorem ct_num {e a A : ℝ} {k : ℕ} (h : CtInv M e a A k) (hu : M.u ≤ (2 : ℝ) ^ (-53 : ℤ)) (hk : k ≤ 1000) :
    |a - e| ≤ ((k : ℝ) + 1 / 1000) * M.u * A :=
  h.2.trans (mul_le_mul_of_nonneg_right (growth_num M.hu hu k hk) h.A_nonneg)

/-! ### degree 0 -/

/-- the generated `indefinite` of `Log<Poly0>` run at `Ct M` on the injected coefficients -/
@[reducible] noncomputable def indefCt0 (p : Poly0 ℝ) : IntOfLog (Ct M) (Poly0 (Ct M)) :=
  HasIntegral.indefinite (⟨p.mapF (Ct.inp M)⟩ : Log (Poly0 (Ct M)))
/-- the generated `indefinite` of `Log<Poly0>` run in rounded arithmetic on the exact coefficients -/
@[reducible] noncomputable def indefR0 (p : Poly0 ℝ) : IntOfLog (Rounded M) (Poly0 (Rounded M)) :=
  HasIntegral.indefinite (⟨p.mapF Rounded.mk⟩ : Log (Poly0 (Rounded M)))
/-- the magnitudes `S_j = Σ_(i≥j) (i!/j!)·|c_i|` of the antiderivative coefficients, degree 0 -/
def Smag0 (p : Poly0 ℝ) : Poly0 ℝ :=
  ⟨|p._0|⟩
/-- `Σ_j S_j·|ln v|^j`, degree 0 -/
noncomputable def MagS0 (p : Poly0 ℝ) (v : ℝ) : ℝ :=
  ((Smag0 p)._0)
/-- `Σ_j |q_j|·|ln v|^j` with `q_j` the exact antiderivative coefficients, degree 0 -/
noncomputable def MagQ0 (p : Poly0 ℝ) (v : ℝ) : ℝ :=
  |(HasIntegral.indefinite (⟨p⟩ : Log (Poly0 ℝ))).poly._0|
theorem indefR0_k (p : Poly0 ℝ) : (indefR0 M p).k.val = 0 := PP.Lemmas.LinearFP.lit0 M
theorem indefCt0_A0 (p : Poly0 ℝ) : ((indefCt0 M p).poly._0).A = (Smag0 p)._0 := by
  show |p._0| = _
  simp only [Smag0]
/-- the invariant of every antiderivative coefficient (exact run, rounded run, magnitude `S_j`, depth), degree 0 -/
theorem coeff0_ct (p : Poly0 ℝ) :
    CtInv M ((HasIntegral.indefinite (⟨p⟩ : Log (Poly0 ℝ))).poly._0) ((indefR0 M p).poly._0).val ((Smag0 p)._0) 0 :=
  ct_cast M (c := (indefCt0 M p).poly._0) rfl rfl rfl (indefCt0_A0 M p) (Nat.le_of_ble_eq_true rfl)
/-- the generated `Evaluate (Poly0 F)` run at `Ct M` on the lanes of `indefCt0` at `x̂ = rnd (ln v)` -/
@[reducible] noncomputable def polyCt0 (p : Poly0 ℝ) (v : ℝ) : Ct M :=
  Evaluate.evaluate (indefCt0 M p).poly (xCt M v)
/-- **the computed polynomial part against `Q(ln v)`**: magnitude `Σ_j S_j|ln v|^j`, depth 0 -/
theorem poly0_ct (p : Poly0 ℝ) (v : ℝ) :
    CtInv M (Evaluate.evaluate (HasIntegral.indefinite (⟨p⟩ : Log (Poly0 ℝ))).poly (Real.log v)) (polyVal M (indefR0 M p) v) (MagS0 p v) 0 := by
  refine ct_cast M (c := polyCt0 M p v) rfl rfl rfl ?_ (Nat.le_of_ble_eq_true rfl)
  show Evaluate.evaluate (⟨((indefCt0 M p).poly._0).A⟩ : Poly0 ℝ) |Real.log v| = _
  rw [PP.Props.C01.poly0_eval, MagS0]
  simp only [indefCt0_A0]
/-- `|Q(ln v)| ≤ Σ_j |q_j||ln v|^j`, degree 0 -/
theorem poly0_abs_le (p : Poly0 ℝ) (v : ℝ) :
    |Evaluate.evaluate (HasIntegral.indefinite (⟨p⟩ : Log (Poly0 ℝ))).poly (Real.log v)| ≤ MagQ0 p v := by
  have h := ((HasIntegral.indefinite (⟨p⟩ : Log (Poly0 ℝ))).poly.ctRun (RModel.exact ℝ) (Real.log v)).abs_e_le rfl
  rw [poly0_ct_e, poly0_ct_A_sum] at h
  exact h

/-! ### degree 1 -/

/-- the generated `indefinite` of `Log<Poly1>` run at `Ct M` on the injected coefficients -/
@[reducible] noncomputable def indefCt1 (p : Poly1 ℝ) : IntOfLog (Ct M) (Poly1 (Ct M)) :=
  HasIntegral.indefinite (⟨p.mapF (Ct.inp M)⟩ : Log (Poly1 (Ct M)))
/-- the generated `indefinite` of `Log<Poly1>` run in rounded arithmetic on the exact coefficients -/
@[reducible] noncomputable def indefR1 (p : Poly1 ℝ) : IntOfLog (Rounded M) (Poly1 (Rounded M)) :=
  HasIntegral.indefinite (⟨p.mapF Rounded.mk⟩ : Log (Poly1 (Rounded M)))
/-- the magnitudes `S_j = Σ_(i≥j) (i!/j!)·|c_i|` of the antiderivative coefficients, degree 1 -/
def Smag1 (p : Poly1 ℝ) : Poly1 ℝ :=
  ⟨⟨|p._0.a0| + |p._0.a1|, |p._0.a1|⟩⟩
/-- `Σ_j S_j·|ln v|^j`, degree 1 -/
noncomputable def MagS1 (p : Poly1 ℝ) (v : ℝ) : ℝ :=
  ((Smag1 p)._0.a0) + ((Smag1 p)._0.a1) * |Real.log v|
/-- `Σ_j |q_j|·|ln v|^j` with `q_j` the exact antiderivative coefficients, degree 1 -/
noncomputable def MagQ1 (p : Poly1 ℝ) (v : ℝ) : ℝ :=
  |(HasIntegral.indefinite (⟨p⟩ : Log (Poly1 ℝ))).poly._0.a0| + |(HasIntegral.indefinite (⟨p⟩ : Log (Poly1 ℝ))).poly._0.a1| * |Real.log v|
theorem indefR1_k (p : Poly1 ℝ) : (indefR1 M p).k.val = 0 := PP.Lemmas.LinearFP.lit0 M
theorem indefCt1_A0 (p : Poly1 ℝ) : ((indefCt1 M p).poly._0.a0).A = (Smag1 p)._0.a0 := by
  show |p._0.a0| + (|p._0.a1|) = _
  simp only [Smag1]
theorem indefCt1_A1 (p : Poly1 ℝ) : ((indefCt1 M p).poly._0.a1).A = (Smag1 p)._0.a1 := by
  show |p._0.a1| = _
  simp only [Smag1]
/-- the invariant of every antiderivative coefficient (exact run, rounded run, magnitude `S_j`, depth), degree 1 -/
theorem coeff1_ct (p : Poly1 ℝ) :
    CtInv M ((HasIntegral.indefinite (⟨p⟩ : Log (Poly1 ℝ))).poly._0.a0) ((indefR1 M p).poly._0.a0).val ((Smag1 p)._0.a0) 1 ∧
    CtInv M ((HasIntegral.indefinite (⟨p⟩ : Log (Poly1 ℝ))).poly._0.a1) ((indefR1 M p).poly._0.a1).val ((Smag1 p)._0.a1) 0 :=
  ⟨ct_cast M (c := (indefCt1 M p).poly._0.a0) rfl rfl rfl (indefCt1_A0 M p) (Nat.le_of_ble_eq_true rfl),
    ct_cast M (c := (indefCt1 M p).poly._0.a1) rfl rfl rfl (indefCt1_A1 M p) (Nat.le_of_ble_eq_true rfl)⟩
/-- the generated `Evaluate (Poly1 F)` run at `Ct M` on the lanes of `indefCt1` at `x̂ = rnd (ln v)` -/
@[reducible] noncomputable def polyCt1 (p : Poly1 ℝ) (v : ℝ) : Ct M :=
  Evaluate.evaluate (indefCt1 M p).poly (xCt M v)
/-- **the computed polynomial part against `Q(ln v)`**: magnitude `Σ_j S_j|ln v|^j`, depth 2 -/
theorem poly1_ct (p : Poly1 ℝ) (v : ℝ) :
    CtInv M (Evaluate.evaluate (HasIntegral.indefinite (⟨p⟩ : Log (Poly1 ℝ))).poly (Real.log v)) (polyVal M (indefR1 M p) v) (MagS1 p v) 2 := by
  refine ct_cast M (c := polyCt1 M p v) rfl rfl rfl ?_ (Nat.le_of_ble_eq_true rfl)
  show Evaluate.evaluate (⟨⟨((indefCt1 M p).poly._0.a0).A, ((indefCt1 M p).poly._0.a1).A⟩⟩ : Poly1 ℝ) |Real.log v| = _
  rw [PP.Props.C01.poly1_eval, MagS1]
  simp only [indefCt1_A0, indefCt1_A1]
/-- `|Q(ln v)| ≤ Σ_j |q_j||ln v|^j`, degree 1 -/
theorem poly1_abs_le (p : Poly1 ℝ) (v : ℝ) :
    |Evaluate.evaluate (HasIntegral.indefinite (⟨p⟩ : Log (Poly1 ℝ))).poly (Real.log v)| ≤ MagQ1 p v := by
  have h := ((HasIntegral.indefinite (⟨p⟩ : Log (Poly1 ℝ))).poly.ctRun (RModel.exact ℝ) (Real.log v)).abs_e_le rfl
  rw [poly1_ct_e, poly1_ct_A_sum] at h
  exact h

/-! ### degree 2 -/

/-- the generated `indefinite` of `Log<Poly2>` run at `Ct M` on the injected coefficients -/
@[reducible] noncomputable def indefCt2 (p : Poly2 ℝ) : IntOfLog (Ct M) (Poly2 (Ct M)) :=
  HasIntegral.indefinite (⟨p.mapF (Ct.inp M)⟩ : Log (Poly2 (Ct M)))
/-- the generated `indefinite` of `Log<Poly2>` run in rounded arithmetic on the exact coefficients -/
@[reducible] noncomputable def indefR2 (p : Poly2 ℝ) : IntOfLog (Rounded M) (Poly2 (Rounded M)) :=
  HasIntegral.indefinite (⟨p.mapF Rounded.mk⟩ : Log (Poly2 (Rounded M)))
/-- the magnitudes `S_j = Σ_(i≥j) (i!/j!)·|c_i|` of the antiderivative coefficients, degree 2 -/
def Smag2 (p : Poly2 ℝ) : Poly2 ℝ :=
  ⟨⟨|p._0.a0| + |p._0.a1| + 2 * |p._0.a2|, |p._0.a1| + 2 * |p._0.a2|, |p._0.a2|⟩⟩
/-- `Σ_j S_j·|ln v|^j`, degree 2 -/
noncomputable def MagS2 (p : Poly2 ℝ) (v : ℝ) : ℝ :=
  ((Smag2 p)._0.a0) + ((Smag2 p)._0.a1) * |Real.log v| + ((Smag2 p)._0.a2) * |Real.log v| ^ 2
/-- `Σ_j |q_j|·|ln v|^j` with `q_j` the exact antiderivative coefficients, degree 2 -/
noncomputable def MagQ2 (p : Poly2 ℝ) (v : ℝ) : ℝ :=
  |(HasIntegral.indefinite (⟨p⟩ : Log (Poly2 ℝ))).poly._0.a0| + |(HasIntegral.indefinite (⟨p⟩ : Log (Poly2 ℝ))).poly._0.a1| * |Real.log v| + |(HasIntegral.indefinite (⟨p⟩ : Log (Poly2 ℝ))).poly._0.a2| * |Real.log v| ^ 2
theorem indefR2_k (p : Poly2 ℝ) : (indefR2 M p).k.val = 0 := PP.Lemmas.LinearFP.lit0 M
theorem indefCt2_A0 (p : Poly2 ℝ) : ((indefCt2 M p).poly._0.a0).A = (Smag2 p)._0.a0 := by
  show |p._0.a0| + (|p._0.a1| + |((2 : ℤ) : ℝ) * (10 : ℝ) ^ (0 : ℤ)| * (|p._0.a2|)) = _
  simp only [Smag2]
  norm_num
  try ring
theorem indefCt2_A1 (p : Poly2 ℝ) : ((indefCt2 M p).poly._0.a1).A = (Smag2 p)._0.a1 := by
  show |p._0.a1| + |((2 : ℤ) : ℝ) * (10 : ℝ) ^ (0 : ℤ)| * (|p._0.a2|) = _
  simp only [Smag2]
  norm_num
  try ring
theorem indefCt2_A2 (p : Poly2 ℝ) : ((indefCt2 M p).poly._0.a2).A = (Smag2 p)._0.a2 := by
  show |p._0.a2| = _
  simp only [Smag2]
/-- the invariant of every antiderivative coefficient (exact run, rounded run, magnitude `S_j`, depth), degree 2 -/
theorem coeff2_ct (p : Poly2 ℝ) :
    CtInv M ((HasIntegral.indefinite (⟨p⟩ : Log (Poly2 ℝ))).poly._0.a0) ((indefR2 M p).poly._0.a0).val ((Smag2 p)._0.a0) 4 ∧
    CtInv M ((HasIntegral.indefinite (⟨p⟩ : Log (Poly2 ℝ))).poly._0.a1) ((indefR2 M p).poly._0.a1).val ((Smag2 p)._0.a1) 3 ∧
    CtInv M ((HasIntegral.indefinite (⟨p⟩ : Log (Poly2 ℝ))).poly._0.a2) ((indefR2 M p).poly._0.a2).val ((Smag2 p)._0.a2) 0 :=
  ⟨ct_cast M (c := (indefCt2 M p).poly._0.a0) rfl rfl rfl (indefCt2_A0 M p) (Nat.le_of_ble_eq_true rfl),
    ct_cast M (c := (indefCt2 M p).poly._0.a1) rfl rfl rfl (indefCt2_A1 M p) (Nat.le_of_ble_eq_true rfl),
    ct_cast M (c := (indefCt2 M p).poly._0.a2) rfl rfl rfl (indefCt2_A2 M p) (Nat.le_of_ble_eq_true rfl)⟩
/-- the generated `Evaluate (Poly2 F)` run at `Ct M` on the lanes of `indefCt2` at `x̂ = rnd (ln v)` -/
@[reducible] noncomputable def polyCt2 (p : Poly2 ℝ) (v : ℝ) : Ct M :=
  Evaluate.evaluate (indefCt2 M p).poly (xCt M v)
/-- **the computed polynomial part against `Q(ln v)`**: magnitude `Σ_j S_j|ln v|^j`, depth 6 -/
theorem poly2_ct (p : Poly2 ℝ) (v : ℝ) :
    CtInv M (Evaluate.evaluate (HasIntegral.indefinite (⟨p⟩ : Log (Poly2 ℝ))).poly (Real.log v)) (polyVal M (indefR2 M p) v) (MagS2 p v) 6 := by
  refine ct_cast M (c := polyCt2 M p v) rfl rfl rfl ?_ (Nat.le_of_ble_eq_true rfl)
  show Evaluate.evaluate (⟨⟨((indefCt2 M p).poly._0.a0).A, ((indefCt2 M p).poly._0.a1).A, ((indefCt2 M p).poly._0.a2).A⟩⟩ : Poly2 ℝ) |Real.log v| = _
  rw [PP.Props.C01.poly2_eval, MagS2]
  simp only [indefCt2_A0, indefCt2_A1, indefCt2_A2]
/-- `|Q(ln v)| ≤ Σ_j |q_j||ln v|^j`, degree 2 -/
theorem poly2_abs_le (p : Poly2 ℝ) (v : ℝ) :
    |Evaluate.evaluate (HasIntegral.indefinite (⟨p⟩ : Log (Poly2 ℝ))).poly (Real.log v)| ≤ MagQ2 p v := by
  have h := ((HasIntegral.indefinite (⟨p⟩ : Log (Poly2 ℝ))).poly.ctRun (RModel.exact ℝ) (Real.log v)).abs_e_le rfl
  rw [poly2_ct_e, poly2_ct_A_sum] at h
  exact h

/-! ### degree 3 -/

/-- the generated `indefinite` of `Log<Poly3>` run at `Ct M` on the injected coefficients -/
@[reducible] noncomputable def indefCt3 (p : Poly3 ℝ) : IntOfLog (Ct M) (Poly3 (Ct M)) :=
  HasIntegral.indefinite (⟨p.mapF (Ct.inp M)⟩ : Log (Poly3 (Ct M)))
/-- the generated `indefinite` of `Log<Poly3>` run in rounded arithmetic on the exact coefficients -/
@[reducible] noncomputable def indefR3 (p : Poly3 ℝ) : IntOfLog (Rounded M) (Poly3 (Rounded M)) :=
  HasIntegral.indefinite (⟨p.mapF Rounded.mk⟩ : Log (Poly3 (Rounded M)))
/-- the magnitudes `S_j = Σ_(i≥j) (i!/j!)·|c_i|` of the antiderivative coefficients, degree 3 -/
def Smag3 (p : Poly3 ℝ) : Poly3 ℝ :=
  ⟨⟨|p._0.a0| + |p._0.a1| + 2 * |p._0.a2| + 6 * |p._0.a3|, |p._0.a1| + 2 * |p._0.a2| + 6 * |p._0.a3|, |p._0.a2| + 3 * |p._0.a3|, |p._0.a3|⟩⟩
/-- `Σ_j S_j·|ln v|^j`, degree 3 -/
noncomputable def MagS3 (p : Poly3 ℝ) (v : ℝ) : ℝ :=
  ((Smag3 p)._0.a0) + ((Smag3 p)._0.a1) * |Real.log v| + ((Smag3 p)._0.a2) * |Real.log v| ^ 2 + ((Smag3 p)._0.a3) * |Real.log v| ^ 3
/-- `Σ_j |q_j|·|ln v|^j` with `q_j` the exact antiderivative coefficients, degree 3 -/
noncomputable def MagQ3 (p : Poly3 ℝ) (v : ℝ) : ℝ :=
  |(HasIntegral.indefinite (⟨p⟩ : Log (Poly3 ℝ))).poly._0.a0| + |(HasIntegral.indefinite (⟨p⟩ : Log (Poly3 ℝ))).poly._0.a1| * |Real.log v| + |(HasIntegral.indefinite (⟨p⟩ : Log (Poly3 ℝ))).poly._0.a2| * |Real.log v| ^ 2 + |(HasIntegral.indefinite (⟨p⟩ : Log (Poly3 ℝ))).poly._0.a3| * |Real.log v| ^ 3
theorem indefR3_k (p : Poly3 ℝ) : (indefR3 M p).k.val = 0 := PP.Lemmas.LinearFP.lit0 M
theorem indefCt3_A0 (p : Poly3 ℝ) : ((indefCt3 M p).poly._0.a0).A = (Smag3 p)._0.a0 := by
  show |p._0.a0| + (|p._0.a1| + |((2 : ℤ) : ℝ) * (10 : ℝ) ^ (0 : ℤ)| * (|p._0.a2| + |((3 : ℤ) : ℝ) * (10 : ℝ) ^ (0 : ℤ)| * (|p._0.a3|))) = _
  simp only [Smag3]
  norm_num
  try ring
theorem indefCt3_A1 (p : Poly3 ℝ) : ((indefCt3 M p).poly._0.a1).A = (Smag3 p)._0.a1 := by
  show |p._0.a1| + |((2 : ℤ) : ℝ) * (10 : ℝ) ^ (0 : ℤ)| * (|p._0.a2| + |((3 : ℤ) : ℝ) * (10 : ℝ) ^ (0 : ℤ)| * (|p._0.a3|)) = _
  simp only [Smag3]
  norm_num
  try ring
theorem indefCt3_A2 (p : Poly3 ℝ) : ((indefCt3 M p).poly._0.a2).A = (Smag3 p)._0.a2 := by
  show |p._0.a2| + |((3 : ℤ) : ℝ) * (10 : ℝ) ^ (0 : ℤ)| * (|p._0.a3|) = _
  simp only [Smag3]
  norm_num
  try ring
theorem indefCt3_A3 (p : Poly3 ℝ) : ((indefCt3 M p).poly._0.a3).A = (Smag3 p)._0.a3 := by
  show |p._0.a3| = _
  simp only [Smag3]
/-- the invariant of every antiderivative coefficient (exact run, rounded run, magnitude `S_j`, depth), degree 3 -/
theorem coeff3_ct (p : Poly3 ℝ) :
    CtInv M ((HasIntegral.indefinite (⟨p⟩ : Log (Poly3 ℝ))).poly._0.a0) ((indefR3 M p).poly._0.a0).val ((Smag3 p)._0.a0) 7 ∧
    CtInv M ((HasIntegral.indefinite (⟨p⟩ : Log (Poly3 ℝ))).poly._0.a1) ((indefR3 M p).poly._0.a1).val ((Smag3 p)._0.a1) 6 ∧
    CtInv M ((HasIntegral.indefinite (⟨p⟩ : Log (Poly3 ℝ))).poly._0.a2) ((indefR3 M p).poly._0.a2).val ((Smag3 p)._0.a2) 3 ∧
    CtInv M ((HasIntegral.indefinite (⟨p⟩ : Log (Poly3 ℝ))).poly._0.a3) ((indefR3 M p).poly._0.a3).val ((Smag3 p)._0.a3) 0 :=
  ⟨ct_cast M (c := (indefCt3 M p).poly._0.a0) rfl rfl rfl (indefCt3_A0 M p) (Nat.le_of_ble_eq_true rfl),
    ct_cast M (c := (indefCt3 M p).poly._0.a1) rfl rfl rfl (indefCt3_A1 M p) (Nat.le_of_ble_eq_true rfl),
    ct_cast M (c := (indefCt3 M p).poly._0.a2) rfl rfl rfl (indefCt3_A2 M p) (Nat.le_of_ble_eq_true rfl),
    ct_cast M (c := (indefCt3 M p).poly._0.a3) rfl rfl rfl (indefCt3_A3 M p) (Nat.le_of_ble_eq_true rfl)⟩
/-- the generated `Evaluate (Poly3 F)` run at `Ct M` on the lanes of `indefCt3` at `x̂ = rnd (ln v)` -/
@[reducible] noncomputable def polyCt3 (p : Poly3 ℝ) (v : ℝ) : Ct M :=
  Evaluate.evaluate (indefCt3 M p).poly (xCt M v)
/-- **the computed polynomial part against `Q(ln v)`**: magnitude `Σ_j S_j|ln v|^j`, depth 9 -/
theorem poly3_ct (p : Poly3 ℝ) (v : ℝ) :
    CtInv M (Evaluate.evaluate (HasIntegral.indefinite (⟨p⟩ : Log (Poly3 ℝ))).poly (Real.log v)) (polyVal M (indefR3 M p) v) (MagS3 p v) 9 := by
  refine ct_cast M (c := polyCt3 M p v) rfl rfl rfl ?_ (Nat.le_of_ble_eq_true rfl)
  show Evaluate.evaluate (⟨⟨((indefCt3 M p).poly._0.a0).A, ((indefCt3 M p).poly._0.a1).A, ((indefCt3 M p).poly._0.a2).A, ((indefCt3 M p).poly._0.a3).A⟩⟩ : Poly3 ℝ) |Real.log v| = _
  rw [PP.Props.C01.poly3_eval, MagS3]
  simp only [indefCt3_A0, indefCt3_A1, indefCt3_A2, indefCt3_A3]
/-- `|Q(ln v)| ≤ Σ_j |q_j||ln v|^j`, degree 3 -/
theorem poly3_abs_le (p : Poly3 ℝ) (v : ℝ) :
    |Evaluate.evaluate (HasIntegral.indefinite (⟨p⟩ : Log (Poly3 ℝ))).poly (Real.log v)| ≤ MagQ3 p v := by
  have h := ((HasIntegral.indefinite (⟨p⟩ : Log (Poly3 ℝ))).poly.ctRun (RModel.exact ℝ) (Real.log v)).abs_e_le rfl
  rw [poly3_ct_e, poly3_ct_A_sum] at h
  exact h

/-! ### degree 5 -/

/-- the generated `indefinite` of `Log<Poly5>` run at `Ct M` on the injected coefficients -/
@[reducible] noncomputable def indefCt5 (p : Poly5 ℝ) : IntOfLog (Ct M) (Poly5 (Ct M)) :=
  HasIntegral.indefinite (⟨p.mapF (Ct.inp M)⟩ : Log (Poly5 (Ct M)))
/-- the generated `indefinite` of `Log<Poly5>` run in rounded arithmetic on the exact coefficients -/
@[reducible] noncomputable def indefR5 (p : Poly5 ℝ) : IntOfLog (Rounded M) (Poly5 (Rounded M)) :=
  HasIntegral.indefinite (⟨p.mapF Rounded.mk⟩ : Log (Poly5 (Rounded M)))
/-- the magnitudes `S_j = Σ_(i≥j) (i!/j!)·|c_i|` of the antiderivative coefficients, degree 5 -/
def Smag5 (p : Poly5 ℝ) : Poly5 ℝ :=
  ⟨⟨|p._0.a0| + |p._0.a1| + 2 * |p._0.a2| + 6 * |p._0.a3| + 24 * |p._0.a4| + 120 * |p._0.a5|, |p._0.a1| + 2 * |p._0.a2| + 6 * |p._0.a3| + 24 * |p._0.a4| + 120 * |p._0.a5|, |p._0.a2| + 3 * |p._0.a3| + 12 * |p._0.a4| + 60 * |p._0.a5|, |p._0.a3| + 4 * |p._0.a4| + 20 * |p._0.a5|, |p._0.a4| + 5 * |p._0.a5|, |p._0.a5|⟩⟩
/-- `Σ_j S_j·|ln v|^j`, degree 5 -/
noncomputable def MagS5 (p : Poly5 ℝ) (v : ℝ) : ℝ :=
  ((Smag5 p)._0.a0) + ((Smag5 p)._0.a1) * |Real.log v| + ((Smag5 p)._0.a2) * |Real.log v| ^ 2 + ((Smag5 p)._0.a3) * |Real.log v| ^ 3 + ((Smag5 p)._0.a4) * |Real.log v| ^ 4 + ((Smag5 p)._0.a5) * |Real.log v| ^ 5
/-- `Σ_j |q_j|·|ln v|^j` with `q_j` the exact antiderivative coefficients, degree 5 -/
noncomputable def MagQ5 (p : Poly5 ℝ) (v : ℝ) : ℝ :=
  |(HasIntegral.indefinite (⟨p⟩ : Log (Poly5 ℝ))).poly._0.a0| + |(HasIntegral.indefinite (⟨p⟩ : Log (Poly5 ℝ))).poly._0.a1| * |Real.log v| + |(HasIntegral.indefinite (⟨p⟩ : Log (Poly5 ℝ))).poly._0.a2| * |Real.log v| ^ 2 + |(HasIntegral.indefinite (⟨p⟩ : Log (Poly5 ℝ))).poly._0.a3| * |Real.log v| ^ 3 + |(HasIntegral.indefinite (⟨p⟩ : Log (Poly5 ℝ))).poly._0.a4| * |Real.log v| ^ 4 + |(HasIntegral.indefinite (⟨p⟩ : Log (Poly5 ℝ))).poly._0.a5| * |Real.log v| ^ 5
theorem indefR5_k (p : Poly5 ℝ) : (indefR5 M p).k.val = 0 := PP.Lemmas.LinearFP.lit0 M
theorem indefCt5_A0 (p : Poly5 ℝ) : ((indefCt5 M p).poly._0.a0).A = (Smag5 p)._0.a0 := by
  show |p._0.a0| + (|p._0.a1| + |((2 : ℤ) : ℝ) * (10 : ℝ) ^ (0 : ℤ)| * (|p._0.a2| + |((3 : ℤ) : ℝ) * (10 : ℝ) ^ (0 : ℤ)| * (|p._0.a3| + |((4 : ℤ) : ℝ) * (10 : ℝ) ^ (0 : ℤ)| * (|p._0.a4| + |((5 : ℤ) : ℝ) * (10 : ℝ) ^ (0 : ℤ)| * (|p._0.a5|))))) = _
  simp only [Smag5]
  norm_num
  try ring
theorem indefCt5_A1 (p : Poly5 ℝ) : ((indefCt5 M p).poly._0.a1).A = (Smag5 p)._0.a1 := by
  show |p._0.a1| + |((2 : ℤ) : ℝ) * (10 : ℝ) ^ (0 : ℤ)| * (|p._0.a2| + |((3 : ℤ) : ℝ) * (10 : ℝ) ^ (0 : ℤ)| * (|p._0.a3| + |((4 : ℤ) : ℝ) * (10 : ℝ) ^ (0 : ℤ)| * (|p._0.a4| + |((5 : ℤ) : ℝ) * (10 : ℝ) ^ (0 : ℤ)| * (|p._0.a5|)))) = _
  simp only [Smag5]
  norm_num
  try ring
theorem indefCt5_A2 (p : Poly5 ℝ) : ((indefCt5 M p).poly._0.a2).A = (Smag5 p)._0.a2 := by
  show |p._0.a2| + |((3 : ℤ) : ℝ) * (10 : ℝ) ^ (0 : ℤ)| * (|p._0.a3| + |((4 : ℤ) : ℝ) * (10 : ℝ) ^ (0 : ℤ)| * (|p._0.a4| + |((5 : ℤ) : ℝ) * (10 : ℝ) ^ (0 : ℤ)| * (|p._0.a5|))) = _
  simp only [Smag5]
  norm_num
  try ring
theorem indefCt5_A3 (p : Poly5 ℝ) : ((indefCt5 M p).poly._0.a3).A = (Smag5 p)._0.a3 := by
  show |p._0.a3| + |((4 : ℤ) : ℝ) * (10 : ℝ) ^ (0 : ℤ)| * (|p._0.a4| + |((5 : ℤ) : ℝ) * (10 : ℝ) ^ (0 : ℤ)| * (|p._0.a5|)) = _
  simp only [Smag5]
  norm_num
  try ring
theorem indefCt5_A4 (p : Poly5 ℝ) : ((indefCt5 M p).poly._0.a4).A = (Smag5 p)._0.a4 := by
  show |p._0.a4| + |((5 : ℤ) : ℝ) * (10 : ℝ) ^ (0 : ℤ)| * (|p._0.a5|) = _
  simp only [Smag5]
  norm_num
  try ring
theorem indefCt5_A5 (p : Poly5 ℝ) : ((indefCt5 M p).poly._0.a5).A = (Smag5 p)._0.a5 := by
  show |p._0.a5| = _
  simp only [Smag5]
/-- the invariant of every antiderivative coefficient (exact run, rounded run, magnitude `S_j`, depth), degree 5 -/
theorem coeff5_ct (p : Poly5 ℝ) :
    CtInv M ((HasIntegral.indefinite (⟨p⟩ : Log (Poly5 ℝ))).poly._0.a0) ((indefR5 M p).poly._0.a0).val ((Smag5 p)._0.a0) 13 ∧
    CtInv M ((HasIntegral.indefinite (⟨p⟩ : Log (Poly5 ℝ))).poly._0.a1) ((indefR5 M p).poly._0.a1).val ((Smag5 p)._0.a1) 12 ∧
    CtInv M ((HasIntegral.indefinite (⟨p⟩ : Log (Poly5 ℝ))).poly._0.a2) ((indefR5 M p).poly._0.a2).val ((Smag5 p)._0.a2) 9 ∧
    CtInv M ((HasIntegral.indefinite (⟨p⟩ : Log (Poly5 ℝ))).poly._0.a3) ((indefR5 M p).poly._0.a3).val ((Smag5 p)._0.a3) 6 ∧
    CtInv M ((HasIntegral.indefinite (⟨p⟩ : Log (Poly5 ℝ))).poly._0.a4) ((indefR5 M p).poly._0.a4).val ((Smag5 p)._0.a4) 3 ∧
    CtInv M ((HasIntegral.indefinite (⟨p⟩ : Log (Poly5 ℝ))).poly._0.a5) ((indefR5 M p).poly._0.a5).val ((Smag5 p)._0.a5) 0 :=
  ⟨ct_cast M (c := (indefCt5 M p).poly._0.a0) rfl rfl rfl (indefCt5_A0 M p) (Nat.le_of_ble_eq_true rfl),
    ct_cast M (c := (indefCt5 M p).poly._0.a1) rfl rfl rfl (indefCt5_A1 M p) (Nat.le_of_ble_eq_true rfl),
    ct_cast M (c := (indefCt5 M p).poly._0.a2) rfl rfl rfl (indefCt5_A2 M p) (Nat.le_of_ble_eq_true rfl),
    ct_cast M (c := (indefCt5 M p).poly._0.a3) rfl rfl rfl (indefCt5_A3 M p) (Nat.le_of_ble_eq_true rfl),
    ct_cast M (c := (indefCt5 M p).poly._0.a4) rfl rfl rfl (indefCt5_A4 M p) (Nat.le_of_ble_eq_true rfl),
    ct_cast M (c := (indefCt5 M p).poly._0.a5) rfl rfl rfl (indefCt5_A5 M p) (Nat.le_of_ble_eq_true rfl)⟩
/-- the generated `Evaluate (Poly5 F)` run at `Ct M` on the lanes of `indefCt5` at `x̂ = rnd (ln v)` -/
@[reducible] noncomputable def polyCt5 (p : Poly5 ℝ) (v : ℝ) : Ct M :=
  Evaluate.evaluate (indefCt5 M p).poly (xCt M v)
/-- **the computed polynomial part against `Q(ln v)`**: magnitude `Σ_j S_j|ln v|^j`, depth 16 -/
theorem poly5_ct (p : Poly5 ℝ) (v : ℝ) :
    CtInv M (Evaluate.evaluate (HasIntegral.indefinite (⟨p⟩ : Log (Poly5 ℝ))).poly (Real.log v)) (polyVal M (indefR5 M p) v) (MagS5 p v) 16 := by
  refine ct_cast M (c := polyCt5 M p v) rfl rfl rfl ?_ (Nat.le_of_ble_eq_true rfl)
  show Evaluate.evaluate (⟨⟨((indefCt5 M p).poly._0.a0).A, ((indefCt5 M p).poly._0.a1).A, ((indefCt5 M p).poly._0.a2).A, ((indefCt5 M p).poly._0.a3).A, ((indefCt5 M p).poly._0.a4).A, ((indefCt5 M p).poly._0.a5).A⟩⟩ : Poly5 ℝ) |Real.log v| = _
  rw [PP.Props.C01.poly5_eval, MagS5]
  simp only [indefCt5_A0, indefCt5_A1, indefCt5_A2, indefCt5_A3, indefCt5_A4, indefCt5_A5]
/-- `|Q(ln v)| ≤ Σ_j |q_j||ln v|^j`, degree 5 -/
theorem poly5_abs_le (p : Poly5 ℝ) (v : ℝ) :
    |Evaluate.evaluate (HasIntegral.indefinite (⟨p⟩ : Log (Poly5 ℝ))).poly (Real.log v)| ≤ MagQ5 p v := by
  have h := ((HasIntegral.indefinite (⟨p⟩ : Log (Poly5 ℝ))).poly.ctRun (RModel.exact ℝ) (Real.log v)).abs_e_le rfl
  rw [poly5_ct_e, poly5_ct_A_sum] at h
  exact h

/-! ### degree 6 -/

/-- the generated `indefinite` of `Log<Poly6>` run at `Ct M` on the injected coefficients -/
@[reducible] noncomputable def indefCt6 (p : Poly6 ℝ) : IntOfLog (Ct M) (Poly6 (Ct M)) :=
  HasIntegral.indefinite (⟨p.mapF (Ct.inp M)⟩ : Log (Poly6 (Ct M)))
/-- the generated `indefinite` of `Log<Poly6>` run in rounded arithmetic on the exact coefficients -/
@[reducible] noncomputable def indefR6 (p : Poly6 ℝ) : IntOfLog (Rounded M) (Poly6 (Rounded M)) :=
  HasIntegral.indefinite (⟨p.mapF Rounded.mk⟩ : Log (Poly6 (Rounded M)))
/-- the magnitudes `S_j = Σ_(i≥j) (i!/j!)·|c_i|` of the antiderivative coefficients, degree 6 -/
def Smag6 (p : Poly6 ℝ) : Poly6 ℝ :=
  ⟨⟨|p._0.a0| + |p._0.a1| + 2 * |p._0.a2| + 6 * |p._0.a3| + 24 * |p._0.a4| + 120 * |p._0.a5| + 720 * |p._0.a6|, |p._0.a1| + 2 * |p._0.a2| + 6 * |p._0.a3| + 24 * |p._0.a4| + 120 * |p._0.a5| + 720 * |p._0.a6|, |p._0.a2| + 3 * |p._0.a3| + 12 * |p._0.a4| + 60 * |p._0.a5| + 360 * |p._0.a6|, |p._0.a3| + 4 * |p._0.a4| + 20 * |p._0.a5| + 120 * |p._0.a6|, |p._0.a4| + 5 * |p._0.a5| + 30 * |p._0.a6|, |p._0.a5| + 6 * |p._0.a6|, |p._0.a6|⟩⟩
/-- `Σ_j S_j·|ln v|^j`, degree 6 -/
noncomputable def MagS6 (p : Poly6 ℝ) (v : ℝ) : ℝ :=
  ((Smag6 p)._0.a0) + ((Smag6 p)._0.a1) * |Real.log v| + ((Smag6 p)._0.a2) * |Real.log v| ^ 2 + ((Smag6 p)._0.a3) * |Real.log v| ^ 3 + ((Smag6 p)._0.a4) * |Real.log v| ^ 4 + ((Smag6 p)._0.a5) * |Real.log v| ^ 5 + ((Smag6 p)._0.a6) * |Real.log v| ^ 6
/-- `Σ_j |q_j|·|ln v|^j` with `q_j` the exact antiderivative coefficients, degree 6 -/
noncomputable def MagQ6 (p : Poly6 ℝ) (v : ℝ) : ℝ :=
  |(HasIntegral.indefinite (⟨p⟩ : Log (Poly6 ℝ))).poly._0.a0| + |(HasIntegral.indefinite (⟨p⟩ : Log (Poly6 ℝ))).poly._0.a1| * |Real.log v| + |(HasIntegral.indefinite (⟨p⟩ : Log (Poly6 ℝ))).poly._0.a2| * |Real.log v| ^ 2 + |(HasIntegral.indefinite (⟨p⟩ : Log (Poly6 ℝ))).poly._0.a3| * |Real.log v| ^ 3 + |(HasIntegral.indefinite (⟨p⟩ : Log (Poly6 ℝ))).poly._0.a4| * |Real.log v| ^ 4 + |(HasIntegral.indefinite (⟨p⟩ : Log (Poly6 ℝ))).poly._0.a5| * |Real.log v| ^ 5 + |(HasIntegral.indefinite (⟨p⟩ : Log (Poly6 ℝ))).poly._0.a6| * |Real.log v| ^ 6
theorem indefR6_k (p : Poly6 ℝ) : (indefR6 M p).k.val = 0 := PP.Lemmas.LinearFP.lit0 M
theorem indefCt6_A0 (p : Poly6 ℝ) : ((indefCt6 M p).poly._0.a0).A = (Smag6 p)._0.a0 := by
  show |p._0.a0| + (|p._0.a1| + |((2 : ℤ) : ℝ) * (10 : ℝ) ^ (0 : ℤ)| * (|p._0.a2| + |((3 : ℤ) : ℝ) * (10 : ℝ) ^ (0 : ℤ)| * (|p._0.a3| + |((4 : ℤ) : ℝ) * (10 : ℝ) ^ (0 : ℤ)| * (|p._0.a4| + |((5 : ℤ) : ℝ) * (10 : ℝ) ^ (0 : ℤ)| * (|p._0.a5| + |((6 : ℤ) : ℝ) * (10 : ℝ) ^ (0 : ℤ)| * (|p._0.a6|)))))) = _
  simp only [Smag6]
  norm_num
  try ring
theorem indefCt6_A1 (p : Poly6 ℝ) : ((indefCt6 M p).poly._0.a1).A = (Smag6 p)._0.a1 := by
  show |p._0.a1| + |((2 : ℤ) : ℝ) * (10 : ℝ) ^ (0 : ℤ)| * (|p._0.a2| + |((3 : ℤ) : ℝ) * (10 : ℝ) ^ (0 : ℤ)| * (|p._0.a3| + |((4 : ℤ) : ℝ) * (10 : ℝ) ^ (0 : ℤ)| * (|p._0.a4| + |((5 : ℤ) : ℝ) * (10 : ℝ) ^ (0 : ℤ)| * (|p._0.a5| + |((6 : ℤ) : ℝ) * (10 : ℝ) ^ (0 : ℤ)| * (|p._0.a6|))))) = _
  simp only [Smag6]
  norm_num
  try ring
theorem indefCt6_A2 (p : Poly6 ℝ) : ((indefCt6 M p).poly._0.a2).A = (Smag6 p)._0.a2 := by
  show |p._0.a2| + |((3 : ℤ) : ℝ) * (10 : ℝ) ^ (0 : ℤ)| * (|p._0.a3| + |((4 : ℤ) : ℝ) * (10 : ℝ) ^ (0 : ℤ)| * (|p._0.a4| + |((5 : ℤ) : ℝ) * (10 : ℝ) ^ (0 : ℤ)| * (|p._0.a5| + |((6 : ℤ) : ℝ) * (10 : ℝ) ^ (0 : ℤ)| * (|p._0.a6|)))) = _
  simp only [Smag6]
  norm_num
  try ring
theorem indefCt6_A3 (p : Poly6 ℝ) : ((indefCt6 M p).poly._0.a3).A = (Smag6 p)._0.a3 := by
  show |p._0.a3| + |((4 : ℤ) : ℝ) * (10 : ℝ) ^ (0 : ℤ)| * (|p._0.a4| + |((5 : ℤ) : ℝ) * (10 : ℝ) ^ (0 : ℤ)| * (|p._0.a5| + |((6 : ℤ) : ℝ) * (10 : ℝ) ^ (0 : ℤ)| * (|p._0.a6|))) = _
  simp only [Smag6]
  norm_num
  try ring
theorem indefCt6_A4 (p : Poly6 ℝ) : ((indefCt6 M p).poly._0.a4).A = (Smag6 p)._0.a4 := by
  show |p._0.a4| + |((5 : ℤ) : ℝ) * (10 : ℝ) ^ (0 : ℤ)| * (|p._0.a5| + |((6 : ℤ) : ℝ) * (10 : ℝ) ^ (0 : ℤ)| * (|p._0.a6|)) = _
  simp only [Smag6]
  norm_num
  try ring
theorem indefCt6_A5 (p : Poly6 ℝ) : ((indefCt6 M p).poly._0.a5).A = (Smag6 p)._0.a5 := by
  show |p._0.a5| + |((6 : ℤ) : ℝ) * (10 : ℝ) ^ (0 : ℤ)| * (|p._0.a6|) = _
  simp only [Smag6]
  norm_num
  try ring
theorem indefCt6_A6 (p : Poly6 ℝ) : ((indefCt6 M p).poly._0.a6).A = (Smag6 p)._0.a6 := by
  show |p._0.a6| = _
  simp only [Smag6]
/-- the invariant of every antiderivative coefficient (exact run, rounded run, magnitude `S_j`, depth), degree 6 -/
theorem coeff6_ct (p : Poly6 ℝ) :
    CtInv M ((HasIntegral.indefinite (⟨p⟩ : Log (Poly6 ℝ))).poly._0.a0) ((indefR6 M p).poly._0.a0).val ((Smag6 p)._0.a0) 16 ∧
    CtInv M ((HasIntegral.indefinite (⟨p⟩ : Log (Poly6 ℝ))).poly._0.a1) ((indefR6 M p).poly._0.a1).val ((Smag6 p)._0.a1) 15 ∧
    CtInv M ((HasIntegral.indefinite (⟨p⟩ : Log (Poly6 ℝ))).poly._0.a2) ((indefR6 M p).poly._0.a2).val ((Smag6 p)._0.a2) 12 ∧
    CtInv M ((HasIntegral.indefinite (⟨p⟩ : Log (Poly6 ℝ))).poly._0.a3) ((indefR6 M p).poly._0.a3).val ((Smag6 p)._0.a3) 9 ∧
    CtInv M ((HasIntegral.indefinite (⟨p⟩ : Log (Poly6 ℝ))).poly._0.a4) ((indefR6 M p).poly._0.a4).val ((Smag6 p)._0.a4) 6 ∧
    CtInv M ((HasIntegral.indefinite (⟨p⟩ : Log (Poly6 ℝ))).poly._0.a5) ((indefR6 M p).poly._0.a5).val ((Smag6 p)._0.a5) 3 ∧
    CtInv M ((HasIntegral.indefinite (⟨p⟩ : Log (Poly6 ℝ))).poly._0.a6) ((indefR6 M p).poly._0.a6).val ((Smag6 p)._0.a6) 0 :=
  ⟨ct_cast M (c := (indefCt6 M p).poly._0.a0) rfl rfl rfl (indefCt6_A0 M p) (Nat.le_of_ble_eq_true rfl),
    ct_cast M (c := (indefCt6 M p).poly._0.a1) rfl rfl rfl (indefCt6_A1 M p) (Nat.le_of_ble_eq_true rfl),
    ct_cast M (c := (indefCt6 M p).poly._0.a2) rfl rfl rfl (indefCt6_A2 M p) (Nat.le_of_ble_eq_true rfl),
    ct_cast M (c := (indefCt6 M p).poly._0.a3) rfl rfl rfl (indefCt6_A3 M p) (Nat.le_of_ble_eq_true rfl),
    ct_cast M (c := (indefCt6 M p).poly._0.a4) rfl rfl rfl (indefCt6_A4 M p) (Nat.le_of_ble_eq_true rfl),
    ct_cast M (c := (indefCt6 M p).poly._0.a5) rfl rfl rfl (indefCt6_A5 M p) (Nat.le_of_ble_eq_true rfl),
    ct_cast M (c := (indefCt6 M p).poly._0.a6) rfl rfl rfl (indefCt6_A6 M p) (Nat.le_of_ble_eq_true rfl)⟩
/-- the generated `Evaluate (Poly6 F)` run at `Ct M` on the lanes of `indefCt6` at `x̂ = rnd (ln v)` -/
@[reducible] noncomputable def polyCt6 (p : Poly6 ℝ) (v : ℝ) : Ct M :=
  Evaluate.evaluate (indefCt6 M p).poly (xCt M v)
/-- **the computed polynomial part against `Q(ln v)`**: magnitude `Σ_j S_j|ln v|^j`, depth 19 -/
theorem poly6_ct (p : Poly6 ℝ) (v : ℝ) :
    CtInv M (Evaluate.evaluate (HasIntegral.indefinite (⟨p⟩ : Log (Poly6 ℝ))).poly (Real.log v)) (polyVal M (indefR6 M p) v) (MagS6 p v) 19 := by
  refine ct_cast M (c := polyCt6 M p v) rfl rfl rfl ?_ (Nat.le_of_ble_eq_true rfl)
  show Evaluate.evaluate (⟨⟨((indefCt6 M p).poly._0.a0).A, ((indefCt6 M p).poly._0.a1).A, ((indefCt6 M p).poly._0.a2).A, ((indefCt6 M p).poly._0.a3).A, ((indefCt6 M p).poly._0.a4).A, ((indefCt6 M p).poly._0.a5).A, ((indefCt6 M p).poly._0.a6).A⟩⟩ : Poly6 ℝ) |Real.log v| = _
  rw [PP.Props.C01.poly6_eval, MagS6]
  simp only [indefCt6_A0, indefCt6_A1, indefCt6_A2, indefCt6_A3, indefCt6_A4, indefCt6_A5, indefCt6_A6]
/-- `|Q(ln v)| ≤ Σ_j |q_j||ln v|^j`, degree 6 -/
theorem poly6_abs_le (p : Poly6 ℝ) (v : ℝ) :
    |Evaluate.evaluate (HasIntegral.indefinite (⟨p⟩ : Log (Poly6 ℝ))).poly (Real.log v)| ≤ MagQ6 p v := by
  have h := ((HasIntegral.indefinite (⟨p⟩ : Log (Poly6 ℝ))).poly.ctRun (RModel.exact ℝ) (Real.log v)).abs_e_le rfl
  rw [poly6_ct_e, poly6_ct_A_sum] at h
  exact h

/-! ### degree 7 -/

/-- the generated `indefinite` of `Log<Poly7>` run at `Ct M` on the injected coefficients -/
@[reducible] noncomputable def indefCt7 (p : Poly7 ℝ) : IntOfLog (Ct M) (Poly7 (Ct M)) :=
  HasIntegral.indefinite (⟨p.mapF (Ct.inp M)⟩ : Log (Poly7 (Ct M)))
/-- the generated `indefinite` of `Log<Poly7>` run in rounded arithmetic on the exact coefficients -/
@[reducible] noncomputable def indefR7 (p : Poly7 ℝ) : IntOfLog (Rounded M) (Poly7 (Rounded M)) :=
  HasIntegral.indefinite (⟨p.mapF Rounded.mk⟩ : Log (Poly7 (Rounded M)))
/-- the magnitudes `S_j = Σ_(i≥j) (i!/j!)·|c_i|` of the antiderivative coefficients, degree 7 -/
def Smag7 (p : Poly7 ℝ) : Poly7 ℝ :=
  ⟨⟨|p._0.a0| + |p._0.a1| + 2 * |p._0.a2| + 6 * |p._0.a3| + 24 * |p._0.a4| + 120 * |p._0.a5| + 720 * |p._0.a6| + 5040 * |p._0.a7|, |p._0.a1| + 2 * |p._0.a2| + 6 * |p._0.a3| + 24 * |p._0.a4| + 120 * |p._0.a5| + 720 * |p._0.a6| + 5040 * |p._0.a7|, |p._0.a2| + 3 * |p._0.a3| + 12 * |p._0.a4| + 60 * |p._0.a5| + 360 * |p._0.a6| + 2520 * |p._0.a7|, |p._0.a3| + 4 * |p._0.a4| + 20 * |p._0.a5| + 120 * |p._0.a6| + 840 * |p._0.a7|, |p._0.a4| + 5 * |p._0.a5| + 30 * |p._0.a6| + 210 * |p._0.a7|, |p._0.a5| + 6 * |p._0.a6| + 42 * |p._0.a7|, |p._0.a6| + 7 * |p._0.a7|, |p._0.a7|⟩⟩
/-- `Σ_j S_j·|ln v|^j`, degree 7 -/
noncomputable def MagS7 (p : Poly7 ℝ) (v : ℝ) : ℝ :=
  ((Smag7 p)._0.a0) + ((Smag7 p)._0.a1) * |Real.log v| + ((Smag7 p)._0.a2) * |Real.log v| ^ 2 + ((Smag7 p)._0.a3) * |Real.log v| ^ 3 + ((Smag7 p)._0.a4) * |Real.log v| ^ 4 + ((Smag7 p)._0.a5) * |Real.log v| ^ 5 + ((Smag7 p)._0.a6) * |Real.log v| ^ 6 + ((Smag7 p)._0.a7) * |Real.log v| ^ 7
/-- `Σ_j |q_j|·|ln v|^j` with `q_j` the exact antiderivative coefficients, degree 7 -/
noncomputable def MagQ7 (p : Poly7 ℝ) (v : ℝ) : ℝ :=
  |(HasIntegral.indefinite (⟨p⟩ : Log (Poly7 ℝ))).poly._0.a0| + |(HasIntegral.indefinite (⟨p⟩ : Log (Poly7 ℝ))).poly._0.a1| * |Real.log v| + |(HasIntegral.indefinite (⟨p⟩ : Log (Poly7 ℝ))).poly._0.a2| * |Real.log v| ^ 2 + |(HasIntegral.indefinite (⟨p⟩ : Log (Poly7 ℝ))).poly._0.a3| * |Real.log v| ^ 3 + |(HasIntegral.indefinite (⟨p⟩ : Log (Poly7 ℝ))).poly._0.a4| * |Real.log v| ^ 4 + |(HasIntegral.indefinite (⟨p⟩ : Log (Poly7 ℝ))).poly._0.a5| * |Real.log v| ^ 5 + |(HasIntegral.indefinite (⟨p⟩ : Log (Poly7 ℝ))).poly._0.a6| * |Real.log v| ^ 6 + |(HasIntegral.indefinite (⟨p⟩ : Log (Poly7 ℝ))).poly._0.a7| * |Real.log v| ^ 7
theorem indefR7_k (p : Poly7 ℝ) : (indefR7 M p).k.val = 0 := PP.Lemmas.LinearFP.lit0 M
theorem indefCt7_A0 (p : Poly7 ℝ) : ((indefCt7 M p).poly._0.a0).A = (Smag7 p)._0.a0 := by
  show |p._0.a0| + (|p._0.a1| + |((2 : ℤ) : ℝ) * (10 : ℝ) ^ (0 : ℤ)| * (|p._0.a2| + |((3 : ℤ) : ℝ) * (10 : ℝ) ^ (0 : ℤ)| * (|p._0.a3| + |((4 : ℤ) : ℝ) * (10 : ℝ) ^ (0 : ℤ)| * (|p._0.a4| + |((5 : ℤ) : ℝ) * (10 : ℝ) ^ (0 : ℤ)| * (|p._0.a5| + |((6 : ℤ) : ℝ) * (10 : ℝ) ^ (0 : ℤ)| * (|p._0.a6| + |((7 : ℤ) : ℝ) * (10 : ℝ) ^ (0 : ℤ)| * (|p._0.a7|))))))) = _
  simp only [Smag7]
  norm_num
  try ring
theorem indefCt7_A1 (p : Poly7 ℝ) : ((indefCt7 M p).poly._0.a1).A = (Smag7 p)._0.a1 := by
  show |p._0.a1| + |((2 : ℤ) : ℝ) * (10 : ℝ) ^ (0 : ℤ)| * (|p._0.a2| + |((3 : ℤ) : ℝ) * (10 : ℝ) ^ (0 : ℤ)| * (|p._0.a3| + |((4 : ℤ) : ℝ) * (10 : ℝ) ^ (0 : ℤ)| * (|p._0.a4| + |((5 : ℤ) : ℝ) * (10 : ℝ) ^ (0 : ℤ)| * (|p._0.a5| + |((6 : ℤ) : ℝ) * (10 : ℝ) ^ (0 : ℤ)| * (|p._0.a6| + |((7 : ℤ) : ℝ) * (10 : ℝ) ^ (0 : ℤ)| * (|p._0.a7|)))))) = _
  simp only [Smag7]
  norm_num
  try ring
theorem indefCt7_A2 (p : Poly7 ℝ) : ((indefCt7 M p).poly._0.a2).A = (Smag7 p)._0.a2 := by
  show |p._0.a2| + |((3 : ℤ) : ℝ) * (10 : ℝ) ^ (0 : ℤ)| * (|p._0.a3| + |((4 : ℤ) : ℝ) * (10 : ℝ) ^ (0 : ℤ)| * (|p._0.a4| + |((5 : ℤ) : ℝ) * (10 : ℝ) ^ (0 : ℤ)| * (|p._0.a5| + |((6 : ℤ) : ℝ) * (10 : ℝ) ^ (0 : ℤ)| * (|p._0.a6| + |((7 : ℤ) : ℝ) * (10 : ℝ) ^ (0 : ℤ)| * (|p._0.a7|))))) = _
  simp only [Smag7]
  norm_num
  try ring
theorem indefCt7_A3 (p : Poly7 ℝ) : ((indefCt7 M p).poly._0.a3).A = (Smag7 p)._0.a3 := by
  show |p._0.a3| + |((4 : ℤ) : ℝ) * (10 : ℝ) ^ (0 : ℤ)| * (|p._0.a4| + |((5 : ℤ) : ℝ) * (10 : ℝ) ^ (0 : ℤ)| * (|p._0.a5| + |((6 : ℤ) : ℝ) * (10 : ℝ) ^ (0 : ℤ)| * (|p._0.a6| + |((7 : ℤ) : ℝ) * (10 : ℝ) ^ (0 : ℤ)| * (|p._0.a7|)))) = _
  simp only [Smag7]
  norm_num
  try ring
theorem indefCt7_A4 (p : Poly7 ℝ) : ((indefCt7 M p).poly._0.a4).A = (Smag7 p)._0.a4 := by
  show |p._0.a4| + |((5 : ℤ) : ℝ) * (10 : ℝ) ^ (0 : ℤ)| * (|p._0.a5| + |((6 : ℤ) : ℝ) * (10 : ℝ) ^ (0 : ℤ)| * (|p._0.a6| + |((7 : ℤ) : ℝ) * (10 : ℝ) ^ (0 : ℤ)| * (|p._0.a7|))) = _
  simp only [Smag7]
  norm_num
  try ring
theorem indefCt7_A5 (p : Poly7 ℝ) : ((indefCt7 M p).poly._0.a5).A = (Smag7 p)._0.a5 := by
  show |p._0.a5| + |((6 : ℤ) : ℝ) * (10 : ℝ) ^ (0 : ℤ)| * (|p._0.a6| + |((7 : ℤ) : ℝ) * (10 : ℝ) ^ (0 : ℤ)| * (|p._0.a7|)) = _
  simp only [Smag7]
  norm_num
  try ring
theorem indefCt7_A6 (p : Poly7 ℝ) : ((indefCt7 M p).poly._0.a6).A = (Smag7 p)._0.a6 := by
  show |p._0.a6| + |((7 : ℤ) : ℝ) * (10 : ℝ) ^ (0 : ℤ)| * (|p._0.a7|) = _
  simp only [Smag7]
  norm_num
  try ring
theorem indefCt7_A7 (p : Poly7 ℝ) : ((indefCt7 M p).poly._0.a7).A = (Smag7 p)._0.a7 := by
  show |p._0.a7| = _
  simp only [Smag7]
/-- the invariant of every antiderivative coefficient (exact run, rounded run, magnitude `S_j`, depth), degree 7 -/
theorem coeff7_ct (p : Poly7 ℝ) :
    CtInv M ((HasIntegral.indefinite (⟨p⟩ : Log (Poly7 ℝ))).poly._0.a0) ((indefR7 M p).poly._0.a0).val ((Smag7 p)._0.a0) 19 ∧
    CtInv M ((HasIntegral.indefinite (⟨p⟩ : Log (Poly7 ℝ))).poly._0.a1) ((indefR7 M p).poly._0.a1).val ((Smag7 p)._0.a1) 18 ∧
    CtInv M ((HasIntegral.indefinite (⟨p⟩ : Log (Poly7 ℝ))).poly._0.a2) ((indefR7 M p).poly._0.a2).val ((Smag7 p)._0.a2) 15 ∧
    CtInv M ((HasIntegral.indefinite (⟨p⟩ : Log (Poly7 ℝ))).poly._0.a3) ((indefR7 M p).poly._0.a3).val ((Smag7 p)._0.a3) 12 ∧
    CtInv M ((HasIntegral.indefinite (⟨p⟩ : Log (Poly7 ℝ))).poly._0.a4) ((indefR7 M p).poly._0.a4).val ((Smag7 p)._0.a4) 9 ∧
    CtInv M ((HasIntegral.indefinite (⟨p⟩ : Log (Poly7 ℝ))).poly._0.a5) ((indefR7 M p).poly._0.a5).val ((Smag7 p)._0.a5) 6 ∧
    CtInv M ((HasIntegral.indefinite (⟨p⟩ : Log (Poly7 ℝ))).poly._0.a6) ((indefR7 M p).poly._0.a6).val ((Smag7 p)._0.a6) 3 ∧
    CtInv M ((HasIntegral.indefinite (⟨p⟩ : Log (Poly7 ℝ))).poly._0.a7) ((indefR7 M p).poly._0.a7).val ((Smag7 p)._0.a7) 0 :=
  ⟨ct_cast M (c := (indefCt7 M p).poly._0.a0) rfl rfl rfl (indefCt7_A0 M p) (Nat.le_of_ble_eq_true rfl),
    ct_cast M (c := (indefCt7 M p).poly._0.a1) rfl rfl rfl (indefCt7_A1 M p) (Nat.le_of_ble_eq_true rfl),
    ct_cast M (c := (indefCt7 M p).poly._0.a2) rfl rfl rfl (indefCt7_A2 M p) (Nat.le_of_ble_eq_true rfl),
    ct_cast M (c := (indefCt7 M p).poly._0.a3) rfl rfl rfl (indefCt7_A3 M p) (Nat.le_of_ble_eq_true rfl),
    ct_cast M (c := (indefCt7 M p).poly._0.a4) rfl rfl rfl (indefCt7_A4 M p) (Nat.le_of_ble_eq_true rfl),
    ct_cast M (c := (indefCt7 M p).poly._0.a5) rfl rfl rfl (indefCt7_A5 M p) (Nat.le_of_ble_eq_true rfl),
    ct_cast M (c := (indefCt7 M p).poly._0.a6) rfl rfl rfl (indefCt7_A6 M p) (Nat.le_of_ble_eq_true rfl),
    ct_cast M (c := (indefCt7 M p).poly._0.a7) rfl rfl rfl (indefCt7_A7 M p) (Nat.le_of_ble_eq_true rfl)⟩
/-- the generated `Evaluate (Poly7 F)` run at `Ct M` on the lanes of `indefCt7` at `x̂ = rnd (ln v)` -/
@[reducible] noncomputable def polyCt7 (p : Poly7 ℝ) (v : ℝ) : Ct M :=
  Evaluate.evaluate (indefCt7 M p).poly (xCt M v)
/-- **the computed polynomial part against `Q(ln v)`**: magnitude `Σ_j S_j|ln v|^j`, depth 22 -/
theorem poly7_ct (p : Poly7 ℝ) (v : ℝ) :
    CtInv M (Evaluate.evaluate (HasIntegral.indefinite (⟨p⟩ : Log (Poly7 ℝ))).poly (Real.log v)) (polyVal M (indefR7 M p) v) (MagS7 p v) 22 := by
  refine ct_cast M (c := polyCt7 M p v) rfl rfl rfl ?_ (Nat.le_of_ble_eq_true rfl)
  show Evaluate.evaluate (⟨⟨((indefCt7 M p).poly._0.a0).A, ((indefCt7 M p).poly._0.a1).A, ((indefCt7 M p).poly._0.a2).A, ((indefCt7 M p).poly._0.a3).A, ((indefCt7 M p).poly._0.a4).A, ((indefCt7 M p).poly._0.a5).A, ((indefCt7 M p).poly._0.a6).A, ((indefCt7 M p).poly._0.a7).A⟩⟩ : Poly7 ℝ) |Real.log v| = _
  rw [PP.Props.C01.poly7_eval, MagS7]
  simp only [indefCt7_A0, indefCt7_A1, indefCt7_A2, indefCt7_A3, indefCt7_A4, indefCt7_A5, indefCt7_A6, indefCt7_A7]
/-- `|Q(ln v)| ≤ Σ_j |q_j||ln v|^j`, degree 7 -/
theorem poly7_abs_le (p : Poly7 ℝ) (v : ℝ) :
    |Evaluate.evaluate (HasIntegral.indefinite (⟨p⟩ : Log (Poly7 ℝ))).poly (Real.log v)| ≤ MagQ7 p v := by
  have h := ((HasIntegral.indefinite (⟨p⟩ : Log (Poly7 ℝ))).poly.ctRun (RModel.exact ℝ) (Real.log v)).abs_e_le rfl
  rw [poly7_ct_e, poly7_ct_A_sum] at h
  exact h

/-! ### degree 8 -/

/-- the generated `indefinite` of `Log<Poly8>` run at `Ct M` on the injected coefficients -/
@[reducible] noncomputable def indefCt8 (p : Poly8 ℝ) : IntOfLog (Ct M) (Poly8 (Ct M)) :=
  HasIntegral.indefinite (⟨p.mapF (Ct.inp M)⟩ : Log (Poly8 (Ct M)))
/-- the generated `indefinite` of `Log<Poly8>` run in rounded arithmetic on the exact coefficients -/
@[reducible] noncomputable def indefR8 (p : Poly8 ℝ) : IntOfLog (Rounded M) (Poly8 (Rounded M)) :=
  HasIntegral.indefinite (⟨p.mapF Rounded.mk⟩ : Log (Poly8 (Rounded M)))
/-- the magnitudes `S_j = Σ_(i≥j) (i!/j!)·|c_i|` of the antiderivative coefficients, degree 8 -/
def Smag8 (p : Poly8 ℝ) : Poly8 ℝ :=
  ⟨⟨|p._0.a0| + |p._0.a1| + 2 * |p._0.a2| + 6 * |p._0.a3| + 24 * |p._0.a4| + 120 * |p._0.a5| + 720 * |p._0.a6| + 5040 * |p._0.a7| + 40320 * |p._0.a8|, |p._0.a1| + 2 * |p._0.a2| + 6 * |p._0.a3| + 24 * |p._0.a4| + 120 * |p._0.a5| + 720 * |p._0.a6| + 5040 * |p._0.a7| + 40320 * |p._0.a8|, |p._0.a2| + 3 * |p._0.a3| + 12 * |p._0.a4| + 60 * |p._0.a5| + 360 * |p._0.a6| + 2520 * |p._0.a7| + 20160 * |p._0.a8|, |p._0.a3| + 4 * |p._0.a4| + 20 * |p._0.a5| + 120 * |p._0.a6| + 840 * |p._0.a7| + 6720 * |p._0.a8|, |p._0.a4| + 5 * |p._0.a5| + 30 * |p._0.a6| + 210 * |p._0.a7| + 1680 * |p._0.a8|, |p._0.a5| + 6 * |p._0.a6| + 42 * |p._0.a7| + 336 * |p._0.a8|, |p._0.a6| + 7 * |p._0.a7| + 56 * |p._0.a8|, |p._0.a7| + 8 * |p._0.a8|, |p._0.a8|⟩⟩
/-- `Σ_j S_j·|ln v|^j`, degree 8 -/
noncomputable def MagS8 (p : Poly8 ℝ) (v : ℝ) : ℝ :=
  ((Smag8 p)._0.a0) + ((Smag8 p)._0.a1) * |Real.log v| + ((Smag8 p)._0.a2) * |Real.log v| ^ 2 + ((Smag8 p)._0.a3) * |Real.log v| ^ 3 + ((Smag8 p)._0.a4) * |Real.log v| ^ 4 + ((Smag8 p)._0.a5) * |Real.log v| ^ 5 + ((Smag8 p)._0.a6) * |Real.log v| ^ 6 + ((Smag8 p)._0.a7) * |Real.log v| ^ 7 + ((Smag8 p)._0.a8) * |Real.log v| ^ 8
/-- `Σ_j |q_j|·|ln v|^j` with `q_j` the exact antiderivative coefficients, degree 8 -/
noncomputable def MagQ8 (p : Poly8 ℝ) (v : ℝ) : ℝ :=
  |(HasIntegral.indefinite (⟨p⟩ : Log (Poly8 ℝ))).poly._0.a0| + |(HasIntegral.indefinite (⟨p⟩ : Log (Poly8 ℝ))).poly._0.a1| * |Real.log v| + |(HasIntegral.indefinite (⟨p⟩ : Log (Poly8 ℝ))).poly._0.a2| * |Real.log v| ^ 2 + |(HasIntegral.indefinite (⟨p⟩ : Log (Poly8 ℝ))).poly._0.a3| * |Real.log v| ^ 3 + |(HasIntegral.indefinite (⟨p⟩ : Log (Poly8 ℝ))).poly._0.a4| * |Real.log v| ^ 4 + |(HasIntegral.indefinite (⟨p⟩ : Log (Poly8 ℝ))).poly._0.a5| * |Real.log v| ^ 5 + |(HasIntegral.indefinite (⟨p⟩ : Log (Poly8 ℝ))).poly._0.a6| * |Real.log v| ^ 6 + |(HasIntegral.indefinite (⟨p⟩ : Log (Poly8 ℝ))).poly._0.a7| * |Real.log v| ^ 7 + |(HasIntegral.indefinite (⟨p⟩ : Log (Poly8 ℝ))).poly._0.a8| * |Real.log v| ^ 8
theorem indefR8_k (p : Poly8 ℝ) : (indefR8 M p).k.val = 0 := PP.Lemmas.LinearFP.lit0 M
theorem indefCt8_A0 (p : Poly8 ℝ) : ((indefCt8 M p).poly._0.a0).A = (Smag8 p)._0.a0 := by
  show |p._0.a0| + (|p._0.a1| + |((2 : ℤ) : ℝ) * (10 : ℝ) ^ (0 : ℤ)| * (|p._0.a2| + |((3 : ℤ) : ℝ) * (10 : ℝ) ^ (0 : ℤ)| * (|p._0.a3| + |((4 : ℤ) : ℝ) * (10 : ℝ) ^ (0 : ℤ)| * (|p._0.a4| + |((5 : ℤ) : ℝ) * (10 : ℝ) ^ (0 : ℤ)| * (|p._0.a5| + |((6 : ℤ) : ℝ) * (10 : ℝ) ^ (0 : ℤ)| * (|p._0.a6| + |((7 : ℤ) : ℝ) * (10 : ℝ) ^ (0 : ℤ)| * (|p._0.a7| + |((8 : ℤ) : ℝ) * (10 : ℝ) ^ (0 : ℤ)| * (|p._0.a8|)))))))) = _
  simp only [Smag8]
  norm_num
  try ring
theorem indefCt8_A1 (p : Poly8 ℝ) : ((indefCt8 M p).poly._0.a1).A = (Smag8 p)._0.a1 := by
  show |p._0.a1| + |((2 : ℤ) : ℝ) * (10 : ℝ) ^ (0 : ℤ)| * (|p._0.a2| + |((3 : ℤ) : ℝ) * (10 : ℝ) ^ (0 : ℤ)| * (|p._0.a3| + |((4 : ℤ) : ℝ) * (10 : ℝ) ^ (0 : ℤ)| * (|p._0.a4| + |((5 : ℤ) : ℝ) * (10 : ℝ) ^ (0 : ℤ)| * (|p._0.a5| + |((6 : ℤ) : ℝ) * (10 : ℝ) ^ (0 : ℤ)| * (|p._0.a6| + |((7 : ℤ) : ℝ) * (10 : ℝ) ^ (0 : ℤ)| * (|p._0.a7| + |((8 : ℤ) : ℝ) * (10 : ℝ) ^ (0 : ℤ)| * (|p._0.a8|))))))) = _
  simp only [Smag8]
  norm_num
  try ring
theorem indefCt8_A2 (p : Poly8 ℝ) : ((indefCt8 M p).poly._0.a2).A = (Smag8 p)._0.a2 := by
  show |p._0.a2| + |((3 : ℤ) : ℝ) * (10 : ℝ) ^ (0 : ℤ)| * (|p._0.a3| + |((4 : ℤ) : ℝ) * (10 : ℝ) ^ (0 : ℤ)| * (|p._0.a4| + |((5 : ℤ) : ℝ) * (10 : ℝ) ^ (0 : ℤ)| * (|p._0.a5| + |((6 : ℤ) : ℝ) * (10 : ℝ) ^ (0 : ℤ)| * (|p._0.a6| + |((7 : ℤ) : ℝ) * (10 : ℝ) ^ (0 : ℤ)| * (|p._0.a7| + |((8 : ℤ) : ℝ) * (10 : ℝ) ^ (0 : ℤ)| * (|p._0.a8|)))))) = _
  simp only [Smag8]
  norm_num
  try ring
theorem indefCt8_A3 (p : Poly8 ℝ) : ((indefCt8 M p).poly._0.a3).A = (Smag8 p)._0.a3 := by
  show |p._0.a3| + |((4 : ℤ) : ℝ) * (10 : ℝ) ^ (0 : ℤ)| * (|p._0.a4| + |((5 : ℤ) : ℝ) * (10 : ℝ) ^ (0 : ℤ)| * (|p._0.a5| + |((6 : ℤ) : ℝ) * (10 : ℝ) ^ (0 : ℤ)| * (|p._0.a6| + |((7 : ℤ) : ℝ) * (10 : ℝ) ^ (0 : ℤ)| * (|p._0.a7| + |((8 : ℤ) : ℝ) * (10 : ℝ) ^ (0 : ℤ)| * (|p._0.a8|))))) = _
  simp only [Smag8]
  norm_num
  try ring
theorem indefCt8_A4 (p : Poly8 ℝ) : ((indefCt8 M p).poly._0.a4).A = (Smag8 p)._0.a4 := by
  show |p._0.a4| + |((5 : ℤ) : ℝ) * (10 : ℝ) ^ (0 : ℤ)| * (|p._0.a5| + |((6 : ℤ) : ℝ) * (10 : ℝ) ^ (0 : ℤ)| * (|p._0.a6| + |((7 : ℤ) : ℝ) * (10 : ℝ) ^ (0 : ℤ)| * (|p._0.a7| + |((8 : ℤ) : ℝ) * (10 : ℝ) ^ (0 : ℤ)| * (|p._0.a8|)))) = _
  simp only [Smag8]
  norm_num
  try ring
theorem indefCt8_A5 (p : Poly8 ℝ) : ((indefCt8 M p).poly._0.a5).A = (Smag8 p)._0.a5 := by
  show |p._0.a5| + |((6 : ℤ) : ℝ) * (10 : ℝ) ^ (0 : ℤ)| * (|p._0.a6| + |((7 : ℤ) : ℝ) * (10 : ℝ) ^ (0 : ℤ)| * (|p._0.a7| + |((8 : ℤ) : ℝ) * (10 : ℝ) ^ (0 : ℤ)| * (|p._0.a8|))) = _
  simp only [Smag8]
  norm_num
  try ring
theorem indefCt8_A6 (p : Poly8 ℝ) : ((indefCt8 M p).poly._0.a6).A = (Smag8 p)._0.a6 := by
  show |p._0.a6| + |((7 : ℤ) : ℝ) * (10 : ℝ) ^ (0 : ℤ)| * (|p._0.a7| + |((8 : ℤ) : ℝ) * (10 : ℝ) ^ (0 : ℤ)| * (|p._0.a8|)) = _
  simp only [Smag8]
  norm_num
  try ring
theorem indefCt8_A7 (p : Poly8 ℝ) : ((indefCt8 M p).poly._0.a7).A = (Smag8 p)._0.a7 := by
  show |p._0.a7| + |((8 : ℤ) : ℝ) * (10 : ℝ) ^ (0 : ℤ)| * (|p._0.a8|) = _
  simp only [Smag8]
  norm_num
  try ring
theorem indefCt8_A8 (p : Poly8 ℝ) : ((indefCt8 M p).poly._0.a8).A = (Smag8 p)._0.a8 := by
  show |p._0.a8| = _
  simp only [Smag8]
/-- the invariant of every antiderivative coefficient (exact run, rounded run, magnitude `S_j`, depth), degree 8 -/
theorem coeff8_ct (p : Poly8 ℝ) :
    CtInv M ((HasIntegral.indefinite (⟨p⟩ : Log (Poly8 ℝ))).poly._0.a0) ((indefR8 M p).poly._0.a0).val ((Smag8 p)._0.a0) 22 ∧
    CtInv M ((HasIntegral.indefinite (⟨p⟩ : Log (Poly8 ℝ))).poly._0.a1) ((indefR8 M p).poly._0.a1).val ((Smag8 p)._0.a1) 21 ∧
    CtInv M ((HasIntegral.indefinite (⟨p⟩ : Log (Poly8 ℝ))).poly._0.a2) ((indefR8 M p).poly._0.a2).val ((Smag8 p)._0.a2) 18 ∧
    CtInv M ((HasIntegral.indefinite (⟨p⟩ : Log (Poly8 ℝ))).poly._0.a3) ((indefR8 M p).poly._0.a3).val ((Smag8 p)._0.a3) 15 ∧
    CtInv M ((HasIntegral.indefinite (⟨p⟩ : Log (Poly8 ℝ))).poly._0.a4) ((indefR8 M p).poly._0.a4).val ((Smag8 p)._0.a4) 12 ∧
    CtInv M ((HasIntegral.indefinite (⟨p⟩ : Log (Poly8 ℝ))).poly._0.a5) ((indefR8 M p).poly._0.a5).val ((Smag8 p)._0.a5) 9 ∧
    CtInv M ((HasIntegral.indefinite (⟨p⟩ : Log (Poly8 ℝ))).poly._0.a6) ((indefR8 M p).poly._0.a6).val ((Smag8 p)._0.a6) 6 ∧
    CtInv M ((HasIntegral.indefinite (⟨p⟩ : Log (Poly8 ℝ))).poly._0.a7) ((indefR8 M p).poly._0.a7).val ((Smag8 p)._0.a7) 3 ∧
    CtInv M ((HasIntegral.indefinite (⟨p⟩ : Log (Poly8 ℝ))).poly._0.a8) ((indefR8 M p).poly._0.a8).val ((Smag8 p)._0.a8) 0 :=
  ⟨ct_cast M (c := (indefCt8 M p).poly._0.a0) rfl rfl rfl (indefCt8_A0 M p) (Nat.le_of_ble_eq_true rfl),
    ct_cast M (c := (indefCt8 M p).poly._0.a1) rfl rfl rfl (indefCt8_A1 M p) (Nat.le_of_ble_eq_true rfl),
    ct_cast M (c := (indefCt8 M p).poly._0.a2) rfl rfl rfl (indefCt8_A2 M p) (Nat.le_of_ble_eq_true rfl),
    ct_cast M (c := (indefCt8 M p).poly._0.a3) rfl rfl rfl (indefCt8_A3 M p) (Nat.le_of_ble_eq_true rfl),
    ct_cast M (c := (indefCt8 M p).poly._0.a4) rfl rfl rfl (indefCt8_A4 M p) (Nat.le_of_ble_eq_true rfl),
    ct_cast M (c := (indefCt8 M p).poly._0.a5) rfl rfl rfl (indefCt8_A5 M p) (Nat.le_of_ble_eq_true rfl),
    ct_cast M (c := (indefCt8 M p).poly._0.a6) rfl rfl rfl (indefCt8_A6 M p) (Nat.le_of_ble_eq_true rfl),
    ct_cast M (c := (indefCt8 M p).poly._0.a7) rfl rfl rfl (indefCt8_A7 M p) (Nat.le_of_ble_eq_true rfl),
    ct_cast M (c := (indefCt8 M p).poly._0.a8) rfl rfl rfl (indefCt8_A8 M p) (Nat.le_of_ble_eq_true rfl)⟩
/-- the generated `Evaluate (Poly8 F)` run at `Ct M` on the lanes of `indefCt8` at `x̂ = rnd (ln v)` -/
@[reducible] noncomputable def polyCt8 (p : Poly8 ℝ) (v : ℝ) : Ct M :=
  Evaluate.evaluate (indefCt8 M p).poly (xCt M v)
/-- **the computed polynomial part against `Q(ln v)`**: magnitude `Σ_j S_j|ln v|^j`, depth 26 -/
theorem poly8_ct (p : Poly8 ℝ) (v : ℝ) :
    CtInv M (Evaluate.evaluate (HasIntegral.indefinite (⟨p⟩ : Log (Poly8 ℝ))).poly (Real.log v)) (polyVal M (indefR8 M p) v) (MagS8 p v) 26 := by
  refine ct_cast M (c := polyCt8 M p v) rfl rfl rfl ?_ (Nat.le_of_ble_eq_true rfl)
  show Evaluate.evaluate (⟨⟨((indefCt8 M p).poly._0.a0).A, ((indefCt8 M p).poly._0.a1).A, ((indefCt8 M p).poly._0.a2).A, ((indefCt8 M p).poly._0.a3).A, ((indefCt8 M p).poly._0.a4).A, ((indefCt8 M p).poly._0.a5).A, ((indefCt8 M p).poly._0.a6).A, ((indefCt8 M p).poly._0.a7).A, ((indefCt8 M p).poly._0.a8).A⟩⟩ : Poly8 ℝ) |Real.log v| = _
  rw [PP.Props.C01.poly8_eval, MagS8]
  simp only [indefCt8_A0, indefCt8_A1, indefCt8_A2, indefCt8_A3, indefCt8_A4, indefCt8_A5, indefCt8_A6, indefCt8_A7, indefCt8_A8]
/-- `|Q(ln v)| ≤ Σ_j |q_j||ln v|^j`, degree 8 -/
theorem poly8_abs_le (p : Poly8 ℝ) (v : ℝ) :
    |Evaluate.evaluate (HasIntegral.indefinite (⟨p⟩ : Log (Poly8 ℝ))).poly (Real.log v)| ≤ MagQ8 p v := by
  have h := ((HasIntegral.indefinite (⟨p⟩ : Log (Poly8 ℝ))).poly.ctRun (RModel.exact ℝ) (Real.log v)).abs_e_le rfl
  rw [poly8_ct_e, poly8_ct_A_sum] at h
  exact h

/-! ## C. degree 4: `IntOfLogPoly4`

The coefficient recurrence of degree 4 divides literals (`1.0/2.0`, …), which is outside the discipline of `Ct M`;
its invariant is composed by hand from the per-operation lemmas (`CtInv.add`, `CtInv.mul`, `ct_litdiv`), and
type-checks against the generated code by `rfl`.  The evaluation bound is `C10Bound.evaluate_rounding`. -/
section deg4
open PP.Lemmas.ExpTail

/-- the generated `indefinite` of `Log<Poly4>` run in rounded arithmetic on the exact coefficients -/
@[reducible] noncomputable def indefR4 (p : Poly4 ℝ) : IntOfLogPoly4 (Rounded M) :=
  HasIntegral.indefinite (⟨p.mapF Rounded.mk⟩ : Log (Poly4 (Rounded M)))

/-- the numbers of an `IntOfLogPoly4 (Rounded M)`, read back as reals -/
@[reducible] def valsOf (Q : IntOfLogPoly4 (Rounded M)) : IntOfLogPoly4 ℝ :=
  ⟨Q.k.val, Q.coeffs.mapF Rounded.val, Q.u.val⟩

/-- the rounded evaluation of an `IntOfLogPoly4` -/
@[reducible] noncomputable def evalR4 (Q : IntOfLogPoly4 (Rounded M)) (v : ℝ) : ℝ :=
  (Evaluate.evaluate Q (⟨v⟩ : Rounded M)).val

/-- … is `C10Bound.evalRounded` of its numbers -/
theorem evalR4_eq (Q : IntOfLogPoly4 (Rounded M)) (v : ℝ) :
    evalR4 M Q v = PP.Props.C10Bound.evalRounded M (valsOf M Q) v := rfl

/-- the magnitudes of the five numbers `(a, b, c, d, u)` of the degree-4 recurrence (`k = 0`):
`|c₀|`, `(|c₀|+|c₁|)/2`, `(…+|c₂|)/3`, `(…+|c₃|)/4`, `(…+|c₄|)·24` -/
noncomputable def Smag4 (p : Poly4 ℝ) : IntOfLogPoly4 ℝ :=
  ⟨0, ⟨|p._0.a0|, (|p._0.a0| + |p._0.a1|) / 2, ((|p._0.a0| + |p._0.a1|) / 2 + |p._0.a2|) / 3,
      (((|p._0.a0| + |p._0.a1|) / 2 + |p._0.a2|) / 3 + |p._0.a3|) / 4⟩,
    ((((|p._0.a0| + |p._0.a1|) / 2 + |p._0.a2|) / 3 + |p._0.a3|) / 4 + |p._0.a4|) * 24⟩

theorem indefR4_k (p : Poly4 ℝ) : (indefR4 M p).k.val = 0 := PP.Lemmas.LinearFP.lit0 M

/-- re-type the magnitude of an invariant -/
theorem ct_re {e a A A' : ℝ} {k k' : ℕ} (h : CtInv M e a A k) (hA : A = A') (hk : k ≤ k') :
    CtInv M e a A' k' := by
  subst hA; exact h.mono hk

/-- **the invariant of the five numbers of the degree-4 recurrence** (exact run, rounded run, magnitude, depth):
depths `0, 6, 12, 18, 21` (each literal quotient `1.0/m` costs three roundings) -/
theorem coeff4_ct (hu : M.u ≤ 1 / 100) (p : Poly4 ℝ) :
    CtInv M (HasIntegral.indefinite (⟨p⟩ : Log (Poly4 ℝ))).coeffs.a0 (indefR4 M p).coeffs.a0.val
      (Smag4 p).coeffs.a0 0 ∧
    CtInv M (HasIntegral.indefinite (⟨p⟩ : Log (Poly4 ℝ))).coeffs.a1 (indefR4 M p).coeffs.a1.val
      (Smag4 p).coeffs.a1 6 ∧
    CtInv M (HasIntegral.indefinite (⟨p⟩ : Log (Poly4 ℝ))).coeffs.a2 (indefR4 M p).coeffs.a2.val
      (Smag4 p).coeffs.a2 12 ∧
    CtInv M (HasIntegral.indefinite (⟨p⟩ : Log (Poly4 ℝ))).coeffs.a3 (indefR4 M p).coeffs.a3.val
      (Smag4 p).coeffs.a3 18 ∧
    CtInv M (HasIntegral.indefinite (⟨p⟩ : Log (Poly4 ℝ))).u (indefR4 M p).u.val (Smag4 p).u 21 := by
  have L : ∀ n : ℤ, 0 < ((n : ℤ) : ℝ) * (10 : ℝ) ^ (0 : ℤ) →
      CtInv M (((1 : ℤ) : ℝ) * (10 : ℝ) ^ (0 : ℤ) / (((n : ℤ) : ℝ) * (10 : ℝ) ^ (0 : ℤ)))
        (M.rnd (M.rnd (((1 : ℤ) : ℝ) * (10 : ℝ) ^ (0 : ℤ)) / M.rnd (((n : ℤ) : ℝ) * (10 : ℝ) ^ (0 : ℤ))))
        (((1 : ℤ) : ℝ) * (10 : ℝ) ^ (0 : ℤ) / (((n : ℤ) : ℝ) * (10 : ℝ) ^ (0 : ℤ))) 4 :=
    fun n h => ct_litdiv M hu (by norm_num) h
  have h0 := (CtInv.inp M p._0.a0).neg
  have h1 := (h0.add (CtInv.inp M p._0.a1)).mul (L 2 (by norm_num))
  have h2 := (h1.sub (CtInv.inp M p._0.a2)).mul (L 3 (by norm_num))
  have h3 := (h2.add (CtInv.inp M p._0.a3)).mul (L 4 (by norm_num))
  have h4 := (h3.sub (CtInv.inp M p._0.a4)).mul (CtInv.lit M (((24 : ℤ) : ℝ) * (10 : ℝ) ^ (0 : ℤ)))
  refine ⟨ct_re M h0 rfl le_rfl, ct_re M h1 ?_ (by decide), ct_re M h2 ?_ (by decide),
    ct_re M h3 ?_ (by decide), ct_re M h4 ?_ (by decide)⟩
  all_goals simp only [Smag4]; norm_num; try ring

/-- the bracket `cr` of the generated `IntOfLogPoly4::evaluate` does not depend on the constant `k`:
the evaluation is `rnd (v·cr + k)` -/
theorem exists_cr (Q : IntOfLogPoly4 (Rounded M)) (v : ℝ) :
    ∃ cr : ℝ, ∀ k : Rounded M, evalR4 M { Q with k := k } v = M.rnd (v * cr + k.val) := by
  simp only [evalR4, Evaluate.evaluate, inst_Evaluate_IntOfLogPoly4.evaluate]
  exact ⟨_, fun _ => rfl⟩

/-- the body of the generated `integral` of `Log<Poly4>` -/
@[reducible] noncomputable def throughKnot4 (Q : IntOfLogPoly4 (Rounded M)) (x y : ℝ) : IntOfLogPoly4 (Rounded M) :=
  Translate.translate Q (PSub.sub (⟨y⟩ : Rounded M) (Evaluate.evaluate Q (⟨x⟩ : Rounded M)))

/-- **F̂(knot.x) against knot.y, degree 4**: `g₃|y| + g₄·|E₀|/(1−u)`, `E₀` the rounded value of the indefinite
integral at the knot -/
theorem knot4_gen (Q : IntOfLogPoly4 (Rounded M)) (hk : Q.k.val = 0) (x y : ℝ) :
    |evalR4 M (throughKnot4 M Q x y) x - y|
        ≤ ((1 + M.u) ^ 3 - 1) * |y| + ((1 + M.u) ^ 4 - 1) * (|evalR4 M Q x| / (1 - M.u)) ∧
    |(throughKnot4 M Q x y).k.val| ≤ (1 + M.u) ^ 2 * (|y| + (1 + M.u) * (|evalR4 M Q x| / (1 - M.u))) := by
  obtain ⟨cr, hcr⟩ := exists_cr M Q x
  have hQ : evalR4 M Q x = M.rnd (x * cr) := by
    have := hcr Q.k
    rw [hk, add_zero] at this
    exact this
  have hFk : (throughKnot4 M Q x y).k.val = M.rnd (M.rnd (y - M.rnd (x * cr))) := by
    show M.rnd (Q.k.val + M.rnd (y - evalR4 M Q x)) = _
    rw [hk, zero_add, hQ]
  have hF : evalR4 M (throughKnot4 M Q x y) x = M.rnd (x * cr + (throughKnot4 M Q x y).k.val) :=
    hcr (throughKnot4 M Q x y).k
  have hu := M.hu
  have hu1 := M.hu1
  have h1u : 0 < 1 - M.u := by linarith
  have hxc : |x * cr| ≤ |evalR4 M Q x| / (1 - M.u) := by
    rw [le_div_iff₀ h1u, hQ]
    have h := M.h (x * cr)
    have : |x * cr| ≤ |M.rnd (x * cr)| + |M.rnd (x * cr) - x * cr| := by
      calc |x * cr| = |M.rnd (x * cr) - (M.rnd (x * cr) - x * cr)| := by ring_nf
        _ ≤ _ := abs_sub _ _
    nlinarith
  constructor
  · rw [hF, hFk]
    refine (knot_core M cr x y).trans ?_
    have := mul_le_mul_of_nonneg_left hxc (growth_nonneg M.hu 4)
    linarith
  · rw [hFk]
    refine (k_core M cr x y).trans ?_
    have h1 : (1 + M.u) * |x * cr| ≤ (1 + M.u) * (|evalR4 M Q x| / (1 - M.u)) :=
      mul_le_mul_of_nonneg_left hxc (by linarith)
    exact mul_le_mul_of_nonneg_left (by linarith) (by positivity)

/-! ### the ideal value `C10.ideal` and the magnitude `C10Bound.Mag`, as a linear form in the five numbers -/

/-- `|v·(w₀X + w₁X² + w₂X³ + w₃X⁴) + w_u·v·X⁵·R| ≤ v·(b₀|X| + … + b₃|X|⁴) + b_u·v·|X|⁵·R` when `|w_j| ≤ b_j` -/
theorem lin_abs_le {w0 w1 w2 w3 wu b0 b1 b2 b3 bu v X Rr : ℝ} (hv : 0 ≤ v) (hR : 0 ≤ Rr)
    (h0 : |w0| ≤ b0) (h1 : |w1| ≤ b1) (h2 : |w2| ≤ b2) (h3 : |w3| ≤ b3) (h4 : |wu| ≤ bu) :
    |v * (w0 * X + w1 * X ^ 2 + w2 * X ^ 3 + w3 * X ^ 4) + wu * v * X ^ 5 * Rr|
      ≤ v * (b0 * |X| + b1 * |X| ^ 2 + b2 * |X| ^ 3 + b3 * |X| ^ 4) + bu * v * |X| ^ 5 * Rr := by
  have hX := abs_nonneg X
  have e0 : |w0 * X| ≤ b0 * |X| := by rw [abs_mul]; exact mul_le_mul_of_nonneg_right h0 hX
  have e1 : |w1 * X ^ 2| ≤ b1 * |X| ^ 2 := by
    rw [abs_mul, abs_pow]; exact mul_le_mul_of_nonneg_right h1 (by positivity)
  have e2 : |w2 * X ^ 3| ≤ b2 * |X| ^ 3 := by
    rw [abs_mul, abs_pow]; exact mul_le_mul_of_nonneg_right h2 (by positivity)
  have e3 : |w3 * X ^ 4| ≤ b3 * |X| ^ 4 := by
    rw [abs_mul, abs_pow]; exact mul_le_mul_of_nonneg_right h3 (by positivity)
  have e4 : |wu * v * X ^ 5 * Rr| ≤ bu * v * |X| ^ 5 * Rr := by
    rw [abs_mul, abs_mul, abs_mul, abs_pow, abs_of_nonneg hv, abs_of_nonneg hR]
    exact mul_le_mul_of_nonneg_right (mul_le_mul_of_nonneg_right
      (mul_le_mul_of_nonneg_right h4 hv) (by positivity)) hR
  have e5 : |w0 * X + w1 * X ^ 2 + w2 * X ^ 3 + w3 * X ^ 4|
      ≤ b0 * |X| + b1 * |X| ^ 2 + b2 * |X| ^ 3 + b3 * |X| ^ 4 := by
    refine (abs_add_le _ _).trans (add_le_add ((abs_add_le _ _).trans (add_le_add
      ((abs_add_le _ _).trans (add_le_add e0 e1)) e2)) e3)
  refine (abs_add_le _ _).trans (add_le_add ?_ e4)
  rw [abs_mul, abs_of_nonneg hv]
  exact mul_le_mul_of_nonneg_left e5 hv

/-- `|ideal q v| ≤ Mag q v` for `v > 0` -/
theorem abs_ideal_le_Mag (q : IntOfLogPoly4 ℝ) {v : ℝ} (hv : 0 < v) :
    |PP.Props.C10.ideal q v| ≤ PP.Props.C10Bound.Mag q v := by
  have h := lin_abs_le (X := -Real.log v) hv.le (R_nonneg (-Real.log v)) (le_refl |q.coeffs.a0|)
    (le_refl |q.coeffs.a1|) (le_refl |q.coeffs.a2|) (le_refl |q.coeffs.a3|) (le_refl |q.u|)
  simp only [PP.Props.C10.ideal, PP.Props.C10Bound.Mag]
  calc _ = |q.k + (v * (q.coeffs.a0 * (-Real.log v) + q.coeffs.a1 * (-Real.log v) ^ 2
        + q.coeffs.a2 * (-Real.log v) ^ 3 + q.coeffs.a3 * (-Real.log v) ^ 4)
        + q.u * v * (-Real.log v) ^ 5 * R (-Real.log v))| := by ring_nf
    _ ≤ |q.k| + _ := abs_add_le _ _
    _ ≤ _ := by linarith

/-- the magnitude is monotone and homogeneous in the magnitudes of the numbers -/
theorem Mag_le_of_coeffs {q s : IntOfLogPoly4 ℝ} {c v : ℝ} (hv : 0 < v) (hk : |q.k| ≤ c * |s.k|)
    (h0 : |q.coeffs.a0| ≤ c * |s.coeffs.a0|) (h1 : |q.coeffs.a1| ≤ c * |s.coeffs.a1|)
    (h2 : |q.coeffs.a2| ≤ c * |s.coeffs.a2|) (h3 : |q.coeffs.a3| ≤ c * |s.coeffs.a3|)
    (h4 : |q.u| ≤ c * |s.u|) :
    PP.Props.C10Bound.Mag q v ≤ c * PP.Props.C10Bound.Mag s v := by
  simp only [PP.Props.C10Bound.Mag]
  have hX := abs_nonneg (-Real.log v)
  have hR := R_nonneg (-Real.log v)
  have e0 := mul_le_mul_of_nonneg_right h0 hX
  have e1 := mul_le_mul_of_nonneg_right h1 (by positivity : 0 ≤ |-Real.log v| ^ 2)
  have e2 := mul_le_mul_of_nonneg_right h2 (by positivity : 0 ≤ |-Real.log v| ^ 3)
  have e3 := mul_le_mul_of_nonneg_right h3 (by positivity : 0 ≤ |-Real.log v| ^ 4)
  have e4 := mul_le_mul_of_nonneg_right h4 (by positivity : 0 ≤ v * |-Real.log v| ^ 5 * R (-Real.log v))
  have e5 := mul_le_mul_of_nonneg_left (add_le_add (add_le_add (add_le_add e0 e1) e2) e3) hv.le
  calc _ ≤ c * |s.k| + v * (c * |s.coeffs.a0| * |-Real.log v| + c * |s.coeffs.a1| * |-Real.log v| ^ 2
        + c * |s.coeffs.a2| * |-Real.log v| ^ 3 + c * |s.coeffs.a3| * |-Real.log v| ^ 4)
        + c * |s.u| * (v * |-Real.log v| ^ 5 * R (-Real.log v)) := by
        have : |q.u| * v * |-Real.log v| ^ 5 * R (-Real.log v)
            = |q.u| * (v * |-Real.log v| ^ 5 * R (-Real.log v)) := by ring
        rw [this]
        linarith
    _ = _ := by ring

/-- the ideal values of two sets of numbers whose coefficients are `ε`-close relative to the magnitudes `s`
(with `s.k = 0`) differ, up to their constants, by at most `ε·Mag s v` -/
theorem ideal_close {q q' s : IntOfLogPoly4 ℝ} {ε v : ℝ} (hv : 0 < v) (hs : s.k = 0)
    (h0 : |q.coeffs.a0 - q'.coeffs.a0| ≤ ε * s.coeffs.a0) (h1 : |q.coeffs.a1 - q'.coeffs.a1| ≤ ε * s.coeffs.a1)
    (h2 : |q.coeffs.a2 - q'.coeffs.a2| ≤ ε * s.coeffs.a2) (h3 : |q.coeffs.a3 - q'.coeffs.a3| ≤ ε * s.coeffs.a3)
    (h4 : |q.u - q'.u| ≤ ε * s.u)
    (p0 : 0 ≤ s.coeffs.a0) (p1 : 0 ≤ s.coeffs.a1) (p2 : 0 ≤ s.coeffs.a2) (p3 : 0 ≤ s.coeffs.a3) (p4 : 0 ≤ s.u) :
    |(PP.Props.C10.ideal q v - q.k) - (PP.Props.C10.ideal q' v - q'.k)| ≤ ε * PP.Props.C10Bound.Mag s v := by
  have h := lin_abs_le (X := -Real.log v) hv.le (R_nonneg (-Real.log v)) h0 h1 h2 h3 h4
  simp only [PP.Props.C10.ideal, PP.Props.C10Bound.Mag, hs, abs_zero, abs_of_nonneg p0, abs_of_nonneg p1,
    abs_of_nonneg p2, abs_of_nonneg p3, abs_of_nonneg p4]
  calc _ = |v * ((q.coeffs.a0 - q'.coeffs.a0) * (-Real.log v) + (q.coeffs.a1 - q'.coeffs.a1) * (-Real.log v) ^ 2
          + (q.coeffs.a2 - q'.coeffs.a2) * (-Real.log v) ^ 3 + (q.coeffs.a3 - q'.coeffs.a3) * (-Real.log v) ^ 4)
          + (q.u - q'.u) * v * (-Real.log v) ^ 5 * R (-Real.log v)| := by ring_nf
    _ ≤ _ := h
    _ = _ := by ring

/-- `C10.ideal` is the closed-form evaluation `C09.evalWith exp_5_tail_anal` (at `v = 1` the factor `X⁵` vanishes) -/
theorem ideal_eq_evalWith (q : IntOfLogPoly4 ℝ) (v : ℝ) :
    PP.Props.C10.ideal q v = PP.Props.C09.evalWith LogPoly.taylor.exp_5_tail_anal q v := by
  simp only [PP.Props.C10.ideal, PP.Props.C09.evalWith]
  by_cases h0 : -Real.log v = 0
  · rw [h0]; ring
  · rw [PP.Props.C10.tail_anal_eq_R h0]; ring

/-- **the exact integral, degree 4**: `ideal (indefinite ⟨p⟩) b − ideal (indefinite ⟨p⟩) a = ∫_a^b p(ln t) dt` -/
theorem ideal_ftc (p : Poly4 ℝ) (a b : ℝ) (ha : 0 < a) (hb : 0 < b) :
    PP.Props.C10.ideal (HasIntegral.indefinite (⟨p⟩ : Log (Poly4 ℝ))) b
        - PP.Props.C10.ideal (HasIntegral.indefinite (⟨p⟩ : Log (Poly4 ℝ))) a
      = ∫ t in a..b, Evaluate.evaluate (⟨p⟩ : Log (Poly4 ℝ)) t := by
  rw [ideal_eq_evalWith, ideal_eq_evalWith]
  exact PP.Props.C09.logpoly4_indefinite_closed_ftc p a b ha hb

theorem Smag4_nonneg (p : Poly4 ℝ) :
    0 ≤ (Smag4 p).coeffs.a0 ∧ 0 ≤ (Smag4 p).coeffs.a1 ∧ 0 ≤ (Smag4 p).coeffs.a2 ∧ 0 ≤ (Smag4 p).coeffs.a3
      ∧ 0 ≤ (Smag4 p).u := by
  simp only [Smag4]
  refine ⟨?_, ?_, ?_, ?_, ?_⟩ <;> positivity

end deg4

end PP.Lemmas.LogIntFP
