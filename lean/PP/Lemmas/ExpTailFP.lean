import PP.Sem.Count
import PP.Lemmas.ExpTail
import Mathlib.Analysis.Calculus.Deriv.MeanValue
import Mathlib.Analysis.Calculus.Deriv.Pow
import Mathlib.Analysis.Calculus.Deriv.Inv
import Mathlib.Analysis.SpecialFunctions.ExpDeriv
/-!
# Helper lemmas for the floating-point part of C10 (`PP/Props/C10Bound.lean`)

* **A** `growth_tight`, `growth_num`: `(1+u)^k − 1 ≤ (k + 1/1000)·u` for `u ≤ 2⁻⁵³`, `k ≤ 1000`.
* **B** extensions of the counting invariant `CtInv` (`PP/Sem/Count.lean`) to reciprocals and quotients
  (`ct_inv`, `ct_div`: the depth of a divisor counts twice), to literal quotients `rnd (rnd p / rnd q)`
  (`ct_litdiv`, depth 4), and `recip_recip_close` (`x.recip().recip()` is within `2u/(1−u)` of `x`).
* **C** the invariant `Cl G e a A` : `|e| ≤ A ∧ |a − e| ≤ (G − 1)·A` with a *real* growth factor `G ≥ 1`
  (`CtInv` is the case `G = (1+u)^k`): needed when a factor of the error is not a power of `1+u`
  (truncation error, sensitivity `e^{u|X|}` of `R`).
* **D** real analysis of `R x = (eˣ − P4 x)/x⁵`:
  `P4_le_exp`, `exp_le_P4`, `P5_le_exp`, `N_nonneg`; `R` is monotone and `R·e^{−x}` antitone on each
  ray (`R_between`), hence the sensitivity bound `R_sub_le : |R x − R X| ≤ (e^{|x−X|} − 1)·R X`;
  condition numbers of the closed form `kappa_pos`, `kappa_neg` (≤ 68 for `|x| ≥ 1.7`),
  `x_mul_exp_le`, `t_mul_exp_neg_le`; numerics on the series interval enlarged to `|x| ≤ 7/4`.
-/
set_option linter.unusedSectionVars false
set_option linter.unusedVariables false

namespace PP.Lemmas.ExpTailFP
open PP.Lemmas.Rounding PP.Lemmas.ExpTail Finset

/-! ## A. tight linearisation of the growth factor -/

theorem growth_tight {u : ℝ} (hu : 0 ≤ u) :
    ∀ k : ℕ, (k : ℝ) * u ≤ 1 / 2 → (1 + u) ^ k - 1 ≤ k * u * (1 + 2 * k * u)
  | 0, _ => by simp
  | k + 1, hk => by
    have hk0 : (0 : ℝ) ≤ k := Nat.cast_nonneg k
    have hk' : (k : ℝ) * u ≤ 1 / 2 := by push_cast at hk; nlinarith
    have ih := growth_tight hu k hk'
    have h1 : (1 + u) * ((1 + u) ^ k - 1) ≤ (1 + u) * (k * u * (1 + 2 * k * u)) :=
      mul_le_mul_of_nonneg_left ih (by linarith)
    have h2 : 2 * (k : ℝ) * ((k : ℝ) * u) * u ^ 2 ≤ 2 * k * (1 / 2) * u ^ 2 := by
      have : 0 ≤ 2 * (k : ℝ) * u ^ 2 := by positivity
      nlinarith
    push_cast
    have e1 : (1 + u) ^ (k + 1) - 1 = (1 + u) * ((1 + u) ^ k - 1) + u := by ring
    rw [e1]
    have hu2 : 0 ≤ u ^ 2 := by positivity
    nlinarith

/-- `(1+u)^k − 1 ≤ (k + 1/1000)·u` for `u ≤ 2⁻⁵³`, `k ≤ 1000` -/
theorem growth_num {u : ℝ} (hu : 0 ≤ u) (hu53 : u ≤ (2 : ℝ) ^ (-53 : ℤ)) (k : ℕ) (hk : k ≤ 1000) :
    (1 + u) ^ k - 1 ≤ ((k : ℝ) + 1 / 1000) * u := by
  have hk0 : (0 : ℝ) ≤ k := Nat.cast_nonneg k
  have hk1 : (k : ℝ) ≤ 1000 := by exact_mod_cast hk
  have h53 : (2 : ℝ) ^ (-53 : ℤ) ≤ 1 / 10 ^ 15 := by norm_num
  have hku : (k : ℝ) * u ≤ 1 / 10 ^ 12 := by
    have := mul_le_mul hk1 (hu53.trans h53) hu (by norm_num : (0:ℝ) ≤ 1000)
    norm_num at this ⊢; linarith
  have h := growth_tight hu k (by linarith)
  have : (k : ℝ) * u * (2 * k * u) ≤ 1 / 1000 * u := by
    have : 2 * (k : ℝ) * (k * u) ≤ 1 / 1000 := by nlinarith
    nlinarith
  nlinarith


/-! ## B. the counting invariant: reciprocals, quotients, literal quotients -/

variable {M : RModel ℝ} {e a A A' e₁ a₁ A₁ e₂ a₂ : ℝ} {k k₁ k₂ : ℕ}

/-- the magnitude may be over-estimated -/
theorem ct_weaken (h : CtInv M e a A k) (hA : A ≤ A') : CtInv M e a A' k :=
  ⟨h.1.trans hA, h.2.trans (mul_le_mul_of_nonneg_left hA (growth_nonneg M.hu k))⟩

/-- a non-negative literal: `A = t` (no absolute value) -/
theorem ct_lit_nonneg (M : RModel ℝ) {t : ℝ} (ht : 0 ≤ t) : CtInv M t (M.rnd t) t 1 := by
  have := CtInv.lit M t
  rwa [abs_of_nonneg ht] at this

/-- reciprocal of a quantity known to *relative* accuracy: the depth doubles -/
theorem ct_inv (h : CtInv M e a |e| k) (he : e ≠ 0) (hs : (1 + M.u) ^ k ≤ 3 / 2) :
    CtInv M e⁻¹ a⁻¹ |e|⁻¹ (2 * k) := by
  refine ⟨by rw [abs_inv], ?_⟩
  set g := (1 + M.u) ^ k - 1 with hg
  have hg0 : 0 ≤ g := growth_nonneg M.hu k
  have hg1 : g ≤ 1 / 2 := by linarith
  have hepos : 0 < |e| := abs_pos.mpr he
  have h2 := h.2
  have hlow : (1 - g) * |e| ≤ |a| := by
    have : |e| ≤ |a| + |a - e| := by
      calc |e| = |a - (a - e)| := by ring_nf
        _ ≤ |a| + |a - e| := abs_sub _ _
    linarith
  have hapos : 0 < |a| := lt_of_lt_of_le (by nlinarith) hlow
  have ha : a ≠ 0 := abs_pos.mp hapos
  have key : |a⁻¹ - e⁻¹| = |a - e| / (|a| * |e|) := by
    rw [inv_sub_inv ha he, abs_div, abs_mul, abs_sub_comm]
  have hG : (1 + M.u) ^ (2 * k) - 1 = 2 * g + g ^ 2 := by rw [pow_mul', hg]; ring
  rw [key, hG, div_le_iff₀ (mul_pos hapos hepos)]
  have e1 : (2 * g + g ^ 2) * |e|⁻¹ * (|a| * |e|) = (2 * g + g ^ 2) * |a| := by
    field_simp
  rw [e1]
  have h3 : (2 * g + g ^ 2) * ((1 - g) * |e|) ≤ (2 * g + g ^ 2) * |a| :=
    mul_le_mul_of_nonneg_left hlow (by positivity)
  have h4 : g * |e| ≤ (2 * g + g ^ 2) * ((1 - g) * |e|) := by
    have : g ≤ (2 * g + g ^ 2) * (1 - g) := by nlinarith [mul_nonneg hg0 hg0, mul_nonneg (mul_nonneg hg0 hg0) hg0]
    nlinarith
  linarith

/-- quotient by a quantity known to relative accuracy: depths `k₁ + 2k₂` -/
theorem ct_div (h₁ : CtInv M e₁ a₁ A₁ k₁) (h₂ : CtInv M e₂ a₂ |e₂| k₂) (he : e₂ ≠ 0)
    (hs : (1 + M.u) ^ k₂ ≤ 3 / 2) :
    CtInv M (e₁ / e₂) (a₁ / a₂) (A₁ / |e₂|) (k₁ + 2 * k₂) := by
  have := h₁.prod (ct_inv h₂ he hs)
  simpa only [div_eq_mul_inv] using this

/-- read a bound off the invariant, after rewriting the exact value and the magnitude -/
theorem ct_bound_of_eq {e' A' : ℝ} (h : CtInv M e a A k) (he : e = e') (hA : A = A') :
    |a - e'| ≤ ((1 + M.u) ^ k - 1) * A' := by
  subst he hA; exact h.2

theorem pow_le_three_halves (hu : M.u ≤ 1 / 100) (k : ℕ) (hk : k ≤ 4) : (1 + M.u) ^ k ≤ 3 / 2 := by
  have h0 := M.hu
  have h1 : (1 + M.u) ^ k ≤ (1 + M.u) ^ 4 := pow_le_pow_right₀ (by linarith) hk
  have h2 : (1 + M.u) ^ 4 ≤ (1 + 1 / 100 : ℝ) ^ 4 := pow_le_pow_left₀ (by linarith) (by linarith) 4
  have h3 : (1 + 1 / 100 : ℝ) ^ 4 ≤ 3 / 2 := by norm_num
  linarith

/-- a literal quotient `p / q` of two positive literals, as the rounded run computes it:
three roundings, depth 4 -/
theorem ct_litdiv (M : RModel ℝ) (hu : M.u ≤ 1 / 100) {p q : ℝ} (hp : 0 ≤ p) (hq : 0 < q) :
    CtInv M (p / q) (M.rnd (M.rnd p / M.rnd q)) (p / q) 4 := by
  have hq' : CtInv M q (M.rnd q) |q| 1 := CtInv.lit M q
  have := (ct_div (ct_lit_nonneg M hp) hq' hq.ne' (pow_le_three_halves hu 1 (by norm_num))).rnd
  rwa [abs_of_pos hq] at this

/-- `x.recip().recip()` as computed (`r` is the rounded literal `1.0`, which cancels): two roundings -/
theorem recip_recip_close (M : RModel ℝ) {r x : ℝ} (hr : r ≠ 0) (hx : x ≠ 0) :
    |M.rnd (r / M.rnd (r / x)) - x| ≤ 2 * M.u / (1 - M.u) * |x| := by
  have hu0 := M.hu
  have hu1 := M.hu1
  set q := r / x with hq
  have hq0 : q ≠ 0 := div_ne_zero hr hx
  set y := M.rnd q with hy
  have hy0 : y ≠ 0 := fun h => hq0 (M.rnd_eq_zero_iff.mp h)
  have hyq : |y - q| ≤ M.u * |q| := M.h q
  set z := r / y with hz
  have hxq : x = r / q := by rw [hq]; field_simp
  have hzx : |z - x| ≤ M.u * |z| := by
    have e1 : z - x = r * (q - y) / (y * q) := by rw [hz, hxq]; field_simp
    have e2 : |z| = |r| / |y| := by rw [hz, abs_div]
    rw [e1, e2, abs_div, abs_mul, abs_mul, abs_sub_comm q y,
      div_le_iff₀ (mul_pos (abs_pos.mpr hy0) (abs_pos.mpr hq0))]
    have hypos := abs_pos.mpr hy0
    have : M.u * (|r| / |y|) * (|y| * |q|) = |r| * (M.u * |q|) := by field_simp
    rw [this]
    exact mul_le_mul_of_nonneg_left hyq (abs_nonneg r)
  have hz1 : (1 - M.u) * |z| ≤ |x| := by
    have : |z| ≤ |x| + |z - x| := by
      calc |z| = |x + (z - x)| := by ring_nf
        _ ≤ |x| + |z - x| := abs_add_le _ _
    linarith
  have hrz : |M.rnd z - z| ≤ M.u * |z| := M.h z
  have h1u : 0 < 1 - M.u := by linarith
  have hfin : |M.rnd z - x| ≤ 2 * M.u * |z| := by
    calc |M.rnd z - x| = |(M.rnd z - z) + (z - x)| := by ring_nf
      _ ≤ |M.rnd z - z| + |z - x| := abs_add_le _ _
      _ ≤ 2 * M.u * |z| := by linarith
  have hz2 : |z| ≤ |x| / (1 - M.u) := by rw [le_div_iff₀ h1u]; linarith
  calc |M.rnd z - x| ≤ 2 * M.u * |z| := hfin
    _ ≤ 2 * M.u * (|x| / (1 - M.u)) := mul_le_mul_of_nonneg_left hz2 (by positivity)
    _ = 2 * M.u / (1 - M.u) * |x| := by ring



/-! ## C. closeness with a real growth factor -/

/-- `a` approximates `e` with relative growth factor `G` against the magnitude `A` -/
def Cl (G e a A : ℝ) : Prop := 1 ≤ G ∧ |e| ≤ A ∧ |a - e| ≤ (G - 1) * A

namespace Cl
variable {G G' G₁ G₂ G₃ e₃ a₃ A₂ A₃ : ℝ}

theorem of_ct (h : CtInv M e a A k) : Cl ((1 + M.u) ^ k) e a A :=
  ⟨one_le_pow₀ (by linarith [M.hu]), h.1, h.2⟩

theorem inp (x : ℝ) : Cl 1 x x |x| := ⟨le_refl _, le_refl _, by simp⟩

theorem A_nonneg (h : Cl G e a A) : 0 ≤ A := le_trans (abs_nonneg _) h.2.1

theorem mono (h : Cl G e a A) (hG : G ≤ G') : Cl G' e a A :=
  ⟨h.1.trans hG, h.2.1, h.2.2.trans (mul_le_mul_of_nonneg_right (by linarith) h.A_nonneg)⟩

theorem bound (h : Cl G e a A) : |a - e| ≤ (G - 1) * A := h.2.2

theorem neg (h : Cl G e a A) : Cl G (-e) (-a) A := by
  refine ⟨h.1, by rw [abs_neg]; exact h.2.1, ?_⟩
  have : -a - -e = -(a - e) := by ring
  rw [this, abs_neg]; exact h.2.2

/-- one rounding multiplies the growth factor by `1 + u` -/
theorem rnd (M : RModel ℝ) (h : Cl G e a A) : Cl (G * (1 + M.u)) e (M.rnd a) A := by
  have hu := M.hu
  refine ⟨by nlinarith [h.1], h.2.1, ?_⟩
  have := rnd_step M.hu M.h a e A (G - 1) h.2.1 h.2.2
  calc |M.rnd a - e| ≤ ((1 + (G - 1)) * (1 + M.u) - 1) * A := this
    _ = (G * (1 + M.u) - 1) * A := by ring

/-- exact product: the growth factors multiply -/
theorem prod (h₁ : Cl G₁ e₁ a₁ A₁) (h₂ : Cl G₂ e₂ a₂ A₂) :
    Cl (G₁ * G₂) (e₁ * e₂) (a₁ * a₂) (A₁ * A₂) := by
  have hx0 := h₁.A_nonneg
  have hy0 := h₂.A_nonneg
  have gx : 0 ≤ G₁ - 1 := by linarith [h₁.1]
  have gy : 0 ≤ G₂ - 1 := by linarith [h₂.1]
  refine ⟨by nlinarith [h₁.1, h₂.1], by rw [abs_mul]; exact mul_le_mul h₁.2.1 h₂.2.1 (abs_nonneg _) hx0, ?_⟩
  have e1 : a₁ * a₂ - e₁ * e₂ = e₁ * (a₂ - e₂) + e₂ * (a₁ - e₁) + (a₁ - e₁) * (a₂ - e₂) := by ring
  rw [e1]
  have b1 : |e₁ * (a₂ - e₂)| ≤ A₁ * ((G₂ - 1) * A₂) := by
    rw [abs_mul]; exact mul_le_mul h₁.2.1 h₂.2.2 (abs_nonneg _) hx0
  have b2 : |e₂ * (a₁ - e₁)| ≤ A₂ * ((G₁ - 1) * A₁) := by
    rw [abs_mul]; exact mul_le_mul h₂.2.1 h₁.2.2 (abs_nonneg _) hy0
  have b3 : |(a₁ - e₁) * (a₂ - e₂)| ≤ ((G₁ - 1) * A₁) * ((G₂ - 1) * A₂) := by
    rw [abs_mul]; exact mul_le_mul h₁.2.2 h₂.2.2 (abs_nonneg _) (mul_nonneg gx hx0)
  calc _ ≤ |e₁ * (a₂ - e₂)| + |e₂ * (a₁ - e₁)| + |(a₁ - e₁) * (a₂ - e₂)| := abs_add_three _ _ _
    _ ≤ A₁ * ((G₂ - 1) * A₂) + A₂ * ((G₁ - 1) * A₁) + ((G₁ - 1) * A₁) * ((G₂ - 1) * A₂) := by linarith
    _ = (G₁ * G₂ - 1) * (A₁ * A₂) := by ring

/-- exact sum of two quantities with the same growth factor -/
theorem sum (h₁ : Cl G e₁ a₁ A₁) (h₂ : Cl G e₂ a₂ A₂) : Cl G (e₁ + e₂) (a₁ + a₂) (A₁ + A₂) := by
  refine ⟨h₁.1, le_trans (abs_add_le _ _) (add_le_add h₁.2.1 h₂.2.1), ?_⟩
  have := add_close _ _ _ _ _ _ h₁.2.2 h₂.2.2
  calc _ ≤ _ := this
    _ = _ := by ring

/-- rounded product -/
theorem mul (M : RModel ℝ) (h₁ : Cl G₁ e₁ a₁ A₁) (h₂ : Cl G₂ e₂ a₂ A₂) :
    Cl (G₁ * G₂ * (1 + M.u)) (e₁ * e₂) (M.rnd (a₁ * a₂)) (A₁ * A₂) := (h₁.prod h₂).rnd M

/-- `fma` (one rounding): any common upper bound `G` of `G₁G₂` and `G₃` -/
theorem fma (M : RModel ℝ) (h₁ : Cl G₁ e₁ a₁ A₁) (h₂ : Cl G₂ e₂ a₂ A₂) (h₃ : Cl G₃ e₃ a₃ A₃)
    (h12 : G₁ * G₂ ≤ G) (h3 : G₃ ≤ G) :
    Cl (G * (1 + M.u)) (e₁ * e₂ + e₃) (M.rnd (a₁ * a₂ + a₃)) (A₁ * A₂ + A₃) :=
  (((h₁.prod h₂).mono h12).sum (h₃.mono h3)).rnd M

theorem bound_of_eq {e' A' : ℝ} (h : Cl G e a A) (he : e = e') (hA : A = A') :
    |a - e'| ≤ (G - 1) * A' := by
  subst he hA; exact h.2.2

end Cl

/-- `e^s − 1 ≤ s·(1 + s)` for `0 ≤ s ≤ 1` -/
theorem exp_sub_one_le {s : ℝ} (h0 : 0 ≤ s) (h1 : s ≤ 1) : Real.exp s - 1 ≤ s * (1 + s) := by
  have := Real.abs_exp_sub_one_sub_id_le (x := s) (by rw [abs_of_nonneg h0]; exact h1)
  have := (abs_le.1 this).2
  nlinarith

/-- `|e^d − 1| ≤ e^{|d|} − 1` -/
theorem abs_exp_sub_one_le_exp_abs (d : ℝ) : |Real.exp d - 1| ≤ Real.exp |d| - 1 := by
  rcases le_total 0 d with h | h
  · rw [abs_of_nonneg h, abs_of_nonneg (by linarith [Real.one_le_exp h])]
  · rw [abs_of_nonpos h, abs_of_nonpos (by linarith [Real.exp_le_one_iff.2 h])]
    have h1 := Real.add_one_le_exp d
    have h2 := Real.add_one_le_exp (-d)
    linarith

/-- the effect of the argument error of `exp` in the closed form:
`e^{2u|x|/(1−u)} − 1 ≤ 2.005·u·|x|` as long as `|x|·u ≤ 1/1000` -/
theorem sigma_le {u x : ℝ} (hu : 0 ≤ u) (hu53 : u ≤ (2 : ℝ) ^ (-53 : ℤ)) (hxu : |x| * u ≤ 1 / 1000) :
    Real.exp (2 * u / (1 - u) * |x|) - 1 ≤ 2005 / 1000 * u * |x| := by
  have h53 : (2 : ℝ) ^ (-53 : ℤ) ≤ 1 / 10 ^ 15 := by norm_num
  have hu' : u ≤ 1 / 10 ^ 15 := hu53.trans h53
  have h1u : 0 < 1 - u := by linarith
  have hx0 := abs_nonneg x
  set s := 2 * u / (1 - u) * |x| with hs
  have hs0 : 0 ≤ s := by positivity
  have hs1 : s ≤ 20001 / 10000 * (|x| * u) := by
    rw [hs, div_mul_eq_mul_div, div_le_iff₀ h1u]
    have : 0 ≤ |x| * u := mul_nonneg hx0 hu
    nlinarith
  have hs2 : s ≤ 21 / 10000 := by linarith
  have := exp_sub_one_le hs0 (by linarith)
  have h3 : s * (1 + s) ≤ s * (1 + 21 / 10000) := mul_le_mul_of_nonneg_left (by linarith) hs0
  have : 0 ≤ |x| * u := mul_nonneg hx0 hu
  nlinarith

/-! ## D. real analysis of `R` -/

noncomputable section

def P3 (x : ℝ) : ℝ := 1 + x + x ^ 2 / 2 + x ^ 3 / 6
def P5 (x : ℝ) : ℝ := 1 + x + x ^ 2 / 2 + x ^ 3 / 6 + x ^ 4 / 24 + x ^ 5 / 120
/-- `5·P4 − x·P3` -/
def Q4 (x : ℝ) : ℝ := 5 + 4 * x + 3 * x ^ 2 / 2 + x ^ 3 / 3 + x ^ 4 / 24

theorem hasDerivAt_P4 (x : ℝ) : HasDerivAt P4 (P3 x) x := by
  have h1 := hasDerivAt_id' x
  have := ((((hasDerivAt_const x (1:ℝ)).fun_add h1).fun_add ((h1.fun_pow 2).div_const 2)).fun_add
    ((h1.fun_pow 3).div_const 6)).fun_add ((h1.fun_pow 4).div_const 24)
  have key : HasDerivAt P4 _ x := this
  exact key.congr_deriv (by simp only [P3]; norm_num; ring)

theorem hasDerivAt_P5 (x : ℝ) : HasDerivAt P5 (P4 x) x := by
  have h1 := hasDerivAt_id' x
  have := (((((hasDerivAt_const x (1:ℝ)).fun_add h1).fun_add ((h1.fun_pow 2).div_const 2)).fun_add
    ((h1.fun_pow 3).div_const 6)).fun_add ((h1.fun_pow 4).div_const 24)).fun_add ((h1.fun_pow 5).div_const 120)
  have key : HasDerivAt P5 _ x := this
  exact key.congr_deriv (by simp only [P4]; norm_num; ring)

theorem hasDerivAt_Q4 (x : ℝ) : HasDerivAt Q4 (4 + 3 * x + x ^ 2 + x ^ 3 / 6) x := by
  have h1 := hasDerivAt_id' x
  have := ((((hasDerivAt_const x (5:ℝ)).fun_add (h1.const_mul 4)).fun_add
    (((h1.fun_pow 2).const_mul 3).div_const 2)).fun_add
    ((h1.fun_pow 3).div_const 3)).fun_add ((h1.fun_pow 4).div_const 24)
  have key : HasDerivAt Q4 _ x := this
  exact key.congr_deriv (by norm_num; ring)

theorem hasDerivAt_exp_neg (x : ℝ) : HasDerivAt (fun ξ => Real.exp (-ξ)) (-Real.exp (-x)) x := by
  have := (hasDerivAt_id' x).fun_neg.exp
  exact this.congr_deriv (by ring)

/-- generic: sign of the derivative gives monotonicity -/
theorem monoOn_of_hasDerivAt {f f' : ℝ → ℝ} {s : Set ℝ} (hs : Convex ℝ s)
    (hd : ∀ x ∈ s, HasDerivAt f (f' x) x) (hpos : ∀ x ∈ s, 0 ≤ f' x) : MonotoneOn f s :=
  monotoneOn_of_deriv_nonneg hs (fun x hx => (hd x hx).continuousAt.continuousWithinAt)
    (fun x hx => (hd x (interior_subset hx)).differentiableAt.differentiableWithinAt)
    (fun x hx => by rw [(hd x (interior_subset hx)).deriv]; exact hpos x (interior_subset hx))

theorem antiOn_of_hasDerivAt {f f' : ℝ → ℝ} {s : Set ℝ} (hs : Convex ℝ s)
    (hd : ∀ x ∈ s, HasDerivAt f (f' x) x) (hneg : ∀ x ∈ s, f' x ≤ 0) : AntitoneOn f s :=
  antitoneOn_of_deriv_nonpos hs (fun x hx => (hd x hx).continuousAt.continuousWithinAt)
    (fun x hx => (hd x (interior_subset hx)).differentiableAt.differentiableWithinAt)
    (fun x hx => by rw [(hd x (interior_subset hx)).deriv]; exact hneg x (interior_subset hx))

theorem exp_neg_mul_exp (x : ℝ) : Real.exp (-x) * Real.exp x = 1 := by
  rw [← Real.exp_add]; simp

/-- `P4(ξ)·e^{−ξ}` is decreasing on ℝ -/
theorem P4_mul_exp_neg_antitone : Antitone (fun ξ => P4 ξ * Real.exp (-ξ)) := by
  have hd : ∀ x ∈ (Set.univ : Set ℝ), HasDerivAt (fun ξ => P4 ξ * Real.exp (-ξ))
      (-(x ^ 4 / 24 * Real.exp (-x))) x := by
    intro x _
    have := (hasDerivAt_P4 x).fun_mul (hasDerivAt_exp_neg x)
    exact this.congr_deriv (by simp only [P3, P4]; ring)
  have := antiOn_of_hasDerivAt convex_univ hd (fun x _ => by
    have : 0 ≤ x ^ 4 / 24 * Real.exp (-x) := by positivity
    linarith)
  exact antitoneOn_univ.mp this

theorem P4_mul_exp_neg_le_one {x : ℝ} (hx : 0 ≤ x) : P4 x * Real.exp (-x) ≤ 1 := by
  have := P4_mul_exp_neg_antitone hx
  simpa [P4] using this

theorem one_le_P4_mul_exp_neg {x : ℝ} (hx : x ≤ 0) : 1 ≤ P4 x * Real.exp (-x) := by
  have := P4_mul_exp_neg_antitone hx
  simpa [P4] using this

/-- `e^x − P4(x)` has the sign of `x` -/
theorem P4_le_exp {x : ℝ} (hx : 0 ≤ x) : P4 x ≤ Real.exp x := by
  have h2 := P4_mul_exp_neg_le_one hx
  have he := Real.exp_pos x
  calc P4 x = P4 x * (Real.exp (-x) * Real.exp x) := by rw [exp_neg_mul_exp, mul_one]
    _ = P4 x * Real.exp (-x) * Real.exp x := by ring
    _ ≤ 1 * Real.exp x := mul_le_mul_of_nonneg_right h2 he.le
    _ = _ := one_mul _

theorem exp_le_P4 {x : ℝ} (hx : x ≤ 0) : Real.exp x ≤ P4 x := by
  have h2 := one_le_P4_mul_exp_neg hx
  have he := Real.exp_pos x
  calc Real.exp x = 1 * Real.exp x := (one_mul _).symm
    _ ≤ P4 x * Real.exp (-x) * Real.exp x := mul_le_mul_of_nonneg_right h2 he.le
    _ = P4 x * (Real.exp (-x) * Real.exp x) := by ring
    _ = P4 x := by rw [exp_neg_mul_exp, mul_one]

/-- the odd-degree Taylor polynomial `P5` is below `exp` on all of ℝ -/
theorem P5_le_exp (x : ℝ) : P5 x ≤ Real.exp x := by
  have hd : ∀ x : ℝ, HasDerivAt (fun ξ => P5 ξ * Real.exp (-ξ)) (-(x ^ 5 / 120 * Real.exp (-x))) x := by
    intro x
    have := (hasDerivAt_P5 x).fun_mul (hasDerivAt_exp_neg x)
    exact this.congr_deriv (by simp only [P5, P4]; ring)
  have h1 : P5 x * Real.exp (-x) ≤ 1 := by
    rcases le_total 0 x with hx | hx
    · have := antiOn_of_hasDerivAt (convex_Ici 0) (fun y _ => hd y) (fun y (hy : 0 ≤ y) => by
        have : 0 ≤ y ^ 5 / 120 * Real.exp (-y) := by positivity
        linarith) (Set.mem_Ici.2 le_rfl) (Set.mem_Ici.2 hx) hx
      simpa [P5] using this
    · have := monoOn_of_hasDerivAt (convex_Iic 0) (fun y _ => hd y) (fun y (hy : y ≤ 0) => by
        have h5 : y ^ 5 ≤ 0 := by
          have : y ^ 5 = y * (y ^ 2) ^ 2 := by ring
          rw [this]; exact mul_nonpos_of_nonpos_of_nonneg hy (by positivity)
        have : y ^ 5 / 120 * Real.exp (-y) ≤ 0 :=
          mul_nonpos_of_nonpos_of_nonneg (by linarith) (Real.exp_pos _).le
        linarith) (Set.mem_Iic.2 hx) (Set.mem_Iic.2 le_rfl) hx
      simpa [P5] using this
  have he := Real.exp_pos x
  calc P5 x = P5 x * (Real.exp (-x) * Real.exp x) := by rw [exp_neg_mul_exp, mul_one]
    _ = P5 x * Real.exp (-x) * Real.exp x := by ring
    _ ≤ 1 * Real.exp x := mul_le_mul_of_nonneg_right h1 he.le
    _ = _ := one_mul _

/-- `x·(eˣ − P3) − 5·(eˣ − P4) = (x−5)eˣ + Q4(x) ≥ 0` on ℝ: the numerator of `R'` -/
theorem N_nonneg (x : ℝ) : 0 ≤ (x - 5) * Real.exp x + Q4 x := by
  have hd : ∀ x : ℝ, HasDerivAt (fun ξ => (ξ - 5) + Q4 ξ * Real.exp (-ξ)) (1 - P4 x * Real.exp (-x)) x := by
    intro x
    have := ((hasDerivAt_id' x).sub_const 5).fun_add ((hasDerivAt_Q4 x).fun_mul (hasDerivAt_exp_neg x))
    exact this.congr_deriv (by simp only [Q4, P4]; ring)
  have h1 : 0 ≤ (x - 5) + Q4 x * Real.exp (-x) := by
    rcases le_total 0 x with hx | hx
    · have := monoOn_of_hasDerivAt (convex_Ici 0) (fun y _ => hd y) (fun y (hy : 0 ≤ y) => by
        have := P4_mul_exp_neg_le_one hy; linarith) (Set.mem_Ici.2 le_rfl) (Set.mem_Ici.2 hx) hx
      simpa [Q4] using this
    · have := antiOn_of_hasDerivAt (convex_Iic 0) (fun y _ => hd y) (fun y (hy : y ≤ 0) => by
        have := one_le_P4_mul_exp_neg hy; linarith) (Set.mem_Iic.2 hx) (Set.mem_Iic.2 le_rfl) hx
      simpa [Q4] using this
  have he := Real.exp_pos x
  have : (x - 5) * Real.exp x + Q4 x = ((x - 5) + Q4 x * Real.exp (-x)) * Real.exp x := by
    have := exp_neg_mul_exp x
    calc (x - 5) * Real.exp x + Q4 x = (x - 5) * Real.exp x + Q4 x * (Real.exp (-x) * Real.exp x) := by
          rw [this, mul_one]
      _ = _ := by ring
  rw [this]; exact mul_nonneg h1 he.le

/-! ### monotonicity of `R` and of `R·e^{−x}` on each of the two rays -/

theorem hasDerivAt_expP4_div (x : ℝ) (hx : x ≠ 0) :
    HasDerivAt (fun ξ => (Real.exp ξ - P4 ξ) / ξ ^ 5)
      (((Real.exp x - P3 x) * x ^ 5 - (Real.exp x - P4 x) * (5 * x ^ 4)) / (x ^ 5) ^ 2) x := by
  have h1 := ((Real.hasDerivAt_exp x).fun_sub (hasDerivAt_P4 x)).fun_div ((hasDerivAt_id' x).fun_pow 5)
    (pow_ne_zero 5 hx)
  exact h1.congr_deriv (by norm_num)

/-- `R` restricted to a ray is the closed form, whose derivative is `x⁴·N(x)/x¹⁰ ≥ 0` -/
theorem R_monoOn_of_ne {s : Set ℝ} (hs : Convex ℝ s) (h0 : ∀ x ∈ s, x ≠ 0) : MonotoneOn R s := by
  have hr : MonotoneOn (fun ξ => (Real.exp ξ - P4 ξ) / ξ ^ 5) s :=
    monoOn_of_hasDerivAt hs (fun x hx => hasDerivAt_expP4_div x (h0 x hx)) (fun x hx => by
      have hN := N_nonneg x
      have hx0 := h0 x hx
      have e1 : (Real.exp x - P3 x) * x ^ 5 - (Real.exp x - P4 x) * (5 * x ^ 4)
          = x ^ 4 * ((x - 5) * Real.exp x + Q4 x) := by simp only [P3, P4, Q4]; ring
      rw [e1]
      exact div_nonneg (mul_nonneg (by positivity) hN) (by positivity))
  intro a ha b hb hab
  rw [R_of_ne (h0 a ha), R_of_ne (h0 b hb)]
  exact hr ha hb hab

theorem R_exp_neg_antiOn_of_ne {s : Set ℝ} (hs : Convex ℝ s) (h0 : ∀ x ∈ s, x ≠ 0) :
    AntitoneOn (fun ξ => R ξ * Real.exp (-ξ)) s := by
  have hr : AntitoneOn (fun ξ => (Real.exp ξ - P4 ξ) / ξ ^ 5 * Real.exp (-ξ)) s :=
    antiOn_of_hasDerivAt hs (fun x hx => (hasDerivAt_expP4_div x (h0 x hx)).fun_mul (hasDerivAt_exp_neg x))
      (fun x hx => by
        have hx0 := h0 x hx
        have h5 := P5_le_exp x
        have e1 : ((Real.exp x - P3 x) * x ^ 5 - (Real.exp x - P4 x) * (5 * x ^ 4)) / (x ^ 5) ^ 2
              * Real.exp (-x) + (Real.exp x - P4 x) / x ^ 5 * -Real.exp (-x)
            = -(5 * (Real.exp x - P5 x) * Real.exp (-x) / x ^ 6) := by
          simp only [P3, P4, P5]; field_simp; ring
        rw [e1]
        have : 0 ≤ 5 * (Real.exp x - P5 x) * Real.exp (-x) / x ^ 6 :=
          div_nonneg (mul_nonneg (by linarith) (Real.exp_pos _).le) (by positivity)
        linarith)
  intro a ha b hb hab
  show R b * Real.exp (-b) ≤ R a * Real.exp (-a)
  rw [R_of_ne (h0 a ha), R_of_ne (h0 b hb)]
  exact hr ha hb hab

/-- `R ≥ 0` everywhere -/
theorem R_nonneg (x : ℝ) : 0 ≤ R x := by
  rcases lt_trichotomy x 0 with h | h | h
  · rw [R_of_ne h.ne]
    have h5 : x ^ 5 ≤ 0 := by
      have : x ^ 5 = x * (x ^ 2) ^ 2 := by ring
      rw [this]; exact mul_nonpos_of_nonpos_of_nonneg h.le (by positivity)
    exact div_nonneg_of_nonpos (by linarith [exp_le_P4 h.le]) h5
  · rw [h, R_zero]; norm_num
  · rw [R_of_ne h.ne']
    exact div_nonneg (by linarith [P4_le_exp h.le]) (by positivity)

/-- for `a ≤ b` on the same side of 0: `R a ≤ R b ≤ e^{b−a}·R a` -/
theorem R_between {a b : ℝ} (hab : a ≤ b) (hsame : 0 < a * b) :
    R a ≤ R b ∧ R b ≤ Real.exp (b - a) * R a := by
  have key : ∀ s : Set ℝ, Convex ℝ s → (∀ x ∈ s, x ≠ 0) → a ∈ s → b ∈ s →
      R a ≤ R b ∧ R b ≤ Real.exp (b - a) * R a := by
    intro s hs h0 ha hb
    refine ⟨R_monoOn_of_ne hs h0 ha hb hab, ?_⟩
    have h2 : R b * Real.exp (-b) ≤ R a * Real.exp (-a) := R_exp_neg_antiOn_of_ne hs h0 ha hb hab
    have hb' := Real.exp_pos b
    calc R b = R b * (Real.exp (-b) * Real.exp b) := by rw [exp_neg_mul_exp, mul_one]
      _ = R b * Real.exp (-b) * Real.exp b := by ring
      _ ≤ R a * Real.exp (-a) * Real.exp b := mul_le_mul_of_nonneg_right h2 hb'.le
      _ = Real.exp (b - a) * R a := by
          rw [show b - a = -a + b by ring, Real.exp_add]; ring
  rcases lt_or_gt_of_ne (show a ≠ 0 by rintro rfl; simp at hsame) with ha | ha
  · have hb : b < 0 := by
      by_contra hb; push Not at hb
      nlinarith [mul_nonpos_of_nonpos_of_nonneg ha.le hb]
    exact key (Set.Iio 0) (convex_Iio 0) (fun x hx => (Set.mem_Iio.1 hx).ne) ha hb
  · have hb : 0 < b := lt_of_lt_of_le ha hab
    exact key (Set.Ioi 0) (convex_Ioi 0) (fun x hx => (Set.mem_Ioi.1 hx).ne') ha hb

/-- **sensitivity of `R`**: on each side of 0, `|R x − R X| ≤ (e^{|x−X|} − 1)·R X` -/
theorem R_sub_le {x X : ℝ} (hsame : 0 < x * X) :
    |R x - R X| ≤ (Real.exp |x - X| - 1) * R X := by
  rcases le_total X x with h | h
  · obtain ⟨h1, h2⟩ := R_between h (by rwa [mul_comm])
    rw [abs_of_nonneg (by linarith), abs_of_nonneg (by linarith)]
    linarith
  · obtain ⟨h1, h2⟩ := R_between h hsame
    rw [abs_of_nonpos (by linarith), abs_of_nonpos (by linarith)]
    have hd : 0 ≤ X - x := by linarith
    have hRx := R_nonneg x
    have e1 : -(x - X) = X - x := by ring
    rw [e1]
    -- R X ≤ e^d R x, so R X − R x ≤ (e^d − 1) R x ≤ (e^d − 1) R X
    have hE : 1 ≤ Real.exp (X - x) := Real.one_le_exp hd
    have : (Real.exp (X - x) - 1) * R x ≤ (Real.exp (X - x) - 1) * R X :=
      mul_le_mul_of_nonneg_left h1 (by linarith)
    linarith


/-- ten terms of the exponential series -/
theorem P9_le_exp {x : ℝ} (hx : 0 ≤ x) :
    P4 x + (x ^ 5 / 120 + x ^ 6 / 720 + x ^ 7 / 5040 + x ^ 8 / 40320 + x ^ 9 / 362880) ≤ Real.exp x := by
  have hb := Real.sum_le_exp_of_nonneg hx 10
  have : ∑ m ∈ range 10, x ^ m / (m.factorial : ℝ)
      = P4 x + (x ^ 5 / 120 + x ^ 6 / 720 + x ^ 7 / 5040 + x ^ 8 / 40320 + x ^ 9 / 362880) := by
    simp only [P4, sum_range_succ, sum_range_zero, Nat.factorial]
    norm_num
    ring
  linarith

/-- **condition number of the closed form, positive side**: `(eˣ + P4 x)/(eˣ − P4 x) ≤ 68` for `x ≥ 1.7` -/
theorem kappa_pos {x : ℝ} (hx : 17 / 10 ≤ x) :
    Real.exp x + P4 x ≤ 68 * (Real.exp x - P4 x) := by
  have h9 := P9_le_exp (x := x) (by linarith)
  have hp : 2 * P4 x ≤ 67 * (x ^ 5 / 120 + x ^ 6 / 720 + x ^ 7 / 5040 + x ^ 8 / 40320 + x ^ 9 / 362880) := by
    obtain ⟨s, hs, rfl⟩ : ∃ s : ℝ, 0 ≤ s ∧ x = 17 / 10 + s := ⟨x - 17 / 10, by linarith, by ring⟩
    rw [← sub_nonneg]
    simp only [P4]
    ring_nf
    positivity
  linarith

/-- `x·eˣ ≤ (x + 58)(eˣ − P4 x)` for `x ≥ 1.7` (the effect of the argument error of `exp`) -/
theorem x_mul_exp_le {x : ℝ} (hx : 17 / 10 ≤ x) :
    x * Real.exp x ≤ (x + 58) * (Real.exp x - P4 x) := by
  have h9 := P9_le_exp (x := x) (by linarith)
  have hp : x * P4 x ≤ 58 * (x ^ 5 / 120 + x ^ 6 / 720 + x ^ 7 / 5040 + x ^ 8 / 40320 + x ^ 9 / 362880) := by
    obtain ⟨s, hs, rfl⟩ : ∃ s : ℝ, 0 ≤ s ∧ x = 17 / 10 + s := ⟨x - 17 / 10, by linarith, by ring⟩
    rw [← sub_nonneg]
    simp only [P4]
    ring_nf
    positivity
  nlinarith

/-- **condition number of the closed form, negative side**:
`(e^{−t} + P4 t)/(P4(−t) − e^{−t}) ≤ 68` for `t ≥ 1.7` -/
theorem kappa_neg {t : ℝ} (ht : 17 / 10 ≤ t) :
    Real.exp (-t) + P4 t ≤ 68 * (P4 (-t) - Real.exp (-t)) := by
  have h4 := P4_le_exp (x := t) (by linarith)
  have hP : 0 < P4 t := by simp only [P4]; positivity
  have hp : 69 ≤ (68 * P4 (-t) - P4 t) * P4 t := by
    obtain ⟨s, hs, rfl⟩ : ∃ s : ℝ, 0 ≤ s ∧ t = 17 / 10 + s := ⟨t - 17 / 10, by linarith, by ring⟩
    rw [← sub_nonneg]
    simp only [P4]
    ring_nf
    positivity
  have hq : 0 ≤ 68 * P4 (-t) - P4 t := by
    by_contra h; push Not at h
    nlinarith
  have he := exp_neg_mul_exp t
  have hen := Real.exp_pos (-t)
  -- 69 e^{-t} ≤ (68 P4(-t) - P4 t) P4 t e^{-t} ≤ (68 P4(-t) - P4 t) e^t e^{-t}
  have h1 : P4 t * Real.exp (-t) ≤ 1 := by
    calc P4 t * Real.exp (-t) ≤ Real.exp t * Real.exp (-t) := mul_le_mul_of_nonneg_right h4 hen.le
      _ = 1 := by rw [mul_comm]; exact he
  have h2 : 69 * Real.exp (-t) ≤ (68 * P4 (-t) - P4 t) * P4 t * Real.exp (-t) :=
    mul_le_mul_of_nonneg_right hp hen.le
  have h3 : (68 * P4 (-t) - P4 t) * (P4 t * Real.exp (-t)) ≤ (68 * P4 (-t) - P4 t) * 1 :=
    mul_le_mul_of_nonneg_left h1 hq
  nlinarith

/-- `t·e^{−t} ≤ 5·(P4(−t) − e^{−t})` for `t ≥ 1.7` -/
theorem t_mul_exp_neg_le {t : ℝ} (ht : 17 / 10 ≤ t) :
    t * Real.exp (-t) ≤ 5 * (P4 (-t) - Real.exp (-t)) := by
  have h4 := P4_le_exp (x := t) (by linarith)
  have hP : 0 < P4 t := by simp only [P4]; positivity
  have hp : t + 5 ≤ 5 * P4 (-t) * P4 t := by
    obtain ⟨s, hs, rfl⟩ : ∃ s : ℝ, 0 ≤ s ∧ t = 17 / 10 + s := ⟨t - 17 / 10, by linarith, by ring⟩
    rw [← sub_nonneg]
    simp only [P4]
    ring_nf
    positivity
  have hq : 0 ≤ 5 * P4 (-t) := by
    by_contra h; push Not at h
    nlinarith
  have he := exp_neg_mul_exp t
  have hen := Real.exp_pos (-t)
  have h1 : P4 t * Real.exp (-t) ≤ 1 := by
    calc P4 t * Real.exp (-t) ≤ Real.exp t * Real.exp (-t) := mul_le_mul_of_nonneg_right h4 hen.le
      _ = 1 := by rw [mul_comm]; exact he
  have h2 : (t + 5) * Real.exp (-t) ≤ 5 * P4 (-t) * P4 t * Real.exp (-t) :=
    mul_le_mul_of_nonneg_right hp hen.le
  have h3 : 5 * P4 (-t) * (P4 t * Real.exp (-t)) ≤ 5 * P4 (-t) * 1 :=
    mul_le_mul_of_nonneg_left h1 hq
  nlinarith


/-! ### numerics on the series interval, enlarged to `|x| ≤ 7/4` (the rounded thresholds lie inside) -/

theorem abs_R_sub_S16_le_74 {x : ℝ} (hx : |x| ≤ 7 / 4) : |R x - S16 x| ≤ 31 / 10 ^ 17 := by
  refine (abs_R_sub_S16_le (by linarith)).trans ?_
  have : |x| ^ 16 ≤ (7 / 4 : ℝ) ^ 16 := pow_le_pow_left₀ (abs_nonneg x) hx 16
  calc 2 * |x| ^ 16 / 51090942171709440000
      ≤ 2 * (7 / 4 : ℝ) ^ 16 / 51090942171709440000 := by gcongr
    _ ≤ 31 / 10 ^ 17 := by norm_num

theorem R_ge_74 {x : ℝ} (hx : |x| ≤ 7 / 4) : 59 / 10000 ≤ R x := by
  have h1 := abs_R_sub_S16_le_74 hx
  have h2 := S16_ge (x := x) (by have := neg_abs_le x; linarith)
  have h3 := (abs_le.1 h1).1
  have h4 := neg_abs_le x
  norm_num at h3 ⊢
  linarith

theorem S16_mono {a b : ℝ} (ha : 0 ≤ a) (hab : a ≤ b) : S16 a ≤ S16 b := by
  unfold S16
  exact sum_le_sum fun m _ => div_le_div_of_nonneg_right (pow_le_pow_left₀ ha hab m) (by positivity)

theorem S16_abs_le_74 {x : ℝ} (hx : |x| ≤ 7 / 4) : S16 |x| ≤ 116 / 10000 := by
  refine (S16_mono (abs_nonneg x) hx).trans ?_
  rw [S16_eq]; norm_num

/-- `S16|x| ≤ (116/59)·R x` on the series interval -/
theorem S16_abs_le_R {x : ℝ} (hx : |x| ≤ 7 / 4) : S16 |x| ≤ 116 / 59 * R x := by
  have h1 := S16_abs_le_74 hx
  have h2 := R_ge_74 hx
  linarith

/-- relative truncation error on `|x| ≤ 7/4` -/
theorem abs_R_sub_S16_le_rel_74 {x : ℝ} (hx : |x| ≤ 7 / 4) : |R x - S16 x| ≤ 6 / 10 ^ 14 * R x := by
  have h1 := abs_R_sub_S16_le_74 hx
  have h2 := R_ge_74 hx
  norm_num at h1 h2 ⊢
  linarith

end
end PP.Lemmas.ExpTailFP


