import PP.Sem.Rounded
import PP.Lemmas.LinInt
import PP.Model.Linear.FnsAttr
import PP.Model.Poly.EvaluateAttr
import PP.Model.Poly.CalculusAttr
/-!
# Helper lemmas for the floating-point part of C06 (`PP/Props/C06Bound.lean`)

Everything is over an arbitrary linearly ordered field `K` and an arbitrary rounding model `M : RModel K`
(`PP/Sem/Rounded.lean`: every operation is `rnd (exact result)`, `|rnd t − t| ≤ u·|t|`).

* **A** growth factors: `growth_tight`, `growth_num` (`(1+u)^k − 1 ≤ (k + 1/1000)·u` for `u ≤ 2⁻⁵³`, `k ≤ 1000`),
  `rho_num` (`(1+u)²/(1−u) − 1 ≤ (3 + 1/1000)·u`) — the field-generic versions of `PP/Lemmas/ExpTailFP.lean` §A.
* **B** one-rounding lemmas: `rnd_eval_close` (`|rnd w − y| ≤ (1+u)|w − y| + u|y|`).
* **C** the three pieces of `Linear.segment` *as real-number expressions*:
  `tail_left` (the intercept `a₀ = rnd (0 + rnd (y₀ − rnd (pv·x₀ + 0)))` puts the line through the left knot up to
  `g₂|y₀| + g₃|pv·x₀|`, **for any slope `pv`**), `slope_close` (the slope `rnd (rnd Δy / rnd Δx)` is within
  `ρ = (1+u)²/(1−u) − 1` of `Δy/Δx`), `line_close` (the computed line against the exact line at any `x`), `chord_conv`.
* **D** the generated code: `segR M k0 k1` is the *generated* `Linear.segment` run in `Rounded M`; `segR_a1`, `segR_a0`,
  `segR_end`, `segR_eval` read its three numbers and its rounded evaluation off the generated definitions
  (`rfl` after the branch).
* **E** `Hand.linear` in `Rounded M`: `max` is exact, so non-decreasing abscissae are not forced
  (`forced_of_chain_rounded`), and segment `i` is `segR` of knots `i`, `i+1` (`linear_rounded_getElem`).
-/
set_option linter.unusedSectionVars false
set_option linter.unusedVariables false

namespace PP.Lemmas.LinearFP
open PP.Lemmas.Rounding PP.Lemmas.LinInt

variable {K : Type} [Field K] [LinearOrder K] [IsStrictOrderedRing K]

/-! ## A. growth factors, numerically -/

theorem growth_tight {u : K} (hu : 0 ≤ u) :
    ∀ k : ℕ, (k : K) * u ≤ 1 / 2 → (1 + u) ^ k - 1 ≤ k * u * (1 + 2 * k * u)
  | 0, _ => by simp
  | k + 1, hk => by
    have hk0 : (0 : K) ≤ k := Nat.cast_nonneg k
    have hk' : (k : K) * u ≤ 1 / 2 := by push_cast at hk; nlinarith
    have ih := growth_tight hu k hk'
    have h1 : (1 + u) * ((1 + u) ^ k - 1) ≤ (1 + u) * (k * u * (1 + 2 * k * u)) :=
      mul_le_mul_of_nonneg_left ih (by linarith)
    have h2 : 2 * (k : K) * ((k : K) * u) * u ^ 2 ≤ 2 * k * (1 / 2) * u ^ 2 := by
      have : 0 ≤ 2 * (k : K) * u ^ 2 := by positivity
      nlinarith
    push_cast
    have e1 : (1 + u) ^ (k + 1) - 1 = (1 + u) * ((1 + u) ^ k - 1) + u := by ring
    rw [e1]
    have hu2 : 0 ≤ u ^ 2 := by positivity
    nlinarith

theorem u53_le : (2 : K) ^ (-53 : ℤ) ≤ 1 / 10 ^ 15 := by norm_num

/-- `(1+u)^k − 1 ≤ (k + 1/1000)·u` for `u ≤ 2⁻⁵³`, `k ≤ 1000` -/
theorem growth_num {u : K} (hu : 0 ≤ u) (hu53 : u ≤ (2 : K) ^ (-53 : ℤ)) (k : ℕ) (hk : k ≤ 1000) :
    (1 + u) ^ k - 1 ≤ ((k : K) + 1 / 1000) * u := by
  have hk0 : (0 : K) ≤ k := Nat.cast_nonneg k
  have hk1 : (k : K) ≤ 1000 := by exact_mod_cast hk
  have hku : (k : K) * u ≤ 1 / 10 ^ 12 := by
    have := mul_le_mul hk1 (hu53.trans u53_le) hu (by norm_num : (0:K) ≤ 1000)
    norm_num at this ⊢; linarith
  have h := growth_tight hu k (by linarith)
  have : (k : K) * u * (2 * k * u) ≤ 1 / 1000 * u := by
    have : 2 * (k : K) * (k * u) ≤ 1 / 1000 := by nlinarith
    nlinarith
  nlinarith

/-- the relative error factor of `rnd (rnd p / rnd q)`: `ρ = (1+u)²/(1−u) − 1 = (3u + u²)/(1−u)` -/
def rho (u : K) : K := (3 * u + u ^ 2) / (1 - u)

theorem rho_nonneg {u : K} (hu : 0 ≤ u) (hu1 : u < 1) : 0 ≤ rho u :=
  div_nonneg (by positivity) (by linarith)

theorem rho_num {u : K} (hu : 0 ≤ u) (hu53 : u ≤ (2 : K) ^ (-53 : ℤ)) : rho u ≤ (3 + 1 / 1000) * u := by
  have hu' := hu53.trans u53_le
  have h1 : 0 < 1 - u := by linarith
  rw [rho, div_le_iff₀ h1]
  nlinarith

/-! ## B. one rounding -/

variable (M : RModel K)

/-- rounding a quantity `w` that is close to `y` -/
theorem rnd_eval_close (w y : K) : |M.rnd w - y| ≤ (1 + M.u) * |w - y| + M.u * |y| := by
  have h := rnd_close M.hu M.h y w |w - y| le_rfl
  have := M.hu
  have := abs_nonneg (w - y)
  linarith

/-! ## C. the pieces of `Linear.segment`, as expressions -/

/-- **the intercept**: whatever the slope `pv`, the line `a₀ + pv·x` with
`a₀ = rnd (rnd (y₀ − rnd (pv·x₀)))` (the two outer roundings are `y₀ − …` and the `+=` of `translate`)
passes through `(x₀, y₀)` up to `g₂·|y₀| + g₃·|pv·x₀|`, `g_k = (1+u)^k − 1`. -/
theorem tail_left (pv x0 y0 : K) :
    |M.rnd (M.rnd (y0 - M.rnd (pv * x0))) + pv * x0 - y0|
      ≤ ((1 + M.u) ^ 2 - 1) * |y0| + ((1 + M.u) ^ 3 - 1) * |pv * x0| := by
  have hu := M.hu
  set p := pv * x0 with hp
  set ph := M.rnd p with hph
  set t := y0 - ph with ht
  set th := M.rnd t with hth
  have h1 : |ph - p| ≤ M.u * |p| := M.h p
  have h2 : |th - t| ≤ M.u * |t| := M.h t
  have h3 : |M.rnd th - th| ≤ M.u * |th| := M.h th
  have hph' : |ph| ≤ (1 + M.u) * |p| := M.abs_rnd_le p
  have hth' : |th| ≤ (1 + M.u) * |t| := M.abs_rnd_le t
  have ht' : |t| ≤ |y0| + (1 + M.u) * |p| := by
    calc |t| ≤ |y0| + |ph| := abs_sub _ _
      _ ≤ _ := by linarith
  have e : M.rnd th + p - y0 = (M.rnd th - th) + (th - t) + (p - ph) := by rw [ht]; ring
  have h1' : |p - ph| ≤ M.u * |p| := by rw [abs_sub_comm]; exact h1
  have a0 := abs_nonneg p
  have a1 := abs_nonneg y0
  have a2 := abs_nonneg t
  have m1 : M.u * |th| ≤ M.u * ((1 + M.u) * |t|) := mul_le_mul_of_nonneg_left hth' hu
  have m2 : (2 * M.u + M.u ^ 2) * |t| ≤ (2 * M.u + M.u ^ 2) * (|y0| + (1 + M.u) * |p|) :=
    mul_le_mul_of_nonneg_left ht' (by positivity)
  calc |M.rnd th + p - y0| = |(M.rnd th - th) + (th - t) + (p - ph)| := by rw [e]
    _ ≤ |M.rnd th - th| + |th - t| + |p - ph| := abs_add_three _ _ _
    _ ≤ (2 * M.u + M.u ^ 2) * |t| + M.u * |p| := by nlinarith
    _ ≤ (2 * M.u + M.u ^ 2) * (|y0| + (1 + M.u) * |p|) + M.u * |p| := by linarith
    _ = ((1 + M.u) ^ 2 - 1) * |y0| + ((1 + M.u) ^ 3 - 1) * |p| := by ring

/-- **the slope**: `rnd (rnd Δy / rnd Δx)` is within `ρ·|Δy/Δx|` of `Δy/Δx` (`Δx ≠ 0`) -/
theorem slope_close (dy dx : K) (hdx : dx ≠ 0) :
    |M.rnd (M.rnd dy / M.rnd dx) - dy / dx| ≤ rho M.u * |dy / dx| := by
  have hu := M.hu
  have hu1 := M.hu1
  have h1u : 0 < 1 - M.u := by linarith
  set n := M.rnd dy with hn
  set d := M.rnd dx with hd
  have hn' : |n - dy| ≤ M.u * |dy| := M.h dy
  have hd' : |d - dx| ≤ M.u * |dx| := M.h dx
  have hd0 : d ≠ 0 := fun h => hdx (M.rnd_eq_zero_iff.mp h)
  have hdxpos : 0 < |dx| := abs_pos.mpr hdx
  have hdpos : 0 < |d| := abs_pos.mpr hd0
  have hdlow : (1 - M.u) * |dx| ≤ |d| := by
    have : |dx| ≤ |d| + |d - dx| := by
      calc |dx| = |d - (d - dx)| := by ring_nf
        _ ≤ |d| + |d - dx| := abs_sub _ _
    linarith
  -- the un-rounded quotient
  have hq : |n / d - dy / dx| ≤ 2 * M.u / (1 - M.u) * |dy / dx| := by
    have key : n / d - dy / dx = ((n - dy) * dx - dy * (d - dx)) / (d * dx) := by
      field_simp; ring
    rw [key, abs_div, abs_mul, abs_div, div_le_iff₀ (mul_pos hdpos hdxpos)]
    have hnum : |(n - dy) * dx - dy * (d - dx)| ≤ 2 * M.u * (|dy| * |dx|) := by
      calc |(n - dy) * dx - dy * (d - dx)| ≤ |(n - dy) * dx| + |dy * (d - dx)| := abs_sub _ _
        _ = |n - dy| * |dx| + |dy| * |d - dx| := by rw [abs_mul, abs_mul]
        _ ≤ M.u * |dy| * |dx| + |dy| * (M.u * |dx|) := by
            have := mul_le_mul_of_nonneg_right hn' (abs_nonneg dx)
            have := mul_le_mul_of_nonneg_left hd' (abs_nonneg dy)
            linarith
        _ = _ := by ring
    refine hnum.trans ?_
    have e : 2 * M.u / (1 - M.u) * (|dy| / |dx|) * (|d| * |dx|)
        = 2 * M.u * |dy| * (|d| / (1 - M.u)) := by field_simp
    rw [e]
    have : |dx| ≤ |d| / (1 - M.u) := by rw [le_div_iff₀ h1u]; linarith
    have h0 : 0 ≤ 2 * M.u * |dy| := by positivity
    nlinarith [mul_le_mul_of_nonneg_left this h0]
  set σ := dy / dx with hσ
  set q := n / d with hqdef
  have hr : |M.rnd q - q| ≤ M.u * |q| := M.h q
  have hqa : |q| ≤ |σ| + 2 * M.u / (1 - M.u) * |σ| := by
    calc |q| = |σ + (q - σ)| := by ring_nf
      _ ≤ |σ| + |q - σ| := abs_add_le _ _
      _ ≤ _ := by linarith
  have hm : M.u * |q| ≤ M.u * (|σ| + 2 * M.u / (1 - M.u) * |σ|) := mul_le_mul_of_nonneg_left hqa hu
  calc |M.rnd q - σ| = |(M.rnd q - q) + (q - σ)| := by ring_nf
    _ ≤ |M.rnd q - q| + |q - σ| := abs_add_le _ _
    _ ≤ M.u * (|σ| + 2 * M.u / (1 - M.u) * |σ|) + 2 * M.u / (1 - M.u) * |σ| := by linarith
    _ = rho M.u * |σ| := by rw [rho]; field_simp; ring

/-- the computed slope is at most `(1+ρ)` times the exact one -/
theorem slope_abs_le (dy dx : K) (hdx : dx ≠ 0) :
    |M.rnd (M.rnd dy / M.rnd dx)| ≤ (1 + rho M.u) * |dy / dx| := by
  have h := slope_close M dy dx hdx
  calc |M.rnd (M.rnd dy / M.rnd dx)| = |dy / dx + (M.rnd (M.rnd dy / M.rnd dx) - dy / dx)| := by ring_nf
    _ ≤ |dy / dx| + |M.rnd (M.rnd dy / M.rnd dx) - dy / dx| := abs_add_le _ _
    _ ≤ _ := by linarith

/-- **the computed line against the exact line**: if the intercept puts the line through `(x₀,y₀)` up to `E` and
the slope `s` is within `r·|σ|` of `σ`, then at any `x` the line `a₀ + s·x` is within `E + r·|σ|·|x − x₀|` of
`y₀ + σ·(x − x₀)` -/
theorem line_close {a0 s σ x0 y0 E r : K} (hE : |a0 + s * x0 - y0| ≤ E) (hs : |s - σ| ≤ r * |σ|) (x : K) :
    |a0 + s * x - (y0 + σ * (x - x0))| ≤ E + r * |σ| * |x - x0| := by
  have e : a0 + s * x - (y0 + σ * (x - x0)) = (a0 + s * x0 - y0) + (s - σ) * (x - x0) := by ring
  rw [e]
  refine (abs_add_le _ _).trans (add_le_add hE ?_)
  rw [abs_mul]
  exact mul_le_mul_of_nonneg_right hs (abs_nonneg _)

/-- a point of the chord is a convex combination of the ordinates: with `t = (x − x₀)/(x₁ − x₀) ∈ [0,1]`,
`|y₀ + σ(x − x₀)| ≤ (1−t)|y₀| + t|y₁|` and `|σ|·|x − x₀| = t·|y₁ − y₀|` -/
theorem chord_conv {x0 x1 y0 y1 x : K} (h01 : x0 < x1) (hx0 : x0 ≤ x) (hx1 : x ≤ x1) :
    0 ≤ (x - x0) / (x1 - x0) ∧ (x - x0) / (x1 - x0) ≤ 1 ∧
    |y0 + (y1 - y0) / (x1 - x0) * (x - x0)|
      ≤ (1 - (x - x0) / (x1 - x0)) * |y0| + (x - x0) / (x1 - x0) * |y1| ∧
    |(y1 - y0) / (x1 - x0)| * |x - x0| = (x - x0) / (x1 - x0) * |y1 - y0| := by
  have hd : 0 < x1 - x0 := by linarith
  set t := (x - x0) / (x1 - x0) with ht
  have ht0 : 0 ≤ t := div_nonneg (by linarith) hd.le
  have ht1 : t ≤ 1 := by rw [ht, div_le_one hd]; linarith
  have e : y0 + (y1 - y0) / (x1 - x0) * (x - x0) = (1 - t) * y0 + t * y1 := by
    rw [ht]; field_simp; ring
  refine ⟨ht0, ht1, ?_, ?_⟩
  · rw [e]
    calc |(1 - t) * y0 + t * y1| ≤ |(1 - t) * y0| + |t * y1| := abs_add_le _ _
      _ = (1 - t) * |y0| + t * |y1| := by
          rw [abs_mul, abs_mul, abs_of_nonneg ht0, abs_of_nonneg (by linarith : 0 ≤ 1 - t)]
  · rw [abs_div, abs_of_pos hd, abs_of_nonneg (by linarith : 0 ≤ x - x0), ht]
    field_simp

/-! ## D. the generated `Linear.segment` in `Rounded M` -/

/-- machine epsilon of the rounded interpretation: the constant `2⁻⁵²` -/
@[reducible] def eps : K := (2 : K) ^ (-52 : ℤ)

theorem eps_pos : (0 : K) < eps := by unfold eps; positivity

section generated
variable [Transc K]

/-- the *generated* `Linear.segment` run in rounded arithmetic on the exact knots `k0`, `k1` -/
@[reducible] noncomputable def segR (k0 k1 : Knot K) : Segment (Rounded M) (Poly1 (Rounded M)) :=
  Linear.segment (k0.mapF Rounded.mk) (k1.mapF Rounded.mk)

/-- exact evaluation of the line whose two coefficients the rounded run returned -/
def lineVal (s : Segment (Rounded M) (Poly1 (Rounded M))) (x : K) : K :=
  s.poly._0.a0.val + s.poly._0.a1.val * x

/-- the generated `Evaluate (Poly1 F)` (one `fma`) run in rounded arithmetic on the returned segment -/
@[reducible] noncomputable def evalR (s : Segment (Rounded M) (Poly1 (Rounded M))) (x : K) : K :=
  (Evaluate.evaluate s.poly (⟨x⟩ : Rounded M)).val

/-- the slope the rounded run stores (both branches) -/
noncomputable def slopeR (k0 k1 : Knot K) : K :=
  if M.rnd (k1.x - k0.x) < eps then 0 else M.rnd (M.rnd (k1.y - k0.y) / M.rnd (k1.x - k0.x))

theorem lit0 : M.rnd (((0 : ℤ) : K) * (10 : K) ^ (0 : ℤ)) = 0 := by
  rw [Int.cast_zero, zero_mul, M.rnd_zero]

theorem segR_end (k0 k1 : Knot K) : (segR M k0 k1).end.val = k1.x := rfl

/-- the test `dx < f64::EPSILON` of the rounded run: an exact comparison of the *rounded* width -/
theorem lt_eps_iff (k0 k1 : Knot K) :
    FloatLike.lt (PSub.sub (k1.mapF (Rounded.mk (M := M))).x (k0.mapF (Rounded.mk (M := M))).x)
      (FloatLike.epsilon : Rounded M) = true ↔ M.rnd (k1.x - k0.x) < eps := by
  show decide (M.rnd (k1.x - k0.x) < eps) = true ↔ _
  rw [decide_eq_true_iff]

/-- the stored slope, read off the generated code -/
theorem segR_a1 (k0 k1 : Knot K) : (segR M k0 k1).poly._0.a1.val = slopeR M k0 k1 := by
  unfold slopeR
  by_cases h : M.rnd (k1.x - k0.x) < eps
  · rw [if_pos h]
    have hb := (lt_eps_iff M k0 k1).2 h
    show (if FloatLike.lt (PSub.sub (k1.mapF (Rounded.mk (M := M))).x (k0.mapF (Rounded.mk (M := M))).x)
        (FloatLike.epsilon : Rounded M) = true then (FloatLike.ofDec 0 0 : Rounded M) else _).val = 0
    rw [if_pos hb]
    exact lit0 M
  · rw [if_neg h]
    have hb := (not_congr (lt_eps_iff M k0 k1)).2 h
    show (if FloatLike.lt (PSub.sub (k1.mapF (Rounded.mk (M := M))).x (k0.mapF (Rounded.mk (M := M))).x)
        (FloatLike.epsilon : Rounded M) = true then (FloatLike.ofDec 0 0 : Rounded M) else _).val = _
    rw [if_neg hb]
    rfl

/-- the stored intercept, read off the generated code: `0.0 + (y₀ − fma(slope, x₀, 0.0))`, three roundings -/
theorem segR_a0 (k0 k1 : Knot K) :
    (segR M k0 k1).poly._0.a0.val = M.rnd (M.rnd (k0.y - M.rnd (slopeR M k0 k1 * k0.x))) := by
  rw [← segR_a1]
  show M.rnd (M.rnd (((0 : ℤ) : K) * (10 : K) ^ (0 : ℤ)) + M.rnd (k0.y
      - M.rnd ((segR M k0 k1).poly._0.a1.val * k0.x + M.rnd (((0 : ℤ) : K) * (10 : K) ^ (0 : ℤ))))) = _
  rw [lit0, zero_add, add_zero]

/-- the rounded evaluation of the returned segment is one `fma` -/
theorem segR_eval (k0 k1 : Knot K) (x : K) :
    evalR M (segR M k0 k1) x = M.rnd (lineVal M (segR M k0 k1) x) := by
  show M.rnd ((segR M k0 k1).poly._0.a1.val * x + (segR M k0 k1).poly._0.a0.val) = _
  rw [lineVal, add_comm]

end generated

/-! ## E. `Hand.linear` in `Rounded M` -/

section lift
variable [Transc K]

/-- the knots injected into the rounded interpretation -/
@[reducible] def knotsR (ks : List (Knot K)) : List (Knot (Rounded M)) := ks.map (Knot.mapF Rounded.mk)

/-- `f64::max` is exact in the rounded interpretation: non-decreasing abscissae are left untouched -/
theorem forcedGo_of_chain_rounded (prev : Knot K) (ks : List (Knot K))
    (h : List.IsChain (fun a b : Knot K => a.x ≤ b.x) (prev :: ks)) :
    forcedGo (prev.mapF (Rounded.mk (M := M))) (knotsR M ks) = knotsR M (prev :: ks) := by
  induction ks generalizing prev with
  | nil => rfl
  | cons k ks ih =>
    rw [List.isChain_cons_cons] at h
    have : (⟨FloatLike.max (prev.mapF (Rounded.mk (M := M))).x (k.mapF (Rounded.mk (M := M))).x,
        (k.mapF (Rounded.mk (M := M))).y⟩ : Knot (Rounded M)) = k.mapF Rounded.mk := by
      show (⟨⟨max prev.x k.x⟩, ⟨k.y⟩⟩ : Knot (Rounded M)) = ⟨⟨k.x⟩, ⟨k.y⟩⟩
      rw [max_eq_right h.1]
    simp only [knotsR, List.map_cons, forcedGo] at ih ⊢
    rw [this, ih k h.2]

theorem forced_of_chain_rounded (ks : List (Knot K))
    (h : List.IsChain (fun a b : Knot K => a.x ≤ b.x) ks) : forced (knotsR M ks) = knotsR M ks := by
  cases ks with
  | nil => rfl
  | cons k ks => exact forcedGo_of_chain_rounded M k ks h

/-- with non-decreasing abscissae, segment `i` of the rounded `linear` is the rounded `Linear.segment` of the
knots `i`, `i+1` -/
theorem linear_rounded_getElem (ks : List (Knot K)) (p : Piecewise (Rounded M) (Poly1 (Rounded M)))
    (h : Hand.linear (knotsR M ks) = some p)
    (hc : List.IsChain (fun a b : Knot K => a.x ≤ b.x) ks) (i : Nat) (hi : i + 1 < ks.length) :
    ∃ hlt : i < p.segments.length, p.segments[i] = segR M (ks[i]'(by omega)) ks[i + 1] := by
  match ks, h with
  | k0 :: k1 :: rest, h =>
    simp only [knotsR, List.map_cons, Hand.linear, Option.some.injEq] at h
    subst h
    have hgo := linearGo_eq (k0.mapF (Rounded.mk (M := M))) (knotsR M (k1 :: rest))
    have hf := forcedGo_of_chain_rounded M k0 (k1 :: rest) hc
    simp only [knotsR, List.map_cons] at hgo hf
    have hlen : i < (Hand.linearGo (k0.mapF (Rounded.mk (M := M)))
        (k1.mapF Rounded.mk :: rest.map (Knot.mapF Rounded.mk))).length := by
      simp only [linearGo_length, List.length_cons, List.length_map] at hi ⊢; omega
    refine ⟨hlen, ?_⟩
    simp only [hgo, hf, List.getElem_zipWith, List.tail_cons]
    simp only [segR, ← List.map_cons, List.getElem_map]
    rfl

end lift

end PP.Lemmas.LinearFP
