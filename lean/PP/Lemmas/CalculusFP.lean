import PP.Sem.Count
import PP.Props.C01
/-!
# Helper lemmas for the floating-point part of C07 / C11 (`PP/Props/C07Bound.lean`, `PP/Props/C11Bound.lean`)

Everything is over an arbitrary linearly ordered field `K` and an arbitrary rounding model `M : RModel K`
(standard model: `|rnd t − t| ≤ u·|t|`, no underflow / overflow).

* **A** `growth_tight`, `growth_num` : `(1+u)^k − 1 ≤ (k + 1/1000)·u` for `u ≤ 2⁻⁵³`, `k ≤ 1000` (the
  field-generic version of `ExpTailFP.growth_num`); `eta_le : 2u/(1−u) ≤ 2.001·u`; `Ct.bound_le`.
* **B** one coefficient:
  `div_rnd_close`     : `|rnd (c / rnd q) − c/q| ≤ 2u/(1−u)·|c/q|`   (divisor = a *rounded* literal: two roundings)
  `div_fixed_close`   : `|rnd (c / rnd q) − c/q| ≤ u·|c/q|` if `rnd q = q` (representable literal: one rounding)
  `mul_div_rnd_close` : `|rnd (r · rnd (c / r)) − c| ≤ (2u + u²)·|c|` for every `r ≠ 0` (the rounded literal cancels)
  `rnd_rnd_close`     : `|rnd (rnd t) − t| ≤ ((1+u)² − 1)·|t|`.
* **C** coefficient lists: `Rel η d e := |d − e| ≤ η·|e|`; for `Forall₂ (Rel η) ds es`:
  `polySum_close`, `polySum_abs_le`, `abs_polySum_le`.
* **D** the three compositions (κ = rounding depth of the evaluation scheme, `η = 2u/(1−u)`):
  `knot_defect`       : rounded value at the knot   `|F̂(x) − y| ≤ (3κ+3)·u·(|y| + S(x))`
  `knot_defect_exact` : exact value at the knot     `|F(x) − y| ≤ (κ+3)·u·(|y| + S(x))`
  `difference_defect` : `|F̂(b) − F̂(a) − (P(b) − P(a))| ≤ (κ+3)·u·(S(a) + S(b) + 2|k|)`.
-/
set_option linter.unusedSectionVars false
set_option linter.unusedVariables false

namespace PP.Lemmas.CalculusFP
open PP.Lemmas.Rounding PP.Props.C01

variable {K : Type} [Field K] [LinearOrder K] [IsStrictOrderedRing K]

/-! ## A. growth factors, linearised -/

theorem growth_tight {u : K} (hu : 0 ≤ u) :
    ∀ k : ℕ, (k : K) * u ≤ 1 / 2 → (1 + u) ^ k - 1 ≤ k * u * (1 + 2 * k * u)
  | 0, _ => by simp
  | k + 1, hk => by
    have hk0 : (0 : K) ≤ k := Nat.cast_nonneg k
    have hk' : (k : K) * u ≤ 1 / 2 := by push_cast at hk; nlinarith
    have ih := growth_tight hu k hk'
    have h1 : (1 + u) * ((1 + u) ^ k - 1) ≤ (1 + u) * (k * u * (1 + 2 * k * u)) :=
      mul_le_mul_of_nonneg_left ih (by linarith)
    have h2 : 2 * (k : K) * ((k : K) * u) * u ^ 2 ≤ 2 * k * (1 / 2) * u ^ 2 := by
      have : 0 ≤ 2 * (k : K) * u ^ 2 := by positivity
      nlinarith
    push_cast
    have e1 : (1 + u) ^ (k + 1) - 1 = (1 + u) * ((1 + u) ^ k - 1) + u := by ring
    rw [e1]
    have hu2 : 0 ≤ u ^ 2 := by positivity
    nlinarith

/-- `2⁻⁵³ ≤ 10⁻¹⁵` -/
theorem u_small {u : K} (hu53 : u ≤ (2 : K) ^ (-53 : ℤ)) : u ≤ 1 / 10 ^ 15 :=
  hu53.trans (by norm_num)

/-- `(1+u)^k − 1 ≤ (k + 1/1000)·u` for `u ≤ 2⁻⁵³`, `k ≤ 1000` -/
theorem growth_num {u : K} (hu : 0 ≤ u) (hu53 : u ≤ (2 : K) ^ (-53 : ℤ)) (k : ℕ) (hk : k ≤ 1000) :
    (1 + u) ^ k - 1 ≤ ((k : K) + 1 / 1000) * u := by
  have hk0 : (0 : K) ≤ k := Nat.cast_nonneg k
  have hk1 : (k : K) ≤ 1000 := by exact_mod_cast hk
  have hu' := u_small hu53
  have hku : (k : K) * u ≤ 1 / 10 ^ 12 := by
    have := mul_le_mul hk1 hu' hu (by norm_num : (0 : K) ≤ 1000)
    norm_num at this ⊢; linarith
  have h := growth_tight hu k (by linarith)
  have : (k : K) * u * (2 * k * u) ≤ 1 / 1000 * u := by
    have : 2 * (k : K) * (k * u) ≤ 1 / 1000 := by nlinarith
    nlinarith
  nlinarith

/-- `2u/(1−u) ≤ 2.001·u` -/
theorem eta_le {u : K} (hu : 0 ≤ u) (hu53 : u ≤ (2 : K) ^ (-53 : ℤ)) :
    2 * u / (1 - u) ≤ (2 + 1 / 1000) * u := by
  have hu' := u_small hu53
  have h1 : (0 : K) < 1 - u := by linarith
  rw [div_le_iff₀ h1]
  nlinarith

theorem eta_nonneg {u : K} (hu : 0 ≤ u) (hu1 : u < 1) : 0 ≤ 2 * u / (1 - u) :=
  div_nonneg (by linarith) (by linarith)

/-- the bound carried by a number of the counting semantics, with the depth over-estimated by `κ` -/
theorem _root_.Ct.bound_le {M : RModel K} (c : Ct M) (h : c.ok = true) (κ : ℕ) (hk : c.k ≤ κ) :
    |c.a - c.e| ≤ ((1 + M.u) ^ κ - 1) * c.A :=
  ((c.inv h).mono hk).2

/-! ## B. one coefficient -/

variable (M : RModel K)

/-- `|rnd t| ≥ (1−u)|t|` -/
theorem abs_rnd_ge (t : K) : (1 - M.u) * |t| ≤ |M.rnd t| := by
  have h := M.h t
  have : |t| ≤ |M.rnd t| + |M.rnd t - t| := by
    calc |t| = |M.rnd t - (M.rnd t - t)| := by ring_nf
      _ ≤ |M.rnd t| + |M.rnd t - t| := abs_sub _ _
  linarith

/-- division by a *rounded* literal `rnd q` (two roundings): relative error at most `2u/(1−u)` -/
theorem div_rnd_close (c : K) {q : K} (hq : q ≠ 0) :
    |M.rnd (c / M.rnd q) - c / q| ≤ 2 * M.u / (1 - M.u) * |c / q| := by
  have hu0 := M.hu
  have hu1 := M.hu1
  have h1u : 0 < 1 - M.u := by linarith
  set r := M.rnd q with hr
  have hqpos : 0 < |q| := abs_pos.mpr hq
  have hr0 : r ≠ 0 := fun h => hq (M.rnd_eq_zero_iff.mp h)
  have hrpos : 0 < |r| := abs_pos.mpr hr0
  have hrq : |r - q| ≤ M.u * |q| := M.h q
  have hrge : (1 - M.u) * |q| ≤ |r| := abs_rnd_ge M q
  -- |c/r| ≤ |c/q| / (1-u)
  have hcr : |c / r| ≤ |c / q| / (1 - M.u) := by
    rw [le_div_iff₀ h1u, abs_div, abs_div, div_mul_eq_mul_div, div_le_div_iff₀ hrpos hqpos]
    have := mul_le_mul_of_nonneg_left hrge (abs_nonneg c)
    nlinarith
  -- |c/r − c/q| ≤ u/(1-u) |c/q|
  have hd : |c / r - c / q| ≤ M.u / (1 - M.u) * |c / q| := by
    have e1 : c / r - c / q = c / r * ((q - r) / q) := by field_simp
    rw [e1, abs_mul, abs_div (q - r) q, abs_sub_comm q r]
    have h2 : |r - q| / |q| ≤ M.u := by rw [div_le_iff₀ hqpos]; exact hrq
    calc |c / r| * (|r - q| / |q|) ≤ |c / q| / (1 - M.u) * M.u :=
          mul_le_mul hcr h2 (div_nonneg (abs_nonneg _) hqpos.le) (div_nonneg (abs_nonneg _) h1u.le)
      _ = _ := by ring
  have hr2 : |M.rnd (c / r) - c / r| ≤ M.u * |c / r| := M.h _
  have hr3 : M.u * |c / r| ≤ M.u * (|c / q| / (1 - M.u)) := mul_le_mul_of_nonneg_left hcr hu0
  calc |M.rnd (c / r) - c / q| = |(M.rnd (c / r) - c / r) + (c / r - c / q)| := by ring_nf
    _ ≤ _ + _ := abs_add_le _ _
    _ ≤ M.u * (|c / q| / (1 - M.u)) + M.u / (1 - M.u) * |c / q| := by linarith
    _ = _ := by ring

/-- division by a representable literal (one rounding) -/
theorem div_fixed_close (c : K) {q : K} (hfix : M.rnd q = q) :
    |M.rnd (c / M.rnd q) - c / q| ≤ M.u * |c / q| := by
  rw [hfix]; exact M.h _

/-- `rnd (r · rnd (c / r))`: the (rounded) literal `r` cancels; two roundings remain -/
theorem mul_div_rnd_close (c : K) {r : K} (hr : r ≠ 0) :
    |M.rnd (r * M.rnd (c / r)) - c| ≤ (2 * M.u + M.u ^ 2) * |c| := by
  have hu0 := M.hu
  set t := M.rnd (c / r) with ht
  have h1 : |t - c / r| ≤ M.u * |c / r| := M.h _
  have h2 : |r * t - c| ≤ M.u * |c| := by
    have e1 : r * t - c = r * (t - c / r) := by field_simp
    rw [e1, abs_mul]
    calc |r| * |t - c / r| ≤ |r| * (M.u * |c / r|) := mul_le_mul_of_nonneg_left h1 (abs_nonneg r)
      _ = M.u * |c| := by rw [abs_div]; field_simp
  have h3 := rnd_close M.hu M.h c (r * t) (M.u * |c|) h2
  calc _ ≤ M.u * |c| + M.u * (|c| + M.u * |c|) := h3
    _ = _ := by ring

/-- a literal `l` (the real number `q ≠ 0`) does not round to zero -/
theorem rnd_lit_ne_zero {l q : K} (hl : l = q) (hq : q ≠ 0) : M.rnd l ≠ 0 := by
  subst hl; exact fun h => hq (M.rnd_eq_zero_iff.mp h)

/-- `div_rnd_close` with the literal given up to a (numeral) equation `l = q` -/
theorem div_lit_close (c : K) {l q : K} (hl : l = q) (hq : q ≠ 0) :
    |M.rnd (c / M.rnd l) - c / q| ≤ 2 * M.u / (1 - M.u) * |c / q| := by
  subst hl; exact div_rnd_close M c hq

/-- `div_fixed_close` with the literal given up to a (numeral) equation `l = q` -/
theorem div_lit_fixed (c : K) {l q : K} (hl : l = q) (hfix : M.rnd q = q) :
    |M.rnd (c / M.rnd l) - c / q| ≤ M.u * |c / q| := by
  subst hl; exact div_fixed_close M c hfix

/-- `mul_div_rnd_close` for a rounded literal -/
theorem mul_div_lit_close (c : K) {l q : K} (hl : l = q) (hq : q ≠ 0) :
    |M.rnd (M.rnd l * M.rnd (c / M.rnd l)) - c| ≤ (2 * M.u + M.u ^ 2) * |c| :=
  mul_div_rnd_close M c (rnd_lit_ne_zero M hl hq)

/-- the integer literals `2 … m` are representable (true of binary64 for `m ≤ 2⁵³`; NOT assumed by the main
theorems, only by the `…_fixed` variants) -/
def LitFixed (m : ℕ) : Prop := ∀ j : ℕ, 2 ≤ j → j ≤ m → M.rnd (j : K) = (j : K)

theorem LitFixed.get {M : RModel K} {m : ℕ} (h : LitFixed M m) (j : ℕ) (h2 : 2 ≤ j) (hm : j ≤ m) {q : K}
    (hq : (j : K) = q) : M.rnd q = q := by
  subst hq; exact h j h2 hm

/-- two roundings in a row (`rnd` is not assumed idempotent) -/
theorem rnd_rnd_close (t : K) : |M.rnd (M.rnd t) - t| ≤ ((1 + M.u) ^ 2 - 1) * |t| :=
  (CtInv.inp M t).rnd.rnd.2

/-- the literal `0.0` is exact -/
theorem lit_zero (e : ℤ) : M.rnd (((0 : ℤ) : K) * (10 : K) ^ e) = 0 := by
  rw [Int.cast_zero, zero_mul, M.rnd_zero]

/-! ## C. coefficient lists -/

/-- `d` approximates `e` with relative error `η` -/
def Rel (η d e : K) : Prop := |d - e| ≤ η * |e|

theorem Rel.refl {η : K} (hη : 0 ≤ η) (e : K) : Rel η e e := by
  simp only [Rel, sub_self, abs_zero]; exact mul_nonneg hη (abs_nonneg e)

theorem Rel.of_eq {η d e : K} (hη : 0 ≤ η) (h : d = e) : Rel η d e := h ▸ Rel.refl hη e

theorem Rel.abs_le {η d e : K} (h : Rel η d e) : |d| ≤ (1 + η) * |e| := by
  have : |d| ≤ |e| + |d - e| := by
    calc |d| = |e + (d - e)| := by ring_nf
      _ ≤ _ := abs_add_le _ _
  unfold Rel at h; linarith

section lists
variable [Transc K]

theorem polySum_abs_nonneg (cs : List K) (x : K) : 0 ≤ polySum (cs.map abs) |x| := by
  induction cs with
  | nil => simp [polySum]
  | cons c cs ih =>
    simp only [List.map_cons, polySum]
    have := mul_nonneg (abs_nonneg x) ih
    have := abs_nonneg c
    linarith

theorem abs_polySum_le (cs : List K) (x : K) : |polySum cs x| ≤ polySum (cs.map abs) |x| := by
  induction cs with
  | nil => simp [polySum]
  | cons c cs ih =>
    simp only [List.map_cons, polySum]
    calc |c + x * polySum cs x| ≤ |c| + |x * polySum cs x| := abs_add_le _ _
      _ = |c| + |x| * |polySum cs x| := by rw [abs_mul]
      _ ≤ _ := by have := mul_le_mul_of_nonneg_left ih (abs_nonneg x); linarith

theorem polySum_close {η : K} {ds es : List K} (h : List.Forall₂ (Rel η) ds es) (x : K) :
    |polySum ds x - polySum es x| ≤ η * polySum (es.map abs) |x| := by
  induction h with
  | nil => simp [polySum]
  | @cons d e ds es hde _ ih =>
    simp only [List.map_cons, polySum]
    have e1 : d + x * polySum ds x - (e + x * polySum es x) = (d - e) + x * (polySum ds x - polySum es x) := by
      ring
    rw [e1]
    calc _ ≤ |d - e| + |x * (polySum ds x - polySum es x)| := abs_add_le _ _
      _ = |d - e| + |x| * |polySum ds x - polySum es x| := by rw [abs_mul]
      _ ≤ η * |e| + |x| * (η * polySum (es.map abs) |x|) := by
          have := mul_le_mul_of_nonneg_left ih (abs_nonneg x)
          unfold Rel at hde; linarith
      _ = _ := by ring

theorem polySum_abs_le {η : K} {ds es : List K} (h : List.Forall₂ (Rel η) ds es) (x : K) :
    polySum (ds.map abs) |x| ≤ (1 + η) * polySum (es.map abs) |x| := by
  induction h with
  | nil => simp [polySum]
  | @cons d e ds es hde _ ih =>
    simp only [List.map_cons, polySum]
    have := mul_le_mul_of_nonneg_left ih (abs_nonneg x)
    have := hde.abs_le
    nlinarith

end lists

/-! ## D. the compositions -/

/-- the first-order bounds of the three error sources, for `u ≤ 2⁻⁵³` and scheme depth `κ ≤ 100` -/
theorem small_factors (hu53 : M.u ≤ (2 : K) ^ (-53 : ℤ)) (κ : ℕ) (hκ : κ ≤ 100) :
    (1 + M.u) ^ κ - 1 ≤ ((κ : K) + 1 / 1000) * M.u ∧ (1 + M.u) ^ 2 - 1 ≤ (2 + 1 / 1000) * M.u
      ∧ 2 * M.u / (1 - M.u) ≤ (2 + 1 / 1000) * M.u ∧ (κ : K) * M.u ≤ 1 / 10 ^ 13 ∧ M.u ≤ 1 / 10 ^ 15
      ∧ (κ : K) * M.u ≤ 100 * M.u := by
  have hu0 := M.hu
  have hu' := u_small hu53
  have hk1 : (κ : K) ≤ 100 := by exact_mod_cast hκ
  refine ⟨growth_num M.hu hu53 κ (by omega), ?_, eta_le M.hu hu53, ?_, hu', mul_le_mul_of_nonneg_right hk1 hu0⟩
  · have := growth_num M.hu hu53 2 (by norm_num)
    norm_num at this ⊢; linarith
  · have := mul_le_mul hk1 hu' hu0 (by norm_num : (0 : K) ≤ 100)
    norm_num at this ⊢; linarith

/-- scalar core of `knot_defect` -/
theorem knot_core {g g2 η y E D DA S k Fv : K} (hg : 0 ≤ g) (hg2 : 0 ≤ g2) (hη : 0 ≤ η) (hS : 0 ≤ S)
    (hD : |D| ≤ DA) (hDA : DA ≤ (1 + η) * S) (hE : |E - D| ≤ g * DA)
    (hk : |k - (y - E)| ≤ g2 * |y - E|) (hF : |Fv - (k + D)| ≤ g * (|k| + DA)) :
    |Fv - y| ≤ (g + g2 + g * g2) * (|y| + (1 + g) * ((1 + η) * S)) + 2 * g * ((1 + η) * S) := by
  have hDA0 : 0 ≤ DA := (abs_nonneg D).trans hD
  set t := y - E with ht
  have hEa : |E| ≤ (1 + g) * DA := by
    have : |E| ≤ |D| + |E - D| := by
      calc |E| = |D + (E - D)| := by ring_nf
        _ ≤ _ := abs_add_le _ _
    linarith
  have hta : |t| ≤ |y| + (1 + g) * ((1 + η) * S) := by
    have h1 : |t| ≤ |y| + |E| := abs_sub _ _
    have h2 : (1 + g) * DA ≤ (1 + g) * ((1 + η) * S) := mul_le_mul_of_nonneg_left hDA (by linarith)
    linarith
  have hka : |k| ≤ (1 + g2) * |t| := by
    have : |k| ≤ |t| + |k - t| := by
      calc |k| = |t + (k - t)| := by ring_nf
        _ ≤ _ := abs_add_le _ _
    linarith
  have e1 : Fv - y = (Fv - (k + D)) + (k - t) + (D - E) := by rw [ht]; ring
  have hED : |D - E| ≤ g * DA := by rw [abs_sub_comm]; exact hE
  have h1 : |Fv - y| ≤ g * (|k| + DA) + g2 * |t| + g * DA := by
    rw [e1]
    calc _ ≤ |Fv - (k + D)| + |k - t| + |D - E| := abs_add_three _ _ _
      _ ≤ _ := by linarith
  have h2 : g * |k| ≤ g * ((1 + g2) * |t|) := mul_le_mul_of_nonneg_left hka hg
  have h3 : (g + g2 + g * g2) * |t| ≤ (g + g2 + g * g2) * (|y| + (1 + g) * ((1 + η) * S)) :=
    mul_le_mul_of_nonneg_left hta (by positivity)
  have h4 : g * DA ≤ g * ((1 + η) * S) := mul_le_mul_of_nonneg_left hDA hg
  calc |Fv - y| ≤ g * (|k| + DA) + g2 * |t| + g * DA := h1
    _ ≤ (g + g2 + g * g2) * |t| + 2 * (g * DA) := by linarith
    _ ≤ _ := by linarith

/-- scalar core of `knot_defect_exact` -/
theorem knot_core_exact {g g2 η y E D DA S k : K} (hg : 0 ≤ g) (hg2 : 0 ≤ g2) (hη : 0 ≤ η) (hS : 0 ≤ S)
    (hD : |D| ≤ DA) (hDA : DA ≤ (1 + η) * S) (hE : |E - D| ≤ g * DA)
    (hk : |k - (y - E)| ≤ g2 * |y - E|) :
    |k + D - y| ≤ g2 * (|y| + (1 + g) * ((1 + η) * S)) + g * ((1 + η) * S) := by
  have hDA0 : 0 ≤ DA := (abs_nonneg D).trans hD
  set t := y - E with ht
  have hEa : |E| ≤ (1 + g) * DA := by
    have : |E| ≤ |D| + |E - D| := by
      calc |E| = |D + (E - D)| := by ring_nf
        _ ≤ _ := abs_add_le _ _
    linarith
  have hta : |t| ≤ |y| + (1 + g) * ((1 + η) * S) := by
    have h1 : |t| ≤ |y| + |E| := abs_sub _ _
    have h2 : (1 + g) * DA ≤ (1 + g) * ((1 + η) * S) := mul_le_mul_of_nonneg_left hDA (by linarith)
    linarith
  have e1 : k + D - y = (k - t) + (D - E) := by rw [ht]; ring
  have hED : |D - E| ≤ g * DA := by rw [abs_sub_comm]; exact hE
  have h3 : g2 * |t| ≤ g2 * (|y| + (1 + g) * ((1 + η) * S)) := mul_le_mul_of_nonneg_left hta hg2
  have h4 : g * DA ≤ g * ((1 + η) * S) := mul_le_mul_of_nonneg_left hDA hg
  rw [e1]
  calc _ ≤ |k - t| + |D - E| := abs_add_le _ _
    _ ≤ _ := by linarith

/-- scalar core of `difference_defect` -/
theorem diff_core {g η k Fa Fb Da Db DAa DAb Pa Pb Sa Sb : K} (hg : 0 ≤ g) (hη : 0 ≤ η)
    (hDAa : DAa ≤ (1 + η) * Sa) (hDAb : DAb ≤ (1 + η) * Sb)
    (hPa : |Da - Pa| ≤ η * Sa) (hPb : |Db - Pb| ≤ η * Sb)
    (hFa : |Fa - (k + Da)| ≤ g * (|k| + DAa)) (hFb : |Fb - (k + Db)| ≤ g * (|k| + DAb)) :
    |Fb - Fa - (Pb - Pa)| ≤ g * (2 * |k| + (1 + η) * (Sa + Sb)) + η * (Sa + Sb) := by
  have e1 : Fb - Fa - (Pb - Pa) = (Fb - (k + Db)) - (Fa - (k + Da)) + ((Db - Pb) - (Da - Pa)) := by ring
  have h1 : g * DAa ≤ g * ((1 + η) * Sa) := mul_le_mul_of_nonneg_left hDAa hg
  have h2 : g * DAb ≤ g * ((1 + η) * Sb) := mul_le_mul_of_nonneg_left hDAb hg
  rw [e1]
  calc _ ≤ |(Fb - (k + Db)) - (Fa - (k + Da))| + |(Db - Pb) - (Da - Pa)| := abs_add_le _ _
    _ ≤ (|Fb - (k + Db)| + |Fa - (k + Da)|) + (|Db - Pb| + |Da - Pa|) :=
        add_le_add (abs_sub _ _) (abs_sub _ _)
    _ ≤ _ := by linarith

section compose
variable [Transc K]

/-- what the two list lemmas give for the polynomial without constant term `x·Σ dⱼ xʲ` -/
theorem shifted_facts {η : K} (hη : 0 ≤ η) {ds es : List K} (hR : List.Forall₂ (Rel η) ds es) (x : K) :
    0 ≤ |x| * polySum (es.map abs) |x|
      ∧ |x * polySum ds x| ≤ |x| * polySum (ds.map abs) |x|
      ∧ |x| * polySum (ds.map abs) |x| ≤ (1 + η) * (|x| * polySum (es.map abs) |x|)
      ∧ |x * polySum ds x - x * polySum es x| ≤ η * (|x| * polySum (es.map abs) |x|) := by
  have hx := abs_nonneg x
  refine ⟨mul_nonneg hx (polySum_abs_nonneg es x), ?_, ?_, ?_⟩
  · rw [abs_mul]; exact mul_le_mul_of_nonneg_left (abs_polySum_le ds x) hx
  · have := mul_le_mul_of_nonneg_left (polySum_abs_le hR x) hx
    linarith
  · rw [← mul_sub, abs_mul]
    have := mul_le_mul_of_nonneg_left (polySum_close hR x) hx
    linarith

/-- **value at the knot, rounded evaluation.**  `ds` = the computed coefficients of `indefinite p` (without
the constant term `z = 0`), `es` = the exact ones `cᵢ/(i+1)`; `E` = rounded value of `indefinite p` at `x`;
`k = rnd (z + rnd (y − E))` the constant term of `integral p ⟨x, y⟩`; `Fv` = its rounded value at `x`;
`κ` = rounding depth of the evaluation scheme. -/
theorem knot_defect (hu53 : M.u ≤ (2 : K) ^ (-53 : ℤ)) (κ : ℕ) (hκ : κ ≤ 100) {ds es : List K}
    (hR : List.Forall₂ (Rel (2 * M.u / (1 - M.u))) ds es) (x y z E k Fv : K) (hz : z = 0)
    (hE : |E - (z + x * polySum ds x)| ≤ ((1 + M.u) ^ κ - 1) * (|z| + |x| * polySum (ds.map abs) |x|))
    (hk : k = M.rnd (z + M.rnd (y - E)))
    (hF : |Fv - (k + x * polySum ds x)| ≤ ((1 + M.u) ^ κ - 1) * (|k| + |x| * polySum (ds.map abs) |x|)) :
    |Fv - y| ≤ (3 * κ + 3) * M.u * (|y| + |x| * polySum (es.map abs) |x|) := by
  subst hz
  simp only [zero_add, abs_zero] at hE hk
  have hu0 := M.hu
  have hη := eta_nonneg M.hu M.hu1
  obtain ⟨hS, hD, hDA, _⟩ := shifted_facts hη hR x
  obtain ⟨hg, hg2, hη', hw, hu', hw100⟩ := small_factors M hu53 κ hκ
  have hg0 := growth_nonneg M.hu κ
  have hg20 := growth_nonneg M.hu 2
  have hkk : |k - (y - E)| ≤ ((1 + M.u) ^ 2 - 1) * |y - E| := by rw [hk]; exact rnd_rnd_close M _
  have h := knot_core hg0 hg20 hη hS hD hDA hE hkk hF
  refine h.trans ?_
  set g := (1 + M.u) ^ κ - 1
  set g2 := (1 + M.u) ^ 2 - 1
  set η := 2 * M.u / (1 - M.u)
  set S := |x| * polySum (es.map abs) |x|
  set w := (κ : K) * M.u with hwdef
  have hw0 : 0 ≤ w := mul_nonneg (Nat.cast_nonneg κ) hu0
  have hy := abs_nonneg y
  -- coefficient bounds
  have hA : g ≤ w + 1 / 1000 * M.u := by rw [hwdef]; linarith
  have hgs : g ≤ 2 / 10 ^ 13 := by linarith
  have hg2s : g2 ≤ 1 / 10 ^ 14 := by linarith
  have hηs : η ≤ 1 / 10 ^ 14 := by linarith
  have hG : g + g2 + g * g2 ≤ w + (2 + 3 / 1000) * M.u := by
    have : g * g2 ≤ 2 / 10 ^ 13 * g2 := mul_le_mul_of_nonneg_right hgs hg20
    linarith
  have hG0 : 0 ≤ g + g2 + g * g2 := by positivity
  have hc1 : (1 + g) * (1 + η) ≤ 1 + 1 / 10 ^ 12 := by
    have : g * η ≤ 2 / 10 ^ 13 * η := mul_le_mul_of_nonneg_right hgs hη
    linarith
  have hc10 : 0 ≤ (1 + g) * (1 + η) := by positivity
  have hGs : g + g2 + g * g2 ≤ 1 / 10 ^ 12 := by linarith
  -- coefficient of S
  have hcS : (g + g2 + g * g2) * ((1 + g) * (1 + η)) + 2 * g * (1 + η) ≤ 3 * w + (2 + 1 / 100) * M.u := by
    have h1 : (g + g2 + g * g2) * ((1 + g) * (1 + η)) ≤ (g + g2 + g * g2) * (1 + 1 / 10 ^ 12) :=
      mul_le_mul_of_nonneg_left hc1 hG0
    have h2 : g * η ≤ 1 / 10 ^ 14 * g := by
      rw [mul_comm]; exact mul_le_mul_of_nonneg_right hηs hg0
    linarith
  have hfin : (g + g2 + g * g2) * (|y| + (1 + g) * ((1 + η) * S)) + 2 * g * ((1 + η) * S)
      = (g + g2 + g * g2) * |y|
        + ((g + g2 + g * g2) * ((1 + g) * (1 + η)) + 2 * g * (1 + η)) * S := by ring
  rw [hfin]
  have h1 : (g + g2 + g * g2) * |y| ≤ (3 * w + 3 * M.u) * |y| :=
    mul_le_mul_of_nonneg_right (by linarith) hy
  have h2 : ((g + g2 + g * g2) * ((1 + g) * (1 + η)) + 2 * g * (1 + η)) * S ≤ (3 * w + 3 * M.u) * S :=
    mul_le_mul_of_nonneg_right (by linarith) hS
  calc _ ≤ (3 * w + 3 * M.u) * |y| + (3 * w + 3 * M.u) * S := add_le_add h1 h2
    _ = _ := by rw [hwdef]; ring

/-- **value at the knot, exact evaluation of the computed coefficients**: `k + x·Σ dⱼ xʲ` against `y` -/
theorem knot_defect_exact (hu53 : M.u ≤ (2 : K) ^ (-53 : ℤ)) (κ : ℕ) (hκ : κ ≤ 100) {ds es : List K}
    (hR : List.Forall₂ (Rel (2 * M.u / (1 - M.u))) ds es) (x y z E k : K) (hz : z = 0)
    (hE : |E - (z + x * polySum ds x)| ≤ ((1 + M.u) ^ κ - 1) * (|z| + |x| * polySum (ds.map abs) |x|))
    (hk : k = M.rnd (z + M.rnd (y - E))) :
    |k + x * polySum ds x - y| ≤ (κ + 3) * M.u * (|y| + |x| * polySum (es.map abs) |x|) := by
  subst hz
  simp only [zero_add, abs_zero] at hE hk
  have hu0 := M.hu
  have hη := eta_nonneg M.hu M.hu1
  obtain ⟨hS, hD, hDA, _⟩ := shifted_facts hη hR x
  obtain ⟨hg, hg2, hη', hw, hu', hw100⟩ := small_factors M hu53 κ hκ
  have hg0 := growth_nonneg M.hu κ
  have hg20 := growth_nonneg M.hu 2
  have hkk : |k - (y - E)| ≤ ((1 + M.u) ^ 2 - 1) * |y - E| := by rw [hk]; exact rnd_rnd_close M _
  have h := knot_core_exact hg0 hg20 hη hS hD hDA hE hkk
  refine h.trans ?_
  set g := (1 + M.u) ^ κ - 1
  set g2 := (1 + M.u) ^ 2 - 1
  set η := 2 * M.u / (1 - M.u)
  set S := |x| * polySum (es.map abs) |x|
  set w := (κ : K) * M.u with hwdef
  have hw0 : 0 ≤ w := mul_nonneg (Nat.cast_nonneg κ) hu0
  have hy := abs_nonneg y
  have hgs : g ≤ 2 / 10 ^ 13 := by rw [hwdef] at hw; linarith
  have hg2s : g2 ≤ 1 / 10 ^ 14 := by linarith
  have hηs : η ≤ 1 / 10 ^ 14 := by linarith
  have hc1 : (1 + g) * (1 + η) ≤ 1 + 1 / 10 ^ 12 := by
    have : g * η ≤ 2 / 10 ^ 13 * η := mul_le_mul_of_nonneg_right hgs hη
    linarith
  have hcS : g2 * ((1 + g) * (1 + η)) + g * (1 + η) ≤ w + (2 + 1 / 100) * M.u := by
    have h1 : g2 * ((1 + g) * (1 + η)) ≤ g2 * (1 + 1 / 10 ^ 12) := mul_le_mul_of_nonneg_left hc1 hg20
    have h2 : g * η ≤ 1 / 10 ^ 14 * g := by
      rw [mul_comm]; exact mul_le_mul_of_nonneg_right hηs hg0
    rw [hwdef] at hw ⊢
    linarith
  have hfin : g2 * (|y| + (1 + g) * ((1 + η) * S)) + g * ((1 + η) * S)
      = g2 * |y| + (g2 * ((1 + g) * (1 + η)) + g * (1 + η)) * S := by ring
  rw [hfin]
  have h1 : g2 * |y| ≤ (w + 3 * M.u) * |y| := mul_le_mul_of_nonneg_right (by linarith) hy
  have h2 : (g2 * ((1 + g) * (1 + η)) + g * (1 + η)) * S ≤ (w + 3 * M.u) * S :=
    mul_le_mul_of_nonneg_right (by linarith) hS
  calc _ ≤ (w + 3 * M.u) * |y| + (w + 3 * M.u) * S := add_le_add h1 h2
    _ = _ := by rw [hwdef]; ring

/-- **difference of two rounded values against the exact integral** `P(b) − P(a)`, `P(t) = t·Σ eⱼ tʲ`;
`k` is the constant term (any number) -/
theorem difference_defect (hu53 : M.u ≤ (2 : K) ^ (-53 : ℤ)) (κ : ℕ) (hκ : κ ≤ 100) {ds es : List K}
    (hR : List.Forall₂ (Rel (2 * M.u / (1 - M.u))) ds es) (a b k Fa Fb : K)
    (hFa : |Fa - (k + a * polySum ds a)| ≤ ((1 + M.u) ^ κ - 1) * (|k| + |a| * polySum (ds.map abs) |a|))
    (hFb : |Fb - (k + b * polySum ds b)| ≤ ((1 + M.u) ^ κ - 1) * (|k| + |b| * polySum (ds.map abs) |b|)) :
    |Fb - Fa - (b * polySum es b - a * polySum es a)|
      ≤ (κ + 3) * M.u * (|a| * polySum (es.map abs) |a| + |b| * polySum (es.map abs) |b| + 2 * |k|) := by
  have hu0 := M.hu
  have hη := eta_nonneg M.hu M.hu1
  obtain ⟨hSa, _, hDAa, hPa⟩ := shifted_facts hη hR a
  obtain ⟨hSb, _, hDAb, hPb⟩ := shifted_facts hη hR b
  obtain ⟨hg, hg2, hη', hw, hu', hw100⟩ := small_factors M hu53 κ hκ
  have hg0 := growth_nonneg M.hu κ
  have h := diff_core hg0 hη hDAa hDAb hPa hPb hFa hFb
  refine h.trans ?_
  set g := (1 + M.u) ^ κ - 1
  set η := 2 * M.u / (1 - M.u)
  set Sa := |a| * polySum (es.map abs) |a|
  set Sb := |b| * polySum (es.map abs) |b|
  set w := (κ : K) * M.u with hwdef
  have hw0 : 0 ≤ w := mul_nonneg (Nat.cast_nonneg κ) hu0
  have hk0 := abs_nonneg k
  have hηs : η ≤ 1 / 10 ^ 14 := by linarith
  have hcS : g * (1 + η) + η ≤ w + 3 * M.u := by
    have h2 : g * η ≤ 1 / 10 ^ 14 * g := by
      rw [mul_comm]; exact mul_le_mul_of_nonneg_right hηs hg0
    rw [hwdef] at hw ⊢
    linarith
  have hfin : g * (2 * |k| + (1 + η) * (Sa + Sb)) + η * (Sa + Sb)
      = g * (2 * |k|) + (g * (1 + η) + η) * (Sa + Sb) := by ring
  rw [hfin]
  have h1 : g * (2 * |k|) ≤ (w + 3 * M.u) * (2 * |k|) :=
    mul_le_mul_of_nonneg_right (by rw [hwdef]; linarith) (by linarith)
  have h2 : (g * (1 + η) + η) * (Sa + Sb) ≤ (w + 3 * M.u) * (Sa + Sb) :=
    mul_le_mul_of_nonneg_right hcS (by linarith)
  calc _ ≤ (w + 3 * M.u) * (2 * |k|) + (w + 3 * M.u) * (Sa + Sb) := add_le_add h1 h2
    _ = _ := by rw [hwdef]; ring

end compose
end PP.Lemmas.CalculusFP
