import PP.Lemmas.Evaluator
/-! Helper lemmas for C13 (the two-cursor merge). Core Lean only. -/
set_option linter.unusedSectionVars false
namespace PP.Lemmas.Merge
open FloatLike OrdLaws Hand PP.Props.C02 PP.Lemmas.Evaluator
variable {F T P : Type} [FloatLike F] [OrdLaws F]

theorem selSeg_cons (a : Segment F T) (l : List (Segment F T)) (x : F) :
    selSeg (a :: l) x = if l = [] then some a else if lt x a.end then some a else selSeg l x := by
  cases l <;> simp [selSeg]

theorem selSeg_cons_ne (a : Segment F T) (l : List (Segment F T)) (x : F) (h : l ≠ []) :
    selSeg (a :: l) x = if lt x a.end then some a else selSeg l x := by
  rw [selSeg_cons]; simp [h]

theorem pcmp_nn (a b : F) (ha : isNaN a = false) (hb : isNaN b = false) :
    pcmp a b = if key a < key b then some .lt else if key b < key a then some .gt else some .eq := by
  simp [pcmp, ha, hb, lt_def]

theorem pcmp_none_iff (a b : F) : pcmp a b = none ↔ (isNaN a = true ∨ isNaN b = true) := by
  unfold pcmp
  by_cases ha : isNaN a = true <;> by_cases hb : isNaN b = true <;> simp [ha, hb] <;>
    (repeat' split) <;> simp

theorem pcmp_lt (a b : F) (ha : isNaN a = false) (hb : isNaN b = false) (h : pcmp a b = some .lt) : key a < key b := by
  rw [pcmp_nn a b ha hb] at h
  by_cases h1 : key a < key b
  · exact h1
  · by_cases h2 : key b < key a <;> simp [h1, h2] at h
theorem pcmp_gt (a b : F) (ha : isNaN a = false) (hb : isNaN b = false) (h : pcmp a b = some .gt) : key b < key a := by
  rw [pcmp_nn a b ha hb] at h
  by_cases h1 : key a < key b
  · simp [h1] at h
  · by_cases h2 : key b < key a
    · exact h2
    · simp [h1, h2] at h
theorem pcmp_eq (a b : F) (ha : isNaN a = false) (hb : isNaN b = false) (h : pcmp a b = some .eq) : key a = key b := by
  rw [pcmp_nn a b ha hb] at h
  by_cases h1 : key a < key b
  · simp [h1] at h
  · by_cases h2 : key b < key a
    · simp [h1, h2] at h
    · omega

theorem lt_key (x e : F) (hx : isNaN x = false) (he : isNaN e = false) : lt x e = decide (key x < key e) := by
  simp [lt_def, hx, he]

theorem merge_ne_nil (op : T → T → P) (f g : List (Segment F T)) :
    ∀ res, merge op f g = some res → res ≠ [] := by
  fun_induction merge op f g <;> intro res h <;> simp_all <;>
    first
    | (obtain ⟨_, _, rfl⟩ := h; simp)
    | (subst h; simp)
    | skip

end PP.Lemmas.Merge
