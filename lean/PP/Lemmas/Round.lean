import Mathlib.Tactic.Ring
import Mathlib.Tactic.Linarith
import Mathlib.Tactic.FieldSimp
import Mathlib.Tactic.Positivity
import Mathlib.Tactic.NormNum
import Mathlib.Tactic.Push
import Mathlib.Algebra.Order.Field.Basic
import Mathlib.Algebra.Order.Field.Power
import Mathlib.Data.Rat.Cast.Order
import PP.Core.F64
/-!
# The rounding core of the soft-float `F64` (`PP/Core/F64.lean`)

Everything here is about the four integer functions `F64.floorLog2Ratio`, `F64.scaleBy`, `F64.rne`,
`F64.roundPos` (round a positive ratio `num/den` to a significand and an exponent), stated over `ℚ`.

* `rne_close`, `flr_spec`, `scaleBy_ratio`, `roundPos_rel` : the standard model on the normal range,
  `|q·2^e − num/den| ≤ 2⁻⁵³·(num/den)` (ported from the design experiments);
* `flr_unique`, `rne_congr`, `roundPos_congr` : the result depends only on the *value* `num/den`;
* `roundPosU` : the same rounding with an unbounded exponent range (no clamp at `-1074`), with
  `roundPosU_rel` (no side condition), `roundPosU_bounds` (`2^52 ≤ q ≤ 2^53`) and
  `roundPos_eq_U` (`roundPos = roundPosU` on the normal range);
* `roundPos_bounds` : `q ≤ 2^53`, `-1074 ≤ e`, `2^52 ≤ q ∨ e = -1074` (canonical-or-carry);
* `roundPos_repr` : a value `m·2^e` with `(m, e)` in canonical form rounds to `(m, e)` (also subnormals).
-/
namespace F64

/-! ## `rne` -/

theorem rne_close (n d : Nat) (hd : 0 < d) :
    |((rne n d : Nat) : ℚ) - (n : ℚ) / d| ≤ 1 / 2 := by
  have hdq : (0 : ℚ) < d := by exact_mod_cast hd
  have hdiv : (n : ℚ) = (n / d : Nat) * d + (n % d : Nat) := by
    have := Nat.div_add_mod n d
    have h2 : ((d * (n / d) + n % d : Nat) : ℚ) = n := by exact_mod_cast congrArg (fun x : Nat => (x : ℚ)) this
    push_cast at h2; linarith
  have hr : (n % d : Nat) < d := Nat.mod_lt _ hd
  have hrq : ((n % d : Nat) : ℚ) < d := by exact_mod_cast hr
  have hr0 : (0 : ℚ) ≤ (n % d : Nat) := by positivity
  have key : (n : ℚ) / d = (n / d : Nat) + ((n % d : Nat) : ℚ) / d := by
    rw [hdiv]; field_simp
  unfold rne
  simp only []
  split
  · rename_i h
    have hq : (d : ℚ) < 2 * ((n % d : Nat) : ℚ) := by exact_mod_cast h
    rw [key]; push_cast
    rw [abs_le]; constructor
    · have : ((n % d : Nat) : ℚ) / d ≤ 1 := by rw [div_le_one hdq]; linarith
      linarith
    · have : (1:ℚ)/2 ≤ ((n % d : Nat) : ℚ) / d := by rw [le_div_iff₀ hdq]; linarith
      linarith
  · split
    · rename_i h1 h
      have hq : 2 * ((n % d : Nat) : ℚ) = d := by exact_mod_cast h
      have hfrac : ((n % d : Nat) : ℚ) / d = 1/2 := by rw [div_eq_iff hdq.ne']; linarith
      rw [key, hfrac]; push_cast
      rcases Nat.mod_two_eq_zero_or_one (n / d) with h0 | h0 <;> rw [h0] <;> norm_num
    · rename_i h1 h2
      have hq : 2 * ((n % d : Nat) : ℚ) < d := by
        have : 2 * (n % d) < d := by omega
        exact_mod_cast this
      rw [key]
      have h0 : 0 ≤ ((n % d : Nat) : ℚ) / d := by positivity
      have : ((n % d : Nat) : ℚ) / d ≤ 1/2 := by rw [div_le_iff₀ hdq]; linarith
      rw [abs_le]; constructor <;> linarith

/-- `rne` is between the floor and the floor + 1 -/
theorem rne_mem (n d : Nat) : rne n d = n / d ∨ rne n d = n / d + 1 := by
  unfold rne
  simp only []
  split
  · exact Or.inr rfl
  · split
    · rcases Nat.mod_two_eq_zero_or_one (n / d) with h0 | h0 <;> rw [h0] <;> simp
    · exact Or.inl rfl

/-- an exact quotient is not changed -/
theorem rne_exact (m d : Nat) (hd : 0 < d) : rne (m * d) d = m := by
  unfold rne
  simp only [Nat.mul_mod_left, Nat.mul_div_cancel _ hd]
  have h1 : ¬ (2 * 0 > d) := by omega
  have h2 : ¬ (2 * 0 = d) := by omega
  rw [if_neg h1, if_neg h2]

/-- lower bound: `k ≤ n/d → k ≤ rne n d` -/
theorem le_rne (n d k : Nat) (hd : 0 < d) (h : k * d ≤ n) : k ≤ rne n d := by
  have : k ≤ n / d := (Nat.le_div_iff_mul_le hd).mpr h
  rcases rne_mem n d with e | e <;> omega

/-- upper bound: `n/d ≤ k → rne n d ≤ k` -/
theorem rne_le (n d k : Nat) (hd : 0 < d) (h : n ≤ k * d) : rne n d ≤ k := by
  rcases Nat.lt_or_ge (n / d) k with hlt | hge
  · rcases rne_mem n d with e | e <;> omega
  · -- n / d = k and the remainder is 0
    have hk : k * d ≤ n := by
      calc k * d ≤ (n / d) * d := Nat.mul_le_mul_right d hge
        _ ≤ n := Nat.div_mul_le_self n d
    have hn : n = k * d := le_antisymm h hk
    rw [hn, rne_exact k d hd]

/-- sharper upper bound: `n/d < k + 1/2 → rne n d ≤ k` -/
theorem rne_le_of_lt_half (n d k : Nat) (hd : 0 < d) (h : 2 * n < (2 * k + 1) * d) : rne n d ≤ k := by
  have hdm := Nat.div_add_mod n d
  have hr : n % d < d := Nat.mod_lt _ hd
  rcases Nat.lt_trichotomy (n / d) k with hlt | heq | hgt
  · rcases rne_mem n d with e | e <;> omega
  · -- q = k, 2 r < d
    have h2 : 2 * (n % d) < d := by
      have : n = d * k + n % d := by rw [← heq]; exact hdm.symm
      nlinarith
    unfold rne
    simp only []
    rw [if_neg (by omega), if_neg (by omega)]
    omega
  · exfalso
    have : (k + 1) * d ≤ n := by
      calc (k + 1) * d ≤ (n / d) * d := Nat.mul_le_mul_right d hgt
        _ ≤ n := Nat.div_mul_le_self n d
    nlinarith

theorem rne_mul_left (k n d : Nat) (hk : 0 < k) : rne (k * n) (k * d) = rne n d := by
  unfold rne
  simp only [Nat.mul_div_mul_left _ _ hk, Nat.mul_mod_mul_left]
  have e1 : (2 * (k * (n % d)) > k * d) ↔ (2 * (n % d) > d) := by
    constructor
    · intro h; by_contra h'; have : 2 * (n % d) ≤ d := by omega
      have := Nat.mul_le_mul_left k this; nlinarith
    · intro h; have := Nat.mul_lt_mul_of_pos_left h hk; nlinarith
  have e2 : (2 * (k * (n % d)) = k * d) ↔ (2 * (n % d) = d) := by
    constructor
    · intro h
      have : k * (2 * (n % d)) = k * d := by rw [← h]; ring
      exact Nat.eq_of_mul_eq_mul_left hk this
    · intro h
      calc 2 * (k * (n % d)) = k * (2 * (n % d)) := by ring
        _ = k * d := by rw [h]
  simp only [e1, e2]

/-- `rne n d` depends only on the value `n/d` -/
theorem rne_congr (n d n' d' : Nat) (hd : 0 < d) (hd' : 0 < d') (h : n * d' = n' * d) :
    rne n d = rne n' d' := by
  calc rne n d = rne (d' * n) (d' * d) := (rne_mul_left d' n d hd').symm
    _ = rne (d * n') (d * d') := by rw [Nat.mul_comm d' n, h, Nat.mul_comm n' d, Nat.mul_comm d' d]
    _ = rne n' d' := rne_mul_left d n' d' hd

/-- cross-multiplication from equality of the rational values -/
theorem cross_of_ratio_eq (n d n' d' : Nat) (hd : 0 < d) (hd' : 0 < d')
    (h : (n : ℚ) / d = (n' : ℚ) / d') : n * d' = n' * d := by
  have hdq : (d : ℚ) ≠ 0 := by exact_mod_cast hd.ne'
  have hdq' : (d' : ℚ) ≠ 0 := by exact_mod_cast hd'.ne'
  rw [div_eq_div_iff hdq hdq'] at h
  exact_mod_cast h

/-! ## `floorLog2Ratio` -/

/-- spec of floorLog2Ratio -/
theorem flr_spec (num den : Nat) (hn : 0 < num) (hd : 0 < den) :
    (2:ℚ) ^ (floorLog2Ratio num den) ≤ (num:ℚ) / den ∧ (num:ℚ) / den < (2:ℚ) ^ (floorLog2Ratio num den + 1) := by
  have hdq : (0:ℚ) < den := by exact_mod_cast hd
  have hnq : (0:ℚ) < num := by exact_mod_cast hn
  have a1 : ((2 ^ num.log2 : Nat) : ℚ) ≤ num := by exact_mod_cast Nat.log2_self_le hn.ne'
  have a2 : (num : ℚ) < ((2 ^ (num.log2 + 1) : Nat) : ℚ) := by exact_mod_cast (Nat.lt_log2_self (n := num))
  have b1 : ((2 ^ den.log2 : Nat) : ℚ) ≤ den := by exact_mod_cast Nat.log2_self_le hd.ne'
  have b2 : (den : ℚ) < ((2 ^ (den.log2 + 1) : Nat) : ℚ) := by exact_mod_cast (Nat.lt_log2_self (n := den))
  push_cast at a1 a2 b1 b2
  have two_pos : (0:ℚ) < 2 := by norm_num
  set a := num.log2
  set b := den.log2
  have lo : (2:ℚ) ^ ((a:Int) - b - 1) < (num:ℚ) / den := by
    rw [lt_div_iff₀ hdq]
    have : (2:ℚ) ^ ((a:Int) - b - 1) * (2:ℚ)^(b+1) = 2 ^ a := by
      rw [← zpow_natCast, ← zpow_natCast, ← zpow_add₀ (by norm_num)]; congr 1; push_cast; ring
    calc (2:ℚ) ^ ((a:Int) - b - 1) * den < (2:ℚ) ^ ((a:Int) - b - 1) * 2^(b+1) := by
            apply mul_lt_mul_of_pos_left b2 (zpow_pos two_pos _)
      _ = 2^a := this
      _ ≤ num := a1
  have hi : (num:ℚ) / den < (2:ℚ) ^ ((a:Int) - b + 1) := by
    rw [div_lt_iff₀ hdq]
    have : (2:ℚ) ^ ((a:Int) - b + 1) * (2:ℚ)^b = 2 ^ (a+1) := by
      rw [← zpow_natCast, ← zpow_natCast, ← zpow_add₀ (by norm_num)]; congr 1; push_cast; ring
    calc (num:ℚ) < 2^(a+1) := a2
      _ = (2:ℚ) ^ ((a:Int) - b + 1) * 2^b := this.symm
      _ ≤ (2:ℚ) ^ ((a:Int) - b + 1) * den := by
            apply mul_le_mul_of_nonneg_left b1 (le_of_lt (zpow_pos two_pos _))
  have test : ((if (a:Int) - b ≥ 0 then decide (den * 2 ^ ((a:Int) - b).toNat ≤ num)
        else decide (den ≤ num * 2 ^ (-((a:Int) - b)).toNat)) = true
        ↔ (2:ℚ)^((a:Int) - b) ≤ (num:ℚ)/den) := by
    generalize (a:Int) - b = t
    rw [le_div_iff₀ hdq]
    split
    · rename_i h
      have ht : ((t.toNat : Nat) : Int) = t := Int.toNat_of_nonneg h
      rw [decide_eq_true_iff]
      have : (2:ℚ)^t = ((2 ^ t.toNat : Nat) : ℚ) := by
        conv_lhs => rw [← ht]
        push_cast; rw [zpow_natCast]
      rw [this]
      constructor
      · intro hle; have : ((den * 2 ^ t.toNat : Nat) : ℚ) ≤ num := by exact_mod_cast hle
        push_cast at this ⊢; linarith
      · intro hle; have : ((den * 2 ^ t.toNat : Nat) : ℚ) ≤ num := by push_cast at hle ⊢; linarith
        exact_mod_cast this
    · rename_i h
      have h' : 0 ≤ -t := by omega
      have ht : (((-t).toNat : Nat) : Int) = -t := Int.toNat_of_nonneg h'
      rw [decide_eq_true_iff]
      have e2 : (2:ℚ)^t * ((2 ^ (-t).toNat : Nat) : ℚ) = 1 := by
        push_cast; rw [← zpow_natCast, ht, ← zpow_add₀ (by norm_num)]; simp
      have p2 : (0:ℚ) < ((2 ^ (-t).toNat : Nat) : ℚ) := by positivity
      constructor
      · intro hle
        have h1 : ((den : Nat) : ℚ) ≤ ((num * 2 ^ (-t).toNat : Nat) : ℚ) := by exact_mod_cast hle
        push_cast at h1
        have := mul_le_mul_of_nonneg_left h1 (le_of_lt (zpow_pos two_pos t))
        push_cast at e2
        nlinarith [e2]
      · intro hle
        have := mul_le_mul_of_nonneg_right hle (le_of_lt p2)
        have h3 : (den:ℚ) ≤ num * ((2 ^ (-t).toNat : Nat) : ℚ) := by nlinarith [e2]
        exact_mod_cast h3
  have hdef : floorLog2Ratio num den =
      if (if (a:Int) - b ≥ 0 then decide (den * 2 ^ ((a:Int) - b).toNat ≤ num)
        else decide (den ≤ num * 2 ^ (-((a:Int) - b)).toNat)) = true then (a:Int) - b else (a:Int) - b - 1 := rfl
  rw [hdef]
  by_cases hge : (if (a:Int) - b ≥ 0 then decide (den * 2 ^ ((a:Int) - b).toNat ≤ num)
        else decide (den ≤ num * 2 ^ (-((a:Int) - b)).toNat)) = true
  · rw [if_pos hge]
    exact ⟨test.mp hge, hi⟩
  · rw [if_neg hge]
    have hlt : ¬ ((2:ℚ)^((a:Int) - b) ≤ (num:ℚ)/den) := fun h => hge (test.mpr h)
    rw [not_le] at hlt
    refine ⟨le_of_lt lo, ?_⟩
    have : (a:Int) - b - 1 + 1 = (a:Int) - b := by ring
    rw [this]; exact hlt

/-- `2^a ≤ v < 2^(b+1)` and `2^b ≤ v`... : the binade of a positive rational is unique -/
theorem binade_unique {v : ℚ} {a b : Int} (ha : (2:ℚ)^a ≤ v) (ha' : v < (2:ℚ)^(a+1))
    (hb : (2:ℚ)^b ≤ v) (hb' : v < (2:ℚ)^(b+1)) : a = b := by
  have h1 : (2:ℚ)^a < (2:ℚ)^(b+1) := lt_of_le_of_lt ha hb'
  have h2 : (2:ℚ)^b < (2:ℚ)^(a+1) := lt_of_le_of_lt hb ha'
  have := (zpow_lt_zpow_iff_right₀ (by norm_num : (1:ℚ) < 2)).mp h1
  have := (zpow_lt_zpow_iff_right₀ (by norm_num : (1:ℚ) < 2)).mp h2
  omega

theorem flr_unique (num den : Nat) (hn : 0 < num) (hd : 0 < den) (k : Int)
    (h1 : (2:ℚ)^k ≤ (num:ℚ)/den) (h2 : (num:ℚ)/den < (2:ℚ)^(k+1)) : floorLog2Ratio num den = k :=
  let ⟨a, b⟩ := flr_spec num den hn hd
  binade_unique a b h1 h2

theorem flr_congr (n d n' d' : Nat) (hn : 0 < n) (hd : 0 < d) (hn' : 0 < n') (hd' : 0 < d')
    (h : (n : ℚ) / d = (n' : ℚ) / d') : floorLog2Ratio n d = floorLog2Ratio n' d' := by
  obtain ⟨a, b⟩ := flr_spec n' d' hn' hd'
  rw [← h] at a b
  exact flr_unique n d hn hd _ a b

/-! ## `scaleBy` -/

theorem scaleBy_ratio (num den : Nat) (hd : 0 < den) (e : Int) :
    ((scaleBy num den e).1 : ℚ) / ((scaleBy num den e).2 : ℚ) = ((num:ℚ) / den) / (2:ℚ)^e ∧ 0 < (scaleBy num den e).2 := by
  have hdq : (0:ℚ) < den := by exact_mod_cast hd
  unfold scaleBy
  split
  · rename_i h
    have ht : ((e.toNat : Nat) : Int) = e := Int.toNat_of_nonneg h
    have : (2:ℚ)^e = ((2 ^ e.toNat : Nat) : ℚ) := by
      conv_lhs => rw [← ht]
      push_cast; rw [zpow_natCast]
    refine ⟨?_, by positivity⟩
    simp only []
    rw [this]; push_cast; field_simp
  · rename_i h
    have h' : 0 ≤ -e := by omega
    have ht : (((-e).toNat : Nat) : Int) = -e := Int.toNat_of_nonneg h'
    have e2 : (2:ℚ)^e * ((2 ^ (-e).toNat : Nat) : ℚ) = 1 := by
      push_cast; rw [← zpow_natCast, ht, ← zpow_add₀ (by norm_num)]; simp
    refine ⟨?_, hd⟩
    simp only []
    push_cast at e2 ⊢
    have hpos : (0:ℚ) < (2:ℚ)^e := zpow_pos (by norm_num) e
    field_simp
    nlinarith [e2]

/-- rounding the scaled pair depends only on the value -/
theorem rne_scaleBy_congr (n d n' d' : Nat) (hd : 0 < d) (hd' : 0 < d') (e : Int)
    (h : (n : ℚ) / d = (n' : ℚ) / d') :
    rne (scaleBy n d e).1 (scaleBy n d e).2 = rne (scaleBy n' d' e).1 (scaleBy n' d' e).2 := by
  obtain ⟨r1, p1⟩ := scaleBy_ratio n d hd e
  obtain ⟨r2, p2⟩ := scaleBy_ratio n' d' hd' e
  apply rne_congr _ _ _ _ p1 p2
  apply cross_of_ratio_eq _ _ _ _ p1 p2
  rw [r1, r2, h]

/-- integer bounds on the rounded scaled pair from rational bounds on the scaled value -/
theorem rne_scaleBy_bounds (n d : Nat) (hd : 0 < d) (e : Int) (lo hi : Nat)
    (hlo : (lo : ℚ) ≤ ((n:ℚ) / d) / (2:ℚ)^e) (hhi : ((n:ℚ) / d) / (2:ℚ)^e ≤ hi) :
    lo ≤ rne (scaleBy n d e).1 (scaleBy n d e).2 ∧ rne (scaleBy n d e).1 (scaleBy n d e).2 ≤ hi := by
  obtain ⟨r1, p1⟩ := scaleBy_ratio n d hd e
  rw [← r1] at hlo hhi
  have p1q : (0:ℚ) < ((scaleBy n d e).2 : ℚ) := by exact_mod_cast p1
  rw [le_div_iff₀ p1q] at hlo
  rw [div_le_iff₀ p1q] at hhi
  constructor
  · apply le_rne _ _ _ p1; exact_mod_cast hlo
  · apply rne_le _ _ _ p1; exact_mod_cast hhi

/-! ## `roundPos` and its unclamped variant -/

/-- `roundPos` with an unbounded exponent range: always 53 significant bits -/
def roundPosU (num den : Nat) : Nat × Int :=
  let e : Int := floorLog2Ratio num den - 52
  let nd := scaleBy num den e
  (rne nd.1 nd.2, e)

theorem roundPos_eq_U (num den : Nat) (hnorm : -1074 ≤ floorLog2Ratio num den - 52) :
    roundPos num den = roundPosU num den := by
  unfold roundPos roundPosU
  simp only [_root_.max_eq_left hnorm]

theorem roundPos_congr (n d n' d' : Nat) (hn : 0 < n) (hd : 0 < d) (hn' : 0 < n') (hd' : 0 < d')
    (h : (n : ℚ) / d = (n' : ℚ) / d') : roundPos n d = roundPos n' d' := by
  unfold roundPos
  simp only [flr_congr n d n' d' hn hd hn' hd' h]
  rw [rne_scaleBy_congr n d n' d' hd hd' _ h]

theorem roundPosU_congr (n d n' d' : Nat) (hn : 0 < n) (hd : 0 < d) (hn' : 0 < n') (hd' : 0 < d')
    (h : (n : ℚ) / d = (n' : ℚ) / d') : roundPosU n d = roundPosU n' d' := by
  unfold roundPosU
  simp only [flr_congr n d n' d' hn hd hn' hd' h]
  rw [rne_scaleBy_congr n d n' d' hd hd' _ h]

/-- The standard model for the unclamped rounding: relative error at most `2^-53`, no side condition. -/
theorem roundPosU_rel (num den : Nat) (hn : 0 < num) (hd : 0 < den) :
    |((roundPosU num den).1 : ℚ) * (2:ℚ)^((roundPosU num den).2) - (num:ℚ)/den|
      ≤ (2:ℚ)^(-53:Int) * ((num:ℚ)/den) := by
  have hspec := flr_spec num den hn hd
  set fl := floorLog2Ratio num den with hfl
  unfold roundPosU
  simp only [← hfl]
  obtain ⟨hr, hdpos⟩ := scaleBy_ratio num den hd (fl - 52)
  have hc := rne_close (scaleBy num den (fl - 52)).1 (scaleBy num den (fl - 52)).2 hdpos
  rw [hr] at hc
  set q : ℚ := ((rne (scaleBy num den (fl - 52)).1 (scaleBy num den (fl - 52)).2 : Nat) : ℚ)
  set v : ℚ := (num:ℚ)/den
  have hp : (0:ℚ) < (2:ℚ)^(fl - 52) := zpow_pos (by norm_num) _
  have h1 : q * (2:ℚ)^(fl - 52) - v = (q - v / (2:ℚ)^(fl - 52)) * (2:ℚ)^(fl - 52) := by
    field_simp
  rw [h1, abs_mul, abs_of_pos hp]
  have h2 : |q - v / (2:ℚ)^(fl - 52)| * (2:ℚ)^(fl - 52) ≤ (1/2) * (2:ℚ)^(fl - 52) :=
    mul_le_mul_of_nonneg_right hc (le_of_lt hp)
  have h3 : (1/2 : ℚ) * (2:ℚ)^(fl - 52) = (2:ℚ)^(-53:Int) * (2:ℚ)^fl := by
    rw [← zpow_add₀ (by norm_num : (2:ℚ) ≠ 0)]
    have : (-53:Int) + fl = (fl - 52) + (-1) := by ring
    rw [this, zpow_add₀ (by norm_num : (2:ℚ) ≠ 0)]
    norm_num; ring
  have h4 : (2:ℚ)^(-53:Int) * (2:ℚ)^fl ≤ (2:ℚ)^(-53:Int) * v :=
    mul_le_mul_of_nonneg_left hspec.1 (le_of_lt (zpow_pos (by norm_num) _))
  linarith

/-- The standard model for the rounding core: in the normal range the relative error is at most 2^-53. -/
theorem roundPos_rel (num den : Nat) (hn : 0 < num) (hd : 0 < den)
    (hnorm : -1074 ≤ floorLog2Ratio num den - 52) :
    |((roundPos num den).1 : ℚ) * (2:ℚ)^((roundPos num den).2) - (num:ℚ)/den|
      ≤ (2:ℚ)^(-53:Int) * ((num:ℚ)/den) := by
  rw [roundPos_eq_U num den hnorm]; exact roundPosU_rel num den hn hd

/-- the scaled value lies in `[2^52, 2^53)` when the exponent is `fl - 52` -/
theorem scaled_range (num den : Nat) (hn : 0 < num) (hd : 0 < den) :
    (2:ℚ)^(52:Nat) ≤ ((num:ℚ)/den) / (2:ℚ)^(floorLog2Ratio num den - 52) ∧
    ((num:ℚ)/den) / (2:ℚ)^(floorLog2Ratio num den - 52) < (2:ℚ)^(53:Nat) := by
  obtain ⟨a, b⟩ := flr_spec num den hn hd
  set fl := floorLog2Ratio num den
  have hp : (0:ℚ) < (2:ℚ)^(fl - 52) := zpow_pos (by norm_num) _
  have e1 : (2:ℚ)^(52:Nat) * (2:ℚ)^(fl - 52) = (2:ℚ)^fl := by
    rw [← zpow_natCast, ← zpow_add₀ (by norm_num : (2:ℚ) ≠ 0)]; congr 1; push_cast; ring
  have e2 : (2:ℚ)^(53:Nat) * (2:ℚ)^(fl - 52) = (2:ℚ)^(fl+1) := by
    rw [← zpow_natCast, ← zpow_add₀ (by norm_num : (2:ℚ) ≠ 0)]; congr 1; push_cast; ring
  constructor
  · rw [le_div_iff₀ hp, e1]; exact a
  · rw [div_lt_iff₀ hp, e2]; exact b

/-- the unclamped significand has exactly 53 bits, or is the carry `2^53` -/
theorem roundPosU_bounds (num den : Nat) (hn : 0 < num) (hd : 0 < den) :
    2 ^ 52 ≤ (roundPosU num den).1 ∧ (roundPosU num den).1 ≤ 2 ^ 53 := by
  obtain ⟨a, b⟩ := scaled_range num den hn hd
  unfold roundPosU
  simp only []
  apply rne_scaleBy_bounds num den hd _ (2^52) (2^53)
  · push_cast; exact a
  · push_cast; exact le_of_lt b

/-- canonical-or-carry: the output of `roundPos` -/
theorem roundPos_bounds (num den : Nat) (hn : 0 < num) (hd : 0 < den) :
    (roundPos num den).1 ≤ 2 ^ 53 ∧ -1074 ≤ (roundPos num den).2 ∧
      (2 ^ 52 ≤ (roundPos num den).1 ∨ (roundPos num den).2 = -1074) := by
  by_cases hnorm : -1074 ≤ floorLog2Ratio num den - 52
  · rw [roundPos_eq_U num den hnorm]
    obtain ⟨a, b⟩ := roundPosU_bounds num den hn hd
    exact ⟨b, hnorm, Or.inl a⟩
  · have hmax : Max.max (floorLog2Ratio num den - 52) (-1074) = -1074 := max_eq_right (by omega)
    obtain ⟨_, b⟩ := flr_spec num den hn hd
    unfold roundPos
    simp only [hmax]
    set fl := floorLog2Ratio num den
    refine ⟨?_, le_refl _, Or.inr trivial⟩
    have hp : (0:ℚ) < (2:ℚ)^(-1074:Int) := zpow_pos (by norm_num) _
    have e53 : ((2^53 : Nat) : ℚ) = (2:ℚ)^(53:Int) := by norm_num
    have hhi : ((num:ℚ)/den) / (2:ℚ)^(-1074:Int) ≤ ((2^53 : Nat) : ℚ) := by
      rw [div_le_iff₀ hp, e53, ← zpow_add₀ (by norm_num : (2:ℚ) ≠ 0)]
      have : (2:ℚ)^(fl+1) ≤ (2:ℚ)^((53:Int) + -1074) := zpow_le_zpow_right₀ (by norm_num) (by omega)
      exact le_trans b.le this
    exact (rne_scaleBy_bounds num den hd (-1074) 0 (2^53) (by positivity) hhi).2

/-- on the normal range the significand of `roundPos` has 53 bits (or is the carry) -/
theorem roundPos_normal (num den : Nat) (hn : 0 < num) (hd : 0 < den)
    (hnorm : -1074 ≤ floorLog2Ratio num den - 52) : 2 ^ 52 ≤ (roundPos num den).1 := by
  rw [roundPos_eq_U num den hnorm]; exact (roundPosU_bounds num den hn hd).1

/-- `2^-1022 ≤ num/den` puts the ratio in the normal range -/
theorem flr_of_normal (num den : Nat) (hn : 0 < num) (hd : 0 < den)
    (h : (2:ℚ)^(-1022:Int) ≤ (num:ℚ)/den) : -1074 ≤ floorLog2Ratio num den - 52 := by
  obtain ⟨_, b⟩ := flr_spec num den hn hd
  have := (zpow_lt_zpow_iff_right₀ (by norm_num : (1:ℚ) < 2)).mp (lt_of_le_of_lt h b)
  omega

/-- representable values round to themselves: `(m, e)` canonical, `m > 0` -/
theorem roundPos_repr (num den m : Nat) (e : Int) (hd : 0 < den) (hm : 0 < m) (hm53 : m < 2 ^ 53)
    (he : -1074 ≤ e) (hc : 2 ^ 52 ≤ m ∨ e = -1074) (hv : (num:ℚ)/den = m * (2:ℚ)^e) :
    roundPos num den = (m, e) := by
  have hmq : (0:ℚ) < m := by exact_mod_cast hm
  have hp : (0:ℚ) < (2:ℚ)^e := zpow_pos (by norm_num) _
  have hdq : (0:ℚ) < den := by exact_mod_cast hd
  have hn : 0 < num := by
    have : (0:ℚ) < (num:ℚ)/den := by rw [hv]; positivity
    have : (0:ℚ) < num := by
      by_contra h0
      have : (num:ℚ) = 0 := le_antisymm (not_lt.mp h0) (by positivity)
      simp [this] at *
    exact_mod_cast this
  -- the exponent chosen by roundPos is e
  have hE : Max.max (floorLog2Ratio num den - 52) (-1074) = e := by
    rcases Nat.lt_or_ge m (2^52) with hsub | hnor
    · -- subnormal: e = -1074 and fl - 52 < -1074
      have he' : e = -1074 := by
        rcases hc with h | h
        · omega
        · exact h
      obtain ⟨a, _⟩ := flr_spec num den hn hd
      have hlt : (num:ℚ)/den < (2:ℚ)^((52:Int) + e) := by
        rw [hv, zpow_add₀ (by norm_num : (2:ℚ) ≠ 0)]
        apply mul_lt_mul_of_pos_right _ hp
        have : (m:ℚ) < ((2^52 : Nat) : ℚ) := by exact_mod_cast hsub
        rw [zpow_ofNat]; push_cast at this; exact this
      have := (zpow_lt_zpow_iff_right₀ (by norm_num : (1:ℚ) < 2)).mp (lt_of_le_of_lt a hlt)
      rw [he']; apply max_eq_right; omega
    · have h1 : (2:ℚ)^((52:Int) + e) ≤ (num:ℚ)/den := by
        rw [hv, zpow_add₀ (by norm_num : (2:ℚ) ≠ 0)]
        apply mul_le_mul_of_nonneg_right _ hp.le
        have : ((2^52 : Nat) : ℚ) ≤ (m:ℚ) := by exact_mod_cast hnor
        rw [zpow_ofNat]; push_cast at this; exact this
      have h2 : (num:ℚ)/den < (2:ℚ)^((52:Int) + e + 1) := by
        have : (52:Int) + e + 1 = 53 + e := by ring
        rw [hv, this, zpow_add₀ (by norm_num : (2:ℚ) ≠ 0)]
        apply mul_lt_mul_of_pos_right _ hp
        have : (m:ℚ) < ((2^53 : Nat) : ℚ) := by exact_mod_cast hm53
        rw [zpow_ofNat]; push_cast at this; exact this
      rw [flr_unique num den hn hd _ h1 h2]
      have : (52:Int) + e - 52 = e := by ring
      rw [this]
      apply max_eq_left; omega
  unfold roundPos
  simp only [hE]
  obtain ⟨r1, p1⟩ := scaleBy_ratio num den hd e
  have hx : (scaleBy num den e).1 = m * (scaleBy num den e).2 := by
    have p1q : ((scaleBy num den e).2 : ℚ) ≠ 0 := by exact_mod_cast p1.ne'
    rw [hv, mul_div_assoc, div_self hp.ne', mul_one, div_eq_iff p1q] at r1
    exact_mod_cast r1
  rw [hx, rne_exact _ _ p1]

/-- sharper integer upper bound on the rounded scaled pair: scaled value `< k + 1/2` -/
theorem rne_scaleBy_le_of_lt_half (n d : Nat) (hd : 0 < d) (e : Int) (k : Nat)
    (h : 2 * (((n:ℚ) / d) / (2:ℚ)^e) < 2 * k + 1) :
    rne (scaleBy n d e).1 (scaleBy n d e).2 ≤ k := by
  obtain ⟨r1, p1⟩ := scaleBy_ratio n d hd e
  rw [← r1] at h
  have p1q : (0:ℚ) < ((scaleBy n d e).2 : ℚ) := by exact_mod_cast p1
  apply rne_le_of_lt_half _ _ _ p1
  have h' : 2 * ((scaleBy n d e).1 : ℚ) < (2 * k + 1) * ((scaleBy n d e).2 : ℚ) := by
    rw [mul_div_assoc', div_lt_iff₀ p1q] at h; exact h
  exact_mod_cast h'

/-! ## The idealised rounding `rnd64 : ℚ → ℚ`

Round-to-nearest-even to 53 significant bits with an unbounded exponent range. -/

/-- numerator and denominator of `|t|` -/
theorem abs_eq_natAbs_div_den (t : ℚ) : |t| = (t.num.natAbs : ℚ) / t.den := by
  have h1 : ((t.num.natAbs : ℕ) : ℚ) = |(t.num : ℚ)| := by
    rw [Nat.cast_natAbs, Int.cast_abs]
  have hd : (0:ℚ) < t.den := by exact_mod_cast t.den_pos
  rw [h1]
  conv_lhs => rw [← Rat.num_div_den t]
  rw [abs_div, abs_of_pos hd]

theorem natAbs_num_pos {t : ℚ} (ht : t ≠ 0) : 0 < t.num.natAbs :=
  Int.natAbs_pos.mpr (Rat.num_ne_zero.mpr ht)

/-- binary64 round-to-nearest-even without exponent bounds: the nearest 53-bit dyadic, ties to even;
`rnd64 0 = 0`; odd -/
def rnd64 (t : ℚ) : ℚ :=
  if t = 0 then 0 else
    (if t < 0 then -1 else 1) *
      (((roundPosU t.num.natAbs t.den).1 : ℚ) * (2:ℚ) ^ (roundPosU t.num.natAbs t.den).2)

@[simp] theorem rnd64_zero : rnd64 0 = 0 := by simp [rnd64]

theorem rnd64_neg (t : ℚ) : rnd64 (-t) = -rnd64 t := by
  by_cases ht : t = 0
  · subst ht; simp
  · have hnt : -t ≠ 0 := neg_ne_zero.mpr ht
    unfold rnd64
    rw [if_neg ht, if_neg hnt, Rat.neg_num, Int.natAbs_neg, Rat.neg_den]
    rcases lt_or_gt_of_ne ht with h | h
    · have h' : ¬ (-t < 0) := by linarith
      rw [if_pos h, if_neg h']; ring
    · have h' : (-t < 0) := by linarith
      have h'' : ¬ (t < 0) := by linarith
      rw [if_pos h', if_neg h'']; ring

/-- the standard model, with no side condition: `|rnd64 t − t| ≤ 2⁻⁵³·|t|` -/
theorem rnd64_rel (t : ℚ) : |rnd64 t - t| ≤ (2:ℚ)^(-53:Int) * |t| := by
  by_cases ht : t = 0
  · subst ht; simp
  · have hrel := roundPosU_rel t.num.natAbs t.den (natAbs_num_pos ht) t.den_pos
    rw [← abs_eq_natAbs_div_den] at hrel
    unfold rnd64
    rw [if_neg ht]
    rcases lt_or_gt_of_ne ht with h | h
    · rw [if_pos h]
      rw [abs_of_neg h] at hrel ⊢
      have : ∀ P : ℚ, -1 * P - t = -(P - -t) := fun P => by ring
      rw [this, abs_neg]; exact hrel
    · have h'' : ¬ (t < 0) := by linarith
      rw [if_neg h'', one_mul]
      rw [abs_of_pos h] at hrel ⊢
      exact hrel

/-- `rnd64` of a signed ratio given by any numerator and denominator -/
theorem rnd64_ratio (neg : Bool) (n d : Nat) (hn : 0 < n) (hd : 0 < d) :
    rnd64 ((if neg then -1 else 1) * ((n:ℚ) / d))
      = (if neg then -1 else 1) * (((roundPosU n d).1 : ℚ) * (2:ℚ) ^ (roundPosU n d).2) := by
  have hv : (0:ℚ) < (n:ℚ) / d := by
    have : (0:ℚ) < n := by exact_mod_cast hn
    have : (0:ℚ) < d := by exact_mod_cast hd
    positivity
  set t : ℚ := (if neg then -1 else 1) * ((n:ℚ) / d) with ht
  have habs : |t| = (n:ℚ)/d := by
    rw [ht, abs_mul, abs_of_pos hv]; cases neg <;> simp
  have ht0 : t ≠ 0 := by
    intro h; rw [h] at habs; simp at habs; linarith
  have hcongr : roundPosU t.num.natAbs t.den = roundPosU n d :=
    roundPosU_congr _ _ _ _ (natAbs_num_pos ht0) t.den_pos hn hd (by rw [← abs_eq_natAbs_div_den, habs])
  have hsign : (t < 0) ↔ neg = true := by
    rw [ht]; cases neg
    · simp only [Bool.false_eq_true, if_false, one_mul, iff_false, not_lt]; exact hv.le
    · simp only [if_true, iff_true]; linarith
  unfold rnd64
  rw [if_neg ht0, hcongr]
  cases neg
  · have : ¬ (t < 0) := by rw [hsign]; simp
    rw [if_neg this]; simp
  · have : (t < 0) := by rw [hsign]
    rw [if_pos this]; simp

/-- `|rnd64 t| = q·2^e` -/
theorem abs_rnd64 (t : ℚ) (ht : t ≠ 0) :
    |rnd64 t| = ((roundPosU t.num.natAbs t.den).1 : ℚ) * (2:ℚ) ^ (roundPosU t.num.natAbs t.den).2 := by
  unfold rnd64
  rw [if_neg ht, abs_mul]
  have : |(if t < 0 then (-1:ℚ) else 1)| = 1 := by split <;> simp
  rw [this, one_mul, abs_of_nonneg (by positivity)]

/-- no overflow below the binary64 overflow threshold `2^1024·(1 − 2⁻⁵⁴)` -/
theorem abs_rnd64_lt (t : ℚ) (h : |t| < (2:ℚ)^(1024:Int) * (1 - (2:ℚ)^(-54:Int))) :
    |rnd64 t| < (2:ℚ)^(1024:Int) := by
  by_cases ht : t = 0
  · subst ht; simp
  rw [abs_rnd64 t ht]
  have hn := natAbs_num_pos ht
  have hd := t.den_pos
  rw [abs_eq_natAbs_div_den] at h
  set n := t.num.natAbs
  set d := t.den
  obtain ⟨a, b⟩ := flr_spec n d hn hd
  obtain ⟨_, qhi⟩ := roundPosU_bounds n d hn hd
  have two_ne : (2:ℚ) ≠ 0 := by norm_num
  have hfl : floorLog2Ratio n d ≤ 1023 := by
    have h1 : (2:ℚ)^(floorLog2Ratio n d) < (2:ℚ)^(1024:Int) := by
      have : (2:ℚ)^(1024:Int) * (1 - (2:ℚ)^(-54:Int)) ≤ (2:ℚ)^(1024:Int) := by
        have h54 : (0:ℚ) < (2:ℚ)^(-54:Int) := by positivity
        exact mul_le_of_le_one_right (by positivity) (by linarith)
      exact lt_of_le_of_lt a (lt_of_lt_of_le h this)
    have := (zpow_lt_zpow_iff_right₀ (by norm_num : (1:ℚ) < 2)).mp h1
    omega
  rcases lt_or_eq_of_le hfl with hlt | heq
  · -- q ≤ 2^53, e ≤ 970
    have he : (roundPosU n d).2 ≤ 970 := by unfold roundPosU; simp only []; omega
    have h1 : ((roundPosU n d).1 : ℚ) ≤ (2:ℚ)^(53:Int) := by
      have : ((roundPosU n d).1 : ℚ) ≤ ((2^53 : Nat) : ℚ) := by exact_mod_cast qhi
      rw [zpow_ofNat]; push_cast at this; exact this
    have h2 : (2:ℚ) ^ (roundPosU n d).2 ≤ (2:ℚ)^(970:Int) := zpow_le_zpow_right₀ (by norm_num) he
    have h3 : (2:ℚ)^(53:Int) * (2:ℚ)^(970:Int) < (2:ℚ)^(1024:Int) := by
      rw [← zpow_add₀ two_ne]; exact zpow_lt_zpow_right₀ (by norm_num) (by norm_num)
    calc ((roundPosU n d).1 : ℚ) * (2:ℚ) ^ (roundPosU n d).2
        ≤ (2:ℚ)^(53:Int) * (2:ℚ)^(970:Int) := mul_le_mul h1 h2 (by positivity) (by positivity)
      _ < _ := h3
  · -- e = 971 and q ≤ 2^53 - 1
    have he : (roundPosU n d).2 = 971 := by unfold roundPosU; simp only []; omega
    have hq : (roundPosU n d).1 ≤ 2^53 - 1 := by
      unfold roundPosU
      simp only [heq]
      apply rne_scaleBy_le_of_lt_half n d hd
      have hp : (0:ℚ) < (2:ℚ)^((1023:Int) - 52) := by positivity
      rw [mul_div_assoc', div_lt_iff₀ hp]
      have e1 : (2:ℚ)^(1024:Int) * (1 - (2:ℚ)^(-54:Int)) = (2:ℚ)^(1024:Int) - (2:ℚ)^(970:Int) := by
        rw [mul_sub, mul_one, ← zpow_add₀ two_ne]; norm_num
      have e2 : (2 * ((2^53 - 1 : Nat) : ℚ) + 1) * (2:ℚ)^((1023:Int) - 52)
          = 2 * ((2:ℚ)^(1024:Int) - (2:ℚ)^(970:Int)) := by
        have a1 : (2:ℚ)^(1024:Int) = (2:ℚ)^(53:Int) * (2:ℚ)^(971:Int) := by
          rw [← zpow_add₀ two_ne]; norm_num
        have a2 : (2:ℚ)^(971:Int) = 2 * (2:ℚ)^(970:Int) := by
          rw [show (971:Int) = 1 + 970 by norm_num, zpow_add₀ two_ne]; norm_num
        have a3 : ((1023:Int) - 52) = 971 := by norm_num
        have a4 : ((2^53 - 1 : Nat) : ℚ) = (2:ℚ)^(53:Int) - 1 := by norm_num
        rw [a3, a4, a1, a2]; ring
      rw [e2, ← e1]; linarith
    have h1 : ((roundPosU n d).1 : ℚ) ≤ (2:ℚ)^(53:Int) - 1 := by
      have : ((roundPosU n d).1 : ℚ) ≤ ((2^53 - 1 : Nat) : ℚ) := by exact_mod_cast hq
      have a4 : ((2^53 - 1 : Nat) : ℚ) = (2:ℚ)^(53:Int) - 1 := by norm_num
      rw [a4] at this; exact this
    rw [he]
    have a1 : (2:ℚ)^(1024:Int) = (2:ℚ)^(53:Int) * (2:ℚ)^(971:Int) := by
      rw [← zpow_add₀ two_ne]; norm_num
    have hp : (0:ℚ) < (2:ℚ)^(971:Int) := by positivity
    rw [a1]
    apply mul_lt_mul_of_pos_right _ hp
    generalize (2:ℚ)^(53:Int) = A at h1 ⊢
    linarith

end F64
