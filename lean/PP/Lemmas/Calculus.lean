import Mathlib.Analysis.SpecialFunctions.Log.Deriv
import Mathlib.MeasureTheory.Integral.IntervalIntegral.FundThmCalculus
import PP.Sem.Exact
import PP.Model.Poly.CalculusAttr
import PP.Props.C01
/-!
# Calculus helper lemmas (used by C07, C09)

* `hasDerivAt_polySum` — the Horner sum `C01.polySum cs` is differentiable with derivative `dSum cs`.
* `polyK_hasDerivAt` (k = 0..8) — over ℝ the generated `HasDerivative.derivative` of `PolyK` evaluates to the
  analytic derivative of the generated `Evaluate.evaluate`.
* `polyK_continuous` (k = 0..8) — hence the generated evaluation is continuous.
* `hasDerivAt_mul_comp_log` — d/dt [t · Q(ln t)] = Q(ln t) + Q'(ln t) for t > 0.
* `ftc_of_hasDerivAt`, `ftc_pos` — the fundamental theorem of calculus on ℝ and on (0,∞).
-/
set_option linter.unusedSectionVars false
namespace PP.Lemmas.Calculus
open PP.Props.C01

/-- value of the derivative of `polySum cs` at `x`: (c + x·P)' = P + x·P' -/
def dSum {K : Type} [Field K] : List K → K → K
  | [], _ => 0
  | _ :: cs, x => polySum cs x + x * dSum cs x

theorem hasDerivAt_polySum (cs : List ℝ) (x : ℝ) :
    HasDerivAt (fun x => polySum cs x) (dSum cs x) x := by
  induction cs with
  | nil => simpa [polySum, dSum] using hasDerivAt_const x (0 : ℝ)
  | cons c cs ih =>
    have h : HasDerivAt (fun x => c + x * polySum cs x) (1 * polySum cs x + x * dSum cs x) x :=
      ((hasDerivAt_id' x).mul ih).const_add c
    show HasDerivAt (fun x => c + x * polySum cs x) (polySum cs x + x * dSum cs x) x
    exact h.congr_deriv (by ring)

theorem hasDerivAt_mul_comp_log (Q : ℝ → ℝ) (Q' : ℝ) (t : ℝ) (ht : 0 < t)
    (hQ : HasDerivAt Q Q' (Real.log t)) :
    HasDerivAt (fun t => t * Q (Real.log t)) (Q (Real.log t) + Q') t := by
  have h1 : HasDerivAt (fun t => Q (Real.log t)) (Q' * t⁻¹) t := hQ.comp t (Real.hasDerivAt_log ht.ne')
  have h2 : HasDerivAt (fun t => t * Q (Real.log t)) (1 * Q (Real.log t) + t * (Q' * t⁻¹)) t :=
    (hasDerivAt_id' t).mul h1
  exact h2.congr_deriv (by field_simp)

/-- FTC on ℝ for an everywhere-differentiable `F` with continuous derivative `f` -/
theorem ftc_of_hasDerivAt (F f : ℝ → ℝ) (a b : ℝ)
    (hF : ∀ t, HasDerivAt F (f t) t) (hf : Continuous f) :
    F b - F a = ∫ t in a..b, f t :=
  (intervalIntegral.integral_eq_sub_of_hasDerivAt (fun t _ => hF t) (hf.intervalIntegrable a b)).symm

/-- FTC on (0,∞) -/
theorem ftc_pos (F f : ℝ → ℝ) (a b : ℝ) (ha : 0 < a) (hb : 0 < b)
    (hF : ∀ t, 0 < t → HasDerivAt F (f t) t) (hf : ContinuousOn f (Set.Ioi 0)) :
    F b - F a = ∫ t in a..b, f t := by
  symm
  apply intervalIntegral.integral_eq_sub_of_hasDerivAt
  · intro t ht
    apply hF
    rcases Set.mem_uIcc.mp ht with ⟨h1, _⟩ | ⟨h1, _⟩ <;> linarith
  · apply ContinuousOn.intervalIntegrable
    apply hf.mono
    intro t ht
    rcases Set.mem_uIcc.mp ht with ⟨h1, _⟩ | ⟨h1, _⟩ <;> simp only [Set.mem_Ioi] <;> linarith

section real
variable [Transc ℝ]
attribute [local instance] exactFL

theorem poly0_hasDerivAt (q : Poly0 ℝ) (x : ℝ) :
    HasDerivAt (fun x => Evaluate.evaluate q x) (Evaluate.evaluate (HasDerivative.derivative q) x) x := by
  have h := hasDerivAt_polySum [q._0] x
  convert h using 1
  · funext y; rw [poly0_eval]; simp only [polySum]; ring
  · rw [poly0_eval]; exact_simp; simp only [dSum, polySum]; ring

theorem poly1_hasDerivAt (q : Poly1 ℝ) (x : ℝ) :
    HasDerivAt (fun x => Evaluate.evaluate q x) (Evaluate.evaluate (HasDerivative.derivative q) x) x := by
  have h := hasDerivAt_polySum [q._0.a0, q._0.a1] x
  convert h using 1
  · funext y; rw [poly1_eval]; simp only [polySum]; ring
  · rw [poly0_eval]; exact_simp; simp only [dSum, polySum]; ring

theorem poly2_hasDerivAt (q : Poly2 ℝ) (x : ℝ) :
    HasDerivAt (fun x => Evaluate.evaluate q x) (Evaluate.evaluate (HasDerivative.derivative q) x) x := by
  have h := hasDerivAt_polySum [q._0.a0, q._0.a1, q._0.a2] x
  convert h using 1
  · funext y; rw [poly2_eval]; simp only [polySum]; ring
  · rw [poly1_eval]; exact_simp; simp only [dSum, polySum]; ring

theorem poly3_hasDerivAt (q : Poly3 ℝ) (x : ℝ) :
    HasDerivAt (fun x => Evaluate.evaluate q x) (Evaluate.evaluate (HasDerivative.derivative q) x) x := by
  have h := hasDerivAt_polySum [q._0.a0, q._0.a1, q._0.a2, q._0.a3] x
  convert h using 1
  · funext y; rw [poly3_eval]; simp only [polySum]; ring
  · rw [poly2_eval]; exact_simp; simp only [dSum, polySum]; ring

theorem poly4_hasDerivAt (q : Poly4 ℝ) (x : ℝ) :
    HasDerivAt (fun x => Evaluate.evaluate q x) (Evaluate.evaluate (HasDerivative.derivative q) x) x := by
  have h := hasDerivAt_polySum [q._0.a0, q._0.a1, q._0.a2, q._0.a3, q._0.a4] x
  convert h using 1
  · funext y; rw [poly4_eval]; simp only [polySum]; ring
  · rw [poly3_eval]; exact_simp; simp only [dSum, polySum]; ring

theorem poly5_hasDerivAt (q : Poly5 ℝ) (x : ℝ) :
    HasDerivAt (fun x => Evaluate.evaluate q x) (Evaluate.evaluate (HasDerivative.derivative q) x) x := by
  have h := hasDerivAt_polySum [q._0.a0, q._0.a1, q._0.a2, q._0.a3, q._0.a4, q._0.a5] x
  convert h using 1
  · funext y; rw [poly5_eval]; simp only [polySum]; ring
  · rw [poly4_eval]; exact_simp; simp only [dSum, polySum]; ring

theorem poly6_hasDerivAt (q : Poly6 ℝ) (x : ℝ) :
    HasDerivAt (fun x => Evaluate.evaluate q x) (Evaluate.evaluate (HasDerivative.derivative q) x) x := by
  have h := hasDerivAt_polySum [q._0.a0, q._0.a1, q._0.a2, q._0.a3, q._0.a4, q._0.a5, q._0.a6] x
  convert h using 1
  · funext y; rw [poly6_eval]; simp only [polySum]; ring
  · rw [poly5_eval]; exact_simp; simp only [dSum, polySum]; ring

theorem poly7_hasDerivAt (q : Poly7 ℝ) (x : ℝ) :
    HasDerivAt (fun x => Evaluate.evaluate q x) (Evaluate.evaluate (HasDerivative.derivative q) x) x := by
  have h := hasDerivAt_polySum [q._0.a0, q._0.a1, q._0.a2, q._0.a3, q._0.a4, q._0.a5, q._0.a6, q._0.a7] x
  convert h using 1
  · funext y; rw [poly7_eval]; simp only [polySum]; ring
  · rw [poly6_eval]; exact_simp; simp only [dSum, polySum]; ring

theorem poly8_hasDerivAt (q : Poly8 ℝ) (x : ℝ) :
    HasDerivAt (fun x => Evaluate.evaluate q x) (Evaluate.evaluate (HasDerivative.derivative q) x) x := by
  have h := hasDerivAt_polySum [q._0.a0, q._0.a1, q._0.a2, q._0.a3, q._0.a4, q._0.a5, q._0.a6, q._0.a7, q._0.a8] x
  convert h using 1
  · funext y; rw [poly8_eval]; simp only [polySum]; ring
  · rw [poly7_eval]; exact_simp; simp only [dSum, polySum]; ring

theorem poly0_continuous (p : Poly0 ℝ) : Continuous (fun x => Evaluate.evaluate p x) :=
  continuous_iff_continuousAt.mpr fun x => (poly0_hasDerivAt p x).continuousAt

theorem poly1_continuous (p : Poly1 ℝ) : Continuous (fun x => Evaluate.evaluate p x) :=
  continuous_iff_continuousAt.mpr fun x => (poly1_hasDerivAt p x).continuousAt

theorem poly2_continuous (p : Poly2 ℝ) : Continuous (fun x => Evaluate.evaluate p x) :=
  continuous_iff_continuousAt.mpr fun x => (poly2_hasDerivAt p x).continuousAt

theorem poly3_continuous (p : Poly3 ℝ) : Continuous (fun x => Evaluate.evaluate p x) :=
  continuous_iff_continuousAt.mpr fun x => (poly3_hasDerivAt p x).continuousAt

theorem poly4_continuous (p : Poly4 ℝ) : Continuous (fun x => Evaluate.evaluate p x) :=
  continuous_iff_continuousAt.mpr fun x => (poly4_hasDerivAt p x).continuousAt

theorem poly5_continuous (p : Poly5 ℝ) : Continuous (fun x => Evaluate.evaluate p x) :=
  continuous_iff_continuousAt.mpr fun x => (poly5_hasDerivAt p x).continuousAt

theorem poly6_continuous (p : Poly6 ℝ) : Continuous (fun x => Evaluate.evaluate p x) :=
  continuous_iff_continuousAt.mpr fun x => (poly6_hasDerivAt p x).continuousAt

theorem poly7_continuous (p : Poly7 ℝ) : Continuous (fun x => Evaluate.evaluate p x) :=
  continuous_iff_continuousAt.mpr fun x => (poly7_hasDerivAt p x).continuousAt

theorem poly8_continuous (p : Poly8 ℝ) : Continuous (fun x => Evaluate.evaluate p x) :=
  continuous_iff_continuousAt.mpr fun x => (poly8_hasDerivAt p x).continuousAt

end real
end PP.Lemmas.Calculus
