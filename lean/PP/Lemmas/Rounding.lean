import Mathlib.Tactic.Ring
import Mathlib.Tactic.Linarith
import Mathlib.Tactic.FieldSimp
import Mathlib.Tactic.Positivity
import Mathlib.Tactic.NormNum
import Mathlib.Algebra.Order.Field.Basic
import Mathlib.Algebra.Order.AbsoluteValue.Basic
import Mathlib.Algebra.Order.Group.MinMax
/-!
# Elementary lemmas of rounding-error analysis over a linearly ordered field

Nothing here mentions the model or `RModel`: a rounding function is a pair `(rnd, u)` together with the
hypothesis `h : ∀ t, |rnd t - t| ≤ u * |t|` (standard model of floating-point arithmetic).

* growth factors `(1+u)^k - 1`: non-negative, monotone in `k`, multiplicative, and `≤ 2ku` when `ku ≤ 1/2`;
* `rnd_step` (relative form, for the counting semantics), `rnd_close` (absolute form, for the tracked semantics);
* `add_close`, `sub_close`, `mul_close`, `div_close`, `max_close`: propagation of absolute error bounds;
* sign preservation of a rounding function with `u < 1`.
-/
namespace PP.Lemmas.Rounding
variable {K : Type} [Field K] [LinearOrder K] [IsStrictOrderedRing K]

/-! ## growth factors -/

theorem growth_nonneg {u : K} (hu : 0 ≤ u) (k : ℕ) : 0 ≤ (1 + u) ^ k - 1 := by
  have : 1 ≤ (1 + u) ^ k := one_le_pow₀ (by linarith)
  linarith

theorem growth_mono {u : K} (hu : 0 ≤ u) {j k : ℕ} (h : j ≤ k) : (1 + u) ^ j - 1 ≤ (1 + u) ^ k - 1 := by
  have : (1 + u) ^ j ≤ (1 + u) ^ k := pow_le_pow_right₀ (by linarith) h
  linarith

/-- `(1+u)^k - 1 ≤ 2ku` as soon as `ku ≤ 1/2` -/
theorem growth_le {u : K} (hu : 0 ≤ u) : ∀ k : ℕ, (k : K) * u ≤ 1 / 2 → (1 + u) ^ k - 1 ≤ 2 * k * u
  | 0, _ => by simp
  | k + 1, hk => by
    have hk' : (k : K) * u ≤ 1 / 2 := by
      push_cast at hk; nlinarith
    have ih := growth_le hu k hk'
    have h1 : (1 + u) * ((1 + u) ^ k - 1) ≤ (1 + u) * (2 * k * u) :=
      mul_le_mul_of_nonneg_left ih (by linarith)
    have h2 : 2 * (k : K) * u * u ≤ 1 * u := by
      apply mul_le_mul_of_nonneg_right _ hu
      linarith
    push_cast
    calc (1 + u) ^ (k + 1) - 1 = (1 + u) * ((1 + u) ^ k - 1) + u := by ring
      _ ≤ (1 + u) * (2 * k * u) + u := by linarith
      _ = 2 * k * u + 2 * k * u * u + u := by ring
      _ ≤ 2 * (k + 1) * u := by linarith

/-- monotone version: the bound for depth `k` is implied by the bound for any larger depth `n` -/
theorem growth_le_of_le {u : K} (hu : 0 ≤ u) {k n : ℕ} (hkn : k ≤ n) (hn : (n : K) * u ≤ 1 / 2) :
    (1 + u) ^ k - 1 ≤ 2 * n * u :=
  le_trans (growth_mono hu hkn) (growth_le hu n hn)

/-! ## one rounding -/

/-- relative form: if `|t - e| ≤ g·A` and `|e| ≤ A` then `|rnd t - e| ≤ ((1+g)(1+u) - 1)·A` -/
theorem rnd_step {rnd : K → K} {u : K} (hu : 0 ≤ u) (h : ∀ t, |rnd t - t| ≤ u * |t|)
    (t e A g : K) (hA : |e| ≤ A) (ht : |t - e| ≤ g * A) :
    |rnd t - e| ≤ ((1 + g) * (1 + u) - 1) * A := by
  have h1 := h t
  have h2 : |t| ≤ A + g * A := by
    calc |t| = |e + (t - e)| := by ring_nf
      _ ≤ |e| + |t - e| := abs_add_le _ _
      _ ≤ A + g * A := by linarith
  have h3 : u * |t| ≤ u * (A + g * A) := mul_le_mul_of_nonneg_left h2 hu
  calc |rnd t - e| = |(rnd t - t) + (t - e)| := by ring_nf
    _ ≤ |rnd t - t| + |t - e| := abs_add_le _ _
    _ ≤ u * (A + g * A) + g * A := by linarith
    _ = ((1 + g) * (1 + u) - 1) * A := by ring

/-- absolute form: if `|a - e| ≤ m` then `|rnd a - e| ≤ m + u·(|e| + m)` -/
theorem rnd_close {rnd : K → K} {u : K} (hu : 0 ≤ u) (h : ∀ t, |rnd t - t| ≤ u * |t|)
    (e a m : K) (ha : |a - e| ≤ m) :
    |rnd a - e| ≤ m + u * (|e| + m) := by
  have h1 := h a
  have h2 : |a| ≤ |e| + m := by
    calc |a| = |e + (a - e)| := by ring_nf
      _ ≤ |e| + |a - e| := abs_add_le _ _
      _ ≤ |e| + m := by linarith
  have h3 : u * |a| ≤ u * (|e| + m) := mul_le_mul_of_nonneg_left h2 hu
  calc |rnd a - e| = |(rnd a - a) + (a - e)| := by ring_nf
    _ ≤ |rnd a - a| + |a - e| := abs_add_le _ _
    _ ≤ m + u * (|e| + m) := by linarith

/-! ## propagation of absolute error bounds through the exact operations -/

theorem add_close (e1 a1 b1 e2 a2 b2 : K) (h1 : |a1 - e1| ≤ b1) (h2 : |a2 - e2| ≤ b2) :
    |a1 + a2 - (e1 + e2)| ≤ b1 + b2 := by
  have : a1 + a2 - (e1 + e2) = (a1 - e1) + (a2 - e2) := by ring
  rw [this]; exact le_trans (abs_add_le _ _) (add_le_add h1 h2)

theorem sub_close (e1 a1 b1 e2 a2 b2 : K) (h1 : |a1 - e1| ≤ b1) (h2 : |a2 - e2| ≤ b2) :
    |a1 - a2 - (e1 - e2)| ≤ b1 + b2 := by
  have : a1 - a2 - (e1 - e2) = (a1 - e1) - (a2 - e2) := by ring
  rw [this]; exact le_trans (abs_sub _ _) (add_le_add h1 h2)

theorem mul_close (e1 a1 b1 e2 a2 b2 : K) (h1 : |a1 - e1| ≤ b1) (h2 : |a2 - e2| ≤ b2) :
    |a1 * a2 - e1 * e2| ≤ |e1| * b2 + |e2| * b1 + b1 * b2 := by
  have : a1 * a2 - e1 * e2 = e1 * (a2 - e2) + e2 * (a1 - e1) + (a1 - e1) * (a2 - e2) := by ring
  rw [this]
  have hb1 : 0 ≤ b1 := le_trans (abs_nonneg _) h1
  calc |e1 * (a2 - e2) + e2 * (a1 - e1) + (a1 - e1) * (a2 - e2)|
      ≤ |e1 * (a2 - e2)| + |e2 * (a1 - e1)| + |(a1 - e1) * (a2 - e2)| := abs_add_three _ _ _
    _ = |e1| * |a2 - e2| + |e2| * |a1 - e1| + |a1 - e1| * |a2 - e2| := by simp only [abs_mul]
    _ ≤ |e1| * b2 + |e2| * b1 + b1 * b2 := by
        have := mul_le_mul_of_nonneg_left h2 (abs_nonneg e1)
        have := mul_le_mul_of_nonneg_left h1 (abs_nonneg e2)
        have := mul_le_mul h1 h2 (abs_nonneg _) hb1
        linarith

/-- division, under the side condition that the bound on the divisor is smaller than the divisor -/
theorem div_close (e1 a1 b1 e2 a2 b2 : K) (h1 : |a1 - e1| ≤ b1) (h2 : |a2 - e2| ≤ b2) (hb : b2 < |e2|) :
    |a1 / a2 - e1 / e2| ≤ (|e2| * b1 + |e1| * b2) / (|e2| * (|e2| - b2)) := by
  have hb2 : 0 ≤ b2 := le_trans (abs_nonneg _) h2
  have he2 : 0 < |e2| := lt_of_le_of_lt hb2 hb
  have he2' : e2 ≠ 0 := abs_pos.mp he2
  have ha2 : |e2| - b2 ≤ |a2| := by
    have : |e2| ≤ |a2| + |a2 - e2| := by
      calc |e2| = |a2 - (a2 - e2)| := by ring_nf
        _ ≤ |a2| + |a2 - e2| := abs_sub _ _
    linarith
  have hpos : 0 < |e2| - b2 := by linarith
  have ha2pos : 0 < |a2| := lt_of_lt_of_le hpos ha2
  have ha2' : a2 ≠ 0 := abs_pos.mp ha2pos
  have key : a1 / a2 - e1 / e2 = ((a1 - e1) * e2 - e1 * (a2 - e2)) / (a2 * e2) := by
    field_simp; ring
  rw [key, abs_div, abs_mul]
  have hnum : |(a1 - e1) * e2 - e1 * (a2 - e2)| ≤ |e2| * b1 + |e1| * b2 := by
    calc |(a1 - e1) * e2 - e1 * (a2 - e2)| ≤ |(a1 - e1) * e2| + |e1 * (a2 - e2)| := abs_sub _ _
      _ = |a1 - e1| * |e2| + |e1| * |a2 - e2| := by rw [abs_mul, abs_mul]
      _ ≤ b1 * |e2| + |e1| * b2 := by
          have := mul_le_mul_of_nonneg_right h1 (abs_nonneg e2)
          have := mul_le_mul_of_nonneg_left h2 (abs_nonneg e1)
          linarith
      _ = |e2| * b1 + |e1| * b2 := by ring
  have hnum0 : 0 ≤ |e2| * b1 + |e1| * b2 := le_trans (abs_nonneg _) hnum
  have hden : |e2| * (|e2| - b2) ≤ |a2| * |e2| := by
    rw [mul_comm |a2|]; exact mul_le_mul_of_nonneg_left ha2 (le_of_lt he2)
  have hdenpos : 0 < |e2| * (|e2| - b2) := mul_pos he2 hpos
  calc |(a1 - e1) * e2 - e1 * (a2 - e2)| / (|a2| * |e2|)
      ≤ (|e2| * b1 + |e1| * b2) / (|a2| * |e2|) := by
        apply div_le_div_of_nonneg_right hnum (le_of_lt (mul_pos ha2pos he2))
    _ ≤ (|e2| * b1 + |e1| * b2) / (|e2| * (|e2| - b2)) := by
        apply div_le_div_of_nonneg_left hnum0 hdenpos hden

/-- `max` is 1-Lipschitz in each argument -/
theorem max_close (e1 a1 b1 e2 a2 b2 : K) (h1 : |a1 - e1| ≤ b1) (h2 : |a2 - e2| ≤ b2) :
    |max a1 a2 - max e1 e2| ≤ max b1 b2 :=
  le_trans (abs_max_sub_max_le_max a1 a2 e1 e2) (max_le_max h1 h2)

/-- `|·|` is 1-Lipschitz -/
theorem abs_close (e a b : K) (h : |a - e| ≤ b) : |(|a| - |e|)| ≤ b :=
  le_trans (abs_abs_sub_abs_le_abs_sub a e) h

/-! ## a rounding function with `u < 1` preserves signs -/

section sign
variable {rnd : K → K} {u : K}

theorem rnd_zero (h : ∀ t, |rnd t - t| ≤ u * |t|) : rnd 0 = 0 := by
  have := h 0
  simpa using this

theorem rnd_pos (hu1 : u < 1) (h : ∀ t, |rnd t - t| ≤ u * |t|) {t : K} (ht : 0 < t) : 0 < rnd t := by
  have h1 := h t
  rw [abs_of_pos ht] at h1
  have h2 : u * t < t := by nlinarith
  have := (abs_le.mp h1).1
  linarith

theorem rnd_neg' (hu1 : u < 1) (h : ∀ t, |rnd t - t| ≤ u * |t|) {t : K} (ht : t < 0) : rnd t < 0 := by
  have h1 := h t
  rw [abs_of_neg ht] at h1
  have h2 : u * (-t) < -t := by nlinarith
  have := (abs_le.mp h1).2
  linarith

theorem rnd_pos_iff (hu1 : u < 1) (h : ∀ t, |rnd t - t| ≤ u * |t|) {t : K} : 0 < rnd t ↔ 0 < t := by
  refine ⟨fun hp => ?_, rnd_pos hu1 h⟩
  rcases lt_trichotomy t 0 with ht | ht | ht
  · exact absurd (rnd_neg' hu1 h ht) (not_lt.mpr hp.le)
  · rw [ht, rnd_zero h] at hp; exact absurd hp (lt_irrefl _)
  · exact ht

theorem rnd_neg_iff (hu1 : u < 1) (h : ∀ t, |rnd t - t| ≤ u * |t|) {t : K} : rnd t < 0 ↔ t < 0 := by
  refine ⟨fun hp => ?_, rnd_neg' hu1 h⟩
  rcases lt_trichotomy t 0 with ht | ht | ht
  · exact ht
  · rw [ht, rnd_zero h] at hp; exact absurd hp (lt_irrefl _)
  · exact absurd (rnd_pos hu1 h ht) (not_lt.mpr hp.le)

theorem rnd_eq_zero_iff (hu1 : u < 1) (h : ∀ t, |rnd t - t| ≤ u * |t|) {t : K} : rnd t = 0 ↔ t = 0 := by
  constructor
  · intro h0
    rcases lt_trichotomy t 0 with ht | ht | ht
    · exact absurd h0 (ne_of_lt (rnd_neg' hu1 h ht))
    · exact ht
    · exact absurd h0 (ne_of_gt (rnd_pos hu1 h ht))
  · rintro rfl; exact rnd_zero h

theorem rnd_nonpos_iff (hu1 : u < 1) (h : ∀ t, |rnd t - t| ≤ u * |t|) {t : K} : rnd t ≤ 0 ↔ t ≤ 0 := by
  rw [← not_lt, ← not_lt, rnd_pos_iff hu1 h]

theorem rnd_nonneg_iff (hu1 : u < 1) (h : ∀ t, |rnd t - t| ≤ u * |t|) {t : K} : 0 ≤ rnd t ↔ 0 ≤ t := by
  rw [← not_lt, ← not_lt, rnd_neg_iff hu1 h]
end sign

/-- an approximation `a` of `e` with error bound `b < |e|` has the sign of `e` -/
theorem sign_of_close {e a b : K} (h : |a - e| ≤ b) (hb : b < |e|) :
    (0 < a ↔ 0 < e) ∧ (a < 0 ↔ e < 0) := by
  have h' := abs_le.mp h
  rcases lt_trichotomy e 0 with he | he | he
  · rw [abs_of_neg he] at hb
    exact ⟨⟨fun ha => by linarith, fun h0 => by linarith⟩, ⟨fun _ => he, fun _ => by linarith⟩⟩
  · subst he; simp at hb; have := le_trans (abs_nonneg _) h; linarith
  · rw [abs_of_pos he] at hb
    exact ⟨⟨fun _ => he, fun _ => by linarith⟩, ⟨fun ha => by linarith, fun h0 => by linarith⟩⟩

end PP.Lemmas.Rounding
