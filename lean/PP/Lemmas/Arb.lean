import PP.Core.Arb
/-!
# Facts about the model of the `arbitrary` crate and of `slice::sort_by` (`PP/Core/Arb.lean`)

Core Lean only.  Used by `PP/Props/Tie3.lean`.
-/
namespace Arb
variable {A B : Type}

/-! ## `fill_buffer` never lengthens the input -/

theorem fillBuffer_length : ∀ (n : Nat) (u : Unstructured), (fillBuffer n u).2.length ≤ u.length
  | 0, u => by simp [fillBuffer]
  | n + 1, [] => by simpa [fillBuffer] using fillBuffer_length n []
  | n + 1, b :: u => by
    have := fillBuffer_length n u
    simp only [fillBuffer, List.length_cons]; omega

theorem uintLE_length (n : Nat) (u : Unstructured) : (uintLE n u).2.length ≤ u.length :=
  fillBuffer_length n u

/-! ## `sort_by` with a comparator that is defined on the elements is `List.mergeSort` -/

/-- `cmp` never panics on `xs × ys` and `le` is its reading as "`x` may stay in front of `y`" -/
def Agrees (cmp : A → A → Option Ordering) (le : A → A → Bool) (xs ys : List A) : Prop :=
  ∀ a ∈ xs, ∀ b ∈ ys, ∃ o, cmp a b = some o ∧ (o != Ordering.gt) = le a b

theorem Agrees.mono {cmp : A → A → Option Ordering} {le : A → A → Bool} {xs ys xs' ys' : List A}
    (h : Agrees cmp le xs ys) (hx : ∀ a ∈ xs', a ∈ xs) (hy : ∀ b ∈ ys', b ∈ ys) : Agrees cmp le xs' ys' :=
  fun a ha b hb => h a (hx a ha) b (hy b hb)

theorem mergeBy_eq_merge (cmp : A → A → Option Ordering) (le : A → A → Bool) :
    ∀ (xs ys : List A), Agrees cmp le xs ys → mergeBy cmp xs ys = some (List.merge xs ys le)
  | [], ys, _ => by simp [mergeBy]
  | x :: xs, [], _ => by simp [mergeBy]
  | x :: xs, y :: ys, h => by
    obtain ⟨o, ho, hle⟩ := h x (by simp) y (by simp)
    have h1 := mergeBy_eq_merge cmp le (x :: xs) ys (h.mono (fun _ h => h) (fun _ h => List.mem_cons_of_mem _ h))
    have h2 := mergeBy_eq_merge cmp le xs (y :: ys) (h.mono (fun _ h => List.mem_cons_of_mem _ h) (fun _ h => h))
    rw [mergeBy, ho]
    cases o
    · have : le x y = true := by rw [← hle]; decide
      simp [h2, this]
    · have : le x y = true := by rw [← hle]; decide
      simp [h2, this]
    · have : le x y = false := by rw [← hle]; decide
      simp [h1, this]
termination_by xs ys => xs.length + ys.length

theorem mergeSort_cons_cons_eq (le : A → A → Bool) (a b : A) (xs : List A) :
    (a :: b :: xs).mergeSort le =
      List.merge (((a :: b :: xs).take ((xs.length + 2 + 1) / 2)).mergeSort le)
        (((a :: b :: xs).drop ((xs.length + 2 + 1) / 2)).mergeSort le) le := by
  rw [List.mergeSort]
  simp only [List.MergeSort.Internal.splitInTwo_fst, List.MergeSort.Internal.splitInTwo_snd, List.length_cons]

/-- if the comparator never panics on the elements of `l`, `sort_by` does not panic and is the stable
merge sort `List.mergeSort` for the relation "not `Greater`" -/
theorem sortBy_eq_mergeSort (cmp : A → A → Option Ordering) (le : A → A → Bool) :
    ∀ (n : Nat) (l : List A), l.length ≤ n → Agrees cmp le l l → sortBy l cmp = some (l.mergeSort le)
  | _, [], _, _ => by simp [sortBy]
  | _, [a], _, _ => by simp [sortBy]
  | 0, _ :: _ :: _, hn, _ => by simp at hn
  | n + 1, a :: b :: xs, hn, h => by
    have hk : (xs.length + 2 + 1) / 2 ≤ xs.length + 2 := by omega
    have hk0 : 0 < (xs.length + 2 + 1) / 2 := by omega
    have ht : ((a :: b :: xs).take ((xs.length + 2 + 1) / 2)).length ≤ n := by
      simp only [List.length_take, List.length_cons] at hn ⊢; omega
    have hd : ((a :: b :: xs).drop ((xs.length + 2 + 1) / 2)).length ≤ n := by
      simp only [List.length_drop, List.length_cons] at hn ⊢; omega
    have mt : ∀ x ∈ (a :: b :: xs).take ((xs.length + 2 + 1) / 2), x ∈ a :: b :: xs := fun _ => List.mem_of_mem_take
    have md : ∀ x ∈ (a :: b :: xs).drop ((xs.length + 2 + 1) / 2), x ∈ a :: b :: xs := fun _ => List.mem_of_mem_drop
    have e1 := sortBy_eq_mergeSort cmp le n _ ht (h.mono mt mt)
    have e2 := sortBy_eq_mergeSort cmp le n _ hd (h.mono md md)
    rw [sortBy, e1, e2, mergeSort_cons_cons_eq]
    simp only [Option.bind_some]
    exact mergeBy_eq_merge cmp le _ _
      (h.mono (fun x hx => mt x (List.mem_mergeSort.mp hx)) (fun x hx => md x (List.mem_mergeSort.mp hx)))


/-! ## `Res.bind` on constructors, and the array instances unfolded -/
section simp_lemmas
variable {α β : Type}
@[simp] theorem Res.bind_ok (a : α) (u : Unstructured) (f : α → Unstructured → Res β) : (Res.ok a u).bind f = f a u := rfl
@[simp] theorem Res.bind_err (e : Error) (u : Unstructured) (f : α → Unstructured → Res β) : (Res.err e u : Res α).bind f = .err e u := rfl
@[simp] theorem Res.bind_panic (f : α → Unstructured → Res β) : (Res.panic : Res α).bind f = .panic := rfl
@[simp] theorem Res.bindPanic_some (a : α) (f : α → Res β) : Res.bindPanic (some a) f = f a := rfl
@[simp] theorem Res.bindPanic_none (f : α → Res β) : Res.bindPanic (none : Option α) f = .panic := rfl
end simp_lemmas

theorem arbitrary_arr1 [ArbitraryT A] (u : Unstructured) :
    ArbitraryT.arbitrary (α := Arr1 A) u =
      (ArbitraryT.arbitrary (α := A) u).bind fun a0 u =>
      .ok ⟨a0⟩ u := rfl
theorem arbitrary_arr2 [ArbitraryT A] (u : Unstructured) :
    ArbitraryT.arbitrary (α := Arr2 A) u =
      (ArbitraryT.arbitrary (α := A) u).bind fun a0 u =>
      (ArbitraryT.arbitrary (α := A) u).bind fun a1 u =>
      .ok ⟨a0, a1⟩ u := rfl
theorem arbitrary_arr3 [ArbitraryT A] (u : Unstructured) :
    ArbitraryT.arbitrary (α := Arr3 A) u =
      (ArbitraryT.arbitrary (α := A) u).bind fun a0 u =>
      (ArbitraryT.arbitrary (α := A) u).bind fun a1 u =>
      (ArbitraryT.arbitrary (α := A) u).bind fun a2 u =>
      .ok ⟨a0, a1, a2⟩ u := rfl
theorem arbitrary_arr4 [ArbitraryT A] (u : Unstructured) :
    ArbitraryT.arbitrary (α := Arr4 A) u =
      (ArbitraryT.arbitrary (α := A) u).bind fun a0 u =>
      (ArbitraryT.arbitrary (α := A) u).bind fun a1 u =>
      (ArbitraryT.arbitrary (α := A) u).bind fun a2 u =>
      (ArbitraryT.arbitrary (α := A) u).bind fun a3 u =>
      .ok ⟨a0, a1, a2, a3⟩ u := rfl
theorem arbitrary_arr5 [ArbitraryT A] (u : Unstructured) :
    ArbitraryT.arbitrary (α := Arr5 A) u =
      (ArbitraryT.arbitrary (α := A) u).bind fun a0 u =>
      (ArbitraryT.arbitrary (α := A) u).bind fun a1 u =>
      (ArbitraryT.arbitrary (α := A) u).bind fun a2 u =>
      (ArbitraryT.arbitrary (α := A) u).bind fun a3 u =>
      (ArbitraryT.arbitrary (α := A) u).bind fun a4 u =>
      .ok ⟨a0, a1, a2, a3, a4⟩ u := rfl
theorem arbitrary_arr6 [ArbitraryT A] (u : Unstructured) :
    ArbitraryT.arbitrary (α := Arr6 A) u =
      (ArbitraryT.arbitrary (α := A) u).bind fun a0 u =>
      (ArbitraryT.arbitrary (α := A) u).bind fun a1 u =>
      (ArbitraryT.arbitrary (α := A) u).bind fun a2 u =>
      (ArbitraryT.arbitrary (α := A) u).bind fun a3 u =>
      (ArbitraryT.arbitrary (α := A) u).bind fun a4 u =>
      (ArbitraryT.arbitrary (α := A) u).bind fun a5 u =>
      .ok ⟨a0, a1, a2, a3, a4, a5⟩ u := rfl
theorem arbitrary_arr7 [ArbitraryT A] (u : Unstructured) :
    ArbitraryT.arbitrary (α := Arr7 A) u =
      (ArbitraryT.arbitrary (α := A) u).bind fun a0 u =>
      (ArbitraryT.arbitrary (α := A) u).bind fun a1 u =>
      (ArbitraryT.arbitrary (α := A) u).bind fun a2 u =>
      (ArbitraryT.arbitrary (α := A) u).bind fun a3 u =>
      (ArbitraryT.arbitrary (α := A) u).bind fun a4 u =>
      (ArbitraryT.arbitrary (α := A) u).bind fun a5 u =>
      (ArbitraryT.arbitrary (α := A) u).bind fun a6 u =>
      .ok ⟨a0, a1, a2, a3, a4, a5, a6⟩ u := rfl
theorem arbitrary_arr8 [ArbitraryT A] (u : Unstructured) :
    ArbitraryT.arbitrary (α := Arr8 A) u =
      (ArbitraryT.arbitrary (α := A) u).bind fun a0 u =>
      (ArbitraryT.arbitrary (α := A) u).bind fun a1 u =>
      (ArbitraryT.arbitrary (α := A) u).bind fun a2 u =>
      (ArbitraryT.arbitrary (α := A) u).bind fun a3 u =>
      (ArbitraryT.arbitrary (α := A) u).bind fun a4 u =>
      (ArbitraryT.arbitrary (α := A) u).bind fun a5 u =>
      (ArbitraryT.arbitrary (α := A) u).bind fun a6 u =>
      (ArbitraryT.arbitrary (α := A) u).bind fun a7 u =>
      .ok ⟨a0, a1, a2, a3, a4, a5, a6, a7⟩ u := rfl
theorem arbitrary_arr9 [ArbitraryT A] (u : Unstructured) :
    ArbitraryT.arbitrary (α := Arr9 A) u =
      (ArbitraryT.arbitrary (α := A) u).bind fun a0 u =>
      (ArbitraryT.arbitrary (α := A) u).bind fun a1 u =>
      (ArbitraryT.arbitrary (α := A) u).bind fun a2 u =>
      (ArbitraryT.arbitrary (α := A) u).bind fun a3 u =>
      (ArbitraryT.arbitrary (α := A) u).bind fun a4 u =>
      (ArbitraryT.arbitrary (α := A) u).bind fun a5 u =>
      (ArbitraryT.arbitrary (α := A) u).bind fun a6 u =>
      (ArbitraryT.arbitrary (α := A) u).bind fun a7 u =>
      (ArbitraryT.arbitrary (α := A) u).bind fun a8 u =>
      .ok ⟨a0, a1, a2, a3, a4, a5, a6, a7, a8⟩ u := rfl
theorem arbitrary_arr10 [ArbitraryT A] (u : Unstructured) :
    ArbitraryT.arbitrary (α := Arr10 A) u =
      (ArbitraryT.arbitrary (α := A) u).bind fun a0 u =>
      (ArbitraryT.arbitrary (α := A) u).bind fun a1 u =>
      (ArbitraryT.arbitrary (α := A) u).bind fun a2 u =>
      (ArbitraryT.arbitrary (α := A) u).bind fun a3 u =>
      (ArbitraryT.arbitrary (α := A) u).bind fun a4 u =>
      (ArbitraryT.arbitrary (α := A) u).bind fun a5 u =>
      (ArbitraryT.arbitrary (α := A) u).bind fun a6 u =>
      (ArbitraryT.arbitrary (α := A) u).bind fun a7 u =>
      (ArbitraryT.arbitrary (α := A) u).bind fun a8 u =>
      (ArbitraryT.arbitrary (α := A) u).bind fun a9 u =>
      .ok ⟨a0, a1, a2, a3, a4, a5, a6, a7, a8, a9⟩ u := rfl
theorem arbitrary_arr11 [ArbitraryT A] (u : Unstructured) :
    ArbitraryT.arbitrary (α := Arr11 A) u =
      (ArbitraryT.arbitrary (α := A) u).bind fun a0 u =>
      (ArbitraryT.arbitrary (α := A) u).bind fun a1 u =>
      (ArbitraryT.arbitrary (α := A) u).bind fun a2 u =>
      (ArbitraryT.arbitrary (α := A) u).bind fun a3 u =>
      (ArbitraryT.arbitrary (α := A) u).bind fun a4 u =>
      (ArbitraryT.arbitrary (α := A) u).bind fun a5 u =>
      (ArbitraryT.arbitrary (α := A) u).bind fun a6 u =>
      (ArbitraryT.arbitrary (α := A) u).bind fun a7 u =>
      (ArbitraryT.arbitrary (α := A) u).bind fun a8 u =>
      (ArbitraryT.arbitrary (α := A) u).bind fun a9 u =>
      (ArbitraryT.arbitrary (α := A) u).bind fun a10 u =>
      .ok ⟨a0, a1, a2, a3, a4, a5, a6, a7, a8, a9, a10⟩ u := rfl
theorem arbitrary_arr12 [ArbitraryT A] (u : Unstructured) :
    ArbitraryT.arbitrary (α := Arr12 A) u =
      (ArbitraryT.arbitrary (α := A) u).bind fun a0 u =>
      (ArbitraryT.arbitrary (α := A) u).bind fun a1 u =>
      (ArbitraryT.arbitrary (α := A) u).bind fun a2 u =>
      (ArbitraryT.arbitrary (α := A) u).bind fun a3 u =>
      (ArbitraryT.arbitrary (α := A) u).bind fun a4 u =>
      (ArbitraryT.arbitrary (α := A) u).bind fun a5 u =>
      (ArbitraryT.arbitrary (α := A) u).bind fun a6 u =>
      (ArbitraryT.arbitrary (α := A) u).bind fun a7 u =>
      (ArbitraryT.arbitrary (α := A) u).bind fun a8 u =>
      (ArbitraryT.arbitrary (α := A) u).bind fun a9 u =>
      (ArbitraryT.arbitrary (α := A) u).bind fun a10 u =>
      (ArbitraryT.arbitrary (α := A) u).bind fun a11 u =>
      .ok ⟨a0, a1, a2, a3, a4, a5, a6, a7, a8, a9, a10, a11⟩ u := rfl
theorem arbitrary_arr13 [ArbitraryT A] (u : Unstructured) :
    ArbitraryT.arbitrary (α := Arr13 A) u =
      (ArbitraryT.arbitrary (α := A) u).bind fun a0 u =>
      (ArbitraryT.arbitrary (α := A) u).bind fun a1 u =>
      (ArbitraryT.arbitrary (α := A) u).bind fun a2 u =>
      (ArbitraryT.arbitrary (α := A) u).bind fun a3 u =>
      (ArbitraryT.arbitrary (α := A) u).bind fun a4 u =>
      (ArbitraryT.arbitrary (α := A) u).bind fun a5 u =>
      (ArbitraryT.arbitrary (α := A) u).bind fun a6 u =>
      (ArbitraryT.arbitrary (α := A) u).bind fun a7 u =>
      (ArbitraryT.arbitrary (α := A) u).bind fun a8 u =>
      (ArbitraryT.arbitrary (α := A) u).bind fun a9 u =>
      (ArbitraryT.arbitrary (α := A) u).bind fun a10 u =>
      (ArbitraryT.arbitrary (α := A) u).bind fun a11 u =>
      (ArbitraryT.arbitrary (α := A) u).bind fun a12 u =>
      .ok ⟨a0, a1, a2, a3, a4, a5, a6, a7, a8, a9, a10, a11, a12⟩ u := rfl
theorem arbitrary_arr14 [ArbitraryT A] (u : Unstructured) :
    ArbitraryT.arbitrary (α := Arr14 A) u =
      (ArbitraryT.arbitrary (α := A) u).bind fun a0 u =>
      (ArbitraryT.arbitrary (α := A) u).bind fun a1 u =>
      (ArbitraryT.arbitrary (α := A) u).bind fun a2 u =>
      (ArbitraryT.arbitrary (α := A) u).bind fun a3 u =>
      (ArbitraryT.arbitrary (α := A) u).bind fun a4 u =>
      (ArbitraryT.arbitrary (α := A) u).bind fun a5 u =>
      (ArbitraryT.arbitrary (α := A) u).bind fun a6 u =>
      (ArbitraryT.arbitrary (α := A) u).bind fun a7 u =>
      (ArbitraryT.arbitrary (α := A) u).bind fun a8 u =>
      (ArbitraryT.arbitrary (α := A) u).bind fun a9 u =>
      (ArbitraryT.arbitrary (α := A) u).bind fun a10 u =>
      (ArbitraryT.arbitrary (α := A) u).bind fun a11 u =>
      (ArbitraryT.arbitrary (α := A) u).bind fun a12 u =>
      (ArbitraryT.arbitrary (α := A) u).bind fun a13 u =>
      .ok ⟨a0, a1, a2, a3, a4, a5, a6, a7, a8, a9, a10, a11, a12, a13⟩ u := rfl
theorem arbitrary_arr15 [ArbitraryT A] (u : Unstructured) :
    ArbitraryT.arbitrary (α := Arr15 A) u =
      (ArbitraryT.arbitrary (α := A) u).bind fun a0 u =>
      (ArbitraryT.arbitrary (α := A) u).bind fun a1 u =>
      (ArbitraryT.arbitrary (α := A) u).bind fun a2 u =>
      (ArbitraryT.arbitrary (α := A) u).bind fun a3 u =>
      (ArbitraryT.arbitrary (α := A) u).bind fun a4 u =>
      (ArbitraryT.arbitrary (α := A) u).bind fun a5 u =>
      (ArbitraryT.arbitrary (α := A) u).bind fun a6 u =>
      (ArbitraryT.arbitrary (α := A) u).bind fun a7 u =>
      (ArbitraryT.arbitrary (α := A) u).bind fun a8 u =>
      (ArbitraryT.arbitrary (α := A) u).bind fun a9 u =>
      (ArbitraryT.arbitrary (α := A) u).bind fun a10 u =>
      (ArbitraryT.arbitrary (α := A) u).bind fun a11 u =>
      (ArbitraryT.arbitrary (α := A) u).bind fun a12 u =>
      (ArbitraryT.arbitrary (α := A) u).bind fun a13 u =>
      (ArbitraryT.arbitrary (α := A) u).bind fun a14 u =>
      .ok ⟨a0, a1, a2, a3, a4, a5, a6, a7, a8, a9, a10, a11, a12, a13, a14⟩ u := rfl
theorem arbitrary_arr16 [ArbitraryT A] (u : Unstructured) :
    ArbitraryT.arbitrary (α := Arr16 A) u =
      (ArbitraryT.arbitrary (α := A) u).bind fun a0 u =>
      (ArbitraryT.arbitrary (α := A) u).bind fun a1 u =>
      (ArbitraryT.arbitrary (α := A) u).bind fun a2 u =>
      (ArbitraryT.arbitrary (α := A) u).bind fun a3 u =>
      (ArbitraryT.arbitrary (α := A) u).bind fun a4 u =>
      (ArbitraryT.arbitrary (α := A) u).bind fun a5 u =>
      (ArbitraryT.arbitrary (α := A) u).bind fun a6 u =>
      (ArbitraryT.arbitrary (α := A) u).bind fun a7 u =>
      (ArbitraryT.arbitrary (α := A) u).bind fun a8 u =>
      (ArbitraryT.arbitrary (α := A) u).bind fun a9 u =>
      (ArbitraryT.arbitrary (α := A) u).bind fun a10 u =>
      (ArbitraryT.arbitrary (α := A) u).bind fun a11 u =>
      (ArbitraryT.arbitrary (α := A) u).bind fun a12 u =>
      (ArbitraryT.arbitrary (α := A) u).bind fun a13 u =>
      (ArbitraryT.arbitrary (α := A) u).bind fun a14 u =>
      (ArbitraryT.arbitrary (α := A) u).bind fun a15 u =>
      .ok ⟨a0, a1, a2, a3, a4, a5, a6, a7, a8, a9, a10, a11, a12, a13, a14, a15⟩ u := rfl

end Arb
