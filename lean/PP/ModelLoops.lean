import PP.Model.Poly.Loops
import PP.Model.Piecewise.Loops
import PP.Model.Piecewise.Evaluator
import PP.Model.Piecewise.Merge
import PP.Model.Linear.Loops
import PP.Model.Spline.Loops
import PP.Model.Poly.Arbitrary
import PP.Model.Piecewise.Arbitrary
/-! The generated loop files (`PP/Model/**/Loops.lean`, `PP/Model/Piecewise/{Evaluator,Merge}.lean`) and the
generated `Arbitrary` code (`PP/Model/{Poly,Piecewise}/Arbitrary.lean`, against `PP/Core/Arb.lean`).  Kept out of `PP/Model.lean` because they declare
instances for `PolyN` (`inst_Evaluate_PolyN`, …) that would compete with the hand instances
`Hand.inst_Evaluate_PolyN`, … in modules importing both (`PP.Props.Tie` proves them equal). -/
