import PP.Model.Types
import PP.Model.Poly.Evaluate
import PP.Model.Poly.Calculus
import PP.Model.Spline.Fns
import PP.Model.Linear.Fns
/-!
# Hand models: `linear` (linear.rs:6-19), `constrained_spline` (spline.rs:10-49), `PolyN` (poly.rs:55-98)

The straight-line pieces they call (`Linear.incr_linear`, `Linear.segment`, `Spline.f_dx`,
`Spline.segment`) are the *generated* definitions.  `none` = the `assert!` panic.
-/
namespace Hand
open FloatLike
variable {F : Type} [FloatLike F]

/-! ## `linear` -/

/-- `knots_iter.map(|k| incr_linear(&mut prev_knot, k))` : a scan threading `prev_knot` -/
def linearGo : Knot F → List (Knot F) → List (Segment F (Poly1 F))
  | _, [] => []
  | prev, k :: ks =>
    let r := Linear.incr_linear prev k
    r.1 :: linearGo r.2 ks

def linear : List (Knot F) → Option (Piecewise F (Poly1 F))
  | k0 :: k1 :: ks => some ⟨linearGo k0 (k1 :: ks)⟩
  | _ => none

/-! ## `constrained_spline` -/

/-- `ks0l.zip(ks1m).zip(ks2n).map(f_dx)` : every window of three consecutive knots -/
def fMid : List (Knot F) → List F
  | k0 :: k1 :: k2 :: rest => Spline.f_dx k0 k1 k2 :: fMid (k1 :: k2 :: rest)
  | _ => []

/-- eq. 7b / 7c: `(3.0 / 2.0) * (yb - ya) / (xb - xa) - (1.0 / 2.0) * f` -/
def endSlope (ka kb : Knot F) (f : F) : F :=
  sub (div (mul (div (ofDec 3 0) (ofDec 2 0)) (sub kb.y ka.y)) (sub kb.x ka.x))
      (mul (div (ofDec 1 0) (ofDec 2 0)) f)

/-- `f_all.zip(ks0m).zip(f_all.skip(1)).zip(ks1n).map(segment)` -/
def splineSegs : List F → List (Knot F) → List (Segment F (Poly3 F))
  | f0 :: f1 :: fs, k0 :: k1 :: ks => Spline.segment f0 k0 f1 k1 :: splineSegs (f1 :: fs) (k1 :: ks)
  | _, _ => []

/-- the last two elements of a list of length ≥ 2 -/
def lastTwo {A : Type} : List A → Option (A × A)
  | [a, b] => some (a, b)
  | _ :: b :: c :: rest => lastTwo (b :: c :: rest)
  | _ => none

def fAll (ks : List (Knot F)) : Option (List F) :=
  match ks with
  | k0 :: k1 :: _ :: _ =>
    let fm := fMid ks
    match fm.head?, fm.getLast?, lastTwo ks with
    | some fx1, some fxm, some (km, kn) =>
      some (endSlope k0 k1 fx1 :: fm ++ [endSlope km kn fxm])
    | _, _, _ => none
  | _ => none

def constrainedSpline (ks : List (Knot F)) : Option (Piecewise F (Poly3 F)) :=
  (fAll ks).map fun fa => ⟨splineSegs fa ks⟩

/-! ## `PolyN` -/

/-- `iter().rev()`, `next()`, then `fold(first, |acc, &e| acc.mul_add(x, e))` -/
def polyNEvaluate (p : PolyN F) (x : F) : F :=
  match p._0.reverse with
  | [] => ofDec 0 0
  | first :: rest => rest.foldl (fun acc e => fma acc x e) first

def polyNTranslate (p : PolyN F) (v : F) : PolyN F :=
  match p._0 with
  | [] => ⟨[v]⟩
  | x0 :: rest => ⟨add x0 v :: rest⟩

instance inst_Evaluate_PolyN : Evaluate (PolyN F) F := ⟨polyNEvaluate⟩
instance inst_Translate_PolyN : Translate (PolyN F) F := ⟨polyNTranslate⟩
instance inst_AbsDiffEq_PolyN : AbsDiffEq (PolyN F) F := ⟨fun a b eps => AbsDiffEq.absDiffEq a._0 b._0 eps⟩
instance inst_RelativeEq_PolyN : RelativeEq (PolyN F) F := ⟨fun a b eps mr => RelativeEq.relativeEq a._0 b._0 eps mr⟩

end Hand
