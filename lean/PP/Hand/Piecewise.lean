import PP.Model.Types
import PP.Model.Piecewise.Evaluate
import PP.Model.Piecewise.Calculus
import PP.Model.Piecewise.Ops
/-!
# Hand models of the loop / iterator / hidden-state code of `src/piecewise.rs`

Generic in the number type `F` and in the piece type `T`.  Written in the shape that makes structural
induction work (flat patterns, a zipper for the evaluator's cursor, a fold for the running knot), not in
the index-and-loop shape of the Rust; the correspondence campaigns (`pweval`, `evaluator`, `evalv`,
`merge`, `pwintegral`, `pwops`) justify the reshaping bit for bit.  A panic of the Rust is `none`.

Source anchors (at the pinned commit): `Piecewise::evaluate` piecewise.rs:480-490,
`PiecewiseEvaluator::{new,evaluate}` :374-478, `evaluate_v` :556-583, `Add`/`Sub` :295-357/:492-554,
`integral_iter(_ref)` :130-173, `HasIntegral for Piecewise` :598-636, `HasDerivative` :585-596,
`Mul`/`MulAssign`/`Neg`/`Translate` :255-293/:638-645.
-/

namespace Hand
open FloatLike
variable {F T : Type} [FloatLike F]

/-! ## direct evaluation -/

/-- `segments.iter().position(|seg| seg.end > x)`, falling back to the last segment -/
def selSeg : List (Segment F T) → F → Option (Segment F T)
  | [], _ => none
  | [s], _ => some s
  | s :: s' :: rest, x => if lt x s.end then some s else selSeg (s' :: rest) x

/-- `<Piecewise<T> as Evaluate>::evaluate`; `none` = the `assert!(!is_empty())` panic -/
def pwEvaluate [Evaluate T F] (p : Piecewise F T) (x : F) : Option F :=
  (selSeg p.segments x).map (fun s => Evaluate.evaluate s x)

/-! ## the stateful evaluator

State as a zipper: `pre` = the segments of `all_segments_front` already skipped, nearest first;
`tl` = the code's `tail`; `L` = `last_evaluation`.  (`tail` is always a suffix of
`all_segments_front`, so `(pre, tl)` carries the same information as the two slices.) -/
structure EvSt (F T : Type) where
  pre : List (Segment F T)
  tl : List (Segment F T)
  last : Segment F T
  L : F

/-- `PiecewiseEvaluator::new`; `none` = `expect("no segments to pick from")` -/
def evNew : List (Segment F T) → Option (EvSt F T)
  | [] => none
  | s :: rest =>
    let front := (s :: rest).dropLast
    let last := (s :: rest).getLast (by simp)
    some { pre := [], tl := front, last := last,
           L := match front with | [] => last.end | f :: _ => f.end }

/-- happy path: drop heads of the tail while `!(first.end > x)` -/
def evFwd : List (Segment F T) → List (Segment F T) → F → List (Segment F T) × List (Segment F T)
  | pre, [], _ => (pre, [])
  | pre, t :: ts, x => if lt x t.end then (pre, t :: ts) else evFwd (t :: pre) ts x

/-- unhappy path: walk back through the skipped segments until one has `end <= x` -/
def evBwd : List (Segment F T) → List (Segment F T) → F → List (Segment F T) × List (Segment F T)
  | [], tl, _ => ([], tl)
  | p :: ps, tl, x => if le p.end x then (p :: ps, tl) else evBwd ps (p :: tl) x

/-- `PiecewiseEvaluator::evaluate` (unfixed semantics are recorded in known_findings.json: a NaN query
is answered from the last segment and leaves the cursor and `last_evaluation` untouched) -/
def evStep [Evaluate T F] (st : EvSt F T) (x : F) : EvSt F T × F :=
  if isNaN x then (st, Evaluate.evaluate st.last x)
  else
    let (pre', tl') := if le st.L x then evFwd st.pre st.tl x else evBwd st.pre st.tl x
    let seg := match tl' with | [] => st.last | t :: _ => t
    ({ st with pre := pre', tl := tl', L := x }, Evaluate.evaluate seg x)

def evRun [Evaluate T F] (st : EvSt F T) : List F → List F
  | [] => []
  | x :: xs => let (st', y) := evStep st x; y :: evRun st' xs

/-- a whole session: `new` then the queries -/
def evaluatorRun [Evaluate T F] (segs : List (Segment F T)) (xs : List F) : Option (List F) :=
  (evNew segs).map (fun st => evRun st xs)

/-! ## `evaluate_v` : state = the suffix `segments[prev_seg..]` (never empty) -/

def evalvAdvance : List (Segment F T) → F → List (Segment F T)
  | [], _ => []
  | [s], _ => [s]
  | s :: s' :: rest, x => if lt x s.end then s :: s' :: rest else evalvAdvance (s' :: rest) x

def evalvRun [Evaluate T F] : List (Segment F T) → List F → List F
  | _, [] => []
  | cur, x :: xs =>
    let cur' := evalvAdvance cur x
    match cur' with
    | [] => []
    | s :: _ => Evaluate.evaluate s.poly x :: evalvRun cur' xs

def evaluateV [Evaluate T F] (p : Piecewise F T) (xs : List F) : Option (List F) :=
  match p.segments with
  | [] => none
  | segs => some (evalvRun segs xs)

/-! ## `+` / `-` : the two-cursor merge (one model for both copies in the source) -/

/-- `a.partial_cmp(&b)`: `none` if either is NaN -/
def pcmp (a b : F) : Option Ordering :=
  if isNaN a || isNaN b then none
  else if lt a b then some .lt else if lt b a then some .gt else some .eq

def merge {P : Type} (op : T → T → P) : List (Segment F T) → List (Segment F T) → Option (List (Segment F P))
  | [], _ => none
  | _, [] => none
  | [a], [b] =>
    (pcmp a.end b.end).map fun o =>
      [⟨match o with | .lt => b.end | _ => a.end, op a.poly b.poly⟩]
  | [a], b :: g :: gs =>
    match pcmp a.end b.end with
    | none => none
    | some o => (merge op [a] (g :: gs)).map fun r =>
        ⟨match o with | .eq => a.end | _ => b.end, op a.poly b.poly⟩ :: r
  | a :: f :: fs, [b] =>
    match pcmp a.end b.end with
    | none => none
    | some _ => (merge op (f :: fs) [b]).map fun r => ⟨a.end, op a.poly b.poly⟩ :: r
  | a :: f :: fs, b :: g :: gs =>
    match pcmp a.end b.end with
    | none => none
    | some .lt => (merge op (f :: fs) (b :: g :: gs)).map fun r => ⟨a.end, op a.poly b.poly⟩ :: r
    | some .gt => (merge op (a :: f :: fs) (g :: gs)).map fun r => ⟨b.end, op a.poly b.poly⟩ :: r
    | some .eq => (merge op (f :: fs) (g :: gs)).map fun r => ⟨a.end, op a.poly b.poly⟩ :: r
termination_by f g => f.length + g.length

def pwAdd [PAdd T T T] (f g : Piecewise F T) : Option (Piecewise F T) :=
  (merge (fun a b => PAdd.add a b) f.segments g.segments).map Piecewise.mk
def pwSub [PSub T T T] (f g : Piecewise F T) : Option (Piecewise F T) :=
  (merge (fun a b => PSub.sub a b) f.segments g.segments).map Piecewise.mk

/-! ## integration -/

/-- `Segment::integral_iter` and `integral_iter_ref` (the same closure, by value and by reference) -/
def integralIter {I : Type} [HasIntegral T (Knot F) I] [Evaluate I F] [Translate I F] :
    List (Segment F T) → Knot F → List (Segment F I)
  | [], _ => []
  | s :: rest, knot =>
    let int : Segment F I := HasIntegral.integral s knot
    int :: integralIter rest ⟨int.end, Evaluate.evaluate int int.end⟩

def pwIntegral {I : Type} [HasIntegral T (Knot F) I] [Evaluate I F] [Translate I F]
    (p : Piecewise F T) (knot0 : Knot F) : Piecewise F I :=
  ⟨integralIter p.segments knot0⟩

def pwIndefinite {I : Type} [HasIntegral T (Knot F) I] [Evaluate I F] [Translate I F]
    (p : Piecewise F T) : Piecewise F I :=
  match p.segments with
  | [] => ⟨[]⟩
  | s :: rest =>
    let indef0 : Segment F I := HasIntegral.indefinite s
    ⟨indef0 :: integralIter rest ⟨indef0.end, Evaluate.evaluate indef0 indef0.end⟩⟩

/-! ## maps -/

def pwDerivative {D : Type} [HasDerivative T D] (p : Piecewise F T) : Piecewise F D :=
  ⟨p.segments.map (fun s => HasDerivative.derivative s)⟩

def pwMul [PMul (Segment F T) F (Segment F T)] (p : Piecewise F T) (rhs : F) : Piecewise F T :=
  ⟨p.segments.map (fun s => PMul.mul s rhs)⟩

def pwMulAssign [PMulAssign (Segment F T) F] (p : Piecewise F T) (rhs : F) : Piecewise F T :=
  ⟨p.segments.map (fun s => PMulAssign.mulAssign s rhs)⟩

def pwNeg [PNeg T T] (p : Piecewise F T) : Piecewise F T :=
  ⟨p.segments.map (fun s => { s with poly := PNeg.neg s.poly })⟩

def pwTranslate [Translate (Segment F T) F] (p : Piecewise F T) (v : F) : Piecewise F T :=
  ⟨p.segments.map (fun s => Translate.translate s v)⟩

end Hand
