import PP.Model.Types
import PP.Core.Arb
/-!
# Hand model of `<Piecewise<T> as Arbitrary>::arbitrary` (piecewise.rs:194-212)

The model of the external `arbitrary` crate (1.4.2) — `Unstructured::fill_buffer`, little-endian integers,
`bool`, `f64`, `Vec<A>`, `[A; N]`, the error type — and of `f64::is_normal` / `slice::sort_by` is
`PP/Core/Arb.lean`; the impl itself is translated (`PP/Model/Piecewise/Arbitrary.lean`, over the fallible
three-valued `Arb.Res`).  This file keeps the *total* reading that property C19 is stated about: none of
the decoders used here can fail (exhausted input reads as zeros / `false`), so they are plain functions
`Bytes → value × Bytes` on top of `Arb.uintLE`; the only failure of the impl is `Err(IncorrectFormat)` =
`none`, and `sort_by` on non-NaN keys is `List.mergeSort`.  `PP/Props/Tie3.lean` proves that the generated
code computes exactly this (`Ok pw` ↔ `some pw`, `Err` ↔ `none`, never a panic), for the piece types
`Poly0..Poly8` and `PolyN`.  Tied to the real crate by campaign `arbitrary`.  Core Lean only; numbers are `F64`.
-/
namespace Hand.Arb

/-- the unread data (`Arb.Unstructured`) -/
abbrev Bytes := Arb.Unstructured

/-- `fill_buffer` of n bytes read as a little-endian integer: missing bytes are zero (`Arb.uintLE`) -/
abbrev takeLE : Nat → Bytes → Nat × Bytes := Arb.uintLE

def arbBool (bs : Bytes) : Bool × Bytes := let r := takeLE 1 bs; (r.1 % 2 == 1, r.2)
def arbF64 (bs : Bytes) : F64 × Bytes := let r := takeLE 8 bs; (F64.ofBits r.1, r.2)

/-- `Vec<f64>`: continue while the next bool is true; exhausted data reads as `false`.  Structural
recursion on fuel (every iteration consumes at least the bool's byte, so `length + 1` always suffices). -/
def arbVecAux : Nat → Bytes → List F64 × Bytes
  | 0, bs => ([], bs)
  | _ + 1, [] => ([], [])
  | fuel + 1, b :: bs =>
    if b % 2 == 1 then
      let x := arbF64 bs
      let r := arbVecAux fuel x.2
      (x.1 :: r.1, r.2)
    else ([], bs)

def arbVecF64 (bs : Bytes) : List F64 × Bytes := arbVecAux (bs.length + 1) bs

/-- n consecutive `f64`s (arrays and tuple-struct fields) -/
def arbFloats : Nat → Bytes → List F64 × Bytes
  | 0, bs => ([], bs)
  | n + 1, bs => let x := arbF64 bs; let r := arbFloats n x.2; (x.1 :: r.1, r.2)

/-- `f64::is_normal`: neither zero, subnormal, infinite nor NaN (`F64.isNormal`, `PP/Core/Arb.lean`) -/
abbrev isNormal : F64 → Bool := F64.isNormal

/-- comparison used by `sort_by(|x, y| x.partial_cmp(y).unwrap())` on non-NaN values -/
def keyLe (a b : F64) : Bool := decide (F64.key a ≤ F64.key b)

/-- a piece decoder: consumes bytes, returns the piece -/
structure PieceDec (T : Type) where
  dec : Bytes → T × Bytes

def pieces {T : Type} (d : PieceDec T) : List F64 → Bytes → List (Segment F64 T) × Bytes
  | [], bs => ([], bs)
  | e :: es, bs => let p := d.dec bs; let r := pieces d es p.2; (⟨e, p.1⟩ :: r.1, r.2)

/-- `none` = `Err(IncorrectFormat)`; there is no other error and no panic -/
def arbitraryPw {T : Type} (d : PieceDec T) (bs : Bytes) : Option (Piecewise F64 T) :=
  let v := arbVecF64 bs
  if v.1.isEmpty || !(v.1.all isNormal) then none
  else
    let ends := v.1.mergeSort keyLe
    some ⟨(pieces d ends v.2).1⟩

def decPoly0 : PieceDec (Poly0 F64) := ⟨fun bs => let x := arbF64 bs; (⟨x.1⟩, x.2)⟩
def decPolyN : PieceDec (PolyN F64) := ⟨fun bs => let x := arbVecF64 bs; (⟨x.1⟩, x.2)⟩
def decArr {T : Type} (n : Nat) (mk : List F64 → Option T) (dflt : T) : PieceDec T :=
  ⟨fun bs => let x := arbFloats n bs; ((mk x.1).getD dflt, x.2)⟩
def z : F64 := F64.zero false
def decPoly1 : PieceDec (Poly1 F64) := decArr 2 (fun l => (Arr2.ofList? l).map Poly1.mk) ⟨⟨z, z⟩⟩
def decPoly2 : PieceDec (Poly2 F64) := decArr 3 (fun l => (Arr3.ofList? l).map Poly2.mk) ⟨⟨z, z, z⟩⟩
def decPoly3 : PieceDec (Poly3 F64) := decArr 4 (fun l => (Arr4.ofList? l).map Poly3.mk) ⟨⟨z, z, z, z⟩⟩
def decPoly4 : PieceDec (Poly4 F64) := decArr 5 (fun l => (Arr5.ofList? l).map Poly4.mk) ⟨⟨z, z, z, z, z⟩⟩
def decPoly5 : PieceDec (Poly5 F64) := decArr 6 (fun l => (Arr6.ofList? l).map Poly5.mk) ⟨⟨z, z, z, z, z, z⟩⟩
def decPoly6 : PieceDec (Poly6 F64) := decArr 7 (fun l => (Arr7.ofList? l).map Poly6.mk) ⟨⟨z, z, z, z, z, z, z⟩⟩
def decPoly7 : PieceDec (Poly7 F64) := decArr 8 (fun l => (Arr8.ofList? l).map Poly7.mk) ⟨⟨z, z, z, z, z, z, z, z⟩⟩
def decPoly8 : PieceDec (Poly8 F64) := decArr 9 (fun l => (Arr9.ofList? l).map Poly8.mk) ⟨⟨z, z, z, z, z, z, z, z, z⟩⟩

end Hand.Arb
