#!/usr/bin/env python3-vt
"""Numerical search support for C09 / C10 / C11(log pieces): the real implementation's outputs (obtained from
pp_harness --implonly) against 300-bit mpmath.  Never a substitute for the theorems; it looks for a failing
input where the model cannot (true ln / exp, floating-point accuracy of the closed-form branch)."""
import argparse, json, os, random, struct, subprocess, sys, tempfile, time
import mpmath as mp

mp.mp.prec = 400

def hx(x): return struct.pack('>d', x).hex()
def fh(h): return struct.unpack('>d', bytes.fromhex(h))[0]
def ulp_step(x, k):
    b = struct.unpack('>q', struct.pack('>d', x))[0] + k
    return struct.unpack('>d', struct.pack('>q', b))[0]

def R(x):
    if abs(x) < mp.mpf(1) / 4:
        return mp.nsum(lambda m: x ** m / mp.factorial(m + 5), [0, 60])
    return (mp.e ** x - sum(x ** j / mp.factorial(j) for j in range(5))) / x ** 5

def q4_exact(nums, v):
    k, c1, c2, c3, c4, u = [mp.mpf(t) for t in nums]
    V = mp.mpf(v); x = -mp.log(V)
    terms = [k] + [V * c * x ** (j + 1) for j, c in enumerate([c1, c2, c3, c4])] + [u * V * x ** 5 * R(x)]
    return sum(terms), sum(abs(t) for t in terms)

HARNESS2 = None   # the release build of the harness, when given: odd-numbered lines run there

def run_impl(harness, lines):
    if HARNESS2 and len(lines) > 1:
        a = _run_impl(harness, lines[0::2])
        b = _run_impl(HARNESS2, lines[1::2])
        res = [None] * len(lines)
        res[0::2] = a
        res[1::2] = b
        return res
    return _run_impl(harness, lines)

def _run_impl(harness, lines):
    with tempfile.NamedTemporaryFile('w', suffix='.cases', delete=False) as f:
        f.write("\n".join(lines) + "\n"); path = f.name
    out = subprocess.run([harness, '--implonly', path], stdout=subprocess.PIPE, text=True, check=True).stdout
    os.unlink(path)
    res = []
    for l in out.strip().split("\n"):
        d = dict(t.split('=', 1) for t in l.split()[1:] if '=' in t)
        res.append(d)
    return res

def judge_c10(nums, v, y):
    """(relative error, reason or None) of one IntOfLogPoly4 evaluation against the property's formula"""
    if v == 1.0 and y != nums[0]:
        return 0.0, "value at v=1 is not exactly k"
    exact, mag = q4_exact(nums, v)
    if mag == 0:
        return 0.0, None
    if mag > mp.mpf(10) ** 290 or (y != y) or abs(y) == float('inf'):
        return 0.0, None   # overflow range: outside the property's finite quantifier
    err = abs(mp.mpf(y) - exact) / mag
    if err > mp.mpf('1e-12'):
        return float(err), f"relative error {float(err):.3e} > 1e-12 (v={v!r}, x={float(-mp.log(mp.mpf(v))):.6g})"
    return float(err), None

def c10(args, rng):
    n_sweep = 3000 if args.tier == 'quick' else 120000
    ulps = 1500 if args.tier == 'quick' else 4000
    vs = []
    for k in range(-ulps, ulps + 1):
        vs.append((ulp_step(1.0, k), 'near-one'))
    for thr in (-1.71, 1.72):                # the series is used for -1.71 < x < 1.72
        v0 = float(mp.e ** (-mp.mpf(thr)))   # x = -ln v crosses the switch point here
        for k in range(-ulps, ulps + 1, 1 if args.tier != 'quick' else 3):
            vs.append((ulp_step(v0, k), 'near-switch'))
    for _ in range(n_sweep):
        x = rng.uniform(-40, 40)
        vs.append((float(mp.e ** (-mp.mpf(x))), 'sweep'))
    for e in range(-1000, 1001, 7 if args.tier == 'quick' else 1):
        vs.append((2.0 ** e, 'pow2'))
    # the very ends of the positive doubles: subnormals, the smallest normals, the largest doubles
    for _ in range(300 if args.tier == 'quick' else 20000):
        k = rng.random()
        if k < 0.4:
            vs.append((struct.unpack('>d', struct.pack('>q', rng.randint(1, (1 << 52) - 1)))[0], 'subnormal'))
        elif k < 0.7:
            vs.append((2.0 ** -rng.randint(1000, 1022) * (1 + rng.random()), 'tiny'))
        else:
            vs.append((2.0 ** rng.randint(1000, 1023) * (1 + 0.99 * rng.random()), 'huge'))
    # log-uniform in |x| = |ln v| from 1e-9 to 40, both signs: every decade of the series branch gets the same weight
    for _ in range(n_sweep):
        x = 10.0 ** rng.uniform(-9, 1.6) * rng.choice([-1.0, 1.0])
        vs.append((float(mp.e ** (-mp.mpf(x))), 'logsweep'))
    cases, meta = [], []
    units = [[0, 1, 0, 0, 0, 0], [0, 0, 1, 0, 0, 0], [0, 0, 0, 0, 1, 0], [0, 0, 0, 0, 0, 1], [1, 0, 0, 0, 0, 1], [0, 1, -2, 3, -4, 120]]
    for v, cls in vs:
        if cls == 'logsweep' and rng.random() < 0.5:
            nums = [0.0, 0.0, 0.0, 0.0, 0.0, rng.choice([1.0, -1.0, 120.0, rng.uniform(-10, 10)])]   # the tail term alone
        elif rng.random() < 0.5:
            nums = [float(t) for t in rng.choice(units)]
        else:
            nums = [rng.choice([rng.uniform(-10, 10), float(rng.randint(-5, 5)), rng.uniform(-1, 1) * 10 ** rng.randint(-6, 6)]) for _ in range(6)]
        cases.append(f"eval T=q4 p={','.join(hx(t) for t in nums)} x={hx(v)}")
        meta.append((nums, v, cls))
    outs = run_impl(args.harness, cases)
    failures, worst, classes, distinct = [], 0.0, {}, set()
    for (nums, v, cls), line, o in zip(meta, cases, outs):
        classes[cls] = classes.get(cls, 0) + 1
        distinct.add(line)
        if o.get('impl') == 'PANIC':
            failures.append(mkfail(line, 'panic for v>0')); continue
        err, why = judge_c10(nums, v, fh(o['impl']))
        worst = max(worst, err)
        if why:
            failures.append(mkfail(line, why))
    # value at v = 1 is exactly k
    for _ in range(50):
        nums = [rng.uniform(-100, 100) for _ in range(6)]
        line = f"eval T=q4 p={','.join(hx(t) for t in nums)} x={hx(1.0)}"
        o = run_impl(args.harness, [line])[0]
        _, why = judge_c10(nums, 1.0, fh(o['impl']))
        if why:
            failures.append(mkfail(line, why))
    return dict(evaluations=len(cases) + 50, distinct_nontrivial=len(distinct), classes=classes, worst_relative_error=worst,
                failures=failures[:20], samples=cases[:2],
                rule="C10: every float within N ulps of v=1 and of both switch points, uniform sweep of x in [-40,40] and log-uniform sweep of |x| in [1e-9,40] (half of it on the tail term alone), powers of two 2^-1000..2^1000; reference = 400-bit mpmath; tolerance 1e-12 * sum of term magnitudes")

def mkfail(line, why):
    return {"kind": "MONFAIL", "campaign": "oracle", "request": line, "shrunk_request": line, "shrunk_prefix": line, "shrunk_response": "MONFAIL " + why}

def poly_ln_integral(cs, a, b):
    """∫_a^b Σ c_i (ln t)^i dt exactly: antiderivative t·Q(ln t) with Q from the recurrence"""
    n = len(cs)
    q = [mp.mpf(0)] * n
    for i in reversed(range(n)):
        q[i] = mp.mpf(cs[i]) - ((i + 1) * q[i + 1] if i + 1 < n else 0)
    F = lambda t: t * sum(qi * mp.log(t) ** i for i, qi in enumerate(q))
    return F(mp.mpf(b)) - F(mp.mpf(a))

def c09_run(items, harness):
    """items: (deg, cs, kx, ky, a, b, line).  Builds F = integral(knot) with the implementation, evaluates it at
    knot.x, a, b and compares F(knot.x) with knot.y and F(b)-F(a) with the closed-form integral."""
    outs = run_impl(harness, [it[6] for it in items])
    ev_lines, ev_items = [], []
    for it, o in zip(items, outs):
        if o.get('impl') == 'PANIC':
            continue
        deg, cs, kx, ky, a, b, line = it
        tag = 'q4' if deg == 4 else f'i{deg}'
        for pt in (kx, a, b):
            ev_lines.append(f"eval T={tag} p={o['impl']} x={hx(pt)}")
        ev_items.append(it + ([fh(t) for t in o['impl'].split(',')],))
    evs = run_impl(harness, ev_lines) if ev_lines else []
    failures, worst = [], 0.0
    for i, (deg, cs, kx, ky, a, b, line, fnums) in enumerate(ev_items):
        Fk, Fa, Fb = [fh(evs[3 * i + j]['impl']) for j in range(3)]
        # magnitudes of the construction: |F| at the three points plus the antiderivative terms
        la, lb, lk = [abs(mp.log(mp.mpf(t))) for t in (a, b, kx)]
        L = max(la, lb, lk, 1)
        scale = sum(abs(mp.mpf(c)) for c in cs) * mp.factorial(deg) * L ** deg * max(a, b, kx) + abs(ky) + mp.mpf(2) ** -900
        tol = mp.mpf(2) ** -53 * 2 ** 12 * scale
        if deg == 4 and all(t == t and abs(t) != float('inf') for t in fnums):
            # the quartic has its own representation (k, c1..c4, u), evaluated through the exponential tail: its rounding
            # bound is C10's 1e-12 * (sum of the magnitudes of the terms of the representation), at each of the three points
            # (C09Bound.logpoly4_integral_difference_rounding: 1.003e-12 * (Mag a + Mag b + 2|k|))
            tol += mp.mpf('2e-12') * sum(q4_exact(fnums, pt)[1] for pt in (kx, a, b))
        full = line + f" # a={hx(a)} b={hx(b)}"
        if not (abs(mp.mpf(Fk) - mp.mpf(ky)) <= tol):
            failures.append(mkfail(full, f"F(knot.x)={Fk!r} but knot.y={ky!r}")); continue
        exact = poly_ln_integral(cs, a, b)
        err = abs((mp.mpf(Fb) - mp.mpf(Fa)) - exact)
        if err == err:
            worst = max(worst, float(err / scale))
        if not (err <= tol):
            failures.append(mkfail(full, f"F(b)-F(a)={float(mp.mpf(Fb)-mp.mpf(Fa))!r} (a={a!r}, b={b!r}) but the integral of p(ln t) over [a,b] is {float(exact)!r}"))
    return failures, worst, len(ev_lines)

def c09(args, rng):
    n = 1500 if args.tier == 'quick' else 60000
    items, classes, distinct = [], {}, set()
    for _ in range(n):
        deg = rng.randint(0, 8)
        style = rng.random()
        cs = [float(rng.randint(-6, 6)) if style < 0.4 else rng.uniform(-3, 3) for _ in range(deg + 1)]
        if rng.random() < 0.25:
            cs = [c * 10.0 ** rng.uniform(-8, 8) for c in cs]   # coefficient magnitudes across sixteen decades
        kx = rng.choice([rng.uniform(0.05, 20), 1.0, rng.uniform(0.5, 2.0), 2.0 ** rng.randint(-6, 6), 10.0 ** rng.uniform(-18, -3), 2.0 ** rng.randint(-60, 40), 10.0 ** rng.uniform(2, 15)])
        if deg == 4 and rng.random() < 0.4:
            # quartic form with u = 0 exactly: p0 - p1 + 2 p2 - 6 p3 + 24 p4 = 0
            p1, p2, p3, p4 = [float(rng.randint(-3, 3)) for _ in range(4)]
            cs = [p1 - 2 * p2 + 6 * p3 - 24 * p4, p1, p2, p3, p4]
        ky = rng.uniform(-5, 5)
        a = rng.choice([rng.uniform(0.05, 20), kx, 1.0, rng.uniform(0.7, 1.4), 10.0 ** rng.uniform(-15, -2)])
        b = rng.choice([rng.uniform(0.05, 20), rng.uniform(0.7, 1.4), 2.0 ** rng.randint(-4, 4), 10.0 ** rng.uniform(-15, -2), 10.0 ** rng.uniform(2, 15)])
        line = f"integral T=l{deg} p={','.join(hx(t) for t in cs)} k={hx(kx)},{hx(ky)}"
        items.append((deg, cs, kx, ky, a, b, line))
        classes[f"deg{deg}"] = classes.get(f"deg{deg}", 0) + 1
        distinct.add(line)
    failures, worst, nev = c09_run(items, args.harness)
    return dict(evaluations=len(items) + nev, distinct_nontrivial=len(distinct), classes=classes, worst_scaled_error=worst,
                failures=failures[:20], samples=[it[6] for it in items[:2]],
                rule="C09: random degree 0..8, coefficients, knot x>0 (incl. away from 1), points a,b>0; F(knot.x)=knot.y and F(b)-F(a) vs the closed-form integral in 400-bit mpmath; tolerance 2^12 u * (sum|c| n! L^n max(a,b,kx) + |ky|) (C09Bound proves < 2^9 u * the same scale in the standard model)")

def c11(args, rng):
    """Piecewise<Log<PolyK>>::integral(k0) on the implementation: first piece through k0, adjacent pieces agree at every
    interior breakpoint (C11 for log pieces; the Lean monitor cannot evaluate ln)"""
    n = 400 if args.tier == 'quick' else 20000
    cases, meta = [], []
    for _ in range(n):
        deg = rng.randint(0, 8)
        npieces = rng.randint(1, 6) if rng.random() < 0.9 else rng.randint(7, 60)
        ends = sorted(rng.choice([rng.uniform(0.05, 20), 2.0 ** rng.randint(-4, 4), rng.uniform(0.7, 1.4)]) for _ in range(npieces))
        if npieces > 1 and rng.random() < 0.2:
            ends[1] = ends[0]   # duplicate breakpoint
        pieces = [[float(rng.randint(-6, 6)) if rng.random() < 0.4 else rng.uniform(-3, 3) for _ in range(deg + 1)] for _ in ends]
        kx = rng.choice([ends[0], ends[0] * 0.5, rng.uniform(0.05, ends[0]), 1.0])
        ky = rng.uniform(-5, 5)
        pw = ';'.join(f"{hx(e)}:{','.join(hx(t) for t in p)}" for e, p in zip(ends, pieces))
        cases.append(f"pwintegral T=l{deg} pw={pw} k={hx(kx)},{hx(ky)}")
        meta.append((deg, ends, pieces, kx, ky))
    outs = run_impl(args.harness, cases)
    ev_lines, ev_meta = [], []
    for (deg, ends, pieces, kx, ky), line, o in zip(meta, cases, outs):
        if o.get('impl') in (None, 'PANIC'):
            continue
        tag = 'q4' if deg == 4 else f'i{deg}'
        segs = [s.split(':') for s in o['impl'].split(';')]
        pts = [(0, kx)] + [(i, ends[i]) for i in range(len(ends) - 1)] + [(i + 1, ends[i]) for i in range(len(ends) - 1)]
        for (i, x) in pts:
            ev_lines.append(f"eval T={tag} p={segs[i][1]} x={hx(x)}")
        ev_meta.append((deg, ends, pieces, kx, ky, line, len(pts), len(segs)))
    evs = run_impl(args.harness, ev_lines) if ev_lines else []
    failures, worst, classes, distinct, pos = [], 0.0, {}, set(), 0
    for (deg, ends, pieces, kx, ky, line, npts, nsegs) in ev_meta:
        vals = [fh(e['impl']) for e in evs[pos:pos + npts]]
        pos += npts
        classes[f"deg{deg}:n{len(ends)}"] = classes.get(f"deg{deg}:n{len(ends)}", 0) + 1
        distinct.add(line)
        if nsegs != len(ends):
            failures.append(mkfail(line, "integral has a different number of pieces")); continue
        L = max([abs(mp.log(mp.mpf(t))) for t in ends + [kx]] + [1])
        scale = sum(sum(abs(mp.mpf(c)) for c in p) for p in pieces) * mp.factorial(deg) * L ** deg * max(ends + [kx]) + abs(ky)
        tol = mp.mpf(2) ** -53 * 2 ** 12 * scale * (len(ends) + 1)
        if not (abs(mp.mpf(vals[0]) - mp.mpf(ky)) <= tol):
            failures.append(mkfail(line, f"first piece does not pass through k0: F(k0.x)={vals[0]!r}, k0.y={ky!r}")); continue
        m = len(ends) - 1
        for i in range(m):
            left, right = vals[1 + i], vals[1 + m + i]
            d = abs(mp.mpf(left) - mp.mpf(right))
            if d == d:
                worst = max(worst, float(d / scale))
            if not (d <= tol):
                failures.append(mkfail(line, f"adjacent pieces disagree at interior breakpoint #{i}: {left!r} vs {right!r}")); break
    return dict(evaluations=len(cases) + len(ev_lines), distinct_nontrivial=len(distinct), classes=classes, worst_scaled_jump=worst,
                failures=failures[:20], samples=cases[:2],
                rule="C11/log pieces: 1..6 Log<PolyK> pieces (positive breakpoints, duplicates), k0 inside / left of the first piece; F0(k0.x) = k0.y and F_i(e_i) = F_(i+1)(e_i) evaluated by the implementation, tolerance 2^12 u (n+1) * (sum|c| n! L^n max end + |k0.y|)")

def judge_c01(cs, v, y):
    deg = len(cs) - 1
    L = mp.log(mp.mpf(v))
    exact = sum(mp.mpf(c) * L ** i for i, c in enumerate(cs))
    S = sum(abs(mp.mpf(c)) * abs(L) ** i for i, c in enumerate(cs))
    dS = sum(i * abs(mp.mpf(c)) * abs(L) ** (i - 1) for i, c in enumerate(cs) if i > 0)
    u = mp.mpf(2) ** -53
    tol = 4 * (deg + 2) * u * S + 4 * u * abs(L) * dS + mp.mpf(2) ** -1070
    err = abs(mp.mpf(y) - exact) if y == y and abs(y) != float('inf') else mp.inf
    w = float(err / (u * (S + abs(L) * dS) + mp.mpf(2) ** -1070)) if S > 0 else 0.0
    if err > tol:
        return w, f"Log evaluate at v={v!r}: |impl - p(ln v)| = {float(err):.3e} exceeds 4(n+2)u*sum|c||ln v|^i + propagated ulp of ln ({float(tol):.3e})"
    return w, None

def c01(args, rng):
    """Log<PolyK>::evaluate(v) against p(ln v) with the true logarithm"""
    n = 3000 if args.tier == 'quick' else 100000
    cases, meta = [], []
    for _ in range(n):
        deg = rng.randint(0, 8)
        cs = [float(rng.randint(-6, 6)) if rng.random() < 0.4 else rng.uniform(-3, 3) for _ in range(deg + 1)]
        v = rng.choice([rng.uniform(0.05, 20), 10.0 ** rng.uniform(-300, 300), 2.0 ** rng.randint(-1000, 1000), 10.0 ** rng.uniform(-12, -2), ulp_step(1.0, rng.randint(-50, 50))])
        cases.append(f"eval T=l{deg} p={','.join(hx(t) for t in cs)} x={hx(v)}")
        meta.append((deg, cs, v))
    outs = run_impl(args.harness, cases)
    failures, worst, classes, distinct = [], 0.0, {}, set()
    for (deg, cs, v), line, o in zip(meta, cases, outs):
        classes[f"deg{deg}"] = classes.get(f"deg{deg}", 0) + 1
        distinct.add(line)
        if o.get('impl') == 'PANIC':
            failures.append(mkfail(line, 'panic for v>0')); continue
        w, why = judge_c01(cs, v, fh(o['impl']))
        worst = max(worst, w)
        if why:
            failures.append(mkfail(line, why))
    return dict(evaluations=len(cases), distinct_nontrivial=len(distinct), classes=classes, worst_error_in_units=worst,
                failures=failures[:20], samples=cases[:2],
                rule="C01/Log: degrees 0..8, v from 1e-300 to 1e300 incl. tiny v and v within 50 ulps of 1; reference p(ln v) in 400-bit mpmath; tolerance 4(n+2)u*sum|c||ln v|^i + 4u|ln v|*sum i|c||ln v|^(i-1)")

def replay_one(harness, raw):
    """(judged?, reason or None) for one replay line under one build of the harness"""
    line, _, tail = raw.partition(' # ')
    d = dict(t.split('=', 1) for t in line.split()[1:] if '=' in t)
    cmd, T = line.split()[0], d.get('T', '')
    if cmd == 'eval' and T == 'q4' and 'x' in d:
        o = _run_impl(harness, [line])[0]
        return True, ('panic for v>0' if o.get('impl') == 'PANIC' else judge_c10([fh(t) for t in d['p'].split(',')], fh(d['x']), fh(o['impl']))[1])
    if cmd == 'eval' and T.startswith('l') and 'x' in d:
        o = _run_impl(harness, [line])[0]
        return True, ('panic for v>0' if o.get('impl') == 'PANIC' else judge_c01([fh(t) for t in d['p'].split(',')], fh(d['x']), fh(o['impl']))[1])
    if cmd == 'integral' and T.startswith('l') and tail:
        ab = dict(t.split('=', 1) for t in tail.split() if '=' in t)
        kx, ky = [fh(t) for t in d['k'].split(',')]
        fails, _, _ = c09_run([(int(T[1:]), [fh(t) for t in d['p'].split(',')], kx, ky, fh(ab['a']), fh(ab['b']), line)], harness)
        return True, (fails[0]['shrunk_response'] if fails else None)
    return False, None

def replay(args):
    """re-judge the oracle-found lines of a replay file against the current implementation, in both build profiles"""
    global HARNESS2
    builds = [("dev", args.harness)] + ([("release", HARNESS2)] if HARNESS2 else [])
    HARNESS2 = None
    bad = 0
    for raw in open(args.replay):
        raw = raw.strip()
        if not raw or raw.startswith('#'):
            continue
        for prof, h in builds:
            judged, why = replay_one(h, raw)
            if not judged:
                break
            print((f'ORACLE-FAIL [{prof}] ' + why if why else f'oracle-ok [{prof}]') + ' :: ' + raw[:200])
            bad += 1 if why else 0
    sys.exit(1 if bad else 0)

def main():
    ap = argparse.ArgumentParser()
    ap.add_argument('--tier', default='quick'); ap.add_argument('--seed', type=int, default=1)
    ap.add_argument('--harness', required=True); ap.add_argument('--out', required=True); ap.add_argument('--prop', required=True)
    ap.add_argument('--replay'); ap.add_argument('--harness2')
    args = ap.parse_args()
    global HARNESS2
    if args.harness2 and os.path.exists(args.harness2):
        HARNESS2 = args.harness2
    if args.replay:
        return replay(args)
    rng = random.Random(args.seed * 7919 + sum(map(ord, args.prop)))
    t0 = time.time()
    res = c10(args, rng) if args.prop == 'C10' else (c01(args, rng) if args.prop == 'C01' else (c11(args, rng) if args.prop == 'C11' else c09(args, rng)))
    res['wall_s'] = time.time() - t0
    json.dump(res, open(args.out, 'w'))

if __name__ == '__main__':
    main()
