//! Loop / iterator / slice subset: the idioms of the former hand-modelled items, emitted as calls to
//! `PP/Core/Iter.lean`.  Panics are explicit: a body that contains an operation that can panic is
//! translated in `Option` mode (`none` = panic) and threads the operations with `Option.bind`.
//!
//! Hoisting: an operation with an effect on a local (`it.next()`, `f(&mut x, ..)`) or one that can panic
//! (`v[i]`, `unwrap()`, `a - b` on usize) is emitted as a line *before* the statement that contains it
//! (`cx.pending`), in evaluation order.  This is sound because everything else in an expression is pure;
//! lazily evaluated positions (branches, `&&`/`||` right operands, closure bodies) get their own frame or
//! are rejected, and a variable that was read earlier in the same statement may not be rebound.

//!
//! Modelling decisions (also stated in `PP/Core/Iter.lean`): `Vec`, slices and iterators are lists; an
//! iterator adaptor chain is the list of the items it would yield if driven to the end, so a `map` whose
//! closure can panic is `none` as soon as *some* item panics (exact for `collect()` and for a returned
//! iterator that the caller exhausts); `usize` is `Nat` with checked `-` and unbounded `+`/`*`.
//! The captured variable of a stateful closure is removed from scope when the closure is created.

use super::*;

pub(crate) const NEEDS_OPTION: &str = "\u{1}needs-option";
pub(crate) const NESTED_PANIC: &str = "operation that can panic inside a nested block in value position";

#[derive(Clone, Debug, PartialEq)]
pub(crate) enum Sort {
    Other,
    Nat,
    List,
    Opt(Box<Sort>),
    Struct(String),
    /// a Rust tuple (Lean product, right-nested)
    Tuple(Vec<Sort>),
    /// `std::cmp::Ordering` (core Lean's `Ordering`)
    Ordering,
}

#[derive(Clone, Debug)]
pub(crate) struct Frame {
    /// `cx.scopes.len()` before the scope of the closure / arm was pushed
    pub base: usize,
    /// outer variables assigned at the top level of the closure / arm
    pub mutated: Vec<String>,
}

pub(crate) struct ClosureOut {
    pub params: Vec<String>,
    pub lines: Vec<String>,
    pub tail: String,
    pub state: Vec<String>,
    pub fallible: bool,
}

impl ClosureOut {
    /// the Lean lambda; a captured mutable variable becomes the first parameter and the second component
    /// of the result
    pub fn lambda(&self) -> String {
        let mut ps: Vec<String> = self.state.iter().map(|s| lean_ident(s)).collect();
        ps.extend(self.params.iter().cloned());
        let mut ret = self.tail.clone();
        if let Some(s) = self.state.first() {
            ret = format!("({ret}, {})", lean_ident(s));
        }
        if self.fallible {
            ret = format!("some ({ret})");
        }
        let mut body = self.lines.join(" ");
        if !body.is_empty() {
            body.push(' ');
        }
        format!("(fun {} => {body}{ret})", ps.join(" "))
    }
}

/// registry entry of an inherent / free function that went through the loop route
#[derive(Clone, Debug)]
pub(crate) struct LoopFn {
    pub lean: String,
    pub ok: bool,
    pub fallible: bool,
    pub ret: Sort,
}

pub(crate) fn simple_var(e: &Expr) -> Option<String> {
    match e {
        Expr::Paren(p) => simple_var(&p.expr),
        Expr::Group(g) => simple_var(&g.expr),
        Expr::Path(p) if p.qself.is_none() && p.path.segments.len() == 1 => Some(p.path.segments[0].ident.to_string()),
        _ => None,
    }
}

fn path_segs(e: &Expr) -> Option<Vec<String>> {
    if let Expr::Path(p) = e {
        if p.qself.is_none() {
            return Some(p.path.segments.iter().map(|s| s.ident.to_string()).collect());
        }
    }
    None
}

impl BodyCx {
    pub(super) fn fresh(&mut self) -> String {
        self.tmp += 1;
        format!("v'{}", self.tmp)
    }
}

impl Translator {
    // ------------------------------------------------------------------ sorts

    pub(super) fn sort_of_type(&self, ty: &Type, tcx: &TyCtx) -> Sort {
        match ty {
            Type::Reference(r) => self.sort_of_type(&r.elem, tcx),
            Type::Paren(p) => self.sort_of_type(&p.elem, tcx),
            Type::Slice(_) => Sort::List,
            Type::ImplTrait(it) => {
                if impl_iterator_item(it).is_some() {
                    Sort::List
                } else {
                    Sort::Other
                }
            }
            Type::Path(p) if p.qself.is_none() => {
                let Some(last) = p.path.segments.last() else { return Sort::Other };
                let id = last.ident.to_string();
                match id.as_str() {
                    "Vec" => return Sort::List,
                    "usize" => return Sort::Nat,
                    "Self" => return tcx.self_struct.clone().map(Sort::Struct).unwrap_or(Sort::Other),
                    "Option" => {
                        if let PathArguments::AngleBracketed(ab) = &last.arguments {
                            if let Some(GenericArgument::Type(t)) = ab.args.first() {
                                return Sort::Opt(Box::new(self.sort_of_type(t, tcx)));
                            }
                        }
                        return Sort::Opt(Box::new(Sort::Other));
                    }
                    _ => {}
                }
                if p.path.segments.len() == 1 {
                    if let Some(g) = tcx.generics.get(&id) {
                        if g.starts_with("(List ") {
                            return Sort::List;
                        }
                        return Sort::Other;
                    }
                    if self.structs.contains_key(&id) {
                        return Sort::Struct(id);
                    }
                }
                Sort::Other
            }
            _ => Sort::Other,
        }
    }

    /// syntactic sort of an expression (no translation, no effect on `cx`)
    pub(super) fn sort_of(&self, e: &Expr, cx: &BodyCx) -> Sort {
        match e {
            Expr::Paren(p) => self.sort_of(&p.expr, cx),
            Expr::Group(g) => self.sort_of(&g.expr, cx),
            Expr::Reference(r) => self.sort_of(&r.expr, cx),
            Expr::Unary(u) if matches!(u.op, UnOp::Deref(_)) => self.sort_of(&u.expr, cx),
            Expr::Lit(l) => match &l.lit {
                Lit::Int(i) if i.suffix().is_empty() || i.suffix() == "usize" => Sort::Nat,
                _ => Sort::Other,
            },
            Expr::Path(_) => match simple_var(e) {
                Some(v) => cx.sort_of_var(&v),
                None => Sort::Other,
            },
            Expr::Field(f) => {
                let Sort::Struct(s) = self.sort_of(&f.base, cx) else { return Sort::Other };
                let Some(info) = self.structs.get(&s) else { return Sort::Other };
                let name = match &f.member {
                    Member::Named(i) => lean_ident(&i.to_string()),
                    Member::Unnamed(ix) => format!("_{}", ix.index),
                };
                for (fname, ty) in &info.fields {
                    if *fname == name {
                        return self.sort_of_type(ty, &TyCtx::default());
                    }
                }
                Sort::Other
            }
            Expr::Binary(b) => match b.op {
                BinOp::Add(_) | BinOp::Sub(_) | BinOp::Mul(_) => {
                    if self.sort_of(&b.left, cx) == Sort::Nat || self.sort_of(&b.right, cx) == Sort::Nat {
                        Sort::Nat
                    } else {
                        Sort::Other
                    }
                }
                _ => Sort::Other,
            },
            Expr::Index(ix) => {
                if self.sort_of(&ix.expr, cx) == Sort::List && matches!(&*ix.index, Expr::Range(_)) {
                    Sort::List
                } else {
                    Sort::Other
                }
            }
            Expr::Block(b) => match b.block.stmts.last() {
                Some(Stmt::Expr(t, None)) => self.sort_of(t, cx),
                _ => Sort::Other,
            },
            Expr::Call(c) => {
                let Some(segs) = path_segs(&c.func) else { return Sort::Other };
                let strs: Vec<&str> = segs.iter().map(|s| s.as_str()).collect();
                match strs.as_slice() {
                    ["Vec", "new"] | ["Vec", "with_capacity"] | ["iter", "once"] | ["std", "iter", "once"] => Sort::List,
                    [a, b] => self.loop_fns.get(&(a.to_string(), b.to_string())).map(|f| f.ret.clone()).unwrap_or(Sort::Other),
                    _ => Sort::Other,
                }
            }
            Expr::MethodCall(mc) => {
                let m = mc.method.to_string();
                match self.sort_of(&mc.receiver, cx) {
                    Sort::List => match m.as_str() {
                        "iter" | "into_iter" | "cloned" | "copied" | "rev" | "map" | "chain" | "skip" | "zip" | "collect" | "clone" | "enumerate" => Sort::List,
                        "len" => Sort::Nat,
                        "position" => Sort::Opt(Box::new(Sort::Nat)),
                        "next" | "first" | "last" | "get_mut" | "get" | "find_map" => Sort::Opt(Box::new(Sort::Other)),
                        "split_first" | "split_last" => Sort::Opt(Box::new(Sort::Tuple(vec![Sort::Other, Sort::List]))),
                        "split_at_checked" => Sort::Opt(Box::new(Sort::Tuple(vec![Sort::List, Sort::List]))),
                        _ => Sort::Other,
                    },
                    Sort::Opt(inner) => match m.as_str() {
                        "unwrap" | "expect" | "unwrap_or" => *inner,
                        "map_or" => mc.args.first().map(|a| self.sort_of(a, cx)).unwrap_or(Sort::Other),
                        "map" => Sort::Opt(Box::new(Sort::Other)),
                        _ => Sort::Other,
                    },
                    Sort::Nat => match m.as_str() {
                        "saturating_sub" | "min" => Sort::Nat,
                        _ => Sort::Other,
                    },
                    // `a.partial_cmp(&b)` on floats (dispatched by name, like `max` / `abs`)
                    Sort::Other if m == "partial_cmp" => Sort::Opt(Box::new(Sort::Ordering)),
                    _ => Sort::Other,
                }
            }
            _ => Sort::Other,
        }
    }

    // ------------------------------------------------------------------ hoisting

    pub(super) fn bind_opt(&self, cx: &mut BodyCx, e: String) -> R<String> {
        if !cx.opt_mode {
            return Err(NEEDS_OPTION.into());
        }
        let v = cx.fresh();
        cx.pending.push(format!("Option.bind {e} fun {v} =>"));
        cx.n_binds += 1;
        Ok(v)
    }

    /// move the hoisted lines of the statement just translated in front of it
    pub(super) fn flush(&self, cx: &mut BodyCx, lines: &mut Vec<String>) {
        lines.append(&mut cx.pending);
        cx.mutated.clear();
        cx.reads.clear();
    }

    /// a hoisted line rebinds `var`: not allowed if the statement has already read it
    fn hoisted_mutation(&self, cx: &mut BodyCx, var: &str) -> R<()> {
        self.note_mutation(cx, var)?;
        if cx.reads.iter().any(|r| r == var) {
            return Err(format!("variable {var} is read and then mutated within one expression"));
        }
        cx.mutated.push(var.to_string());
        Ok(())
    }

    /// may the current position assign to `root`?
    pub(super) fn note_mutation(&self, cx: &mut BodyCx, root: &str) -> R<()> {
        match cx.scope_of(root) {
            None => Err(format!("assignment to unknown variable {root}")),
            Some(i) if i + 1 != cx.scopes.len() => {
                let depth = cx.scopes.len();
                if let Some(fr) = cx.frames.last_mut() {
                    if i < fr.base && depth == fr.base + 1 {
                        if !fr.mutated.iter().any(|m| m == root) {
                            fr.mutated.push(root.to_string());
                        }
                        return Ok(());
                    }
                }
                Err(format!("nested block mutates outer variable {root}"))
            }
            _ => Ok(()),
        }
    }

    /// translate `f` with its own hoisting frame; returns its value and the lines it hoisted
    pub(super) fn framed<T>(&self, cx: &mut BodyCx, f: impl FnOnce(&Self, &mut BodyCx) -> R<T>) -> R<(T, Vec<String>)> {
        let sp = std::mem::take(&mut cx.pending);
        let sm = std::mem::take(&mut cx.mutated);
        let sr = std::mem::take(&mut cx.reads);
        let r = f(self, cx);
        let mine = std::mem::replace(&mut cx.pending, sp);
        cx.mutated = sm;
        cx.reads = sr;
        r.map(|v| (v, mine))
    }

    /// a lazily evaluated sub-expression in value position: its hoisted lines stay inside it
    pub(super) fn expr_local(&self, e: &Expr, cx: &mut BodyCx) -> R<String> {
        let nb = cx.n_binds;
        let (v, pre) = self.framed(cx, |s, cx| s.expr(e, cx))?;
        if cx.n_binds != nb {
            return Err("operation that can panic inside a lazily evaluated expression in value position".into());
        }
        if pre.is_empty() {
            Ok(v)
        } else {
            Ok(format!("({} {v})", pre.join(" ")))
        }
    }

    // ------------------------------------------------------------------ Option-valued positions

    /// `e` as a term of type `Option _` (only in `opt_mode`): branches stay branches, everything else is
    /// `binds… some (value)`
    pub(super) fn expr_opt(&self, e: &Expr, cx: &mut BodyCx) -> R<String> {
        let (v, _) = self.framed(cx, |s, cx| s.expr_opt_inner(e, cx))?;
        Ok(v)
    }

    fn expr_opt_inner(&self, e: &Expr, cx: &mut BodyCx) -> R<String> {
        let join = |pre: Vec<String>, t: String| if pre.is_empty() { t } else { format!("{} {t}", pre.join(" ")) };
        match strip_paren(e) {
            Expr::If(i) if i.else_branch.is_some() => {
                let c = self.expr(&i.cond, cx)?;
                let pre = std::mem::take(&mut cx.pending);
                let t = self.block_opt(&i.then_branch, cx)?;
                let el = self.expr_opt(&i.else_branch.as_ref().unwrap().1, cx)?;
                Ok(join(pre, format!("(if {c} then ({t}) else ({el}))")))
            }
            Expr::Match(m) => {
                let s = self.expr(&m.expr, cx)?;
                let pre = std::mem::take(&mut cx.pending);
                let t = self.match_arms(m, &s, cx, true)?;
                Ok(join(pre, t))
            }
            Expr::Block(b) if b.label.is_none() => self.block_opt(&b.block, cx),
            other => {
                let v = self.expr(other, cx)?;
                let mut pre = std::mem::take(&mut cx.pending);
                // `Option.bind E fun v => some v` is `E`
                if let Some(last) = pre.last() {
                    if let Some(rest) = last.strip_prefix("Option.bind ") {
                        if let Some(ex) = rest.strip_suffix(&format!(" fun {v} =>")) {
                            let ex = ex.to_string();
                            pre.pop();
                            return Ok(join(pre, ex));
                        }
                    }
                }
                Ok(join(pre, format!("some ({v})")))
            }
        }
    }

    pub(super) fn block_opt(&self, b: &Block, cx: &mut BodyCx) -> R<String> {
        cx.scopes.push(BTreeMap::new());
        let r = self.framed(cx, |s, cx| s.block_lines(&b.stmts, cx, false, true));
        cx.scopes.pop();
        let ((lines, tail), _) = r?;
        let tail = tail.ok_or("block without value")?;
        if lines.is_empty() {
            Ok(tail)
        } else {
            Ok(format!("{} {tail}", lines.join(" ")))
        }
    }

    /// `let x = { stmts; tail };` in Option mode.  The block is evaluated on the spot, so if it
    /// contains an operation that can panic its statements are spliced into the enclosing lines
    /// (allowed only if it declares no name that is already in scope).
    pub(super) fn block_initialiser(&self, b: &Block, cx: &mut BodyCx, lines: &mut Vec<String>) -> R<String> {
        let mut trial = cx.clone();
        match self.block_expr(b, &mut trial) {
            Ok(v) => {
                *cx = trial;
                return Ok(v);
            }
            Err(e) if e == NESTED_PANIC => {}
            Err(e) => return Err(e),
        }
        cx.scopes.push(BTreeMap::new());
        let r = self.framed(cx, |s, cx| s.block_lines(&b.stmts, cx, false, false));
        let inner = cx.scopes.pop().unwrap();
        let ((ls, tail), _) = r?;
        for n in inner.keys() {
            if cx.scope_of(n).is_some() {
                return Err(format!("block initialiser that can panic redeclares {n}"));
            }
        }
        lines.extend(ls);
        tail.ok_or_else(|| "block without value".to_string())
    }

    /// `let Knot { x: x0, y: y0 } = e;`
    pub(super) fn let_struct(&self, ps: &PatStruct, init: &Expr, cx: &mut BodyCx, lines: &mut Vec<String>) -> R<()> {
        if ps.qself.is_some() {
            return Err("qualified struct pattern".into());
        }
        let name = ps.path.segments.last().map(|s| s.ident.to_string()).unwrap_or_default();
        let info = self.structs.get(&name).ok_or(format!("unknown struct {name} in pattern"))?;
        let mut binds = vec![];
        for fp in &ps.fields {
            let fname = match &fp.member {
                Member::Named(i) => lean_ident(&i.to_string()),
                Member::Unnamed(ix) => format!("_{}", ix.index),
            };
            let Some((_, fty)) = info.fields.iter().find(|(f, _)| *f == fname) else { return Err(format!("struct {name} has no field {fname}")) };
            let Pat::Ident(pi) = &*fp.pat else { return Err("nested pattern in struct pattern".into()) };
            if pi.subpat.is_some() {
                return Err("@ pattern".into());
            }
            binds.push((pi.ident.to_string(), fname, self.sort_of_type(fty, &TyCtx::default())));
        }
        let e = self.expr(init, cx)?;
        self.flush(cx, lines);
        let t = cx.fresh();
        lines.push(format!("let {t} := {e};"));
        for (n, f, sort) in binds {
            cx.declare_s(&n, sort);
            lines.push(format!("let {} := {t}.{f};", lean_ident(&n)));
        }
        Ok(())
    }

    // ------------------------------------------------------------------ match on Option

    fn option_pattern<'a>(&self, p: &'a Pat) -> R<Option<Option<&'a Pat>>> {
        // Ok(Some(None)) = `None`; Ok(Some(Some(p))) = `Some(p)`
        match p {
            Pat::Ident(pi) if pi.ident == "None" && pi.subpat.is_none() => Ok(Some(None)),
            Pat::Path(pp) if pp.path.is_ident("None") => Ok(Some(None)),
            Pat::TupleStruct(ts) if ts.path.is_ident("Some") && ts.elems.len() == 1 => Ok(Some(Some(&ts.elems[0]))),
            _ => Ok(None),
        }
    }

    /// pattern of a closure parameter / `Some(..)` payload: identifiers, `&p`, tuples
    pub(super) fn bind_pattern(&self, p: &Pat, cx: &mut BodyCx, sort: Sort) -> R<String> {
        match p {
            Pat::Ident(pi) => {
                if pi.by_ref.is_some() || pi.subpat.is_some() {
                    return Err("ref / @ pattern".into());
                }
                let n = pi.ident.to_string();
                cx.declare_s(&n, sort);
                Ok(lean_ident(&n))
            }
            Pat::Reference(r) => self.bind_pattern(&r.pat, cx, sort),
            Pat::Paren(pp) => self.bind_pattern(&pp.pat, cx, sort),
            Pat::Type(pt) => self.bind_pattern(&pt.pat, cx, sort),
            Pat::Wild(_) => Ok("_".into()),
            Pat::Tuple(t) => {
                let elem_sorts = match &sort {
                    Sort::Tuple(v) if v.len() == t.elems.len() => v.clone(),
                    _ => vec![Sort::Other; t.elems.len()],
                };
                let mut parts = vec![];
                for (el, es) in t.elems.iter().zip(elem_sorts) {
                    parts.push(self.bind_pattern(el, cx, es)?);
                }
                Ok(format!("({})", parts.join(", ")))
            }
            _ => Err("unsupported binding pattern".into()),
        }
    }

    /// `match <Option> { None => a, Some(p) => b }` in value position
    fn match_arms(&self, m: &ExprMatch, scrut: &str, cx: &mut BodyCx, opt: bool) -> R<String> {
        let inner = match self.sort_of(&m.expr, cx) {
            Sort::Opt(i) => *i,
            _ => return Err("match on a scrutinee that is not known to be an Option".into()),
        };
        if m.arms.len() != 2 {
            return Err("match with other than two arms".into());
        }
        let mut none_arm = None;
        let mut some_arm = None;
        for arm in &m.arms {
            if arm.guard.is_some() {
                return Err("match guard".into());
            }
            cx.scopes.push(BTreeMap::new());
            let r = (|| -> R<(bool, String, String)> {
                match self.option_pattern(&arm.pat)? {
                    Some(None) => {
                        let b = if opt { self.expr_opt(&arm.body, cx)? } else { self.expr_local(&arm.body, cx)? };
                        Ok((false, String::new(), b))
                    }
                    Some(Some(p)) => {
                        let pat = self.bind_pattern(p, cx, inner.clone())?;
                        let b = if opt { self.expr_opt(&arm.body, cx)? } else { self.expr_local(&arm.body, cx)? };
                        Ok((true, pat, b))
                    }
                    None => Err("match arm pattern other than None / Some(..)".into()),
                }
            })();
            cx.scopes.pop();
            let (is_some, pat, body) = r?;
            if is_some {
                some_arm = Some((pat, body));
            } else {
                none_arm = Some(body);
            }
        }
        let (Some(n), Some((p, s))) = (none_arm, some_arm) else { return Err("match does not have one None and one Some arm".into()) };
        Ok(format!("(match {scrut} with | none => ({n}) | some {p} => ({s}))"))
    }

    pub(super) fn match_expr(&self, m: &ExprMatch, cx: &mut BodyCx) -> R<String> {
        let s = self.expr(&m.expr, cx)?;
        self.match_arms(m, &s, cx, false)
    }

    // ------------------------------------------------------------------ closures

    pub(super) fn closure_fn(&self, cl: &ExprClosure, cx: &mut BodyCx, sorts: &[Sort]) -> R<ClosureOut> {
        if cl.inputs.len() != sorts.len() {
            return Err("closure arity".into());
        }
        let sp = std::mem::take(&mut cx.pending);
        let sm = std::mem::take(&mut cx.mutated);
        let sr = std::mem::take(&mut cx.reads);
        let (s_opt, s_tmp, s_binds, s_ret) = (cx.opt_mode, cx.tmp, cx.n_binds, cx.allow_return);
        let mut out: R<ClosureOut> = Err("closure".into());
        for attempt in 0..2 {
            cx.opt_mode = attempt == 1;
            cx.allow_return = false;
            cx.tmp = s_tmp;
            cx.pending.clear();
            cx.mutated.clear();
            cx.reads.clear();
            cx.frames.push(Frame { base: cx.scopes.len(), mutated: vec![] });
            cx.scopes.push(BTreeMap::new());
            let r = (|| -> R<(Vec<String>, Vec<String>, String)> {
                let mut params = vec![];
                for (p, s) in cl.inputs.iter().zip(sorts) {
                    params.push(self.bind_pattern(p, cx, s.clone())?);
                }
                let (lines, tail) = match strip_paren(&cl.body) {
                    Expr::Block(b) if b.label.is_none() => {
                        let (l, t) = self.block_lines(&b.block.stmts, cx, false, false)?;
                        (l, t.ok_or("closure body without value")?)
                    }
                    other => {
                        let t = self.expr(other, cx)?;
                        let mut l = vec![];
                        self.flush(cx, &mut l);
                        (l, t)
                    }
                };
                Ok((params, lines, tail))
            })();
            cx.scopes.pop();
            let fr = cx.frames.pop().unwrap();
            match r {
                Err(e) if e == NEEDS_OPTION && attempt == 0 => continue,
                Err(e) => {
                    out = Err(e);
                    break;
                }
                Ok((params, lines, tail)) => {
                    out = Ok(ClosureOut { params, lines, tail, state: fr.mutated, fallible: attempt == 1 });
                    break;
                }
            }
        }
        cx.opt_mode = s_opt;
        cx.allow_return = s_ret;
        cx.n_binds = s_binds;
        cx.pending = sp;
        cx.mutated = sm;
        cx.reads = sr;
        let out = out?;
        if !out.state.is_empty() && !cx.frames.is_empty() {
            return Err("stateful closure inside another closure".into());
        }
        if out.state.len() > 1 {
            return Err("closure mutates more than one captured variable".into());
        }
        Ok(out)
    }

    fn pure_closure(&self, e: &Expr, cx: &mut BodyCx, sorts: &[Sort], what: &str) -> R<String> {
        let Expr::Closure(cl) = strip_paren(e) else { return Err(format!("{what}: argument is not a closure")) };
        let co = self.closure_fn(cl, cx, sorts)?;
        if co.fallible {
            return Err(format!("{what}: closure can panic"));
        }
        if !co.state.is_empty() {
            return Err(format!("{what}: closure mutates a captured variable"));
        }
        Ok(co.lambda())
    }

    /// the captured variable of a stateful closure is consumed with it
    fn consume_state(&self, cx: &mut BodyCx, var: &str) {
        if let Some(i) = cx.scope_of(var) {
            cx.scopes[i].remove(var);
        }
    }

    // ------------------------------------------------------------------ expressions

    /// methods of `Vec` / slices / iterators / `Option`; `None` = not ours
    pub(super) fn loop_method(&self, mc: &ExprMethodCall, cx: &mut BodyCx) -> R<Option<String>> {
        let m = mc.method.to_string();
        if simple_var(&mc.receiver).as_deref() == Some("self") {
            if cx.bad_siblings.contains(&m) {
                return Err(format!("call of sibling method `{m}`, which is not translated"));
            }
            if cx.opt_siblings.contains(&m) {
                if let Some(d) = cx.siblings.get(&m).cloned() {
                    let mut args = vec![];
                    for a in &mc.args {
                        args.push(self.expr(a, cx)?);
                    }
                    let call = format!("({d} self {})", args.join(" ")).replace(" )", ")");
                    return Ok(Some(self.bind_opt(cx, call)?));
                }
            }
        }
        let nargs = mc.args.len();
        let arity = |n: usize| -> R<()> {
            if nargs == n {
                Ok(())
            } else {
                Err(format!("method {m}: expected {n} arguments"))
            }
        };
        match self.sort_of(&mc.receiver, cx) {
            Sort::List => {
                match m.as_str() {
                    "iter" | "into_iter" | "cloned" | "copied" | "collect" => {
                        arity(0)?;
                        Ok(Some(self.expr(&mc.receiver, cx)?))
                    }
                    "rev" | "len" | "is_empty" | "first" | "last" => {
                        arity(0)?;
                        let r = self.expr(&mc.receiver, cx)?;
                        let f = match m.as_str() {
                            "rev" => "rev",
                            "len" => "len",
                            "is_empty" => "isEmpty",
                            "first" => "first",
                            _ => "last",
                        };
                        Ok(Some(format!("(Iter.{f} {r})")))
                    }
                    "zip" | "chain" | "skip" => {
                        arity(1)?;
                        let r = self.expr(&mc.receiver, cx)?;
                        let want = if m == "skip" { Sort::Nat } else { Sort::List };
                        if self.sort_of(&mc.args[0], cx) != want {
                            return Err(format!("{m}: argument of unknown kind"));
                        }
                        let a = self.expr(&mc.args[0], cx)?;
                        Ok(Some(format!("(Iter.{m} {r} {a})")))
                    }
                    "next" => {
                        arity(0)?;
                        let Some(var) = simple_var(&mc.receiver) else { return Err("next() on an iterator that is not a local variable".into()) };
                        self.hoisted_mutation(cx, &var)?;
                        let v = cx.fresh();
                        let xl = lean_ident(&var);
                        cx.pending.push(format!("let {v} := (Iter.next {xl});"));
                        cx.pending.push(format!("let {xl} := {v}.2;"));
                        Ok(Some(format!("{v}.1")))
                    }
                    "position" => {
                        arity(1)?;
                        let r = self.expr(&mc.receiver, cx)?;
                        let f = self.pure_closure(&mc.args[0], cx, &[Sort::Other], "position")?;
                        Ok(Some(format!("(Iter.position {r} {f})")))
                    }
                    "fold" => {
                        arity(2)?;
                        let r = self.expr(&mc.receiver, cx)?;
                        let init = self.expr(&mc.args[0], cx)?;
                        let f = self.pure_closure(&mc.args[1], cx, &[Sort::Other, Sort::Other], "fold")?;
                        Ok(Some(format!("(Iter.fold {r} {init} {f})")))
                    }
                    "map" => {
                        arity(1)?;
                        let r = self.expr(&mc.receiver, cx)?;
                        let Expr::Closure(cl) = strip_paren(&mc.args[0]) else { return Err("map: argument is not a closure".into()) };
                        let co = self.closure_fn(cl, cx, &[Sort::Other])?;
                        let f = co.lambda();
                        match (co.state.first(), co.fallible) {
                            (None, false) => Ok(Some(format!("(Iter.map {r} {f})"))),
                            (None, true) => Ok(Some(self.bind_opt(cx, format!("(Iter.mapM {r} {f})"))?)),
                            (Some(s), fallible) => {
                                if cx.reads.iter().any(|x| x == s) {
                                    return Err(format!("variable {s} is read and then captured mutably within one expression"));
                                }
                                let sl = lean_ident(s);
                                self.consume_state(cx, s);
                                if fallible {
                                    Ok(Some(self.bind_opt(cx, format!("(Iter.mapAccumM {r} {sl} {f})"))?))
                                } else {
                                    Ok(Some(format!("(Iter.mapAccum {r} {sl} {f})")))
                                }
                            }
                        }
                    }
                    "enumerate" | "split_first" | "split_last" => {
                        arity(0)?;
                        let r = self.expr(&mc.receiver, cx)?;
                        let f = match m.as_str() {
                            "enumerate" => "enumerate",
                            "split_first" => "splitFirst",
                            _ => "splitLast",
                        };
                        Ok(Some(format!("(Iter.{f} {r})")))
                    }
                    "split_at_checked" => {
                        arity(1)?;
                        let r = self.expr(&mc.receiver, cx)?;
                        if self.sort_of(&mc.args[0], cx) != Sort::Nat {
                            return Err("split_at_checked: argument of unknown kind".into());
                        }
                        let a = self.expr(&mc.args[0], cx)?;
                        Ok(Some(format!("(Iter.splitAtChecked {r} {a})")))
                    }
                    "find_map" => {
                        arity(1)?;
                        let r = self.expr(&mc.receiver, cx)?;
                        let f = self.pure_closure(&mc.args[0], cx, &[Sort::Other], "find_map")?;
                        Ok(Some(format!("(Iter.findMap {r} {f})")))
                    }
                    "all" => {
                        arity(1)?;
                        let r = self.expr(&mc.receiver, cx)?;
                        let f = self.pure_closure(&mc.args[0], cx, &[Sort::Other], "all")?;
                        Ok(Some(format!("(Iter.all {r} {f})")))
                    }
                    _ => Ok(None),
                }
            }
            Sort::Nat => match m.as_str() {
                "saturating_sub" | "min" => {
                    arity(1)?;
                    let r = self.expr(&mc.receiver, cx)?;
                    if self.sort_of(&mc.args[0], cx) != Sort::Nat {
                        return Err(format!("{m}: argument of unknown kind"));
                    }
                    let a = self.expr(&mc.args[0], cx)?;
                    let f = if m == "min" { "umin" } else { "saturatingSub" };
                    Ok(Some(format!("(Iter.{f} {r} {a})")))
                }
                _ => Ok(None),
            },
            Sort::Opt(inner) => match m.as_str() {
                "unwrap" | "expect" => {
                    let r = self.expr(&mc.receiver, cx)?;
                    Ok(Some(self.bind_opt(cx, r)?))
                }
                "map_or" => {
                    arity(2)?;
                    let r = self.expr(&mc.receiver, cx)?;
                    let d = self.expr(&mc.args[0], cx)?;
                    let f = self.pure_closure(&mc.args[1], cx, &[*inner], "map_or")?;
                    Ok(Some(format!("(Iter.mapOr {r} {d} {f})")))
                }
                "unwrap_or" => {
                    arity(1)?;
                    let r = self.expr(&mc.receiver, cx)?;
                    let d = self.expr(&mc.args[0], cx)?;
                    Ok(Some(format!("(Iter.unwrapOr {r} {d})")))
                }
                "map" => {
                    arity(1)?;
                    let r = self.expr(&mc.receiver, cx)?;
                    let f = self.pure_closure(&mc.args[0], cx, &[*inner], "map")?;
                    Ok(Some(format!("(Iter.optMap {r} {f})")))
                }
                _ => Err(format!("unsupported method `{m}` on an Option")),
            },
            _ => Ok(None),
        }
    }

    /// `v[i]`, `&v[a..]`, `&v[..b]` on a `Vec` / slice
    pub(super) fn list_index(&self, ix: &ExprIndex, cx: &mut BodyCx) -> R<Option<String>> {
        if self.sort_of(&ix.expr, cx) != Sort::List {
            return Ok(None);
        }
        let base = self.expr(&ix.expr, cx)?;
        if let Expr::Range(r) = &*ix.index {
            if !matches!(r.limits, RangeLimits::HalfOpen(_)) {
                return Err("inclusive range".into());
            }
            return match (&r.start, &r.end) {
                (Some(a), None) => {
                    let a = self.expr(a, cx)?;
                    Ok(Some(self.bind_opt(cx, format!("(Iter.sliceFrom {base} {a})"))?))
                }
                (None, Some(b)) => {
                    let b = self.expr(b, cx)?;
                    Ok(Some(self.bind_opt(cx, format!("(Iter.sliceTo {base} {b})"))?))
                }
                _ => Err("unsupported range form".into()),
            };
        }
        if self.sort_of(&ix.index, cx) != Sort::Nat {
            return Err("index of unknown kind".into());
        }
        let i = self.expr(&ix.index, cx)?;
        Ok(Some(self.bind_opt(cx, format!("(Iter.index {base} {i})"))?))
    }

    /// arithmetic and comparisons on `usize`
    pub(super) fn int_binary(&self, b: &ExprBinary, cx: &mut BodyCx) -> R<Option<String>> {
        if self.sort_of(&b.left, cx) != Sort::Nat && self.sort_of(&b.right, cx) != Sort::Nat {
            return Ok(None);
        }
        let l = self.expr(&b.left, cx)?;
        let r = self.expr(&b.right, cx)?;
        Ok(Some(match b.op {
            BinOp::Add(_) => format!("({l} + {r})"),
            BinOp::Mul(_) => format!("({l} * {r})"),
            BinOp::Sub(_) => self.bind_opt(cx, format!("(Iter.usub {l} {r})"))?,
            BinOp::Lt(_) => format!("(Nat.blt {l} {r})"),
            BinOp::Le(_) => format!("(Nat.ble {l} {r})"),
            BinOp::Gt(_) => format!("(Nat.blt {r} {l})"),
            BinOp::Ge(_) => format!("(Nat.ble {r} {l})"),
            BinOp::Eq(_) => format!("(Nat.beq {l} {r})"),
            BinOp::Ne(_) => format!("(!(Nat.beq {l} {r}))"),
            _ => return Err("unsupported integer operator".into()),
        }))
    }

    /// `Vec::new()`, `iter::once(x)`, functions with `&mut` parameters, functions of the loop route
    pub(super) fn loop_call(&self, c: &ExprCall, cx: &mut BodyCx) -> R<Option<String>> {
        let Some(segs) = path_segs(&c.func) else { return Ok(None) };
        let strs: Vec<&str> = segs.iter().map(|s| s.as_str()).collect();
        match strs.as_slice() {
            ["Vec", "new"] if c.args.is_empty() => return Ok(Some("[]".into())),
            ["Vec", "with_capacity"] if c.args.len() == 1 => {
                if self.sort_of(&c.args[0], cx) != Sort::Nat {
                    return Err("Vec::with_capacity: argument of unknown kind".into());
                }
                let a = self.expr(&c.args[0], cx)?;
                return Ok(Some(format!("(Iter.withCapacity {a})")));
            }
            ["iter", "once"] | ["std", "iter", "once"] if c.args.len() == 1 => {
                let a = self.expr(&c.args[0], cx)?;
                return Ok(Some(format!("(Iter.once {a})")));
            }
            [a, b] => {
                if let Some(f) = self.loop_fns.get(&(a.to_string(), b.to_string())) {
                    if !f.ok {
                        return Err(format!("call of {a}::{b}, which is not translated"));
                    }
                    let mut args = vec![];
                    for x in &c.args {
                        args.push(self.expr(x, cx)?);
                    }
                    let call = format!("({} {})", f.lean, args.join(" "));
                    if f.fallible {
                        return Ok(Some(self.bind_opt(cx, call)?));
                    }
                    return Ok(Some(call));
                }
                return Ok(None);
            }
            [n] => {
                // free function of the same (sub-)module with `&mut` parameters
                let mut m = cx.submods.clone();
                loop {
                    let mut key = cx.module.clone();
                    for s in &m {
                        key.push('.');
                        key.push_str(s);
                    }
                    if let Some(f) = self.loop_fns.get(&(key.clone(), n.to_string())) {
                        if !f.ok {
                            return Err(format!("call of {n}, which is not translated"));
                        }
                        let mut args = vec![];
                        for x in &c.args {
                            args.push(self.expr(x, cx)?);
                        }
                        let call = format!("({} {})", f.lean, args.join(" "));
                        if f.fallible {
                            return Ok(Some(self.bind_opt(cx, call)?));
                        }
                        return Ok(Some(call));
                    }
                    if let Some(fi) = self.fns.get(&(key.clone(), n.to_string())) {
                        if fi.mut_params.is_empty() {
                            return Ok(None);
                        }
                        if fi.mut_params.iter().any(|&i| i >= c.args.len()) {
                            return Err(format!("call of {n}: arity"));
                        }
                        let mut args = vec![];
                        let mut outs = vec![];
                        for (i, x) in c.args.iter().enumerate() {
                            if fi.mut_params.contains(&i) {
                                let Expr::Reference(r) = strip_paren(x) else { return Err(format!("call of {n}: &mut argument is not `&mut variable`")) };
                                if r.mutability.is_none() {
                                    return Err(format!("call of {n}: &mut argument is not `&mut variable`"));
                                }
                                let Some(var) = simple_var(&r.expr) else { return Err(format!("call of {n}: &mut argument is not `&mut variable`")) };
                                if outs.contains(&var) {
                                    return Err(format!("call of {n}: the same variable is passed twice as &mut"));
                                }
                                if cx.scope_of(&var).is_none() {
                                    return Err(format!("unknown identifier {var}"));
                                }
                                args.push(lean_ident(&var));
                                outs.push(var);
                            } else {
                                args.push(self.expr(x, cx)?);
                            }
                        }
                        for v in &outs {
                            self.hoisted_mutation(cx, v)?;
                        }
                        let t = cx.fresh();
                        cx.pending.push(format!("let {t} := ({key}.{} {});", lean_ident(n), args.join(" ")));
                        // result × p1 × p2 × …  (right-nested)
                        let k = outs.len();
                        for (j, v) in outs.iter().enumerate() {
                            let mut proj = format!("{t}");
                            for _ in 0..=j {
                                proj.push_str(".2");
                            }
                            if j + 1 < k {
                                proj.push_str(".1");
                            }
                            cx.pending.push(format!("let {} := {proj};", lean_ident(v)));
                        }
                        return Ok(Some(format!("{t}.1")));
                    }
                    if m.pop().is_none() {
                        break;
                    }
                }
                Ok(None)
            }
            _ => Ok(None),
        }
    }

    // ------------------------------------------------------------------ statements

    /// `assert!(cond, msg…)`
    pub(super) fn stmt_macro(&self, m: &StmtMacro, cx: &mut BodyCx, lines: &mut Vec<String>) -> R<()> {
        let name = path_str(&m.mac.path);
        if name != "assert" {
            return Err(format!("macro {name}"));
        }
        let args = m
            .mac
            .parse_body_with(syn::punctuated::Punctuated::<Expr, Token![,]>::parse_terminated)
            .map_err(|e| format!("assert!: {e}"))?;
        let Some(cond) = args.first() else { return Err("assert! without condition".into()) };
        if !cx.opt_mode {
            return Err(NEEDS_OPTION.into());
        }
        let c = self.expr(cond, cx)?;
        self.flush(cx, lines);
        lines.push(format!("Option.bind (Iter.assert {c}) fun _ =>"));
        cx.n_binds += 1;
        Ok(())
    }

    /// statement forms of the loop subset; `false` = not ours
    pub(super) fn loop_stmt(&self, e: &Expr, cx: &mut BodyCx, lines: &mut Vec<String>) -> R<bool> {
        match e {
            Expr::ForLoop(f) => {
                self.for_loop(f, cx, lines)?;
                Ok(true)
            }
            Expr::Match(m) => {
                self.stmt_match(m, cx, lines)?;
                Ok(true)
            }
            Expr::Loop(l) => {
                self.ve_loop(l, cx, lines)?;
                Ok(true)
            }
            Expr::If(i) if i.else_branch.is_none() => {
                let ret = match i.then_branch.stmts.as_slice() {
                    [Stmt::Expr(Expr::Return(r), _)] => r,
                    _ => return Ok(false),
                };
                if !cx.allow_return {
                    return Err("return in a position where the result is not the plain function result".into());
                }
                let Some(val) = &ret.expr else { return Err("return without value".into()) };
                let c = self.expr(&i.cond, cx)?;
                self.flush(cx, lines);
                let r = if cx.ret_extra.is_empty() {
                    if cx.opt_mode {
                        self.expr_opt(val, cx)?
                    } else {
                        self.expr_local(val, cx)?
                    }
                } else {
                    // the `&mut` parameters are returned next to the result, with their current values
                    let (v, pre) = self.framed(cx, |s, cx| s.expr(val, cx))?;
                    let mut parts = vec![v];
                    parts.extend(cx.ret_extra.iter().cloned());
                    let mut t = format!("({})", parts.join(", "));
                    if cx.opt_mode {
                        t = format!("some ({t})");
                    }
                    if pre.is_empty() {
                        t
                    } else {
                        format!("{} {t}", pre.join(" "))
                    }
                };
                lines.push(format!("if {c} then ({r}) else"));
                Ok(true)
            }
            Expr::MethodCall(mc) if mc.method == "push" && mc.args.len() == 1 && self.sort_of(&mc.receiver, cx) == Sort::List => {
                let a = self.expr(&mc.args[0], cx)?;
                self.flush(cx, lines);
                self.set_place(&mc.receiver, cx, lines, |cur| format!("(Iter.push {cur} {a})"))?;
                Ok(true)
            }
            _ => Ok(false),
        }
    }

    /// `for x in &mut PLACE { body that only mutates x }`  →  `PLACE := Iter.map PLACE (fun x => …)`
    fn for_loop(&self, f: &ExprForLoop, cx: &mut BodyCx, lines: &mut Vec<String>) -> R<()> {
        if f.label.is_some() {
            return Err("labelled loop".into());
        }
        let Expr::Reference(r) = strip_paren(&f.expr) else { return Err("for loop over something other than `&mut <vec>`".into()) };
        if r.mutability.is_none() || self.sort_of(&r.expr, cx) != Sort::List {
            return Err("for loop over something other than `&mut <vec>`".into());
        }
        let Pat::Ident(pi) = &*f.pat else { return Err("for loop pattern".into()) };
        if pi.by_ref.is_some() || pi.subpat.is_some() {
            return Err("for loop pattern".into());
        }
        let x = pi.ident.to_string();
        let nb = cx.n_binds;
        cx.scopes.push(BTreeMap::new());
        cx.declare(&x);
        let r2 = self.framed(cx, |s, cx| s.block_lines(&f.body.stmts, cx, true, false));
        cx.scopes.pop();
        let ((body, _), _) = r2?;
        if cx.n_binds != nb {
            return Err("loop body can panic".into());
        }
        if body.is_empty() {
            return Err("loop body without effect".into());
        }
        let xl = lean_ident(&x);
        self.set_place(&r.expr, cx, lines, |cur| format!("(Iter.map {cur} (fun {xl} => {} {xl}))", body.join(" ")))
    }

    /// `match <Option> { None => effect, Some(x) => effect }` as a statement: the value of the match is
    /// the new value of the variables the arms assign.  `PLACE.get_mut(i)` binds `x` to element `i`, which
    /// is written back after the arm.
    fn stmt_match(&self, m: &ExprMatch, cx: &mut BodyCx, lines: &mut Vec<String>) -> R<()> {
        if m.arms.len() != 2 {
            return Err("match with other than two arms".into());
        }
        let mut write_back: Option<(&Expr, String)> = None;
        let scrut = match strip_paren(&m.expr) {
            Expr::MethodCall(mc) if mc.method == "get_mut" && mc.args.len() == 1 && self.sort_of(&mc.receiver, cx) == Sort::List => {
                self.parse_place(&mc.receiver)?;
                if self.sort_of(&mc.args[0], cx) != Sort::Nat {
                    return Err("get_mut: index of unknown kind".into());
                }
                let p = self.expr(&mc.receiver, cx)?;
                let i = self.expr(&mc.args[0], cx)?;
                write_back = Some((&mc.receiver, i.clone()));
                format!("(Iter.index {p} {i})")
            }
            other => {
                if !matches!(self.sort_of(other, cx), Sort::Opt(_)) {
                    return Err("match on a scrutinee that is not known to be an Option".into());
                }
                self.expr(other, cx)?
            }
        };
        self.flush(cx, lines);
        let nb = cx.n_binds;
        let mut arms: Vec<(Option<String>, Vec<String>)> = vec![];
        let mut mutated: Vec<String> = vec![];
        for arm in &m.arms {
            if arm.guard.is_some() {
                return Err("match guard".into());
            }
            cx.frames.push(Frame { base: cx.scopes.len(), mutated: vec![] });
            cx.scopes.push(BTreeMap::new());
            let r = self.framed(cx, |s, cx| -> R<(Option<String>, Vec<String>)> {
                let pat = match s.option_pattern(&arm.pat)? {
                    Some(None) => None,
                    Some(Some(p)) => {
                        let Pat::Ident(_) = p else { return Err("Some(..) pattern of a match statement must bind one name".into()) };
                        Some(s.bind_pattern(p, cx, Sort::Other)?)
                    }
                    None => return Err("match arm pattern other than None / Some(..)".into()),
                };
                let mut al = vec![];
                match &*arm.body {
                    Expr::Block(b) if b.label.is_none() => {
                        let (l, _) = s.block_lines(&b.block.stmts, cx, true, false)?;
                        al = l;
                    }
                    other => s.effect_stmt(other, cx, &mut al)?,
                }
                if let (Some(x), Some((place, i))) = (&pat, &write_back) {
                    s.set_place(place, cx, &mut al, |cur| format!("(Iter.set {cur} {i} {x})"))?;
                }
                Ok((pat, al))
            });
            cx.scopes.pop();
            let fr = cx.frames.pop().unwrap();
            let ((pat, al), _) = r?;
            for v in fr.mutated {
                if !mutated.contains(&v) {
                    mutated.push(v);
                }
            }
            arms.push((pat, al));
        }
        if cx.n_binds != nb {
            return Err("arm of a match statement can panic".into());
        }
        if mutated.is_empty() {
            return Err("match statement without effect".into());
        }
        for v in &mutated {
            self.note_mutation(cx, v)?;
        }
        let names: Vec<String> = mutated.iter().map(|v| lean_ident(v)).collect();
        let result = if names.len() == 1 { names[0].clone() } else { format!("({})", names.join(", ")) };
        let mut none_arm = None;
        let mut some_arm = None;
        for (pat, al) in arms {
            let body = if al.is_empty() { result.clone() } else { format!("{} {result}", al.join(" ")) };
            match pat {
                None => none_arm = Some(body),
                Some(p) => some_arm = Some((p, body)),
            }
        }
        let (Some(n), Some((p, s))) = (none_arm, some_arm) else { return Err("match does not have one None and one Some arm".into()) };
        lines.push(format!("let {result} := (match {scrut} with | none => ({n}) | some {p} => ({s}));"));
        Ok(())
    }
}

/// `impl Iterator<Item = X> + 'a`  →  `X`
pub(crate) fn impl_iterator_item(it: &TypeImplTrait) -> Option<Type> {
    for b in &it.bounds {
        if let TypeParamBound::Trait(tb) = b {
            if let Some(t) = iterator_item(tb) {
                return Some(t);
            }
        }
    }
    None
}

/// `IntoIterator<Item = X>` / `Iterator<Item = X>`  →  `X`
pub(crate) fn iterator_item(tb: &TraitBound) -> Option<Type> {
    let seg = tb.path.segments.last()?;
    if seg.ident != "IntoIterator" && seg.ident != "Iterator" {
        return None;
    }
    if let PathArguments::AngleBracketed(ab) = &seg.arguments {
        for a in &ab.args {
            if let GenericArgument::AssocType(at) = a {
                if at.ident == "Item" {
                    return Some(at.ty.clone());
                }
            }
        }
    }
    None
}
