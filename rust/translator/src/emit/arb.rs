//! `impl Arbitrary for X` and `#[derive(Arbitrary)]`: functions over `u: &mut arbitrary::Unstructured`
//! that return an `arbitrary::Result`, emitted against `PP/Core/Arb.lean` (the model of the external
//! crate) into `<Module>/Arbitrary.lean`.
//!
//! A function `fn f(u: &mut Unstructured) -> arbitrary::Result<X>` becomes
//! `def f (u : Arb.Unstructured) : Arb.Res X`, where `Arb.Res` has the three outcomes `ok value rest`,
//! `err error rest`, `panic`.  The unread bytes are threaded explicitly: every operation that takes `u`
//! is applied to the current `u` and its continuation rebinds the name `u`
//! (`Arb.Res.bind (op u) fun x u => …`), so the text order of the Lean term is the evaluation order of
//! the Rust.  Recognised forms (anything else is `unsupported`):
//!
//! * `let [mut] x = M?;` and `?` directly in a field of a struct literal / argument of a tuple-struct
//!   constructor, where `M` is `<Type>::arbitrary(u)` (`Type::arbitrary(u)`, `Vec::<f64>::arbitrary(u)`,
//!   `T::arbitrary(u)`: the class method `Arb.ArbitraryT.arbitrary` at that type) or
//!   `LIST.into_iter().map(|p| BODY).collect::<arbitrary::Result<Vec<_>>>()` whose closure captures `u`
//!   and has a body of this same subset (`Arb.collectMap`: sequential, stops at the first `Err`);
//! * `if C { return Err(arbitrary::Error::V); }` with a pure condition;
//! * `x.sort_by(|a, b| E);` on a local vector, where `E` may panic (`partial_cmp(..).unwrap()`):
//!   `Arb.sortBy` with an `Option`-valued comparator, `none` = panic, lifted by `Arb.Res.bindPanic`;
//! * the tail `Ok(E)`; pure sub-expressions go through the ordinary expression translator (in which `u`
//!   is not a variable, so nothing pure can depend on the unread bytes).

use super::*;
use syn::visit::Visit;

struct HasTry(bool);
impl<'a> Visit<'a> for HasTry {
    fn visit_expr_try(&mut self, _: &'a ExprTry) {
        self.0 = true;
    }
}
fn has_try(e: &Expr) -> bool {
    let mut v = HasTry(false);
    v.visit_expr(e);
    v.0
}

/// `…::Unstructured<'_>` behind `&mut`
fn is_mut_unstructured(ty: &Type) -> bool {
    let Type::Reference(r) = ty else { return false };
    if r.mutability.is_none() {
        return false;
    }
    let Type::Path(p) = &*r.elem else { return false };
    if p.qself.is_some() {
        return false;
    }
    let segs: Vec<String> = p.path.segments.iter().map(|s| s.ident.to_string()).collect();
    let strs: Vec<&str> = segs.iter().map(|s| s.as_str()).collect();
    matches!(strs.as_slice(), ["Unstructured"] | ["arbitrary", "Unstructured"])
}

/// `[arbitrary::]Result<X>`  →  `X`
fn arbitrary_result_arg(ty: &Type) -> Option<&Type> {
    let Type::Path(p) = ty else { return None };
    if p.qself.is_some() {
        return None;
    }
    let segs: Vec<String> = p.path.segments.iter().map(|s| s.ident.to_string()).collect();
    let strs: Vec<&str> = segs.iter().map(|s| s.as_str()).collect();
    if !matches!(strs.as_slice(), ["Result"] | ["arbitrary", "Result"]) {
        return None;
    }
    let PathArguments::AngleBracketed(ab) = &p.path.segments.last()?.arguments else { return None };
    let tys: Vec<&Type> = ab.args.iter().filter_map(|a| if let GenericArgument::Type(t) = a { Some(t) } else { None }).collect();
    if tys.len() == 1 && ab.args.len() == 1 {
        Some(tys[0])
    } else {
        None
    }
}

/// `arbitrary::Error::IncorrectFormat`  →  `Arb.Error.incorrectFormat`
fn arbitrary_error(e: &Expr) -> Option<&'static str> {
    let Expr::Path(p) = strip_paren(e) else { return None };
    if p.qself.is_some() {
        return None;
    }
    let segs: Vec<String> = p.path.segments.iter().map(|s| s.ident.to_string()).collect();
    let strs: Vec<&str> = segs.iter().map(|s| s.as_str()).collect();
    let v = match strs.as_slice() {
        ["arbitrary", "Error", v] | ["Error", v] => *v,
        _ => return None,
    };
    match v {
        "EmptyChoose" => Some("Arb.Error.emptyChoose"),
        "NotEnoughData" => Some("Arb.Error.notEnoughData"),
        "IncorrectFormat" => Some("Arb.Error.incorrectFormat"),
        _ => None,
    }
}

/// `F(arg)` for a one-segment path `F`
fn call_of<'a>(e: &'a Expr, name: &str) -> Option<&'a Expr> {
    let Expr::Call(c) = strip_paren(e) else { return None };
    let Expr::Path(p) = &*c.func else { return None };
    if p.qself.is_some() || !p.path.is_ident(name) || c.args.len() != 1 {
        return None;
    }
    Some(&c.args[0])
}

fn readable(e: String) -> String {
    if e == loops::NEEDS_OPTION {
        "operation that can panic outside the comparator of `sort_by`".into()
    } else {
        e
    }
}

impl Translator {
    // ------------------------------------------------------------------ the impl

    /// `impl<'a, …> Arbitrary<'a> for X`: one inventory line per method
    pub(super) fn translate_arbitrary_impl(&mut self, fname: &str, im: &ItemImpl, qual: &str) {
        let module = module_name(fname);
        let lean_file = format!("{module}/Arbitrary");
        let self_m = mangle(&im.self_ty);
        let inst_name = format!("inst_Arbitrary_{self_m}");
        for ii in &im.items {
            let ImplItem::Fn(f) = ii else { continue };
            let n = f.sig.ident.to_string();
            if SKIPPED_METHODS.contains(&n.as_str()) {
                continue;
            }
            let q = format!("{qual}::{n}");
            let ftoks = f.to_token_stream().to_string();
            if n != "arbitrary" {
                self.record(q, fname, "unsupported", format!("method `{n}` of Arbitrary (only `arbitrary` is modelled)"), ftoks, &lean_file, "");
                continue;
            }
            match self.arbitrary_method(module, im, f, &inst_name) {
                Ok(text) => {
                    let def_name = format!("{inst_name}.arbitrary");
                    self.push_chunk_ranked(&lean_file, 300, text);
                    self.tags.entry(lean_file.clone()).or_default().extend([inst_name.clone(), def_name.clone()]);
                    self.record(q, fname, "translated", String::new(), ftoks, &lean_file, &def_name);
                }
                Err(e) => self.record(q, fname, "unsupported", readable(e), ftoks, &lean_file, ""),
            }
        }
    }

    fn arbitrary_method(&self, module: &str, im: &ItemImpl, f: &ImplItemFn, inst_name: &str) -> R<String> {
        if !f.sig.generics.params.is_empty() || f.sig.generics.where_clause.is_some() {
            return Err("generic method".into());
        }
        let (tyvars, insts, mut tcx) = self.generics_to_binders(&im.generics, Some(&im.self_ty))?;
        let self_lean = ty_to_lean(&im.self_ty, &tcx, &self.structs)?;
        tcx.self_ty = Some(self_lean.clone());
        tcx.self_struct = Some(base_type_name(&im.self_ty));
        // fn arbitrary(u: &mut Unstructured<'a>) -> Result<Self>
        if f.sig.inputs.len() != 1 {
            return Err("`arbitrary` with other than one parameter".into());
        }
        let FnArg::Typed(pt) = &f.sig.inputs[0] else { return Err("`arbitrary` with a receiver".into()) };
        let Pat::Ident(pi) = &*pt.pat else { return Err("unsupported parameter pattern".into()) };
        if pi.by_ref.is_some() || pi.subpat.is_some() {
            return Err("unsupported parameter pattern".into());
        }
        if !is_mut_unstructured(&pt.ty) {
            return Err("parameter is not `&mut arbitrary::Unstructured`".into());
        }
        let u = pi.ident.to_string();
        let ReturnType::Type(_, rt) = &f.sig.output else { return Err("`arbitrary` without result".into()) };
        let Some(ok_ty) = arbitrary_result_arg(rt) else { return Err("result type is not `arbitrary::Result<_>`".into()) };
        let ret = ty_to_lean(ok_ty, &tcx, &self.structs)?;
        let mut cx = BodyCx::new(BTreeMap::new(), tcx, module, &[]);
        cx.arb_mode = true;
        let body = self.arb_block(&f.block.stmts, &mut cx, &u)?;
        let binders = format!("{} [Arb.StdF64 F]", Self::binder_text(&tyvars, &insts));
        let ul = lean_ident(&u);
        let mut text = format!(
            "def {inst_name}.arbitrary {binders} ({ul} : Arb.Unstructured) : Arb.Res {ret} :=\n{}\n",
            indent(&body, 2)
        );
        text.push_str(&format!(
            "\ninstance {inst_name} {binders} : Arb.ArbitraryT {self_lean} where\n  arbitrary := {inst_name}.arbitrary\n"
        ));
        Ok(text)
    }

    // ------------------------------------------------------------------ bodies

    /// the statements of a function / closure body as a term of type `Arb.Res _` in which the Lean
    /// variable `u` stands for the bytes not yet consumed
    fn arb_block(&self, stmts: &[Stmt], cx: &mut BodyCx, u: &str) -> R<String> {
        let ul = lean_ident(u);
        let mut lines: Vec<String> = vec![];
        for (i, st) in stmts.iter().enumerate() {
            let last = i + 1 == stmts.len();
            match st {
                Stmt::Local(l) => {
                    let init = l.init.as_ref().ok_or("let without initialiser")?;
                    if init.diverge.is_some() {
                        return Err("let-else".into());
                    }
                    let Pat::Ident(pi) = &l.pat else { return Err("unsupported let pattern".into()) };
                    if pi.by_ref.is_some() || pi.subpat.is_some() {
                        return Err("ref / @ pattern".into());
                    }
                    let x = pi.ident.to_string();
                    if x == u {
                        return Err(format!("`{u}` is rebound"));
                    }
                    let (v, sort) = self.arb_value(&init.expr, cx, u, &mut lines)?;
                    cx.declare_s(&x, sort);
                    // `Arb.Res.bind M fun v u =>` directly followed by `let x := v;` is `… fun x u =>`
                    let direct = lines.last().map(|l| l.ends_with(&format!(" fun {v} {ul} =>"))).unwrap_or(false) && v.starts_with("v'");
                    if direct {
                        let l = lines.pop().unwrap();
                        let l = l.strip_suffix(&format!(" fun {v} {ul} =>")).unwrap().to_string();
                        lines.push(format!("{l} fun {} {ul} =>", lean_ident(&x)));
                    } else {
                        lines.push(format!("let {} := {v};", lean_ident(&x)));
                    }
                }
                Stmt::Expr(e, semi) if last && semi.is_none() => {
                    // tail: `Ok(E)` or a call that itself returns the `arbitrary::Result`
                    if let Some(arg) = call_of(e, "Ok") {
                        let (v, _) = self.arb_value(arg, cx, u, &mut lines)?;
                        lines.push(format!("Arb.Res.ok {v} {ul}"));
                    } else {
                        let (m, _) = self.arb_mexpr(e, cx, u)?;
                        lines.push(m);
                    }
                    return Ok(lines.join("\n"));
                }
                Stmt::Expr(e, _) => self.arb_stmt(e, cx, u, &mut lines)?,
                Stmt::Item(_) => return Err("nested item".into()),
                Stmt::Macro(m) => return Err(format!("macro {}", path_str(&m.mac.path))),
            }
        }
        Err("body without a tail expression `Ok(..)`".into())
    }

    /// `if C { return Err(E); }` and `x.sort_by(|a, b| …);`
    fn arb_stmt(&self, e: &Expr, cx: &mut BodyCx, u: &str, lines: &mut Vec<String>) -> R<()> {
        let ul = lean_ident(u);
        match strip_paren(e) {
            Expr::If(i) if i.else_branch.is_none() => {
                let ret = match i.then_branch.stmts.as_slice() {
                    [Stmt::Expr(Expr::Return(r), _)] => r,
                    _ => return Err("`if` without `else` whose body is not a single `return Err(..)`".into()),
                };
                let Some(val) = &ret.expr else { return Err("return without value".into()) };
                let Some(err) = call_of(val, "Err") else { return Err("early return of something other than `Err(..)`".into()) };
                let Some(err) = arbitrary_error(err) else { return Err("`Err` of something other than a variant of `arbitrary::Error`".into()) };
                if has_try(&i.cond) {
                    return Err("`?` in a condition".into());
                }
                let c = self.expr(&i.cond, cx)?;
                self.flush(cx, lines);
                lines.push(format!("if {c} then Arb.Res.err {err} {ul} else"));
                Ok(())
            }
            Expr::MethodCall(mc) if mc.method == "sort_by" => {
                if mc.args.len() != 1 || mc.turbofish.is_some() {
                    return Err("sort_by: expected one argument".into());
                }
                let Some(x) = loops::simple_var(&mc.receiver) else { return Err("sort_by on something other than a local variable".into()) };
                if cx.sort_of_var(&x) != Sort::List {
                    return Err("sort_by on a variable that is not known to be a vector".into());
                }
                // the sorted vector replaces the old one under the same name: only sound in the scope
                // that declared it
                self.note_mutation(cx, &x)?;
                let Expr::Closure(cl) = strip_paren(&mc.args[0]) else { return Err("sort_by: argument is not a closure".into()) };
                let co = self.closure_fn(cl, cx, &[Sort::Other, Sort::Other])?;
                if !co.state.is_empty() {
                    return Err("sort_by: comparator mutates a captured variable".into());
                }
                let mut body = co.lines.join(" ");
                if !body.is_empty() {
                    body.push(' ');
                }
                let f = format!("(fun {} => {body}some ({}))", co.params.join(" "), co.tail);
                let xl = lean_ident(&x);
                lines.push(format!("Arb.Res.bindPanic (Arb.sortBy {xl} {f}) fun {xl} =>"));
                Ok(())
            }
            _ => Err("unsupported statement in a function over `Unstructured`".into()),
        }
    }

    /// a value that may contain `M?` in the recognised positions; the binds go to `lines`
    fn arb_value(&self, e: &Expr, cx: &mut BodyCx, u: &str, lines: &mut Vec<String>) -> R<(String, Sort)> {
        let ul = lean_ident(u);
        match strip_paren(e) {
            Expr::Try(t) => {
                let (m, sort) = self.arb_mexpr(&t.expr, cx, u)?;
                let v = cx.fresh();
                lines.push(format!("Arb.Res.bind {m} fun {v} {ul} =>"));
                Ok((v, sort))
            }
            Expr::Struct(s) if has_try(e) => {
                if s.rest.is_some() || s.qself.is_some() {
                    return Err("struct update syntax".into());
                }
                let mut name = s.path.segments.last().unwrap().ident.to_string();
                if name == "Self" {
                    name = cx.tcx.self_struct.clone().ok_or("`Self` outside impl")?;
                }
                let info = self.structs.get(&name).ok_or(format!("unknown struct {name}"))?;
                if info.tuple {
                    return Err("brace literal of tuple struct".into());
                }
                // fields are evaluated in the order in which they are written
                let mut given = BTreeMap::new();
                for fv in &s.fields {
                    let Member::Named(i) = &fv.member else { return Err("unnamed member".into()) };
                    let (v, _) = self.arb_value(&fv.expr, cx, u, lines)?;
                    if given.insert(lean_ident(&i.to_string()), v).is_some() {
                        return Err("field given twice".into());
                    }
                }
                let mut parts = vec![];
                for (fname, _) in &info.fields {
                    let v = given.remove(fname).ok_or(format!("missing field {fname}"))?;
                    parts.push(format!("({fname} := {v})"));
                }
                if !given.is_empty() {
                    return Err("unknown field in struct literal".into());
                }
                Ok((format!("({name}.mk {})", parts.join(" ")), Sort::Struct(name)))
            }
            Expr::Call(c) if has_try(e) => {
                let Expr::Path(p) = &*c.func else { return Err("call of non-path".into()) };
                if p.qself.is_some() || p.path.segments.len() != 1 {
                    return Err("`?` in an argument of something other than a tuple-struct constructor".into());
                }
                let mut name = p.path.segments[0].ident.to_string();
                if name == "Self" {
                    name = cx.tcx.self_struct.clone().ok_or("`Self` outside impl")?;
                }
                let Some(info) = self.structs.get(&name) else {
                    return Err("`?` in an argument of something other than a tuple-struct constructor".into());
                };
                if !info.tuple || c.args.len() != info.fields.len() {
                    return Err("tuple struct arity".into());
                }
                let mut args = vec![];
                for a in &c.args {
                    args.push(self.arb_value(a, cx, u, lines)?.0);
                }
                Ok((format!("({name}.mk {})", args.join(" ")), Sort::Struct(name)))
            }
            other => {
                if has_try(other) {
                    return Err("`?` in an unsupported position".into());
                }
                let sort = self.sort_of(other, cx);
                let v = self.expr(other, cx)?;
                self.flush(cx, lines);
                Ok((v, sort))
            }
        }
    }

    /// an expression of type `arbitrary::Result<_>` that consumes from `u`, as a term `Arb.Res _`
    fn arb_mexpr(&self, e: &Expr, cx: &mut BodyCx, u: &str) -> R<(String, Sort)> {
        let ul = lean_ident(u);
        match strip_paren(e) {
            // `<Type>::arbitrary(u)`
            Expr::Call(c) => {
                let Expr::Path(p) = &*c.func else { return Err("call of non-path".into()) };
                let n = p.path.segments.len();
                if n < 2 || p.path.segments[n - 1].ident != "arbitrary" || !p.path.segments[n - 1].arguments.is_none() {
                    return Err("call other than `<Type>::arbitrary(u)` in the position of an `arbitrary::Result`".into());
                }
                if c.args.len() != 1 || loops::simple_var(&c.args[0]).as_deref() != Some(u) {
                    return Err(format!("`arbitrary` is not applied to `{u}`"));
                }
                let ty: Type = match &p.qself {
                    // `<T as Arbitrary<'a>>::arbitrary` / `<Vec<f64>>::arbitrary`
                    Some(q) => {
                        if q.position + 1 != n {
                            return Err("unsupported qualified path".into());
                        }
                        if q.position > 0 && p.path.segments[q.position - 1].ident != "Arbitrary" {
                            return Err("`arbitrary` of a trait other than Arbitrary".into());
                        }
                        (*q.ty).clone()
                    }
                    None => {
                        let mut tp = p.path.clone();
                        tp.segments.pop();
                        tp.segments.pop_punct();
                        if tp.segments.len() == 1 && tp.segments[0].ident == "Arbitrary" {
                            return Err("`Arbitrary::arbitrary(u)` with an inferred type".into());
                        }
                        Type::Path(TypePath { qself: None, path: tp })
                    }
                };
                let sort = self.sort_of_type(&ty, &cx.tcx);
                let t = ty_to_lean(&ty, &cx.tcx, &self.structs)?;
                Ok((format!("(Arb.ArbitraryT.arbitrary (α := {t}) {ul})"), sort))
            }
            // `LIST.map(|p| BODY).collect::<arbitrary::Result<Vec<_>>>()`
            Expr::MethodCall(mc) if mc.method == "collect" => {
                if !mc.args.is_empty() {
                    return Err("collect: arity".into());
                }
                let Some(tf) = &mc.turbofish else { return Err("`collect` without `::<arbitrary::Result<Vec<_>>>`".into()) };
                let ok = tf.args.len() == 1
                    && match &tf.args[0] {
                        GenericArgument::Type(t) => match arbitrary_result_arg(t) {
                            Some(Type::Path(vp)) => {
                                vp.qself.is_none()
                                    && vp.path.segments.len() == 1
                                    && vp.path.segments[0].ident == "Vec"
                                    && matches!(&vp.path.segments[0].arguments, PathArguments::AngleBracketed(ab) if ab.args.len() == 1)
                            }
                            _ => false,
                        },
                        _ => false,
                    };
                if !ok {
                    return Err("`collect` into something other than `arbitrary::Result<Vec<_>>`".into());
                }
                let Expr::MethodCall(map) = strip_paren(&mc.receiver) else { return Err("collect::<Result<..>> on something other than `.map(closure)`".into()) };
                if map.method != "map" || map.args.len() != 1 || map.turbofish.is_some() {
                    return Err("collect::<Result<..>> on something other than `.map(closure)`".into());
                }
                if self.sort_of(&map.receiver, cx) != Sort::List {
                    return Err("map: receiver is not known to be a vector / iterator".into());
                }
                if has_try(&map.receiver) {
                    return Err("`?` in an unsupported position".into());
                }
                let recv = self.expr(&map.receiver, cx)?;
                if !cx.pending.is_empty() {
                    return Err("effect in the receiver of `map`".into());
                }
                let Expr::Closure(cl) = strip_paren(&map.args[0]) else { return Err("map: argument is not a closure".into()) };
                if cl.inputs.len() != 1 {
                    return Err("closure arity".into());
                }
                cx.scopes.push(BTreeMap::new());
                let r = (|| -> R<(String, String)> {
                    let p = self.bind_pattern(&cl.inputs[0], cx, Sort::Other)?;
                    if cx.scopes.last().map(|sc| sc.contains_key(u)).unwrap_or(false) {
                        return Err(format!("closure parameter shadows `{u}`"));
                    }
                    let body = match strip_paren(&cl.body) {
                        Expr::Block(b) if b.label.is_none() => self.arb_block(&b.block.stmts, cx, u)?,
                        other => {
                            let st = [Stmt::Expr(other.clone(), None)];
                            self.arb_block(&st, cx, u)?
                        }
                    };
                    Ok((p, body))
                })();
                cx.scopes.pop();
                let (p, body) = r?;
                Ok((format!("(Arb.collectMap {recv} (fun {p} {ul} =>\n{}) {ul})", indent(&body, 2)), Sort::List))
            }
            _ => Err("unsupported expression in the position of an `arbitrary::Result`".into()),
        }
    }

    // ------------------------------------------------------------------ #[derive(Arbitrary)]

    /// is `ty` a field type whose `Arbitrary` impl is in `PP/Core/Arb.lean` or was emitted before?
    fn derive_field_ok(&self, ty: &Type, emitted: &BTreeSet<String>) -> bool {
        match ty {
            Type::Paren(p) => self.derive_field_ok(&p.elem, emitted),
            Type::Array(a) => array_len(&a.len).map(|n| n >= 1 && n <= 16).unwrap_or(false) && self.derive_field_ok(&a.elem, emitted),
            Type::Path(p) if p.qself.is_none() && p.path.segments.len() == 1 => {
                let seg = &p.path.segments[0];
                let id = seg.ident.to_string();
                match &seg.arguments {
                    PathArguments::None => id == "f64" || emitted.contains(&id),
                    PathArguments::AngleBracketed(ab) if id == "Vec" && ab.args.len() == 1 => match &ab.args[0] {
                        GenericArgument::Type(t) => self.derive_field_ok(t, emitted),
                        _ => false,
                    },
                    _ => false,
                }
            }
            _ => false,
        }
    }

    /// the `Arbitrary` instances of the structs of `fname` that carry `#[derive(Arbitrary)]`
    pub(super) fn emit_arbitrary_derives(&mut self, fname: &str) {
        let module = module_name(fname);
        let lean_file = format!("{module}/Arbitrary");
        let mut emitted: BTreeSet<String> = BTreeSet::new();
        for name in self.struct_order.clone() {
            let s = self.structs[&name].clone();
            if s.module != fname || !s.derives.iter().any(|d| d == "Arbitrary" || d == "arbitrary::Arbitrary") {
                continue;
            }
            let why: Option<String> = if s.has_lifetime {
                Some("lifetime / const parameters".into())
            } else if !s.params.is_empty() {
                // the recursion guard of the derive is one counter per struct *declaration*, shared by all
                // instantiations, so `S<S<f64>>` re-enters it
                Some("generic struct (the derive's recursion guard is shared between instantiations)".into())
            } else if s.other_attrs.iter().any(|a| a.contains("arbitrary")) {
                Some(format!("`arbitrary` attributes {:?}", s.other_attrs))
            } else if s.fields.is_empty() {
                Some("no fields".into())
            } else if let Some((f, _)) = s.fields.iter().find(|(_, t)| !self.derive_field_ok(t, &emitted)) {
                Some(format!("field {f}: type outside f64 / [_; N] / Vec<_> / previously derived structs"))
            } else {
                None
            };
            if let Some(w) = why {
                self.push_chunk_ranked(&lean_file, 100, format!("-- #[derive(Arbitrary)] struct {name}: {w}\n"));
                continue;
            }
            let tcx = TyCtx::default();
            let mut binds = String::new();
            let mut vars = vec![];
            let mut bad = None;
            for (i, (_, ty)) in s.fields.iter().enumerate() {
                match ty_to_lean(ty, &tcx, &self.structs) {
                    Ok(t) => {
                        binds.push_str(&format!("  Arb.Res.bind (Arb.ArbitraryT.arbitrary (α := {t}) u) fun v{i} u =>\n"));
                        vars.push(format!("v{i}"));
                    }
                    Err(e) => bad = Some(e),
                }
            }
            if let Some(e) = bad {
                self.push_chunk_ranked(&lean_file, 100, format!("-- #[derive(Arbitrary)] struct {name}: {e}\n"));
                continue;
            }
            let ctor = if s.tuple {
                format!("({name}.mk {})", vars.join(" "))
            } else {
                let parts: Vec<String> = s.fields.iter().zip(&vars).map(|((f, _), v)| format!("({f} := {v})")).collect();
                format!("({name}.mk {})", parts.join(" "))
            };
            let self_ty = if s.needs_f { format!("({name} F)") } else { name.clone() };
            let inst = format!("inst_Arbitrary_{name}");
            let shape = if s.tuple { format!("{name}(fields…)") } else { format!("{name} {{ fields… }}") };
            let text = format!(
                "/-- `#[derive(Arbitrary)]` on `struct {name}`: `Ok({shape})` with every field `Arbitrary::arbitrary(u)?`, in\n\
                 declaration order.  The derive wraps this in a recursion guard (`arbitrary::details::with_recursive_count`:\n\
                 `Err(NotEnoughData)` if the same struct's `arbitrary` is re-entered while `u` is empty); it is not modelled, because it\n\
                 cannot fire: no field type of `{name}` contains `{name}`. -/\n\
                 def {inst}.arbitrary [Arb.StdF64 F] (u : Arb.Unstructured) : Arb.Res {self_ty} :=\n{binds}  Arb.Res.ok {ctor} u\n\n\
                 instance {inst} [Arb.StdF64 F] : Arb.ArbitraryT {self_ty} where\n  arbitrary := {inst}.arbitrary\n"
            );
            self.push_chunk_ranked(&lean_file, 100, text);
            self.tags.entry(lean_file.clone()).or_default().extend([inst.clone(), format!("{inst}.arbitrary")]);
            emitted.insert(name);
        }
    }
}
