//! `PartialEq` and the default tolerances of the `approx` impls.
//!
//! **`PP/Model/PartialEq.lean`** — the crate's own `==` as instances of `class PEq (T) where peq : T → T → Bool`
//! (`PP/Core/PEq.lean`, which also has the instances of the number type — IEEE `==` —, of `Vec<_>` / slices
//! — equal length and element-wise — and of `[f64; N]`):
//!
//! * `#[derive(PartialEq)]` on a struct: `self.f₀ == other.f₀ && self.f₁ == other.f₁ && …`, every field in
//!   declaration order, left-associated like the expansion of the derive; one `[PEq T]` per type parameter
//!   (the derive adds the bound `T: PartialEq` to every type parameter).  Every field is compared through
//!   `PEq.peq`, so that the dispatch is done by Lean's instance search exactly as rustc resolves `==`.
//!   A struct without the derive gets no instance.  A derive on a struct whose fields are outside
//!   `f64` / `[f64; N]` / `Vec<_>` / type parameters / structs that themselves have a translated `PartialEq`
//!   is recorded `unsupported`.
//! * a hand-written `impl PartialEq for X { fn eq(&self, other: &Self) -> bool { … } }`: the ordinary method path
//!   (`translate_trait_impl`), in which `==` / `!=` are `PEq.peq` (not `FloatLike.feq`): it then *is* the
//!   instance `PEq X`, and the derive (which rustc would reject next to it) is not emitted.
//!
//! **`PP/Model/ApproxDefaults.lean`** — for every `impl AbsDiffEq for X` / `impl RelativeEq for X` the body of
//! `default_epsilon()` / `default_max_relative()` as `def inst_<Trait>_<X>.<method> [FloatLike F] : F`.  The
//! ordinary expression subset plus one form: a call without arguments
//! `<TY as AbsDiffEq>::default_epsilon()`, `<TY as RelativeEq>::default_max_relative()`, `<TY>::m()`, `TY::m()`
//! where `TY` is `f64` (also spelled `Self::Epsilon`, `&f64`): the `approx` crate's own impl, hand model
//! `f64DefaultEpsilon` / `f64DefaultMaxRelative` in `PP/Core/PEq.lean`; or a struct type / `Self` with an impl of
//! that trait in the crate whose default is itself translated: that definition.  A default that depends on a
//! type parameter (`T::default_epsilon()`) is `unsupported`.
//!
//! Both files are assembled at the end (`finish_peq`), callees first; their inventory lines are appended after
//! the lines of the items proper.

use super::*;

/// one definition + instance of `PartialEq.lean`
#[derive(Clone, Debug)]
pub(super) struct PeqUnit {
    /// base name of the type the instance is for
    base: String,
    /// struct names whose instances must come first
    deps: BTreeSet<String>,
    text: String,
    tags: Vec<String>,
}

/// one `default_epsilon` / `default_max_relative`
#[derive(Clone, Debug)]
pub(super) struct DefaultUnit {
    qual: String,
    fname: String,
    toks: String,
    def_name: String,
    /// Ok(text, definitions called) / Err(reason)
    body: R<(String, Vec<String>)>,
}

/// an `impl AbsDiffEq / RelativeEq for X` of the crate (collected before translation)
#[derive(Clone, Debug)]
pub(super) struct ApproxImpl {
    trait_name: String,
    mangled: String,
    base: String,
    methods: Vec<String>,
}

/// what the translation of the body of a default needs to know
#[derive(Clone, Debug)]
pub(super) struct DefaultCx {
    /// definitions called so far
    pub(super) calls: Vec<String>,
    /// mangled Self type of the impl being translated
    pub(super) self_mangled: String,
}

const DEFAULT_METHODS: &[(&str, &str, &str)] =
    &[("AbsDiffEq", "default_epsilon", "f64DefaultEpsilon"), ("RelativeEq", "default_max_relative", "f64DefaultMaxRelative")];

fn derives_partial_eq(s: &StructInfo) -> bool {
    s.derives.iter().any(|d| d == "PartialEq" || d.ends_with("::PartialEq"))
}

impl Translator {
    // ------------------------------------------------------------------ collection

    pub(super) fn collect_approx_impl(&mut self, im: &ItemImpl) {
        let Some((_, p, _)) = &im.trait_ else { return };
        let t = p.segments.last().unwrap().ident.to_string();
        if t != "AbsDiffEq" && t != "RelativeEq" {
            return;
        }
        let methods = im.items.iter().filter_map(|ii| if let ImplItem::Fn(f) = ii { Some(f.sig.ident.to_string()) } else { None }).collect();
        self.approx_impls.push(ApproxImpl { trait_name: t, mangled: mangle(&im.self_ty), base: base_type_name(&im.self_ty), methods });
    }

    // ------------------------------------------------------------------ hand-written `impl PartialEq`

    /// `[PEq T]` for every type parameter of the impl with a `PartialEq` bound
    fn partial_eq_bounds(g: &Generics) -> Vec<String> {
        let mut out: Vec<String> = vec![];
        let is_peq = |b: &TypeParamBound| matches!(b, TypeParamBound::Trait(tb) if tb.path.segments.last().map(|s| s.ident == "PartialEq" && s.arguments.is_none()).unwrap_or(false));
        let params: Vec<String> = g.params.iter().filter_map(|p| if let GenericParam::Type(t) = p { Some(t.ident.to_string()) } else { None }).collect();
        for p in &g.params {
            if let GenericParam::Type(t) = p {
                if t.bounds.iter().any(is_peq) {
                    out.push(t.ident.to_string());
                }
            }
        }
        if let Some(w) = &g.where_clause {
            for p in &w.predicates {
                if let WherePredicate::Type(pt) = p {
                    if let Type::Path(tp) = &pt.bounded_ty {
                        if tp.qself.is_none() {
                            if let Some(id) = tp.path.get_ident() {
                                let id = id.to_string();
                                if params.contains(&id) && pt.bounds.iter().any(is_peq) && !out.contains(&id) {
                                    out.push(id);
                                }
                            }
                        }
                    }
                }
            }
        }
        out.into_iter().map(|n| format!("[PEq {n}]")).collect()
    }

    pub(super) fn translate_partial_eq_impl(&mut self, fname: &str, im: &ItemImpl, sub: &[String], qual: &str) {
        let module = module_name(fname);
        let lean_file = "PartialEq";
        let toks = im.to_token_stream().to_string();
        let self_m = mangle(&im.self_ty);
        let base = base_type_name(&im.self_ty);
        let inst_name = format!("inst_PartialEq_{self_m}");
        let r = (|| -> R<(String, Vec<String>)> {
            let tseg = im.trait_.as_ref().unwrap().1.segments.last().unwrap();
            if !tseg.arguments.is_none() {
                return Err("`PartialEq<Rhs>` with an explicit right-hand type".into());
            }
            if matches!(&*im.self_ty, Type::Reference(_)) {
                return Err("`PartialEq` for a reference type".into());
            }
            if !self.structs.contains_key(&base) {
                return Err(format!("`PartialEq` for {base}, which is not a struct of the crate"));
            }
            let mut n_eq = 0;
            for ii in &im.items {
                match ii {
                    ImplItem::Fn(f) if f.sig.ident == "eq" => {
                        n_eq += 1;
                        // fn eq(&self, other: &Self) -> bool
                        let ok = f.sig.inputs.len() == 2
                            && f.sig.generics.params.is_empty()
                            && matches!(f.sig.inputs.first(), Some(FnArg::Receiver(r)) if r.reference.is_some() && r.mutability.is_none())
                            && matches!(&f.sig.output, ReturnType::Type(_, t) if matches!(&**t, Type::Path(p) if p.path.is_ident("bool")));
                        if !ok {
                            return Err("`eq` does not have the signature `fn eq(&self, other: &Self) -> bool`".into());
                        }
                    }
                    ImplItem::Fn(f) => return Err(format!("method `{}` of PartialEq is overridden (only `eq` is modelled)", f.sig.ident)),
                    _ => return Err("item other than `fn eq` in an impl of PartialEq".into()),
                }
            }
            if n_eq != 1 {
                return Err("impl of PartialEq without `fn eq`".into());
            }
            let (text, tagged) = self.translate_trait_impl(module, sub, im, "PartialEq", &inst_name).map_err(|e| {
                if e == loops::NEEDS_OPTION {
                    "`eq` contains an operation that can panic".to_string()
                } else {
                    e
                }
            })?;
            // the binders of the ordinary path ignore `PartialEq` bounds (no class stood for them): add them
            let extra = Self::partial_eq_bounds(&im.generics);
            let hdr = self.trait_impl_header(im, "PartialEq")?;
            let old = hdr.binders_txt.clone();
            let mentions_f = ident_occurs(&hdr.self_lean, "F");
            let stem = old.strip_suffix("[FloatLike F]").ok_or("internal: binder text")?;
            let mut new = stem.to_string();
            for e in &extra {
                if !new.contains(e.as_str()) {
                    new.push_str(e);
                    new.push(' ');
                }
            }
            if mentions_f {
                new.push_str("[FloatLike F]");
            } else {
                // `Self` does not determine the number type: the body must not need it
                let body_only = text.replace(&old, "");
                if ident_occurs(&body_only, "F") {
                    return Err("the number type is not determined by the Self type".into());
                }
                new = new.trim_end().to_string();
            }
            Ok((text.replace(&old, &new), tagged))
        })();
        match r {
            Ok((text, tagged)) => {
                // instances that must precede: the structs named anywhere in the impl
                let words: BTreeSet<String> = toks.split(|c: char| !(c.is_alphanumeric() || c == '_')).map(|s| s.to_string()).collect();
                let mut deps: BTreeSet<String> = self.structs.keys().filter(|k| words.contains(*k) && **k != base).cloned().collect();
                if let Some(s) = self.structs.get(&base) {
                    for (_, ty) in &s.fields {
                        let w = ty.to_token_stream().to_string();
                        for k in self.structs.keys() {
                            if *k != base && ident_occurs(&w, k) {
                                deps.insert(k.clone());
                            }
                        }
                    }
                }
                self.peq_units.push(PeqUnit { base: base.clone(), deps, text, tags: tagged });
                self.peq_hand.insert(base);
                self.record(qual.to_string(), fname, "translated", String::new(), toks, lean_file, &inst_name);
            }
            Err(e) => {
                // the type has an `==` that is not modelled: no derive instance either
                self.peq_hand_failed.insert(base);
                self.record(qual.to_string(), fname, "unsupported", e, toks, lean_file, "");
            }
        }
    }

    // ------------------------------------------------------------------ #[derive(PartialEq)]

    /// is `ty` a field type whose `==` is modelled, given the structs that have an instance?
    fn peq_field_ok(&self, ty: &Type, params: &[String], ok: &BTreeSet<String>) -> R<()> {
        match ty {
            Type::Paren(p) => self.peq_field_ok(&p.elem, params, ok),
            Type::Array(a) => {
                let n = array_len(&a.len).ok_or("array length is not a literal")?;
                if n == 0 || n > 16 {
                    return Err(format!("array length {n} out of range"));
                }
                match &*a.elem {
                    Type::Path(p) if p.qself.is_none() && p.path.is_ident("f64") => Ok(()),
                    _ => Err("array of non-f64 elements".into()),
                }
            }
            Type::Path(p) if p.qself.is_none() && p.path.segments.len() == 1 => {
                let seg = &p.path.segments[0];
                let id = seg.ident.to_string();
                let args: Vec<&Type> = match &seg.arguments {
                    PathArguments::None => vec![],
                    PathArguments::AngleBracketed(ab) => {
                        let mut v = vec![];
                        for a in &ab.args {
                            match a {
                                GenericArgument::Type(t) => v.push(t),
                                _ => return Err(format!("generic argument of {id} that is not a type")),
                            }
                        }
                        v
                    }
                    _ => return Err(format!("unsupported type {id}(..)")),
                };
                if id == "f64" && args.is_empty() {
                    return Ok(());
                }
                if params.contains(&id) && args.is_empty() {
                    return Ok(());
                }
                if id == "Vec" && args.len() == 1 {
                    return self.peq_field_ok(args[0], params, ok);
                }
                if self.structs.contains_key(&id) {
                    if !ok.contains(&id) {
                        return Err(format!("struct {id} has no translated PartialEq"));
                    }
                    for a in args {
                        self.peq_field_ok(a, params, ok)?;
                    }
                    return Ok(());
                }
                Err(format!("type {id} outside f64 / [f64; N] / Vec<_> / type parameters / structs with PartialEq"))
            }
            _ => Err("type outside f64 / [f64; N] / Vec<_> / type parameters / structs with PartialEq".into()),
        }
    }

    fn struct_field_deps(&self, s: &StructInfo) -> BTreeSet<String> {
        let mut deps = BTreeSet::new();
        for (_, ty) in &s.fields {
            let w = ty.to_token_stream().to_string();
            for k in self.structs.keys() {
                if *k != s.name && ident_occurs(&w, k) {
                    deps.insert(k.clone());
                }
            }
        }
        deps
    }

    fn emit_partial_eq_derives(&mut self) {
        let lean_file = "PartialEq";
        // structs whose instance exists: hand impls first, then the derives whose fields are all modelled (fixpoint)
        let mut ok: BTreeSet<String> = self.peq_hand.clone();
        let cands: Vec<String> = self
            .struct_order
            .iter()
            .filter(|n| derives_partial_eq(&self.structs[*n]) && !self.peq_hand.contains(*n) && !self.peq_hand_failed.contains(*n))
            .cloned()
            .collect();
        let static_reason = |s: &StructInfo| -> Option<String> {
            if s.has_lifetime {
                Some("lifetime / const parameters".into())
            } else if s.other_attrs.iter().any(|a| a.contains("PartialEq")) {
                Some(format!("conditional derive {:?}", s.other_attrs))
            } else {
                None
            }
        };
        loop {
            let mut changed = false;
            for n in &cands {
                if ok.contains(n) {
                    continue;
                }
                let s = &self.structs[n];
                if static_reason(s).is_some() {
                    continue;
                }
                let tcx = {
                    let mut c = TyCtx::default();
                    for p in &s.params {
                        c.generics.insert(p.clone(), p.clone());
                    }
                    c
                };
                // a field that mentions the struct itself would need a recursive instance: never becomes ok
                let fields_ok = s.fields.iter().all(|(_, t)| self.peq_field_ok(t, &s.params, &ok).is_ok() && ty_to_lean(t, &tcx, &self.structs).is_ok());
                if fields_ok {
                    ok.insert(n.clone());
                    changed = true;
                }
            }
            if !changed {
                break;
            }
        }
        for n in &cands {
            let s = self.structs[n].clone();
            let qual = format!("{}::derive PartialEq for {n}", s.module);
            let desc = format!(
                "struct {n} params={:?} tuple={} fields={:?} derives={:?} attrs={:?}",
                s.params,
                s.tuple,
                s.fields.iter().map(|(f, t)| (f.clone(), t.to_token_stream().to_string())).collect::<Vec<_>>(),
                s.derives,
                s.other_attrs
            );
            let inst = format!("inst_PartialEq_{n}");
            if !ok.contains(n) {
                let tcx = {
                    let mut c = TyCtx::default();
                    for p in &s.params {
                        c.generics.insert(p.clone(), p.clone());
                    }
                    c
                };
                let why = static_reason(&s).unwrap_or_else(|| {
                    s.fields
                        .iter()
                        .find_map(|(f, t)| {
                            self.peq_field_ok(t, &s.params, &ok).and_then(|_| ty_to_lean(t, &tcx, &self.structs).map(|_| ())).err().map(|e| format!("field {f}: {e}"))
                        })
                        .unwrap_or_else(|| "internal: no reason".into())
                });
                self.late_inventory.push((qual, s.module.clone(), "unsupported".into(), why, desc, lean_file.into(), String::new()));
                continue;
            }
            let self_ty = {
                let mut parts = vec![n.clone()];
                if s.needs_f {
                    parts.push("F".into());
                }
                parts.extend(s.params.iter().cloned());
                if parts.len() == 1 {
                    n.clone()
                } else {
                    format!("({})", parts.join(" "))
                }
            };
            let mut binders = String::new();
            if !s.params.is_empty() {
                binders.push_str(&format!("{{{} : Type}} ", s.params.join(" ")));
            }
            for p in &s.params {
                binders.push_str(&format!("[PEq {p}] "));
            }
            if s.needs_f {
                binders.push_str("[FloatLike F] ");
            }
            let mut body = String::new();
            for (i, (f, _)) in s.fields.iter().enumerate() {
                let c = format!("(PEq.peq self.{f} other.{f})");
                body = if i == 0 { c } else { format!("({body} && {c})") };
            }
            if s.fields.is_empty() {
                body = "true".into();
            }
            let text = format!(
                "/-- `#[derive(PartialEq)]` on `struct {n}`: every field `==`, in declaration order -/\n\
                 def {inst}.peq {binders}(self : {self_ty}) (other : {self_ty}) : Bool :=\n  {body}\n\n\
                 instance {inst} {binders}: PEq {self_ty} where\n  peq := {inst}.peq\n"
            );
            let deps = self.struct_field_deps(&s);
            self.peq_units.push(PeqUnit { base: n.clone(), deps, text, tags: vec![inst.clone(), format!("{inst}.peq")] });
            self.late_inventory.push((qual, s.module.clone(), "translated".into(), String::new(), desc, lean_file.into(), inst));
        }
    }

    // ------------------------------------------------------------------ default_epsilon / default_max_relative

    /// the skipped boiler-plate methods of an `impl AbsDiffEq / RelativeEq for X`
    pub(super) fn translate_approx_defaults(&mut self, fname: &str, im: &ItemImpl, sub: &[String], trait_name: &str, qual: &str) {
        let module = module_name(fname);
        let self_m = mangle(&im.self_ty);
        let inst_name = format!("inst_{trait_name}_{self_m}");
        for ii in &im.items {
            let ImplItem::Fn(f) = ii else { continue };
            let n = f.sig.ident.to_string();
            if !SKIPPED_METHODS.contains(&n.as_str()) {
                continue;
            }
            let def_name = format!("{inst_name}.{}", lean_ident(&n));
            let body = self.approx_default_def(module, sub, im, trait_name, f, &def_name);
            self.default_units.push(DefaultUnit {
                qual: format!("{qual}::{n}"),
                fname: fname.to_string(),
                toks: f.to_token_stream().to_string(),
                def_name,
                body,
            });
        }
    }

    fn approx_default_def(&self, module: &str, sub: &[String], im: &ItemImpl, trait_name: &str, f: &ImplItemFn, def_name: &str) -> R<(String, Vec<String>)> {
        let n = f.sig.ident.to_string();
        if !DEFAULT_METHODS.iter().any(|(t, m, _)| *t == trait_name && *m == n) {
            return Err(format!("`{n}` is not a method of {trait_name}"));
        }
        if !f.sig.inputs.is_empty() || !f.sig.generics.params.is_empty() || f.sig.generics.where_clause.is_some() {
            return Err(format!("`{n}` with parameters"));
        }
        let (tyvars, _insts, _) = self.generics_to_binders(&im.generics, Some(&im.self_ty))?;
        let hdr = self.trait_impl_header(im, trait_name)?;
        let ReturnType::Type(_, rt) = &f.sig.output else { return Err(format!("`{n}` without result")) };
        let ret = ty_to_lean(rt, &hdr.tcx, &self.structs)?;
        if ret != "F" {
            return Err(format!("`{n}` returns {ret}, expected f64"));
        }
        let mut cx = BodyCx::new(BTreeMap::new(), hdr.tcx.clone(), module, sub);
        cx.approx_default = Some(DefaultCx { calls: vec![], self_mangled: mangle(&im.self_ty) });
        let body = self.fn_body(&f.block, &mut cx, false, &[]).map_err(|e| if e == loops::NEEDS_OPTION { "operation that can panic".to_string() } else { e })?;
        for v in &tyvars {
            if ident_occurs(&body, v) {
                return Err(format!("the default depends on the type parameter {v}"));
            }
        }
        let calls = cx.approx_default.map(|d| d.calls).unwrap_or_default();
        if calls.iter().any(|c| c == def_name) {
            return Err("the default calls itself".into());
        }
        Ok((format!("def {def_name} [FloatLike F] : F :=\n{}\n", indent(&body, 2)), calls))
    }

    /// `<TY as Trait>::m()`, `<TY>::m()`, `TY::m()` for `m` = `default_epsilon` / `default_max_relative`, inside
    /// the body of such a method; `None`: not of this form
    pub(super) fn approx_default_call(&self, c: &ExprCall, cx: &mut BodyCx) -> R<Option<String>> {
        if cx.approx_default.is_none() {
            return Ok(None);
        }
        let Expr::Path(p) = &*c.func else { return Ok(None) };
        let nseg = p.path.segments.len();
        let last = p.path.segments.last().unwrap();
        let m = last.ident.to_string();
        let Some((m_trait, _, f64_model)) = DEFAULT_METHODS.iter().find(|(_, mm, _)| *mm == m) else { return Ok(None) };
        if !last.arguments.is_none() {
            return Err(format!("`{m}` with generic arguments"));
        }
        if !c.args.is_empty() {
            return Err(format!("`{m}` applied to arguments"));
        }
        let ty: Type = match &p.qself {
            Some(q) => {
                if q.position + 1 != nseg {
                    return Err("unsupported qualified path".into());
                }
                if q.position > 0 {
                    // `<TY as path::Trait>::m`
                    let tseg = &p.path.segments[q.position - 1];
                    if tseg.ident != *m_trait || !tseg.arguments.is_none() {
                        return Err(format!("`{m}` of a trait other than {m_trait}"));
                    }
                }
                (*q.ty).clone()
            }
            None => {
                if nseg < 2 {
                    return Err(format!("`{m}()` without a type"));
                }
                let mut tp = p.path.clone();
                tp.segments.pop();
                tp.segments.pop_punct();
                if tp.segments.len() == 1 && (tp.segments[0].ident == "AbsDiffEq" || tp.segments[0].ident == "RelativeEq") {
                    return Err(format!("`{}::{m}()` with an inferred type", tp.segments[0].ident));
                }
                Type::Path(TypePath { qself: None, path: tp })
            }
        };
        // the `&T` impls of `approx` delegate to `T`
        let mut ty = &ty;
        loop {
            match ty {
                Type::Reference(r) => ty = &r.elem,
                Type::Paren(q) => ty = &q.elem,
                _ => break,
            }
        }
        let lean = ty_to_lean(ty, &cx.tcx, &self.structs)?;
        if lean == "F" {
            return Ok(Some(format!("({f64_model} : F)")));
        }
        // a struct of the crate (or `Self`) with an impl of that trait
        let is_self = matches!(ty, Type::Path(tp) if tp.qself.is_none() && tp.path.is_ident("Self"));
        let (base, mangled) = if is_self {
            // the impl being translated is for this very type: same mangled name
            let b = cx.tcx.self_struct.clone().ok_or("`Self` outside impl")?;
            (b, cx.approx_default.as_ref().map(|d| d.self_mangled.clone()))
        } else {
            (base_type_name(ty), Some(mangle(ty)))
        };
        if !self.structs.contains_key(&base) {
            return Err(format!("`{m}` of {lean}, which is neither f64 nor a struct of the crate"));
        }
        let impls: Vec<&ApproxImpl> = self.approx_impls.iter().filter(|a| a.trait_name == *m_trait && a.base == base).collect();
        let exact: Vec<&&ApproxImpl> = impls.iter().filter(|a| Some(&a.mangled) == mangled.as_ref()).collect();
        let target = if exact.len() == 1 {
            exact[0]
        } else if exact.is_empty() && impls.len() == 1 {
            // the one (generic) impl of the trait for this struct
            &impls[0]
        } else if impls.is_empty() {
            return Err(format!("`{m}` of {base}, which has no impl of {m_trait} in the crate"));
        } else {
            return Err(format!("`{m}` of {base}: cannot tell which of its {} impls of {m_trait} applies", impls.len()));
        };
        if !target.methods.iter().any(|x| *x == m) {
            return Err(format!("`{m}` of {base}: the impl does not define it"));
        }
        let def = format!("inst_{m_trait}_{}.{}", target.mangled, lean_ident(&m));
        if let Some(d) = cx.approx_default.as_mut() {
            d.calls.push(def.clone());
        }
        Ok(Some(format!("({def} : F)")))
    }

    // ------------------------------------------------------------------ assembly

    /// after all files: the derives, the order of the definitions, the inventory lines of this module
    pub fn finish_peq(&mut self) {
        // ---- defaults: a default that calls an untranslated one is itself untranslated
        let mut units = std::mem::take(&mut self.default_units);
        loop {
            let good: BTreeSet<String> = units.iter().filter(|u| u.body.is_ok()).map(|u| u.def_name.clone()).collect();
            let mut changed = false;
            for u in units.iter_mut() {
                let bad = match &u.body {
                    Ok((_, calls)) => calls.iter().find(|c| !good.contains(*c)).cloned(),
                    Err(_) => None,
                };
                if let Some(c) = bad {
                    u.body = Err(format!("delegates to {c}, which is not translated"));
                    changed = true;
                }
            }
            if !changed {
                break;
            }
        }
        // callees first (source order otherwise); what cannot be placed is on a cycle
        let mut placed: Vec<usize> = vec![];
        let mut done: BTreeSet<String> = BTreeSet::new();
        loop {
            let mut progress = false;
            for (i, u) in units.iter().enumerate() {
                if placed.contains(&i) {
                    continue;
                }
                if let Ok((_, calls)) = &u.body {
                    if calls.iter().all(|c| done.contains(c)) {
                        placed.push(i);
                        done.insert(u.def_name.clone());
                        progress = true;
                    }
                }
            }
            if !progress {
                break;
            }
        }
        for (i, u) in units.iter_mut().enumerate() {
            if u.body.is_ok() && !placed.contains(&i) {
                u.body = Err("cyclic delegation between defaults".into());
            }
        }
        let mut text = String::new();
        let mut tags = vec![];
        for &i in &placed {
            if let Ok((t, _)) = &units[i].body {
                text.push_str(t);
                text.push('\n');
                tags.push(units[i].def_name.clone());
            }
        }
        self.defaults_text = text;
        self.defaults_tags = tags;
        for u in &units {
            match &u.body {
                Ok(_) => self.late_inventory.push((u.qual.clone(), u.fname.clone(), "translated".into(), String::new(), u.toks.clone(), "ApproxDefaults".into(), u.def_name.clone())),
                Err(e) => self.late_inventory.push((u.qual.clone(), u.fname.clone(), "unsupported".into(), e.clone(), u.toks.clone(), "ApproxDefaults".into(), String::new())),
            }
        }
        // ---- PartialEq
        self.emit_partial_eq_derives();
        let units = std::mem::take(&mut self.peq_units);
        let have: BTreeSet<String> = units.iter().map(|u| u.base.clone()).collect();
        let mut placed: Vec<usize> = vec![];
        let mut done: BTreeSet<String> = BTreeSet::new();
        loop {
            let mut progress = false;
            for (i, u) in units.iter().enumerate() {
                if placed.contains(&i) {
                    continue;
                }
                // instances of the same base (impls for different instantiations) keep their source order
                if u.deps.iter().all(|d| !have.contains(d) || done.contains(d)) {
                    placed.push(i);
                    progress = true;
                    if units.iter().enumerate().all(|(j, v)| v.base != u.base || j == i || placed.contains(&j)) {
                        done.insert(u.base.clone());
                    }
                }
            }
            if !progress {
                break;
            }
        }
        // mutually dependent hand impls: emitted last, in source order (Lean reports the missing instance)
        for i in 0..units.len() {
            if !placed.contains(&i) {
                placed.push(i);
            }
        }
        let mut text = String::new();
        let mut tags = vec![];
        for &i in &placed {
            text.push_str(&units[i].text);
            text.push('\n');
            tags.extend(units[i].tags.iter().cloned());
        }
        self.peq_text = text;
        self.peq_tags = tags;
        let late = std::mem::take(&mut self.late_inventory);
        for (name, file, route, reason, toks, lean_file, lean_name) in late {
            self.record(name, &file, &route, reason, toks, &lean_file, &lean_name);
        }
    }

    /// `PartialEq.lean`, `ApproxDefaults.lean` and their attribute files
    pub(super) fn render_peq(&self, m: &mut BTreeMap<String, String>) {
        let attr = |module: &str, tags: &[String]| {
            let mut a = String::new();
            a.push_str("import PP.Core.Attr\n");
            a.push_str(&format!("import PP.Model.{module}\n"));
            a.push_str("/-! GENERATED — simp set of the definitions in the sibling file. -/\n");
            if !tags.is_empty() {
                a.push_str(&format!("attribute [pp_model] {}\n", tags.join(" ")));
            }
            a
        };
        let mut t = String::new();
        t.push_str("import PP.Core.PEq\nimport PP.Model.Types\n");
        t.push_str("/-! GENERATED by /verif/rust/translator from /repo/src — do not edit.\n");
        t.push_str("The crate's own `==`: `#[derive(PartialEq)]` (every field `==`, in declaration order) and hand-written\n");
        t.push_str("`impl PartialEq`, as instances of `PEq` (`PP/Core/PEq.lean`). -/\n");
        t.push_str("set_option linter.unusedVariables false\n");
        t.push_str("variable {F : Type}\n\n");
        t.push_str(&self.peq_text);
        m.insert("PartialEq.lean".to_string(), t);
        m.insert("PartialEqAttr.lean".to_string(), attr("PartialEq", &self.peq_tags));
        let mut t = String::new();
        t.push_str("import PP.Core.PEq\nimport PP.Model.Types\n");
        t.push_str("/-! GENERATED by /verif/rust/translator from /repo/src — do not edit.\n");
        t.push_str("`default_epsilon()` / `default_max_relative()` of every `impl AbsDiffEq` / `impl RelativeEq` of the crate\n");
        t.push_str("(`f64DefaultEpsilon` / `f64DefaultMaxRelative`: the `approx` crate's own `f64` impls, `PP/Core/PEq.lean`). -/\n");
        t.push_str("set_option linter.unusedVariables false\n");
        t.push_str("variable {F : Type}\n\n");
        t.push_str(&self.defaults_text);
        m.insert("ApproxDefaults.lean".to_string(), t);
        m.insert("ApproxDefaultsAttr.lean".to_string(), attr("ApproxDefaults", &self.defaults_tags));
    }
}
