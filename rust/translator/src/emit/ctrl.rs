//! Control flow with effects (second loop round: `PiecewiseEvaluator`, the `+` / `-` merge loops).
//!
//! * `let x = if c { … } else { … }` / `let x = match <Ordering> { … }` whose branches assign to
//!   variables of the enclosing block: every branch is translated in its own frame, the value of the
//!   whole is the tuple `(value, assigned variables…)` (the same variables in every branch, in order of
//!   first assignment), which is then taken apart with projections.  If a branch can panic the tuple is
//!   `Option`-valued and bound with `Option.bind`.  A branch without effects keeps the old, pure reading
//!   (it is tried first), so nothing that was translated before changes.
//! * `loop { … }`: the body becomes a closure over the variables it assigns (`Iter.Flow.brk` = `break`,
//!   `Iter.Flow.next` = fall through to the next pass).  `break` is accepted at the top level of the body
//!   only, as `let Some(p) = e else { break v };` or `if c { break v; }`.
//!   - `loop { let Some((h, t)) = P.split_first() else { break v }; …; P = t; }` where nothing else in
//!     the body assigns to the variable `P` lives in: `Iter.loopSplitFirst` (structural recursion on `P`).
//!   - otherwise termination is not structural: `Iter.loopFuel` with an explicit fuel = the sum of the
//!     lengths of the vectors that the body indexes (`v[i]`), plus one; fuel exhaustion is `none`.
//!     A loop that indexes no vector has no recognisable measure and is unsupported.
//! * `let (a, b) = e;` for a pair-valued `e` (`split_last().expect(..)`), `match` on `Ordering`.

use super::loops::{Frame, NEEDS_OPTION};
use super::*;
use syn::visit::Visit;

pub(super) struct Branch {
    lines: Vec<String>,
    tail: Option<String>,
    mutated: Vec<String>,
    fallible: bool,
}

/// component `k` (0-based) of a right-nested `n`-tuple
fn proj(k: usize, n: usize) -> String {
    let mut s = ".2".repeat(k);
    if k + 1 < n {
        s.push_str(".1");
    }
    s
}

fn tuple_of(names: &[String]) -> String {
    if names.len() == 1 {
        lean_ident(&names[0])
    } else {
        format!("({})", names.iter().map(|n| lean_ident(n)).collect::<Vec<_>>().join(", "))
    }
}

/// `{ break; }` / `{ break v; }`
fn single_break(b: &Block) -> Option<&ExprBreak> {
    match b.stmts.as_slice() {
        [Stmt::Expr(Expr::Break(br), _)] => Some(br),
        _ => None,
    }
}

/// `Ordering::Less` → `Ordering.lt` (std's `Less` / `Equal` / `Greater` are core Lean's `lt` / `eq` / `gt`)
fn ordering_pattern(p: &Pat) -> Option<&'static str> {
    let Pat::Path(pp) = p else { return None };
    if pp.qself.is_some() {
        return None;
    }
    let segs: Vec<String> = pp.path.segments.iter().map(|s| s.ident.to_string()).collect();
    let strs: Vec<&str> = segs.iter().map(|s| s.as_str()).collect();
    let ctor = match strs.as_slice() {
        ["Ordering", c] | ["cmp", "Ordering", c] | ["std", "cmp", "Ordering", c] | ["core", "cmp", "Ordering", c] => *c,
        _ => return None,
    };
    match ctor {
        "Less" => Some("Ordering.lt"),
        "Equal" => Some("Ordering.eq"),
        "Greater" => Some("Ordering.gt"),
        _ => None,
    }
}

struct SplitPlan<'a> {
    place: &'a Expr,
    head: &'a Pat,
    tail: &'a Pat,
    brk: &'a ExprBreak,
}

/// `let Some((h, t)) = P.split_first() else { break v }; …; P = t;`
fn split_first_plan(stmts: &[Stmt]) -> Option<SplitPlan<'_>> {
    if stmts.len() < 2 {
        return None;
    }
    let Stmt::Local(l) = &stmts[0] else { return None };
    let init = l.init.as_ref()?;
    let (_, div) = init.diverge.as_ref()?;
    let Expr::Block(db) = &**div else { return None };
    if db.label.is_some() {
        return None;
    }
    let brk = single_break(&db.block)?;
    let Pat::TupleStruct(ts) = &l.pat else { return None };
    if !ts.path.is_ident("Some") || ts.elems.len() != 1 {
        return None;
    }
    let Pat::Tuple(pt) = &ts.elems[0] else { return None };
    if pt.elems.len() != 2 {
        return None;
    }
    let Pat::Ident(tail_id) = &pt.elems[1] else { return None };
    if tail_id.by_ref.is_some() || tail_id.subpat.is_some() {
        return None;
    }
    let Expr::MethodCall(mc) = strip_paren(&init.expr) else { return None };
    if mc.method != "split_first" || !mc.args.is_empty() {
        return None;
    }
    let Stmt::Expr(Expr::Assign(a), Some(_)) = &stmts[stmts.len() - 1] else { return None };
    if a.left.to_token_stream().to_string() != mc.receiver.to_token_stream().to_string() {
        return None;
    }
    if loops::simple_var(&a.right)? != tail_id.ident.to_string() {
        return None;
    }
    Some(SplitPlan { place: &mc.receiver, head: &pt.elems[0], tail: &pt.elems[1], brk })
}

/// the vectors indexed (`v[i]`, not `v[a..]`) in a loop body, in source order
struct IndexedBases<'a> {
    found: Vec<&'a Expr>,
}
impl<'a> Visit<'a> for IndexedBases<'a> {
    fn visit_expr_index(&mut self, ix: &'a ExprIndex) {
        if !matches!(&*ix.index, Expr::Range(_)) {
            self.found.push(&ix.expr);
        }
        syn::visit::visit_expr_index(self, ix);
    }
}

impl Translator {
    pub(super) fn is_ctrl(e: &Expr) -> bool {
        matches!(e, Expr::If(_) | Expr::Match(_) | Expr::Loop(_))
    }

    /// `/-- struct X<'a, T> -/ structure X (F : Type) (T : Type) where …` for a read-only view
    pub(super) fn render_view_struct(&self, name: &str) -> R<String> {
        let s = self.structs.get(name).ok_or(format!("unknown struct {name}"))?;
        if !s.ref_view || s.tuple {
            return Err("not a named-field struct whose only generic extras are lifetimes of shared references".into());
        }
        let mut tcx = TyCtx::default();
        for p in &s.params {
            tcx.generics.insert(p.clone(), p.clone());
        }
        let mut params = String::new();
        if s.needs_f {
            params.push_str(" (F : Type)");
        }
        for p in &s.params {
            params.push_str(&format!(" ({p} : Type)"));
        }
        let mut fields = String::new();
        for (f, ty) in &s.fields {
            fields.push_str(&format!("  {f} : {}\n", ty_to_lean(ty, &tcx, &self.structs)?));
        }
        Ok(format!(
            "/-- `struct {name}`: a read-only view with lifetime parameters; a borrowed slice `&'a [X]` is a `List X`, a borrowed `&'a X` an `X` -/\nstructure {name}{params} where\n{fields}"
        ))
    }

    /// `let (a, b) = e;` where `e` is known to be a pair
    pub(super) fn let_pair(&self, pt: &PatTuple, init: &Expr, cx: &mut BodyCx, lines: &mut Vec<String>) -> R<()> {
        let Sort::Tuple(sorts) = self.sort_of(init, cx) else { return Err("tuple pattern with an initialiser that is not known to be a tuple".into()) };
        if sorts.len() != pt.elems.len() {
            return Err("tuple arity".into());
        }
        let mut names: Vec<Option<String>> = vec![];
        for p in &pt.elems {
            match p {
                Pat::Ident(pi) if pi.by_ref.is_none() && pi.subpat.is_none() => names.push(Some(pi.ident.to_string())),
                Pat::Wild(_) => names.push(None),
                _ => return Err("nested pattern in tuple".into()),
            }
        }
        let e = self.expr(init, cx)?;
        self.flush(cx, lines);
        let t = cx.fresh();
        lines.push(format!("let {t} := {e};"));
        let n = names.len();
        for (k, (name, sort)) in names.into_iter().zip(sorts).enumerate() {
            if let Some(name) = name {
                cx.declare_s(&name, sort);
                lines.push(format!("let {} := {t}{};", lean_ident(&name), proj(k, n)));
            }
        }
        Ok(())
    }

    // ------------------------------------------------------------------ branches with effects

    /// `if` / `match` / `loop` in a strict position at statement level (initialiser of a `let`, tail of a
    /// branch): the value; lines (and the rebinding of assigned variables) go to `lines`
    pub(super) fn ctrl_value(&self, e: &Expr, cx: &mut BodyCx, lines: &mut Vec<String>) -> R<String> {
        let e = strip_paren(e);
        if !matches!(e, Expr::Loop(_)) {
            // the pure reading first
            let mut trial = cx.clone();
            match self.expr(e, &mut trial) {
                Ok(v) => {
                    *cx = trial;
                    return Ok(v);
                }
                Err(err) if err == NEEDS_OPTION => return Err(err),
                Err(_) => {}
            }
        }
        match e {
            Expr::If(i) => self.ve_if(i, cx, lines),
            Expr::Match(m) => self.ve_match(m, cx, lines),
            Expr::Loop(l) => self.ve_loop(l, cx, lines)?.ok_or_else(|| "`loop` without `break value` in value position".to_string()),
            _ => Err("internal: not a control-flow expression".into()),
        }
    }

    fn ve_value(&self, e: &Expr, cx: &mut BodyCx, lines: &mut Vec<String>) -> R<String> {
        let e = strip_paren(e);
        let v = if Self::is_ctrl(e) { self.ctrl_value(e, cx, lines)? } else { self.expr(e, cx)? };
        self.flush(cx, lines);
        Ok(v)
    }

    /// statements of a branch; its tail expression may again be control flow with effects
    fn ve_block(&self, stmts: &[Stmt], cx: &mut BodyCx) -> R<(Vec<String>, Option<String>)> {
        let (init, tail) = match stmts.split_last() {
            Some((Stmt::Expr(e, None), init)) => (init, Some(e)),
            _ => (stmts, None),
        };
        let (mut lines, _) = self.block_lines(init, cx, true, false)?;
        let t = match tail {
            Some(e) => Some(self.ve_value(e, cx, &mut lines)?),
            None => None,
        };
        Ok((lines, t))
    }

    /// a branch in its own frame: it may assign to variables of the enclosing scope at its top level
    fn branch(&self, cx: &mut BodyCx, f: impl FnOnce(&Self, &mut BodyCx) -> R<(Vec<String>, Option<String>)>) -> R<Branch> {
        cx.frames.push(Frame { base: cx.scopes.len(), mutated: vec![] });
        cx.scopes.push(BTreeMap::new());
        let nb = cx.n_binds;
        let r = self.framed(cx, f);
        cx.scopes.pop();
        let fr = cx.frames.pop().unwrap();
        let ((lines, tail), _) = r?;
        Ok(Branch { lines, tail, mutated: fr.mutated, fallible: cx.n_binds != nb })
    }

    fn branch_of_expr(&self, e: &Expr, cx: &mut BodyCx) -> R<Branch> {
        match strip_paren(e) {
            Expr::Block(b) if b.label.is_none() => self.branch(cx, |s, cx| s.ve_block(&b.block.stmts, cx)),
            other => self.branch(cx, |s, cx| {
                let mut l = vec![];
                let t = s.ve_value(other, cx, &mut l)?;
                Ok((l, Some(t)))
            }),
        }
    }

    fn join_branches(&self, cx: &mut BodyCx, lines: &mut Vec<String>, branches: Vec<Branch>, render: impl FnOnce(&[String]) -> String) -> R<String> {
        let mut mutated: Vec<String> = vec![];
        for b in &branches {
            for m in &b.mutated {
                if !mutated.contains(m) {
                    mutated.push(m.clone());
                }
            }
        }
        let fallible = branches.iter().any(|b| b.fallible);
        let mut bodies = vec![];
        for b in &branches {
            let Some(tail) = &b.tail else { return Err("branch without value in value position".into()) };
            let mut parts = vec![tail.clone()];
            parts.extend(mutated.iter().map(|m| lean_ident(m)));
            let mut t = if parts.len() == 1 { parts.pop().unwrap() } else { format!("({})", parts.join(", ")) };
            if fallible {
                t = format!("some ({t})");
            }
            bodies.push(if b.lines.is_empty() { t } else { format!("{} {t}", b.lines.join(" ")) });
        }
        let term = render(&bodies);
        for m in &mutated {
            self.note_mutation(cx, m)?;
        }
        let t = cx.fresh();
        if fallible {
            if !cx.opt_mode {
                return Err(NEEDS_OPTION.into());
            }
            lines.push(format!("Option.bind {term} fun {t} =>"));
            cx.n_binds += 1;
        } else {
            lines.push(format!("let {t} := {term};"));
        }
        if mutated.is_empty() {
            return Ok(t);
        }
        let n = mutated.len() + 1;
        for (k, m) in mutated.iter().enumerate() {
            lines.push(format!("let {} := {t}{};", lean_ident(m), proj(k + 1, n)));
        }
        Ok(format!("{t}.1"))
    }

    fn ve_if(&self, i: &ExprIf, cx: &mut BodyCx, lines: &mut Vec<String>) -> R<String> {
        let Some((_, else_e)) = &i.else_branch else { return Err("if without else in value position".into()) };
        let c = self.expr(&i.cond, cx)?;
        self.flush(cx, lines);
        let then_b = self.branch(cx, |s, cx| s.ve_block(&i.then_branch.stmts, cx))?;
        let else_b = self.branch_of_expr(else_e, cx)?;
        self.join_branches(cx, lines, vec![then_b, else_b], |b| format!("(if {c} then ({}) else ({}))", b[0], b[1]))
    }

    /// `match <Ordering> { Ordering::Less => …, Ordering::Greater => …, Ordering::Equal => … }`
    fn ve_match(&self, m: &ExprMatch, cx: &mut BodyCx, lines: &mut Vec<String>) -> R<String> {
        if self.sort_of(&m.expr, cx) != Sort::Ordering {
            return Err("match with effects on a scrutinee that is not known to be an Ordering".into());
        }
        let s = self.expr(&m.expr, cx)?;
        self.flush(cx, lines);
        let mut ctors: Vec<&'static str> = vec![];
        let mut branches = vec![];
        for arm in &m.arms {
            if arm.guard.is_some() {
                return Err("match guard".into());
            }
            let ctor = ordering_pattern(&arm.pat).ok_or("match arm pattern other than Ordering::{Less, Equal, Greater}")?;
            if ctors.contains(&ctor) {
                return Err("match on an Ordering with a repeated arm".into());
            }
            ctors.push(ctor);
            branches.push(self.branch_of_expr(&arm.body, cx)?);
        }
        if ctors.len() != 3 {
            return Err("match on an Ordering without the three arms Less, Equal, Greater".into());
        }
        self.join_branches(cx, lines, branches, |b| {
            let arms: Vec<String> = ctors.iter().zip(b).map(|(c, t)| format!("| {c} => ({t})")).collect();
            format!("(match {s} with {})", arms.join(" "))
        })
    }

    // ------------------------------------------------------------------ loop

    /// the result of a `break`: `(value, STATE)` or `STATE` (`mark` stands for the state tuple, which is
    /// known only after the whole body has been translated)
    fn break_result(&self, brk: &ExprBreak, cx: &mut BodyCx, mark: &str, has_value: &mut Option<bool>) -> R<(Vec<String>, String)> {
        if brk.label.is_some() {
            return Err("labelled break".into());
        }
        let hv = brk.expr.is_some();
        match has_value {
            None => *has_value = Some(hv),
            Some(x) if *x != hv => return Err("`break` with and without a value in one loop".into()),
            _ => {}
        }
        match &brk.expr {
            Some(v) => {
                let (t, pre) = self.framed(cx, |s, cx| s.expr(v, cx))?;
                Ok((pre, format!("({t}, {mark})")))
            }
            None => Ok((vec![], mark.to_string())),
        }
    }

    /// statements at the top level of a loop body
    fn loop_stmts(&self, stmts: &[Stmt], cx: &mut BodyCx, lines: &mut Vec<String>, mark: &str, has_value: &mut Option<bool>, opt: bool) -> R<()> {
        let exit = |pre: Vec<String>, r: String| {
            let mut t = format!("Iter.Flow.brk {r}");
            if opt {
                t = format!("some ({t})");
            }
            if pre.is_empty() {
                t
            } else {
                format!("{} {t}", pre.join(" "))
            }
        };
        for st in stmts {
            match st {
                Stmt::Local(l) if l.init.as_ref().map(|i| i.diverge.is_some()).unwrap_or(false) => {
                    // `let Some(p) = e else { break v };`
                    let init = l.init.as_ref().unwrap();
                    let (_, div) = init.diverge.as_ref().unwrap();
                    let brk = match &**div {
                        Expr::Block(b) if b.label.is_none() => single_break(&b.block),
                        _ => None,
                    }
                    .ok_or("let-else whose else block is not a single `break`")?;
                    let Pat::TupleStruct(ts) = &l.pat else { return Err("let-else pattern other than Some(..)".into()) };
                    if !ts.path.is_ident("Some") || ts.elems.len() != 1 {
                        return Err("let-else pattern other than Some(..)".into());
                    }
                    let Sort::Opt(inner) = self.sort_of(&init.expr, cx) else { return Err("let-else on an initialiser that is not known to be an Option".into()) };
                    let e = self.expr(&init.expr, cx)?;
                    self.flush(cx, lines);
                    let (pre, r) = self.break_result(brk, cx, mark, has_value)?;
                    let pat = self.bind_pattern(&ts.elems[0], cx, *inner)?;
                    lines.push(format!("match {e} with | none => ({}) | some {pat} =>", exit(pre, r)));
                }
                Stmt::Expr(Expr::If(i), _) if i.else_branch.is_none() && single_break(&i.then_branch).is_some() => {
                    let brk = single_break(&i.then_branch).unwrap();
                    let c = self.expr(&i.cond, cx)?;
                    self.flush(cx, lines);
                    let (pre, r) = self.break_result(brk, cx, mark, has_value)?;
                    lines.push(format!("if {c} then ({}) else", exit(pre, r)));
                }
                other => {
                    let (ls, _) = self.block_lines(std::slice::from_ref(other), cx, true, false)?;
                    lines.extend(ls);
                }
            }
        }
        Ok(())
    }

    /// `loop { … }` at statement level; `Some(value)` if its `break`s carry a value
    pub(super) fn ve_loop(&self, l: &ExprLoop, cx: &mut BodyCx, lines: &mut Vec<String>) -> R<Option<String>> {
        if l.label.is_some() {
            return Err("labelled loop".into());
        }
        let stmts = &l.body.stmts;
        self.flush(cx, lines);
        let rv = cx.fresh();
        let mark = format!("\u{2}{rv}\u{2}");
        let mut has_value: Option<bool> = None;
        let plan = split_first_plan(stmts).filter(|p| self.sort_of(p.place, cx) == Sort::List && self.parse_place(p.place).is_ok());
        let (saved_opt, saved_ret) = (cx.opt_mode, cx.allow_return);
        if plan.is_none() && !cx.opt_mode {
            // fuel exhaustion is `none`
            return Err(NEEDS_OPTION.into());
        }
        let place_txt = match &plan {
            Some(p) => Some(self.expr(p.place, cx)?),
            None => None,
        };
        self.flush(cx, lines);
        // fuel: the vectors indexed in the body (evaluated before the loop)
        let mut fuel_bases: Vec<(String, String)> = vec![];
        if plan.is_none() {
            let mut v = IndexedBases { found: vec![] };
            v.visit_block(&l.body);
            for b in v.found {
                if self.sort_of(b, cx) != Sort::List {
                    continue;
                }
                let Ok((root, _)) = self.parse_place(b) else { continue };
                let mut trial = cx.clone();
                let Ok(t) = self.expr(b, &mut trial) else { continue };
                if !trial.pending.is_empty() {
                    continue;
                }
                if !fuel_bases.iter().any(|(_, x)| *x == t) {
                    fuel_bases.push((root, t));
                }
            }
            if fuel_bases.is_empty() {
                return Err("`loop` without a recognisable termination measure (no `split_first` cursor, no vector indexed in the body)".into());
            }
        }
        cx.allow_return = false;
        cx.opt_mode = plan.is_none();
        cx.frames.push(Frame { base: cx.scopes.len(), mutated: vec![] });
        cx.scopes.push(BTreeMap::new());
        let r = self.framed(cx, |s, cx| -> R<(Vec<String>, Option<(String, String, String)>)> {
            let mut body = vec![];
            match &plan {
                None => {
                    s.loop_stmts(stmts, cx, &mut body, &mark, &mut has_value, true)?;
                    Ok((body, None))
                }
                Some(p) => {
                    let root = s.parse_place(p.place)?.0;
                    // the `break` of the `else` (the names of the pattern are not in scope there)
                    let (pre, on_empty) = s.break_result(p.brk, cx, &mark, &mut has_value)?;
                    let on_empty = if pre.is_empty() { on_empty } else { format!("{} {on_empty}", pre.join(" ")) };
                    let h = s.bind_pattern(p.head, cx, Sort::Other)?;
                    let t = s.bind_pattern(p.tail, cx, Sort::List)?;
                    let n = stmts.len();
                    s.loop_stmts(&stmts[1..n - 1], cx, &mut body, &mark, &mut has_value, false)?;
                    if cx.frames.last().map(|f| f.mutated.contains(&root)).unwrap_or(true) {
                        return Err("`loop` over `split_first`: the body assigns to the variable of the cursor".into());
                    }
                    let (ls, _) = s.block_lines(&stmts[n - 1..], cx, true, false)?;
                    body.extend(ls);
                    Ok((body, Some((on_empty, h, t))))
                }
            }
        });
        cx.scopes.pop();
        let fr = cx.frames.pop().unwrap();
        cx.opt_mode = saved_opt;
        cx.allow_return = saved_ret;
        let ((body, split), _) = match r {
            Err(e) if e == NEEDS_OPTION && plan.is_some() => return Err("`loop` over `split_first` whose body can panic".into()),
            other => other?,
        };
        let state = fr.mutated;
        if state.is_empty() {
            return Err("`loop` that assigns no variable".into());
        }
        let Some(hv) = has_value else { return Err("`loop` without `break`".into()) };
        let st = tuple_of(&state);
        let mut body_txt = body.join(" ");
        if !body_txt.is_empty() {
            body_txt.push(' ');
        }
        match split {
            None => {
                for (root, _) in &fuel_bases {
                    if state.contains(root) {
                        return Err("`loop` indexes a vector that it also assigns".into());
                    }
                }
                let mut fuel = String::new();
                for (_, b) in &fuel_bases {
                    fuel = if fuel.is_empty() { format!("(Iter.len {b})") } else { format!("({fuel} + (Iter.len {b}))") };
                }
                body_txt.push_str(&format!("some (Iter.Flow.next {st})"));
                let body_txt = body_txt.replace(&mark, &st);
                lines.push("/- `loop`: termination is not structural, so the number of passes is bounded by an explicit fuel (the lengths of the vectors the body indexes, plus one); running out of fuel is `none` -/".into());
                lines.push(format!("Option.bind (Iter.loopFuel ({fuel} + 1) {st} (fun {st} => {body_txt})) fun {rv} =>"));
                cx.n_binds += 1;
            }
            Some((on_empty, h, t)) => {
                body_txt.push_str(&format!("Iter.Flow.next {st}"));
                let body_txt = body_txt.replace(&mark, &st);
                let on_empty = on_empty.replace(&mark, &st);
                let place = place_txt.unwrap();
                lines.push("/- `loop` over `split_first`: structural recursion on the slice -/".into());
                lines.push(format!("let {rv} := (Iter.loopSplitFirst {place} {st} (fun {st} => {on_empty}) (fun {st} {h} {t} => {body_txt}));"));
            }
        }
        for v in &state {
            self.note_mutation(cx, v)?;
        }
        let off = if hv { 1 } else { 0 };
        let n = state.len() + off;
        for (k, v) in state.iter().enumerate() {
            lines.push(format!("let {} := {rv}{};", lean_ident(v), proj(k + off, n)));
        }
        Ok(if hv { Some(format!("{rv}{}", proj(0, n))) } else { None })
    }
}
