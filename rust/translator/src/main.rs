//! Translator: `/repo/src/*.rs` (straight-line numeric subset) → Lean 4 model files.
//!
//! usage: pp_translator <repo-src-dir> <out-dir>
//!
//! Output is a deterministic function of the token stream (no positions, no comments).  Anything
//! outside the supported subset is reported as `unsupported` in `inventory.json` and never guessed at.
//! See /verif/DESIGN.md §2 and §4.1.

mod emit;
mod types;

use std::collections::BTreeMap;
use std::fs;
use std::path::Path;

fn main() {
    let args: Vec<String> = std::env::args().collect();
    if args.len() != 3 {
        eprintln!("usage: pp_translator <repo-src-dir> <out-dir>");
        std::process::exit(2);
    }
    let src = Path::new(&args[1]);
    let out = Path::new(&args[2]);
    let files = ["poly", "log_poly", "piecewise", "spline", "linear"];
    let mut parsed = Vec::new();
    for f in files {
        let p = src.join(format!("{f}.rs"));
        let text = match fs::read_to_string(&p) {
            Ok(t) => t,
            Err(e) => {
                eprintln!("cannot read {}: {e}", p.display());
                std::process::exit(2);
            }
        };
        match syn::parse_file(&text) {
            Ok(ast) => parsed.push((f.to_string(), ast)),
            Err(e) => {
                eprintln!("cannot parse {}: {e}", p.display());
                std::process::exit(2);
            }
        }
    }
    let mut tr = emit::Translator::new();
    tr.collect_structs(&parsed);
    for (name, ast) in &parsed {
        tr.translate_file(name, ast);
    }
    tr.finish_peq();
    let outputs: BTreeMap<String, String> = tr.render();
    fs::create_dir_all(out).unwrap();
    for (rel, text) in &outputs {
        let p = out.join(rel);
        if let Some(d) = p.parent() {
            fs::create_dir_all(d).unwrap();
        }
        // only touch files whose content changed, so that lake does not rebuild needlessly
        let old = fs::read_to_string(&p).unwrap_or_default();
        if &old != text {
            fs::write(&p, text).unwrap();
        }
    }
    let inv = tr.inventory_json();
    let p = out.join("inventory.json");
    let old = fs::read_to_string(&p).unwrap_or_default();
    if old != inv {
        fs::write(&p, inv).unwrap();
    }
    let (ok, hand, unsup) = tr.counts();
    println!("translated={ok} hand={hand} unsupported={unsup}");
    for (item, why) in tr.unsupported() {
        println!("UNSUPPORTED {item}: {why}");
    }
}
