//! Item / expression translation.

use crate::types::*;
use quote::ToTokens;
use std::collections::{BTreeMap, BTreeSet};
use syn::*;

mod arb;
mod ctrl;
mod loops;
mod peq;
pub(crate) use loops::Sort;

type R<T> = std::result::Result<T, String>;

#[derive(Clone, Debug)]
pub struct InvItem {
    pub name: String,
    pub file: String,
    pub route: String, // translated | hand | unsupported | skipped
    pub reason: String,
    pub hash: String,
    pub lean_file: String,
    pub lean_name: String,
}

#[derive(Clone, Debug)]
struct FnInfo {
    mut_params: Vec<usize>,
    body: String,
}

pub struct Translator {
    structs: BTreeMap<String, StructInfo>,
    struct_order: Vec<String>,
    fns: BTreeMap<(String, String), FnInfo>,
    mutating: BTreeSet<String>,
    chunks: BTreeMap<String, Vec<(u32, String)>>,
    tags: BTreeMap<String, Vec<String>>,
    inventory: Vec<InvItem>,
    /// inherent / free functions that went through the loop route: (type or namespace, name) → status
    loop_fns: BTreeMap<(String, String), loops::LoopFn>,
    // ---- `PartialEq` and the approx defaults (see emit/peq.rs)
    approx_impls: Vec<peq::ApproxImpl>,
    peq_units: Vec<peq::PeqUnit>,
    /// base types with a translated / an untranslated hand-written `impl PartialEq`
    peq_hand: BTreeSet<String>,
    peq_hand_failed: BTreeSet<String>,
    default_units: Vec<peq::DefaultUnit>,
    /// inventory lines appended after those of the items proper: (name, file, route, reason, tokens, lean file, lean name)
    late_inventory: Vec<(String, String, String, String, String, String, String)>,
    peq_text: String,
    peq_tags: Vec<String>,
    defaults_text: String,
    defaults_tags: Vec<String>,
}

fn fnv(s: &str) -> String {
    let mut h: u64 = 0xcbf29ce484222325;
    for b in s.bytes() {
        h ^= b as u64;
        h = h.wrapping_mul(0x100000001b3);
    }
    format!("{h:016x}")
}

fn module_name(file: &str) -> &'static str {
    match file {
        "poly" => "Poly",
        "log_poly" => "LogPoly",
        "piecewise" => "Piecewise",
        "spline" => "Spline",
        "linear" => "Linear",
        _ => "Other",
    }
}

fn is_cfg_test(attrs: &[Attribute]) -> bool {
    attrs.iter().any(|a| a.path().is_ident("cfg") && a.meta.to_token_stream().to_string().contains("test"))
}

/// never attempted
const HAND_TYPES: &[&str] = &[];
/// read-only views with a cursor (`&'a [X]` fields, `&mut self` methods that return a value): loop subset,
/// emitted with their structure declaration into `<Module>/Evaluator.lean`
const STATE_TYPES: &[&str] = &["PiecewiseEvaluator"];
/// trait impls of the loop types that go through the loop subset into `<Module>/Merge.lean`
/// (index loops with two cursors)
const MERGE_TRAITS: &[&str] = &["Add", "Sub"];
/// types whose impls use loops / iterators / slices: translated through the loop subset
/// (`emit/loops.rs`) into `<Module>/Loops.lean`
const LOOP_TYPES: &[&str] = &["Piecewise", "PolyN"];
/// trait impls of the loop types that stay hand-modelled (none: `Arbitrary` goes through `emit/arb.rs`)
const HAND_TRAITS: &[&str] = &[];
const HAND_FNS: &[&str] = &[];
/// free functions translated through the loop subset
const LOOP_FNS: &[&str] = &["linear", "constrained_spline"];
/// not part of the instances (the classes `AbsDiffEq` / `RelativeEq` have the relation only); translated on their
/// own into `ApproxDefaults.lean` (`emit/peq.rs`)
const SKIPPED_METHODS: &[&str] = &["default_epsilon", "default_max_relative"];

fn base_type_name(ty: &Type) -> String {
    match ty {
        Type::Reference(r) => base_type_name(&r.elem),
        Type::Paren(p) => base_type_name(&p.elem),
        Type::Path(p) => p.path.segments.last().map(|s| s.ident.to_string()).unwrap_or_default(),
        _ => String::new(),
    }
}

struct ImplHeader {
    tcx: TyCtx,
    self_lean: String,
    class_app: String,
    binders_txt: String,
}

#[derive(Default)]
struct Siblings {
    /// rust method name → standalone def
    defs: BTreeMap<String, String>,
    /// Option-valued ones
    opt: BTreeSet<String>,
    /// methods whose translation failed
    bad: BTreeSet<String>,
}

fn merge_generics(a: &Generics, b: &Generics) -> Generics {
    if b.params.is_empty() && b.where_clause.is_none() {
        return a.clone();
    }
    let mut g = a.clone();
    for p in &b.params {
        g.params.push(p.clone());
    }
    if let Some(w) = &b.where_clause {
        let wc = g.make_where_clause();
        for p in &w.predicates {
            wc.predicates.push(p.clone());
        }
    }
    g
}

#[derive(Clone, Debug)]
enum PathElem {
    Field(String),
}

#[derive(Clone)]
struct BodyCx {
    /// methods of the impl being translated that are already emitted as standalone defs: rust name → lean def
    siblings: BTreeMap<String, String>,
    tcx: TyCtx,
    scopes: Vec<BTreeMap<String, Sort>>,
    module: String,
    /// sub-module path inside the file (e.g. ["taylor"])
    submods: Vec<String>,
    // ---- loop subset (see emit/loops.rs) ----
    /// siblings whose standalone def is `Option`-valued
    opt_siblings: BTreeSet<String>,
    /// lines hoisted out of the expression being translated (`let v := …;` / `Option.bind … fun v =>`)
    pending: Vec<String>,
    /// variables rebound by the pending lines of the current statement
    mutated: Vec<String>,
    /// number of `Option.bind` lines emitted so far
    n_binds: usize,
    /// counter of temporaries `v'1`, `v'2`, …
    tmp: usize,
    /// the body being translated is `Option`-valued (`none` = panic)
    opt_mode: bool,
    /// closure bodies / match arms being translated: outer variables they may mutate
    frames: Vec<loops::Frame>,
    /// variables read so far by the statement being translated
    reads: Vec<String>,
    /// `return e` means "the function's result is e" here
    allow_return: bool,
    /// sibling methods whose translation failed
    bad_siblings: BTreeSet<String>,
    /// `&mut` parameters (Lean names) that are returned next to the result: `return e` yields `(e, p…)`
    ret_extra: Vec<String>,
    /// the body is a function over `arbitrary::Unstructured` (see emit/arb.rs): `is_normal` is available
    /// (the binder `[Arb.StdF64 F]` is in scope)
    arb_mode: bool,
    /// the body is `PartialEq::eq`: `==` / `!=` are the crate's own (`PEq.peq`), whatever the operand type
    peq_eq: bool,
    /// the body is a `default_epsilon` / `default_max_relative` (see emit/peq.rs)
    approx_default: Option<peq::DefaultCx>,
}

impl BodyCx {
    fn new(siblings: BTreeMap<String, String>, tcx: TyCtx, module: &str, submods: &[String]) -> Self {
        BodyCx {
            siblings,
            tcx,
            scopes: vec![BTreeMap::new()],
            module: module.to_string(),
            submods: submods.to_vec(),
            opt_siblings: BTreeSet::new(),
            pending: vec![],
            mutated: vec![],
            n_binds: 0,
            tmp: 0,
            opt_mode: false,
            frames: vec![],
            reads: vec![],
            allow_return: false,
            bad_siblings: BTreeSet::new(),
            ret_extra: vec![],
            arb_mode: false,
            peq_eq: false,
            approx_default: None,
        }
    }
    fn declare(&mut self, n: &str) {
        self.scopes.last_mut().unwrap().insert(n.to_string(), Sort::Other);
    }
    fn declare_s(&mut self, n: &str, s: Sort) {
        self.scopes.last_mut().unwrap().insert(n.to_string(), s);
    }
    fn scope_of(&self, n: &str) -> Option<usize> {
        for (i, s) in self.scopes.iter().enumerate().rev() {
            if s.contains_key(n) {
                return Some(i);
            }
        }
        None
    }
    fn sort_of_var(&self, n: &str) -> Sort {
        for s in self.scopes.iter().rev() {
            if let Some(x) = s.get(n) {
                return x.clone();
            }
        }
        Sort::Other
    }
}

impl Translator {
    pub fn new() -> Self {
        let mut mutating = BTreeSet::new();
        mutating.insert("mul_assign".to_string()); // std::ops::MulAssign::mul_assign(&mut self, ..)
        Translator {
            structs: BTreeMap::new(),
            struct_order: vec![],
            fns: BTreeMap::new(),
            mutating,
            chunks: BTreeMap::new(),
            tags: BTreeMap::new(),
            inventory: vec![],
            loop_fns: BTreeMap::new(),
            approx_impls: vec![],
            peq_units: vec![],
            peq_hand: BTreeSet::new(),
            peq_hand_failed: BTreeSet::new(),
            default_units: vec![],
            late_inventory: vec![],
            peq_text: String::new(),
            peq_tags: vec![],
            defaults_text: String::new(),
            defaults_tags: vec![],
        }
    }

    pub fn collect_structs(&mut self, files: &[(String, File)]) {
        for (fname, ast) in files {
            self.collect_items(fname, &ast.items, &[]);
        }
        compute_needs_f(&mut self.structs);
    }

    fn collect_items(&mut self, fname: &str, items: &[Item], sub: &[String]) {
        for it in items {
            match it {
                Item::Struct(s) => {
                    let info = collect_struct(fname, s);
                    self.struct_order.push(info.name.clone());
                    self.structs.insert(info.name.clone(), info);
                }
                Item::Impl(im) => self.collect_approx_impl(im),
                Item::Trait(t) => {
                    for ti in &t.items {
                        if let TraitItem::Fn(f) = ti {
                            if let Some(FnArg::Receiver(r)) = f.sig.inputs.first() {
                                if r.reference.is_some() && r.mutability.is_some() {
                                    self.mutating.insert(f.sig.ident.to_string());
                                }
                            }
                        }
                    }
                }
                Item::Fn(f) => {
                    let mut mp = vec![];
                    for (i, a) in f.sig.inputs.iter().enumerate() {
                        if let FnArg::Typed(pt) = a {
                            if let Type::Reference(r) = &*pt.ty {
                                if r.mutability.is_some() {
                                    mp.push(i);
                                }
                            }
                        }
                    }
                    let mut key = module_name(fname).to_string();
                    for s in sub {
                        key.push('.');
                        key.push_str(s);
                    }
                    self.fns.insert((key, f.sig.ident.to_string()), FnInfo { mut_params: mp, body: f.block.to_token_stream().to_string() });
                }
                Item::Mod(m) if !is_cfg_test(&m.attrs) => {
                    if let Some((_, its)) = &m.content {
                        let mut s2 = sub.to_vec();
                        s2.push(m.ident.to_string());
                        self.collect_items(fname, its, &s2);
                    }
                }
                _ => {}
            }
        }
    }

    pub fn translate_file(&mut self, fname: &str, ast: &File) {
        self.translate_items(fname, &ast.items, &[]);
        self.emit_arbitrary_derives(fname);
    }

    /// call depth of a free function inside its file (callees are emitted first)
    fn fn_depth(&self, ns: &str, name: &str, guard: u32) -> u32 {
        if guard > 20 {
            return 0;
        }
        let Some(info) = self.fns.get(&(ns.to_string(), name.to_string())) else { return 0 };
        let root = ns.split('.').next().unwrap_or(ns);
        let mut d = 0;
        for ((k, n), _) in &self.fns {
            if n != name && k.split('.').next() == Some(root) && (info.body.contains(&format!(" {n} (")) || info.body.starts_with(&format!("{n} ("))) {
                d = d.max(1 + self.fn_depth(k, n, guard + 1));
            }
        }
        d
    }

    fn push_chunk(&mut self, file: &str, text: String) {
        self.push_chunk_ranked(file, 0, text);
    }

    /// Rust does not care about the order of impls; Lean does.  Chunks are emitted by rank (callee
    /// traits first), source order within a rank.
    fn push_chunk_ranked(&mut self, file: &str, rank: u32, text: String) {
        self.chunks.entry(file.to_string()).or_default().push((rank, text));
    }

    fn record(&mut self, name: String, file: &str, route: &str, reason: String, tokens: String, lean_file: &str, lean_name: &str) {
        self.inventory.push(InvItem {
            name,
            file: file.to_string(),
            route: route.to_string(),
            reason,
            hash: fnv(&tokens),
            lean_file: lean_file.to_string(),
            lean_name: lean_name.to_string(),
        });
    }

    fn translate_items(&mut self, fname: &str, items: &[Item], sub: &[String]) {
        let module = module_name(fname);
        for it in items {
            match it {
                Item::Impl(im) => self.translate_impl(fname, im, sub),
                Item::Fn(f) => {
                    if is_cfg_test(&f.attrs) || f.attrs.iter().any(|a| a.path().is_ident("test")) {
                        continue;
                    }
                    let name = f.sig.ident.to_string();
                    let qual = if sub.is_empty() { format!("{fname}::{name}") } else { format!("{fname}::{}::{name}", sub.join("::")) };
                    let toks = f.to_token_stream().to_string();
                    if HAND_FNS.contains(&name.as_str()) {
                        self.record(qual, fname, "hand", "loops / iterator adaptors / assert!".into(), toks, "", "");
                        continue;
                    }
                    let mut ns = module.to_string();
                    for s in sub {
                        ns.push('.');
                        ns.push_str(s);
                    }
                    if LOOP_FNS.contains(&name.as_str()) {
                        let lean_file = format!("{module}/Loops");
                        let ln = format!("{ns}.{}", lean_ident(&name));
                        let ret = match &f.sig.output {
                            ReturnType::Type(_, t) => self.sort_of_type(t, &TyCtx::default()),
                            _ => Sort::Other,
                        };
                        let r = self.with_opt_retry(|opt| self.translate_free_fn(module, sub, &f.sig, &f.block, opt));
                        let mut lf = loops::LoopFn { lean: ln.clone(), ok: false, fallible: false, ret };
                        match r {
                            Ok((text, fallible)) => {
                                let chunk = format!("namespace {ns}\n{text}\nend {ns}\n");
                                self.push_chunk_ranked(&lean_file, 300, chunk);
                                self.tags.entry(lean_file.clone()).or_default().push(ln.clone());
                                self.record(qual, fname, "translated", String::new(), toks, &lean_file, &ln);
                                lf.ok = true;
                                lf.fallible = fallible;
                            }
                            Err(e) => self.record(qual, fname, "unsupported", e, toks, &lean_file, ""),
                        }
                        self.loop_fns.insert((ns.clone(), name.clone()), lf);
                        continue;
                    }
                    let lean_file = if module == "LogPoly" { "LogPoly/Evaluate".to_string() } else { format!("{module}/Fns") };
                    match self.translate_free_fn(module, sub, &f.sig, &f.block, false) {
                        Ok(text) => {
                            let chunk = format!("namespace {ns}\n{text}\nend {ns}\n");
                            let depth = self.fn_depth(&ns, &name, 0);
                            self.push_chunk_ranked(&lean_file, depth, chunk);
                            let ln = format!("{ns}.{}", lean_ident(&name));
                            self.tags.entry(lean_file.clone()).or_default().push(ln.clone());
                            self.record(qual, fname, "translated", String::new(), toks, &lean_file, &ln);
                        }
                        Err(e) => self.record(qual, fname, "unsupported", e, toks, &lean_file, ""),
                    }
                }
                Item::Mod(m) => {
                    if is_cfg_test(&m.attrs) {
                        continue;
                    }
                    if let Some((_, its)) = &m.content {
                        let mut s2 = sub.to_vec();
                        s2.push(m.ident.to_string());
                        self.translate_items(fname, its, &s2);
                    }
                }
                _ => {}
            }
        }
    }

    fn translate_impl(&mut self, fname: &str, im: &ItemImpl, sub: &[String]) {
        let module = module_name(fname);
        let base = base_type_name(&im.self_ty);
        let self_m = mangle(&im.self_ty);
        let trait_name = im.trait_.as_ref().map(|(_, p, _)| p.segments.last().unwrap().ident.to_string());
        let toks = im.to_token_stream().to_string();
        let qual = match &trait_name {
            Some(t) => {
                let targs = im.trait_.as_ref().unwrap().1.segments.last().unwrap().arguments.to_token_stream().to_string().replace(' ', "");
                format!("{fname}::impl {t}{targs} for {self_m}")
            }
            None => format!("{fname}::impl {self_m}"),
        };
        if trait_name.as_deref() == Some("Arbitrary") {
            // functions over the external crate's `Unstructured`: emit/arb.rs
            self.translate_arbitrary_impl(fname, im, &qual);
            return;
        }
        if trait_name.as_deref() == Some("PartialEq") {
            // the crate's own `==`: emit/peq.rs
            self.translate_partial_eq_impl(fname, im, sub, &qual);
            return;
        }
        if let Some(t) = trait_name.as_deref() {
            if t == "AbsDiffEq" || t == "RelativeEq" {
                // `default_epsilon` / `default_max_relative` (skipped by every route below): emit/peq.rs
                self.translate_approx_defaults(fname, im, sub, t, &qual);
            }
        }
        let is_loop_type = LOOP_TYPES.contains(&base.as_str());
        let hand_trait = trait_name.as_ref().map(|t| HAND_TRAITS.contains(&t.as_str())).unwrap_or(false);
        if HAND_TYPES.contains(&base.as_str()) || (is_loop_type && hand_trait) {
            // one inventory line per method so that the hash is per function
            for ii in &im.items {
                if let ImplItem::Fn(f) = ii {
                    let n = f.sig.ident.to_string();
                    if SKIPPED_METHODS.contains(&n.as_str()) {
                        continue;
                    }
                    self.record(format!("{qual}::{n}"), fname, "hand", "loops / slices / hidden state".into(), f.to_token_stream().to_string(), "", "");
                }
            }
            return;
        }
        let Some(trait_name) = trait_name else {
            // inherent impl
            for ii in &im.items {
                if let ImplItem::Fn(f) = ii {
                    let n = f.sig.ident.to_string();
                    let ftoks = f.to_token_stream().to_string();
                    let q = format!("{qual}::{n}");
                    let is_state_type = STATE_TYPES.contains(&base.as_str());
                    if base == "Segment" || is_loop_type || is_state_type {
                        // iterator adaptors with captured state, slices, …: loop subset
                        let lean_file = if is_state_type { format!("{module}/Evaluator") } else { format!("{module}/Loops") };
                        if is_state_type && !self.chunks.contains_key(&lean_file) {
                            match self.render_view_struct(&base) {
                                Ok(decl) => self.push_chunk_ranked(&lean_file, 0, decl),
                                Err(e) => self.push_chunk_ranked(&lean_file, 0, format!("-- struct {base}: {e}\n")),
                            }
                        }
                        let ln = format!("{base}.{}", lean_ident(&n));
                        let ret = match &f.sig.output {
                            ReturnType::Type(_, t) => self.sort_of_type(t, &TyCtx::default()),
                            _ => Sort::Other,
                        };
                        let r = self.with_opt_retry(|opt| self.translate_inherent_fn(module, im, f, opt));
                        let mut lf = loops::LoopFn { lean: ln.clone(), ok: false, fallible: false, ret };
                        match r {
                            Ok((text, fallible)) => {
                                // functions of the element type are callees of the impls of the loop types
                                self.push_chunk_ranked(&lean_file, if is_loop_type || is_state_type { 300 } else { 5 }, text);
                                self.tags.entry(lean_file.clone()).or_default().push(ln.clone());
                                self.record(q, fname, "translated", String::new(), ftoks, &lean_file, &ln);
                                lf.ok = true;
                                lf.fallible = fallible;
                            }
                            Err(e) => self.record(q, fname, "unsupported", e, ftoks, &lean_file, ""),
                        }
                        self.loop_fns.insert((base.clone(), n.clone()), lf);
                        continue;
                    }
                    let lean_file = format!("{module}/Fns");
                    match self.translate_inherent_fn(module, im, f, false) {
                        Ok(text) => {
                            self.push_chunk(&lean_file, text);
                            self.tags.entry(lean_file.clone()).or_default().push(format!("{base}.{}", lean_ident(&n)));
                            self.record(q, fname, "translated", String::new(), ftoks, &lean_file, &format!("{base}.{}", lean_ident(&n)));
                        }
                        Err(e) => self.record(q, fname, "unsupported", e, ftoks, &lean_file, ""),
                    }
                }
            }
            return;
        };
        if is_loop_type {
            self.translate_loop_trait_impl(fname, im, sub, &trait_name, &qual);
            return;
        }
        let group = match trait_name.as_str() {
            "Evaluate" => "Evaluate",
            "HasDerivative" | "Translate" | "HasIntegral" => "Calculus",
            "Mul" | "MulAssign" | "Neg" | "Add" | "Sub" | "Default" => "Ops",
            "AbsDiffEq" | "RelativeEq" => "Approx",
            _ => "Other",
        };
        let lean_file = format!("{module}/{group}");
        let inst_name = format!("inst_{trait_name}_{self_m}");
        match self.translate_trait_impl(module, sub, im, &trait_name, &inst_name) {
            Ok((text, tagged)) => {
                self.tags.entry(lean_file.clone()).or_default().extend(tagged);
                let mut rank = match trait_name.as_str() {
                    // (the same table is in `trait_rank`)
                    "Evaluate" => 10,
                    "Translate" => 20,
                    "HasDerivative" => 30,
                    "Mul" => 40,
                    "MulAssign" => 50,
                    "Neg" => 60,
                    "Add" => 70,
                    "Sub" => 80,
                    "Default" => 90,
                    "AbsDiffEq" => 100,
                    "RelativeEq" => 110,
                    "HasIntegral" => 120,
                    _ => 200,
                };
                if matches!(&*im.self_ty, Type::Reference(_)) {
                    rank += 5;
                }
                self.push_chunk_ranked(&lean_file, rank, text);
                self.record(qual, fname, "translated", String::new(), toks, &lean_file, &inst_name);
            }
            Err(e) => self.record(qual, fname, "unsupported", e, toks, &lean_file, ""),
        }
    }

    // ---------------------------------------------------------------- headers

    /// returns (implicit type binders, instance binders, tcx)
    fn generics_to_binders(&self, g: &Generics, self_ty: Option<&Type>) -> R<(Vec<String>, Vec<String>, TyCtx)> {
        let mut tcx = TyCtx::default();
        let mut tyvars: Vec<String> = vec![];
        let mut insts: Vec<String> = vec![];
        let self_toks = self_ty.map(|t| t.to_token_stream().to_string()).unwrap_or_default();
        let self_idents: BTreeSet<String> =
            self_toks.split(|c: char| !(c.is_alphanumeric() || c == '_')).map(|s| s.to_string()).collect();
        let mut preds: Vec<(Type, Vec<TypeParamBound>)> = vec![];
        // `I: IntoIterator<Item = X>` (inline or in the where clause): `I` is `List X`, no binder
        let mut iter_params: Vec<(String, Type)> = vec![];
        {
            let mut note = |n: String, bounds: &mut dyn Iterator<Item = &TypeParamBound>| {
                for b in bounds {
                    if let TypeParamBound::Trait(tb) = b {
                        if let Some(item) = loops::iterator_item(tb) {
                            if !iter_params.iter().any(|(m, _)| *m == n) {
                                iter_params.push((n.clone(), item));
                            }
                        }
                    }
                }
            };
            for p in &g.params {
                if let GenericParam::Type(t) = p {
                    note(t.ident.to_string(), &mut t.bounds.iter());
                }
            }
            if let Some(w) = &g.where_clause {
                for p in &w.predicates {
                    if let WherePredicate::Type(pt) = p {
                        if let Type::Path(tp) = &pt.bounded_ty {
                            if tp.qself.is_none() {
                                if let Some(id) = tp.path.get_ident() {
                                    note(id.to_string(), &mut pt.bounds.iter());
                                }
                            }
                        }
                    }
                }
            }
        }
        let is_iter_param = |n: &str| iter_params.iter().any(|(m, _)| m == n);
        for p in &g.params {
            match p {
                GenericParam::Type(t) if is_iter_param(&t.ident.to_string()) => {}
                GenericParam::Type(t) => {
                    let n = t.ident.to_string();
                    if self_ty.is_some() && !self_idents.contains(&n) {
                        // a parameter that is not part of the Self type (the `Scalar` of `Mul<Scalar>`):
                        // specialised to f64, the only instantiation that exists in the crate
                        tcx.generics.insert(n.clone(), "F".into());
                    } else {
                        tcx.generics.insert(n.clone(), n.clone());
                        tyvars.push(n.clone());
                    }
                    if !t.bounds.is_empty() {
                        let ty: Type = parse_str(&n).map_err(|e| e.to_string())?;
                        preds.push((ty, t.bounds.iter().cloned().collect()));
                    }
                }
                GenericParam::Lifetime(_) => {}
                GenericParam::Const(_) => return Err("const generics".into()),
            }
        }
        if let Some(w) = &g.where_clause {
            for p in &w.predicates {
                match p {
                    WherePredicate::Type(pt) => preds.push((pt.bounded_ty.clone(), pt.bounds.iter().cloned().collect())),
                    WherePredicate::Lifetime(_) => {}
                    _ => return Err("unsupported where predicate".into()),
                }
            }
        }
        for (n, item) in &iter_params {
            let it = ty_to_lean(item, &tcx, &self.structs)?;
            tcx.generics.insert(n.clone(), format!("(List {it})"));
        }
        // pass 1: plain parameters; pass 2: projections such as `T::IntegralOf: Translate`
        for pass in 0..2 {
            for (bty, bounds) in &preds {
                if !bounds.iter().any(|b| matches!(b, TypeParamBound::Trait(_))) {
                    continue; // lifetime bounds only
                }
                if is_iter_param(&bty.to_token_stream().to_string()) {
                    continue;
                }
                let is_plain = matches!(bty, Type::Path(p) if p.qself.is_none() && p.path.segments.len() == 1);
                if (pass == 0) != is_plain {
                    continue;
                }
                let subject_name = bty.to_token_stream().to_string().replace(' ', "");
                if let Some(m) = tcx.generics.get(&subject_name) {
                    if m == "F" {
                        continue; // bounds on the specialised scalar parameter hold for f64
                    }
                }
                let subject = ty_to_lean(bty, &tcx, &self.structs)?;
                for b in bounds {
                    let TypeParamBound::Trait(tb) = b else { continue };
                    let seg = tb.path.segments.last().unwrap();
                    let tn = seg.ident.to_string();
                    // generic args / assoc bindings of the bound
                    let mut targs: Vec<Type> = vec![];
                    let mut assoc: BTreeMap<String, Type> = BTreeMap::new();
                    if let PathArguments::AngleBracketed(ab) = &seg.arguments {
                        for a in &ab.args {
                            match a {
                                GenericArgument::Type(t) => targs.push(t.clone()),
                                GenericArgument::AssocType(at) => {
                                    assoc.insert(at.ident.to_string(), at.ty.clone());
                                }
                                GenericArgument::Lifetime(_) => {}
                                _ => return Err(format!("unsupported argument in bound {tn}")),
                            }
                        }
                    }
                    let mut outvar = |tcx: &mut TyCtx, tyvars: &mut Vec<String>, assoc_name: &str| -> R<String> {
                        if let Some(t) = assoc.get(assoc_name) {
                            return ty_to_lean(t, tcx, &self.structs);
                        }
                        let key = (subject_name.clone(), assoc_name.to_string());
                        if let Some(v) = tcx.param_assoc.get(&key) {
                            return Ok(v.clone());
                        }
                        let v = format!("{}_{}", subject_name.replace("::", "_"), assoc_name);
                        tyvars.push(v.clone());
                        tcx.param_assoc.insert(key, v.clone());
                        Ok(v)
                    };
                    match tn.as_str() {
                        "Copy" | "Clone" | "PartialEq" | "Sized" | "Debug" => {}
                        "Evaluate" => insts.push(format!("[Evaluate {subject} F]")),
                        "Translate" => insts.push(format!("[Translate {subject} F]")),
                        "Default" => insts.push(format!("[PDefault {subject}]")),
                        "HasDerivative" => {
                            let o = outvar(&mut tcx, &mut tyvars, "DerivativeOf")?;
                            insts.push(format!("[HasDerivative {subject} {o}]"));
                        }
                        "HasIntegral" => {
                            let o = outvar(&mut tcx, &mut tyvars, "IntegralOf")?;
                            insts.push(format!("[HasIntegral {subject} (Knot F) {o}]"));
                            // supertrait clause of the trait declaration: `Self::IntegralOf: Evaluate`
                            insts.push(format!("[Evaluate {o} F]"));
                        }
                        "Mul" | "Add" | "Sub" => {
                            let rhs = match targs.first() {
                                Some(t) => ty_to_lean(t, &tcx, &self.structs)?,
                                None => subject.clone(),
                            };
                            let o = outvar(&mut tcx, &mut tyvars, "Output")?;
                            insts.push(format!("[P{tn} {subject} {rhs} {o}]"));
                        }
                        "Neg" => {
                            let o = outvar(&mut tcx, &mut tyvars, "Output")?;
                            insts.push(format!("[PNeg {subject} {o}]"));
                        }
                        "MulAssign" => {
                            let rhs = match targs.first() {
                                Some(t) => ty_to_lean(t, &tcx, &self.structs)?,
                                None => subject.clone(),
                            };
                            insts.push(format!("[PMulAssign {subject} {rhs}]"));
                        }
                        "AbsDiffEq" => insts.push(format!("[AbsDiffEq {subject} F]")),
                        "RelativeEq" => insts.push(format!("[RelativeEq {subject} F]")),
                        "Arbitrary" => insts.push(format!("[Arb.ArbitraryT {subject}]")),
                        other => return Err(format!("unsupported trait bound {other}")),
                    }
                }
            }
        }
        Ok((tyvars, insts, tcx))
    }

    fn binder_text(tyvars: &[String], insts: &[String]) -> String {
        let mut s = String::new();
        if !tyvars.is_empty() {
            s.push_str(&format!("{{{} : Type}} ", tyvars.join(" ")));
        }
        let mut seen = BTreeSet::new();
        for i in insts {
            if seen.insert(i.clone()) {
                s.push_str(i);
                s.push(' ');
            }
        }
        s.push_str("[FloatLike F]");
        s
    }

    fn params_to_lean(&self, sig: &Signature, cx: &mut BodyCx) -> R<(Vec<String>, bool, Vec<(String, String)>)> {
        // returns (binders, self_is_mut_ref, mutable reference params (name, type))
        let mut binders = vec![];
        let mut self_mut_ref = false;
        let mut mut_params = vec![];
        for (i, a) in sig.inputs.iter().enumerate() {
            match a {
                FnArg::Receiver(r) => {
                    let st = cx.tcx.self_ty.clone().ok_or("receiver outside impl")?;
                    binders.push(format!("(self : {st})"));
                    let ss = cx.tcx.self_struct.clone().map(Sort::Struct).unwrap_or(Sort::Other);
                    cx.declare_s("self", ss);
                    if r.reference.is_some() && r.mutability.is_some() {
                        self_mut_ref = true;
                    }
                }
                FnArg::Typed(pt) => {
                    let name = match &*pt.pat {
                        Pat::Ident(pi) => pi.ident.to_string(),
                        Pat::Wild(_) => format!("_arg{i}"),
                        _ => return Err("unsupported parameter pattern".into()),
                    };
                    let ty = ty_to_lean(&pt.ty, &cx.tcx, &self.structs)?;
                    if let Type::Reference(r) = &*pt.ty {
                        if r.mutability.is_some() {
                            mut_params.push((lean_ident(&name), ty.clone()));
                        }
                    }
                    binders.push(format!("({} : {ty})", lean_ident(&name)));
                    let sort = self.sort_of_type(&pt.ty, &cx.tcx);
                    cx.declare_s(&name, sort);
                }
            }
        }
        Ok((binders, self_mut_ref, mut_params))
    }

    fn trait_rank(trait_name: &str) -> u32 {
        match trait_name {
            "Evaluate" => 10,
            "Translate" => 20,
            "HasDerivative" => 30,
            "Mul" => 40,
            "MulAssign" => 50,
            "Neg" => 60,
            "Add" => 70,
            "Sub" => 80,
            "Default" => 90,
            "AbsDiffEq" => 100,
            "RelativeEq" => 110,
            "HasIntegral" => 120,
            _ => 200,
        }
    }

    /// `f(false)`; if the body turns out to contain an operation that can panic, `f(true)` (Option mode)
    fn with_opt_retry<T>(&self, f: impl Fn(bool) -> R<T>) -> R<(T, bool)> {
        match f(false) {
            Err(e) if e == loops::NEEDS_OPTION => match f(true) {
                Err(e) if e == loops::NEEDS_OPTION => Err("internal: Option mode requested twice".into()),
                r => r.map(|t| (t, true)),
            },
            r => r.map(|t| (t, false)),
        }
    }

    /// A trait impl of a loop type.  Every method is translated on its own (one inventory line per
    /// method); the instance is emitted only if every method is translated and none can panic.
    fn translate_loop_trait_impl(&mut self, fname: &str, im: &ItemImpl, sub: &[String], trait_name: &str, qual: &str) {
        let module = module_name(fname);
        let self_m = mangle(&im.self_ty);
        let inst_name = format!("inst_{trait_name}_{self_m}");
        let lean_file = if MERGE_TRAITS.contains(&trait_name) { format!("{module}/Merge") } else { format!("{module}/Loops") };
        let all: Vec<&ImplItemFn> = im
            .items
            .iter()
            .filter_map(|ii| if let ImplItem::Fn(f) = ii { Some(f) } else { None })
            .filter(|f| !SKIPPED_METHODS.contains(&f.sig.ident.to_string().as_str()))
            .collect();
        let prep = self.trait_impl_header(im, trait_name).and_then(|h| Self::method_order(im).map(|mo| (h, mo)));
        let (hdr, (methods, order)) = match prep {
            Ok(x) => x,
            Err(e) => {
                for f in all {
                    self.record(format!("{qual}::{}", f.sig.ident), fname, "unsupported", e.clone(), f.to_token_stream().to_string(), &lean_file, "");
                }
                return;
            }
        };
        let mut sib = Siblings::default();
        let mut defs: Vec<String> = vec![];
        let mut fields = vec![String::new(); methods.len()];
        let mut tagged: Vec<String> = vec![];
        // per method: Ok(fallible) / Err(reason)
        let mut results: Vec<Option<R<bool>>> = vec![None; methods.len()];
        for &i in &order {
            let f = methods[i];
            let n = f.sig.ident.to_string();
            let lean_method = Self::lean_method_name(&n);
            let def_name = format!("{inst_name}.{lean_method}");
            match self.with_opt_retry(|opt| self.translate_method(module, sub, &hdr, &inst_name, f, &sib, opt)) {
                Ok((text, fallible)) => {
                    defs.push(text);
                    fields[i] = format!("  {lean_method} := {def_name}");
                    sib.defs.insert(n.clone(), def_name.clone());
                    if fallible {
                        sib.opt.insert(n.clone());
                    }
                    tagged.push(def_name);
                    results[i] = Some(Ok(fallible));
                }
                Err(e) => {
                    sib.bad.insert(n.clone());
                    results[i] = Some(Err(e));
                }
            }
        }
        let complete = results.iter().all(|r| matches!(r, Some(Ok(false))));
        let mut text = defs.join("\n");
        if complete {
            let is_ref_impl = matches!(&*im.self_ty, Type::Reference(_));
            let prio = if is_ref_impl { " (priority := low)" } else { "" };
            text.push_str(&format!("\ninstance{prio} {inst_name} {} : {} where\n{}\n", hdr.binders_txt, hdr.class_app, fields.join("\n")));
            tagged.insert(0, inst_name.clone());
        } else if !defs.is_empty() {
            let mut why = vec![];
            for (i, r) in results.iter().enumerate() {
                let n = methods[i].sig.ident.to_string();
                match r {
                    Some(Ok(true)) => why.push(format!("`{n}` can panic (Option-valued)")),
                    Some(Err(_)) => why.push(format!("`{n}` is not translated")),
                    _ => {}
                }
            }
            text.push_str(&format!("\n-- no instance `{} : {}`: {}\n", inst_name, hdr.class_app, why.join(", ")));
        }
        if !defs.is_empty() {
            let mut rank = Self::trait_rank(trait_name);
            if matches!(&*im.self_ty, Type::Reference(_)) {
                rank += 5;
            }
            self.push_chunk_ranked(&lean_file, rank, text);
            self.tags.entry(lean_file.clone()).or_default().extend(tagged);
        }
        // inventory: one line per method, in source order
        for (i, f) in methods.iter().enumerate() {
            let n = f.sig.ident.to_string();
            let ftoks = f.to_token_stream().to_string();
            let q = format!("{qual}::{n}");
            match results[i].clone() {
                Some(Ok(_)) => {
                    let ln = format!("{inst_name}.{}", Self::lean_method_name(&n));
                    self.record(q, fname, "translated", String::new(), ftoks, &lean_file, &ln);
                }
                Some(Err(e)) => self.record(q, fname, "unsupported", e, ftoks, &lean_file, ""),
                None => self.record(q, fname, "unsupported", "internal: method not visited".into(), ftoks, &lean_file, ""),
            }
        }
    }

    /// binders, type context and class application of a trait impl
    fn trait_impl_header(&self, im: &ItemImpl, trait_name: &str) -> R<ImplHeader> {
        let (tyvars, insts, mut tcx) = self.generics_to_binders(&im.generics, Some(&im.self_ty))?;
        let self_lean = ty_to_lean(&im.self_ty, &tcx, &self.structs)?;
        tcx.self_ty = Some(self_lean.clone());
        tcx.self_struct = Some(base_type_name(&im.self_ty));
        for ii in &im.items {
            if let ImplItem::Type(t) = ii {
                let l = ty_to_lean(&t.ty, &tcx, &self.structs)?;
                tcx.self_assoc.insert(t.ident.to_string(), l);
            }
        }
        let tpath = &im.trait_.as_ref().unwrap().1;
        let mut targs: Vec<String> = vec![];
        if let PathArguments::AngleBracketed(ab) = &tpath.segments.last().unwrap().arguments {
            for a in &ab.args {
                if let GenericArgument::Type(t) = a {
                    targs.push(ty_to_lean(t, &tcx, &self.structs)?);
                }
            }
        }
        let assoc = |n: &str| -> R<String> { tcx.self_assoc.get(n).cloned().ok_or(format!("missing associated type {n}")) };
        let class_app = match trait_name {
            "Evaluate" => format!("Evaluate {self_lean} F"),
            "Translate" => format!("Translate {self_lean} F"),
            "HasDerivative" => format!("HasDerivative {self_lean} {}", assoc("DerivativeOf")?),
            "HasIntegral" => format!("HasIntegral {self_lean} (Knot F) {}", assoc("IntegralOf")?),
            "Mul" | "Add" | "Sub" => {
                let rhs = targs.first().cloned().unwrap_or(self_lean.clone());
                format!("P{trait_name} {self_lean} {rhs} {}", assoc("Output")?)
            }
            "Neg" => format!("PNeg {self_lean} {}", assoc("Output")?),
            "MulAssign" => {
                let rhs = targs.first().cloned().unwrap_or(self_lean.clone());
                format!("PMulAssign {self_lean} {rhs}")
            }
            "AbsDiffEq" => {
                if let Some(e) = tcx.self_assoc.get("Epsilon") {
                    if e != "F" {
                        return Err(format!("Epsilon = {e}, expected f64"));
                    }
                }
                format!("AbsDiffEq {self_lean} F")
            }
            "RelativeEq" => format!("RelativeEq {self_lean} F"),
            "Default" => format!("PDefault {self_lean}"),
            "PartialEq" => format!("PEq {self_lean}"),
            other => return Err(format!("unsupported trait {other}")),
        };
        let binders_txt = Self::binder_text(&tyvars, &insts);
        Ok(ImplHeader { tcx, self_lean, class_app, binders_txt })
    }

    /// the methods of an impl (without the skipped boiler-plate) and an order in which callees come first
    fn method_order<'a>(im: &'a ItemImpl) -> R<(Vec<&'a ImplItemFn>, Vec<usize>)> {
        // Every method becomes a standalone def first, so that a method can call a sibling through
        // `self` (Rust allows it; a Lean instance cannot refer to itself).  Callees are emitted first.
        let mut methods: Vec<&ImplItemFn> = vec![];
        for ii in &im.items {
            let ImplItem::Fn(f) = ii else { continue };
            if SKIPPED_METHODS.contains(&f.sig.ident.to_string().as_str()) {
                continue;
            }
            methods.push(f);
        }
        let names: Vec<String> = methods.iter().map(|f| f.sig.ident.to_string()).collect();
        let mut order: Vec<usize> = vec![];
        let mut placed = vec![false; methods.len()];
        for _round in 0..=methods.len() {
            for (i, f) in methods.iter().enumerate() {
                if placed[i] {
                    continue;
                }
                let body = f.block.to_token_stream().to_string();
                let waits = names.iter().enumerate().any(|(j, n)| j != i && !placed[j] && body.contains(&format!("self . {n} (")));
                if !waits {
                    placed[i] = true;
                    order.push(i);
                }
            }
        }
        if order.len() != methods.len() {
            return Err("mutually recursive methods".into());
        }
        Ok((methods, order))
    }

    fn lean_method_name(n: &str) -> String {
        match n {
            "mul_assign" => "mulAssign".to_string(),
            "abs_diff_eq" => "absDiffEq".to_string(),
            "relative_eq" => "relativeEq".to_string(),
            "eq" => "peq".to_string(),
            other => lean_ident(other),
        }
    }

    /// one method of a trait impl as a standalone def `<inst_name>.<method>`; `opt` = Option-valued
    fn translate_method(&self, module: &str, sub: &[String], hdr: &ImplHeader, inst_name: &str, f: &ImplItemFn, sib: &Siblings, opt: bool) -> R<String> {
        let lean_method = Self::lean_method_name(&f.sig.ident.to_string());
        let mut cx = BodyCx::new(sib.defs.clone(), hdr.tcx.clone(), module, sub);
        cx.opt_siblings = sib.opt.clone();
        cx.bad_siblings = sib.bad.clone();
        cx.opt_mode = opt;
        cx.peq_eq = hdr.class_app.starts_with("PEq ");
        let (binders, self_mut, mut_params) = self.params_to_lean(&f.sig, &mut cx)?;
        if !mut_params.is_empty() {
            return Err("&mut parameter in trait method".into());
        }
        let mut ret = if self_mut {
            hdr.self_lean.clone()
        } else {
            match &f.sig.output {
                ReturnType::Default => return Err("method without result".into()),
                ReturnType::Type(_, t) => ty_to_lean(t, &cx.tcx, &self.structs)?,
            }
        };
        if opt {
            ret = format!("(Option {ret})");
        }
        let body = self.fn_body(&f.block, &mut cx, self_mut, &[])?;
        let def_name = format!("{inst_name}.{lean_method}");
        Ok(format!("def {def_name} {} {} : {ret} :=\n{}\n", hdr.binders_txt, binders.join(" "), indent(&body, 2)))
    }

    fn translate_trait_impl(&self, module: &str, sub: &[String], im: &ItemImpl, trait_name: &str, inst_name: &str) -> R<(String, Vec<String>)> {
        let hdr = self.trait_impl_header(im, trait_name)?;
        let (methods, order) = Self::method_order(im)?;
        let mut sib = Siblings::default();
        let mut defs = vec![];
        let mut fields = vec![String::new(); methods.len()];
        let mut tagged = vec![inst_name.to_string()];
        for &i in &order {
            let f = methods[i];
            let n = f.sig.ident.to_string();
            let lean_method = Self::lean_method_name(&n);
            let def_name = format!("{inst_name}.{lean_method}");
            defs.push(self.translate_method(module, sub, &hdr, inst_name, f, &sib, false)?);
            fields[i] = format!("  {lean_method} := {def_name}");
            sib.defs.insert(n, def_name.clone());
            tagged.push(def_name);
        }
        let (binders_txt, class_app) = (&hdr.binders_txt, &hdr.class_app);
        let is_ref_impl = matches!(&*im.self_ty, Type::Reference(_));
        let prio = if is_ref_impl { " (priority := low)" } else { "" };
        Ok((format!("{}\ninstance{prio} {inst_name} {binders_txt} : {class_app} where\n{}\n", defs.join("\n"), fields.join("\n")), tagged))
    }

    fn translate_inherent_fn(&self, module: &str, im: &ItemImpl, f: &ImplItemFn, opt: bool) -> R<String> {
        // the generics of the method are added to those of the impl
        let g = merge_generics(&im.generics, &f.sig.generics);
        let (tyvars, insts, mut tcx) = self.generics_to_binders(&g, Some(&im.self_ty))?;
        let self_lean = ty_to_lean(&im.self_ty, &tcx, &self.structs)?;
        tcx.self_ty = Some(self_lean);
        tcx.self_struct = Some(base_type_name(&im.self_ty));
        let base = base_type_name(&im.self_ty);
        let mut cx = BodyCx::new(BTreeMap::new(), tcx, module, &[]);
        cx.opt_mode = opt;
        let (binders, self_mut, mut_params) = self.params_to_lean(&f.sig, &mut cx)?;
        if !mut_params.is_empty() {
            return Err("&mut parameter".into());
        }
        let mut ret = match &f.sig.output {
            ReturnType::Default => "Unit".to_string(),
            ReturnType::Type(_, t) => ty_to_lean(t, &cx.tcx, &self.structs)?,
        };
        // `fn f(&mut self, ..) -> R`: the new `self` is returned next to the result, like a `&mut` parameter
        let valued_mut = self_mut && !matches!(f.sig.output, ReturnType::Default);
        let self_out: Vec<(String, String)> = if valued_mut { vec![("self".to_string(), cx.tcx.self_ty.clone().unwrap_or_default())] } else { vec![] };
        if valued_mut {
            ret = format!("({ret} × {})", self_out[0].1);
        }
        if opt {
            ret = format!("(Option {ret})");
        }
        let body = self.fn_body(&f.block, &mut cx, self_mut && !valued_mut, &self_out)?;
        let b = Self::binder_text(&tyvars, &insts);
        Ok(format!("def {base}.{} {b} {} : {ret} :=\n{}\n", lean_ident(&f.sig.ident.to_string()), binders.join(" "), indent(&body, 2)))
    }

    fn translate_free_fn(&self, module: &str, sub: &[String], sig: &Signature, block: &Block, opt: bool) -> R<String> {
        let (tyvars, insts, tcx) = self.generics_to_binders(&sig.generics, None)?;
        let mut cx = BodyCx::new(BTreeMap::new(), tcx, module, sub);
        cx.opt_mode = opt;
        let (binders, _self_mut, mut_params) = self.params_to_lean(sig, &mut cx)?;
        let mut ret = match &sig.output {
            ReturnType::Default => "Unit".to_string(),
            ReturnType::Type(_, t) => ty_to_lean(t, &cx.tcx, &self.structs)?,
        };
        if !mut_params.is_empty() {
            // `&mut` parameters are returned next to the result
            let mut parts = vec![ret.clone()];
            parts.extend(mut_params.iter().map(|(_, t)| t.clone()));
            ret = format!("({})", parts.join(" × "));
        }
        if opt {
            ret = format!("(Option {ret})");
        }
        let body = self.fn_body(block, &mut cx, false, &mut_params)?;
        let b = Self::binder_text(&tyvars, &insts);
        Ok(format!("def {} {b} {} : {ret} :=\n{}", lean_ident(&sig.ident.to_string()), binders.join(" "), indent(&body, 2)))
    }

    // ---------------------------------------------------------------- bodies

    fn fn_body(&self, block: &Block, cx: &mut BodyCx, self_mut: bool, mut_params: &[(String, String)]) -> R<String> {
        // in Option mode a plain result is produced by `expr_opt` (branches stay branches)
        let tail_opt = cx.opt_mode && !self_mut && mut_params.is_empty();
        cx.allow_return = !self_mut;
        cx.ret_extra = mut_params.iter().map(|(n, _)| n.clone()).collect();
        let (mut lines, tail) = self.block_lines(&block.stmts, cx, self_mut, tail_opt)?;
        let result = if self_mut {
            if let Some(t) = tail {
                return Err(format!("value-producing tail `{t}` in a &mut self method"));
            }
            "self".to_string()
        } else {
            tail.ok_or("function body has no tail expression")?
        };
        let result = if mut_params.is_empty() {
            result
        } else {
            let mut parts = vec![result];
            parts.extend(mut_params.iter().map(|(n, _)| n.clone()));
            format!("({})", parts.join(", "))
        };
        if cx.opt_mode && !tail_opt {
            lines.push(format!("some ({result})"));
        } else {
            lines.push(result);
        }
        Ok(lines.join("\n"))
    }

    /// statements of a block → `let` lines, plus the tail expression if there is one
    fn block_lines(&self, stmts: &[Stmt], cx: &mut BodyCx, unit_block: bool, tail_opt: bool) -> R<(Vec<String>, Option<String>)> {
        let mut lines = vec![];
        let mut tail = None;
        for (i, st) in stmts.iter().enumerate() {
            let last = i + 1 == stmts.len();
            match st {
                Stmt::Local(l) => {
                    let init = l.init.as_ref().ok_or("let without initialiser")?;
                    if init.diverge.is_some() {
                        return Err("let-else".into());
                    }
                    self.let_binding(&l.pat, &init.expr, cx, &mut lines)?;
                }
                Stmt::Item(Item::Const(c)) => {
                    let ty = ty_to_lean(&c.ty, &cx.tcx, &self.structs)?;
                    let e = self.expr(&c.expr, cx)?;
                    self.flush(cx, &mut lines);
                    let n = c.ident.to_string();
                    cx.declare(&n);
                    lines.push(format!("let {} : {ty} := {e};", lean_ident(&n)));
                }
                Stmt::Item(_) => return Err("nested item".into()),
                Stmt::Macro(m) => self.stmt_macro(m, cx, &mut lines)?,
                Stmt::Expr(e, semi) => {
                    if last && semi.is_none() && !unit_block {
                        if tail_opt {
                            tail = Some(self.expr_opt(e, cx)?);
                        } else {
                            let t = self.expr(e, cx)?;
                            self.flush(cx, &mut lines);
                            tail = Some(t);
                        }
                    } else if last && semi.is_none() && unit_block {
                        // `self.0 += v` without semicolon as the unit tail of a &mut self method
                        self.effect_stmt(e, cx, &mut lines)?;
                    } else {
                        self.effect_stmt(e, cx, &mut lines)?;
                    }
                }
            }
        }
        Ok((lines, tail))
    }

    fn let_binding(&self, pat: &Pat, init: &Expr, cx: &mut BodyCx, lines: &mut Vec<String>) -> R<()> {
        match pat {
            Pat::Ident(pi) => {
                if pi.by_ref.is_some() || pi.subpat.is_some() {
                    return Err("ref / @ pattern".into());
                }
                let sort = self.sort_of(init, cx);
                let e = match strip_paren(init) {
                    Expr::Block(b) if b.label.is_none() && cx.opt_mode => self.block_initialiser(&b.block, cx, lines)?,
                    ctrl if Self::is_ctrl(ctrl) => self.ctrl_value(ctrl, cx, lines)?,
                    _ => self.expr(init, cx)?,
                };
                self.flush(cx, lines);
                let n = pi.ident.to_string();
                cx.declare_s(&n, sort);
                lines.push(format!("let {} := {e};", lean_ident(&n)));
                Ok(())
            }
            Pat::Type(pt) => {
                let Pat::Ident(pi) = &*pt.pat else { return Err("typed non-identifier pattern".into()) };
                let ty = ty_to_lean(&pt.ty, &cx.tcx, &self.structs)?;
                let e = self.expr(init, cx)?;
                self.flush(cx, lines);
                let n = pi.ident.to_string();
                let sort = self.sort_of_type(&pt.ty, &cx.tcx);
                cx.declare_s(&n, sort);
                lines.push(format!("let {} : {ty} := {e};", lean_ident(&n)));
                Ok(())
            }
            Pat::Tuple(pt) => {
                let init = strip_paren(init);
                let Expr::Tuple(et) = init else { return self.let_pair(pt, init, cx, lines) };
                if et.elems.len() != pt.elems.len() {
                    return Err("tuple arity".into());
                }
                let mut names = vec![];
                for p in &pt.elems {
                    let Pat::Ident(pi) = p else { return Err("nested pattern in tuple".into()) };
                    names.push(pi.ident.to_string());
                }
                // all components are evaluated before any name is bound
                let mut vals = vec![];
                for e in &et.elems {
                    vals.push(self.expr(e, cx)?);
                }
                self.flush(cx, lines);
                for (i, v) in vals.iter().enumerate() {
                    for n in &names[..i] {
                        if ident_occurs(v, &lean_ident(n)) {
                            return Err("tuple let whose later component mentions an earlier bound name".into());
                        }
                    }
                }
                for (n, v) in names.iter().zip(vals) {
                    cx.declare(n);
                    lines.push(format!("let {} := {v};", lean_ident(n)));
                }
                Ok(())
            }
            Pat::Struct(ps) => self.let_struct(ps, init, cx, lines),
            _ => Err("unsupported let pattern".into()),
        }
    }

    fn parse_place(&self, e: &Expr) -> R<(String, Vec<PathElem>)> {
        match e {
            Expr::Path(p) if p.path.segments.len() == 1 && p.qself.is_none() => Ok((p.path.segments[0].ident.to_string(), vec![])),
            Expr::Paren(p) => self.parse_place(&p.expr),
            Expr::Group(g) => self.parse_place(&g.expr),
            Expr::Unary(u) if matches!(u.op, UnOp::Deref(_)) => self.parse_place(&u.expr),
            Expr::Field(f) => {
                let (r, mut p) = self.parse_place(&f.base)?;
                let name = match &f.member {
                    Member::Named(i) => lean_ident(&i.to_string()),
                    Member::Unnamed(ix) => format!("_{}", ix.index),
                };
                p.push(PathElem::Field(name));
                Ok((r, p))
            }
            Expr::Index(ix) => {
                let (r, mut p) = self.parse_place(&ix.expr)?;
                let n = array_len(&ix.index).ok_or("non-constant index")?;
                p.push(PathElem::Field(format!("a{n}")));
                Ok((r, p))
            }
            _ => Err("unsupported place expression".into()),
        }
    }

    fn set_place(&self, place: &Expr, cx: &mut BodyCx, lines: &mut Vec<String>, newval: impl FnOnce(&str) -> String) -> R<()> {
        let (root, path) = self.parse_place(place)?;
        self.note_mutation(cx, &root)?;
        let root_l = lean_ident(&root);
        let mut cur = root_l.clone();
        let mut prefixes = vec![cur.clone()];
        for PathElem::Field(f) in &path {
            cur = format!("{cur}.{f}");
            prefixes.push(cur.clone());
        }
        let nv = newval(&cur);
        // nest from the inside out
        let mut val = nv;
        for (i, PathElem::Field(f)) in path.iter().enumerate().rev() {
            val = format!("{{ {} with {f} := {val} }}", prefixes[i]);
        }
        lines.push(format!("let {root_l} := {val};"));
        Ok(())
    }

    fn effect_stmt(&self, e: &Expr, cx: &mut BodyCx, lines: &mut Vec<String>) -> R<()> {
        if self.loop_stmt(e, cx, lines)? {
            return Ok(());
        }
        match e {
            Expr::Paren(p) => self.effect_stmt(&p.expr, cx, lines),
            Expr::Assign(a) => {
                let v = self.expr(&a.right, cx)?;
                self.flush(cx, lines);
                self.set_place(&a.left, cx, lines, |_| v)
            }
            Expr::Binary(b) => {
                let cls = match b.op {
                    BinOp::AddAssign(_) => "PAddAssign.addAssign",
                    BinOp::SubAssign(_) => "PSubAssign.subAssign",
                    BinOp::MulAssign(_) => "PMulAssign.mulAssign",
                    _ => return Err("expression statement without effect".into()),
                };
                if self.sort_of(&b.left, cx) == Sort::Nat {
                    // `i += n` on usize (unbounded, see PP/Core/Iter.lean)
                    let op = match b.op {
                        BinOp::AddAssign(_) => "+",
                        BinOp::MulAssign(_) => "*",
                        _ => return Err("`-=` on usize".into()),
                    };
                    if self.sort_of(&b.right, cx) != Sort::Nat {
                        return Err("compound assignment on usize: right operand of unknown kind".into());
                    }
                    let v = self.expr(&b.right, cx)?;
                    self.flush(cx, lines);
                    return self.set_place(&b.left, cx, lines, |cur| format!("({cur} {op} {v})"));
                }
                let v = self.expr(&b.right, cx)?;
                self.flush(cx, lines);
                self.set_place(&b.left, cx, lines, |cur| format!("({cls} {cur} {v})"))
            }
            Expr::MethodCall(mc) => {
                let m = mc.method.to_string();
                if m == "for_each" {
                    return self.for_each_idiom(mc, cx, lines);
                }
                if self.mutating.contains(&m) {
                    let mut args = vec![];
                    for a in &mc.args {
                        args.push(self.expr(a, cx)?);
                    }
                    self.flush(cx, lines);
                    let f = match m.as_str() {
                        "translate" => "Translate.translate".to_string(),
                        "mul_assign" => "PMulAssign.mulAssign".to_string(),
                        other => return Err(format!("unknown mutating method {other}")),
                    };
                    return self.set_place(&mc.receiver, cx, lines, |cur| format!("({f} {cur} {})", args.join(" ")));
                }
                Err(format!("method call `{m}` used as a statement"))
            }
            _ => Err("unsupported statement".into()),
        }
    }

    /// `P.iter_mut().for_each(|x| *x op= e)` and `P.iter_mut().zip(Q.iter()).for_each(|(l, r)| *l op= r)`
    fn for_each_idiom(&self, mc: &ExprMethodCall, cx: &mut BodyCx, lines: &mut Vec<String>) -> R<()> {
        if mc.args.len() != 1 {
            return Err("for_each arity".into());
        }
        let Expr::Closure(cl) = &mc.args[0] else { return Err("for_each without closure".into()) };
        let Expr::MethodCall(inner) = &*mc.receiver else { return Err("for_each receiver".into()) };
        let body = strip_paren(&cl.body);
        let Expr::Binary(b) = body else { return Err("for_each body is not a compound assignment".into()) };
        let cls = match b.op {
            BinOp::AddAssign(_) => "PAddAssign.addAssign",
            BinOp::SubAssign(_) => "PSubAssign.subAssign",
            BinOp::MulAssign(_) => "PMulAssign.mulAssign",
            _ => return Err("for_each body is not a compound assignment".into()),
        };
        let deref_target = |e: &Expr| -> Option<String> {
            if let Expr::Unary(u) = strip_paren(e) {
                if matches!(u.op, UnOp::Deref(_)) {
                    if let Expr::Path(p) = strip_paren(&u.expr) {
                        return p.path.get_ident().map(|i| i.to_string());
                    }
                }
            }
            None
        };
        let im = inner.method.to_string();
        if im == "iter_mut" && inner.args.is_empty() {
            if cl.inputs.len() != 1 {
                return Err("closure arity".into());
            }
            let Pat::Ident(x) = &cl.inputs[0] else { return Err("closure pattern".into()) };
            let x = x.ident.to_string();
            if deref_target(&b.left) != Some(x.clone()) {
                return Err("for_each body does not update its element".into());
            }
            cx.scopes.push(BTreeMap::new());
            cx.declare(&x);
            let rhs = self.expr(&b.right, cx);
            cx.scopes.pop();
            let rhs = rhs?;
            let xl = lean_ident(&x);
            return self.set_place(&inner.receiver, cx, lines, |cur| format!("(ArrLike.map (fun {xl} => ({cls} {xl} {rhs})) {cur})"));
        }
        if im == "zip" && inner.args.len() == 1 {
            let Expr::MethodCall(lhs_it) = &*inner.receiver else { return Err("zip receiver".into()) };
            if lhs_it.method != "iter_mut" || !lhs_it.args.is_empty() {
                return Err("zip receiver is not iter_mut()".into());
            }
            let Expr::MethodCall(rhs_it) = &inner.args[0] else { return Err("zip argument".into()) };
            if rhs_it.method != "iter" || !rhs_it.args.is_empty() {
                return Err("zip argument is not iter()".into());
            }
            let q = self.expr(&rhs_it.receiver, cx)?;
            if cl.inputs.len() != 1 {
                return Err("closure arity".into());
            }
            let Pat::Tuple(pt) = &cl.inputs[0] else { return Err("closure pattern".into()) };
            if pt.elems.len() != 2 {
                return Err("closure tuple arity".into());
            }
            let (Pat::Ident(l), Pat::Ident(r)) = (&pt.elems[0], &pt.elems[1]) else { return Err("closure tuple pattern".into()) };
            let (l, r) = (l.ident.to_string(), r.ident.to_string());
            if deref_target(&b.left) != Some(l.clone()) {
                return Err("for_each body does not update its left element".into());
            }
            cx.scopes.push(BTreeMap::new());
            cx.declare(&l);
            cx.declare(&r);
            let rhs = self.expr(&b.right, cx);
            cx.scopes.pop();
            let rhs = rhs?;
            let (ll, rl) = (lean_ident(&l), lean_ident(&r));
            return self.set_place(&lhs_it.receiver, cx, lines, |cur| {
                format!("(ArrLike.zipWith (fun {ll} {rl} => ({cls} {ll} {rhs})) {cur} {q})")
            });
        }
        Err("unsupported for_each form".into())
    }

    fn lit(&self, l: &Lit) -> R<String> {
        match l {
            Lit::Float(f) => {
                if !(f.suffix().is_empty() || f.suffix() == "f64") {
                    return Err("non-f64 float literal".into());
                }
                dec_literal(f.base10_digits())
            }
            Lit::Int(i) => {
                if i.suffix() == "f64" {
                    return dec_literal(i.base10_digits());
                }
                if i.suffix().is_empty() || i.suffix() == "usize" {
                    // only reachable in `usize` positions: a float position needs a float literal in Rust
                    return Ok(i.base10_digits().to_string());
                }
                Err("integer literal in value position".into())
            }
            Lit::Bool(b) => Ok(if b.value { "true".into() } else { "false".into() }),
            _ => Err("unsupported literal".into()),
        }
    }

    fn expr(&self, e: &Expr, cx: &mut BodyCx) -> R<String> {
        match e {
            Expr::Lit(l) => self.lit(&l.lit),
            Expr::Paren(p) => self.expr(&p.expr, cx),
            Expr::Group(g) => self.expr(&g.expr, cx),
            Expr::Reference(r) => self.expr(&r.expr, cx),
            Expr::Path(p) => {
                if p.qself.is_some() {
                    return Err("qualified path".into());
                }
                let segs: Vec<String> = p.path.segments.iter().map(|s| s.ident.to_string()).collect();
                if segs.len() == 1 {
                    if cx.scope_of(&segs[0]).is_some() {
                        cx.reads.push(segs[0].clone());
                        return Ok(lean_ident(&segs[0]));
                    }
                    if segs[0] == "None" {
                        return Ok("none".into());
                    }
                    return Err(format!("unknown identifier {}", segs[0]));
                }
                if segs == ["f64", "EPSILON"] || segs == ["std", "f64", "EPSILON"] || segs == ["core", "f64", "EPSILON"] {
                    return Ok("(FloatLike.epsilon : F)".into());
                }
                Err(format!("unsupported path {}", segs.join("::")))
            }
            Expr::Unary(u) => {
                let inner = self.expr(&u.expr, cx)?;
                match u.op {
                    UnOp::Deref(_) => Ok(inner),
                    UnOp::Neg(_) => Ok(format!("(PNeg.neg {inner})")),
                    UnOp::Not(_) => Ok(format!("(!{inner})")),
                    _ => Err("unsupported unary operator".into()),
                }
            }
            Expr::Binary(b) => {
                if let Some(r) = self.int_binary(b, cx)? {
                    return Ok(r);
                }
                let l = self.expr(&b.left, cx)?;
                let np = cx.pending.len();
                let r = self.expr(&b.right, cx)?;
                if matches!(b.op, BinOp::And(_) | BinOp::Or(_)) && cx.pending.len() != np {
                    return Err("effect or panic in the right operand of a short-circuit operator".into());
                }
                Ok(match b.op {
                    BinOp::Add(_) => format!("(PAdd.add {l} {r})"),
                    BinOp::Sub(_) => format!("(PSub.sub {l} {r})"),
                    BinOp::Mul(_) => format!("(PMul.mul {l} {r})"),
                    BinOp::Div(_) => format!("(PDiv.div {l} {r})"),
                    BinOp::Lt(_) => format!("(FloatLike.lt {l} {r})"),
                    BinOp::Le(_) => format!("(FloatLike.le {l} {r})"),
                    BinOp::Gt(_) => format!("(FloatLike.lt {r} {l})"),
                    BinOp::Ge(_) => format!("(FloatLike.le {r} {l})"),
                    BinOp::Eq(_) if cx.peq_eq => format!("(PEq.peq {l} {r})"),
                    BinOp::Ne(_) if cx.peq_eq => format!("(!(PEq.peq {l} {r}))"),
                    BinOp::Eq(_) => format!("(FloatLike.feq {l} {r})"),
                    BinOp::Ne(_) => format!("(!(FloatLike.feq {l} {r}))"),
                    BinOp::And(_) => format!("({l} && {r})"),
                    BinOp::Or(_) => format!("({l} || {r})"),
                    _ => return Err("unsupported binary operator".into()),
                })
            }
            Expr::Field(f) => {
                let base = self.expr(&f.base, cx)?;
                match &f.member {
                    Member::Named(i) => Ok(format!("{base}.{}", lean_ident(&i.to_string()))),
                    Member::Unnamed(ix) => Ok(format!("{base}._{}", ix.index)),
                }
            }
            Expr::Index(ix) => {
                if let Some(r) = self.list_index(ix, cx)? {
                    return Ok(r);
                }
                let base = self.expr(&ix.expr, cx)?;
                let n = array_len(&ix.index).ok_or("non-constant index (may panic)")?;
                Ok(format!("{base}.a{n}"))
            }
            Expr::Array(a) => {
                let n = a.elems.len();
                if n == 0 {
                    // `&[]`: the empty slice (a list; an `[f64; 0]` does not exist in the model)
                    return Ok("[]".into());
                }
                if n > 16 {
                    return Err("array literal length".into());
                }
                let mut parts = vec![];
                for e in &a.elems {
                    parts.push(self.expr(e, cx)?);
                }
                Ok(format!("(Arr{n}.mk {})", parts.join(" ")))
            }
            Expr::Struct(s) => {
                if s.rest.is_some() {
                    return Err("struct update syntax".into());
                }
                let mut name = s.path.segments.last().unwrap().ident.to_string();
                if name == "Self" {
                    // `Self { .. }` is the impl's own type
                    name = cx.tcx.self_struct.clone().ok_or("`Self` outside impl")?;
                }
                let info = self.structs.get(&name).ok_or(format!("unknown struct {name}"))?;
                if info.tuple {
                    return Err("brace literal of tuple struct".into());
                }
                let mut given = BTreeMap::new();
                for fv in &s.fields {
                    let Member::Named(i) = &fv.member else { return Err("unnamed member".into()) };
                    given.insert(lean_ident(&i.to_string()), self.expr(&fv.expr, cx)?);
                }
                let mut parts = vec![];
                for (fname, _) in &info.fields {
                    let v = given.remove(fname).ok_or(format!("missing field {fname}"))?;
                    parts.push(format!("({fname} := {v})"));
                }
                if !given.is_empty() {
                    return Err("unknown field in struct literal".into());
                }
                Ok(format!("({name}.mk {})", parts.join(" ")))
            }
            Expr::Call(c) => self.call(c, cx),
            Expr::MethodCall(mc) => self.method_call(mc, cx),
            Expr::If(i) => {
                let c = self.expr(&i.cond, cx)?;
                let t = self.block_expr(&i.then_branch, cx)?;
                let Some((_, eb)) = &i.else_branch else { return Err("if without else".into()) };
                let el = self.expr_local(eb, cx)?;
                Ok(format!("(if {c} then {t} else {el})"))
            }
            Expr::Block(b) => {
                if b.label.is_some() {
                    return Err("labelled block".into());
                }
                self.block_expr(&b.block, cx)
            }
            Expr::Cast(_) => Err("cast".into()),
            Expr::Macro(m) => Err(format!("macro {}", path_str(&m.mac.path))),
            Expr::Closure(_) => Err("closure".into()),
            Expr::Match(m) => self.match_expr(m, cx),
            Expr::Loop(_) | Expr::While(_) | Expr::ForLoop(_) => Err("loop".into()),
            Expr::Return(_) => Err("return".into()),
            Expr::Try(_) => Err("? operator".into()),
            Expr::Tuple(_) => Err("tuple value".into()),
            _ => Err("unsupported expression".into()),
        }
    }

    fn block_expr(&self, b: &Block, cx: &mut BodyCx) -> R<String> {
        cx.scopes.push(BTreeMap::new());
        let nb = cx.n_binds;
        let (sp, sm, sr) = (std::mem::take(&mut cx.pending), std::mem::take(&mut cx.mutated), std::mem::take(&mut cx.reads));
        let r = self.block_lines(&b.stmts, cx, false, false);
        cx.pending = sp;
        cx.mutated = sm;
        cx.reads = sr;
        cx.scopes.pop();
        let (lines, tail) = r?;
        if cx.n_binds != nb {
            return Err(loops::NESTED_PANIC.into());
        }
        let tail = tail.ok_or("block without value")?;
        if lines.is_empty() {
            Ok(tail)
        } else {
            Ok(format!("({} {tail})", lines.join(" ")))
        }
    }

    fn call(&self, c: &ExprCall, cx: &mut BodyCx) -> R<String> {
        if let Some(r) = self.approx_default_call(c, cx)? {
            return Ok(r);
        }
        if let Some(r) = self.loop_call(c, cx)? {
            return Ok(r);
        }
        let Expr::Path(p) = &*c.func else { return Err("call of non-path".into()) };
        let segs: Vec<String> = p.path.segments.iter().map(|s| s.ident.to_string()).collect();
        let mut args = vec![];
        for a in &c.args {
            args.push(self.expr(a, cx)?);
        }
        if segs.len() == 1 && segs[0] == "Some" && args.len() == 1 && cx.scope_of("Some").is_none() {
            return Ok(format!("(some {})", args[0]));
        }
        if segs.len() == 1 {
            // `Self(..)` constructs the impl's own tuple struct
            let resolved = if segs[0] == "Self" { cx.tcx.self_struct.clone().unwrap_or_else(|| segs[0].clone()) } else { segs[0].clone() };
            let n = &resolved;
            if let Some(info) = self.structs.get(n) {
                if !info.tuple {
                    return Err("call of non-tuple struct".into());
                }
                if args.len() != info.fields.len() {
                    return Err("tuple struct arity".into());
                }
                return Ok(format!("({n}.mk {})", args.join(" ")));
            }
            // free function of the same (sub-)module, innermost first
            let mut m = cx.submods.clone();
            loop {
                let mut key = cx.module.clone();
                for s in &m {
                    key.push('.');
                    key.push_str(s);
                }
                if let Some(fi) = self.fns.get(&(key.clone(), n.clone())) {
                    if !fi.mut_params.is_empty() {
                        return Err(format!("call of {n}, which takes &mut parameters"));
                    }
                    return Ok(format!("({key}.{} {})", lean_ident(n), args.join(" ")));
                }
                if m.pop().is_none() {
                    break;
                }
            }
            return Err(format!("call of unknown function {n}"));
        }
        if segs.len() == 2 {
            if segs[0] == "Default" && segs[1] == "default" && args.is_empty() {
                return Ok("PDefault.default".into());
            }
            // sub-module function `taylor::exp_5_taylor`
            let mut key = cx.module.clone();
            for s in &cx.submods {
                key.push('.');
                key.push_str(s);
            }
            let k2 = format!("{key}.{}", segs[0]);
            if let Some(fi) = self.fns.get(&(k2.clone(), segs[1].clone())) {
                if !fi.mut_params.is_empty() {
                    return Err("call of fn with &mut parameters".into());
                }
                return Ok(format!("({k2}.{} {})", lean_ident(&segs[1]), args.join(" ")));
            }
            // inherent associated fn `Knot::new`
            if self.structs.contains_key(&segs[0]) {
                return Ok(format!("({}.{} {})", segs[0], lean_ident(&segs[1]), args.join(" ")));
            }
        }
        Err(format!("unsupported call {}", segs.join("::")))
    }

    fn method_call(&self, mc: &ExprMethodCall, cx: &mut BodyCx) -> R<String> {
        if let Some(r) = self.loop_method(mc, cx)? {
            return Ok(r);
        }
        let m = mc.method.to_string();
        if self.mutating.contains(&m) {
            return Err(format!("mutating method `{m}` in value position"));
        }
        let recv = self.expr(&mc.receiver, cx)?;
        let mut args = vec![];
        for a in &mc.args {
            args.push(self.expr(a, cx)?);
        }
        if recv == "self" {
            if let Some(d) = cx.siblings.get(&m) {
                return Ok(format!("({d} self {})", args.join(" ")).replace(" )", ")"));
            }
        }
        let arity = |n: usize| -> R<()> {
            if args.len() == n {
                Ok(())
            } else {
                Err(format!("method {m}: expected {n} arguments"))
            }
        };
        let joined = args.join(" ");
        Ok(match m.as_str() {
            "mul_add" => {
                arity(2)?;
                format!("(FloatLike.fma {recv} {joined})")
            }
            "recip" => {
                arity(0)?;
                format!("(FloatLike.recip {recv})")
            }
            "ln" => {
                arity(0)?;
                format!("(FloatLike.ln {recv})")
            }
            "exp" => {
                arity(0)?;
                format!("(FloatLike.exp {recv})")
            }
            "abs" => {
                arity(0)?;
                format!("(FloatLike.abs {recv})")
            }
            "max" => {
                arity(1)?;
                format!("(FloatLike.max {recv} {joined})")
            }
            "is_nan" => {
                arity(0)?;
                format!("(FloatLike.isNaN {recv})")
            }
            "is_normal" if cx.arb_mode => {
                arity(0)?;
                format!("(Arb.StdF64.isNormal {recv})")
            }
            "partial_cmp" => {
                arity(1)?;
                format!("(Iter.partialCmp {recv} {joined})")
            }
            "neg" => {
                arity(0)?;
                format!("(PNeg.neg {recv})")
            }
            "add" => {
                arity(1)?;
                format!("(PAdd.add {recv} {joined})")
            }
            "sub" => {
                arity(1)?;
                format!("(PSub.sub {recv} {joined})")
            }
            "mul" => {
                arity(1)?;
                format!("(PMul.mul {recv} {joined})")
            }
            "clone" => {
                arity(0)?;
                recv
            }
            "evaluate" => {
                arity(1)?;
                format!("(Evaluate.evaluate {recv} {joined})")
            }
            "derivative" => {
                arity(0)?;
                format!("(HasDerivative.derivative {recv})")
            }
            "indefinite" => {
                arity(0)?;
                format!("(HasIntegral.indefinite {recv})")
            }
            "integral" => {
                arity(1)?;
                format!("(HasIntegral.integral {recv} {joined})")
            }
            "abs_diff_eq" => {
                arity(2)?;
                format!("(AbsDiffEq.absDiffEq {recv} {joined})")
            }
            "relative_eq" => {
                arity(3)?;
                format!("(RelativeEq.relativeEq {recv} {joined})")
            }
            other => return Err(format!("unsupported method `{other}`")),
        })
    }

    // ---------------------------------------------------------------- rendering

    fn imports_for(file: &str) -> Vec<&'static str> {
        match file {
            "Types" => vec!["PP.Core.Traits", "PP.Core.ArrApprox"],
            "Poly/Evaluate" | "Poly/Ops" | "Poly/Approx" | "Poly/Fns" => vec!["PP.Model.Types"],
            "Poly/Calculus" => vec!["PP.Model.Poly.Evaluate"],
            "LogPoly/Evaluate" | "LogPoly/Ops" | "LogPoly/Approx" => vec!["PP.Model.Types"],
            "LogPoly/Calculus" => vec!["PP.Model.LogPoly.Evaluate", "PP.Model.Poly.Calculus"],
            "Piecewise/Evaluate" | "Piecewise/Ops" | "Piecewise/Approx" => vec!["PP.Model.Types"],
            "Piecewise/Calculus" => vec!["PP.Model.Piecewise.Evaluate"],
            "Spline/Fns" => vec!["PP.Model.Types"],
            "Linear/Fns" => vec!["PP.Model.Poly.Calculus"],
            "Poly/Loops" => vec!["PP.Core.Iter", "PP.Model.Types"],
            "Piecewise/Loops" => vec![
                "PP.Core.Iter",
                "PP.Model.Piecewise.Evaluate",
                "PP.Model.Piecewise.Calculus",
                "PP.Model.Piecewise.Ops",
                "PP.Model.Piecewise.Approx",
            ],
            "Piecewise/Evaluator" => vec!["PP.Core.Iter", "PP.Model.Piecewise.Evaluate"],
            "Piecewise/Merge" => vec!["PP.Core.Iter", "PP.Model.Types"],
            "Linear/Loops" => vec!["PP.Core.Iter", "PP.Model.Linear.Fns"],
            "Spline/Loops" => vec!["PP.Core.Iter", "PP.Model.Spline.Fns"],
            "Piecewise/Arbitrary" => vec!["PP.Core.Iter", "PP.Core.Arb", "PP.Model.Types"],
            f if f.ends_with("/Arbitrary") => vec!["PP.Core.Arb", "PP.Model.Types"],
            _ => vec!["PP.Model.Types"],
        }
    }

    fn render_types(&self) -> String {
        let mut out = String::new();
        out.push_str("import PP.Core.Traits\nimport PP.Core.ArrApprox\n");
        out.push_str("/-! GENERATED by /verif/rust/translator from /repo/src — do not edit. Struct declarations. -/\n\n");
        out.push_str("/-- the numbers of a value in declaration order (C14, C17) -/\nclass Nums (T : Type) (F : outParam Type) where\n  nums : T → List F\n\n");
        for name in &self.struct_order {
            let s = &self.structs[name];
            if s.has_lifetime {
                continue;
            }
            let cx = {
                let mut c = TyCtx::default();
                for p in &s.params {
                    c.generics.insert(p.clone(), p.clone());
                }
                c
            };
            let mut params = String::new();
            if s.needs_f {
                params.push_str(" (F : Type)");
            }
            for p in &s.params {
                params.push_str(&format!(" ({p} : Type)"));
            }
            let mut fields = String::new();
            let mut ok = true;
            let mut nums_parts = vec![];
            let mut nums_insts = vec![];
            for (f, ty) in &s.fields {
                match ty_to_lean(ty, &cx, &self.structs) {
                    Ok(t) => {
                        fields.push_str(&format!("  {f} : {t}\n"));
                        if t == "F" {
                            nums_parts.push(format!("[self.{f}]"));
                        } else if t.starts_with("(Arr") {
                            nums_parts.push(format!("(ArrLike.toList self.{f})"));
                        } else if t == "(List F)" {
                            nums_parts.push(format!("self.{f}"));
                        } else if t.starts_with("(List ") {
                            nums_parts.push(format!("((self.{f}.map Nums.nums).flatten)"));
                            let inner = &t[6..t.len() - 1];
                            nums_insts.push(format!("[Nums {inner} F]"));
                        } else {
                            nums_parts.push(format!("(Nums.nums self.{f})"));
                            if s.params.contains(&t) {
                                nums_insts.push(format!("[Nums {t} F]"));
                            }
                        }
                    }
                    Err(e) => {
                        out.push_str(&format!("-- struct {name}: field {f}: {e}\n"));
                        ok = false;
                    }
                }
            }
            if !ok {
                continue;
            }
            out.push_str(&format!("structure {name}{params} where\n{fields}deriving DecidableEq\n"));
            // Nums instance
            let mut self_ty = name.clone();
            if s.needs_f {
                self_ty.push_str(" F");
            }
            for p in &s.params {
                self_ty.push(' ');
                self_ty.push_str(p);
            }
            let tv = if s.params.is_empty() { String::new() } else { format!("{{{} : Type}} ", s.params.join(" ")) };
            let fbind = "{F : Type} ";
            let body = if nums_parts.is_empty() { "[]".to_string() } else { nums_parts.join(" ++ ") };
            out.push_str(&format!(
                "instance inst_Nums_{name} {fbind}{tv}{} : Nums ({self_ty}) F where\n  nums := fun self => {body}\n\n",
                nums_insts.join(" ")
            ));
        }
        out
    }

    /// C18: serde data-model trees and borsh bytes, from the struct declarations and their derives
    fn render_serial(&self) -> String {
        let mut out = String::new();
        out.push_str("import PP.Model.Types\nimport PP.Core.Serial\n");
        out.push_str("/-! GENERATED by /verif/rust/translator from the struct declarations of /repo/src — do not edit.\n");
        out.push_str("`SerTree`: what the derived `Serialize`/`Deserialize` do in serde's data model; `Borsh`: the borsh bytes. -/\n\n");
        for name in &self.struct_order {
            let s = &self.structs[name];
            if s.has_lifetime {
                continue;
            }
            let has = |d: &str| s.derives.iter().any(|x| x == d || x.ends_with(&format!("::{d}")));
            let serde_ok = has("Serialize") && has("Deserialize");
            let borsh_ok = has("BorshSerialize") && has("BorshDeserialize");
            if !s.other_attrs.is_empty() {
                out.push_str(&format!("-- struct {name}: attributes outside the modelled subset: {:?}\n", s.other_attrs));
                continue;
            }
            let cx = {
                let mut c = TyCtx::default();
                for p in &s.params {
                    c.generics.insert(p.clone(), p.clone());
                }
                c
            };
            let mut ftys = vec![];
            let mut ok = true;
            for (f, ty) in &s.fields {
                match ty_to_lean(ty, &cx, &self.structs) {
                    Ok(t) => ftys.push((f.clone(), t)),
                    Err(_) => ok = false,
                }
            }
            if !ok {
                continue;
            }
            let tv = if s.params.is_empty() { String::new() } else { format!("{{{} : Type}} ", s.params.join(" ")) };
            let self_ty = |fname: &str| {
                let mut t = name.clone();
                if s.needs_f {
                    t.push(' ');
                    t.push_str(fname);
                }
                for p in &s.params {
                    t.push(' ');
                    t.push_str(p);
                }
                t
            };
            if serde_ok {
                let mut sers = vec![];
                let mut des = vec![];
                let mut insts = vec![];
                for (i, (f, t)) in ftys.iter().enumerate() {
                    let (se, de) = if t == "F" {
                        (format!("Tree.num self.{f}"), format!("Tree.num? t{i}"))
                    } else if t.starts_with("(Arr") {
                        let n = &t[4..t.len() - 3];
                        (format!("Tree.tuple ((ArrLike.toList self.{f}).map Tree.num)"), format!("((Tree.asTuple t{i}).bind Tree.nums?).bind Arr{n}.ofList?"))
                    } else if t.starts_with("(List ") {
                        let inner = &t[6..t.len() - 1];
                        insts.push(format!("[SerTree {inner} F]"));
                        (format!("Tree.seq (self.{f}.map SerTree.ser)"), format!("(Tree.asSeq t{i}).bind deList"))
                    } else {
                        insts.push(format!("[SerTree {t} F]"));
                        (format!("SerTree.ser self.{f}"), format!("SerTree.de t{i}"))
                    };
                    sers.push((f.clone(), se));
                    des.push(de);
                }
                insts.sort();
                insts.dedup();
                let binds: Vec<String> = des.iter().enumerate().map(|(i, d)| format!("({d}).bind fun v{i} =>")).collect();
                let args: Vec<String> = (0..des.len()).map(|i| format!("v{i}")).collect();
                let pats: Vec<String> = (0..des.len()).map(|i| format!("t{i}")).collect();
                let (ser_body, de_body) = if s.tuple && ftys.len() == 1 {
                    (
                        format!("Tree.newtype \"{name}\" ({})", sers[0].1),
                        format!("(Tree.asNewtype \"{name}\" t).bind fun t0 => {} some ({name}.mk {})", binds.join(" "), args.join(" ")),
                    )
                } else if !s.tuple {
                    let keys: Vec<String> = ftys.iter().map(|(f, _)| format!("\"{}\"", f.trim_matches(|c| c == '«' || c == '»'))).collect();
                    let fields: Vec<String> = sers.iter().zip(&keys).map(|((_, se), k)| format!("({k}, {se})")).collect();
                    (
                        format!("Tree.struct \"{name}\" [{}]", fields.join(", ")),
                        format!(
                            "(Tree.asStruct \"{name}\" [{}] t).bind fun fs => match fs with\n    | [{}] => {} some ({name}.mk {})\n    | _ => none",
                            keys.join(", "),
                            pats.join(", "),
                            binds.join(" "),
                            args.join(" ")
                        ),
                    )
                } else {
                    out.push_str(&format!("-- struct {name}: tuple struct with {} fields is outside the modelled subset\n", ftys.len()));
                    continue;
                };
                out.push_str(&format!(
                    "instance inst_SerTree_{name} {{F : Type}} {tv}{} : SerTree ({}) F where\n  ser := fun self => {ser_body}\n  de := fun t => {de_body}\n\n",
                    insts.join(" "),
                    self_ty("F")
                ));
            } else {
                out.push_str(&format!("-- struct {name}: no serde derive pair\n"));
            }
            if borsh_ok {
                let mut encs = vec![];
                let mut decs = vec![];
                let mut insts = vec![];
                for (f, t) in ftys.iter() {
                    let tn = t.replace(" F)", " Nat)").replace(" F ", " Nat ");
                    let (en, de) = if t == "F" {
                        (format!("Borsh.encF self.{f}"), "Borsh.decF".to_string())
                    } else if t.starts_with("(Arr") {
                        let n = &t[4..t.len() - 3];
                        (format!("Borsh.encFs (ArrLike.toList self.{f})"), format!("(fun bs => (Borsh.decFs {n} bs).bind fun (l, r) => (Arr{n}.ofList? l).map fun a => (a, r))"))
                    } else if t.starts_with("(List ") {
                        let inner = &tn[6..tn.len() - 1];
                        insts.push(format!("[Borsh {inner}]"));
                        (format!("Borsh.encVec self.{f}"), "Borsh.decVec".to_string())
                    } else {
                        insts.push(format!("[Borsh {tn}]"));
                        (format!("Borsh.enc self.{f}"), "Borsh.dec".to_string())
                    };
                    encs.push(en);
                    decs.push(de);
                }
                insts.sort();
                insts.dedup();
                let mut body = String::new();
                for (i, d) in decs.iter().enumerate() {
                    let src = if i == 0 { "bs".to_string() } else { format!("r{}", i - 1) };
                    body.push_str(&format!("({d} {src}).bind fun (v{i}, r{i}) => "));
                }
                let args: Vec<String> = (0..decs.len()).map(|i| format!("v{i}")).collect();
                let last = if decs.is_empty() { "bs".to_string() } else { format!("r{}", decs.len() - 1) };
                out.push_str(&format!(
                    "instance inst_Borsh_{name} {tv}{} : Borsh ({}) where\n  enc := fun self => {}\n  dec := fun bs => {body}some ({name}.mk {}, {last})\n\n",
                    insts.join(" "),
                    self_ty("Nat"),
                    if encs.is_empty() { "[]".to_string() } else { encs.join(" ++ ") },
                    args.join(" ")
                ));
            } else {
                out.push_str(&format!("-- struct {name}: no borsh derive pair\n"));
            }
        }
        out
    }

    pub fn render(&self) -> BTreeMap<String, String> {
        let mut m = BTreeMap::new();
        m.insert("Types.lean".to_string(), self.render_types());
        m.insert("Serial.lean".to_string(), self.render_serial());
        let all_files = [
            "Poly/Evaluate", "Poly/Calculus", "Poly/Ops", "Poly/Approx", "Poly/Fns", "LogPoly/Evaluate", "LogPoly/Calculus",
            "LogPoly/Ops", "LogPoly/Approx", "Piecewise/Evaluate", "Piecewise/Calculus", "Piecewise/Ops", "Piecewise/Approx",
            "Spline/Fns", "Linear/Fns",
            // loop subset
            "Poly/Loops", "Piecewise/Loops", "Linear/Loops", "Spline/Loops",
            // control flow with effects (always written, so that a stale file never survives a source change)
            "Piecewise/Evaluator", "Piecewise/Merge",
            // functions over `arbitrary::Unstructured` and the `#[derive(Arbitrary)]` instances
            "Poly/Arbitrary", "Piecewise/Arbitrary",
        ];
        let mut names: BTreeSet<String> = all_files.iter().map(|s| s.to_string()).collect();
        names.extend(self.chunks.keys().cloned());
        for f in names {
            let mut t = String::new();
            for i in Self::imports_for(&f) {
                t.push_str(&format!("import {i}\n"));
            }
            t.push_str("/-! GENERATED by /verif/rust/translator from /repo/src — do not edit. -/\n");
            t.push_str("set_option linter.unusedVariables false\n");
            t.push_str("variable {F : Type}\n\n");
            if let Some(cs) = self.chunks.get(&f) {
                let mut cs: Vec<&(u32, String)> = cs.iter().collect();
                cs.sort_by_key(|c| c.0); // stable
                for c in cs {
                    t.push_str(&c.1);
                    t.push('\n');
                }
            }
            m.insert(format!("{f}.lean"), t);
            // companion file: the simp set `pp_model` (kept out of the model files proper so that
            // those stay free of `import Lean` and link into the driver executable)
            let mut a = String::new();
            a.push_str("import PP.Core.Attr\n");
            a.push_str(&format!("import PP.Model.{}\n", f.replace('/', ".")));
            for i in Self::imports_for(&f) {
                if i != "PP.Model.Types" && i.starts_with("PP.Model.") {
                    a.push_str(&format!("import {i}Attr\n"));
                }
            }
            a.push_str("/-! GENERATED — simp set of the definitions in the sibling file. -/\n");
            if let Some(ts) = self.tags.get(&f) {
                if !ts.is_empty() {
                    a.push_str(&format!("attribute [pp_model] {}\n", ts.join(" ")));
                }
            }
            m.insert(format!("{f}Attr.lean"), a);
        }
        self.render_peq(&mut m);
        m
    }

    pub fn inventory_json(&self) -> String {
        let items: Vec<serde_json::Value> = self
            .inventory
            .iter()
            .map(|i| {
                serde_json::json!({
                    "name": i.name, "file": i.file, "route": i.route, "reason": i.reason, "hash": i.hash,
                    "lean_file": i.lean_file, "lean_name": i.lean_name
                })
            })
            .collect();
        let structs: Vec<serde_json::Value> = self
            .struct_order
            .iter()
            .map(|n| {
                let s = &self.structs[n];
                serde_json::json!({
                    "name": s.name, "module": s.module, "params": s.params, "tuple": s.tuple, "needs_f": s.needs_f,
                    "fields": s.fields.iter().map(|(f, t)| serde_json::json!([f, t.to_token_stream().to_string().replace(' ', "")])).collect::<Vec<_>>(),
                    "derives": s.derives, "other_attrs": s.other_attrs, "has_lifetime": s.has_lifetime
                })
            })
            .collect();
        serde_json::to_string_pretty(&serde_json::json!({ "items": items, "structs": structs })).unwrap() + "\n"
    }

    pub fn counts(&self) -> (usize, usize, usize) {
        let c = |r: &str| self.inventory.iter().filter(|i| i.route == r).count();
        (c("translated"), c("hand"), c("unsupported"))
    }

    pub fn unsupported(&self) -> Vec<(String, String)> {
        self.inventory.iter().filter(|i| i.route == "unsupported").map(|i| (i.name.clone(), i.reason.clone())).collect()
    }
}

fn strip_paren(e: &Expr) -> &Expr {
    match e {
        Expr::Paren(p) => strip_paren(&p.expr),
        Expr::Group(g) => strip_paren(&g.expr),
        _ => e,
    }
}

fn ident_occurs(hay: &str, id: &str) -> bool {
    hay.split(|c: char| !(c.is_alphanumeric() || c == '_' || c == '\'' || c == '«' || c == '»')).any(|t| t == id)
}

fn indent(s: &str, n: usize) -> String {
    let pad = " ".repeat(n);
    s.lines().map(|l| format!("{pad}{l}")).collect::<Vec<_>>().join("\n")
}

/// `"2432902008176640000.0"`, `"1.71"`, `"1e-16"` → `(FloatLike.ofDec m e : F)` with value m·10^e
fn dec_literal(digits: &str) -> R<String> {
    let s: String = digits.chars().filter(|c| *c != '_').collect();
    let (mant, exp) = match s.find(['e', 'E']) {
        Some(i) => (&s[..i], s[i + 1..].parse::<i64>().map_err(|e| e.to_string())?),
        None => (&s[..], 0),
    };
    let (ip, fp) = match mant.find('.') {
        Some(i) => (&mant[..i], &mant[i + 1..]),
        None => (mant, ""),
    };
    let fp = fp.trim_end_matches('0');
    let mut m = format!("{ip}{fp}");
    let mut e = exp - fp.len() as i64;
    let t = m.trim_start_matches('0').to_string();
    m = if t.is_empty() { "0".into() } else { t };
    if m == "0" {
        e = 0;
    } else {
        // canonical form: no trailing zeros in m
        while m.len() > 1 && m.ends_with('0') {
            m.pop();
            e += 1;
        }
    }
    if !m.chars().all(|c| c.is_ascii_digit()) {
        return Err(format!("cannot parse float literal {digits}"));
    }
    let e_txt = if e < 0 { format!("({e})") } else { e.to_string() };
    Ok(format!("(FloatLike.ofDec {m} {e_txt} : F)"))
}
