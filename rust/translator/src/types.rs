//! Struct table and type translation.

use std::collections::BTreeMap;
use syn::{Fields, GenericArgument, ItemStruct, PathArguments, Type};

#[derive(Clone, Debug)]
pub struct StructInfo {
    pub name: String,
    pub params: Vec<String>,
    pub tuple: bool,
    /// (lean field name, rust type)
    pub fields: Vec<(String, Type)>,
    pub needs_f: bool,
    pub derives: Vec<String>,
    pub has_lifetime: bool,
    /// the generic parameters that set `has_lifetime` are lifetimes only and every reference in a field
    /// is shared: the struct is a read-only view (`&'a [X]` is a list, `&'a X` an `X`) and can be a Lean
    /// structure; its declaration is emitted next to its impl, not into `Types.lean`
    pub ref_view: bool,
    pub other_attrs: Vec<String>,
    pub module: String,
}

pub fn lean_ident(s: &str) -> String {
    const KW: &[&str] = &[
        "end", "from", "at", "in", "fun", "have", "show", "then", "do", "open", "local", "instance", "where", "with",
        "by", "let", "if", "else", "match", "theorem", "def", "structure", "class", "namespace", "section",
        "variable", "universe", "import", "export", "private", "protected", "mutual", "deriving", "extends",
        "forall", "exists", "Type", "Prop", "Sort", "this", "calc", "suffices", "obtain", "using", "macro",
        "syntax", "notation", "infix", "prefix", "postfix", "attribute", "set_option", "example", "axiom",
        "abbrev", "inductive", "unsafe", "partial", "noncomputable", "return", "for", "unless", "try", "catch",
        "finally", "mut", "break", "continue", "nomatch", "nofun", "default",
    ];
    if KW.contains(&s) {
        format!("«{s}»")
    } else {
        s.to_string()
    }
}

pub fn collect_struct(module: &str, s: &ItemStruct) -> StructInfo {
    let name = s.ident.to_string();
    let mut params = Vec::new();
    let mut has_lifetime = false;
    let mut has_const = false;
    for g in &s.generics.params {
        match g {
            syn::GenericParam::Type(t) => params.push(t.ident.to_string()),
            syn::GenericParam::Lifetime(_) => has_lifetime = true,
            syn::GenericParam::Const(_) => {
                has_lifetime = true;
                has_const = true;
            }
        }
    }
    fn has_mut_ref(ty: &Type) -> bool {
        match ty {
            Type::Reference(r) => r.mutability.is_some() || has_mut_ref(&r.elem),
            Type::Slice(s) => has_mut_ref(&s.elem),
            Type::Array(a) => has_mut_ref(&a.elem),
            Type::Paren(p) => has_mut_ref(&p.elem),
            Type::Tuple(t) => t.elems.iter().any(has_mut_ref),
            Type::Path(p) => p.path.segments.iter().any(|seg| match &seg.arguments {
                PathArguments::AngleBracketed(ab) => ab.args.iter().any(|a| matches!(a, GenericArgument::Type(t) if has_mut_ref(t))),
                _ => false,
            }),
            _ => true,
        }
    }
    let ref_view = has_lifetime && !has_const && !s.fields.iter().any(|f| has_mut_ref(&f.ty));
    let (tuple, fields) = match &s.fields {
        Fields::Named(n) => (
            false,
            n.named.iter().map(|f| (lean_ident(&f.ident.as_ref().unwrap().to_string()), f.ty.clone())).collect(),
        ),
        Fields::Unnamed(u) => (true, u.unnamed.iter().enumerate().map(|(i, f)| (format!("_{i}"), f.ty.clone())).collect()),
        Fields::Unit => (false, vec![]),
    };
    let mut derives = Vec::new();
    let mut other_attrs = Vec::new();
    for a in &s.attrs {
        let p = a.path();
        if p.is_ident("derive") {
            let _ = a.parse_nested_meta(|m| {
                derives.push(path_str(&m.path));
                Ok(())
            });
        } else if p.is_ident("cfg_attr") {
            // #[cfg_attr(feature = "borsh", derive(borsh::BorshDeserialize, borsh::BorshSerialize))]
            let toks = a.meta.require_list().map(|l| l.tokens.to_string()).unwrap_or_default();
            let norm: String = toks.split_whitespace().collect::<Vec<_>>().join(" ");
            if norm.contains("feature = \"borsh\"") && !norm.contains("not (") && !norm.contains("not(") {
                // accepted spellings: the two derives qualified (`borsh :: BorshSerialize`) or bare (imported), in one
                // `cfg_attr` or one each; `borsh(crate = "borsh")` (where the derive macro finds the crate: no effect on
                // the bytes).  Anything else inside the attribute is recorded verbatim (=> the struct's codecs are not emitted).
                if norm.contains("BorshDeserialize") {
                    derives.push("cfg(borsh)::BorshDeserialize".into());
                }
                if norm.contains("BorshSerialize") {
                    derives.push("cfg(borsh)::BorshSerialize".into());
                }
                let stripped = norm
                    .replace("feature = \"borsh\"", "")
                    .replace("borsh (crate = \"borsh\")", "")
                    .replace("borsh ( crate = \"borsh\" )", "")
                    .replace("borsh :: BorshDeserialize", "")
                    .replace("borsh :: BorshSerialize", "")
                    .replace("BorshDeserialize", "")
                    .replace("BorshSerialize", "")
                    .replace("derive", "")
                    .replace(['(', ')', ',', ' '], "");
                if !stripped.is_empty() {
                    other_attrs.push(format!("cfg_attr({norm})"));
                }
            } else {
                other_attrs.push(format!("cfg_attr({norm})"));
            }
        } else if p.is_ident("doc") || p.is_ident("allow") || p.is_ident("must_use") || p.is_ident("warn") || p.is_ident("deny")
            || p.is_ident("repr") || p.is_ident("non_exhaustive") || p.is_ident("expect") || p.is_ident("forbid")
        {
            // layout / lint attributes: no effect on what the derives serialize
        } else {
            other_attrs.push(path_str(p) + &a.meta.require_list().map(|l| format!("({})", l.tokens)).unwrap_or_default());
        }
    }
    // field-level attributes (serde(skip), borsh(skip), ...) matter for C18
    for f in s.fields.iter() {
        for a in &f.attrs {
            if !a.path().is_ident("doc") {
                other_attrs.push(format!(
                    "field:{}",
                    path_str(a.path()) + &a.meta.require_list().map(|l| format!("({})", l.tokens)).unwrap_or_default()
                ));
            }
        }
    }
    StructInfo { name, params, tuple, fields, needs_f: false, derives, has_lifetime, ref_view, other_attrs, module: module.into() }
}

pub fn path_str(p: &syn::Path) -> String {
    p.segments.iter().map(|s| s.ident.to_string()).collect::<Vec<_>>().join("::")
}

fn mentions_f64(ty: &Type, structs: &BTreeMap<String, StructInfo>) -> bool {
    match ty {
        Type::Path(p) => {
            let last = p.path.segments.last().unwrap();
            let id = last.ident.to_string();
            if id == "f64" {
                return true;
            }
            if let Some(s) = structs.get(&id) {
                if s.needs_f {
                    return true;
                }
            }
            if let PathArguments::AngleBracketed(ab) = &last.arguments {
                for a in &ab.args {
                    if let GenericArgument::Type(t) = a {
                        if mentions_f64(t, structs) {
                            return true;
                        }
                    }
                }
            }
            false
        }
        Type::Array(a) => mentions_f64(&a.elem, structs),
        Type::Reference(r) => mentions_f64(&r.elem, structs),
        Type::Slice(s) => mentions_f64(&s.elem, structs),
        Type::Paren(p) => mentions_f64(&p.elem, structs),
        Type::Tuple(t) => t.elems.iter().any(|e| mentions_f64(e, structs)),
        _ => false,
    }
}

pub fn compute_needs_f(structs: &mut BTreeMap<String, StructInfo>) {
    loop {
        let mut changed = false;
        let names: Vec<String> = structs.keys().cloned().collect();
        for n in names {
            if structs[&n].needs_f {
                continue;
            }
            let snapshot = structs.clone();
            let need = snapshot[&n].fields.iter().any(|(_, t)| mentions_f64(t, &snapshot));
            if need {
                structs.get_mut(&n).unwrap().needs_f = true;
                changed = true;
            }
        }
        if !changed {
            break;
        }
    }
}

/// Context for translating a type occurring inside an impl / fn.
#[derive(Clone, Default, Debug)]
pub struct TyCtx {
    /// Lean text of `Self`
    pub self_ty: Option<String>,
    /// generic parameter → Lean text (`T` ↦ `T`, `Scalar` ↦ `F`)
    pub generics: BTreeMap<String, String>,
    /// `Self::X` ↦ Lean text
    pub self_assoc: BTreeMap<String, String>,
    /// `T::X` ↦ Lean text (out-parameters introduced for bounds)
    pub param_assoc: BTreeMap<(String, String), String>,
    /// name of the struct `Self` is an instance of
    pub self_struct: Option<String>,
}

pub fn array_len(e: &syn::Expr) -> Option<usize> {
    if let syn::Expr::Lit(l) = e {
        if let syn::Lit::Int(i) = &l.lit {
            return i.base10_parse::<usize>().ok();
        }
    }
    None
}

pub fn ty_to_lean(ty: &Type, cx: &TyCtx, structs: &BTreeMap<String, StructInfo>) -> Result<String, String> {
    match ty {
        Type::Reference(r) => ty_to_lean(&r.elem, cx, structs),
        Type::Paren(p) => ty_to_lean(&p.elem, cx, structs),
        Type::Array(a) => {
            let n = array_len(&a.len).ok_or("array length is not a literal")?;
            let el = ty_to_lean(&a.elem, cx, structs)?;
            if el != "F" {
                return Err(format!("array of non-f64 element {el}"));
            }
            if n == 0 || n > 16 {
                return Err(format!("array length {n} out of range"));
            }
            Ok(format!("(Arr{n} F)"))
        }
        Type::Slice(s) => Ok(format!("(List {})", ty_to_lean(&s.elem, cx, structs)?)),
        Type::Tuple(t) if t.elems.is_empty() => Ok("Unit".into()),
        Type::ImplTrait(it) => {
            // `impl Iterator<Item = X> + 'a`: the list of the items it yields
            for b in &it.bounds {
                if let syn::TypeParamBound::Trait(tb) = b {
                    let seg = tb.path.segments.last().unwrap();
                    if seg.ident == "Iterator" {
                        if let PathArguments::AngleBracketed(ab) = &seg.arguments {
                            for a in &ab.args {
                                if let GenericArgument::AssocType(at) = a {
                                    if at.ident == "Item" {
                                        return Ok(format!("(List {})", ty_to_lean(&at.ty, cx, structs)?));
                                    }
                                }
                            }
                        }
                    }
                }
            }
            Err("impl Trait other than Iterator<Item = _>".into())
        }
        Type::Path(p) => {
            let segs: Vec<_> = p.path.segments.iter().collect();
            if let Some(q) = &p.qself {
                // <Self::Epsilon as AbsDiffEq>::...   not a type we translate
                let _ = q;
                return Err("qualified-self type".into());
            }
            if segs.len() == 2 {
                let a = segs[0].ident.to_string();
                let b = segs[1].ident.to_string();
                if a == "Self" {
                    if let Some(t) = cx.self_assoc.get(&b) {
                        return Ok(t.clone());
                    }
                    if b == "Epsilon" {
                        return Ok("F".into());
                    }
                    return Err(format!("unknown associated type Self::{b}"));
                }
                if let Some(t) = cx.param_assoc.get(&(a.clone(), b.clone())) {
                    return Ok(t.clone());
                }
                if a == "std" || a == "core" {
                    return Err(format!("unsupported std type {a}::{b}"));
                }
                return Err(format!("unknown associated type {a}::{b}"));
            }
            if segs.len() != 1 {
                return Err(format!("unsupported type path {}", path_str(&p.path)));
            }
            let seg = segs[0];
            let id = seg.ident.to_string();
            let mut args = Vec::new();
            if let PathArguments::AngleBracketed(ab) = &seg.arguments {
                for a in &ab.args {
                    match a {
                        GenericArgument::Type(t) => args.push(ty_to_lean(t, cx, structs)?),
                        GenericArgument::Lifetime(_) => {}
                        _ => return Err("unsupported generic argument".into()),
                    }
                }
            }
            match id.as_str() {
                "f64" => return Ok("F".into()),
                "bool" => return Ok("Bool".into()),
                "usize" => return Ok("Nat".into()),
                "Self" => return cx.self_ty.clone().ok_or_else(|| "Self outside impl".to_string()),
                "Vec" => {
                    if args.len() == 1 {
                        return Ok(format!("(List {})", args[0]));
                    }
                    return Err("Vec arity".into());
                }
                _ => {}
            }
            if let Some(g) = cx.generics.get(&id) {
                return Ok(g.clone());
            }
            if let Some(s) = structs.get(&id) {
                if s.has_lifetime && !s.ref_view {
                    return Err(format!("struct {id} has lifetime parameters"));
                }
                if args.len() != s.params.len() {
                    return Err(format!("struct {id}: expected {} type arguments, got {}", s.params.len(), args.len()));
                }
                let mut parts = vec![id.clone()];
                if s.needs_f {
                    parts.push("F".into());
                }
                parts.extend(args);
                if parts.len() == 1 {
                    return Ok(id);
                }
                return Ok(format!("({})", parts.join(" ")));
            }
            Err(format!("unknown type {id}"))
        }
        _ => Err("unsupported type form".into()),
    }
}

/// short mangled name of a Rust type for instance names
pub fn mangle(ty: &Type) -> String {
    match ty {
        Type::Reference(r) => {
            if r.mutability.is_some() {
                format!("RefMut_{}", mangle(&r.elem))
            } else {
                format!("Ref_{}", mangle(&r.elem))
            }
        }
        Type::Path(p) => {
            let mut out = Vec::new();
            for seg in &p.path.segments {
                let mut s = seg.ident.to_string();
                if let PathArguments::AngleBracketed(ab) = &seg.arguments {
                    for a in &ab.args {
                        if let GenericArgument::Type(t) = a {
                            s.push('_');
                            s.push_str(&mangle(t));
                        }
                    }
                }
                out.push(s);
            }
            out.join("_")
        }
        Type::Array(a) => format!("Arr{}", array_len(&a.len).unwrap_or(0)),
        _ => "X".into(),
    }
}
