//! C18 — placeholder until the serialization campaign lands
use crate::gen::Rng;
use crate::run::Case;
pub fn gen_case(campaign: &str, _r: &mut Rng) -> Case {
    panic!("unknown campaign {campaign}")
}
pub fn run(_c: &Case) -> Option<Vec<(String, String)>> {
    None
}
