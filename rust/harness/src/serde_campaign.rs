//! C18 — serialization: the serde data-model tree the derived `Serialize` impls produce (recorded with a
//! recording `Serializer`), the borsh bytes, and real round trips through serde_json, serde_cbor and borsh.
use crate::gen::*;
use crate::run::{Case, Val};
use crate::types::*;
use crate::with_fixed;
use piecewise_polynomial::*;
use serde::ser::{self, Serialize};
use std::panic::{catch_unwind, AssertUnwindSafe};

#[derive(Debug)]
pub struct RecErr(String);
impl std::fmt::Display for RecErr {
    fn fmt(&self, f: &mut std::fmt::Formatter) -> std::fmt::Result {
        write!(f, "{}", self.0)
    }
}
impl std::error::Error for RecErr {}
impl ser::Error for RecErr {
    fn custom<T: std::fmt::Display>(msg: T) -> Self {
        RecErr(msg.to_string())
    }
}

/// records the calls a `Serialize` impl makes, as a string in the format of `Tree.render` (PP/Core/Serial.lean)
pub struct Rec;
pub struct SeqRec {
    kind: char,
    items: Vec<String>,
}
pub struct StructRec {
    name: &'static str,
    fields: Vec<String>,
}

macro_rules! unsupported {
    ($($f:ident($($t:ty),*)),*) => { $( fn $f(self, $(_: $t),*) -> Result<String, RecErr> { Err(RecErr(format!("unmodelled serde call {}", stringify!($f)))) } )* };
}

impl ser::Serializer for Rec {
    type Ok = String;
    type Error = RecErr;
    type SerializeSeq = SeqRec;
    type SerializeTuple = SeqRec;
    type SerializeTupleStruct = ser::Impossible<String, RecErr>;
    type SerializeTupleVariant = ser::Impossible<String, RecErr>;
    type SerializeMap = ser::Impossible<String, RecErr>;
    type SerializeStruct = StructRec;
    type SerializeStructVariant = ser::Impossible<String, RecErr>;
    unsupported!(serialize_bool(bool), serialize_i8(i8), serialize_i16(i16), serialize_i32(i32), serialize_i64(i64),
        serialize_u8(u8), serialize_u16(u16), serialize_u32(u32), serialize_u64(u64), serialize_f32(f32), serialize_char(char),
        serialize_str(&str), serialize_bytes(&[u8]), serialize_none(), serialize_unit(), serialize_unit_struct(&'static str),
        serialize_unit_variant(&'static str, u32, &'static str));
    fn serialize_f64(self, v: f64) -> Result<String, RecErr> {
        Ok(format!("F{:016x}", v.to_bits()))
    }
    fn serialize_some<T: ?Sized + Serialize>(self, _: &T) -> Result<String, RecErr> {
        Err(RecErr("unmodelled serde call serialize_some".into()))
    }
    fn serialize_newtype_struct<T: ?Sized + Serialize>(self, name: &'static str, value: &T) -> Result<String, RecErr> {
        Ok(format!("N({name},{})", value.serialize(Rec)?))
    }
    fn serialize_newtype_variant<T: ?Sized + Serialize>(self, _: &'static str, _: u32, _: &'static str, _: &T) -> Result<String, RecErr> {
        Err(RecErr("unmodelled serde call serialize_newtype_variant".into()))
    }
    fn serialize_seq(self, _len: Option<usize>) -> Result<SeqRec, RecErr> {
        Ok(SeqRec { kind: 'Q', items: vec![] })
    }
    fn serialize_tuple(self, _len: usize) -> Result<SeqRec, RecErr> {
        Ok(SeqRec { kind: 'T', items: vec![] })
    }
    fn serialize_tuple_struct(self, _: &'static str, _: usize) -> Result<Self::SerializeTupleStruct, RecErr> {
        Err(RecErr("unmodelled serde call serialize_tuple_struct".into()))
    }
    fn serialize_tuple_variant(self, _: &'static str, _: u32, _: &'static str, _: usize) -> Result<Self::SerializeTupleVariant, RecErr> {
        Err(RecErr("unmodelled serde call serialize_tuple_variant".into()))
    }
    fn serialize_map(self, _: Option<usize>) -> Result<Self::SerializeMap, RecErr> {
        Err(RecErr("unmodelled serde call serialize_map".into()))
    }
    fn serialize_struct(self, name: &'static str, _len: usize) -> Result<StructRec, RecErr> {
        Ok(StructRec { name, fields: vec![] })
    }
    fn serialize_struct_variant(self, _: &'static str, _: u32, _: &'static str, _: usize) -> Result<Self::SerializeStructVariant, RecErr> {
        Err(RecErr("unmodelled serde call serialize_struct_variant".into()))
    }
}
impl ser::SerializeSeq for SeqRec {
    type Ok = String;
    type Error = RecErr;
    fn serialize_element<T: ?Sized + Serialize>(&mut self, v: &T) -> Result<(), RecErr> {
        self.items.push(v.serialize(Rec)?);
        Ok(())
    }
    fn end(self) -> Result<String, RecErr> {
        Ok(format!("{}({})", self.kind, self.items.join(",")))
    }
}
impl ser::SerializeTuple for SeqRec {
    type Ok = String;
    type Error = RecErr;
    fn serialize_element<T: ?Sized + Serialize>(&mut self, v: &T) -> Result<(), RecErr> {
        self.items.push(v.serialize(Rec)?);
        Ok(())
    }
    fn end(self) -> Result<String, RecErr> {
        Ok(format!("{}({})", self.kind, self.items.join(",")))
    }
}
impl ser::SerializeStruct for StructRec {
    type Ok = String;
    type Error = RecErr;
    fn serialize_field<T: ?Sized + Serialize>(&mut self, key: &'static str, v: &T) -> Result<(), RecErr> {
        self.fields.push(format!("{key}={}", v.serialize(Rec)?));
        Ok(())
    }
    fn end(self) -> Result<String, RecErr> {
        Ok(format!("S({};{})", self.name, self.fields.join(";")))
    }
}

fn ser_float(r: &mut Rng, finite_only: bool) -> f64 {
    loop {
        let x = match r.below(10) {
            0 => gen_cls(r, Cls::Subnormal),
            1 => *r.pick(&[0.0, -0.0, f64::MAX, f64::MIN_POSITIVE, -f64::MAX, 5e-324, 1.0 / 3.0, 0.1]),
            2 => gen_cls(r, Cls::Huge),
            3 => gen_cls(r, Cls::Tiny),
            4 => {
                if finite_only {
                    1.0
                } else {
                    *r.pick(&[f64::INFINITY, f64::NEG_INFINITY])
                }
            }
            5..=6 => f64::from_bits(r.next()),
            _ => moderate(r).0,
        };
        if !x.is_nan() && !(finite_only && x.is_infinite()) {
            return x;
        }
    }
}

pub fn gen_case(campaign: &str, r: &mut Rng) -> Case {
    assert_eq!(campaign, "serde");
    let kind = *r.pick(&["piece", "piece", "seg", "pw", "pw", "knot"]);
    let tag = *r.pick(crate::campaigns::FIXED_TAGS);
    let finite_only = r.chance(3, 4);
    let n = tag_len(tag);
    let nums = |r: &mut Rng| -> Vec<f64> { (0..n).map(|_| ser_float(r, finite_only)).collect() };
    let mut c = Case::new("serde", tag).set("kind", Val::S(kind.into()));
    match kind {
        "piece" => c = c.set("p", Val::L(nums(r))),
        "knot" => c = c.set("p", Val::L(vec![ser_float(r, finite_only), ser_float(r, finite_only)])),
        "seg" => c = c.set("pw", Val::Pw(vec![(ser_float(r, finite_only), nums(r))])),
        _ => {
            let k = crate::campaigns::size_capped(r, 0, 6, 400); // usually 0..5 segments, sometimes hundreds (length prefixes above 255)
            c = c.set("pw", Val::Pw((0..k).map(|_| (ser_float(r, finite_only), nums(r))).collect()));
        }
    }
    let mut c = c.cls(&format!("{kind}:{tag}:finite={finite_only}"));
    c.nontrivial = kind != "knot";
    c
}

fn bits_eq(a: &[f64], b: &[f64]) -> bool {
    a.len() == b.len() && a.iter().zip(b).all(|(x, y)| x.to_bits() == y.to_bits())
}

/// what the optional `borsh` feature of the crate adds (the harness is built with it - dev and release shards - and
/// WITHOUT it: C18 quantifies over both configurations)
#[cfg(feature = "borsh")]
pub trait MaybeBorsh: borsh::BorshSerialize + borsh::BorshDeserialize {}
#[cfg(feature = "borsh")]
impl<T: borsh::BorshSerialize + borsh::BorshDeserialize> MaybeBorsh for T {}
#[cfg(not(feature = "borsh"))]
pub trait MaybeBorsh {}
#[cfg(not(feature = "borsh"))]
impl<T> MaybeBorsh for T {}

#[cfg(feature = "borsh")]
fn borsh_part<V: MaybeBorsh>(v: &V, flat: &dyn Fn(&V) -> Vec<f64>, orig: &[f64]) -> (String, char) {
    let b = borsh::to_vec(v);
    let hex = match &b {
        Ok(bytes) => bytes.iter().map(|x| format!("{x:02x}")).collect::<String>(),
        Err(_) => "ERR".to_string(),
    };
    let rt = match b.as_ref().ok().and_then(|s| borsh::from_slice::<V>(s).ok()) {
        Some(back) if bits_eq(&flat(&back), orig) => '1',
        _ => '0',
    };
    // the same bytes through a STREAMING reader that delivers at most 3 bytes per `read` call (socket / pipe / BufReader
    // boundary): short reads are legal for `Read::read`, a deserializer must not take one for end of input
    struct Dribble<'a>(&'a [u8]);
    impl<'a> borsh::io::Read for Dribble<'a> {
        fn read(&mut self, buf: &mut [u8]) -> borsh::io::Result<usize> {
            let n = buf.len().min(3).min(self.0.len());
            buf[..n].copy_from_slice(&self.0[..n]);
            self.0 = &self.0[n..];
            Ok(n)
        }
    }
    let rt_stream = match b.as_ref().ok().and_then(|s| V::deserialize_reader(&mut Dribble(s)).ok()) {
        Some(back) if bits_eq(&flat(&back), orig) => '1',
        _ => '0',
    };
    (hex, if rt == '1' && rt_stream == '1' { '1' } else { '0' })
}
#[cfg(not(feature = "borsh"))]
fn borsh_part<V: MaybeBorsh>(_v: &V, _flat: &dyn Fn(&V) -> Vec<f64>, _orig: &[f64]) -> (String, char) {
    ("SKIP".to_string(), '-')
}

fn one<V>(v: &V, flat: &dyn Fn(&V) -> Vec<f64>) -> Vec<(String, String)>
where
    V: Serialize + serde::de::DeserializeOwned + MaybeBorsh,
{
    let tree = Serialize::serialize(v, Rec).unwrap_or_else(|e| format!("ERR:{}", e.0.replace(' ', "_")));
    let orig = flat(v);
    let finite = orig.iter().all(|x| x.is_finite());
    let (borsh_hex, rt_borsh) = borsh_part(v, flat, &orig);
    let rt_json = if !finite {
        '-'
    } else {
        match serde_json::to_string(v).ok().and_then(|s| serde_json::from_str::<V>(&s).ok()) {
            Some(back) if bits_eq(&flat(&back), &orig) => '1',
            _ => '0',
        }
    };
    let rt_cbor = match serde_cbor::to_vec(v).ok().and_then(|s| serde_cbor::from_slice::<V>(&s).ok()) {
        Some(back) if bits_eq(&flat(&back), &orig) => '1',
        _ => '0',
    };
    // a non-self-describing binary format (bincode-like): Deserialize impls that need `deserialize_any` fail here
    let wire = crate::binfmt::to_wire(v);
    let rt_bin = match crate::binfmt::from_wire::<V>(&wire) {
        Ok(back) if bits_eq(&flat(&back), &orig) => '1',
        _ => '0',
    };
    vec![
        ("tree".into(), tree.clone()),
        ("borsh".into(), borsh_hex),
        ("rt".into(), format!("{rt_json}{rt_cbor}{rt_borsh}{rt_bin}")),
        ("impl".into(), "1".into()),
    ]
}

pub fn run(c: &Case) -> Option<Vec<(String, String)>> {
    let tag = c.tag.as_str();
    let kind = c.st("kind").to_string();
    let r = catch_unwind(AssertUnwindSafe(|| -> Option<Vec<(String, String)>> {
        if kind == "knot" {
            let p = c.li("p");
            return Some(one(&Knot { x: p[0], y: p[1] }, &|k: &Knot| vec![k.x, k.y]));
        }
        with_fixed!(tag, T => {
            match kind.as_str() {
                "piece" => one(&T::from_nums(c.li("p")), &|v: &T| v.to_nums()),
                "seg" => {
                    let pw = pw_to::<T>(c.pw("pw"));
                    one(&pw.segments[0], &|s: &Segment<T>| { let mut v = vec![s.end]; v.extend(s.poly.to_nums()); v })
                }
                _ => one(&pw_to::<T>(c.pw("pw")), &|p: &Piecewise<T>| p.segments.iter().flat_map(|s| { let mut v = vec![s.end]; v.extend(s.poly.to_nums()); v }).collect()),
            }
        })
    }));
    match r {
        Ok(v) => v,
        Err(_) => Some(vec![("impl".into(), "PANIC".into())]),
    }
}
