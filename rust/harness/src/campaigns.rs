//! Case generators, one per campaign.  Every random choice comes from the one `Rng`.

use crate::gen::*;
use crate::run::{Case, Val};
use crate::types::*;

pub const ALL_TAGS: &[&str] = &[
    "p0", "p1", "p2", "p3", "p4", "p5", "p6", "p7", "p8", "pn", "l0", "l1", "l2", "l3", "l4", "l5", "l6", "l7", "l8", "i0", "i1",
    "i2", "i3", "i4", "i5", "i6", "i7", "i8", "q4",
];
pub const POLY_TAGS: &[&str] = &["p0", "p1", "p2", "p3", "p4", "p5", "p6", "p7", "p8"];
pub const LOG_TAGS: &[&str] = &["l0", "l1", "l2", "l3", "l4", "l5", "l6", "l7", "l8"];
pub const INTLOG_TAGS: &[&str] = &["i0", "i1", "i2", "i3", "i4", "i5", "i6", "i7", "i8", "q4"];
pub const INTEG_TAGS: &[&str] =
    &["p0", "p1", "p2", "p3", "p4", "p5", "p6", "p7", "l0", "l1", "l2", "l3", "l4", "l5", "l6", "l7", "l8"];
pub const FIXED_TAGS: &[&str] = &[
    "p0", "p1", "p2", "p3", "p4", "p5", "p6", "p7", "p8", "l0", "l1", "l2", "l3", "l4", "l5", "l6", "l7", "l8", "i0", "i1", "i2",
    "i3", "i4", "i5", "i6", "i7", "i8", "q4",
];
pub const MULASSIGN_TAGS: &[&str] = &[
    "p0", "p1", "p2", "p3", "p4", "p5", "p6", "p7", "p8", "l0", "l1", "l2", "l3", "l4", "l5", "l6", "l7", "l8", "i0", "i1", "i2",
    "i3", "i4", "i5", "i6", "i7", "i8",
];
pub const NEGADD_TAGS: &[&str] =
    &["p0", "p1", "p2", "p3", "p4", "p5", "p6", "p7", "p8", "i0", "i1", "i2", "i3", "i4", "i5", "i6", "i7", "i8", "q4"];

/// a size: usually `lo + below(span)`, but one case in twelve is LONG (33..160): code paths that only exist for large
/// inputs (a different search strategy above a length threshold, chunked evaluation, ...) are otherwise never run
fn very_long_enabled() -> bool {
    use std::sync::OnceLock;
    static V: OnceLock<bool> = OnceLock::new();
    *V.get_or_init(|| std::env::var("PP_VERY_LONG").map(|v| v == "1").unwrap_or(false))
}

pub fn size(r: &mut Rng, lo: usize, span: u64) -> usize {
    size_capped(r, lo, span, usize::MAX)
}

/// `size` with a per-campaign cap (campaigns whose model or exact-rational monitor is quadratic in the length)
pub fn size_capped(r: &mut Rng, lo: usize, span: u64, cap: usize) -> usize {
    if r.chance(1, 12) {
        // LONG: log-uniform from just above the ordinary range (so that unroll / SmallVec / cut-off thresholds such as
        // 16, 32, 64, 256, 1024 all fall inside) up to 512 elements - up to 4096 when PP_VERY_LONG=1 (thorough tier, and
        // whenever a check runs at the enlarged budget because the tie to the source is weaker than usual)
        let top: f64 = (if very_long_enabled() { 4096.0f64 } else { 512.0 }).min(cap as f64);
        let base = (lo as f64 + span as f64).max(2.0);
        let e = r.unit();
        let n = (base * (top / base).powf(e)) as usize;
        n.max(lo)
    } else {
        lo + r.below(span) as usize
    }
}

fn ncls(n: usize, cap: usize) -> String {
    if n >= 300 {
        "very-long".to_string()
    } else if n > 32 {
        "long".to_string()
    } else {
        n.min(cap).to_string()
    }
}

/// exact power-of-two rescaling of knot data: (x, y) -> (x*2^a, y*2^b).  `inside`: exponents that keep ordinary data
/// within the monitors' windows (spline 2^+-150, linear 2^+-300); otherwise far outside them (correspondence only).
fn rescale_knots(r: &mut Rng, ks: &mut Vec<(f64, f64)>, down: i64, lim: i64) -> &'static str {
    let (a, b, name) = match r.below(8) {
        0 => (r.range(-lim, lim) as i32, r.range(-lim, lim) as i32, "scaled"),
        1 => {
            // x and y by the SAME factor (slopes unchanged), far down: differences of the size 2^-down
            let e = r.range(-down, lim) as i32;
            (e, e, "scaled-together")
        }
        2 => (0, r.range(-lim, lim) as i32, "y-scaled"),
        3 => (r.range(-lim, lim) as i32, 0, "x-scaled"),
        5 => {
            // between the monitors' windows and the far extremes: judged by the bit-exact correspondence alone
            let e = r.range(lim, (lim * 2).min(850)) as i32;
            let e = if r.chance(1, 2) { e } else { -e };
            (e, if r.chance(1, 2) { e } else { 0 }, "beyond")
        }
        4 => {
            let e = r.range((lim * 2).min(850), 900) as i32;
            (if r.chance(1, 2) { e } else { -e }, if r.chance(1, 2) { e / 2 } else { -e / 2 }, "extreme")
        }
        _ => return "",
    };
    for k in ks.iter_mut() {
        k.0 *= (2.0f64).powi(a);
        k.1 *= (2.0f64).powi(b);
        if k.0 == 0.0 {
            k.0 = 0.0;
        }
    }
    name
}

fn is_logish(tag: &str) -> bool {
    tag.starts_with('l') || tag.starts_with('i') || tag == "q4"
}

fn nums_for(r: &mut Rng, tag: &str, style: u64) -> (Vec<f64>, String) {
    let n = match tag_len(tag) {
        usize::MAX => size(r, 0, 13),
        n => n,
    };
    let mut v = Vec::with_capacity(n);
    let name = match style {
        0 => "int",
        1 => "dyadic",
        2 => "normal",
        3 => "mixed",
        5 => "tiny",
        6 => "huge",
        7 => "near-max",
        _ => "sparse",
    };
    for _ in 0..n {
        let x = match style {
            0 => gen_cls(r, Cls::SmallInt),
            1 => gen_cls(r, Cls::Dyadic),
            2 => gen_cls(r, Cls::Normal),
            3 => moderate(r).0,
            5 => moderate(r).0 * (2.0f64).powi(-(r.range(50, 90) as i32)),
            6 => moderate(r).0 * (2.0f64).powi(r.range(40, 80) as i32),
            7 => {
                // within a factor 16 of f64::MAX: products by 2..9 overflow or not depending on the lane
                let m = 1.0 + r.unit();
                let x = m * (2.0f64).powi(r.range(1019, 1023) as i32);
                if r.chance(1, 2) { -x } else { x }
            }
            _ => {
                if r.chance(1, 2) {
                    0.0
                } else {
                    moderate(r).0
                }
            }
        };
        v.push(x);
    }
    (v, name.to_string())
}

fn piece(r: &mut Rng, tag: &str) -> Vec<f64> {
    let st = r.below(7);
    nums_for(r, tag, st).0
}

/// positive argument for log forms
fn pos_arg(r: &mut Rng) -> (f64, &'static str) {
    match r.below(11) {
        10 => {
            // the ends of the range of positive doubles: subnormal and tiny v (x = -ln v up to 744.4: exp(x) is about to
            // overflow), huge v
            match r.below(3) {
                0 => (f64::from_bits(1 + r.below((1u64 << 52) - 1)), "subnormal"),
                1 => ((2.0f64).powi(-(r.range(990, 1022) as i32)) * (1.0 + r.unit()), "tiny"),
                _ => ((2.0f64).powi(r.range(990, 1023) as i32) * (1.0 + r.unit() * 0.99), "huge"),
            }
        }
        8 | 9 => {
            // |ln v| log-uniform from 1e-9 to 3: every decade of the series branch of the exponential tail
            let e = -9.0 + r.unit() * 9.5;
            let x = (10.0f64).powf(e) * if r.chance(1, 2) { 1.0 } else { -1.0 };
            ((-x).exp(), "log-uniform-near-one")
        }
        0 => (1.0, "one"),
        1 => (next_up(1.0), "one+ulp"),
        2 => (next_down(1.0), "one-ulp"),
        3 => ((r.range(1, 40) as f64) / 8.0, "eighths"),
        4 => (r.unit() * 100.0 + 0.01, "0.01..100"),
        5 => {
            if r.chance(1, 3) {
                ((2.0f64).powi(r.range(-980, 980) as i32) * (1.0 + r.unit() * 0.999), "far")
            } else {
                ((2.0f64).powi(r.range(-30, 30) as i32), "pow2")
            }
        }
        // the series is used for -1.71 < x < 1.72 with x = -ln v: the switches are at v = e^1.71 and v = e^-1.72
        6 => (if r.chance(1, 2) { (1.71f64).exp() } else { (-1.72f64).exp() } * (1.0 + (r.unit() - 0.5) * 1e-3), "near-switch"),
        _ => (r.unit() * 3.0 + 0.05, "0.05..3"),
    }
}

fn pw_pieces(r: &mut Rng, tag: &str, n: usize, positive_ends: bool, reveal: bool) -> Pw {
    let mut ends = sorted_ends(r, n);
    if positive_ends {
        ends = ends.iter().map(|e| if e.is_finite() { e.abs() * 0.5 + 0.25 } else { 3.0 }).collect();
        ends.sort_by(|a, b| a.partial_cmp(b).unwrap());
    }
    ends.iter()
        .enumerate()
        .map(|(i, e)| {
            let p = if reveal && tag == "p0" { vec![(i + 1) as f64 * 10.0] } else { piece(r, tag) };
            (*e, p)
        })
        .collect()
}

pub fn gen_case(campaign: &str, r: &mut Rng) -> Case {
    match campaign {
        "softfloat" => {
            let op = *r.pick(&["add", "sub", "mul", "div", "fma", "fma", "max", "neg", "abs", "lt", "le", "eq", "isnan", "isinf"]);
            let (a, ca) = anyf(r);
            let (mut b, cb) = anyf(r);
            let (mut c, cc) = anyf(r);
            if op == "max" {
                // f64::max on (+0, -0) is platform-defined: not modelled
                if a == 0.0 && b == 0.0 {
                    b = 1.0;
                }
            }
            if r.chance(1, 8) {
                // near-cancelling fma / sub
                c = -(a * b);
            }
            Case::new("sf", "-")
                .set("op", Val::S(op.into()))
                .set("a", Val::F(a))
                .set("b", Val::F(b))
                .set("c", Val::F(c))
                .cls(&format!("{op}:{ca:?}/{cb:?}/{cc:?}"))
        }
        "eval" => {
            let tag = *r.pick(&["p0", "p1", "p2", "p3", "p4", "p5", "p6", "p7", "p8", "pn", "pn"]);
            let mut style = r.below(9);
            if style == 4 {
                style = 8; // "sparse" is the default arm of nums_for
            }
            let (mut p, mut sname) = nums_for(r, tag, if style == 8 { 4 } else { style });
            let (mut x, mut cx) = if style == 0 { (gen_cls(r, Cls::SmallInt), Cls::SmallInt) } else { moderate(r) };
            if r.chance(1, 8) && !p.is_empty() {
                // extreme argument with BALANCED terms: x = +-2^k far outside the moderate range, c_i = m_i * 2^(-k*i)
                // (exact scaling), so that every partial term c_i x^i is an ordinary number while bare powers of x are not
                // |k| up to 500 whatever the length: a coefficient whose scaled value 2^(-k*i) is not a normal number is
                // ZERO instead (trailing zero coefficients with a huge argument: 0 * x^i is an ordinary partial term, a
                // bare power x^i is not), and one in four of the others is zero as well
                let mut k = r.range(40, 500) as i32;
                if r.chance(1, 2) {
                    k = -k;
                }
                // half of the time not a power of two (terms then grow by at most 2^i, still ordinary)
                x = (2.0f64).powi(k) * if r.chance(1, 2) { -1.0 } else { 1.0 } * if r.chance(1, 2) { 1.0 + r.unit() * 0.999 } else { 1.0 };
                cx = Cls::Huge;
                p = (0..p.len())
                    .map(|i| if (k as i64 * i as i64).abs() > 960 || r.chance(1, 4) { 0.0 } else { moderate(r).0 * (2.0f64).powi(-k * i as i32) })
                    .collect();
                sname = "balanced-extreme".to_string();
            } else if r.chance(1, 10) {
                cx = *r.pick(&[Cls::Tiny, Cls::Huge, Cls::Subnormal]);
                x = gen_cls(r, cx);
            }
            let mut c = Case::new("eval", tag).set("p", Val::L(p.clone())).set("x", Val::F(x)).cls(&format!("{tag}:{sname}:{cx:?}{}", if p.len() > 32 { ":long" } else { "" }));
            c.nontrivial = p.len() >= 2 && x != 0.0 && p.iter().filter(|v| **v != 0.0).count() >= 2;
            c
        }
        "eval-log" => {
            let tag = *r.pick(ALL_TAGS);
            let tag = if is_logish(tag) { tag } else { *r.pick(LOG_TAGS) };
            let p = piece(r, tag);
            let (x, cx) = pos_arg(r);
            let mut c = Case::new("eval", tag).set("p", Val::L(p.clone())).set("x", Val::F(x)).cls(&format!("{tag}:{cx}"));
            c.nontrivial = x != 1.0 && p.iter().filter(|v| **v != 0.0).count() >= 2;
            c
        }
        "pweval" => {
            let tag = *r.pick(&["p0", "p0", "p0", "p1", "p3", "pn", "q4", "l2", "i3", "p7", "p8", "i8"]);
            let n = size(r, 1, 12);
            let pw = pw_pieces(r, tag, n, is_logish(tag), true);
            let ends: Vec<f64> = pw.iter().map(|s| s.0).collect();
            let x = if r.chance(1, 40) { f64::NAN } else if is_logish(tag) { ends[r.below(n as u64) as usize].max(0.01) * *r.pick(&[1.0, 0.999, 1.001, 0.5, 2.0]) } else { query_near(r, &ends) };
            let dup = ends.windows(2).any(|w| w[0] == w[1]);
            let hit = ends.iter().any(|e| *e == x);
            let mut c = Case::new("pweval", tag)
                .set("pw", Val::Pw(pw))
                .set("x", Val::F(x))
                .cls(&format!("{tag}:n={}:dup={}:hit={}", ncls(n, 4), dup, hit));
            c.nontrivial = n >= 2;
            c
        }
        "evaluator" | "evaluator-nan" => {
            // also the WIDE piece types (size_of::<Segment<T>>() > 64): a type-size-gated code path is otherwise never run
            let tag = *r.pick(&["p0", "p0", "p0", "p1", "p3", "q4", "p7", "p8", "i6", "l8"]);
            let n = size(r, 1, 9);
            let pw = pw_pieces(r, tag, n, is_logish(tag), true);
            let ends: Vec<f64> = pw.iter().map(|s| s.0).collect();
            let cap = if is_logish(tag) { 12 } else if r.chance(1, 10) || n > 32 { 64 } else { 12 };
            let len = 1 + r.below(cap) as usize;
            let with_nan = campaign == "evaluator-nan";
            let mut xs = Vec::with_capacity(len);
            let mut last = 0usize;
            for _ in 0..len {
                let x = if with_nan && r.chance(1, 4) {
                    f64::NAN
                } else if is_logish(tag) {
                    ends[r.below(n as u64) as usize].max(0.01) * *r.pick(&[1.0, 0.999, 1.001, 0.5, 2.0])
                } else {
                    match r.below(6) {
                        0 => {
                            // small move around the previous segment
                            last = (last + n + (r.below(3) as usize) - 1) % n;
                            *r.pick(&[ends[last], next_up(ends[last]), next_down(ends[last])])
                        }
                        1 => *r.pick(&[ends[0] - 1.0, ends[n - 1] + 1.0, f64::NEG_INFINITY, f64::INFINITY]),
                        _ => query_near(r, &ends),
                    }
                };
                xs.push(x);
            }
            let fwd = xs.windows(2).filter(|w| w[1] > w[0]).count();
            let bwd = xs.windows(2).filter(|w| w[1] < w[0]).count();
            let mut c = Case::new("evaluator", tag)
                .set("pw", Val::Pw(pw))
                .set("xs", Val::L(xs.clone()))
                .cls(&format!("{tag}:n={}:fwd={}:bwd={}:nan={}", ncls(n, 4), fwd.min(3), bwd.min(3), xs.iter().any(|x| x.is_nan())));
            c.nontrivial = n >= 2 && fwd >= 1 && bwd >= 1;
            c
        }
        "evalv" => {
            let tag = *r.pick(&["p0", "p0", "p1", "p3", "q4", "p7", "p8", "i7", "l7"]);
            let n = size(r, 1, 9);
            let pw = pw_pieces(r, tag, n, is_logish(tag), true);
            let ends: Vec<f64> = pw.iter().map(|s| s.0).collect();
            let len = if n > 32 && !is_logish(tag) { r.below(64) as usize } else { r.below(16) as usize };
            let mut xs: Vec<f64> = (0..len)
                .map(|_| if is_logish(tag) { ends[r.below(n as u64) as usize].max(0.01) * *r.pick(&[1.0, 0.999, 1.001, 0.5, 2.0]) } else { query_near(r, &ends) })
                .collect();
            let sorted = r.chance(2, 3);
            if sorted {
                xs.sort_by(|a, b| a.partial_cmp(b).unwrap());
            } else if r.chance(1, 6) && !xs.is_empty() {
                let i = r.below(xs.len() as u64) as usize;
                xs[i] = f64::NAN; // C16: every f64 argument is accepted
            }
            let mut c = Case::new("evalv", tag)
                .set("pw", Val::Pw(pw))
                .set("xs", Val::L(xs.clone()))
                .cls(&format!("{tag}:n={}:len={}:sorted={}", ncls(n, 4), len.min(4), sorted));
            c.nontrivial = n >= 2 && len >= 2;
            c
        }
        "merge" | "merge-reject" => {
            let mut nf = size_capped(r, 1, 6, 400);
            let mut ng = if nf > 32 && r.chance(1, 2) { 1 + r.below(6) as usize } else { size_capped(r, 1, 6, 400) };
            if very_long_enabled() && r.chance(1, 500) {
                // thousands of pieces in BOTH operands (a recursive merge overflows the stack; quadratic behaviour shows)
                nf = 2000 + r.below(3000) as usize;
                ng = 2000 + r.below(3000) as usize;
            }
            let style = r.below(5);
            // index-revealing pieces: k of f's i-th piece = i+1, of g's j-th piece = 1000(j+1)
            let mk = |ends: &[f64], scale: f64, r: &mut Rng, reveal: bool| -> Pw {
                ends.iter()
                    .enumerate()
                    .map(|(i, e)| {
                        let p = if reveal { vec![(i + 1) as f64 * scale, 0.0, 0.0, 0.0, 0.0, 0.0] } else { piece(r, "q4") };
                        (*e, p)
                    })
                    .collect()
            };
            let alphabet: Vec<f64> = (0..8).map(|i| i as f64 * 0.5).collect();
            let mut fe: Vec<f64>;
            let mut ge: Vec<f64>;
            match style {
                0 => {
                    fe = (0..nf).map(|_| *r.pick(&alphabet)).collect();
                    ge = (0..ng).map(|_| *r.pick(&alphabet)).collect();
                }
                1 => {
                    fe = sorted_ends(r, nf);
                    ge = fe.clone();
                    ge.truncate(ng.min(nf));
                }
                2 => {
                    fe = sorted_ends(r, nf);
                    ge = sorted_ends(r, ng);
                }
                3 => {
                    // nested: g inside one interval of f
                    fe = (0..nf).map(|i| i as f64 * 10.0).collect();
                    ge = (0..ng).map(|j| 10.0 + j as f64 * 0.5).collect();
                }
                _ => {
                    fe = sorted_ends(r, nf);
                    ge = vec![*r.pick(&fe)];
                }
            }
            fe.sort_by(|a, b| a.partial_cmp(b).unwrap());
            ge.sort_by(|a, b| a.partial_cmp(b).unwrap());
            let mut cls = format!("style={style}:nf={}:ng={}", nf.min(3), ng.min(3));
            if campaign == "merge-reject" {
                match r.below(3) {
                    0 => {
                        fe.clear();
                        cls.push_str(":empty-f");
                    }
                    1 => {
                        ge.clear();
                        cls.push_str(":empty-g");
                    }
                    _ => {
                        if r.chance(1, 2) {
                            let i = r.below(fe.len() as u64) as usize;
                            fe[i] = f64::NAN;
                        } else {
                            let i = r.below(ge.len() as u64) as usize;
                            ge[i] = f64::NAN;
                        }
                        cls.push_str(":nan-end");
                    }
                }
            }
            let reveal = r.chance(2, 3);
            let f = mk(&fe, 1.0, r, reveal);
            let g = mk(&ge, 1000.0, r, reveal);
            let op = if r.chance(1, 2) { "add" } else { "sub" };
            let mut c = Case::new("merge", "q4")
                .set("op", Val::S(op.into()))
                .set("f", Val::Pw(f))
                .set("g", Val::Pw(g))
                .cls(&format!("{op}:{cls}{}", if nf > 32 || ng > 32 { ":long" } else { "" }));
            c.nontrivial = nf >= 2 && ng >= 2;
            c
        }
        "calculus" => {
            let op = *r.pick(&["deriv", "indef", "integral", "translate"]);
            let tag = match op {
                "deriv" => *r.pick(POLY_TAGS),
                "translate" => *r.pick(ALL_TAGS),
                _ => *r.pick(INTEG_TAGS),
            };
            let p = if op == "deriv" && r.chance(1, 10) { nums_for(r, tag, 7).0 } else { piece(r, tag) };
            let mut c = Case::new(op, tag).set("p", Val::L(p.clone())).cls(&format!("{op}:{tag}"));
            if op == "integral" {
                let kx = if is_logish(tag) {
                    if r.chance(1, 8) { (2.0f64).powi(r.range(-900, 900) as i32) * (1.0 + r.unit()) } else { pos_arg(r).0 }
                } else if r.chance(1, 6) {
                    *r.pick(&[0.0, -0.0, 1.0])
                } else if r.chance(1, 8) {
                    let c = *r.pick(&[Cls::Tiny, Cls::Huge, Cls::Subnormal, Cls::Pow2]);
                    gen_cls(r, c) * if c == Cls::Pow2 { (2.0f64).powi(r.range(-200, 200) as i32) } else { 1.0 }
                } else {
                    moderate(r).0
                };
                let scale = p.iter().fold(0.0f64, |m, v| m.max(v.abs()));
                let ky = if r.chance(1, 3) && scale > 0.0 { moderate(r).0 * scale } else { moderate(r).0 };
                c = c.set("k", Val::L(vec![kx, ky]));
            }
            if op == "translate" {
                let v = if r.chance(1, 8) { let c = *r.pick(&[Cls::Tiny, Cls::Huge, Cls::Subnormal]); gen_cls(r, c) } else { moderate(r).0 };
                c = c.set("v", Val::F(v));
            }
            c.nontrivial = p.iter().any(|v| *v != 0.0);
            c
        }
        "ops" => {
            let op = *r.pick(&["mul", "mulassign", "neg", "add", "translate"]);
            let tag = match op {
                "mul" => *r.pick(FIXED_TAGS),
                "mulassign" => *r.pick(MULASSIGN_TAGS),
                "translate" => *r.pick(ALL_TAGS),
                _ => *r.pick(NEGADD_TAGS),
            };
            let p = piece(r, tag);
            let mut c = Case::new(op, tag).set("p", Val::L(p.clone()));
            let mut cl = format!("{op}:{tag}");
            match op {
                "mul" | "mulassign" => {
                    let (s, cs) = match r.below(6) {
                        0 => (0.0, "zero"),
                        1 => (-1.0, "minus-one"),
                        2 => (gen_cls(r, Cls::Tiny), "tiny"),
                        3 => (gen_cls(r, Cls::Huge), "huge"),
                        _ => (moderate(r).0, "moderate"),
                    };
                    cl.push_str(&format!(":{cs}"));
                    c = c.set("s", Val::F(s));
                }
                "add" => {
                    let mut q = piece(r, tag);
                    if r.chance(1, 5) {
                        q = p.iter().map(|v| -*v).collect(); // exact cancellation
                    }
                    c = c.set("q", Val::L(q));
                }
                "translate" => {
                    let v = if r.chance(1, 4) { moderate(r).0 * (2.0f64).powi(-(r.range(50, 90) as i32)) } else { moderate(r).0 };
                    c = c.set("v", Val::F(v))
                }
                _ => {}
            }
            let mut c = c.cls(&cl);
            c.nontrivial = p.iter().any(|v| *v != 0.0);
            c
        }
        "ops-probe" => {
            // every operator impl that EXISTS in the crate as built now (auto-ref probe), checked number by number
            let (mut op, mut tag) = ("mul", "p0");
            for _ in 0..200 {
                op = *r.pick(crate::probe::PROBE_OPS);
                tag = *r.pick(ALL_TAGS);
                if crate::run::op_exists(tag, op) {
                    break;
                }
            }
            let p = piece(r, tag);
            let mut c = Case::new("opsraw", tag).set("op", Val::S(op.into())).set("p", Val::L(p.clone()));
            let mut cl = format!("{op}:{tag}");
            match op {
                "mul" | "mulassign" | "refmul" => {
                    let (s, cs) = match r.below(6) {
                        0 => (0.0, "zero"),
                        1 => (-1.0, "minus-one"),
                        2 => (gen_cls(r, Cls::Tiny), "tiny"),
                        3 => (gen_cls(r, Cls::Huge), "huge"),
                        _ => (moderate(r).0, "moderate"),
                    };
                    cl.push_str(&format!(":{cs}"));
                    c = c.set("s", Val::F(s));
                }
                "neg" | "refneg" => {}
                _ => {
                    let mut q = piece(r, tag);
                    if tag == "pn" {
                        q.resize(p.len(), 1.0);
                    }
                    if r.chance(1, 5) {
                        q = p.iter().map(|v| if op.starts_with("sub") { *v } else { -*v }).collect(); // exact cancellation
                    }
                    c = c.set("q", Val::L(q));
                }
            }
            let mut c = c.cls(&cl);
            c.nontrivial = p.iter().any(|v| *v != 0.0);
            c
        }
        "merge-probe" => {
            let mut tag = "q4";
            for _ in 0..200 {
                tag = *r.pick(ALL_TAGS);
                if crate::run::merge_exists(tag) {
                    break;
                }
            }
            if !crate::run::merge_exists(tag) {
                tag = "q4";
            }
            let nf = size_capped(r, 1, 6, 200);
            let ng = size_capped(r, 1, 6, 200);
            let f = pw_pieces(r, tag, nf, is_logish(tag), false);
            let g = pw_pieces(r, tag, ng, is_logish(tag), false);
            let op = if r.chance(1, 2) { "add" } else { "sub" };
            let mut c = Case::new("mergeraw", tag).set("op", Val::S(op.into())).set("f", Val::Pw(f)).set("g", Val::Pw(g)).cls(&format!("{op}:{tag}:nf={}:ng={}", ncls(nf, 3), ncls(ng, 3)));
            c.nontrivial = nf >= 2 && ng >= 2;
            c
        }
        "pwops-probe" => {
            // every operator impl that EXISTS on the containers Segment<T> / Piecewise<T> for every piece type (auto-ref probe)
            let (mut op, mut tag, mut level) = ("mul", "p0", "pw");
            for _ in 0..400 {
                op = *r.pick(crate::probe::PROBE_PW_OPS);
                tag = *r.pick(ALL_TAGS);
                level = *r.pick(&["seg", "pw"]);
                if crate::run::pw_op_exists(tag, level, op) {
                    break;
                }
            }
            let n = if level == "seg" { 1 } else { size(r, 0, 8) };
            let pw = pw_pieces(r, tag, n, is_logish(tag), false);
            let mut c = Case::new("pwopsraw", tag).set("op", Val::S(op.into())).set("level", Val::S(level.into())).set("pw", Val::Pw(pw));
            if op != "neg" {
                let s = if r.chance(1, 6) { *r.pick(&[0.0, -1.0, -0.0]) } else { moderate(r).0 };
                c = c.set("s", Val::F(s));
            }
            let mut c = c.cls(&format!("{level}:{op}:{tag}:n={}", ncls(n, 3)));
            c.nontrivial = n >= 1;
            c
        }
        "pwops" => {
            let op = *r.pick(&[
                "pwmul", "segmul", "pwmulassign", "segmulassign", "pwneg", "pwtranslate", "segtranslate", "pwderiv", "segderiv",
            ]);
            let tag = match op {
                "pwmul" | "segmul" => *r.pick(FIXED_TAGS),
                "pwmulassign" | "segmulassign" => *r.pick(MULASSIGN_TAGS),
                "pwneg" => *r.pick(NEGADD_TAGS),
                "pwderiv" | "segderiv" => *r.pick(POLY_TAGS),
                _ => *r.pick(ALL_TAGS),
            };
            let seg_only = op.starts_with("seg");
            let n = if seg_only { 1 } else { size(r, 0, 8) };
            let pw = pw_pieces(r, tag, n, false, false);
            let mut c = Case::new(op, tag).set("pw", Val::Pw(pw));
            if op.contains("mul") {
                c = c.set("s", Val::F(moderate(r).0));
            }
            if op.contains("translate") {
                let v = if r.chance(1, 4) { moderate(r).0 * (2.0f64).powi(-(r.range(50, 90) as i32)) } else { moderate(r).0 };
                c = c.set("v", Val::F(v));
            }
            let mut c = c.cls(&format!("{op}:{tag}:n={}", ncls(n, 3)));
            c.nontrivial = n >= 1;
            c
        }
        "pwintegral" => {
            let op = *r.pick(&["pwintegral", "pwintegral", "pwindef", "integraliter", "segintegral", "segindef"]);
            let tag = *r.pick(INTEG_TAGS);
            let seg_only = op.starts_with("seg");
            let n = if seg_only { 1 } else { size_capped(r, 0, 9, 200) };
            let pw = pw_pieces(r, tag, n, is_logish(tag), false);
            let mut c = Case::new(op, tag).set("pw", Val::Pw(pw.clone()));
            if op != "pwindef" && op != "segindef" {
                let kx = if is_logish(tag) { pos_arg(r).0 } else if n > 0 && r.chance(1, 2) { pw[0].0 - 0.5 } else if n > 0 && r.chance(1, 2) { pw[0].0 + 1.5 } else { moderate(r).0 };
                c = c.set("k", Val::L(vec![kx, moderate(r).0]));
            }
            let mut c = c.cls(&format!("{op}:{tag}:n={}", ncls(n, 3)));
            c.nontrivial = n >= 2;
            c
        }
        "linear" => {
            let n = match r.below(10) {
                0 => r.below(2) as usize, // rejections
                _ => size(r, 2, 12),
            };
            let style = r.below(5);
            let mut x = moderate(r).0;
            if style == 3 {
                x = x.abs() * 1e9;
            }
            let mut ks = vec![];
            for _ in 0..n {
                let dx = match style {
                    0 => r.range(1, 4) as f64,
                    1 => *r.pick(&[f64::EPSILON, next_up(f64::EPSILON), next_down(f64::EPSILON), 0.0, 1.0, 0.5]),
                    2 => r.range(-2, 3) as f64, // out of order / repeated
                    3 => r.unit() + 0.125,
                    _ => moderate(r).0.abs(),
                };
                x += dx;
                if x == 0.0 {
                    x = 0.0; // never -0.0 among abscissae (f64::max on signed zeros is platform-defined)
                }
                ks.push((x, moderate(r).0));
            }
            let sc = rescale_knots(r, &mut ks, 900, 450);
            let mut c = Case::new("linear", "p1").set("knots", Val::Knots(ks)).cls(&format!("style={style}:n={}:{sc}", ncls(n, 4)));
            c.nontrivial = n >= 3;
            c
        }
        "spline" => {
            let n = match r.below(10) {
                0 => r.below(3) as usize,
                _ => size(r, 3, 12),
            };
            let style = r.below(8);
            let yscale = match style {
                6 => (2.0f64).powi(-(r.range(20, 60) as i32)),
                7 => (2.0f64).powi(r.range(20, 60) as i32),
                _ => 1.0,
            };
            let mut x = if style == 4 { moderate(r).0.abs() * 1e6 } else { moderate(r).0 };
            let mut y = moderate(r).0;
            let mut ks = vec![];
            for i in 0..n {
                let dx = match style {
                    0 => 1.0,
                    1 => r.range(1, 8) as f64 * 0.25,
                    _ => r.unit() * 2.0 + 0.01,
                };
                x += dx;
                y = match style {
                    0 => if r.chance(1, 5) { 0.0 } else { y + r.range(-3, 3) as f64 }, // integer data, plateaux (also at 0) and extrema
                    1 => y + r.range(0, 4) as f64 * 0.5,              // monotone with plateaux
                    2 => y + (r.unit() - 0.5),                        // oscillating
                    3 => 2.0 * x + 1.0 + if i % 3 == 0 { 1e-9 * r.unit() } else { 0.0 }, // nearly collinear
                    5 => 3.0 * x - 7.0,                               // collinear
                    6 | 7 => if i % 4 == 3 { y - r.unit() } else { y + r.unit() }, // mostly rising, scaled below
                    _ => y + r.unit(),
                };
                let mut yy = y * yscale;
                if yy == 0.0 && r.chance(1, 2) {
                    yy = -0.0; // plateaux at zero with mixed signed zeros in the DATA
                }
                ks.push((x, yy));
            }
            let sc = rescale_knots(r, &mut ks, 330, 250);
            let mut c = Case::new("spline", "p3").set("knots", Val::Knots(ks)).cls(&format!("style={style}:n={}:{sc}", ncls(n, 5)));
            c.nontrivial = n >= 4;
            c
        }
        "approx" => {
            let pwlevel = r.chance(1, 4);
            let rel = r.chance(1, 2);
            let tag = if pwlevel { *r.pick(FIXED_TAGS) } else { *r.pick(ALL_TAGS) };
            let (eps, ce) = match r.below(5) {
                0 => (0.0, "zero"),
                1 => (f64::EPSILON, "default"),
                2 => (1e-6, "1e-6"),
                3 => (1.0, "one"),
                _ => (moderate(r).0.abs(), "random"),
            };
            let mr = *r.pick(&[f64::EPSILON, 1e-9, 1e-3, 0.0]);
            let perturb = |r: &mut Rng, v: f64, eps: f64| -> f64 {
                match r.below(6) {
                    0 => v + eps * 1.5 + f64::EPSILON * v.abs() * 4.0,
                    1 => v + eps * 0.5,
                    2 => v - eps * 1.5 - f64::EPSILON * v.abs() * 4.0,
                    3 => next_up(v),
                    4 => v * (1.0 + 1e-6),
                    _ => v + eps,
                }
            };
            if pwlevel {
                let n = size_capped(r, 0, 5, 300);
                let pw = pw_pieces(r, tag, n, false, false);
                let mut pw2 = pw.clone();
                let kind = r.below(5);
                match kind {
                    0 => {}
                    1 if n > 0 => {
                        pw2.pop();
                    }
                    2 if n > 0 => {
                        let i = r.below(n as u64) as usize;
                        pw2[i].0 = perturb(r, pw2[i].0, eps);
                    }
                    3 if n > 0 => {
                        let i = r.below(n as u64) as usize;
                        if !pw2[i].1.is_empty() {
                            let j = r.below(pw2[i].1.len() as u64) as usize;
                            pw2[i].1[j] = perturb(r, pw2[i].1[j], eps);
                        }
                    }
                    _ => {
                        if let Some(l) = pw2.last().cloned() {
                            pw2.push(l);
                        }
                    }
                }
                let mut c = Case::new(if rel { "pwreleq" } else { "pwabsdiff" }, tag)
                    .set("pw", Val::Pw(pw))
                    .set("pw2", Val::Pw(pw2))
                    .set("eps", Val::F(eps));
                if rel {
                    c = c.set("mr", Val::F(mr));
                }
                let mut c = c.cls(&format!("pw:{}:{tag}:eps={ce}:kind={kind}", if rel { "rel" } else { "abs" }));
                c.nontrivial = n >= 1;
                c
            } else {
                let p = piece(r, tag);
                let mut q = p.clone();
                let kind = r.below(4);
                if !q.is_empty() {
                    match kind {
                        0 => {}
                        1 => {
                            let j = r.below(q.len() as u64) as usize;
                            q[j] = perturb(r, q[j], eps);
                        }
                        2 => {
                            let j = r.below(q.len() as u64) as usize;
                            q[j] = *r.pick(&[f64::INFINITY, f64::NEG_INFINITY, f64::NAN, -0.0, 0.0]);
                        }
                        _ => q = piece(r, tag),
                    }
                }
                if tag == "pn" && r.chance(1, 3) {
                    if r.chance(1, 2) {
                        q = p.clone(); // equal up to trailing zeros only
                    }
                    q.push(0.0); // different lengths
                }
                let mut c = Case::new(if rel { "releq" } else { "absdiff" }, tag)
                    .set("p", Val::L(p.clone()))
                    .set("q", Val::L(q))
                    .set("eps", Val::F(eps));
                if rel {
                    c = c.set("mr", Val::F(mr));
                }
                let mut c = c.cls(&format!("{}:{tag}:eps={ce}:kind={kind}", if rel { "rel" } else { "abs" }));
                c.nontrivial = p.len() >= 2;
                c
            }
        }
        other => panic!("unknown campaign {other}"),
    }
}
