//! Wire encoding of the crate's types and the tag → type dispatch.

use piecewise_polynomial::*;

pub fn hx(x: f64) -> String {
    format!("{:016x}", x.to_bits())
}
pub fn hxs(xs: &[f64]) -> String {
    xs.iter().map(|x| hx(*x)).collect::<Vec<_>>().join(",")
}

pub trait Nums: Sized {
    const LEN: usize; // usize::MAX = variable
    fn from_nums(n: &[f64]) -> Self;
    fn to_nums(&self) -> Vec<f64>;
}

impl Nums for Poly0 {
    const LEN: usize = 1;
    fn from_nums(n: &[f64]) -> Self {
        Poly0(n[0])
    }
    fn to_nums(&self) -> Vec<f64> {
        vec![self.0]
    }
}
macro_rules! nums_poly {
    ($t:ident, $n:expr) => {
        impl Nums for $t {
            const LEN: usize = $n;
            fn from_nums(n: &[f64]) -> Self {
                let mut a = [0.0; $n];
                a.copy_from_slice(&n[..$n]);
                $t(a)
            }
            fn to_nums(&self) -> Vec<f64> {
                self.0.to_vec()
            }
        }
    };
}
nums_poly!(Poly1, 2);
nums_poly!(Poly2, 3);
nums_poly!(Poly3, 4);
nums_poly!(Poly4, 5);
nums_poly!(Poly5, 6);
nums_poly!(Poly6, 7);
nums_poly!(Poly7, 8);
nums_poly!(Poly8, 9);
impl Nums for PolyN {
    const LEN: usize = usize::MAX;
    fn from_nums(n: &[f64]) -> Self {
        PolyN(n.to_vec())
    }
    fn to_nums(&self) -> Vec<f64> {
        self.0.clone()
    }
}
impl<T: Nums> Nums for Log<T> {
    const LEN: usize = T::LEN;
    fn from_nums(n: &[f64]) -> Self {
        Log(T::from_nums(n))
    }
    fn to_nums(&self) -> Vec<f64> {
        self.0.to_nums()
    }
}
impl<T: Nums> Nums for IntOfLog<T> {
    const LEN: usize = T::LEN + 1;
    fn from_nums(n: &[f64]) -> Self {
        IntOfLog { k: n[0], poly: T::from_nums(&n[1..]) }
    }
    fn to_nums(&self) -> Vec<f64> {
        let mut v = vec![self.k];
        v.extend(self.poly.to_nums());
        v
    }
}
impl Nums for IntOfLogPoly4 {
    const LEN: usize = 6;
    fn from_nums(n: &[f64]) -> Self {
        IntOfLogPoly4 { k: n[0], coeffs: [n[1], n[2], n[3], n[4]], u: n[5] }
    }
    fn to_nums(&self) -> Vec<f64> {
        vec![self.k, self.coeffs[0], self.coeffs[1], self.coeffs[2], self.coeffs[3], self.u]
    }
}

pub fn tag_len(tag: &str) -> usize {
    let b = tag.as_bytes();
    if tag == "pn" {
        return usize::MAX;
    }
    if tag == "q4" {
        return 6;
    }
    let d = (b[1] - b'0') as usize;
    match b[0] {
        b'p' | b'l' => d + 1,
        b'i' => d + 2,
        _ => 0,
    }
}

pub type Pw = Vec<(f64, Vec<f64>)>;

pub fn pw_to<T: Nums>(pw: &Pw) -> Piecewise<T> {
    Piecewise { segments: pw.iter().map(|(e, n)| Segment { end: *e, poly: T::from_nums(n) }).collect() }
}
pub fn pw_from<T: Nums>(p: &Piecewise<T>) -> Pw {
    p.segments.iter().map(|s| (s.end, s.poly.to_nums())).collect()
}
pub fn segs_from<T: Nums>(p: &[Segment<T>]) -> Pw {
    p.iter().map(|s| (s.end, s.poly.to_nums())).collect()
}
pub fn show_pw(pw: &Pw) -> String {
    pw.iter().map(|(e, n)| format!("{}:{}", hx(*e), hxs(n))).collect::<Vec<_>>().join(";")
}

/// `with_all!(tag, T => expr)`: run `expr` with `T` bound to the type named by the tag
#[macro_export]
macro_rules! with_types {
    ($tag:expr, $T:ident => $body:expr, [$( $name:literal => $ty:ty ),* $(,)?]) => {
        match $tag {
            $( $name => { type $T = $ty; Some($body) } )*
            _ => None,
        }
    };
}

#[macro_export]
macro_rules! with_all {
    ($tag:expr, $T:ident => $body:expr) => {
        $crate::with_types!($tag, $T => $body, [
            "p0" => Poly0, "p1" => Poly1, "p2" => Poly2, "p3" => Poly3, "p4" => Poly4, "p5" => Poly5, "p6" => Poly6,
            "p7" => Poly7, "p8" => Poly8, "pn" => PolyN,
            "l0" => Log<Poly0>, "l1" => Log<Poly1>, "l2" => Log<Poly2>, "l3" => Log<Poly3>, "l4" => Log<Poly4>,
            "l5" => Log<Poly5>, "l6" => Log<Poly6>, "l7" => Log<Poly7>, "l8" => Log<Poly8>,
            "i0" => IntOfLog<Poly0>, "i1" => IntOfLog<Poly1>, "i2" => IntOfLog<Poly2>, "i3" => IntOfLog<Poly3>,
            "i4" => IntOfLog<Poly4>, "i5" => IntOfLog<Poly5>, "i6" => IntOfLog<Poly6>, "i7" => IntOfLog<Poly7>,
            "i8" => IntOfLog<Poly8>, "q4" => IntOfLogPoly4,
        ])
    };
}
#[macro_export]
macro_rules! with_fixed {
    ($tag:expr, $T:ident => $body:expr) => {
        $crate::with_types!($tag, $T => $body, [
            "p0" => Poly0, "p1" => Poly1, "p2" => Poly2, "p3" => Poly3, "p4" => Poly4, "p5" => Poly5, "p6" => Poly6,
            "p7" => Poly7, "p8" => Poly8,
            "l0" => Log<Poly0>, "l1" => Log<Poly1>, "l2" => Log<Poly2>, "l3" => Log<Poly3>, "l4" => Log<Poly4>,
            "l5" => Log<Poly5>, "l6" => Log<Poly6>, "l7" => Log<Poly7>, "l8" => Log<Poly8>,
            "i0" => IntOfLog<Poly0>, "i1" => IntOfLog<Poly1>, "i2" => IntOfLog<Poly2>, "i3" => IntOfLog<Poly3>,
            "i4" => IntOfLog<Poly4>, "i5" => IntOfLog<Poly5>, "i6" => IntOfLog<Poly6>, "i7" => IntOfLog<Poly7>,
            "i8" => IntOfLog<Poly8>, "q4" => IntOfLogPoly4,
        ])
    };
}
#[macro_export]
macro_rules! with_mulassign {
    ($tag:expr, $T:ident => $body:expr) => {
        $crate::with_types!($tag, $T => $body, [
            "p0" => Poly0, "p1" => Poly1, "p2" => Poly2, "p3" => Poly3, "p4" => Poly4, "p5" => Poly5, "p6" => Poly6,
            "p7" => Poly7, "p8" => Poly8,
            "l0" => Log<Poly0>, "l1" => Log<Poly1>, "l2" => Log<Poly2>, "l3" => Log<Poly3>, "l4" => Log<Poly4>,
            "l5" => Log<Poly5>, "l6" => Log<Poly6>, "l7" => Log<Poly7>, "l8" => Log<Poly8>,
            "i0" => IntOfLog<Poly0>, "i1" => IntOfLog<Poly1>, "i2" => IntOfLog<Poly2>, "i3" => IntOfLog<Poly3>,
            "i4" => IntOfLog<Poly4>, "i5" => IntOfLog<Poly5>, "i6" => IntOfLog<Poly6>, "i7" => IntOfLog<Poly7>,
            "i8" => IntOfLog<Poly8>,
        ])
    };
}
#[macro_export]
macro_rules! with_negadd {
    ($tag:expr, $T:ident => $body:expr) => {
        $crate::with_types!($tag, $T => $body, [
            "p0" => Poly0, "p1" => Poly1, "p2" => Poly2, "p3" => Poly3, "p4" => Poly4, "p5" => Poly5, "p6" => Poly6,
            "p7" => Poly7, "p8" => Poly8,
            "i0" => IntOfLog<Poly0>, "i1" => IntOfLog<Poly1>, "i2" => IntOfLog<Poly2>, "i3" => IntOfLog<Poly3>,
            "i4" => IntOfLog<Poly4>, "i5" => IntOfLog<Poly5>, "i6" => IntOfLog<Poly6>, "i7" => IntOfLog<Poly7>,
            "i8" => IntOfLog<Poly8>, "q4" => IntOfLogPoly4,
        ])
    };
}
#[macro_export]
macro_rules! with_deriv {
    ($tag:expr, $T:ident => $body:expr) => {
        $crate::with_types!($tag, $T => $body, [
            "p0" => Poly0, "p1" => Poly1, "p2" => Poly2, "p3" => Poly3, "p4" => Poly4, "p5" => Poly5, "p6" => Poly6,
            "p7" => Poly7, "p8" => Poly8,
        ])
    };
}
#[macro_export]
macro_rules! with_integ {
    ($tag:expr, $T:ident => $body:expr) => {
        $crate::with_types!($tag, $T => $body, [
            "p0" => Poly0, "p1" => Poly1, "p2" => Poly2, "p3" => Poly3, "p4" => Poly4, "p5" => Poly5, "p6" => Poly6,
            "p7" => Poly7,
            "l0" => Log<Poly0>, "l1" => Log<Poly1>, "l2" => Log<Poly2>, "l3" => Log<Poly3>, "l4" => Log<Poly4>,
            "l5" => Log<Poly5>, "l6" => Log<Poly6>, "l7" => Log<Poly7>, "l8" => Log<Poly8>,
        ])
    };
}
