//! One PRNG, structured float generators.

pub struct Rng(pub u64);

impl Rng {
    pub fn new(seed: u64) -> Self {
        // splitmix to avoid the all-zero state
        let mut z = seed.wrapping_add(0x9E3779B97F4A7C15);
        z = (z ^ (z >> 30)).wrapping_mul(0xBF58476D1CE4E5B9);
        z = (z ^ (z >> 27)).wrapping_mul(0x94D049BB133111EB);
        z ^= z >> 31;
        Rng(if z == 0 { 0x1234_5678_9ABC_DEF1 } else { z })
    }
    pub fn next(&mut self) -> u64 {
        let mut x = self.0;
        x ^= x << 13;
        x ^= x >> 7;
        x ^= x << 17;
        self.0 = x;
        x.wrapping_mul(0x2545F4914F6CDD1D)
    }
    pub fn below(&mut self, n: u64) -> u64 {
        if n == 0 {
            0
        } else {
            self.next() % n
        }
    }
    pub fn range(&mut self, lo: i64, hi: i64) -> i64 {
        lo + self.below((hi - lo + 1) as u64) as i64
    }
    pub fn chance(&mut self, num: u64, den: u64) -> bool {
        self.below(den) < num
    }
    pub fn pick<'a, T>(&mut self, xs: &'a [T]) -> &'a T {
        &xs[self.below(xs.len() as u64) as usize]
    }
    pub fn unit(&mut self) -> f64 {
        (self.next() >> 11) as f64 / (1u64 << 53) as f64
    }
}

#[derive(Clone, Copy, Debug, PartialEq, Eq, Hash, PartialOrd, Ord)]
pub enum Cls {
    SmallInt,
    Dyadic,
    Normal,
    NearOne,
    Pow2,
    Zero,
    Inf,
    NaN,
    Subnormal,
    Huge,
    Tiny,
    RawBits,
}

pub fn gen_cls(r: &mut Rng, c: Cls) -> f64 {
    match c {
        Cls::SmallInt => r.range(-20, 20) as f64,
        Cls::Dyadic => r.range(-4096, 4096) as f64 / (1u64 << r.below(11)) as f64,
        Cls::Normal => {
            let e = 1023 - 30 + r.below(61);
            f64::from_bits((r.next() & 0x800F_FFFF_FFFF_FFFF) | (e << 52))
        }
        Cls::NearOne => {
            let d = r.range(-64, 64);
            let b = (1.0f64.to_bits() as i64 + d) as u64;
            let x = f64::from_bits(b);
            if r.chance(1, 2) {
                -x
            } else {
                x
            }
        }
        Cls::Pow2 => {
            let e = r.range(-40, 40);
            let x = (2.0f64).powi(e as i32);
            if r.chance(1, 2) {
                -x
            } else {
                x
            }
        }
        Cls::Zero => {
            if r.chance(1, 2) {
                0.0
            } else {
                -0.0
            }
        }
        Cls::Inf => {
            if r.chance(1, 2) {
                f64::INFINITY
            } else {
                f64::NEG_INFINITY
            }
        }
        Cls::NaN => f64::NAN,
        Cls::Subnormal => f64::from_bits(r.next() & 0x800F_FFFF_FFFF_FFFF),
        Cls::Huge => f64::from_bits((r.next() & 0x800F_FFFF_FFFF_FFFF) | ((0x7FD + r.below(2)) << 52)),
        Cls::Tiny => f64::from_bits((r.next() & 0x800F_FFFF_FFFF_FFFF) | ((1 + r.below(3)) << 52)),
        Cls::RawBits => f64::from_bits(r.next()),
    }
}

/// finite, moderate magnitude: the quantifier of the numeric properties
pub fn moderate(r: &mut Rng) -> (f64, Cls) {
    let c = match r.below(10) {
        0..=2 => Cls::SmallInt,
        3..=4 => Cls::Dyadic,
        5..=7 => Cls::Normal,
        8 => Cls::NearOne,
        _ => Cls::Pow2,
    };
    (gen_cls(r, c), c)
}

/// any f64 at all
pub fn anyf(r: &mut Rng) -> (f64, Cls) {
    let c = match r.below(20) {
        0..=3 => Cls::SmallInt,
        4..=5 => Cls::Dyadic,
        6..=8 => Cls::Normal,
        9 => Cls::NearOne,
        10 => Cls::Pow2,
        11 => Cls::Zero,
        12 => Cls::Inf,
        13 => Cls::NaN,
        14 => Cls::Subnormal,
        15 => Cls::Huge,
        16 => Cls::Tiny,
        _ => Cls::RawBits,
    };
    (gen_cls(r, c), c)
}

pub fn next_up(x: f64) -> f64 {
    if x.is_nan() || x == f64::INFINITY {
        return x;
    }
    if x == 0.0 {
        return f64::from_bits(1);
    }
    let b = x.to_bits();
    if x > 0.0 {
        f64::from_bits(b + 1)
    } else {
        f64::from_bits(b - 1)
    }
}

pub fn next_down(x: f64) -> f64 {
    -next_up(-x)
}

/// non-decreasing ends with duplicates / zero-width segments, from a small alphabet or random
pub fn sorted_ends(r: &mut Rng, n: usize) -> Vec<f64> {
    let mut v: Vec<f64> = Vec::with_capacity(n);
    let style = r.below(4);
    for _ in 0..n {
        let x = match style {
            0 => r.range(-5, 5) as f64,
            1 => moderate(r).0,
            2 => r.range(-3, 3) as f64 * 0.5,
            _ => {
                if r.chance(1, 6) {
                    *r.pick(&[f64::NEG_INFINITY, f64::INFINITY, 0.0, -0.0, f64::MAX, f64::MIN_POSITIVE])
                } else {
                    moderate(r).0
                }
            }
        };
        v.push(x);
    }
    v.sort_by(|a, b| a.partial_cmp(b).unwrap());
    v
}

/// query points around a set of ends
pub fn query_near(r: &mut Rng, ends: &[f64]) -> f64 {
    match r.below(12) {
        0 => f64::NEG_INFINITY,
        1 => f64::INFINITY,
        2 => moderate(r).0,
        3 => ends[0] - 1.0,
        4 => ends[ends.len() - 1] + 1.0,
        5..=7 => *r.pick(ends),
        8 => next_up(*r.pick(ends)),
        9 => next_down(*r.pick(ends)),
        _ => {
            let a = *r.pick(ends);
            let b = *r.pick(ends);
            let m = a + (b - a) * r.unit();
            if m.is_nan() {
                a
            } else {
                m
            }
        }
    }
}
