//! Exhaustive small-scope campaigns (thorough tier): every well-formed segment list of at most 3 (merge: 4)
//! pieces with ends from a 5-value alphabet (duplicates allowed), every query history of length at most 4 over
//! a 9-value alphabet {−∞, below, each kind of hit, between, above, +∞, NaN}.  Index-revealing `Poly0` pieces.
use crate::run::{Case, Val};
use crate::types::Pw;

const ENDS: [f64; 5] = [-1.0, 0.0, 1.0, 2.0, 3.0];
const QUERIES: [f64; 9] = [f64::NEG_INFINITY, -2.0, -1.0, 0.0, 0.5, 2.0, 3.0, f64::INFINITY, f64::NAN];

const ENDS_S: [f64; 4] = [-1.0, 0.0, 1.0, 2.0];
const QUERIES_S: [f64; 7] = [f64::NEG_INFINITY, -2.0, 0.0, 0.5, 2.0, f64::INFINITY, f64::NAN];

fn sorted_lists_over(alpha: &[f64], max_len: usize) -> Vec<Vec<f64>> {
    // non-decreasing sequences over the alphabet of length 1..=max_len
    let mut out = vec![];
    fn go(alpha: &[f64], cur: &mut Vec<usize>, max_len: usize, out: &mut Vec<Vec<f64>>) {
        if !cur.is_empty() {
            out.push(cur.iter().map(|i| alpha[*i]).collect());
        }
        if cur.len() == max_len {
            return;
        }
        let start = cur.last().cloned().unwrap_or(0);
        for i in start..alpha.len() {
            cur.push(i);
            go(alpha, cur, max_len, out);
            cur.pop();
        }
    }
    go(alpha, &mut vec![], max_len, &mut out);
    out
}
fn sorted_lists(max_len: usize) -> Vec<Vec<f64>> {
    sorted_lists_over(&ENDS, max_len)
}

fn histories(max_len: usize) -> Vec<Vec<f64>> {
    histories_over(&QUERIES, max_len)
}
fn histories_over(alpha: &[f64], max_len: usize) -> Vec<Vec<f64>> {
    let mut out: Vec<Vec<f64>> = vec![];
    let mut layer: Vec<Vec<f64>> = vec![vec![]];
    for _ in 0..max_len {
        let mut next = vec![];
        for h in &layer {
            for q in alpha.iter().cloned() {
                let mut h2 = h.clone();
                h2.push(q);
                next.push(h2);
            }
        }
        out.extend(next.iter().cloned());
        layer = next;
    }
    out
}

fn reveal_p0(ends: &[f64]) -> Pw {
    ends.iter().enumerate().map(|(i, e)| (*e, vec![(i + 1) as f64 * 10.0])).collect()
}
fn reveal_q4(ends: &[f64], scale: f64) -> Pw {
    ends.iter().enumerate().map(|(i, e)| (*e, vec![(i + 1) as f64 * scale, 0.0, 0.0, 0.0, 0.0, 0.0])).collect()
}

pub fn scope(campaign: &str) -> &'static str {
    match campaign {
        "exh-pweval" => "all 55 non-decreasing end lists of length 1..3 over {-1,0,1,2,3} x all 9 queries {-inf,-2,-1,0,0.5,2,3,+inf,NaN}",
        "exh-evaluator" => "all 55 end lists of length 1..3 over 5 values x all 7380 query histories of length 1..4 over 9 values (NaN, +-inf included)",
        "exh-evalv" => "all 55 end lists of length 1..3 over 5 values x all 7380 argument sequences of length 1..4 over 9 values",
        "exh-merge" => "all 125 x 125 pairs of non-decreasing end lists of length 1..4 over 5 values, both + and -",
        "exh-evaluator-s" => "all 14 end lists of length 1..2 over {-1,0,1,2} x all 399 query histories of length 1..3 over {-inf,-2,0,0.5,2,+inf,NaN}",
        "exh-evalv-s" => "all 14 end lists of length 1..2 over {-1,0,1,2} x all 399 argument sequences of length 1..3 over {-inf,-2,0,0.5,2,+inf,NaN}",
        "exh-merge-s" => "all 34 x 34 pairs of non-decreasing end lists of length 1..3 over {-1,0,1,2}, both + and -",
        _ => "",
    }
}

/// the `shard`-th of `shards` slices of the enumeration
pub fn enumerate(campaign: &str, shard: usize, shards: usize) -> Vec<Case> {
    let mut out = vec![];
    let mut idx = 0usize;
    let mut push = |c: Case, out: &mut Vec<Case>| {
        if idx % shards == shard {
            out.push(c);
        }
        idx += 1;
    };
    match campaign {
        "exh-pweval" => {
            for e in sorted_lists(3) {
                for q in QUERIES {
                    push(Case::new("pweval", "p0").set("pw", Val::Pw(reveal_p0(&e))).set("x", Val::F(q)).cls("exh"), &mut out);
                }
            }
        }
        "exh-evaluator-s" | "exh-evalv-s" => {
            let hs = histories_over(&QUERIES_S, 3);
            let cmd = if campaign == "exh-evaluator-s" { "evaluator" } else { "evalv" };
            for e in sorted_lists_over(&ENDS_S, 2) {
                for h in &hs {
                    push(Case::new(cmd, "p0").set("pw", Val::Pw(reveal_p0(&e))).set("xs", Val::L(h.clone())).cls("exh"), &mut out);
                }
            }
        }
        "exh-merge-s" => {
            let ls = sorted_lists_over(&ENDS_S, 3);
            for f in &ls {
                for g in &ls {
                    for op in ["add", "sub"] {
                        push(
                            Case::new("merge", "q4")
                                .set("op", Val::S(op.into()))
                                .set("f", Val::Pw(reveal_q4(f, 1.0)))
                                .set("g", Val::Pw(reveal_q4(g, 1000.0)))
                                .cls("exh"),
                            &mut out,
                        );
                    }
                }
            }
        }
        "exh-evaluator" | "exh-evalv" => {
            let hs = histories(4);
            let cmd = if campaign == "exh-evaluator" { "evaluator" } else { "evalv" };
            for e in sorted_lists(3) {
                for h in &hs {
                    push(Case::new(cmd, "p0").set("pw", Val::Pw(reveal_p0(&e))).set("xs", Val::L(h.clone())).cls("exh"), &mut out);
                }
            }
        }
        "exh-merge" => {
            let ls = sorted_lists(4);
            for f in &ls {
                for g in &ls {
                    for op in ["add", "sub"] {
                        push(
                            Case::new("merge", "q4")
                                .set("op", Val::S(op.into()))
                                .set("f", Val::Pw(reveal_q4(f, 1.0)))
                                .set("g", Val::Pw(reveal_q4(g, 1000.0)))
                                .cls("exh"),
                            &mut out,
                        );
                    }
                }
            }
        }
        other => panic!("unknown exhaustive campaign {other}"),
    }
    out
}
