//! Correspondence harness: generates cases, runs the REAL crate in-process, asks the Lean driver
//! (`ppdrv`) for the model's verdict, shrinks failures, writes a JSON report.
//!
//! pp_harness --campaign <name> --n <cases> --seed <s> --drv <path> --out <json> [--corpus <file>]
//! pp_harness --replay <file> --drv <path>

mod binfmt;
mod campaigns;
mod exhaustive;
mod extra;
mod serde_campaign;
mod gen;
mod probe;
mod run;
mod types;

use gen::Rng;
use run::{run_impl, Case, Val};
use std::collections::{BTreeMap, HashSet};
use std::io::{BufRead, BufReader, Write};
use std::process::{Child, ChildStdin, ChildStdout, Command, Stdio};
use std::time::Instant;

pub struct Drv {
    _child: Child,
    stdin: ChildStdin,
    stdout: BufReader<ChildStdout>,
    pub needs: u64,
}

impl Drv {
    pub fn start(path: &str) -> Drv {
        let mut child = Command::new(path).stdin(Stdio::piped()).stdout(Stdio::piped()).spawn().expect("cannot start driver");
        let stdin = child.stdin.take().unwrap();
        let stdout = BufReader::new(child.stdout.take().unwrap());
        Drv { _child: child, stdin, stdout, needs: 0 }
    }
    fn ask_raw(&mut self, line: &str) -> String {
        self.stdin.write_all(line.as_bytes()).unwrap();
        self.stdin.write_all(b"\n").unwrap();
        self.stdin.flush().unwrap();
        let mut resp = String::new();
        self.stdout.read_line(&mut resp).expect("driver died");
        if resp.is_empty() {
            panic!("driver closed its output on request: {line}");
        }
        resp.trim_end().to_string()
    }
    /// ask, answering `need ln|exp` requests with the real libm
    pub fn ask(&mut self, line: &str) -> String {
        let mut ln: Vec<(u64, u64)> = vec![];
        let mut ex: Vec<(u64, u64)> = vec![];
        for _ in 0..600 {
            let mut full = line.to_string();
            if !ln.is_empty() {
                full.push_str(" ln=");
                full.push_str(&ln.iter().map(|(a, b)| format!("{a:016x}:{b:016x}")).collect::<Vec<_>>().join(","));
            }
            if !ex.is_empty() {
                full.push_str(" exp=");
                full.push_str(&ex.iter().map(|(a, b)| format!("{a:016x}:{b:016x}")).collect::<Vec<_>>().join(","));
            }
            let resp = self.ask_raw(&full);
            if let Some(rest) = resp.strip_prefix("need ") {
                self.needs += 1;
                let mut it = rest.split(' ');
                let which = it.next().unwrap_or("");
                let arg = u64::from_str_radix(it.next().unwrap_or("0"), 16).unwrap_or(0);
                let x = f64::from_bits(arg);
                match which {
                    "ln" => ln.push((arg, x.ln().to_bits())),
                    "exp" => ex.push((arg, x.exp().to_bits())),
                    _ => return format!("bad need {resp}"),
                }
                continue;
            }
            return resp;
        }
        "bad too many need round trips".into()
    }
}

fn full_request(c: &Case) -> String {
    let mut s = c.request_prefix();
    for (k, v) in run_impl(c) {
        s.push(' ');
        s.push_str(&k);
        s.push('=');
        s.push_str(&v);
    }
    s
}

fn kind_of(resp: &str) -> String {
    if resp == "ok" {
        "ok".into()
    } else if resp.starts_with("DISAGREE") {
        "DISAGREE".into()
    } else if let Some(r) = resp.strip_prefix("MONFAIL ") {
        // same monitor clause: ignore embedded values
        let head: String = r.chars().take_while(|c| !c.is_ascii_digit() && *c != '(' && *c != '#').collect();
        format!("MONFAIL {head}")
    } else {
        "bad".into()
    }
}

fn simpler_floats(x: f64) -> Vec<f64> {
    let mut v = vec![];
    if x.is_nan() {
        return v;
    }
    for c in [0.0, 1.0, -1.0, 2.0, x.trunc(), (x * 4.0).round() / 4.0, x as f32 as f64] {
        if c.to_bits() != x.to_bits() && c.is_finite() {
            v.push(c);
        }
    }
    v
}

fn sorted_pw(pw: &types::Pw) -> bool {
    pw.iter().all(|s| !s.0.is_nan()) && pw.windows(2).all(|w| w[0].0 <= w[1].0)
}
fn increasing_knots(ks: &[(f64, f64)]) -> bool {
    ks.windows(2).all(|w| w[0].0 < w[1].0)
}

/// candidate simplifications of a case (one step each); well-formedness of the original
/// (sorted breakpoints, strictly increasing abscissae) is preserved
fn shrink_candidates(c: &Case) -> Vec<Case> {
    let all = shrink_candidates_raw(c);
    all.into_iter()
        .filter(|d| {
            d.f.iter().all(|(k, v)| match (v, c.f.get(k)) {
                (Val::Pw(n), Some(Val::Pw(o))) => !sorted_pw(o) || sorted_pw(n),
                (Val::Knots(n), Some(Val::Knots(o))) => !increasing_knots(o) || increasing_knots(n),
                _ => true,
            })
        })
        .collect()
}

fn shrink_candidates_raw(c: &Case) -> Vec<Case> {
    let mut out = vec![];
    for (k, v) in &c.f {
        match v {
            Val::F(x) => {
                for s in simpler_floats(*x) {
                    let mut d = c.clone();
                    d.f.insert(k.clone(), Val::F(s));
                    out.push(d);
                }
            }
            Val::L(xs) => {
                let removable = k == "xs" || c.tag == "pn";
                if removable {
                    for i in 0..xs.len() {
                        let mut ys = xs.clone();
                        ys.remove(i);
                        let mut d = c.clone();
                        d.f.insert(k.clone(), Val::L(ys));
                        out.push(d);
                    }
                }
                for i in 0..xs.len() {
                    for s in simpler_floats(xs[i]) {
                        let mut ys = xs.clone();
                        ys[i] = s;
                        let mut d = c.clone();
                        d.f.insert(k.clone(), Val::L(ys));
                        out.push(d);
                    }
                }
            }
            Val::Pw(pw) => {
                for i in 0..pw.len() {
                    let mut q = pw.clone();
                    q.remove(i);
                    let mut d = c.clone();
                    d.f.insert(k.clone(), Val::Pw(q));
                    out.push(d);
                }
                for i in 0..pw.len() {
                    for s in simpler_floats(pw[i].0) {
                        let mut q = pw.clone();
                        q[i].0 = s;
                        let mut d = c.clone();
                        d.f.insert(k.clone(), Val::Pw(q));
                        out.push(d);
                    }
                    for j in 0..pw[i].1.len() {
                        for s in simpler_floats(pw[i].1[j]).into_iter().take(3) {
                            let mut q = pw.clone();
                            q[i].1[j] = s;
                            let mut d = c.clone();
                            d.f.insert(k.clone(), Val::Pw(q));
                            out.push(d);
                        }
                    }
                }
            }
            Val::Knots(ks) => {
                for i in 0..ks.len() {
                    let mut q = ks.clone();
                    q.remove(i);
                    let mut d = c.clone();
                    d.f.insert(k.clone(), Val::Knots(q));
                    out.push(d);
                }
                for i in 0..ks.len() {
                    for s in simpler_floats(ks[i].0).into_iter().take(3) {
                        let mut q = ks.clone();
                        q[i].0 = s;
                        let mut d = c.clone();
                        d.f.insert(k.clone(), Val::Knots(q));
                        out.push(d);
                    }
                    for s in simpler_floats(ks[i].1).into_iter().take(3) {
                        let mut q = ks.clone();
                        q[i].1 = s;
                        let mut d = c.clone();
                        d.f.insert(k.clone(), Val::Knots(q));
                        out.push(d);
                    }
                }
            }
            Val::S(_) => {}
        }
    }
    out
}

fn is_removal(a: &Case, b: &Case) -> bool {
    // candidate b removes an element from a (shorter request by at least one number)
    b.request_prefix().len() + 10 < a.request_prefix().len()
}

fn shrink(drv: &mut Drv, c: &Case, kind: &str, secs: u64) -> (Case, String, String) {
    // wall-clock cap: long cases (hundreds of numbers) make the quadratic simplification phase slow, and one shrunk
    // witness per failure class is what the replay needs
    let t0 = std::time::Instant::now();
    let over = |t0: &std::time::Instant| t0.elapsed().as_secs() >= secs;
    let mut best = c.clone();
    let mut best_req = full_request(&best);
    let mut best_resp = drv.ask(&best_req);
    let mut budget = 4000;
    // phase 1: drop elements (segments, queries, knots) while the failure persists
    loop {
        let mut improved = false;
        for cand in shrink_candidates(&best).into_iter().filter(|d| is_removal(&best, d)) {
            if budget == 0 || over(&t0) {
                budget = 0;
                break;
            }
            budget -= 1;
            let req = full_request(&cand);
            let resp = drv.ask(&req);
            if kind_of(&resp) == kind {
                best = cand;
                best_req = req;
                best_resp = resp;
                improved = true;
                break;
            }
        }
        if !improved || budget == 0 {
            break;
        }
    }
    // phase 2: simplify numbers, a few sweeps
    for _sweep in 0..3 {
        let mut improved = false;
        let cands: Vec<Case> = shrink_candidates(&best).into_iter().filter(|d| !is_removal(&best, d)).collect();
        let mut i = 0;
        while i < cands.len() && budget > 0 && !over(&t0) {
            // re-apply the i-th kind of simplification to the current best
            let fresh: Vec<Case> = shrink_candidates(&best).into_iter().filter(|d| !is_removal(&best, d)).collect();
            if i >= fresh.len() {
                break;
            }
            let cand = fresh[i].clone();
            budget -= 1;
            let req = full_request(&cand);
            let resp = drv.ask(&req);
            if kind_of(&resp) == kind && req != best_req {
                best = cand;
                best_req = req;
                best_resp = resp;
                improved = true;
            }
            i += 1;
        }
        if !improved {
            break;
        }
    }
    (best, best_req, best_resp)
}

fn key_type(k: &str) -> char {
    match k {
        "p" | "q" | "xs" | "k" => 'L',
        "pw" | "pw2" | "f" | "g" => 'P',
        "knots" => 'K',
        "op" | "fmt" | "bytes" | "val" | "kind" | "nowin" | "level" => 'S',
        _ => 'F',
    }
}

fn parse_f(s: &str) -> f64 {
    f64::from_bits(u64::from_str_radix(s, 16).expect("hex float"))
}
fn parse_l(s: &str) -> Vec<f64> {
    if s.is_empty() {
        vec![]
    } else {
        s.split(',').map(parse_f).collect()
    }
}

/// parse a request prefix (`cmd T=tag k=v ...`) back into a case; output fields are dropped
pub fn parse_case(line: &str) -> Option<Case> {
    let mut it = line.split_whitespace();
    let cmd = it.next()?;
    let mut c = Case::new(cmd, "-");
    for tok in it {
        let (k, v) = tok.split_once('=')?;
        if k == "T" {
            c.tag = v.to_string();
            continue;
        }
        if matches!(k, "impl" | "direct" | "directmax" | "byref" | "ln" | "exp" | "agree" | "tree" | "borsh" | "rt" | "lazy" | "deps" | "dmr" | "eq" | "takerest" | "neok" | "aliasok" | "iterok") {
            continue;
        }
        let val = match key_type(k) {
            'L' => Val::L(parse_l(v)),
            'P' => Val::Pw(if v.is_empty() {
                vec![]
            } else {
                v.split(';')
                    .map(|s| {
                        let (e, n) = s.split_once(':').unwrap_or((s, ""));
                        (parse_f(e), parse_l(n))
                    })
                    .collect()
            }),
            'K' => Val::Knots(if v.is_empty() {
                vec![]
            } else {
                v.split(';')
                    .map(|s| {
                        let l = parse_l(s);
                        (l[0], l[1])
                    })
                    .collect()
            }),
            'S' => Val::S(v.to_string()),
            _ => Val::F(parse_f(v)),
        };
        c.f.insert(k.to_string(), val);
    }
    Some(c)
}

fn jstr(s: &str) -> String {
    serde_json::to_string(s).unwrap()
}

fn main() {
    // everything runs on a thread with the stack a spawned Rust thread (and a `cargo test` test) gets by default, 2 MiB,
    // not on the 8 MiB main thread: recursion depth that only the main thread forgives is a defect for most callers
    let kb: usize = std::env::var("PP_STACK_KB").ok().and_then(|s| s.parse().ok()).unwrap_or(2048);
    let h = std::thread::Builder::new().stack_size(kb * 1024).spawn(real_main).expect("spawn");
    let _ = h.join();
}

fn real_main() {
    std::panic::set_hook(Box::new(|_| {}));
    let args: Vec<String> = std::env::args().collect();
    let mut opt: BTreeMap<String, String> = BTreeMap::new();
    let mut i = 1;
    while i + 1 < args.len() {
        opt.insert(args[i].trim_start_matches("--").to_string(), args[i + 1].clone());
        i += 2;
    }
    if let Some(path) = opt.get("implonly") {
        // no model: print each case with the real implementation's outputs (used by the python oracles)
        let text = std::fs::read_to_string(path).expect("case file");
        let mut out = String::new();
        for line in text.lines() {
            let line = line.trim();
            if line.is_empty() || line.starts_with('#') {
                continue;
            }
            if let Some(c) = parse_case(line) {
                out.push_str(&full_request(&extra::prepare(c)));
                out.push('\n');
            }
        }
        print!("{out}");
        return;
    }
    let drv_path = opt.get("drv").expect("--drv").clone();
    let mut drv = Drv::start(&drv_path);

    if let Some(path) = opt.get("replay") {
        // a replay file holds request prefixes, one per line (lines starting with # are comments)
        let text = std::fs::read_to_string(path).expect("replay file");
        let mut bad = 0;
        for line in text.lines() {
            let line = line.trim();
            if line.is_empty() || line.starts_with('#') {
                continue;
            }
            let Some(c) = parse_case(line) else { continue };
            let c = extra::prepare(c);
            let req = full_request(&c);
            let resp = drv.ask(&req);
            println!("REQUEST  {req}");
            println!("RESPONSE {resp}");
            if resp != "ok" {
                bad += 1;
            }
        }
        std::process::exit(if bad > 0 { 1 } else { 0 });
    }

    let campaign = opt.get("campaign").expect("--campaign").clone();
    let n: u64 = opt.get("n").map(|s| s.parse().unwrap()).unwrap_or(1000);
    let seed: u64 = opt.get("seed").map(|s| s.parse().unwrap()).unwrap_or(1);
    let t0 = Instant::now();
    let mut rng = Rng::new(seed ^ fnv(&campaign));
    let mut classes: BTreeMap<String, u64> = BTreeMap::new();
    let mut seen: HashSet<u64> = HashSet::new();
    let mut seen_nt: HashSet<u64> = HashSet::new();
    let mut samples: Vec<String> = vec![];
    let mut failures: Vec<serde_json::Value> = vec![];
    let mut counts: BTreeMap<String, u64> = BTreeMap::new();
    let mut impl_panics = 0u64;
    let mut cases_run = 0u64;

    let mut todo: Vec<(Case, bool)> = vec![];
    if let Some(cp) = opt.get("corpus") {
        if let Ok(text) = std::fs::read_to_string(cp) {
            for line in text.lines() {
                let line = line.trim();
                if line.is_empty() || line.starts_with('#') {
                    continue;
                }
                if let Some(c) = parse_case(line) {
                    todo.push((extra::prepare(c), true));
                }
            }
        }
    }
    let corpus_n = todo.len() as u64;
    let exhaustive = campaign.starts_with("exh-");
    if exhaustive {
        let shard: usize = opt.get("shard").map(|s| s.parse().unwrap()).unwrap_or(0);
        let shards: usize = opt.get("shards").map(|s| s.parse().unwrap()).unwrap_or(1);
        for c in exhaustive::enumerate(&campaign, shard, shards) {
            todo.push((c, false));
        }
    }

    // wall-clock budget for the generated part of the campaign (0 = none): the quick tier must stay quick even when every
    // case is slow (long inputs, shrinking); the report says how many cases actually ran
    let last_path: Option<String> = opt.get("out").map(|o| format!("{o}.last"));
    let max_secs: u64 = opt.get("max-secs").map(|s| s.parse().unwrap()).unwrap_or(0);
    let t_start = std::time::Instant::now();
    let mut idx = 0u64;
    let mut todo_iter = todo.into_iter();
    loop {
        let (case, from_corpus) = if let Some(t) = todo_iter.next() {
            t
        } else if exhaustive {
            break;
        } else if idx < n && !(max_secs > 0 && idx * 2 >= n && t_start.elapsed().as_secs() >= max_secs) {
            idx += 1;
            let c = if extra::is_extra(&campaign) { extra::gen_case(&campaign, &mut rng) } else { campaigns::gen_case(&campaign, &mut rng) };
            (c, false)
        } else {
            break;
        };
        cases_run += 1;
        // the case about to run, for the orchestrator to pick up if the implementation takes the whole process down
        // (stack overflow, abort): `catch_unwind` cannot catch those
        if let Some(lp) = &last_path {
            let _ = std::fs::write(lp, case.request_prefix());
        }
        let req = full_request(&case);
        if req.contains("impl=PANIC") {
            impl_panics += 1;
        }
        let h = fnv(&case.request_prefix());
        seen.insert(h);
        if case.nontrivial {
            seen_nt.insert(h);
        }
        for c in &case.classes {
            *classes.entry(c.clone()).or_insert(0) += 1;
        }
        if samples.len() < 5 && !from_corpus && (cases_run % 7 == 1) {
            samples.push(req.clone());
        }
        let resp = drv.ask(&req);
        let kind = kind_of(&resp);
        *counts.entry(kind.split(' ').next().unwrap().to_string()).or_insert(0) += 1;
        if kind != "ok" {
            if failures.len() < 20 {
                let (sc, sreq, sresp) = if kind == "bad" { (case.clone(), req.clone(), resp.clone()) } else { shrink(&mut drv, &case, &kind, if failures.len() < 3 { 8 } else { 1 }) };
                failures.push(serde_json::json!({
                    "kind": kind.split(' ').next().unwrap(),
                    "campaign": campaign,
                    "request": req,
                    "response": resp,
                    "shrunk_prefix": sc.request_prefix(),
                    "shrunk_request": sreq,
                    "shrunk_response": sresp,
                    "from_corpus": from_corpus,
                }));
            }
        }
    }
    let report = serde_json::json!({
        "campaign": campaign,
        "seed": seed,
        "exhaustive": exhaustive,
        "scope": exhaustive::scope(&campaign),
        "cases": cases_run,
        "corpus_cases": corpus_n,
        "distinct": seen.len(),
        "distinct_nontrivial": seen_nt.len(),
        "classes": classes,
        "counts": counts,
        "impl_panics": impl_panics,
        "need_roundtrips": drv.needs,
        "failures": failures,
        "samples": samples,
        "wall_s": t0.elapsed().as_secs_f64(),
    });
    let text = serde_json::to_string_pretty(&report).unwrap();
    match opt.get("out") {
        Some(p) => std::fs::write(p, text).unwrap(),
        None => println!("{text}"),
    }
    let _ = jstr("");
}

pub fn fnv(s: &str) -> u64 {
    let mut h: u64 = 0xcbf29ce484222325;
    for b in s.bytes() {
        h ^= b as u64;
        h = h.wrapping_mul(0x100000001b3);
    }
    h
}
