//! A minimal NON-self-describing binary serde format with the data-model mapping of bincode / postcard: a struct is its
//! fields in order, a sequence is a u64 length followed by the elements, a newtype is its content, f64 is 8
//! little-endian bytes; it cannot implement `deserialize_any`.  C18 is format-agnostic ("serde"): JSON and CBOR are
//! self-describing, so a Deserialize impl that silently relies on self-description (untagged enums, deserialize_any)
//! round-trips through them and fails here.
#![allow(dead_code)]
use serde::de::{self, DeserializeOwned, DeserializeSeed, SeqAccess, Visitor};
use serde::ser::{self, Serialize};
use std::fmt;

#[derive(Debug)]
pub struct WireError(String);
impl fmt::Display for WireError {
    fn fmt(&self, f: &mut fmt::Formatter) -> fmt::Result {
        f.write_str(&self.0)
    }
}
impl std::error::Error for WireError {}
impl ser::Error for WireError {
    fn custom<T: fmt::Display>(m: T) -> Self {
        WireError(m.to_string())
    }
}
impl de::Error for WireError {
    fn custom<T: fmt::Display>(m: T) -> Self {
        WireError(m.to_string())
    }
}

// ---------------------------------------------------------------- serializer
struct Ser {
    out: Vec<u8>,
}

macro_rules! unsupported_ser {
    ($($name:ident($ty:ty))*) => {$(
        fn $name(self, _: $ty) -> Result<(), WireError> {
            Err(WireError(concat!(stringify!($name), " is not used by this crate's types").into()))
        }
    )*};
}

impl<'a> ser::Serializer for &'a mut Ser {
    type Ok = ();
    type Error = WireError;
    type SerializeSeq = Self;
    type SerializeTuple = Self;
    type SerializeTupleStruct = Self;
    type SerializeTupleVariant = ser::Impossible<(), WireError>;
    type SerializeMap = ser::Impossible<(), WireError>;
    type SerializeStruct = Self;
    type SerializeStructVariant = ser::Impossible<(), WireError>;

    fn is_human_readable(&self) -> bool {
        false
    }
    fn serialize_f64(self, v: f64) -> Result<(), WireError> {
        self.out.extend_from_slice(&v.to_le_bytes());
        Ok(())
    }
    fn serialize_u64(self, v: u64) -> Result<(), WireError> {
        self.out.extend_from_slice(&v.to_le_bytes());
        Ok(())
    }
    unsupported_ser! {
        serialize_bool(bool) serialize_i8(i8) serialize_i16(i16) serialize_i32(i32) serialize_i64(i64)
        serialize_u8(u8) serialize_u16(u16) serialize_u32(u32) serialize_f32(f32) serialize_char(char)
        serialize_str(&str) serialize_bytes(&[u8]) serialize_unit_struct(&'static str)
    }
    fn serialize_none(self) -> Result<(), WireError> {
        Err(WireError("option".into()))
    }
    fn serialize_some<T: ?Sized + Serialize>(self, _: &T) -> Result<(), WireError> {
        Err(WireError("option".into()))
    }
    fn serialize_unit(self) -> Result<(), WireError> {
        Ok(())
    }
    fn serialize_unit_variant(self, _: &'static str, _: u32, _: &'static str) -> Result<(), WireError> {
        Err(WireError("enum".into()))
    }
    fn serialize_newtype_struct<T: ?Sized + Serialize>(self, _: &'static str, v: &T) -> Result<(), WireError> {
        v.serialize(self)
    }
    fn serialize_newtype_variant<T: ?Sized + Serialize>(
        self,
        _: &'static str,
        _: u32,
        _: &'static str,
        _: &T,
    ) -> Result<(), WireError> {
        Err(WireError("enum".into()))
    }
    fn serialize_seq(self, len: Option<usize>) -> Result<Self, WireError> {
        let len = len.ok_or_else(|| WireError("sequence length must be known".into()))?;
        self.out.extend_from_slice(&(len as u64).to_le_bytes());
        Ok(self)
    }
    fn serialize_tuple(self, _: usize) -> Result<Self, WireError> {
        Ok(self)
    }
    fn serialize_tuple_struct(self, _: &'static str, _: usize) -> Result<Self, WireError> {
        Ok(self)
    }
    fn serialize_tuple_variant(
        self,
        _: &'static str,
        _: u32,
        _: &'static str,
        _: usize,
    ) -> Result<Self::SerializeTupleVariant, WireError> {
        Err(WireError("enum".into()))
    }
    fn serialize_map(self, _: Option<usize>) -> Result<Self::SerializeMap, WireError> {
        Err(WireError("map".into()))
    }
    fn serialize_struct(self, _: &'static str, _: usize) -> Result<Self, WireError> {
        Ok(self)
    }
    fn serialize_struct_variant(
        self,
        _: &'static str,
        _: u32,
        _: &'static str,
        _: usize,
    ) -> Result<Self::SerializeStructVariant, WireError> {
        Err(WireError("enum".into()))
    }
}
impl<'a> ser::SerializeSeq for &'a mut Ser {
    type Ok = ();
    type Error = WireError;
    fn serialize_element<T: ?Sized + Serialize>(&mut self, v: &T) -> Result<(), WireError> {
        v.serialize(&mut **self)
    }
    fn end(self) -> Result<(), WireError> {
        Ok(())
    }
}
impl<'a> ser::SerializeTuple for &'a mut Ser {
    type Ok = ();
    type Error = WireError;
    fn serialize_element<T: ?Sized + Serialize>(&mut self, v: &T) -> Result<(), WireError> {
        v.serialize(&mut **self)
    }
    fn end(self) -> Result<(), WireError> {
        Ok(())
    }
}
impl<'a> ser::SerializeTupleStruct for &'a mut Ser {
    type Ok = ();
    type Error = WireError;
    fn serialize_field<T: ?Sized + Serialize>(&mut self, v: &T) -> Result<(), WireError> {
        v.serialize(&mut **self)
    }
    fn end(self) -> Result<(), WireError> {
        Ok(())
    }
}
impl<'a> ser::SerializeStruct for &'a mut Ser {
    type Ok = ();
    type Error = WireError;
    fn serialize_field<T: ?Sized + Serialize>(&mut self, _: &'static str, v: &T) -> Result<(), WireError> {
        v.serialize(&mut **self)
    }
    fn end(self) -> Result<(), WireError> {
        Ok(())
    }
}

// -------------------------------------------------------------- deserializer
struct De<'de> {
    input: &'de [u8],
}
impl<'de> De<'de> {
    fn take8(&mut self) -> Result<[u8; 8], WireError> {
        if self.input.len() < 8 {
            return Err(WireError("unexpected end of input".into()));
        }
        let (head, rest) = self.input.split_at(8);
        self.input = rest;
        let mut b = [0u8; 8];
        b.copy_from_slice(head);
        Ok(b)
    }
}
struct Counted<'a, 'de> {
    de: &'a mut De<'de>,
    left: usize,
}
impl<'a, 'de> SeqAccess<'de> for Counted<'a, 'de> {
    type Error = WireError;
    fn next_element_seed<S: DeserializeSeed<'de>>(&mut self, seed: S) -> Result<Option<S::Value>, WireError> {
        if self.left == 0 {
            return Ok(None);
        }
        self.left -= 1;
        seed.deserialize(&mut *self.de).map(Some)
    }
    fn size_hint(&self) -> Option<usize> {
        Some(self.left)
    }
}

macro_rules! not_self_describing {
    ($($name:ident)*) => {$(
        fn $name<V: Visitor<'de>>(self, _: V) -> Result<V::Value, WireError> {
            Err(WireError(concat!(
                "this format is not self-describing: ", stringify!($name), " is not supported").into()))
        }
    )*};
}

impl<'a, 'de> de::Deserializer<'de> for &'a mut De<'de> {
    type Error = WireError;
    fn is_human_readable(&self) -> bool {
        false
    }
    not_self_describing! {
        deserialize_any deserialize_ignored_any deserialize_identifier
        deserialize_bool deserialize_i8 deserialize_i16 deserialize_i32 deserialize_i64
        deserialize_u8 deserialize_u16 deserialize_u32 deserialize_f32 deserialize_char
        deserialize_str deserialize_string deserialize_bytes deserialize_byte_buf
        deserialize_option deserialize_map
    }
    fn deserialize_f64<V: Visitor<'de>>(self, v: V) -> Result<V::Value, WireError> {
        v.visit_f64(f64::from_le_bytes(self.take8()?))
    }
    fn deserialize_u64<V: Visitor<'de>>(self, v: V) -> Result<V::Value, WireError> {
        v.visit_u64(u64::from_le_bytes(self.take8()?))
    }
    fn deserialize_unit<V: Visitor<'de>>(self, v: V) -> Result<V::Value, WireError> {
        v.visit_unit()
    }
    fn deserialize_unit_struct<V: Visitor<'de>>(self, _: &'static str, v: V) -> Result<V::Value, WireError> {
        v.visit_unit()
    }
    fn deserialize_newtype_struct<V: Visitor<'de>>(self, _: &'static str, v: V) -> Result<V::Value, WireError> {
        v.visit_newtype_struct(self)
    }
    fn deserialize_seq<V: Visitor<'de>>(self, v: V) -> Result<V::Value, WireError> {
        let left = u64::from_le_bytes(self.take8()?) as usize;
        v.visit_seq(Counted { de: self, left })
    }
    fn deserialize_tuple<V: Visitor<'de>>(self, len: usize, v: V) -> Result<V::Value, WireError> {
        v.visit_seq(Counted { de: self, left: len })
    }
    fn deserialize_tuple_struct<V: Visitor<'de>>(
        self,
        _: &'static str,
        len: usize,
        v: V,
    ) -> Result<V::Value, WireError> {
        v.visit_seq(Counted { de: self, left: len })
    }
    fn deserialize_struct<V: Visitor<'de>>(
        self,
        _: &'static str,
        fields: &'static [&'static str],
        v: V,
    ) -> Result<V::Value, WireError> {
        v.visit_seq(Counted { de: self, left: fields.len() })
    }
    fn deserialize_enum<V: Visitor<'de>>(
        self,
        _: &'static str,
        _: &'static [&'static str],
        _: V,
    ) -> Result<V::Value, WireError> {
        Err(WireError("enum".into()))
    }
}

pub fn to_wire<T: Serialize>(v: &T) -> Vec<u8> {
    let mut s = Ser { out: Vec::new() };
    v.serialize(&mut s).expect("serialize");
    s.out
}
pub fn from_wire<T: DeserializeOwned>(bytes: &[u8]) -> Result<T, WireError> {
    let mut d = De { input: bytes };
    let v = T::deserialize(&mut d)?;
    if !d.input.is_empty() {
        return Err(WireError("trailing bytes".into()));
    }
    Ok(v)
}
