//! Campaigns that need more than numbers in, numbers out: `Arbitrary` (C19), serialization (C18).
use crate::gen::*;
use crate::run::{Case, Val};
use crate::types::*;
use arbitrary::{Arbitrary, Unstructured};
use piecewise_polynomial::*;
use std::panic::{catch_unwind, AssertUnwindSafe};

pub fn is_extra(campaign: &str) -> bool {
    matches!(campaign, "arbitrary" | "serde")
}

fn hex_bytes(b: &[u8]) -> String {
    b.iter().map(|x| format!("{x:02x}")).collect()
}
pub fn parse_hex_bytes(s: &str) -> Vec<u8> {
    (0..s.len() / 2).map(|i| u8::from_str_radix(&s[2 * i..2 * i + 2], 16).unwrap_or(0)).collect()
}

pub fn gen_case(campaign: &str, r: &mut Rng) -> Case {
    match campaign {
        "arbitrary" => {
            let tag = *r.pick(&["p0", "p0", "p1", "p2", "p3", "p4", "p5", "p6", "p7", "p8", "pn"]);
            let mut bytes: Vec<u8> = vec![];
            let style = r.below(8);
            let mut cls = format!("{tag}:style={style}");
            if style == 0 {
                let n = r.below(200) as usize;
                for _ in 0..n {
                    bytes.push(r.below(256) as u8);
                }
            } else {
                // structured: [bool f64]* terminator pieces
                let n = match style {
                    1 => 0,
                    // usually 1..6 ends; one case in twelve is long (std's sort switches algorithm above 20 elements)
                    _ => crate::campaigns::size_capped(r, 1, 6, 600),
                };
                let mut ends = vec![];
                for i in 0..n {
                    let e = match style {
                        2 => (n - i) as f64 * 1.5,                       // descending
                        3 => gen_cls(r, Cls::Normal),                     // random normal, any sign
                        4 => {
                            // one bad end among good ones
                            if r.chance(1, 3) {
                                *r.pick(&[f64::NAN, f64::INFINITY, f64::NEG_INFINITY, 0.0, -0.0, 5e-324, f64::MIN_POSITIVE / 2.0])
                            } else {
                                gen_cls(r, Cls::Normal)
                            }
                        }
                        5 => *r.pick(&[1.0, 2.0, -3.0, f64::MIN_POSITIVE, f64::MAX, -f64::MAX]), // duplicates, extremes
                        6 => { let v = (r.range(-40, 40) as f64) * 0.5; if v == 0.0 { 0.25 } else { v } } // many duplicates among long lists, both signs, unsorted
                        _ => moderate(r).0,
                    };
                    ends.push(e);
                }
                for e in &ends {
                    bytes.push(if r.chance(1, 2) { 1 } else { (r.below(128) * 2 + 1) as u8 });
                    bytes.extend_from_slice(&e.to_bits().to_le_bytes());
                }
                if r.chance(3, 4) {
                    bytes.push((r.below(128) * 2) as u8); // explicit `false`
                }
                // piece data: full, truncated or random
                let want = ends.len() * 8 * (1 + tag_len(tag).min(9));
                let have = match r.below(3) {
                    0 => want,
                    1 => r.below(want as u64 + 1) as usize,
                    _ => want + 16,
                };
                for _ in 0..have {
                    bytes.push(if r.chance(1, 8) { 1 } else { r.below(256) as u8 });
                }
                cls.push_str(&format!(":n={}:short={}", if n > 20 { "long".to_string() } else { n.min(3).to_string() }, have < want));
            }
            let mut c = Case::new("arbitrary", tag).set("bytes", Val::S(hex_bytes(&bytes))).cls(&cls);
            c.nontrivial = bytes.len() >= 18;
            c
        }
        other => crate::serde_campaign::gen_case(other, r),
    }
}

/// hook for cases read back from a corpus / replay file
pub fn prepare(c: Case) -> Case {
    c
}

fn arb_one<T>(bytes: &[u8]) -> (String, String)
where
    T: for<'a> Arbitrary<'a> + Nums + Evaluate,
{
    let r = catch_unwind(AssertUnwindSafe(|| {
        let mut u = Unstructured::new(bytes);
        match Piecewise::<T>::arbitrary(&mut u) {
            Err(_) => ("ERR".to_string(), "1".to_string()),
            Ok(pw) => {
                // every value returned can be evaluated three ways with identical segment choice
                let mut xs: Vec<f64> = vec![f64::NEG_INFINITY];
                for s in &pw.segments {
                    xs.push(next_down(s.end));
                    xs.push(s.end);
                    xs.push(next_up(s.end));
                }
                xs.push(f64::INFINITY);
                xs.sort_by(|a, b| a.partial_cmp(b).unwrap());
                let agree = catch_unwind(AssertUnwindSafe(|| {
                    let nan_eq = |a: &Vec<u64>, b: &Vec<u64>| {
                        a.len() == b.len() && a.iter().zip(b).all(|(x, y)| x == y || (f64::from_bits(*x).is_nan() && f64::from_bits(*y).is_nan()))
                    };
                    // ascending sweep: all three ways
                    let direct: Vec<u64> = xs.iter().map(|x| pw.evaluate(*x).to_bits()).collect();
                    let mut ev = PiecewiseEvaluator::new(&pw.segments);
                    let via_ev: Vec<u64> = xs.iter().map(|x| ev.evaluate(*x).to_bits()).collect();
                    let via_v: Vec<u64> = pw.evaluate_v(xs.iter().cloned()).map(|y| y.to_bits()).collect();
                    // zig-zag history with NaN queries: evaluator against direct evaluation
                    let mut zig: Vec<f64> = vec![];
                    let (mut lo, mut hi) = (0usize, xs.len());
                    while lo < hi {
                        hi -= 1;
                        zig.push(xs[hi]);
                        if lo < hi {
                            zig.push(xs[lo]);
                            lo += 1;
                        }
                        if zig.len() % 5 == 0 {
                            zig.push(f64::NAN);
                        }
                    }
                    let mut ev2 = PiecewiseEvaluator::new(&pw.segments);
                    let zig_ev: Vec<u64> = zig.iter().map(|x| ev2.evaluate(*x).to_bits()).collect();
                    let zig_direct: Vec<u64> = zig.iter().map(|x| pw.evaluate(*x).to_bits()).collect();
                    // a NaN argument: all three choose the same (last) segment
                    let nan_direct = vec![pw.evaluate(f64::NAN).to_bits()];
                    let nan_v: Vec<u64> = pw.evaluate_v(vec![f64::NAN]).map(|y| y.to_bits()).collect();
                    let last = vec![pw.segments.last().unwrap().poly.evaluate(f64::NAN).to_bits()];
                    nan_eq(&direct, &via_ev) && nan_eq(&direct, &via_v) && nan_eq(&zig_direct, &zig_ev)
                        && nan_eq(&nan_direct, &nan_v) && nan_eq(&nan_direct, &last)
                }))
                .unwrap_or(false);
                (show_pw(&pw_from(&pw)), if agree { "1".into() } else { "0".into() })
            }
        }
    }));
    r.unwrap_or(("PANIC".to_string(), "1".to_string()))
}

/// the other entry point of the trait: `arbitrary_take_rest` (what `fuzz_target!` calls); C19 is about every value the
/// impl returns, through whichever entry point
fn arb_rest<T>(bytes: &[u8]) -> String
where
    T: for<'a> Arbitrary<'a> + Nums + Evaluate,
{
    catch_unwind(AssertUnwindSafe(|| match Piecewise::<T>::arbitrary_take_rest(Unstructured::new(bytes)) {
        Err(_) => "ERR".to_string(),
        Ok(pw) => {
            // must also be evaluable without panicking
            if !pw.segments.is_empty() {
                let _ = pw.evaluate(0.0);
            }
            show_pw(&pw_from(&pw))
        }
    }))
    .unwrap_or_else(|_| "PANIC".to_string())
}

pub fn run_extra(c: &Case) -> Option<Vec<(String, String)>> {
    match c.cmd.as_str() {
        "arbitrary" => {
            let bytes = parse_hex_bytes(c.st("bytes"));
            let (imp, agree) = match c.tag.as_str() {
                "p0" => arb_one::<Poly0>(&bytes),
                "p1" => arb_one::<Poly1>(&bytes),
                "p2" => arb_one::<Poly2>(&bytes),
                "p3" => arb_one::<Poly3>(&bytes),
                "p4" => arb_one::<Poly4>(&bytes),
                "p5" => arb_one::<Poly5>(&bytes),
                "p6" => arb_one::<Poly6>(&bytes),
                "p7" => arb_one::<Poly7>(&bytes),
                "p8" => arb_one::<Poly8>(&bytes),
                "pn" => arb_one::<PolyN>(&bytes),
                _ => ("UNSUPPORTED".into(), "1".into()),
            };
            let rest = match c.tag.as_str() {
                "p0" => arb_rest::<Poly0>(&bytes),
                "p1" => arb_rest::<Poly1>(&bytes),
                "p2" => arb_rest::<Poly2>(&bytes),
                "p3" => arb_rest::<Poly3>(&bytes),
                "p4" => arb_rest::<Poly4>(&bytes),
                "p5" => arb_rest::<Poly5>(&bytes),
                "p6" => arb_rest::<Poly6>(&bytes),
                "p7" => arb_rest::<Poly7>(&bytes),
                "p8" => arb_rest::<Poly8>(&bytes),
                "pn" => arb_rest::<PolyN>(&bytes),
                _ => "ERR".into(),
            };
            Some(vec![("agree".into(), agree), ("takerest".into(), rest), ("impl".into(), imp)])
        }
        "serde" => crate::serde_campaign::run(c),
        _ => None,
    }
}
