//! Campaigns that need more than numbers in, numbers out (serialization, Arbitrary): added later.
use crate::gen::Rng;
use crate::run::Case;

pub fn is_extra(_campaign: &str) -> bool {
    false
}
pub fn gen_case(campaign: &str, _r: &mut Rng) -> Case {
    panic!("unknown campaign {campaign}")
}
/// hook for cases read back from a corpus / replay file
pub fn prepare(c: Case) -> Case {
    c
}
